/-
  Driver — line protocol between the Python correspondence harness and the executable model
  (DESIGN Appendix B).  One case per input line, tab-separated: `<id> <op> <arg>…`; one output line
  per case: `<id> ok <value>` | `<id> err <PyErrKind>` | `<id> bad-op <why>`.

  Token syntax: decimal ints; `[a,b,c]` int lists (field elements; an FQ is `[n]`); `x<hex>` bytes;
  `{x..,x..}` list of byte strings; `inf` (None); `!other` (a non-int Python object);
  hash spec `sha256` or `T<ds>:<bs>:<hexin>=<hexout>,…` (transcript).
-/
import PyEcc

open PyEcc PyEcc.Gen.Consts

inductive Tok where
  | int (z : Int)
  | list (l : List Int)
  | bytes (b : Bytes)
  | blist (l : List Bytes)
  | inf
  | other
  | hash (h : HashFn)
  | str (s : String)

def dropFirst (s : String) : String := String.ofList (s.toList.drop 1)
def dropBoth (s : String) : String := String.ofList ((s.toList.drop 1).dropLast)
def trimEol (s : String) : String :=
  String.ofList ((s.toList.reverse.dropWhile (fun c => c == '\n' || c == '\r')).reverse)

def parseIntList (s : String) : Option (List Int) :=
  let inner := dropBoth s
  if inner.isEmpty then some [] else (inner.splitOn ",").mapM String.toInt?

def parseHashSpec (s : String) : Option HashFn :=
  if s == "sha256" then some sha256Fn
  else if s.startsWith "T" then
    match (dropFirst s).splitOn ":" with
    | [ds, bs, body] => do
      let ds ← ds.toNat?
      let bs ← bs.toNat?
      let parsePair : String → Option (Bytes × Bytes) := fun kv =>
        match kv.splitOn "=" with
        | [k, v] => do
          let a ← Bytes.ofHex k
          let b ← Bytes.ofHex v
          pure (a, b)
        | _ => none
      let pairs ← (if body.isEmpty then some [] else (body.splitOn ",").mapM parsePair)
      pure (transcriptFn ds bs pairs)
    | _ => none
  else none

def parseTok (s : String) : Tok :=
  if s == "inf" then .inf
  else if s == "!other" then .other
  else if s.startsWith "[" then (match parseIntList s with | some l => .list l | none => .str s)
  else if s.startsWith "x" then (match Bytes.ofHex (dropFirst s) with | some b => .bytes b | none => .str s)
  else if s.startsWith "{" then
    let inner := dropBoth s
    if inner.isEmpty then .blist []
    else match (inner.splitOn ",").mapM (fun h => Bytes.ofHex (dropFirst h)) with
      | some l => .blist l | none => .str s
  else if s == "sha256" || s.startsWith "T" then
    (match parseHashSpec s with | some h => .hash h | none => .str s)
  else match s.toInt? with
    | some z => .int z
    | none => .str s

/-- result of one case -/
inductive Res where
  | ok (s : String)
  | err (e : PyErr)
  | bad (why : String)

def showList (l : List Int) : String := "[" ++ ",".intercalate (l.map toString) ++ "]"
def showBool (b : Bool) : String := if b then "True" else "False"
def showBytes (b : Bytes) : String := "x" ++ b.toHex

/-- uniform view of a field type for the driver -/
class FieldIO (F : Type) where
  ofList : List Int → F
  toList : F → List Int

instance {p : Nat} [NeZero p] : FieldIO (Fq p) := ⟨fun l => Fq.ofInt (getI l 0), fun a => [(a.n : Int)]⟩
instance {v p mc} : FieldIO (Fqp v p mc) := ⟨fun l => ⟨l⟩, fun a => a.coeffs⟩

section generic
variable {F : Type} [Zero F] [One F] [Add F] [Sub F] [Mul F] [Neg F] [Div F] [NatCast F] [Pow F Nat] [DecidableEq F]
  [FieldIO F]

def showF (a : F) : String := showList (FieldIO.toList a)

/-- projective points are printed affine-normalised (`x/z`, `y/z`), infinity as `inf` -/
def showP3 (pt : F × F × F) : String :=
  if pt.2.2 = (0 : F) then "inf" else showF (pt.1 / pt.2.2) ++ ";" ++ showF (pt.2.1 / pt.2.2)

def showP2 (pt : Option (F × F)) : String :=
  match pt with | none => "inf" | some (x, y) => showF x ++ ";" ++ showF y

def p3 (a b c : List Int) : F × F × F := (FieldIO.ofList a, FieldIO.ofList b, FieldIO.ofList c)

def exc {α : Type} (r : Except PyErr α) (f : α → String) : Res :=
  match r with | .ok a => .ok (f a) | .error e => .err e

/-- optimized-module curve operations at field type `F` -/
def optCurveOp (bls : Bool) (op : String) (args : List Tok) : Res :=
  match op, args with
  | "add", [.list a, .list b, .list c, .list d, .list e, .list f] =>
    let P : F × F × F := p3 a b c; let Q : F × F × F := p3 d e f
    .ok (showP3 (if bls then Gen.OptBls.add P Q else Gen.OptBn.add P Q))
  | "double", [.list a, .list b, .list c] =>
    let P : F × F × F := p3 a b c
    .ok (showP3 (if bls then Gen.OptBls.double P else Gen.OptBn.double P))
  | "neg", [.list a, .list b, .list c] =>
    let P : F × F × F := p3 a b c
    .ok (showP3 (if bls then Gen.OptBls.neg P else Gen.OptBn.neg P))
  | "multiply", [.list a, .list b, .list c, .int n] =>
    let P : F × F × F := p3 a b c
    .ok (showP3 (if bls then Gen.OptBls.multiply P n.toNat else Gen.OptBn.multiply P n.toNat))
  | "eq", [.list a, .list b, .list c, .list d, .list e, .list f] =>
    let P : F × F × F := p3 a b c; let Q : F × F × F := p3 d e f
    .ok (showBool (if bls then Gen.OptBls.eq P Q else Gen.OptBn.eq P Q))
  | "is_on_curve", [.list a, .list b, .list c, .list bb] =>
    let P : F × F × F := p3 a b c
    .ok (showBool (if bls then Gen.OptBls.is_on_curve P (FieldIO.ofList bb) else Gen.OptBn.is_on_curve P (FieldIO.ofList bb)))
  | "is_inf", [.list a, .list b, .list c] =>
    let P : F × F × F := p3 a b c
    .ok (showBool (if bls then Gen.OptBls.is_inf P else Gen.OptBn.is_inf P))
  | "normalize", [.list a, .list b, .list c] =>
    let P : F × F × F := p3 a b c
    let r := if bls then Gen.OptBls.normalize P else Gen.OptBn.normalize P
    .ok (showF r.1 ++ ";" ++ showF r.2)
  | "linefunc", [.list a, .list b, .list c, .list d, .list e, .list f, .list g, .list h, .list i] =>
    let P : F × F × F := p3 a b c; let Q : F × F × F := p3 d e f; let T : F × F × F := p3 g h i
    let r := if bls then Gen.OptBls.linefunc P Q T else Gen.OptBn.linefunc P Q T
    -- printed as the quotient num/den when den ≠ 0 (the representative-independent value)
    .ok (if r.2 = (0 : F) then "den0;" ++ showF r.1 else showF (r.1 / r.2))
  | _, _ => .bad "optCurveOp"

def optPt : Tok → Tok → Option (Option (F × F))
  | .inf, .inf => some none
  | .list a, .list b => some (some (FieldIO.ofList a, FieldIO.ofList b))
  | _, _ => none

/-- reference-module curve operations at field type `F` (affine, `inf inf` for None) -/
def refCurveOp (bls : Bool) (op : String) (args : List Tok) : Res :=
  match op, args with
  | "add", [a, b, c, d] =>
    match optPt (F := F) a b, optPt (F := F) c d with
    | some P, some Q => exc (if bls then Gen.RefBls.add P Q else Gen.RefBn.add P Q) showP2
    | _, _ => .bad "pt"
  | "double", [a, b] =>
    match optPt (F := F) a b with
    | some P => .ok (showP2 (if bls then Gen.RefBls.double P else Gen.RefBn.double P))
    | _ => .bad "pt"
  | "neg", [a, b] =>
    match optPt (F := F) a b with
    | some P => .ok (showP2 (if bls then Gen.RefBls.neg P else Gen.RefBn.neg P))
    | _ => .bad "pt"
  | "multiply", [a, b, .int n] =>
    match optPt (F := F) a b with
    | some P => exc (if bls then Gen.RefBls.multiply P n.toNat else Gen.RefBn.multiply P n.toNat) showP2
    | _ => .bad "pt"
  | "is_on_curve", [a, b, .list bb] =>
    match optPt (F := F) a b with
    | some P => .ok (showBool (if bls then Gen.RefBls.is_on_curve P (FieldIO.ofList bb) else Gen.RefBn.is_on_curve P (FieldIO.ofList bb)))
    | _ => .bad "pt"
  | "linefunc", [a, b, c, d, e, f] =>
    match optPt (F := F) a b, optPt (F := F) c d, optPt (F := F) e f with
    | some P, some Q, some T => exc (if bls then Gen.RefBls.linefunc P Q T else Gen.RefBn.linefunc P Q T) showF
    | _, _, _ => .bad "pt"
  | _, _ => .bad "refCurveOp"

end generic

/-- field spec: `q:<p>` or `e:<v>:<p>:<mc>`; runs `k` at the chosen type -/
def withField (spec : String) (kq : (p : Nat) → [NeZero p] → Res)
    (ke : (v : Variant) → (p : Nat) → (mc : List Int) → Res) : Res :=
  match spec.splitOn ":" with
  | ["q", p] | ["q", p, _] =>   -- optional third component (ref/opt) only matters to the Python side
    match p.toNat? with
    | some p => if h : p = 0 then .bad "p=0" else haveI : NeZero p := ⟨h⟩; kq p
    | none => .bad "fieldspec"
  | ["e", v, p, mc] =>
    match p.toNat?, parseIntList mc with
    | some p, some mc =>
      if v == "ref" then ke .ref p mc else if v == "opt" then ke .opt p mc else .bad "variant"
    | _, _ => .bad "fieldspec"
  | _ => .bad "fieldspec"

def fqOp (p : Nat) [NeZero p] (op : String) (args : List Tok) : Res :=
  let e (l : List Int) : Fq p := Fq.ofInt (getI l 0)
  let s (a : Fq p) : String := toString a.n
  match op, args with
  | "add", [.list a, .list b] => .ok (s (e a + e b))
  | "sub", [.list a, .list b] => .ok (s (e a - e b))
  | "mul", [.list a, .list b] => .ok (s (e a * e b))
  | "div", [.list a, .list b] => .ok (s (e a / e b))
  | "neg", [.list a] => .ok (s (-(e a)))
  | "inv", [.list a] => .ok (s (Fq.inv (e a)))
  | "pow", [.list a, .int n] => .ok (s ((e a) ^ n.toNat))
  | "eq", [.list a, .list b] => .ok (showBool (e a == e b))
  | "sgn0", [.list a] => .ok (toString (e a).sgn0)
  | "addi", [.list a, .int k] => .ok (s (Fq.addInt (e a) k))
  | "muli", [.list a, .int k] => .ok (s (Fq.mulInt (e a) k))
  | "subi", [.list a, .int k] => .ok (s (Fq.subInt (e a) k))
  | "rsubi", [.list a, .int k] => .ok (s (Fq.rsubInt (e a) k))
  | "divi", [.list a, .int k] => .ok (s (Fq.divInt (e a) k))
  | "rdivi", [.list a, .int k] => .ok (s (Fq.rdivInt (e a) k))
  | "eqi", [.list a, .int k] => .ok (showBool (Fq.eqInt (e a) k))
  | "lti", [.list a, .int k] => .ok (showBool (Fq.ltInt (e a) k))
  | "ofint", [.int k] => .ok (s (Fq.ofInt k))
  | _, _ => .bad "fqOp"

def fqpOp (v : Variant) (p : Nat) (mc : List Int) (op : String) (args : List Tok) : Res :=
  let e (l : List Int) : Fqp v p mc := ⟨l⟩
  let s (a : Fqp v p mc) : String := showList a.coeffs
  match op, args with
  | "add", [.list a, .list b] => .ok (s (e a + e b))
  | "sub", [.list a, .list b] => .ok (s (e a - e b))
  | "mul", [.list a, .list b] => .ok (s (e a * e b))
  | "div", [.list a, .list b] => .ok (s (e a / e b))
  | "neg", [.list a] => .ok (s (-(e a)))
  | "inv", [.list a] => .ok (s (Fqp.inv (e a)))
  | "pow", [.list a, .int n] => .ok (s ((e a) ^ n.toNat))
  | "eq", [.list a, .list b] => .ok (showBool (Fqp.beq (e a) (e b)))
  | "muli", [.list a, .int k] => .ok (s (Fqp.mulInt (e a) k))
  | "divi", [.list a, .int k] => .ok (s (Fqp.divInt (e a) k))
  | "sgn0", [.list a] => .ok (toString (Fqp.sgn0 (e a)))
  | "sgn0_fq2", [.list a] => .ok (toString (Fqp.sgn0_fq2 (e a)))
  | "ofints", [.list a] => .ok (s (Fqp.ofInts a))
  | "one", [] => .ok (s 1)
  | "zero", [] => .ok (s 0)
  | _, _ => .bad "fqpOp"

def showOutcome : Outcome → Res
  | .returned b => .ok (showBool b)
  | .raised e => .err e

def g1 (a b c : List Int) : G1Pt := (Fq.ofInt (getI a 0), Fq.ofInt (getI b 0), Fq.ofInt (getI c 0))
def g2 (a b c : List Int) : G2Pt := (⟨a⟩, ⟨b⟩, ⟨c⟩)

def suiteOf (s : String) : Option Suite :=
  if s == "basic" then some .basic else if s == "aug" then some .aug else if s == "pop" then some .pop else none

def skOf : Tok → Option PyArg
  | .int z => some (.int z)
  | .other => some .other
  | _ => none

def showTrace (tr : List (G2Pt × G1Pt)) : String :=
  " ".intercalate (tr.map fun qp => showP3 qp.1 ++ "|" ++ showP3 qp.2)

def blsOp (op : String) (args : List Tok) : Res :=
  let H := sha256Fn
  match op, args with
  | "SkToPk", [sk] => match skOf sk with | some sk => exc (skToPk sk) showBytes | none => .bad "sk"
  | "KeyGen", [.bytes ikm, .bytes info] => exc (keyGen H ikm info) toString
  | "KeyValidate", [.bytes pk] => .ok (showBool (keyValidate pk))
  | "Sign", [.str s, sk, .bytes m] =>
    match suiteOf s, skOf sk with
    | some s, some sk => exc (sign H s sk m) showBytes
    | _, _ => .bad "Sign args"
  | "Verify", [.str s, .bytes pk, .bytes m, .bytes sg] =>
    match suiteOf s with | some s => showOutcome (verify H s pk m sg) | none => .bad "suite"
  | "VerifyTrace", [.str s, .bytes pk, .bytes m, .bytes sg] =>
    match suiteOf s with
    | some s =>
      let m' := if s == .aug then pk ++ m else m
      match coreVerifyBody H s pk m' sg s.dst with
      | .ok r => .ok (showBool r.1 ++ " " ++ showTrace r.2)
      | .error e => if caught3 e then .ok "False " else .err e   -- the `try/except` of _CoreVerify: no pairing was evaluated
    | none => .bad "suite"
  | "Aggregate", [.blist sigs] => exc (aggregate sigs) showBytes
  | "AggregateVerify", [.str s, .blist pks, .blist ms, .bytes sg] =>
    match suiteOf s with | some s => showOutcome (aggregateVerify H s pks ms sg) | none => .bad "suite"
  | "FastAggregateVerify", [.blist pks, .bytes m, .bytes sg] => showOutcome (fastAggregateVerify H pks m sg)
  | "PopProve", [sk] => match skOf sk with | some sk => exc (popProve H sk) showBytes | none => .bad "sk"
  | "PopVerify", [.bytes pk, .bytes pf] => showOutcome (popVerify H pk pf)
  | "AggregatePKs", [.blist pks] => exc (aggregatePKs pks) showBytes
  | _, _ => .bad "blsOp"

def showI3 (t : Int × Int × Int) : String := s!"{t.1} {t.2.1} {t.2.2}"
def showI2 (t : Int × Int) : String := s!"{t.1} {t.2}"

def secpOp (op : String) (args : List Tok) : Res :=
  let H := sha256Fn
  match op, args with
  | "inv", [.int a, .int n] => .ok (toString (Gen.Secp.inv a n))
  | "jacobian_double", [.int a, .int b, .int c] => .ok (showI3 (Gen.Secp.jacobian_double (a, b, c)))
  | "jacobian_add", [.int a, .int b, .int c, .int d, .int e, .int f] =>
    .ok (showI3 (Gen.Secp.jacobian_add (a, b, c) (d, e, f)))
  | "from_jacobian", [.int a, .int b, .int c] => .ok (showI2 (Gen.Secp.from_jacobian (a, b, c)))
  | "jacobian_multiply", [.int a, .int b, .int c, .int n] => exc (Gen.Secp.jacobian_multiply (a, b, c) n) showI3
  | "multiply", [.int a, .int b, .int n] => exc (Gen.Secp.multiply (a, b) n) showI2
  | "add", [.int a, .int b, .int c, .int d] => .ok (showI2 (Gen.Secp.add (a, b) (c, d)))
  | "privtopub", [.bytes x] => exc (Ecdsa.privtopub x) showI2
  | "generate_k", [.bytes h, .bytes priv] => .ok (toString (Ecdsa.deterministicGenerateK H h priv))
  | "sign", [.bytes h, .bytes priv] => exc (Ecdsa.ecdsaRawSign H h priv) showI3
  | "sign_k", [.bytes h, .bytes priv, .int k] => exc (Ecdsa.rawSignWithK h priv k) showI3
  | "recover", [.bytes h, .int v, .int r, .int s] => exc (Ecdsa.ecdsaRawRecover h v r s) showI2
  | _, _ => .bad "secpOp"

def h2cOp (op : String) (args : List Tok) : Res :=
  match op, args with
  | "sha256", [.bytes x] => .ok (showBytes (Sha256.hash x))
  | "hmac", [.bytes k, .bytes m] => .ok (showBytes (hmac sha256Fn k m))
  | "hkdf_extract", [.bytes s, .bytes ikm] => .ok (showBytes (hkdfExtract sha256Fn s ikm))
  | "hkdf_expand", [.bytes prk, .bytes info, .int l] => exc (hkdfExpand sha256Fn prk info l.toNat) showBytes
  | "xmd", [.hash H, .bytes m, .bytes dst, .int l] => exc (expandMessageXmd H m dst l.toNat) showBytes
  | "h2f_fq2", [.hash H, .bytes m, .int c, .bytes dst] =>
    exc (hashToFieldFq2 H blsP m c.toNat dst) (fun l => " ".intercalate (l.map fun u => s!"[{u.1},{u.2}]"))
  | "h2f_fq", [.hash H, .bytes m, .int c, .bytes dst] =>
    exc (hashToFieldFq H blsP m c.toNat dst) (fun l => " ".intercalate (l.map toString))
  | "swu_g1", [.list u] => let r := optimizedSwuG1 (f1c (getI u 0)); .ok (showP3 r)
  | "swu_g2", [.list u] => exc (optimizedSwuG2 (f2c u)) showP3
  | "iso_g1", [.list x, .list y, .list z] => .ok (showP3 (isoMapG1 (f1c (getI x 0)) (f1c (getI y 0)) (f1c (getI z 0))))
  | "iso_g2", [.list x, .list y, .list z] => .ok (showP3 (isoMapG2 (f2c x) (f2c y) (f2c z)))
  | "map_g1", [.list u] => .ok (showP3 (mapToCurveG1 (f1c (getI u 0))))
  | "map_g2", [.list u] => exc (mapToCurveG2 (f2c u)) showP3
  | "clear_g1", [.list a, .list b, .list c] => .ok (showP3 (clearCofactorG1 (g1 a b c)))
  | "clear_g2", [.list a, .list b, .list c] => .ok (showP3 (clearCofactorG2 (g2 a b c)))
  | "hash_to_g1", [.hash H, .bytes m, .bytes dst] => exc (hashToG1 H m dst) showP3
  | "hash_to_g2", [.hash H, .bytes m, .bytes dst] => exc (hashToG2 H m dst) showP3
  | "sqrt_div_fq", [.list u, .list v] =>
    let r := sqrtDivisionFq (f1c (getI u 0)) (f1c (getI v 0)); .ok (showBool r.1 ++ " " ++ toString r.2.n)
  | "sqrt_div_fq2", [.list u, .list v] =>
    let r := sqrtDivisionFq2 (f2c u) (f2c v); .ok (showBool r.1 ++ " " ++ showList r.2.coeffs)
  | _, _ => .bad "h2cOp"

def codecOp (op : String) (args : List Tok) : Res :=
  match op, args with
  | "compress_g1", [.list a, .list b, .list c] => .ok (toString (compressG1 (g1 a b c)))
  | "decompress_g1", [.int z] => exc (decompressG1 z.toNat) showP3
  | "compress_g2", [.list a, .list b, .list c] => exc (compressG2 (g2 a b c)) (fun r => s!"{r.1} {r.2}")
  | "decompress_g2", [.int z1, .int z2] => exc (decompressG2 z1.toNat z2.toNat) showP3
  | "sqrt_fq2", [.list a] =>
    .ok (match modularSquarerootInFq2 (f2c a) with | some r => showList r.coeffs | none => "None")
  | "subgroup_check_g1", [.list a, .list b, .list c] => .ok (showBool (subgroupCheck (g1 a b c)))
  | "subgroup_check_g2", [.list a, .list b, .list c] => .ok (showBool (subgroupCheck (g2 a b c)))
  | "g1_to_pubkey", [.list a, .list b, .list c] => exc (g1ToPubkey (g1 a b c)) showBytes
  | "pubkey_to_g1", [.bytes pk] => exc (pubkeyToG1 pk) showP3
  | "g2_to_signature", [.list a, .list b, .list c] => exc (g2ToSignature (g2 a b c)) showBytes
  | "signature_to_g2", [.bytes sg] => exc (signatureToG2 sg) showP3
  | _, _ => .bad "codecOp"

def optP2 {F : Type} [FieldIO F] : Tok → Tok → Option (Option (F × F))
  | .inf, .inf => some none
  | .list a, .list b => some (some (FieldIO.ofList a, FieldIO.ofList b))
  | _, _ => none

def pairingOp (op : String) (args : List Tok) : Res :=
  match op, args with
  | "OptBls", [.list a, .list b, .list c, .list d, .list e, .list f, .int fe] =>
    exc (pairingOptBls (g2 a b c) (g1 d e f) (fe != 0)) (fun r => showList r.coeffs)
  | "OptBn", [.list a, .list b, .list c, .list d, .list e, .list f, .int fe] =>
    let Q : OBn2 × OBn2 × OBn2 := (⟨a⟩, ⟨b⟩, ⟨c⟩)
    let P : Fq bnP × Fq bnP × Fq bnP := (Fq.ofInt (getI d 0), Fq.ofInt (getI e 0), Fq.ofInt (getI f 0))
    exc (pairingOptBn Q P (fe != 0)) (fun r => showList r.coeffs)
  | "RefBls", [a, b, c, d] =>
    match optP2 (F := RBls2) a b, optP2 (F := Fq blsP) c d with
    | some Q, some P => exc (pairingRefBls Q P) (fun r => showList r.coeffs)
    | _, _ => .bad "pt"
  | "RefBn", [a, b, c, d] =>
    match optP2 (F := RBn2) a b, optP2 (F := Fq bnP) c d with
    | some Q, some P => exc (pairingRefBn Q P) (fun r => showList r.coeffs)
    | _, _ => .bad "pt"
  | "fexp_OptBls", [.list x] => .ok (showList (finalExponentiateOptBls ⟨x⟩).coeffs)
  | "expbyp_OptBls", [.list x] => .ok (showList (expByP blsExptable (⟨x⟩ : OBls12)).coeffs)
  | "twist_OptBls", [.list a, .list b, .list c] =>
    let r : OBls12 × OBls12 × OBls12 := twistOptBls (g2 a b c)
    .ok (showList r.1.coeffs ++ ";" ++ showList r.2.1.coeffs ++ ";" ++ showList r.2.2.coeffs)
  | "twist_OptBn", [.list a, .list b, .list c] =>
    let Q : OBn2 × OBn2 × OBn2 := (⟨a⟩, ⟨b⟩, ⟨c⟩)
    let r : OBn12 × OBn12 × OBn12 := twistOptBn Q
    .ok (showList r.1.coeffs ++ ";" ++ showList r.2.1.coeffs ++ ";" ++ showList r.2.2.coeffs)
  | "twist_RefBls", [a, b] =>
    match optP2 (F := RBls2) a b with
    | some Q => let r : Option (RBls12 × RBls12) := twistRefBls Q; .ok (showP2 r)
    | none => .bad "pt"
  | "twist_RefBn", [a, b] =>
    match optP2 (F := RBn2) a b with
    | some Q => let r : Option (RBn12 × RBn12) := twistRefBn Q; .ok (showP2 r)
    | none => .bad "pt"
  | _, _ => .bad "pairingOp"

def dispatch (op : String) (args : List Tok) : Res :=
  match op.splitOn "." with
  | ["fq", o] =>
    match args with
    | .str spec :: rest => withField spec (fun p _ => fqOp p o rest) (fun _ _ _ => .bad "fq needs q:")
    | _ => .bad "fq spec"
  | ["fqp", o] =>
    match args with
    | .str spec :: rest => withField spec (fun _ _ => .bad "fqp needs e:") (fun v p mc => fqpOp v p mc o rest)
    | _ => .bad "fqp spec"
  | ["pfi"] =>
    match args with
    | [.int a, .int n] => .ok (toString (primeFieldInv a n))
    | _ => .bad "pfi"
  | ["curve", m, o] =>
    match args with
    | .str spec :: rest =>
      let bls := m == "OptBls" || m == "RefBls"
      if m == "OptBls" || m == "OptBn" then
        withField spec (fun p _ => optCurveOp (F := Fq p) bls o rest) (fun v p mc => optCurveOp (F := Fqp v p mc) bls o rest)
      else if m == "RefBls" || m == "RefBn" then
        withField spec (fun p _ => refCurveOp (F := Fq p) bls o rest) (fun v p mc => refCurveOp (F := Fqp v p mc) bls o rest)
      else .bad "module"
    | _ => .bad "curve spec"
  | ["pairing", o] => pairingOp o args
  | ["h2c", o] => h2cOp o args
  | ["codec", o] => codecOp o args
  | ["bls", o] => blsOp o args
  | ["secp", o] => secpOp o args
  | _ => .bad "unknown op group"

/-- the answer to ONE protocol line: a pure function of that line alone (`none` for blank lines) -/
def answerLine (line : String) : Option String :=
  let line := trimEol line
  if line.isEmpty then none else
  match line.splitOn "\t" with
  | id :: op :: rest =>
    match dispatch op (rest.map parseTok) with
    | .ok s => some s!"{id}\tok\t{s}"
    | .err e => some s!"{id}\terr\t{e.name}"
    | .bad w => some s!"{id}\tbad-op\t{w}"
  | _ => some "?\tbad-op\tmalformed line"

/-- the whole transcript for a history of lines: no state is threaded from one line to the next -/
def answerAll (lines : List String) : List String := lines.filterMap answerLine

partial def loop (hin : IO.FS.Stream) (hout : IO.FS.Stream) : IO Unit := do
  let line ← hin.getLine
  if line.isEmpty then return ()
  match answerLine line with
  | some out => hout.putStrLn out; hout.flush
  | none => pure ()
  loop hin hout

def main : IO Unit := do
  loop (← IO.getStdin) (← IO.getStdout)
