/-
  PyEcc.Spec.Rfc9380Sgn0 — SPECIFICATION, transcribed from RFC 9380 §4.1 (no Mathlib, no proofs):
  the "sign" of a field element `x = (x_1, …, x_m)` of `GF(p^m)`, given by the canonical integer
  representatives `0 ≤ x_i < p` of its coordinates, lowest-degree first.

      sgn0(x)
      1. sign = 0
      2. zero = 1
      3. for i in (1, 2, ..., m):
      4.   sign_i = x_i mod 2
      5.   zero_i = x_i == 0
      6.   sign = sign OR (zero AND sign_i) # Avoid short-circuit logic ops
      7.   zero = zero AND zero_i
      8. return sign

  The 0/1 values `sign`, `zero`, `sign_i`, `zero_i` are modelled as `Bool`s; the result is `0` or `1`.
  Nothing here refers to the executable model of py_ecc.
-/
namespace PyEcc.Spec.Sgn0

/-- one round of the loop (steps 4–7) on the state `(sign, zero)` -/
def step (st : Bool × Bool) (x_i : Nat) : Bool × Bool :=
  let sign_i := decide (x_i % 2 = 1)
  let zero_i := decide (x_i = 0)
  (st.1 || (st.2 && sign_i), st.2 && zero_i)

/-- RFC 9380 §4.1 `sgn0`, generic extension degree `m = xs.length` -/
def sgn0 (xs : List Nat) : Nat :=
  if (xs.foldl step (false, true)).1 then 1 else 0

/-- RFC 9380 §4.1 `sgn0_m_eq_1(x)`: `return x mod 2` -/
def sgn0_m_eq_1 (x : Nat) : Nat := x % 2

/-- RFC 9380 §4.1 `sgn0_m_eq_2(x)`: `sign_0 OR (zero_0 AND sign_1)` -/
def sgn0_m_eq_2 (x_0 x_1 : Nat) : Nat :=
  let sign_0 := decide (x_0 % 2 = 1)
  let zero_0 := decide (x_0 = 0)
  let sign_1 := decide (x_1 % 2 = 1)
  if sign_0 || (zero_0 && sign_1) then 1 else 0

end PyEcc.Spec.Sgn0
