/-
  PyEcc.Spec.Rfc5869 — SPECIFICATION, transcribed from the standards (no Mathlib, no proofs):

   * RFC 2104 §2             HMAC
   * RFC 5869 §2.2 / §2.3    HKDF-Extract, HKDF-Expand
   * draft-irtf-cfrg-bls-signature-04 §2.3   KeyGen

  Generic in a hash function `H : HashFn` with `HashLen = L = H.digestSize`, block length
  `B = H.blockSize`.
-/
import PyEcc.Spec.Rfc9380Xmd

namespace PyEcc.Spec

/-- RFC 2104 §2, the key `K` brought to exactly `B` bytes: "Applications that use keys longer than
    B bytes will first hash the key using H", then "(1) append zeros to the end of K to create a B
    byte string". -/
def hmacKey (H : HashFn) (key : Bytes) : Bytes :=
  let k := if key.length > H.blockSize then H.run key else key
  k ++ List.replicate (H.blockSize - k.length) 0

/-- RFC 2104 §2: `HMAC(K, text) = H(K XOR opad, H(K XOR ipad, text))` with
    `ipad = the byte 0x36 repeated B times`, `opad = the byte 0x5C repeated B times`. -/
def hmac (H : HashFn) (key text : Bytes) : Bytes :=
  let ipad := List.replicate H.blockSize (0x36 : UInt8)
  let opad := List.replicate H.blockSize (0x5c : UInt8)
  let k := hmacKey H key
  H.run (strxor k opad ++ H.run (strxor k ipad ++ text))

/-- RFC 5869 §2.2: `HKDF-Extract(salt, IKM) -> PRK`, `PRK = HMAC-Hash(salt, IKM)`
    (the salt is the HMAC key). -/
def hkdfExtract (H : HashFn) (salt ikm : Bytes) : Bytes := hmac H salt ikm

/-- RFC 5869 §2.3: `T(0) = empty string`, `T(i) = HMAC-Hash(PRK, T(i-1) | info | i)` where the
    constant `i` is a single octet. -/
def hkdfT (H : HashFn) (prk info : Bytes) : Nat → Bytes
  | 0 => []
  | i + 1 => hmac H prk (hkdfT H prk info i ++ info ++ I2OSP (i + 1) 1)

/-- RFC 5869 §2.3, `OKM = first L octets of T`, `T = T(1) | T(2) | … | T(N)`, `N = ceil(L/HashLen)`
    (total version, meaningful for `L ≤ 255·HashLen`). -/
def hkdfOkm (H : HashFn) (prk info : Bytes) (L : Nat) : Bytes :=
  let N := ceilDiv L H.digestSize
  let T := ((List.range N).map fun i => hkdfT H prk info (i + 1)).flatten
  T.take L

/-- RFC 5869 §2.3: `HKDF-Expand(PRK, info, L) -> OKM`, defined for `L ≤ 255·HashLen`
    (`none` otherwise). -/
def hkdfExpand (H : HashFn) (prk info : Bytes) (L : Nat) : Option Bytes :=
  if L ≤ 255 * H.digestSize then some (hkdfOkm H prk info L) else none

/-- BLS signatures draft v4 §2.3: the initial salt, the ASCII string `"BLS-SIG-KEYGEN-SALT-"`. -/
def keyGenSalt : Bytes :=
  [0x42, 0x4c, 0x53, 0x2d, 0x53, 0x49, 0x47, 0x2d, 0x4b, 0x45, 0x59, 0x47, 0x45, 0x4e, 0x2d,
   0x53, 0x41, 0x4c, 0x54, 0x2d]

/-- BLS draft v4 §2.3: `L = ceil((3 * ceil(log2(r))) / 16)`; for BLS12-381, `ceil(log2 r) = 255`,
    so `L = ceil(765 / 16) = 48`. -/
def keyGenL : Nat := ceilDiv (3 * 255) 16

/-- The salt used in the `n`-th pass (counting from 0) through the loop of KeyGen:
    `salt = H(salt)` has been executed `n + 1` times. -/
def keyGenSaltAt (H : HashFn) : Nat → Bytes
  | 0 => H.run keyGenSalt
  | n + 1 => H.run (keyGenSaltAt H n)

/-- The value assigned to `SK` in the `n`-th pass through the loop of KeyGen:
    ```
    PRK = HKDF-Extract(salt, IKM || I2OSP(0, 1))
    OKM = HKDF-Expand(PRK, key_info || I2OSP(L, 2), L)
    SK = OS2IP(OKM) mod r
    ``` -/
def keyGenCandidate (H : HashFn) (r : Nat) (ikm keyInfo : Bytes) (n : Nat) : Nat :=
  let prk := hkdfExtract H (keyGenSaltAt H n) (ikm ++ I2OSP 0 1)
  let okm := hkdfOkm H prk (keyInfo ++ I2OSP keyGenL 2) keyGenL
  OS2IP okm % r

/-- BLS draft v4 §2.3 `KeyGen(IKM, key_info)`:
    ```
    1. salt = "BLS-SIG-KEYGEN-SALT-"
    2. SK = 0
    3. while SK == 0:
    4.     salt = H(salt)
    5.     PRK = HKDF-Extract(salt, IKM || I2OSP(0, 1))
    6.     OKM = HKDF-Expand(PRK, key_info || I2OSP(L, 2), L)
    7.     SK = OS2IP(OKM) mod r
    8. return SK
    ```
    as a relation: `sk` is the result iff it is the first non-zero candidate.  (The `while` loop
    need not terminate for an arbitrary `H`, so the specification is a relation, not a function.) -/
def IsKeyGen (H : HashFn) (r : Nat) (ikm keyInfo : Bytes) (sk : Nat) : Prop :=
  ∃ n, keyGenCandidate H r ikm keyInfo n = sk ∧ sk ≠ 0 ∧ ∀ m, m < n → keyGenCandidate H r ikm keyInfo m = 0

/-- The same loop run for at most `fuel` passes starting at pass `n`: `some sk` if a non-zero
    candidate is found among passes `n, …, n + fuel - 1` (the first one), `none` otherwise. -/
def keyGenFrom (H : HashFn) (r : Nat) (ikm keyInfo : Bytes) : Nat → Nat → Option Nat
  | 0, _ => none
  | fuel + 1, n =>
    let sk := keyGenCandidate H r ikm keyInfo n
    if sk = 0 then keyGenFrom H r ikm keyInfo fuel (n + 1) else some sk

/-- `KeyGen` limited to `fuel` passes through the loop. -/
def keyGen (H : HashFn) (r : Nat) (ikm keyInfo : Bytes) (fuel : Nat) : Option Nat :=
  keyGenFrom H r ikm keyInfo fuel 0

end PyEcc.Spec
