/-
  PyEcc.Spec.BlsSig — SPECIFICATION: the signing-side procedures of
  draft-irtf-cfrg-bls-signature-04 ("BLS Signatures"), minimal-pubkey-size variant on BLS12-381
  (public keys in G1, signatures in G2), written step by step as the draft writes them.

  The draft takes the following primitives as given (§1.3, §2.2, §2.5); here they are bound to the
  executable model of the library's own primitives, which are the subject of other properties
  (C07/C13 curve arithmetic, C10 hash_to_curve, C11/C12 ZCash serialisation):

    P                              the generator of G1                      `PyEcc.blsG1`
    SK * Q                         scalar multiplication                    `Gen.OptBls.multiply Q SK`
    Q + R                          point addition                           `Gen.OptBls.add Q R`
    point_to_pubkey / point_to_signature   ZCash compressed serialisation   `g1ToPubkey`, `g2ToSignature`
    signature_to_point             its inverse on 96-octet strings          `signatureToG2` behind a length gate
    hash_to_point(msg)             = hash_to_curve(msg, DST) of RFC 9380    `hashToG2 H msg DST`

  Two kinds of "no output":
   * `INVALID` — the distinguished value of the draft (`Result.INVALID`).  It arises in `Aggregate`
     only: n < 1, or some `signature_to_point` is INVALID.
   * the bound primitives are *partial functions in the model* (`Except PyErr`: e.g. `int.to_bytes`
     may overflow, `compress_G2` refuses off-curve points, `expand_message_xmd` refuses a 256-octet
     DST), whereas the draft treats them as total.  Procedures that only chain such primitives have
     type `Except PyErr Bytes`: they fail exactly when, and as, the primitive fails.

  Nothing here looks at `PyEcc.Model.Bls` (the model of `ciphersuites.py`) or at the tags stored in
  `PyEcc.Gen.Consts`; `Props/C09.lean` proves the model equal to these procedures.
  Core Lean only.
-/
import PyEcc.Model.Codec

namespace PyEcc.Spec.BlsSig
open PyEcc

/-! ### §4.2 ciphersuite identifiers (typed from the draft) -/

/-- §4.2.1 `BLS_SIG_BLS12381G2_XMD:SHA-256_SSWU_RO_NUL_` (basic scheme) -/
def DST_NUL : Bytes := "BLS_SIG_BLS12381G2_XMD:SHA-256_SSWU_RO_NUL_".toUTF8.toList
/-- §4.2.2 `BLS_SIG_BLS12381G2_XMD:SHA-256_SSWU_RO_AUG_` (message augmentation) -/
def DST_AUG : Bytes := "BLS_SIG_BLS12381G2_XMD:SHA-256_SSWU_RO_AUG_".toUTF8.toList
/-- §4.2.3 `BLS_SIG_BLS12381G2_XMD:SHA-256_SSWU_RO_POP_` (proof of possession, signatures) -/
def DST_POP : Bytes := "BLS_SIG_BLS12381G2_XMD:SHA-256_SSWU_RO_POP_".toUTF8.toList
/-- §4.2.3 `BLS_POP_BLS12381G2_XMD:SHA-256_SSWU_RO_POP_` (the tag of `hash_pubkey_to_point`) -/
def POP_TAG : Bytes := "BLS_POP_BLS12381G2_XMD:SHA-256_SSWU_RO_POP_".toUTF8.toList

/-- §4.2 / pairing-friendly-curves §4.2.1: the order `r` of G1 and G2 -/
def r : Nat := 0x73eda753299d7d483339d80809a1d80553bda402fffe5bfeffffffff00000001

/-- affine coordinates of the standard generator of G1 -/
def P_x : Nat := 0x17f1d3a73197d7942695638c4fa9ac0fc3688c4f9774b905a14e3a3f171bac586c55e83ff97a1aeffb3af00adb22c6bb
def P_y : Nat := 0x08b3f481e3aaa0f1a09e30ed741d8ae4fcf5e095d5d00af600db18cb2c04b3edd03cc744a2888ae40caa232946c5e7e1

/-! ### what a procedure of the draft yields -/

/-- an output, or the draft's distinguished value `INVALID` -/
inductive Result (α : Type) where
  | ok (a : α)
  | INVALID
  deriving DecidableEq, Repr

/-! ### the primitives the draft takes as given -/

/-- `P`: the generator of G1 (the public-key group of the minimal-pubkey-size variant) -/
abbrev P : G1Pt := blsG1

/-- `SK * Q` -/
def smul {F : Type} [Zero F] [One F] [Add F] [Sub F] [Mul F] [Neg F] [Div F] [NatCast F] [Pow F Nat]
    [DecidableEq F] (SK : Nat) (Q : F × F × F) : F × F × F := Gen.OptBls.multiply Q SK

/-- `Q + R` in G2 -/
def padd (Q R : G2Pt) : G2Pt := Gen.OptBls.add Q R

@[inherit_doc] scoped infixr:70 " *ₚ " => smul
@[inherit_doc] scoped infixl:65 " +ₚ " => padd

/-- §2.5 `point_to_pubkey` -/
def point_to_pubkey (Q : G1Pt) : Except PyErr Bytes := g1ToPubkey Q

/-- §2.5 `point_to_signature` -/
def point_to_signature (Q : G2Pt) : Except PyErr Bytes := g2ToSignature Q

/-- §2.5 `signature_to_point`: "INVALID if the octet string is not a valid output of
    point_to_signature".  A compressed G2 point is exactly 96 octets, so anything of another length
    is INVALID; on 96 octets it is the ZCash deserialisation (INVALID when that refuses). -/
def signature_to_point (ostr : Bytes) : Result G2Pt :=
  if ostr.length = 96 then
    match signatureToG2 ostr with
    | .ok Q => .ok Q
    | .error _ => .INVALID
  else .INVALID

/-- §2.2 `hash_to_point(ostr) = hash_to_curve(ostr, DST)` (RFC 9380 suite
    `BLS12381G2_XMD:SHA-256_SSWU_RO_`, with the hash function a parameter) -/
def hash_to_point (H : HashFn) (DST : Bytes) (ostr : Bytes) : Except PyErr G2Pt := hashToG2 H ostr DST

/-! ### §2.4 SkToPk -/

/-- ```
    PK = SkToPk(SK)
    1. xP = SK * P
    2. PK = point_to_pubkey(xP)
    3. return PK
    ``` -/
def SkToPk (SK : Nat) : Except PyErr Bytes :=
  let xP := SK *ₚ P
  point_to_pubkey xP

/-! ### §2.6 CoreSign -/

/-- ```
    signature = CoreSign(SK, message)
    1. Q = hash_to_point(message)
    2. R = SK * Q
    3. signature = point_to_signature(R)
    4. return signature
    ``` -/
def CoreSign (H : HashFn) (DST : Bytes) (SK : Nat) (message : Bytes) : Except PyErr Bytes :=
  (hash_to_point H DST message).bind fun Q =>
  let R := SK *ₚ Q
  point_to_signature R

/-! ### §2.8 Aggregate -/

/-- steps 3–6: `for i in 2, ..., n: next = signature_to_point(signature_i); if next is INVALID,
    return INVALID; aggregate = aggregate + next` -/
def AggregateLoop : G2Pt → List Bytes → Result G2Pt
  | aggregate, [] => .ok aggregate
  | aggregate, signature_i :: rest =>
    match signature_to_point signature_i with
    | .INVALID => .INVALID
    | .ok next => AggregateLoop (aggregate +ₚ next) rest

/-- ```
    signature = Aggregate((signature_1, ..., signature_n))
    Precondition: n >= 1, otherwise return INVALID.
    1. aggregate = signature_to_point(signature_1)
    2. If aggregate is INVALID, return INVALID
    3. for i in 2, ..., n:
    4.     next = signature_to_point(signature_i)
    5.     If next is INVALID, return INVALID
    6.     aggregate = aggregate + next
    7. signature = point_to_signature(aggregate)
    8. return signature
    ```
    (the inner `Except` is the serialisation primitive of step 7) -/
def Aggregate : List Bytes → Result (Except PyErr Bytes)
  | [] => .INVALID
  | signature_1 :: rest =>
    match signature_to_point signature_1 with
    | .INVALID => .INVALID
    | .ok aggregate =>
      match AggregateLoop aggregate rest with
      | .INVALID => .INVALID
      | .ok aggregate => .ok (point_to_signature aggregate)

/-! ### §3 the three schemes -/

/-- §3.1 basic scheme: `Sign = CoreSign` under the `…_NUL_` tag -/
def Basic.Sign (H : HashFn) (SK : Nat) (message : Bytes) : Except PyErr Bytes :=
  CoreSign H DST_NUL SK message

/-- §3.2.1 message augmentation:
    ```
    1. PK = SkToPk(SK)
    2. return CoreSign(SK, PK || message)
    ``` -/
def Aug.Sign (H : HashFn) (SK : Nat) (message : Bytes) : Except PyErr Bytes :=
  (SkToPk SK).bind fun PK =>
  CoreSign H DST_AUG SK (PK ++ message)

/-- §3.3 proof of possession: `Sign = CoreSign` under the `…_POP_` tag -/
def Pop.Sign (H : HashFn) (SK : Nat) (message : Bytes) : Except PyErr Bytes :=
  CoreSign H DST_POP SK message

/-- §3.3 `hash_pubkey_to_point(PK) = hash_to_curve(PK, POP_TAG)` -/
def hash_pubkey_to_point (H : HashFn) (PK : Bytes) : Except PyErr G2Pt := hashToG2 H PK POP_TAG

/-- §3.3.2
    ```
    proof = PopProve(SK)
    1. PK = SkToPk(SK)
    2. Q = hash_pubkey_to_point(PK)
    3. R = SK * Q
    4. proof = point_to_signature(R)
    5. return proof
    ``` -/
def PopProve (H : HashFn) (SK : Nat) : Except PyErr Bytes :=
  (SkToPk SK).bind fun PK =>
  (hash_pubkey_to_point H PK).bind fun Q =>
  let R := SK *ₚ Q
  point_to_signature R

end PyEcc.Spec.BlsSig
