/-
  PyEcc.Spec.Sec2 — the recommended domain parameters `secp256k1` of
  SEC 2: Recommended Elliptic Curve Domain Parameters, version 2.0 (Certicom Research, 2010), §2.4.1,
  transcribed as hexadecimal literals from the standard (NOT from the Python source).
  `T = (p, a, b, G, n, h)`; the curve is `y² = x³ + a·x + b` over `F_p`.
-/
namespace PyEcc.Spec.Sec2

/-- `p = 2^256 − 2^32 − 2^9 − 2^8 − 2^7 − 2^6 − 2^4 − 1` -/
def p : Nat := 0xFFFFFFFFFFFFFFFFFFFFFFFFFFFFFFFFFFFFFFFFFFFFFFFFFFFFFFFEFFFFFC2F
def a : Nat := 0x0000000000000000000000000000000000000000000000000000000000000000
def b : Nat := 0x0000000000000000000000000000000000000000000000000000000000000007
/-- base point `G`, uncompressed form `04 ‖ Gx ‖ Gy` -/
def Gx : Nat := 0x79BE667EF9DCBBAC55A06295CE870B07029BFCDB2DCE28D959F2815B16F81798
def Gy : Nat := 0x483ADA7726A3C4655DA4FBFC0E1108A8FD17B448A68554199C47D08FFB10D4B8
/-- order `n` of `G` -/
def n : Nat := 0xFFFFFFFFFFFFFFFFFFFFFFFFFFFFFFFEBAAEDCE6AF48A03BBFD25E8CD0364141
/-- cofactor -/
def h : Nat := 1

/-- the closed form of `p` given in the standard -/
theorem p_closed_form : p = 2^256 - 2^32 - 2^9 - 2^8 - 2^7 - 2^6 - 2^4 - 1 := by decide

theorem p_closed_form' : p = 2^256 - 2^32 - 977 := by decide

end PyEcc.Spec.Sec2
