/-
  PyEcc.Spec.Rfc9380Sswu — SPECIFICATION, transcribed from RFC 9380 §6.6.2 ("Simplified
  Shallue-van de Woestijne-Ulas method"), over an abstract field `F` (Mathlib `Field`), for the curve
  `y² = g(x) = x³ + A·x + B` with `A ≠ 0`, `B ≠ 0` and the constant `Z`:

      map_to_curve_simple_swu(u)
      1. tv1 = inv0(Z^2 * u^4 + Z * u^2)
      2.  x1 = (-B / A) * (1 + tv1)
      3. If tv1 == 0, set x1 = B / (Z * A)
      4. gx1 = x1^3 + A * x1 + B
      5.  x2 = Z * u^2 * x1
      6. gx2 = x2^3 + A * x2 + B
      7. If is_square(gx1), set x = x1 and y = sqrt(gx1)
      8. Else set x = x2 and y = sqrt(gx2)
      9. If sgn0(u) != sgn0(y), set y = -y
      10. return (x, y)

  `inv0(x)` is the inverse with `inv0(0) = 0` (RFC 9380 §4), which is Mathlib's `x⁻¹`; `is_square` is
  Mathlib's `IsSquare` (`∃ r, a = r * r`; `0` is a square, as in the RFC).  `sqrt` and `sgn0` are
  parameters.  Two forms are given: the straight-line function `mapToCurveSimpleSwu`, and the
  relation `IsSswu`, which does not mention `sqrt` ("`y` is *a* square root with the sign of `u`").
  `Lemmas/SwuAux.lean` proves that the function satisfies the relation for every correct `sqrt`, and
  that the relation determines `(x, y)`.  Also: `sgn0` for a prime field (§4.1, `m = 1`).

  Nothing here refers to the executable model of py_ecc.
-/
import Mathlib.Algebra.Field.Basic
import Mathlib.Algebra.Group.Even
import Mathlib.Data.ZMod.Basic
import PyEcc.Spec.Rfc9380Sgn0

namespace PyEcc.Spec
open Classical

section
variable {F : Type*} [Field F]

/-- RFC 9380 §4 `inv0(x)`: the multiplicative inverse, extended by `inv0(0) = 0` -/
def inv0 (x : F) : F := x⁻¹

/-- the right-hand side of the curve equation, `g(x) = x³ + A·x + B` -/
def sswuG (A B x : F) : F := x ^ 3 + A * x + B

/-- steps 1–3: `tv1 = inv0(Z²u⁴ + Zu²)`; `x1 = (−B/A)(1 + tv1)`; `if tv1 == 0 then x1 = B/(Z·A)` -/
noncomputable def sswuX1 (A B Z u : F) : F :=
  let tv1 := inv0 (Z ^ 2 * u ^ 4 + Z * u ^ 2)
  let x1 := (-B / A) * (1 + tv1)
  if tv1 = 0 then B / (Z * A) else x1

/-- step 5: `x2 = Z·u²·x1` -/
noncomputable def sswuX2 (A B Z u : F) : F := Z * u ^ 2 * sswuX1 A B Z u

/-- RFC 9380 §6.6.2 `map_to_curve_simple_swu`, steps 1–10, with `sqrt` and `sgn0` as parameters. -/
noncomputable def mapToCurveSimpleSwu (sgn0 : F → ℕ) (sqrt : F → F) (A B Z u : F) : F × F :=
  let x1 := sswuX1 A B Z u
  let gx1 := x1 ^ 3 + A * x1 + B
  let x2 := Z * u ^ 2 * x1
  let gx2 := x2 ^ 3 + A * x2 + B
  let xy : F × F := if IsSquare gx1 then (x1, sqrt gx1) else (x2, sqrt gx2)
  let y := if sgn0 u ≠ sgn0 xy.2 then -xy.2 else xy.2
  (xy.1, y)

/-- Relational form of `map_to_curve_simple_swu(u) = (x, y)`:
    * if `g(x1)` is a square then `x = x1` and `y² = g(x1)`, otherwise `x = x2` and `y² = g(x2)`;
    * `y` has the sign of `u` — unless `y = 0`, which step 9 cannot change (`-0 = 0`). -/
def IsSswu (sgn0 : F → ℕ) (A B Z u x y : F) : Prop :=
  ((IsSquare (sswuG A B (sswuX1 A B Z u)) ∧ x = sswuX1 A B Z u ∧ y ^ 2 = sswuG A B x) ∨
   (¬ IsSquare (sswuG A B (sswuX1 A B Z u)) ∧ x = sswuX2 A B Z u ∧ y ^ 2 = sswuG A B x)) ∧
  (y = 0 ∨ sgn0 y = sgn0 u)

end

/-- RFC 9380 §4.1 `sgn0` for a prime field (`m = 1`): parity of the canonical representative -/
def sgn0Fp {p : ℕ} (z : ZMod p) : ℕ := Sgn0.sgn0_m_eq_1 z.val

end PyEcc.Spec
