/-
  PyEcc.Spec.Rfc6979 — SPECIFICATION, transcribed from the standard (no Mathlib, no proofs):

   * RFC 6979 §2.3.2 – §2.3.4   bits2int, int2octets, bits2octets
   * RFC 6979 §3.2              generation of the nonce `k` (steps a–h; the FIRST candidate of step h)

  Generic in the HMAC function and in `qlen` (bit length of the group order `q`) and `hlen` (bit length
  of the hash output, given here in octets).  Nothing refers to the executable model of py_ecc.
-/
import PyEcc.Spec.Rfc5869

namespace PyEcc.Spec

/-- RFC 6979 §2.3.2 `bits2int`: the input has `blen = 8·len` bits; "if qlen < blen, then the qlen leftmost
    bits are kept, and subsequent bits are discarded; otherwise qlen − blen bits (of value zero) are added to
    the left"; the result is then read as a big-endian integer. -/
def bits2int (qlen : Nat) (b : Bytes) : Nat :=
  let blen := 8 * b.length
  if qlen < blen then OS2IP b / 2 ^ (blen - qlen) else OS2IP b

/-- RFC 6979 §2.3.3 `int2octets`: `x < q` as a big-endian string of `rlen/8` octets, `rlen = 8·ceil(qlen/8)`. -/
def int2octets (qlen x : Nat) : Bytes := I2OSP x (ceilDiv qlen 8)

/-- RFC 6979 §2.3.4 `bits2octets`: `z1 = bits2int(b)`, `z2 = z1 mod q`, result `int2octets(z2)`. -/
def bits2octets (q qlen : Nat) (b : Bytes) : Bytes := int2octets qlen (bits2int qlen b % q)

/-- RFC 6979 §3.2 steps b–g: the state `(K, V)` before candidate generation.
    ```
    b.  V = 0x01 0x01 0x01 ... 0x01          (8·ceil(hlen/8) bits)
    c.  K = 0x00 0x00 0x00 ... 0x00
    d.  K = HMAC_K(V ‖ 0x00 ‖ int2octets(x) ‖ bits2octets(h1))
    e.  V = HMAC_K(V)
    f.  K = HMAC_K(V ‖ 0x01 ‖ int2octets(x) ‖ bits2octets(h1))
    g.  V = HMAC_K(V)
    ```
    `xo = int2octets(x)` and `ho = bits2octets(h1)` are passed as octet strings; `HMAC key msg`. -/
def rfc6979Init (HMAC : Bytes → Bytes → Bytes) (hlenOctets : Nat) (xo ho : Bytes) : Bytes × Bytes :=
  let V := List.replicate hlenOctets (0x01 : UInt8)
  let K := List.replicate hlenOctets (0x00 : UInt8)
  let K := HMAC K (V ++ [0x00] ++ xo ++ ho)
  let V := HMAC K V
  let K := HMAC K (V ++ [0x01] ++ xo ++ ho)
  let V := HMAC K V
  (K, V)

/-- RFC 6979 §3.2 step h.2, `n` passes of "`V = HMAC_K(V)`, `T = T ‖ V`"; returns `(V, T)`. -/
def rfc6979Fill (HMAC : Bytes → Bytes → Bytes) (K : Bytes) : Nat → Bytes → Bytes → Bytes × Bytes
  | 0, V, T => (V, T)
  | n + 1, V, T => let V := HMAC K V; rfc6979Fill HMAC K n V (T ++ V)

/-- RFC 6979 §3.2 steps b–h.2, the string `T` of the first pass through step h: `T` starts empty and is
    filled "while tlen < qlen", i.e. `ceil(qlen / hlen)` times when every HMAC output has `hlen` bits. -/
def rfc6979T (HMAC : Bytes → Bytes → Bytes) (hlenOctets qlen : Nat) (xo ho : Bytes) : Bytes :=
  let KV := rfc6979Init HMAC hlenOctets xo ho
  (rfc6979Fill HMAC KV.1 (ceilDiv qlen (8 * hlenOctets)) KV.2 []).2

/-- RFC 6979 §3.2 step h.3, first pass: the FIRST candidate `k = bits2int(T)`, for `qlen = 256` and
    HMAC built from `H` (RFC 2104), with the two octet strings `int2octets(x)`, `bits2octets(h1)` fed as given.
    (The RFC returns this `k` if `1 ≤ k ≤ q − 1` and otherwise continues with `K = HMAC_K(V ‖ 0x00)`, … .) -/
def rfc6979FirstCandidate (H : HashFn) (xo ho : Bytes) : Nat :=
  bits2int 256 (rfc6979T (hmac H) H.digestSize 256 xo ho)

/-- The same with the RFC's own input conversion: private key `x` (an integer `< q`) and hash value `h1`
    (an octet string), for a group order `q` of bit length `256`. -/
def rfc6979FirstCandidateInt (H : HashFn) (q x : Nat) (h1 : Bytes) : Nat :=
  rfc6979FirstCandidate H (int2octets 256 x) (bits2octets q 256 h1)

end PyEcc.Spec
