/-
  PyEcc.Spec.Standards — SPECIFICATION literals, typed from the standards, independent of the Python
  working tree.  Nothing in this file mentions `PyEcc.Gen.*`: the property files prove
  `Gen.Consts.* = Spec.*`, so a changed constant in the library makes a theorem fail.

  Sources (no network in the proof sandbox; the literals were typed from recollection of the
  documents, and every one of them is cross-checked inside `Props/C07_Consts.lean`,
  `Props/C17_Consts.lean` by an *independent derivation* — from the curve seed, or by the curve
  equation — that does not mention the generated constants either):
   * BLS12-381: ZCash protocol spec §5.4.9.2 / draft-irtf-cfrg-pairing-friendly-curves §4.2.1
   * alt_bn128 (BN254): EIP-196, EIP-197
   * secp256k1: SEC 2 v2 §2.4.1
   * hash-to-curve: RFC 9380 §8.8.1, §8.8.2
   * BLS signatures: draft-irtf-cfrg-bls-signature-04 §4.2
  Core Lean only.
-/
namespace PyEcc.Spec

/-! ### BLS12-381 -/
namespace BLS12381

/-- the curve seed ("`x`", also written `z` or `u`): `-0xd201000000010000 = -(2^63+2^62+2^60+2^57+2^48+2^16)` -/
def x : Int := -0xd201000000010000

/-- base-field characteristic -/
def p : Nat := 0x1a0111ea397fe69a4b1ba7b6434bacd764774b84f38512bf6730d2a0f6b0f6241eabfffeb153ffffb9feffffffffaaab

/-- order of G1, G2, GT -/
def r : Nat := 0x73eda753299d7d483339d80809a1d80553bda402fffe5bfeffffffff00000001

/-- `E : y² = x³ + 4` -/
def b : Nat := 4

/-- `E' : y² = x³ + 4(1+i)` over `Fp² = Fp[i]/(i²+1)`; coefficient list, constant term first -/
def b2 : List Int := [4, 4]

/-- `Fp² = Fp[u]/(u² + 1)`: modulus coefficients without the leading 1, constant term first -/
def fq2Modulus : List Int := [1, 0]

/-- `Fp¹² = Fp[w]/(w¹² − 2w⁶ + 2)` -/
def fq12Modulus : List Int := [2, 0, 0, 0, 0, 0, -2, 0, 0, 0, 0, 0]

/-- G1 generator -/
def g1x : Nat := 0x17f1d3a73197d7942695638c4fa9ac0fc3688c4f9774b905a14e3a3f171bac586c55e83ff97a1aeffb3af00adb22c6bb
def g1y : Nat := 0x08b3f481e3aaa0f1a09e30ed741d8ae4fcf5e095d5d00af600db18cb2c04b3edd03cc744a2888ae40caa232946c5e7e1

/-- G2 generator, `x = x0 + x1·i`, `y = y0 + y1·i` -/
def g2x0 : Nat := 0x024aa2b2f08f0a91260805272dc51051c6e47ad4fa403b02b4510b647ae3d1770bac0326a805bbefd48056c8c121bdb8
def g2x1 : Nat := 0x13e02b6052719f607dacd3a088274f65596bd0d09920b61ab5da61bbdc7f5049334cf11213945d57e5ac7d055d042b7e
def g2y0 : Nat := 0x0ce5d527727d6e118cc9cdc6da2e351aadfd9baa8cbdd3a76d429a695160d12c923ac9cc3baca289e193548608b82801
def g2y1 : Nat := 0x0606c4a02ea734cc32acd2b02bc28b99cb3e287e85a763af267492ab572e99ab3f370d275cec1da1aaa9075ff05f79be

/-- G1 cofactor `h₁ = (x−1)²/3` -/
def h1 : Nat := 0x396c8c005555e1568c00aaab0000aaab

/-- G2 cofactor `h₂ = (x⁸ − 4x⁷ + 5x⁶ − 4x⁴ + 6x³ − 4x² − 4x + 13)/9` -/
def h2 : Nat := 0x5d543a95414e7f1091d50792876a202cd91de4547085abaa68a205b2e5a7ddfa628f1cb4d9e82ef21537e293a6691ae1616ec6e786f0c70cf1c38e31c7238e5

/-- trace of Frobenius `t = x + 1`, `#E(Fp) = p + 1 − t` -/
def t : Int := x + 1

/-- optimal-ate Miller loop length `|x|` -/
def ateLoopCount : Nat := 0xd201000000010000

end BLS12381

/-! ### alt_bn128 (BN254), EIP-196 / EIP-197 -/
namespace BN254

/-- the BN seed `u` -/
def u : Nat := 4965661367192848881

def p : Nat := 21888242871839275222246405745257275088696311157297823662689037894645226208583
def r : Nat := 21888242871839275222246405745257275088548364400416034343698204186575808495617

/-- `E : y² = x³ + 3` -/
def b : Nat := 3

def g1x : Nat := 1
def g1y : Nat := 2

/-- EIP-197 G2 generator, `x = x0 + x1·i`, `y = y0 + y1·i` (real part, imaginary part) -/
def g2x0 : Nat := 10857046999023057135944570762232829481370756359578518086990519993285655852781
def g2x1 : Nat := 11559732032986387107991004021392285783925812861821192530917403151452391805634
def g2y0 : Nat := 8495653923123431417604973247489272438418190587263600148770280649306958101930
def g2y1 : Nat := 4082367875863433681332203403145435568316851327593401208105741076214120093531

/-- `Fp² = Fp[i]/(i² + 1)` -/
def fq2Modulus : List Int := [1, 0]

/-- `Fp¹² = Fp[w]/(w¹² − 18w⁶ + 82)` -/
def fq12Modulus : List Int := [82, 0, 0, 0, 0, 0, -18, 0, 0, 0, 0, 0]

/-- the twist is `y² = x³ + 3/(9+i)`; `xi = 9 + i` -/
def xi : List Int := [9, 1]

/-- optimal-ate Miller loop length `6u + 2` -/
def ateLoopCount : Nat := 6 * u + 2

end BN254

/-! ### secp256k1 (SEC 2) -/
namespace SEC2

def P : Nat := 2 ^ 256 - 2 ^ 32 - 977
def N : Nat := 0xFFFFFFFFFFFFFFFFFFFFFFFFFFFFFFFEBAAEDCE6AF48A03BBFD25E8CD0364141
def A : Nat := 0
def B : Nat := 7
def Gx : Nat := 0x79BE667EF9DCBBAC55A06295CE870B07029BFCDB2DCE28D959F2815B16F81798
def Gy : Nat := 0x483ADA7726A3C4655DA4FBFC0E1108A8FD17B448A68554199C47D08FFB10D4B8

end SEC2

/-! ### RFC 9380 §8.8: hash-to-curve suites for BLS12-381 -/
namespace H2C

/-- §8.8.1: `E' : y² = x³ + A'x + B'` 11-isogenous to G1's curve -/
def iso11A : Nat := 0x144698a3b8e9433d693a02c96d4982b0ea985383ee66a8d8e8981aefd881ac98936f8da0e0f97f5cf428082d584c1d
def iso11B : Nat := 0x12e2908d11688030018b12e8753eee3b2016c1f0f24f4070a0b9c14fcef35ef55a23215a316ceaa5d1cc48e98e172be0
def iso11Z : Nat := 11

/-- §8.8.1: `h_eff = 0xd201000000010001` (`= 1 − x`) -/
def hEffG1 : Nat := 0xd201000000010001

/-- §8.8.2: `A' = 240·I`, `B' = 1012·(1+I)`, `Z = −(2+I)` (as residues: `[p−2, p−1]`) -/
def iso3A : List Int := [0, 240]
def iso3B : List Int := [1012, 1012]
def iso3Z : List Int := [(BLS12381.p : Int) - 2, (BLS12381.p : Int) - 1]

/-- §8.8.2: `h_eff = h₂ · (3x² − 3)` -/
def hEffG2 : Nat := 0xbc69f08f2ee75b3584c6a0ea91b352888e2a8e9145ad7689986ff031508ffe1329c2f178731db956d82bf015d1212b02ec0ec69d7477c1ae954cbc06689f6a359894c0adebbf6b4e8020005aaa95551

/-- `L = ceil((ceil(log2(p)) + k) / 8)` with `k = 128`: 64 bytes per field element -/
def hashToFieldL : Nat := 64

end H2C

/-! ### draft-irtf-cfrg-bls-signature-04 §4.2 (minimal-pubkey-size suites) -/
namespace BlsSig

def dstBasic : String := "BLS_SIG_BLS12381G2_XMD:SHA-256_SSWU_RO_NUL_"
def dstAug : String := "BLS_SIG_BLS12381G2_XMD:SHA-256_SSWU_RO_AUG_"
def dstPop : String := "BLS_SIG_BLS12381G2_XMD:SHA-256_SSWU_RO_POP_"
def popTag : String := "BLS_POP_BLS12381G2_XMD:SHA-256_SSWU_RO_POP_"

/-- KeyGen: `L = ceil((3 * ceil(log2(r))) / 16) = 48` -/
def keygenL : Nat := 48

end BlsSig

end PyEcc.Spec
