/-
  PyEcc.Spec.Rfc9380Xmd — SPECIFICATION, transcribed from the standards (no Mathlib, no proofs):

   * RFC 8017 §4.1 / §4.2   I2OSP, OS2IP
   * RFC 9380 §5.3.1         expand_message_xmd
   * RFC 9380 §5.2           hash_to_field

  Everything is generic in a hash function `H : HashFn` with `b_in_bytes = H.digestSize`,
  `s_in_bytes = H.blockSize`.  Nothing here refers to the executable model of py_ecc
  (only the types `Bytes` and `HashFn` are shared).
-/
import PyEcc.Model.Hash

namespace PyEcc.Spec

/-- `ceil(a / b)` for natural numbers, `b > 0`: the quotient, plus one if the division is not exact. -/
def ceilDiv (a b : Nat) : Nat := a / b + (if a % b = 0 then 0 else 1)

/-- RFC 8017 §4.1: `I2OSP(x, xLen)` — the `xLen` base-256 digits of `x`, most significant first:
    `X_1 … X_xLen` with `X_i = x_(xLen-i)`, where `x = Σ x_k 256^k`.  (The RFC outputs "integer too
    large" when `x ≥ 256^xLen`; every use below is guarded so that this does not occur.) -/
def I2OSP (x xLen : Nat) : Bytes :=
  (List.range xLen).map fun i => UInt8.ofNat (x / 256 ^ (xLen - 1 - i) % 256)

/-- RFC 8017 §4.2: `OS2IP(X_1 … X_n) = Σ X_i · 256^(n-i)`. -/
def OS2IP : Bytes → Nat
  | [] => 0
  | x :: rest => x.toNat * 256 ^ rest.length + OS2IP rest

/-- RFC 9380 §4: `strxor(str1, str2)`, bytewise XOR of two strings (of equal length). -/
def strxor (a b : Bytes) : Bytes := List.zipWith (· ^^^ ·) a b

/-- RFC 9380 §4: `substr(str, sbegin, slen)`. -/
def substr (s : Bytes) (sbegin slen : Nat) : Bytes := (s.drop sbegin).take slen

/-- RFC 9380 §5.3.1 step 6: `b_0 = H(Z_pad ‖ msg ‖ l_i_b_str ‖ I2OSP(0, 1) ‖ DST_prime)`
    with `Z_pad = I2OSP(0, s_in_bytes)` and `l_i_b_str = I2OSP(len_in_bytes, 2)`. -/
def xmdB0 (H : HashFn) (msg dstPrime : Bytes) (len : Nat) : Bytes :=
  H.run (I2OSP 0 H.blockSize ++ msg ++ I2OSP len 2 ++ I2OSP 0 1 ++ dstPrime)

/-- RFC 9380 §5.3.1 steps 7–10, the blocks `b_i` (with `xmdB … 0 = b_0`):
    `b_1 = H(b_0 ‖ I2OSP(1, 1) ‖ DST_prime)`,
    `b_i = H(strxor(b_0, b_(i-1)) ‖ I2OSP(i, 1) ‖ DST_prime)` for `i ≥ 2`. -/
def xmdB (H : HashFn) (b0 dstPrime : Bytes) : Nat → Bytes
  | 0 => b0
  | 1 => H.run (b0 ++ I2OSP 1 1 ++ dstPrime)
  | i + 2 => H.run (strxor b0 (xmdB H b0 dstPrime (i + 1)) ++ I2OSP (i + 2) 1 ++ dstPrime)

/-- RFC 9380 §5.3.1 `expand_message_xmd(msg, DST, len_in_bytes)`:
    ```
    1.  ell = ceil(len_in_bytes / b_in_bytes)
    2.  ABORT if ell > 255 or len_in_bytes > 65535 or len(DST) > 255
    3.  DST_prime = DST ‖ I2OSP(len(DST), 1)
    4.  Z_pad = I2OSP(0, s_in_bytes)
    5.  l_i_b_str = I2OSP(len_in_bytes, 2)
    6.  msg_prime = Z_pad ‖ msg ‖ l_i_b_str ‖ I2OSP(0, 1) ‖ DST_prime
    7.  b_0 = H(msg_prime)
    8.  b_1 = H(b_0 ‖ I2OSP(1, 1) ‖ DST_prime)
    9.  for i in (2, ..., ell):
    10.    b_i = H(strxor(b_0, b_(i - 1)) ‖ I2OSP(i, 1) ‖ DST_prime)
    11. uniform_bytes = b_1 ‖ ... ‖ b_ell
    12. return substr(uniform_bytes, 0, len_in_bytes)
    ```
    `none` = ABORT. -/
def expandMessageXmd (H : HashFn) (msg dst : Bytes) (len : Nat) : Option Bytes :=
  let ell := ceilDiv len H.digestSize
  if ell > 255 ∨ len > 65535 ∨ dst.length > 255 then none
  else
    let dstPrime := dst ++ I2OSP dst.length 1
    let b0 := xmdB0 H msg dstPrime len
    let uniformBytes := ((List.range ell).map fun i => xmdB H b0 dstPrime (i + 1)).flatten
    some (substr uniformBytes 0 len)

/-- RFC 9380 §5.2 `hash_to_field(msg, count)` for a field `GF(p^m)`, security parameter length `L`,
    with `expand_message = expand_message_xmd`:
    ```
    1. len_in_bytes = count * m * L
    2. uniform_bytes = expand_message(msg, DST, len_in_bytes)
    3. for i in (0, ..., count - 1):
    4.   for j in (0, ..., m - 1):
    5.     elm_offset = L * (j + i * m)
    6.     tv = substr(uniform_bytes, elm_offset, L)
    7.     e_j = OS2IP(tv) mod p
    8.   u_i = (e_0, ..., e_(m - 1))
    9. return (u_0, ..., u_(count - 1))
    ```
    An element of `GF(p^m)` is given as the list `[e_0, …, e_(m-1)]` of its coefficients. -/
def hashToField (H : HashFn) (p m L : Nat) (msg dst : Bytes) (count : Nat) : Option (List (List Nat)) :=
  (expandMessageXmd H msg dst (count * m * L)).map fun uniformBytes =>
    (List.range count).map fun i =>
      (List.range m).map fun j =>
        OS2IP (substr uniformBytes (L * (j + i * m)) L) % p

end PyEcc.Spec
