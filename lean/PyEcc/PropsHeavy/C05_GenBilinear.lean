/-
  PyEcc.PropsHeavy.C05_GenBilinear — property C05, the BILINEARITY clause (under the named hypothesis) and the
  NON-DEGENERACY clause, restated about the GENERATED code (`Gen.ExtraPairing.*.pairing`,
  `Gen.OptBls.add / multiply / is_on_curve`, `Gen.ExtraCodec.subgroup_check`).  Companion of `Props/C05_Gen.lean`.

  HEAVY IMPORTS: this file imports `Lemmas/ModelPairing.lean` (→ `Lemmas/NdFromModel.lean` → `PropsHeavy/C05_Nondeg.lean`,
  ≈ 1 min of kernel evaluation, once) and `PropsHeavy/C05_NondegBn.lean`; it is kept apart from `C05_Gen.lean` for that
  reason (`Props/C01_ProtoModel.lean` has the same dependency).  The file itself elaborates in seconds.

  * `GenBilinearCode` — the named hypothesis, stated on generated functions ONLY:
        `pairing(add(Q, Q'), P) == pairing(Q, P) * pairing(Q', P)`,  `pairing(Q, add(P, P')) == pairing(Q, P) * pairing(Q, P')`
    for all triples with reduced coefficients that pass `is_on_curve` and `subgroup_check`.  It is EQUIVALENT to the
    project's hypothesis `NdSem.ModelBilinearCode` (`genBilinearCode_iff`) — same strength, the model functions replaced
    by the generated ones through the tie theorems.  It is a closed mathematical statement (bilinearity of the optimal
    ate pairing as implemented: divisors / Weil reciprocity, not in Mathlib) — a hypothesis, never an axiom; its
    "instance" would be its proof, so no `example` of it is given (its side conditions are shown satisfiable below).
  * `pairing_bilinear_ab` — C05's headline clause FROM that hypothesis: `pairing(b·Q, a·P) == pairing(Q, P) ** (a·b)`.
  * `pairing_G2_G1_nondegenerate_*` — unconditional: `pairing(G2, G1)` is not `FQ12.one()`, has order exactly `r`.
-/
import PyEcc.Lemmas.ModelPairing
import PyEcc.PropsHeavy.C05_NondegBn
import PyEcc.Props.TiePairing
import PyEcc.Props.TieCofactor

set_option linter.unusedSectionVars false
set_option maxRecDepth 100000

namespace PyEcc.C05.Gen
open PyEcc PyEcc.Gen.Consts PyEcc.Fqp PyEcc.FqpSem PyEcc.Transfer PyEcc.BlsSem PyEcc.BlsProto PyEcc.NdSem

/-- **Named hypothesis: bilinearity of the generated optimized bls12_381 `pairing`, as a statement about the generated
    code alone.**  For all FQ2 triples `Q`, `Q'` with reduced coefficients and all FQ triples `P`, `P'` that pass the
    generated `is_on_curve` and `subgroup_check`:
    * `pairing(add(Q, Q'), P) == pairing(Q, P) * pairing(Q', P)`,
    * `pairing(Q, add(P, P')) == pairing(Q, P) * pairing(Q, P')`
    (equalities of FQ12 coefficient lists, for the values the three calls return). -/
structure GenBilinearCode : Prop where
  add_left : ∀ (Q Q' : G2Pt) (P : G1Pt), CanonT Q → CanonT Q' →
    Gen.OptBls.is_on_curve Q blsB2 = true → Gen.OptBls.is_on_curve Q' blsB2 = true →
    Gen.OptBls.is_on_curve P blsB = true →
    Gen.ExtraCodec.subgroup_check Q = true → Gen.ExtraCodec.subgroup_check Q' = true →
    Gen.ExtraCodec.subgroup_check P = true →
    ∀ v v' w : OBls12, Gen.ExtraPairing.OptBls.pairing Q P true = .ok v →
      Gen.ExtraPairing.OptBls.pairing Q' P true = .ok v' →
      Gen.ExtraPairing.OptBls.pairing (Gen.OptBls.add Q Q') P true = .ok w → w = v * v'
  add_right : ∀ (Q : G2Pt) (P P' : G1Pt), CanonT Q →
    Gen.OptBls.is_on_curve Q blsB2 = true → Gen.OptBls.is_on_curve P blsB = true →
    Gen.OptBls.is_on_curve P' blsB = true →
    Gen.ExtraCodec.subgroup_check Q = true → Gen.ExtraCodec.subgroup_check P = true →
    Gen.ExtraCodec.subgroup_check P' = true →
    ∀ v v' w : OBls12, Gen.ExtraPairing.OptBls.pairing Q P true = .ok v →
      Gen.ExtraPairing.OptBls.pairing Q P' true = .ok v' →
      Gen.ExtraPairing.OptBls.pairing Q (Gen.OptBls.add P P') true = .ok w → w = v * v'

/-- the hypothesis on the generated code is exactly the project's code-level hypothesis `ModelBilinearCode` -/
theorem genBilinearCode_iff : GenBilinearCode ↔ ModelBilinearCode := by
  constructor
  · intro h
    constructor
    · intro Q Q' P cQ cQ' h1 h2 h3 s1 s2 s3 v v' w e1 e2 e3
      rw [← Tie.subgroup_check_eq] at s1 s2 s3
      rw [← Tie.pairing_optBls_eq] at e1 e2 e3
      exact h.add_left Q Q' P cQ cQ' h1 h2 h3 s1 s2 s3 v v' w e1 e2 e3
    · intro Q P P' cQ h1 h2 h3 s1 s2 s3 v v' w e1 e2 e3
      rw [← Tie.subgroup_check_eq] at s1 s2 s3
      rw [← Tie.pairing_optBls_eq] at e1 e2 e3
      exact h.add_right Q P P' cQ h1 h2 h3 s1 s2 s3 v v' w e1 e2 e3
  · intro h
    constructor
    · intro Q Q' P cQ cQ' h1 h2 h3 s1 s2 s3 v v' w e1 e2 e3
      rw [Tie.subgroup_check_eq] at s1 s2 s3
      rw [Tie.pairing_optBls_eq] at e1 e2 e3
      exact h.add_left Q Q' P cQ cQ' h1 h2 h3 s1 s2 s3 v v' w e1 e2 e3
    · intro Q P P' cQ h1 h2 h3 s1 s2 s3 v v' w e1 e2 e3
      rw [Tie.subgroup_check_eq] at s1 s2 s3
      rw [Tie.pairing_optBls_eq] at e1 e2 e3
      exact h.add_right Q P P' cQ h1 h2 h3 s1 s2 s3 v v' w e1 e2 e3

section
variable [DecidableEq K2]

/-- under `ModelBilinear` the value the code computes is multiplicative in the scalar of the first argument -/
theorem valM_nsmul_left (mb : ModelBilinear) {q : E2} {p : E1} (hq : blsR • q = 0) (hp : blsR • p = 0) (n : ℕ) :
    valM (n • q) p = valM q p ^ n := by
  induction n with
  | zero => rw [zero_nsmul, pow_zero, valM_zero_left p hp]
  | succ n ih =>
    have hn : blsR • (n • q) = 0 := by rw [smul_comm, hq, smul_zero]
    rw [succ_nsmul, mb.add_left hn hq hp, ih, pow_succ]

/-- … and of the second argument -/
theorem valM_nsmul_right (mb : ModelBilinear) {q : E2} {p : E1} (hq : blsR • q = 0) (hp : blsR • p = 0) (n : ℕ) :
    valM q (n • p) = valM q p ^ n := by
  induction n with
  | zero => rw [zero_nsmul, pow_zero, valM_zero_right q hq]
  | succ n ih =>
    have hn : blsR • (n • p) = 0 := by rw [smul_comm, hp, smul_zero]
    rw [succ_nsmul, mb.add_right hq hn hp, ih, pow_succ]

/-- **C05 headline clause on the generated code, conditional on `GenBilinearCode`:
    `pairing(multiply(Q, b), multiply(P, a)) == pairing(Q, P) ** (a * b)`.**  For every FQ2 triple `Q` with reduced
    coefficients and every FQ triple `P` that pass the generated `is_on_curve` and `subgroup_check` (any projective
    representatives), and all naturals `a`, `b` (`0`, `1`, `r − 1`, `r`, full width, …): both generated `pairing` calls
    return, and the value of the second is the `(a·b)`-th power (the generated-class `**`, as FQ12 coefficient lists) of
    the value of the first. -/
theorem pairing_bilinear_ab (h : GenBilinearCode) (Q : G2Pt) (P : G1Pt) (cQ : CanonT Q)
    (honQ : Gen.OptBls.is_on_curve Q blsB2 = true) (honP : Gen.OptBls.is_on_curve P blsB = true)
    (hsQ : Gen.ExtraCodec.subgroup_check Q = true) (hsP : Gen.ExtraCodec.subgroup_check P = true) (a b : ℕ) :
    ∃ v w : OBls12, Gen.ExtraPairing.OptBls.pairing Q P true = .ok v ∧
      Gen.ExtraPairing.OptBls.pairing (Gen.OptBls.multiply Q b) (Gen.OptBls.multiply P a) true = .ok w ∧
      w = v ^ (a * b) := by
  have mb : ModelBilinear := (genBilinearCode_iff.mp h).toModelBilinear
  rw [Tie.subgroup_check_eq] at hsQ hsP
  simp only [Tie.pairing_optBls_eq]
  obtain ⟨q, rq⟩ := repG2_of_on_curve cQ honQ
  obtain ⟨p, rp⟩ := (on_curve_iff_F1 P).mp honP
  have hq : blsR • q = 0 := (C17M.subgroupCheck_G2_iff rq.1 rq.2).mp hsQ
  have hp : blsR • p = 0 := (C17M.subgroupCheck_G1_iff rp).mp hsP
  have rqb : RepG2 (Gen.OptBls.multiply Q b) (b • q) :=
    ⟨(canonT_ops cQ cQ b).2.2.2.1, opt_multiply_refines_F2 cQ rq.2 b⟩
  have rpa : Represents (Gen.OptBls.multiply P a) (a • p) := opt_multiply_refines_F1 rp a
  have hqb : blsR • (b • q) = 0 := by rw [smul_comm, hq, smul_zero]
  have hpa : blsR • (a • p) = 0 := by rw [smul_comm, hp, smul_zero]
  obtain ⟨v, hv⟩ := pairing_true_ok rq rp
  obtain ⟨w, hw⟩ := pairing_true_ok rqb rpa
  refine ⟨v, w, hv, hw, ?_⟩
  have hd : 1 ≤ blsMc12.length := by decide
  have hp0 : 0 < blsP := by decide
  have wv : WF v := C12.pairingOptBls_wf Q P true v hv
  obtain ⟨m, wm, _, rfl⟩ := C05N.pairingOptBls_is_pow hw
  apply toQ_inj (canon_pow hp0 hd wm _) (canon_pow hp0 hd wv _)
  have e1 := valM_spec_true rq rp hq hp hv
  have e2 := valM_spec_true rqb rpa hqb hpa hw
  have e3 : (toQ (v ^ (a * b)) : K12) = toQ v ^ (a * b) := toQ_pow hd wv _
  refine e2.trans (Eq.trans ?_ e3.symm)
  rw [e1, valM_nsmul_left mb hq hpa, valM_nsmul_right mb hq hp, ← pow_mul]

/-- the hypothesis itself, read on the generated code: additivity in each argument (this IS `GenBilinearCode`, with the
    existence of the three returned values supplied) -/
theorem pairing_additive (h : GenBilinearCode) (Q Q' : G2Pt) (P : G1Pt) (cQ : CanonT Q) (cQ' : CanonT Q')
    (honQ : Gen.OptBls.is_on_curve Q blsB2 = true) (honQ' : Gen.OptBls.is_on_curve Q' blsB2 = true)
    (honP : Gen.OptBls.is_on_curve P blsB = true)
    (hsQ : Gen.ExtraCodec.subgroup_check Q = true) (hsQ' : Gen.ExtraCodec.subgroup_check Q' = true)
    (hsP : Gen.ExtraCodec.subgroup_check P = true) :
    ∃ v v' w : OBls12, Gen.ExtraPairing.OptBls.pairing Q P true = .ok v ∧
      Gen.ExtraPairing.OptBls.pairing Q' P true = .ok v' ∧
      Gen.ExtraPairing.OptBls.pairing (Gen.OptBls.add Q Q') P true = .ok w ∧ w = v * v' := by
  obtain ⟨q, rq⟩ := repG2_of_on_curve cQ honQ
  obtain ⟨q', rq'⟩ := repG2_of_on_curve cQ' honQ'
  obtain ⟨p, rp⟩ := (on_curve_iff_F1 P).mp honP
  have ra : RepG2 (Gen.OptBls.add Q Q') (q + q') :=
    ⟨(canonT_ops rq.1 rq'.1 0).1, opt_add_refines_F2 rq.1 rq'.1 rq.2 rq'.2⟩
  obtain ⟨v, hv⟩ := pairing_true_ok rq rp
  obtain ⟨v', hv'⟩ := pairing_true_ok rq' rp
  obtain ⟨w, hw⟩ := pairing_true_ok ra rp
  rw [← Tie.pairing_optBls_eq] at hv hv' hw
  exact ⟨v, v', w, hv, hv', hw, h.add_left Q Q' P cQ cQ' honQ honQ' honP hsQ hsQ' hsP v v' w hv hv' hw⟩

end

/-! ## non-degeneracy (unconditional, by kernel evaluation of the whole pairing) -/

/-- **`pairing(G2, G1)` is not `FQ12.one()` and has order exactly `r`, generated optimized bls12_381**: the call
    returns a value `v` with `v != FQ12.one()`, `v != FQ12.zero()`, `v ** curve_order == FQ12.one()`, and the
    multiplicative order of `v` in `FQ12 = Fp[w]/(w¹² − 2w⁶ + 2)` is exactly `curve_order`. -/
theorem pairing_G2_G1_nondegenerate_optBls :
    ∃ v, Gen.ExtraPairing.OptBls.pairing blsG2 blsG1 true = .ok v ∧ v ≠ 1 ∧ v ≠ 0 ∧
      v ^ optimized_bls12_381_curve_order = 1 ∧ orderOf (toQ v) = optimized_bls12_381_curve_order := by
  obtain ⟨v, e, h1, h0⟩ := C05N.pairingOptBls_G2_G1_ne_one
  obtain ⟨hr, _, ho⟩ := C05N.pairingOptBls_G2_G1_order v e
  exact ⟨v, by rw [Tie.pairing_optBls_eq]; exact e, h1, h0, hr, ho⟩

/-- **the same for the generated optimized bn128 `pairing(G2, G1)`** -/
theorem pairing_G2_G1_nondegenerate_optBn :
    ∃ v, Gen.ExtraPairing.OptBn.pairing bnG2 bnG1 true = .ok v ∧ v ≠ 1 ∧ v ≠ 0 ∧
      v ^ optimized_bn128_curve_order = 1 ∧ orderOf (toQ v) = optimized_bn128_curve_order := by
  obtain ⟨v, e, h1, h0⟩ := C05NB.pairingOptBn_G2_G1_ne_one
  obtain ⟨hr, _, ho⟩ := C05NB.pairingOptBn_G2_G1_order v e
  exact ⟨v, by rw [Tie.pairing_optBn_eq]; exact e, h1, h0, hr, ho⟩

/-- **the generated REFERENCE pairings are non-degenerate too**: `bls12_381.pairing` and `bn128.pairing` on the generators
    read in the reference modules' affine representation (`normalize(G2)`, `normalize(G1)`) return the same twelve
    coefficients as the optimized pairings, different from those of `FQ12.one()`. -/
theorem pairing_G2_G1_nondegenerate_ref :
    ((Gen.ExtraPairing.RefBls.pairing (C12M.refOfOptG2 blsG2) (C12M.refOfOptG1 blsG1)).map Fqp.coeffs
        = (Gen.ExtraPairing.OptBls.pairing blsG2 blsG1 true).map Fqp.coeffs ∧
      (Gen.ExtraPairing.RefBls.pairing (C12M.refOfOptG2 blsG2) (C12M.refOfOptG1 blsG1)).map Fqp.coeffs
        ≠ .ok (1 : RBls12).coeffs) ∧
    ((Gen.ExtraPairing.RefBn.pairing (C12MB.refOfOptG2 bnG2) (C12MB.refOfOptG1 bnG1)).map Fqp.coeffs
        = (Gen.ExtraPairing.OptBn.pairing bnG2 bnG1 true).map Fqp.coeffs ∧
      (Gen.ExtraPairing.RefBn.pairing (C12MB.refOfOptG2 bnG2) (C12MB.refOfOptG1 bnG1)).map Fqp.coeffs
        ≠ .ok (1 : RBn12).coeffs) := by
  rw [Tie.pairing_refBls_eq, Tie.pairing_optBls_eq, Tie.pairing_refBn_eq, Tie.pairing_optBn_eq,
    C05N.pairingRefBls_G2_G1.1, C05N.pairingOptBls_G2_G1, C05NB.pairingRefBn_G2_G1.1, C05NB.pairingOptBn_G2_G1]
  refine ⟨⟨rfl, fun h => C05N.pairingRefBls_G2_G1.2 (Except.ok.inj h)⟩,
    ⟨rfl, fun h => C05NB.pairingRefBn_G2_G1.2 (Except.ok.inj h)⟩⟩

/-! ## non-vacuity of the side conditions -/

/-- the generators satisfy the side conditions of `GenBilinearCode` / `pairing_bilinear_ab` -/
example : CanonT blsG2 ∧ Gen.OptBls.is_on_curve blsG2 blsB2 = true ∧ Gen.OptBls.is_on_curve blsG1 blsB = true ∧
    Gen.ExtraCodec.subgroup_check blsG2 = true ∧ Gen.ExtraCodec.subgroup_check blsG1 = true :=
  ⟨C17M.blsG2_passes.1, C17M.blsG2_passes.2.1, C17M.blsG1_passes.1,
    by rw [Tie.subgroup_check_eq]; exact C17M.blsG2_passes.2.2,
    by rw [Tie.subgroup_check_eq]; exact C17M.blsG1_passes.2⟩

end PyEcc.C05.Gen
