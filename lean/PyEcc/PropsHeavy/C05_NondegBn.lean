/-
  PyEcc.PropsHeavy.C05_NondegBn — property C05, non-degeneracy clause for the bn128 implementations:
  `optimized_bn128.pairing(G2, G1)` and `bn128.pairing(G2, G1)` are not `FQ12.one()`; the value has
  multiplicative order exactly `curve_order`.

  HEAVY (thorough tier): imports `PropsHeavy/C05_NondegBnCalc.lean`, ≈ 45–55 s of kernel evaluation.

  How it is proved.  `pairing(G2, G1)` is EVALUATED by the Lean kernel (`decide +kernel`: kernel
  reduction only, no compiled evaluator, no axiom): the model's optimized bn128 Miller loop (64 signed
  digits, running point over FQ12), its two Frobenius line steps and the final power are re-expressed
  over a fast FQ12 arithmetic (`Y12`: 12 naturals, explicit product formulas with `w¹² = 18w⁶ − 82`
  folded in), which is PROVED to return the same coefficient lists as the model's list arithmetic for
  all inputs (`NondegBnSem.goodHom_toL`, `NondegBnSem.optBnMillerLoop_fast`); the kernel then computes
  the twelve coefficients.  With the general root-of-unity theorem (`C05N.pairingOptBn_orderOf`,
  `Props/C05_Order.lean`) the order is `r`; the reference pairing returns the same coefficients
  (`C12MB.pairingOptBn_eq_pairingRefBn_normalize`, `Props/C12_MillerBn.lean`).
-/
import PyEcc.PropsHeavy.C05_NondegBnCalc
import PyEcc.Props.C05_Order
import PyEcc.Props.C12_MillerBn

set_option maxRecDepth 100000

namespace PyEcc.C05NB
open PyEcc PyEcc.Gen PyEcc.Gen.Consts PyEcc.Fqp PyEcc.FqpSem PyEcc.PairingSem PyEcc.Transfer
  PyEcc.NondegBnSem

/-- **The value of `pairing(G2, G1)`** (optimized bn128, generators of the module):
    `optimized_bn128.pairing(G2, G1)` returns (no exception) the FQ12 element whose twelve
    coefficients are the literal `NondegBnSem.pairingG2G1` — the same twelve integers py_ecc prints. -/
theorem pairingOptBn_G2_G1 : pairingOptBn bnG2 bnG1 true = .ok pairingG2G1 := by
  obtain ⟨h2, h1, hz⟩ := calc_guards
  rw [pairingOptBn_eq, h2, h1, if_neg (by decide), if_neg (by decide), if_neg hz, if_pos rfl,
    optBnMillerLoop_fast, calc_miller, calc_div, calc_pow, calc_toL.1]

/-- **The Miller value of `(G2, G1)`**: `pairing(G2, G1, final_exponentiate=False)` returns
    `f_num·n1·n2 / (f_den·d1·d2)` with the coefficients `NondegBnSem.millerVal`, a non-zero element
    of FQ12. -/
theorem pairingOptBn_G2_G1_miller :
    pairingOptBn bnG2 bnG1 false = .ok (Y12.toL millerVal) ∧ Y12.toL millerVal ≠ 0 := by
  obtain ⟨h2, h1, hz⟩ := calc_guards
  refine ⟨?_, calc_toL.2.1⟩
  rw [pairingOptBn_eq, h2, h1, if_neg (by decide), if_neg (by decide), if_neg hz,
    if_neg Bool.false_ne_true, optBnMillerLoop_none_fast, calc_miller, calc_div]

/-- **Non-degeneracy: `pairing(G2, G1) != FQ12.one()`** (optimized bn128).  The call returns a value
    `v` (it does not raise), and `v` is neither `FQ12.one()` nor `FQ12.zero()`. -/
theorem pairingOptBn_G2_G1_ne_one :
    ∃ v, pairingOptBn bnG2 bnG1 true = .ok v ∧ v ≠ 1 ∧ v ≠ 0 :=
  ⟨pairingG2G1, pairingOptBn_G2_G1, calc_toL.2.2.1, calc_toL.2.2.2⟩

/-- **`pairing(G2, G1)` has order exactly `r`** (optimized bn128): the value `v` returned by
    `optimized_bn128.pairing(G2, G1)` satisfies `v ** curve_order == 1`, `v != 1`, and its
    multiplicative order in the field `FQ12 = Fp[w]/(w¹² − 18w⁶ + 82)` is exactly `curve_order` (the
    prime `r`): it generates the group `μ_r` of `r`-th roots of unity, the target group of the pairing. -/
theorem pairingOptBn_G2_G1_order (v : OBn12) (h : pairingOptBn bnG2 bnG1 true = .ok v) :
    v ^ optimized_bn128_curve_order = 1 ∧ v ≠ 1 ∧
      orderOf (toQ v) = optimized_bn128_curve_order := by
  have hv : v = pairingG2G1 := by
    rw [pairingOptBn_G2_G1] at h; exact (Except.ok.inj h).symm
  have h1 : v ≠ 1 := hv ▸ calc_toL.2.2.1
  have h0 : v ≠ 0 := hv ▸ calc_toL.2.2.2
  refine ⟨?_, h1, C05N.pairingOptBn_orderOf _ _ v h h1 h0⟩
  rcases C05N.pairingOptBn_pow_r _ _ v h with e | e
  · exact e
  · exact absurd e h0

/-- non-vacuity of the hypothesis of `pairingOptBn_G2_G1_order` (and of the hypotheses `v ≠ 1`,
    `v ≠ 0` of `C05N.pairingOptBn_orderOf` in `Props/C05_Order.lean`): the call returns such a value -/
example : ∃ v, pairingOptBn bnG2 bnG1 true = .ok v ∧ v ≠ 1 ∧ v ≠ 0 := pairingOptBn_G2_G1_ne_one

/-- **The reference bn128 pairing is non-degenerate too**: `bn128.pairing` on the same generators
    (read in the reference module's affine representation: `normalize(G2)`, `normalize(G1)`) returns
    the same twelve coefficients, hence a value different from `FQ12.one()`. -/
theorem pairingRefBn_G2_G1 :
    (pairingRefBn (C12MB.refOfOptG2 bnG2) (C12MB.refOfOptG1 bnG1)).map Fqp.coeffs
      = .ok pairingG2G1.coeffs ∧ pairingG2G1.coeffs ≠ (1 : RBn12).coeffs := by
  refine ⟨?_, by decide +kernel⟩
  rw [← C12MB.pairingOptBn_eq_pairingRefBn_normalize bnG2 bnG1 (by decide +kernel)
    C07.Facts.bn_G2_opt.2.2, pairingOptBn_G2_G1]
  rfl

/-- **`bn128.pairing(G2, G1)` has order exactly `r`** (reference bn128): the call returns a value `v`
    with the twelve coefficients `NondegBnSem.pairingG2G1`; `v` is neither `FQ12.one()` nor
    `FQ12.zero()`, `v ** curve_order == 1`, and the multiplicative order of `v` in
    `FQ12 = Fp[w]/(w¹² − 18w⁶ + 82)` is exactly `curve_order`. -/
theorem pairingRefBn_G2_G1_order :
    ∃ v : RBn12, pairingRefBn (C12MB.refOfOptG2 bnG2) (C12MB.refOfOptG1 bnG1) = .ok v ∧
      v.coeffs = pairingG2G1.coeffs ∧ v ≠ 1 ∧ v ≠ 0 ∧ v ^ bn128_curve_order = 1 ∧
      orderOf (toQ v) = bn128_curve_order := by
  have h := pairingRefBn_G2_G1.1
  cases hv : pairingRefBn (C12MB.refOfOptG2 bnG2) (C12MB.refOfOptG1 bnG1) with
  | error e => rw [hv] at h; cases h
  | ok v =>
    rw [hv] at h
    have hc : v.coeffs = pairingG2G1.coeffs := Except.ok.inj h
    have hv' : v = (⟨pairingG2G1.coeffs⟩ : RBn12) := by
      cases v; simp only at hc; rw [hc]
    have h1 : v ≠ 1 := by rw [hv']; decide +kernel
    have h0 : v ≠ 0 := by rw [hv']; decide +kernel
    refine ⟨v, rfl, hc, h1, h0, ?_, C05N.pairingRefBn_orderOf _ _ v hv h1 h0⟩
    rcases C05N.pairingRefBn_pow_r _ _ v hv with e | e
    · exact e
    · exact absurd e h0

end PyEcc.C05NB
