/-
  PyEcc.PropsHeavy.C05_Nondeg — property C05, non-degeneracy clause: for the optimized BLS12-381
  pairing of py_ecc, `pairing(G2, G1)` is not `FQ12.one()`; it has multiplicative order exactly
  `curve_order`.

  HEAVY (thorough tier): imports `PropsHeavy/C05_NondegCalc.lean`, ≈ 50 s of kernel evaluation.

  How it is proved.  `pairing(G2, G1)` is EVALUATED by the Lean kernel (`decide +kernel`: kernel
  reduction only, no compiled evaluator, no axiom): the model's Miller loop and final power are re-expressed over a fast
  FQ12 arithmetic (`X12`: 12 naturals, explicit product formulas), which is PROVED to return the same
  coefficient lists as the model's list arithmetic for all inputs (`NondegSem.goodHom_toL`,
  `NondegSem.optBlsMillerLoop_fast`); the kernel then computes the twelve coefficients.  With the
  general root-of-unity theorem (`C05N.pairingOptBls_orderOf`, `Props/C05_Order.lean`) the order is `r`.
-/
import PyEcc.PropsHeavy.C05_NondegCalc
import PyEcc.Props.C05_Order
import PyEcc.Props.C12_Miller

set_option maxRecDepth 100000

namespace PyEcc.C05N
open PyEcc PyEcc.Gen.Consts PyEcc.Fqp PyEcc.FqpSem PyEcc.PairingSem PyEcc.NondegSem

/-- **The value of `pairing(G2, G1)`** (optimized bls12_381, generators of the module):
    `optimized_bls12_381.pairing(G2, G1)` returns (no exception) the FQ12 element whose twelve
    coefficients are the literal `NondegSem.pairingG2G1`. -/
theorem pairingOptBls_G2_G1 : pairingOptBls blsG2 blsG1 true = .ok pairingG2G1 := by
  obtain ⟨h2, h1, hz⟩ := calc_guards
  rw [pairingOptBls_eq, h2, h1, if_neg (by decide), if_neg (by decide), if_neg hz, if_pos rfl,
    optBlsMillerLoop_fast, calc_miller, calc_div, calc_pow, calc_toL.1]

/-- **The Miller value of `(G2, G1)`**: `pairing(G2, G1, final_exponentiate=False)` returns
    `f_num / f_den` with the coefficients `NondegSem.millerVal`, a non-zero element of FQ12. -/
theorem pairingOptBls_G2_G1_miller :
    pairingOptBls blsG2 blsG1 false = .ok (X12.toL millerVal) ∧ X12.toL millerVal ≠ 0 := by
  obtain ⟨h2, h1, hz⟩ := calc_guards
  refine ⟨?_, calc_toL.2.1⟩
  rw [pairingOptBls_eq, h2, h1, if_neg (by decide), if_neg (by decide), if_neg hz,
    if_neg Bool.false_ne_true, optBlsMillerLoop_none_fast, calc_miller, calc_div]

/-- **Non-degeneracy: `pairing(G2, G1) != FQ12.one()`** (optimized bls12_381).  The call returns a
    value `v` (it does not raise), and `v` is neither `FQ12.one()` nor `FQ12.zero()`. -/
theorem pairingOptBls_G2_G1_ne_one :
    ∃ v, pairingOptBls blsG2 blsG1 true = .ok v ∧ v ≠ 1 ∧ v ≠ 0 :=
  ⟨pairingG2G1, pairingOptBls_G2_G1, calc_toL.2.2.1, calc_toL.2.2.2⟩

/-- **`pairing(G2, G1)` has order exactly `r`**: the value `v` returned by
    `optimized_bls12_381.pairing(G2, G1)` satisfies `v ** curve_order == 1`, `v != 1`, and its
    multiplicative order in the field `FQ12 = Fp[w]/(w¹² − 2w⁶ + 2)` is exactly `curve_order`
    (the prime `r`): it generates the group `μ_r` of `r`-th roots of unity, the target group of the
    pairing. -/
theorem pairingOptBls_G2_G1_order (v : OBls12) (h : pairingOptBls blsG2 blsG1 true = .ok v) :
    v ^ optimized_bls12_381_curve_order = 1 ∧ v ≠ 1 ∧
      orderOf (toQ v) = optimized_bls12_381_curve_order := by
  have hv : v = pairingG2G1 := by
    rw [pairingOptBls_G2_G1] at h; exact (Except.ok.inj h).symm
  have h1 : v ≠ 1 := hv ▸ calc_toL.2.2.1
  have h0 : v ≠ 0 := hv ▸ calc_toL.2.2.2
  refine ⟨?_, h1, pairingOptBls_orderOf _ _ v h h1 h0⟩
  rcases pairingOptBls_pow_r _ _ v h with e | e
  · exact e
  · exact absurd e h0

/-- non-vacuity of the hypothesis of `pairingOptBls_G2_G1_order` (and of the hypotheses `v ≠ 1`,
    `v ≠ 0` of `pairingOptBls_orderOf` in `Props/C05_Order.lean`): the call returns such a value -/
example : ∃ v, pairingOptBls blsG2 blsG1 true = .ok v ∧ v ≠ 1 ∧ v ≠ 0 := pairingOptBls_G2_G1_ne_one

/-- **The reference pairing is non-degenerate too**: `bls12_381.pairing` on the same generators
    (read in the reference module's affine representation: `normalize(G2)`, `normalize(G1)`) returns
    the same twelve coefficients, hence a value different from `FQ12.one()`. -/
theorem pairingRefBls_G2_G1 :
    (pairingRefBls (C12M.refOfOptG2 blsG2) (C12M.refOfOptG1 blsG1)).map Fqp.coeffs
      = .ok pairingG2G1.coeffs ∧ pairingG2G1.coeffs ≠ (1 : RBls12).coeffs := by
  refine ⟨?_, by decide +kernel⟩
  rw [← C12M.pairingOptBls_eq_pairingRefBls_normalize blsG2 blsG1 C17M.blsG2_passes.1
    C17M.blsG2_passes.2.2, pairingOptBls_G2_G1]
  rfl

end PyEcc.C05N
