/-
  PyEcc.Props.C06 — property C06, shape part: `ecdsa_raw_sign` / `deterministic_generate_k` of
  `py_ecc/secp256k1/secp256k1.py` (modelled as `PyEcc.Ecdsa.rawSignWithK`, `ecdsaRawSign`,
  `deterministicGenerateK` around the GENERATED Jacobian arithmetic): the signature never fails, `v ∈ {27, 28}`,
  `s` is low, `v` records the parity of `R.y` corrected for the low-`s` flip, and the nonce is the first
  candidate of RFC 6979 §3.2. (Sign-then-recover — the group-theoretic part — is in `Props/C06_Recover.lean`.)
-/
import PyEcc.Sem.EcdsaSem
import PyEcc.Spec.Rfc6979
import PyEcc.Lemmas.Hkdf
import PyEcc.Lemmas.Bytes

namespace PyEcc.C06
open PyEcc PyEcc.Gen.Secp PyEcc.SecpSem PyEcc.Ecdsa PyEcc.EcdsaSem

/-- **`ecdsa_raw_sign` never raises** (for any message hash, key bytes and nonce `k`, also `k ≤ 0` or `k ≥ N`). -/
theorem sign_total (h priv : Bytes) (k : ℤ) : ∃ v r s, rawSignWithK h priv k = .ok (v, r, s) := by
  obtain ⟨⟨r, y⟩, hm⟩ := multiply_ok G k
  exact ⟨_, _, _, rawSignWithK_of_ok hm⟩

theorem N_odd : N % 2 = 1 := by decide

/-- **Shape of a signature.** Whenever `ecdsa_raw_sign` (run with nonce `k`) returns `(v, r, s)`: `(r, y) = multiply(G, k)`
for some `y`; with `s₀ = inv(k, N)·(z + r·d) % N` the un-normalised `s` (`z`, `d` the big-endian ints of the hash
and the key): `v ∈ {27, 28}`; `s` is LOW: `0 ≤ s` and `2s < N`; `s = s₀` or `s = N − s₀` according to whether `2s₀ < N`;
`s ≥ 1` unless `s₀ = 0`; `s ≡ 0 (mod N)` only if `s₀ = 0`; and `v − 27` is the parity of `y` XOR "the low-`s` flip
happened": `v = 28` exactly when (`y` is odd) ≠ (`2s₀ ≥ N`). -/
theorem sign_shape (h priv : Bytes) (k v r s : ℤ) (hs : rawSignWithK h priv k = .ok (v, r, s)) :
    ∃ y : ℤ, multiply G k = .ok (r, y) ∧
      (v = 27 ∨ v = 28) ∧ 0 ≤ s ∧ s * 2 < N ∧
      s = (if signS0 h priv k r * 2 < N then signS0 h priv k r else N - signS0 h priv k r) ∧
      (signS0 h priv k r ≠ 0 → 1 ≤ s) ∧ (signS0 h priv k r ≠ 0 ↔ s % N ≠ 0) ∧
      (v = 28 ↔ ¬ (y % 2 = 1 ↔ N ≤ signS0 h priv k r * 2)) := by
  obtain ⟨⟨r', y⟩, hm⟩ := multiply_ok G k
  rw [rawSignWithK_of_ok hm] at hs
  have hinj := Except.ok.inj hs
  simp only [Prod.mk.injEq] at hinj
  obtain ⟨hv, rfl, hs'⟩ := hinj
  have h0 : 0 ≤ signS0 h priv k r' := Int.emod_nonneg _ (by decide)
  have hN : signS0 h priv k r' < N := Int.emod_lt_of_pos _ N_pos
  have hodd := N_odd
  have hy : y % 2 = 0 ∨ y % 2 = 1 := by omega
  refine ⟨y, hm, ?_, ?_, ?_, hs'.symm, ?_, ?_, ?_⟩
  · rw [← hv]
    by_cases hlow : signS0 h priv k r' * 2 < N
    · rw [if_pos hlow, pyXor_bits _ 0 hy (Or.inl rfl)]
      split <;> simp
    · rw [if_neg hlow, pyXor_bits _ 1 hy (Or.inr rfl)]
      split <;> simp
  · rw [← hs']; split <;> omega
  · rw [← hs']; split <;> omega
  · intro hne; rw [← hs']; split <;> omega
  · rw [← hs']
    split
    · rw [Int.emod_eq_of_lt h0 hN]
    · constructor
      · intro hne
        rw [Int.emod_eq_of_lt (by omega) (by omega)]; omega
      · intro hne e; rw [e] at hne; simp at hne
  · rw [← hv]
    by_cases hlow : signS0 h priv k r' * 2 < N
    · rw [if_pos hlow, pyXor_bits _ 0 hy (Or.inl rfl)]
      rcases hy with hy | hy <;> rw [hy] <;> simp <;> omega
    · rw [if_neg hlow, pyXor_bits _ 1 hy (Or.inr rfl)]
      rcases hy with hy | hy <;> rw [hy] <;> simp <;> omega

/-- non-vacuity: `sign_total` provides a signature for every input -/
example : ∃ v r s, rawSignWithK [1] [1] 1 = .ok (v, r, s) := sign_total _ _ _

/-- **Determinism.** `ecdsa_raw_sign(msghash, priv)` is a function of its two arguments (and of the hash function):
it is `ecdsa_raw_sign` run with the nonce `deterministic_generate_k(msghash, priv)`; no other state or randomness
enters. -/
theorem sign_deterministic (H : HashFn) (h priv : Bytes) :
    ecdsaRawSign H h priv = rawSignWithK h priv (deterministicGenerateK H h priv) := rfl

/-! ### the nonce is RFC 6979's first candidate -/

/-- one HMAC chain, whatever the hash function: the nonce is the big-endian integer of the string `T` of
RFC 6979 §3.2 (steps b–h.2 for `hlen = qlen = 256`) computed with Python's `hmac.new(key, msg, H).digest()` as HMAC
and with the octet strings `priv`, `msghash` fed AS GIVEN (in this order) -/
theorem nonce_chain (H : HashFn) (h priv : Bytes) :
    deterministicGenerateK H h priv = (Spec.OS2IP (Spec.rfc6979T (hmac H) 32 256 priv h) : ℤ) := by
  rw [C15.OS2IP_eq_os2ip]
  rfl

/-- **The nonce is RFC 6979's first candidate.** For every hash function `H` with 32-byte digests (in particular
SHA-256, which the code uses) and ALL byte strings `msghash`, `priv`: `deterministic_generate_k(msghash, priv)` equals
the first candidate `k = bits2int(T)` of RFC 6979 §3.2 (`V = 0x01³²`, `K = 0x00³²`, `K = HMAC_K(V‖0x00‖x‖h)`,
`V = HMAC_K(V)`, `K = HMAC_K(V‖0x01‖x‖h)`, `V = HMAC_K(V)`, `T = V = HMAC_K(V)`) with HMAC as specified in RFC 2104,
where the octet strings `x = priv` and `h = msghash` are fed as given (note the order: key first). -/
theorem nonce_is_rfc6979 (H : HashFn) (hw : H.WF) (h32 : H.digestSize = 32) (h priv : Bytes) :
    deterministicGenerateK H h priv = (Spec.rfc6979FirstCandidate H priv h : ℤ) := by
  have hm : ∀ key msg, key.length = 32 → Spec.hmac H key msg = hmac H key msg := by
    intro key msg hk
    rw [C16.hmac_eq_spec_aux H key msg (C16.hmacKeyOk_of_WF hw key)]
  have hl : ∀ key msg, (hmac H key msg).length = 32 := by
    intro key msg; unfold hmac; rw [hw.run_length, h32]
  rw [nonce_chain]
  unfold Spec.rfc6979FirstCandidate
  rw [h32]
  have hT : Spec.rfc6979T (Spec.hmac H) 32 256 priv h = Spec.rfc6979T (hmac H) 32 256 priv h := by
    have hc : Spec.ceilDiv 256 (8 * 32) = 1 := by decide
    unfold Spec.rfc6979T Spec.rfc6979Init
    simp only [hc, Spec.rfc6979Fill, List.nil_append]
    rw [hm _ _ (List.length_replicate ..), hm _ _ (hl _ _), hm _ _ (hl _ _), hm _ _ (hl _ _), hm _ _ (hl _ _)]
  rw [hT]
  have hTl : (Spec.rfc6979T (hmac H) 32 256 priv h).length = 32 := by
    have hc : Spec.ceilDiv 256 (8 * 32) = 1 := by decide
    unfold Spec.rfc6979T
    simp only [hc, Spec.rfc6979Fill, List.nil_append]
    exact hl _ _
  unfold Spec.bits2int
  simp only [hTl]
  rfl

/-- non-vacuity of the hypotheses of `nonce_is_rfc6979`: SHA-256 -/
example : sha256Fn.WF ∧ sha256Fn.digestSize = 32 := ⟨C15.sha256Fn_WF, rfl⟩

/-- **With the RFC's own input conversion.** If the key is a 32-byte string (`int2octets(x) = priv` for `x` its
big-endian int) and the message hash is a 32-byte string whose int is `< N` (so that `bits2octets(h1) = h1`), the
nonce is RFC 6979's first candidate for private key `x`, hash value `h1 = msghash`, group order `q = N`.
For `int(msghash) ≥ N` the RFC feeds the hash REDUCED mod `N`, the code feeds it unreduced: there the two differ. -/
theorem nonce_is_rfc6979_int (H : HashFn) (hw : H.WF) (h32 : H.digestSize = 32) (h priv : Bytes)
    (hp : priv.length = 32) (hh : h.length = 32) (hz : bytesToInt h < N) :
    deterministicGenerateK H h priv = (Spec.rfc6979FirstCandidateInt H N.toNat (os2ip priv) h : ℤ) := by
  rw [nonce_is_rfc6979 H hw h32]
  unfold Spec.rfc6979FirstCandidateInt
  have hc : Spec.ceilDiv 256 8 = 32 := by decide
  have h1 : Spec.int2octets 256 (os2ip priv) = priv := by
    unfold Spec.int2octets
    rw [hc, C15.I2OSP_eq_toBytesBE, BytesLem.toBytesBE_os2ip 32 priv hp]
  have h2 : Spec.bits2octets N.toNat 256 h = h := by
    unfold Spec.bits2octets Spec.bits2int Spec.int2octets
    simp only [hh]
    rw [hc, C15.OS2IP_eq_os2ip]
    have hlt : os2ip h < N.toNat := by
      unfold bytesToInt at hz
      omega
    rw [if_neg (by decide), Nat.mod_eq_of_lt hlt, C15.I2OSP_eq_toBytesBE, BytesLem.toBytesBE_os2ip 32 h hh]
  rw [h1, h2]

example : ([0,0,0,0,0,0,0,0,0,0,0,0,0,0,0,0,0,0,0,0,0,0,0,0,0,0,0,0,0,0,0,1] : Bytes).length = 32 ∧
    bytesToInt [0,0,0,0,0,0,0,0,0,0,0,0,0,0,0,0,0,0,0,0,0,0,0,0,0,0,0,0,0,0,0,1] < N := by decide

end PyEcc.C06

section AxiomAudit
open PyEcc.C06
#print axioms sign_total
#print axioms sign_shape
#print axioms sign_deterministic
#print axioms nonce_chain
#print axioms nonce_is_rfc6979
#print axioms nonce_is_rfc6979_int
end AxiomAudit
