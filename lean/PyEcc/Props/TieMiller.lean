/-
  PyEcc.Props.TieMiller — "generated = hand-written model" for the four `miller_loop` functions.

  `Gen/ExtraMiller.lean` contains, for each pairing module, the `miller_loop` translated from the CURRENT source
  in core/wrapper form: `miller_loop_core` is the loop with its callees (`linefunc`, `double`, `add`, `neg`, `twist`,
  `cast_point_to_fq12`) and its closed constant expressions (digit table / loop range, final exponent) as
  PARAMETERS, `miller_loop_loop0` is the body of the `for` loop, and `miller_loop` instantiates the core at the
  generated curve operations.  The theorems `miller_loop_{optBls,optBn,refBls,refBn}_eq` state that `miller_loop` is
  exactly the model expression that the model's `pairing` functions use (and that `Tie.pairing_*_eq` map the call
  `miller_loop(..)` to).

  Proof shape (the same four times): (1) the model function equals its own parametrised form at the generated
  curve operations (`*_eq_G`, by `rfl` at a GENERIC modulus, where nothing can be evaluated); (2) the generated core
  equals the parametrised model for ARBITRARY callees (`*_core_eq`: the loop states differ only by a
  re-arrangement of the tuple, `foldl_map_eq` / `foldlM_map`); (3) instantiate.  Keeping the callees abstract in (2) is
  what keeps the kernel from trying to evaluate curve arithmetic when it reduces `match linefunc .. with | (n, d) => ..`.

  Robustness: the statements never mention the generated loop body `miller_loop_loop0` (its parameter list is "the
  locals the body reads, in order of first use" and changes when the source hoists / inlines a loop invariant): the
  one-iteration lemma is proved inside `*_core_eq` for whatever function the generated fold applies, by `tie_close`
  (case analysis on both bodies) rather than by a fixed rewriting script.
-/
import PyEcc.Gen.ExtraMiller
import PyEcc.Props.TieRobC

set_option linter.unusedSimpArgs false

namespace PyEcc.Tie
open PyEcc PyEcc.Gen.Consts

/-- relational induction over two folds of the same list -/
theorem foldl_rel {α₁ α₂ β : Type} (r : α₂ → α₁ → Prop) {g₁ : α₁ → β → α₁} {g₂ : α₂ → β → α₂} {l : List β}
    {i₁ : α₁} {i₂ : α₂} (hi : r i₂ i₁) (H : ∀ x₂ x₁ y, r x₂ x₁ → r (g₂ x₂ y) (g₁ x₁ y)) :
    r (List.foldl g₂ i₂ l) (List.foldl g₁ i₁ l) := by
  induction l generalizing i₁ i₂ with
  | nil => exact hi
  | cons a l ih => exact ih (H _ _ _ hi)

/-- two folds of the same list whose states correspond under `φ` (the step function `g₂` is left to unification) -/
theorem foldl_map_eq {α₁ α₂ β : Type} (φ : α₁ → α₂) {g₁ : α₁ → β → α₁} {g₂ : α₂ → β → α₂} (i : α₁) (l : List β)
    (H : ∀ x y, g₂ (φ x) y = φ (g₁ x y)) : List.foldl g₂ (φ i) l = φ (List.foldl g₁ i l) := by
  induction l generalizing i with
  | nil => rfl
  | cons a l ih => simp only [List.foldl_cons, H, ih]

section optBls
variable {p : Nat} {mc2 mc12 : List Int}
local notation "T2" => Fqp Variant.opt p mc2 × Fqp Variant.opt p mc2 × Fqp Variant.opt p mc2
local notation "F12" => Fqp Variant.opt p mc12
local notation "T12" => Fqp Variant.opt p mc12 × Fqp Variant.opt p mc12 × Fqp Variant.opt p mc12

/-- the model's `optBlsMillerLoop` with its callees as parameters: loop step -/
def optBlsStepG (lf : T12 → T12 → T12 → F12 × F12) (dbl : T2 → T2) (add : T2 → T2 → T2) (tw : T2 → T12)
    (castP twistQ : T12) (Q : T2) (st : (F12 × F12) × T2 × T12) (v : Int) : (F12 × F12) × T2 × T12 :=
  let ((fNum, fDen), R, twistR) := st
  let (n, d) := lf twistR twistR castP
  let fNum := fNum * fNum * n
  let fDen := fDen * fDen * d
  let R := dbl R
  let twistR : T12 := tw R
  if v = 1 then
    let (n, d) := lf twistR twistQ castP
    let R := add R Q
    ((fNum * n, fDen * d), R, tw R)
  else ((fNum, fDen), R, twistR)

/-- the model's `optBlsMillerLoop` with its callees as parameters -/
def optBlsMillerG (lf : T12 → T12 → T12 → F12 × F12) (dbl : T2 → T2) (add : T2 → T2 → T2) (tw : T2 → T12)
    (cast : Fq p × Fq p × Fq p → T12) (digits : List Int) (finalExp : Option Nat) (Q : T2) (P : Fq p × Fq p × Fq p) : F12 :=
  let castP : T12 := cast P
  let twistQ : T12 := tw Q
  let ((fNum, fDen), _, _) := digits.foldl (optBlsStepG lf dbl add tw castP twistQ Q) (((1 : F12), (1 : F12)), Q, twistQ)
  let f := fNum / fDen
  match finalExp with
  | some e => f ^ e
  | none => f

/-- the model function is its parametrised form at the generated curve operations (checked at a generic modulus,
    where nothing can be evaluated) -/
theorem optBlsMillerLoop_eq_G [NeZero p] (L : List Int) (fe : Option Nat) (Q : T2) (P : Fq p × Fq p × Fq p) :
    optBlsMillerLoop (mc12 := mc12) L fe Q P =
      optBlsMillerG Gen.OptBls.linefunc Gen.OptBls.double Gen.OptBls.add twistOptBls
        (fun pt => (castFq12 pt.1, castFq12 pt.2.1, castFq12 pt.2.2)) L fe Q P := rfl
end optBls

/-- re-arrangement of the loop state: model `((fNum, fDen), R, twistR)` ↦ generated `(R, f_den, f_num, twist_R)` -/
abbrev φBls (s : (OBls12 × OBls12) × (OBls2 × OBls2 × OBls2) × (OBls12 × OBls12 × OBls12)) :
    (OBls2 × OBls2 × OBls2) × OBls12 × OBls12 × (OBls12 × OBls12 × OBls12) :=
  (s.2.1, s.1.2, s.1.1, s.2.2)

section coreOptBls
variable (lf : (OBls12 × OBls12 × OBls12) → (OBls12 × OBls12 × OBls12) → (OBls12 × OBls12 × OBls12) → OBls12 × OBls12)
  (dbl : (OBls2 × OBls2 × OBls2) → OBls2 × OBls2 × OBls2) (add : (OBls2 × OBls2 × OBls2) → (OBls2 × OBls2 × OBls2) → OBls2 × OBls2 × OBls2)
  (tw : (OBls2 × OBls2 × OBls2) → OBls12 × OBls12 × OBls12) (cast : (Fq blsP × Fq blsP × Fq blsP) → OBls12 × OBls12 × OBls12)

/-- the generated core equals the parametrised model for arbitrary callees, digit list and exponent.  (The one-iteration
    lemma -- generated loop body vs the model's step, states related by `φBls` -- is the side goal of `foldl_map_eq`.) -/
theorem optBls_core_eq (L : List Int) (E : Nat) (Q : OBls2 × OBls2 × OBls2) (P : Fq blsP × Fq blsP × Fq blsP) (fe : Bool) :
    Gen.ExtraMiller.OptBls.miller_loop_core Q P fe lf dbl add tw cast L E =
      optBlsMillerG lf dbl add tw cast L (if fe then some E else none) Q P := by
  unfold Gen.ExtraMiller.OptBls.miller_loop_core optBlsMillerG
  simp only [or_self, if_false]
  rw [foldl_map_eq φBls (g₁ := optBlsStepG lf dbl add tw (cast P) (tw Q) Q) (((1 : OBls12), (1 : OBls12)), Q, tw Q)]
  · generalize List.foldl (optBlsStepG lf dbl add tw _ _ Q) _ L = s
    rcases s with ⟨⟨fn, fd⟩, R, tR⟩
    cases fe <;> tie_close
  · rintro ⟨⟨fn, fd⟩, R, tR⟩ v
    unfold Gen.ExtraMiller.OptBls.miller_loop_loop0 optBlsStepG
    tie_close
end coreOptBls

/-- optimized bls12_381 `miller_loop(Q, P, final_exponentiate)` as translated from the source (the
    `for v in pseudo_binary_encoding[62::-1]` loop over the state `(R, f_den, f_num, twist_R)`, the division
    `f_num / f_den`, the optional final exponentiation) is the model's `optBlsMillerLoop` at the digit table and exponent
    that the model's `pairingOptBls` passes.  (`Q is None` / `P is None` are `False`: the parameters are not Optional.) -/
theorem miller_loop_optBls_eq (Q : OBls2 × OBls2 × OBls2) (P : Fq blsP × Fq blsP × Fq blsP) (fe : Bool) :
    Gen.ExtraMiller.OptBls.miller_loop Q P fe =
      optBlsMillerLoop (digitsFrom optimized_bls12_381_pseudo_binary_encoding 62)
        (if fe then some ((blsP ^ 12 - 1) / optimized_bls12_381_curve_order) else none) Q P := by
  rw [optBlsMillerLoop_eq_G, digitsFrom]
  exact optBls_core_eq _ _ _ _ _ _ _ Q P fe



section optBn
variable {p : Nat} {mc12 : List Int}
local notation "F12" => Fqp Variant.opt p mc12
local notation "T12" => Fqp Variant.opt p mc12 × Fqp Variant.opt p mc12 × Fqp Variant.opt p mc12

/-- the model's `optBnMillerLoop` with its callees as parameters: loop step -/
def optBnStepG (lf : T12 → T12 → T12 → F12 × F12) (dbl : T12 → T12) (add : T12 → T12 → T12) (neg : T12 → T12)
    (Q P : T12) (st : (F12 × F12) × T12) (v : Int) : (F12 × F12) × T12 :=
  let ((fNum, fDen), R) := st
  let (n, d) := lf R R P
  let fNum := fNum * fNum * n
  let fDen := fDen * fDen * d
  let R := dbl R
  if v = 1 then
    let (n, d) := lf R Q P
    ((fNum * n, fDen * d), add R Q)
  else if v = -1 then
    let nQ := neg Q
    let (n, d) := lf R nQ P
    ((fNum * n, fDen * d), add R nQ)
  else ((fNum, fDen), R)

/-- the model's `optBnMillerLoop` with its callees as parameters -/
def optBnMillerG (lf : T12 → T12 → T12 → F12 × F12) (dbl : T12 → T12) (add : T12 → T12 → T12) (neg : T12 → T12)
    (digits : List Int) (finalExp : Option Nat) (Q P : T12) : F12 :=
  let ((fNum, fDen), R) := digits.foldl (optBnStepG lf dbl add neg Q P) (((1 : F12), (1 : F12)), Q)
  let (qx, qy, qz) := Q
  let Q1 : T12 := (qx ^ p, qy ^ p, qz ^ p)
  let nQ2 : T12 := (Q1.1 ^ p, -(Q1.2.1 ^ p), Q1.2.2 ^ p)
  let (n1, d1) := lf R Q1 P
  let R := add R Q1
  let (n2, d2) := lf R nQ2 P
  let f := fNum * n1 * n2 / (fDen * d1 * d2)
  match finalExp with
  | some e => f ^ e
  | none => f

/-- the model function is its parametrised form at the generated curve operations (generic modulus) -/
theorem optBnMillerLoop_eq_G (L : List Int) (fe : Option Nat) (Q P : T12) :
    optBnMillerLoop L fe Q P =
      optBnMillerG Gen.OptBn.linefunc Gen.OptBn.double Gen.OptBn.add Gen.OptBn.neg L fe Q P := rfl
end optBn

/-- re-arrangement of the loop state: model `((fNum, fDen), R)` ↦ generated `(R, f_den, f_num)` -/
abbrev φBn (s : (OBn12 × OBn12) × (OBn12 × OBn12 × OBn12)) : (OBn12 × OBn12 × OBn12) × OBn12 × OBn12 :=
  (s.2, s.1.2, s.1.1)

section coreOptBn
variable (lf : (OBn12 × OBn12 × OBn12) → (OBn12 × OBn12 × OBn12) → (OBn12 × OBn12 × OBn12) → OBn12 × OBn12)
  (dbl : (OBn12 × OBn12 × OBn12) → OBn12 × OBn12 × OBn12)
  (add : (OBn12 × OBn12 × OBn12) → (OBn12 × OBn12 × OBn12) → OBn12 × OBn12 × OBn12)
  (neg : (OBn12 × OBn12 × OBn12) → OBn12 × OBn12 × OBn12)

/-- the generated core equals the parametrised model for arbitrary callees, digit list and exponent (one-iteration lemma
    inline, as for bls12_381) -/
theorem optBn_core_eq (L : List Int) (E : Nat) (Q P : OBn12 × OBn12 × OBn12) (fe : Bool) :
    Gen.ExtraMiller.OptBn.miller_loop_core Q P fe lf dbl add neg L E =
      optBnMillerG lf dbl add neg L (if fe then some E else none) Q P := by
  unfold Gen.ExtraMiller.OptBn.miller_loop_core optBnMillerG
  simp only [or_self, if_false]
  rw [foldl_map_eq φBn (g₁ := optBnStepG lf dbl add neg Q P) (((1 : OBn12), (1 : OBn12)), Q)]
  · generalize List.foldl (optBnStepG lf dbl add neg Q P) _ L = s
    rcases s with ⟨⟨fn, fd⟩, R⟩
    rcases Q with ⟨qx, qy, qz⟩
    cases fe <;> tie_close
  · rintro ⟨⟨fn, fd⟩, R⟩ v
    unfold Gen.ExtraMiller.OptBn.miller_loop_loop0 optBnStepG
    tie_close
end coreOptBn

/-- optimized bn128 `miller_loop(Q, P, final_exponentiate)` as translated from the source (signed-digit loop with
    the `v == 1` / `v == -1` branches, the two Frobenius line evaluations, the division, the optional final
    exponentiation) is the model's `optBnMillerLoop` at the digit table and exponent that `pairingOptBn` passes. -/
theorem miller_loop_optBn_eq (Q P : OBn12 × OBn12 × OBn12) (fe : Bool) :
    Gen.ExtraMiller.OptBn.miller_loop Q P fe =
      optBnMillerLoop (digitsFrom optimized_bn128_pseudo_binary_encoding 63)
        (if fe then some ((bnP ^ 12 - 1) / optimized_bn128_curve_order) else none) Q P := by
  rw [optBnMillerLoop_eq_G, digitsFrom]
  exact optBn_core_eq _ _ _ _ _ _ Q P fe



/-- monadic version of `foldl_rel` for a state re-arrangement `φ` -/
theorem foldlM_map {α₁ α₂ β : Type} (φ : α₁ → α₂) {g₁ : α₁ → β → Except PyErr α₁} {g₂ : α₂ → β → Except PyErr α₂}
    (H : ∀ x y, g₂ (φ x) y = (g₁ x y).map φ) (l : List β) (i : α₁) :
    List.foldlM g₂ (φ i) l = (List.foldlM g₁ i l).map φ := by
  induction l generalizing i with
  | nil => rfl
  | cons a l ih =>
    simp only [List.foldlM_cons, H]
    cases h : g₁ i a with
    | error e => rfl
    | ok x => exact ih x

/-- `ate_loop_count & (2**i)` is truthy iff the model's `bitSet` says so -/
theorem and_two_pow_ne_zero_iff (n i : Nat) : (n &&& 2 ^ i ≠ 0) ↔ bitSet n i = true := by
  have hbit : bitSet n i = n.testBit i := by
    unfold bitSet
    rw [Nat.testBit_eq_decide_div_mod_eq]
    by_cases h : n / 2 ^ i % 2 = 1 <;> simp [h]
  rw [hbit]
  constructor
  · intro hne
    cases hb : n.testBit i with
    | true => rfl
    | false =>
      exfalso
      apply hne
      apply Nat.eq_of_testBit_eq
      intro j
      rw [Nat.testBit_and, Nat.testBit_two_pow, Nat.zero_testBit]
      by_cases hij : i = j
      · subst hij; simp [hb]
      · simp [hij]
  · intro hb h0
    have : (n &&& 2 ^ i).testBit i = true := by
      rw [Nat.testBit_and, Nat.testBit_two_pow, hb]; simp
    rw [h0, Nat.zero_testBit] at this
    exact Bool.noConfusion this


section coreRefBls
abbrev PtBls := Option (RBls12 × RBls12)
variable (lf : PtBls → PtBls → PtBls → Except PyErr RBls12) (dbl : PtBls → PtBls) (add : PtBls → PtBls → Except PyErr PtBls)

/-- the generated core equals `refMillerLoop` (no Frobenius step) for arbitrary callees, loop bound and exponent.  The
    one-iteration lemma (generated loop body vs `refMillerStep`, state `(R, f)` vs `(f, R)`) is the side goal of `foldlM_map`:
    it is proved for whatever step function the generated `foldlM` applies. -/
theorem refBls_core_eq (logAte E : Nat) (Q P : PtBls) :
    Gen.ExtraMiller.RefBls.miller_loop_core Q P lf dbl add ((List.range (logAte + 1)).reverse) E =
      refMillerLoop ⟨lf, dbl, add⟩ bls12_381_ate_loop_count logAte false E Q P := by
  unfold Gen.ExtraMiller.RefBls.miller_loop_core refMillerLoop downTo
  cases Q with
  | none => rfl
  | some q =>
    cases P with
    | none => rfl
    | some pp =>
      simp only [bind, Except.bind, pure, Except.pure, Option.isNone, Bool.or_self, reduceCtorEq, or_self, if_false,
        Bool.false_eq_true, if_true]
      rw [foldlM_map (fun s : RBls12 × PtBls => (s.2, s.1))
        (g₁ := refMillerStep ⟨lf, dbl, add⟩ bls12_381_ate_loop_count (some q) (some pp))
        (l := (List.range (logAte + 1)).reverse) (i := ((1 : RBls12), (some q)))]
      · cases List.foldlM (refMillerStep ⟨lf, dbl, add⟩ bls12_381_ate_loop_count (some q) (some pp)) ((1 : RBls12), (some q))
          (List.range (logAte + 1)).reverse with
        | error e => rfl
        | ok s =>
          rcases s with ⟨f, R⟩
          simp only [Except.map]
          repeat' tie_step
      · rintro ⟨f, R⟩ i
        unfold Gen.ExtraMiller.RefBls.miller_loop_loop0 refMillerStep
        simp only [bind, Except.bind, pure, Except.pure, and_two_pow_ne_zero_iff]
        repeat' tie_step
        all_goals tie_leaf [Except.map]
end coreRefBls

/-- reference bls12_381 `miller_loop(Q, P)` as translated from the source (`None` guard, the
    `for i in range(log_ate_loop_count, -1, -1)` loop with `ate_loop_count & (2**i)`, exceptions of `linefunc` / `add`
    propagated in order, the final exponentiation) is the model's `refMillerLoop` as `pairingRefBls` calls it. -/
theorem miller_loop_refBls_eq (Q P : Option (RBls12 × RBls12)) :
    Gen.ExtraMiller.RefBls.miller_loop Q P =
      refMillerLoop refBlsOps bls12_381_ate_loop_count bls12_381_log_ate_loop_count false blsFinalExp Q P :=
  refBls_core_eq _ _ _ _ _ Q P

section coreRefBn
abbrev PtBn := Option (RBn12 × RBn12)
variable (lf : PtBn → PtBn → PtBn → Except PyErr RBn12) (dbl : PtBn → PtBn) (add : PtBn → PtBn → Except PyErr PtBn)

/-- the generated core equals `refMillerLoop` (with the Frobenius steps) for arbitrary callees, loop bound and exponent.  The
    one-iteration lemma (generated loop body vs `refMillerStep`, state `(R, f)` vs `(f, R)`) is the side goal of `foldlM_map`:
    it is proved for whatever step function the generated `foldlM` applies. -/
theorem refBn_core_eq (logAte E : Nat) (Q P : PtBn) :
    Gen.ExtraMiller.RefBn.miller_loop_core Q P lf dbl add ((List.range (logAte + 1)).reverse) E =
      refMillerLoop ⟨lf, dbl, add⟩ bn128_ate_loop_count logAte true E Q P := by
  unfold Gen.ExtraMiller.RefBn.miller_loop_core refMillerLoop downTo
  cases Q with
  | none => rfl
  | some q =>
    cases P with
    | none => rfl
    | some pp =>
      rcases q with ⟨qx, qy⟩
      simp only [bind, Except.bind, pure, Except.pure, Option.isNone, Bool.or_self, reduceCtorEq, or_self, if_false,
        Bool.false_eq_true, if_true]
      rw [foldlM_map (fun s : RBn12 × PtBn => (s.2, s.1))
        (g₁ := refMillerStep ⟨lf, dbl, add⟩ bn128_ate_loop_count (some (qx, qy)) (some pp))
        (l := (List.range (logAte + 1)).reverse) (i := ((1 : RBn12), (some (qx, qy))))]
      · cases List.foldlM (refMillerStep ⟨lf, dbl, add⟩ bn128_ate_loop_count (some (qx, qy)) (some pp)) ((1 : RBn12), (some (qx, qy)))
          (List.range (logAte + 1)).reverse with
        | error e => rfl
        | ok s =>
          rcases s with ⟨f, R⟩
          simp only [Except.map]
          repeat' tie_step
      · rintro ⟨f, R⟩ i
        unfold Gen.ExtraMiller.RefBn.miller_loop_loop0 refMillerStep
        simp only [bind, Except.bind, pure, Except.pure, and_two_pow_ne_zero_iff]
        repeat' tie_step
        all_goals tie_leaf [Except.map]
end coreRefBn

/-- reference bn128 `miller_loop(Q, P)` as translated from the source (as for bls12_381, plus the two Frobenius
    steps; `Q[0]` on an Optional point is a `TypeError` when `Q is None`, unreachable after the guard) is the model's
    `refMillerLoop` with `frob = true` as `pairingRefBn` calls it. -/
theorem miller_loop_refBn_eq (Q P : Option (RBn12 × RBn12)) :
    Gen.ExtraMiller.RefBn.miller_loop Q P =
      refMillerLoop refBnOps bn128_ate_loop_count bn128_log_ate_loop_count true bnFinalExp Q P :=
  refBn_core_eq _ _ _ _ _ Q P


end PyEcc.Tie
