/-
  PyEcc.Props.C06_Recover — property C06, sign-then-recover: a signature produced by `ecdsa_raw_sign` of
  `py_ecc/secp256k1/secp256k1.py` (model `PyEcc.Ecdsa.rawSignWithK` / `ecdsaRawSign`) is accepted by
  `ecdsa_raw_recover` and recovers exactly the signer's public key `privtopub(priv) = d • G`; the other recovery id does
  not; and the signature verifies by the textbook algorithm. Built on C18 (`Gen.Secp` arithmetic = Mathlib's group
  `E(F_P)` of prime order `N`).
-/
import PyEcc.Sem.EcdsaGroup
import PyEcc.Props.C06

namespace PyEcc.C06
open WeierstrassCurve PyEcc PyEcc.Gen.Secp PyEcc.SecpSem PyEcc.Gen.Consts PyEcc.Ecdsa PyEcc.EcdsaSem

/-- **Sign, then recover.** Let `(v, r, s)` be returned by `ecdsa_raw_sign` for message hash `h`, key bytes `priv`
(ANY byte strings; `z`, `d` their big-endian ints) and nonce `k` (ANY int), and suppose `r ≢ 0` and `s ≢ 0 (mod N)`
(the two conditions under which ECDSA asks for a new nonce; they are exactly what `ecdsa_raw_recover` tests). Then
`k ≢ 0 (mod N)`; `ecdsa_raw_recover(h, (v, r, s))` returns the public key `privtopub(priv)`, the representation of
`d • G`; with the OTHER recovery id `55 − v` (28 ↔ 27) it returns something else (`N` is odd and `s₀ ≠ 0`); `r` is the
`x`-coordinate of `k • G` as an int in `[0, P)` (NOT reduced mod `N`); and `(r, s)` verifies for `z` and `d • G` by the
textbook algorithm: `x((z/s) • G + (r/s) • (d • G)) = r`. -/
theorem sign_recover (h priv : Bytes) (k v r s : ℤ) (hsig : rawSignWithK h priv k = .ok (v, r, s))
    (hr : r % N ≠ 0) (hs : s % N ≠ 0) :
    k % N ≠ 0 ∧
    ecdsaRawRecover h v r s = privtopub priv ∧
    ecdsaRawRecover h v r s = .ok (reprSecp ((bytesToInt priv) • Gpt)) ∧
    ecdsaRawRecover h (55 - v) r s ≠ privtopub priv ∧
    (∃ y, reprSecp (k • Gpt) = (r, y)) ∧
    Verifies (bytesToInt h) r s ((bytesToInt priv) • Gpt) := by
  obtain ⟨y, hm, hv, -, -, hsdef, -, hs0iff, hvpar⟩ := sign_shape h priv k v r s hsig
  -- `(r, y)` is `k • G`
  have hmul := C18.multiply_refines Gpt k
  rw [reprSecp_Gpt, hm] at hmul
  have hR := (Except.ok.inj hmul).symm
  have hr0 : r ≠ 0 := by rintro rfl; exact hr (by decide)
  rcases hk : k • Gpt with _ | ⟨X, Y, hns⟩
  · exfalso
    rw [hk] at hR
    have : (0 : ℤ) = r := congrArg Prod.fst hR
    exact hr0 this.symm
  rw [hk] at hR
  have hrX : ((X.val : ℕ) : ℤ) = r := congrArg Prod.fst hR
  have hyY : ((Y.val : ℕ) : ℤ) = y := congrArg Prod.snd hR
  have hXr : (r : Fp) = X := by rw [← hrX]; exact val_cast_cast X
  -- scalars
  have hkF : (k : Fn) ≠ 0 := by
    intro e
    have : k • Gpt = 0 := by rw [← cast_smul, e]; exact zero_smul Fn Gpt
    rw [hk] at this
    cases this
  have hkN : k % N ≠ 0 := fun e => hkF ((castN_eq_zero_iff k).mpr e)
  have hr' : (r : Fn) ≠ 0 := fun e => hr ((castN_eq_zero_iff r).mp e)
  have hs0ne : signS0 h priv k r ≠ 0 := hs0iff.mpr hs
  have hs0F : ((signS0 h priv k r : ℤ) : Fn) =
      (k : Fn)⁻¹ * (((bytesToInt h : ℤ) : Fn) + (r : Fn) * ((bytesToInt priv : ℤ) : Fn)) := by
    unfold signS0
    rw [cast_mod_N]; push_cast; rw [inv_N_cast k hkN]
  have hkG : (Affine.Point.some X Y hns : E.Point) = (k : Fn) • Gpt := by rw [cast_smul, hk]
  have heq := (equation_E X Y).mp hns.1
  have hY0 : Y ≠ 0 := y_ne_zero hns
  -- the point `Rv` above `r` with the parity of `v`, and `s • Rv = (z + r d) • G`
  have hN0 : 0 ≤ signS0 h priv k r := Int.emod_nonneg _ (by decide)
  have hNlt : signS0 h priv k r < N := Int.emod_lt_of_pos _ N_pos
  have hy01 : y % 2 = 0 ∨ y % 2 = 1 := by omega
  obtain ⟨Yv, hnsv, hparv, hsRv⟩ : ∃ (Yv : Fp) (hnsv : E.Nonsingular X Yv),
      ((Yv.val : ℕ) : ℤ) % 2 = (v - 27) % 2 ∧
      (s : Fn) • (Affine.Point.some X Yv hnsv : E.Point) =
        (((bytesToInt h : ℤ) : Fn) + (r : Fn) * ((bytesToInt priv : ℤ) : Fn)) • Gpt := by
    by_cases hlow : signS0 h priv k r * 2 < N
    · -- no flip: `s = s₀`, `v − 27 = y % 2`
      rw [if_pos hlow] at hsdef
      refine ⟨Y, hns, ?_, ?_⟩
      · rw [hyY]
        rcases hv with rfl | rfl
        · have : ¬ (y % 2 = 1) := fun e => absurd (hvpar.mpr (by rw [e]; simp; omega)) (by decide)
          omega
        · have := hvpar.mp rfl
          have : y % 2 = 1 := by
            by_contra e; apply this; constructor
            · intro e'; exact absurd e' e
            · intro e'; omega
          rw [this]; decide
      · rw [hsdef, hs0F, hkG, smul_smul, mul_comm ((k : Fn)⁻¹), mul_assoc, inv_mul_cancel₀ hkF, mul_one]
    · -- flip: `s = N − s₀`, `v − 27 = 1 − y % 2`, the point is `−R`
      rw [if_neg hlow] at hsdef
      have heqv : (-Y) ^ 2 = X ^ 3 + ((B : ℤ) : Fp) := by rw [neg_sq]; exact heq
      have hneg : -(Affine.Point.some X Y hns : E.Point) = Affine.Point.some X (-Y) (nonsingular_of_eq heqv) := by
        rw [Affine.Point.neg_some]; exact some_congr rfl (negY_E X Y)
      refine ⟨-Y, nonsingular_of_eq heqv, ?_, ?_⟩
      · rw [neg_val_parity hY0, hyY]
        rcases hv with rfl | rfl
        · have : y % 2 = 1 := by
            by_contra e
            exact absurd (hvpar.mpr (fun hc => e (hc.mpr (by omega)))) (by decide)
          rw [this]; decide
        · have := hvpar.mp rfl
          have : ¬ (y % 2 = 1) := fun e => this ⟨fun _ => by omega, fun _ => e⟩
          have : y % 2 = 0 := by omega
          rw [this]; decide
      · have hsF : (s : Fn) = -((signS0 h priv k r : ℤ) : Fn) := by
          rw [hsdef]; push_cast; rw [cast_N, zero_sub]
        rw [← hneg, hsF, neg_smul, smul_neg, neg_neg, hs0F, hkG, smul_smul, mul_comm ((k : Fn)⁻¹), mul_assoc,
          inv_mul_cancel₀ hkF, mul_one]
  have hpub := C18.privtopub_refines priv
  -- recovery with `v`
  have hrec := recover_of_point h v r s hv hr hs hnsv hXr hparv
  have hQ : (r : Fn)⁻¹ • ((s : Fn) • (Affine.Point.some X Yv hnsv : E.Point) - ((bytesToInt h : ℤ) : Fn) • Gpt) =
      (bytesToInt priv) • Gpt := by
    rw [hsRv, ← sub_smul, smul_smul, ← cast_smul]
    congr 1
    field_simp
    ring
  rw [hQ] at hrec
  -- recovery with `55 − v`: the mirror point
  have hYv0 : Yv ≠ 0 := y_ne_zero hnsv
  have heqv := (equation_E X Yv).mp hnsv.1
  have heqv' : (-Yv) ^ 2 = X ^ 3 + ((B : ℤ) : Fp) := by rw [neg_sq]; exact heqv
  have hnegv : -(Affine.Point.some X Yv hnsv : E.Point) = Affine.Point.some X (-Yv) (nonsingular_of_eq heqv') := by
    rw [Affine.Point.neg_some]; exact some_congr rfl (negY_E X Yv)
  have hv' : (55 - v = 27 ∨ 55 - v = 28) := by rcases hv with rfl | rfl <;> decide
  have hparv' : (((-Yv).val : ℕ) : ℤ) % 2 = (55 - v - 27) % 2 := by
    rw [neg_val_parity hYv0, hparv]
    rcases hv with rfl | rfl <;> decide
  have hrec' := recover_of_point h (55 - v) r s hv' hr hs (nonsingular_of_eq heqv') hXr hparv'
  refine ⟨hkN, by rw [hrec, hpub], hrec, ?_, ⟨y, hR⟩, ?_⟩
  · rw [hrec', hpub, ← hnegv, smul_neg, hsRv]
    intro e
    have e' := SecpSem.reprSecp_injective (Except.ok.inj e)
    rw [← neg_smul, ← sub_smul, smul_smul, ← cast_smul] at e'
    have hc := smul_Gpt_inj e'
    -- `r⁻¹ (−(z + r d) − z) = d` forces `z + r d = 0`, i.e. `s₀ = 0`
    have h2 : (2 : Fn) * (((bytesToInt h : ℤ) : Fn) + (r : Fn) * ((bytesToInt priv : ℤ) : Fn)) = 0 := by
      have := congrArg (fun t => (r : Fn) * t) hc
      simp only [← mul_assoc, mul_inv_cancel₀ hr', one_mul] at this
      linear_combination -this
    have hzero := (mul_eq_zero.mp h2).resolve_left fn_two_ne_zero
    apply hs0ne
    have : ((signS0 h priv k r : ℤ) : Fn) = 0 := by rw [hs0F, hzero, mul_zero]
    have := (castN_eq_zero_iff _).mp this
    rwa [Int.emod_eq_of_lt hN0 hNlt] at this
  · refine verifies_of_eq hr hs hnsv (by rw [hrX]) ?_
    rw [hsRv, add_smul, ← cast_smul (bytesToInt priv), smul_smul]

/-- non-vacuity of the hypotheses of `sign_recover` (kernel evaluation of the model): a signature with
`r, s ≢ 0 (mod N)`; `multiply(G, 1) = G`, so `r = Gx`. -/
example : ∃ v s, rawSignWithK [1] [1] 1 = .ok (v, Gx, s) ∧ Gx % N ≠ 0 ∧ s % N ≠ 0 := by
  have hm : multiply G 1 = .ok (Gx, Gy) := by
    have := C18.multiply_refines Gpt 1
    rwa [one_smul, reprSecp_Gpt] at this
  refine ⟨_, _, rawSignWithK_of_ok hm, by decide, ?_⟩
  decide

/-- **The deterministic entry point.** The same for `ecdsa_raw_sign(msghash, priv)` itself (nonce from
`deterministic_generate_k`, any hash function `H` in place of SHA-256): whenever the returned `(v, r, s)` has
`r, s ≢ 0 (mod N)`, `ecdsa_raw_recover(msghash, (v, r, s)) = privtopub(priv)`. -/
theorem sign_recover_deterministic (H : HashFn) (h priv : Bytes) (v r s : ℤ)
    (hsig : ecdsaRawSign H h priv = .ok (v, r, s)) (hr : r % N ≠ 0) (hs : s % N ≠ 0) :
    ecdsaRawRecover h v r s = privtopub priv ∧ ecdsaRawRecover h (55 - v) r s ≠ privtopub priv ∧
      Verifies (bytesToInt h) r s ((bytesToInt priv) • Gpt) := by
  rw [sign_deterministic] at hsig
  obtain ⟨-, h1, -, h2, -, h3⟩ := sign_recover h priv _ v r s hsig hr hs
  exact ⟨h1, h2, h3⟩

end PyEcc.C06

section AxiomAudit
open PyEcc.C06
#print axioms sign_recover
#print axioms sign_recover_deterministic
end AxiomAudit
