/-
  C14 (extension-field part): the optimized `FQP`/`FQ2`/`FQ12` classes compute the same coefficient
  lists as the reference classes.  Corollary of C08: both denote the same element of
  `(ZMod p)[X] / (X^d + Σ mcᵢ Xⁱ)` and both store reduced coefficients.
  Operands are plain coefficient lists of length `d = mc.length` (any ints: the statements do not even
  need the operands reduced), any `p > 0`, any `mc`.
-/
import PyEcc.Sem.FqpQuot
import PyEcc.Model.Curve

namespace PyEcc.C14P
open PyEcc PyEcc.Fqp PyEcc.FqpSem

variable {p : ℕ} {mc : List Int}

/-- the class in the quotient ring does not depend on which Python class holds the coefficients -/
theorem toQ_variant (a : List Int) :
    toQ (⟨a⟩ : Fqp .opt p mc) = toQ (⟨a⟩ : Fqp .ref p mc) := rfl

/-- two reduced elements, one of each class, denoting the same ring element have the same coefficients -/
theorem coeffs_eq_of_toQ_eq {x : Fqp .opt p mc} {y : Fqp .ref p mc} (hx : Canon x) (hy : Canon y)
    (h : toQ x = toQ y) : x.coeffs = y.coeffs := evQ_inj hx hy h

/-- **optimized `*` = reference `*`**: the optimized product loop (no intermediate reduction, sparse
modulus table `mc_tuples`, `range(d-2,-1,-1)` pops) and the reference one (`FQ` entries reduced after
every step, `while len(b) > d`) return the same coefficients. -/
theorem mul_opt_eq_ref (hp : 0 < p) {a b : List Int} (ha : a.length = mc.length)
    (hb : b.length = mc.length) :
    (Fqp.mul (⟨a⟩ : Fqp .opt p mc) ⟨b⟩).coeffs = (Fqp.mul (⟨a⟩ : Fqp .ref p mc) ⟨b⟩).coeffs := by
  have hao : WF (⟨a⟩ : Fqp .opt p mc) := ha
  have hbo : WF (⟨b⟩ : Fqp .opt p mc) := hb
  have har : WF (⟨a⟩ : Fqp .ref p mc) := ha
  have hbr : WF (⟨b⟩ : Fqp .ref p mc) := hb
  apply coeffs_eq_of_toQ_eq (canon_mul hp hao hbo) (canon_mul hp har hbr)
  rw [toQ_mul hao hbo, toQ_mul har hbr]; rfl

/-- optimized `**` = reference `**` for every exponent -/
theorem pow_opt_eq_ref (hp : 0 < p) (hd : 1 ≤ mc.length) {a : List Int} (ha : a.length = mc.length)
    (n : Nat) :
    (Fqp.pow (⟨a⟩ : Fqp .opt p mc) n).coeffs = (Fqp.pow (⟨a⟩ : Fqp .ref p mc) n).coeffs := by
  have hao : WF (⟨a⟩ : Fqp .opt p mc) := ha
  have har : WF (⟨a⟩ : Fqp .ref p mc) := ha
  apply coeffs_eq_of_toQ_eq (canon_pow hp hd hao n) (canon_pow hp hd har n)
  rw [toQ_pow hd hao, toQ_pow hd har]; rfl

/-- optimized `+ - neg`, int scaling, int division, constructors = reference ones (the two classes run
the same coefficient-wise code; holds for all operand lists) -/
theorem linear_opt_eq_ref (a b : List Int) (k : Int) :
    (Fqp.add (⟨a⟩ : Fqp .opt p mc) ⟨b⟩).coeffs = (Fqp.add (⟨a⟩ : Fqp .ref p mc) ⟨b⟩).coeffs ∧
    (Fqp.sub (⟨a⟩ : Fqp .opt p mc) ⟨b⟩).coeffs = (Fqp.sub (⟨a⟩ : Fqp .ref p mc) ⟨b⟩).coeffs ∧
    (Fqp.neg (⟨a⟩ : Fqp .opt p mc)).coeffs = (Fqp.neg (⟨a⟩ : Fqp .ref p mc)).coeffs ∧
    (Fqp.mulInt (⟨a⟩ : Fqp .opt p mc) k).coeffs = (Fqp.mulInt (⟨a⟩ : Fqp .ref p mc) k).coeffs ∧
    (Fqp.divInt (⟨a⟩ : Fqp .opt p mc) k).coeffs = (Fqp.divInt (⟨a⟩ : Fqp .ref p mc) k).coeffs ∧
    (Fqp.ofInts a : Fqp .opt p mc).coeffs = (Fqp.ofInts a : Fqp .ref p mc).coeffs ∧
    (Fqp.ofIntScalar k : Fqp .opt p mc).coeffs = (Fqp.ofIntScalar k : Fqp .ref p mc).coeffs ∧
    (Fqp.zero : Fqp .opt p mc).coeffs = (Fqp.zero : Fqp .ref p mc).coeffs ∧
    (Fqp.one : Fqp .opt p mc).coeffs = (Fqp.one : Fqp .ref p mc).coeffs ∧
    Fqp.beq (⟨a⟩ : Fqp .opt p mc) ⟨b⟩ = Fqp.beq (⟨a⟩ : Fqp .ref p mc) ⟨b⟩ :=
  ⟨rfl, rfl, rfl, rfl, rfl, rfl, rfl, rfl, rfl, rfl⟩

/-- Any expression built from `+ - neg * **` and int scaling evaluates to the same coefficients in both
classes: stated as a congruence — if the operands agree, so do the results of `*` (the other cases are
`linear_opt_eq_ref`). -/
theorem mul_congr_opt_ref (hp : 0 < p) {x x' : Fqp .opt p mc} {y y' : Fqp .ref p mc}
    (hx : WF x) (hx' : WF x') (h : x.coeffs = y.coeffs) (h' : x'.coeffs = y'.coeffs) :
    (x * x').coeffs = (y * y').coeffs := by
  cases x; cases x'; cases y; cases y'
  simp only at h h'
  subst h h'
  exact mul_opt_eq_ref hp hx hx'

/-! ### non-vacuity -/

example : (0 : ℕ) < 7 ∧ ([3, 5] : List Int).length = ([1, 0] : List Int).length := by decide
example : (Fqp.mul (⟨[3, 5]⟩ : Fqp .opt 7 [1, 0]) ⟨[2, 6]⟩).coeffs = [4, 0] ∧
    (Fqp.mul (⟨[3, 5]⟩ : Fqp .ref 7 [1, 0]) ⟨[2, 6]⟩).coeffs = [4, 0] := by decide
example : 0 < blsP ∧ 1 ≤ blsMc12.length ∧
    (List.replicate 12 (5 : Int)).length = blsMc12.length := by decide

end PyEcc.C14P
