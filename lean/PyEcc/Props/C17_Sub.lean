/-
  PyEcc.Props.C17_Sub — property C17, code level: `subgroup_check` and `clear_cofactor` of the BLS
  modules, through the refinement `Represents` of Mathlib's elliptic-curve group by the optimized
  projective code (`Props/C07Opt_Bls.lean`).

  `PyEcc.subgroupCheck` (`Model/Codec.lean`; Python `subgroup_check(P) = is_inf(multiply(P, curve_order))`)
  is generic in the coordinate type, so it is proved here over an ARBITRARY field `F` with `2 ≠ 0`
  (covering `FQ` for G1 and `FQ2` for G2) and an arbitrary curve coefficient `b`:
  if the triple `T` represents (any scaling; any `z = 0` triple for ∞) the Mathlib point `P` of
  `y² = x³ + b`, then `subgroup_check(T)` returns `True` exactly when `curve_order • P = 0`.
  The group-theoretic consequences (`Props/C17.lean`: order divides `r`; rejects every mixed point
  `k•G + Q` with `Q ≠ 0` in the cofactor torsion) are then transported to the code.

  `clearCofactorG1 / clearCofactorG2` (`Model/Swu.lean`) are the generic `Gen.OptBls.multiply` with
  the scalars `H_EFF_G1 / H_EFF_G2`, specialised to the executable field types `F1 = Fq blsP`,
  `F2 = Fqp …` (which are not Mathlib fields); so the refinement statement is given for the generic
  function (`clear_cofactor_refines`) together with the definitional unfolding lemmas
  (`clearCofactorG1_unfold`, `clearCofactorG2_unfold`).
-/
import PyEcc.Props.C07Opt_Bls
import PyEcc.Props.C17
import Mathlib.Tactic.NormNum
import Mathlib.Algebra.Field.Rat

set_option linter.unusedSectionVars false
set_option linter.unusedVariables false

namespace PyEcc.C17Sub
open PyEcc PyEcc.Gen PyEcc.Gen.Consts WeierstrassCurve
open PyEcc.C07Opt.Bls

variable {F : Type} [Field F] [DecidableEq F]

/-! ### `subgroup_check` decides `curve_order • P = 0` -/

/-- `subgroup_check(T)` returns `True` exactly when the Mathlib point `P` represented by the triple
    `T` satisfies `curve_order • P = 0` — for ANY representative `T` of `P` (any scaling, any
    `z = 0` triple for ∞), any coordinate field with `2 ≠ 0`, any curve coefficient `b`. -/
theorem subgroup_check_iff {b : F} (h2 : (2 : F) ≠ 0) {T : F × F × F} {P : (W b).Point}
    (hT : Represents T P) : subgroupCheck T = true ↔ blsR • P = 0 :=
  opt_is_inf_refines (opt_multiply_refines h2 hT blsR)

/-- Exactness, order wording: `subgroup_check(T)` is `True` iff the order of the represented point
    divides `curve_order`. -/
theorem subgroup_check_iff_order_dvd {b : F} (h2 : (2 : F) ≠ 0) {T : F × F × F} {P : (W b).Point}
    (hT : Represents T P) : subgroupCheck T = true ↔ addOrderOf P ∣ blsR := by
  rw [subgroup_check_iff h2 hT, C17.subgroup_iff_order_dvd]

/-- Exactness, using that `curve_order` is prime: `subgroup_check(T)` is `True` iff the represented
    point is the identity or has order exactly `curve_order`. -/
theorem subgroup_check_iff_prime {b : F} (h2 : (2 : F) ≠ 0) {T : F × F × F} {P : (W b).Point}
    (hT : Represents T P) : subgroupCheck T = true ↔ P = 0 ∨ addOrderOf P = blsR := by
  rw [subgroup_check_iff h2 hT, C17.subgroup_iff_blsR]

/-- `subgroup_check` does not depend on the representative: triples that are equal projective points
    (`eq(T, T') = True`) get the same answer (all triples, on the curve or not). -/
theorem subgroup_check_congr (h2 : (2 : F) ≠ 0) {T T' : F × F × F}
    (h : OptBls.eq T T' = true) : subgroupCheck T = subgroupCheck T' := by
  have e := opt_multiply_congr h2 h blsR
  rw [C13.Bls.opt_eq_iff] at e
  have h1 := C13.Bls.opt_is_inf_iff (OptBls.multiply T blsR)
  have h2' := C13.Bls.opt_is_inf_iff (OptBls.multiply T' blsR)
  rw [e] at h1
  rw [Bool.eq_iff_iff]
  exact h1.trans h2'.symm

/-- `subgroup_check` accepts ∞: every triple with `z = 0` passes. -/
theorem subgroup_check_accepts_inf (h2 : (2 : F) ≠ 0) {T : F × F × F} (hz : T.2.2 = 0) :
    subgroupCheck T = true := by
  have hT : Represents T (0 : (W (0 : F)).Point) := represents_zero hz
  rw [subgroup_check_iff h2 hT, smul_zero]

example : ((1 : ℚ), (1 : ℚ), (0 : ℚ)).2.2 = 0 := rfl

/-- `subgroup_check` accepts every multiple of a generator: if `curve_order • G = 0` then every
    triple representing `k • G` passes. -/
theorem subgroup_check_accepts_multiples {b : F} (h2 : (2 : F) ≠ 0) {T : F × F × F}
    {G : (W b).Point} (hG : blsR • G = 0) (k : ℕ) (hT : Represents T (k • G)) :
    subgroupCheck T = true := by
  rw [subgroup_check_iff h2 hT]
  exact C17.accepts_multiples G k hG

/-- The same on the code: if the triple `Tg` passes `subgroup_check` (and represents some curve point)
    then so does `multiply(Tg, k)`, for every `k`. -/
theorem subgroup_check_multiply {b : F} (h2 : (2 : F) ≠ 0) {Tg : F × F × F} {G : (W b).Point}
    (hTg : Represents Tg G) (hG : subgroupCheck Tg = true) (k : ℕ) :
    subgroupCheck (OptBls.multiply Tg k) = true :=
  subgroup_check_accepts_multiples h2 ((subgroup_check_iff h2 hTg).mp hG) k
    (opt_multiply_refines h2 hTg k)

/-- The accepted points are closed under `add` and `neg`. -/
theorem subgroup_check_add {b : F} (h2 : (2 : F) ≠ 0) {T₁ T₂ : F × F × F} {P Q : (W b).Point}
    (h₁ : Represents T₁ P) (h₂ : Represents T₂ Q) (c₁ : subgroupCheck T₁ = true)
    (c₂ : subgroupCheck T₂ = true) :
    subgroupCheck (OptBls.add T₁ T₂) = true ∧ subgroupCheck (OptBls.neg T₁) = true := by
  have p := (subgroup_check_iff h2 h₁).mp c₁
  have q := (subgroup_check_iff h2 h₂).mp c₂
  constructor
  · rw [subgroup_check_iff h2 (opt_add_refines h2 h₁ h₂), smul_add, p, q, add_zero]
  · rw [subgroup_check_iff h2 (opt_neg_refines h₁), smul_neg, p, neg_zero]

/-- `subgroup_check` rejects mixed points: if the cofactor `h` is coprime to `curve_order`, `G` is in
    the `curve_order`-torsion and `Q ≠ 0` is in the `h`-torsion, then every triple representing
    `k • G + Q` FAILS the check, for every `k`. -/
theorem subgroup_check_rejects_mixed {b : F} (h2 : (2 : F) ≠ 0) {h : ℕ} (hc : Nat.Coprime h blsR)
    {T : F × F × F} {G Q : (W b).Point} (k : ℕ) (hG : blsR • G = 0) (hQ : h • Q = 0) (hne : Q ≠ 0)
    (hT : Represents T (k • G + Q)) : subgroupCheck T = false := by
  rw [← Bool.not_eq_true, subgroup_check_iff h2 hT]
  exact C17.reject_mixed hc G Q k hG hQ hne

/-- The same on the code: `add(multiply(Tg, k), Tq)` fails `subgroup_check` whenever `Tg` passes it and
    `Tq` is a finite-order-`h` point different from ∞ (`multiply(Tq, h)` is ∞, `Tq` is not), `h`
    coprime to `curve_order`. -/
theorem subgroup_check_rejects_mixed_code {b : F} (h2 : (2 : F) ≠ 0) {h : ℕ}
    (hc : Nat.Coprime h blsR) {Tg Tq : F × F × F} {G Q : (W b).Point} (k : ℕ)
    (hTg : Represents Tg G) (hTq : Represents Tq Q) (hG : subgroupCheck Tg = true)
    (hQ : OptBls.is_inf (OptBls.multiply Tq h) = true) (hne : OptBls.is_inf Tq = false) :
    subgroupCheck (OptBls.add (OptBls.multiply Tg k) Tq) = false := by
  refine subgroup_check_rejects_mixed h2 hc k ((subgroup_check_iff h2 hTg).mp hG)
    ((opt_is_inf_refines (opt_multiply_refines h2 hTq h)).mp hQ) ?_
    (opt_add_refines h2 (opt_multiply_refines h2 hTg k) hTq)
  intro h0
  rw [(opt_is_inf_refines hTq).mpr h0] at hne
  exact Bool.noConfusion hne

/-- `subgroup_check_rejects_mixed` at the real G1 cofactor `h₁` (coprime to `curve_order`,
    `C17.coprime_h1_r`). -/
theorem subgroup_check_rejects_mixed_G1 {b : F} (h2 : (2 : F) ≠ 0) {T : F × F × F}
    {G Q : (W b).Point} (k : ℕ) (hG : blsR • G = 0) (hQ : Spec.BLS12381.h1 • Q = 0) (hne : Q ≠ 0)
    (hT : Represents T (k • G + Q)) : subgroupCheck T = false :=
  subgroup_check_rejects_mixed h2 C17.coprime_h1_r k hG hQ hne hT

/-- `subgroup_check_rejects_mixed` at the real G2 cofactor `G2_COFACTOR` (`C17.coprime_h2_r`). -/
theorem subgroup_check_rejects_mixed_G2 {b : F} (h2 : (2 : F) ≠ 0) {T : F × F × F}
    {G Q : (W b).Point} (k : ℕ) (hG : blsR • G = 0) (hQ : blsconst_G2_COFACTOR • Q = 0) (hne : Q ≠ 0)
    (hT : Represents T (k • G + Q)) : subgroupCheck T = false :=
  subgroup_check_rejects_mixed h2 C17.coprime_h2_r k hG hQ hne hT

/-! ### cofactor clearing -/

/-- `clear_cofactor_G1` at the level of the generic function: `multiply(T, H_EFF_G1)` represents
    `H_EFF_G1 • P`. -/
theorem clear_cofactor_refines {b : F} (h2 : (2 : F) ≠ 0) {T : F × F × F} {P : (W b).Point}
    (hT : Represents T P) :
    Represents (OptBls.multiply T h2c_H_EFF_G1) (h2c_H_EFF_G1 • P) :=
  opt_multiply_refines h2 hT _

/-- `clear_cofactor_G2` at the level of the generic function: `multiply(T, H_EFF_G2)` represents
    `H_EFF_G2 • P`. -/
theorem clear_cofactor_G2_refines {b : F} (h2 : (2 : F) ≠ 0) {T : F × F × F} {P : (W b).Point}
    (hT : Represents T P) :
    Represents (OptBls.multiply T h2c_H_EFF_G2) (h2c_H_EFF_G2 • P) :=
  opt_multiply_refines h2 hT _

/-- The model's `clearCofactorG1` IS the generic `multiply` with `H_EFF_G1` (definitional). -/
theorem clearCofactorG1_unfold (T : F1 × F1 × F1) :
    clearCofactorG1 T = OptBls.multiply T h2c_H_EFF_G1 := rfl

/-- The model's `clearCofactorG2` IS the generic `multiply` with `H_EFF_G2` (definitional). -/
theorem clearCofactorG2_unfold (T : F2 × F2 × F2) :
    clearCofactorG2 T = OptBls.multiply T h2c_H_EFF_G2 := rfl

/-- A cleared point passes `subgroup_check`: if the represented point is killed by `h_eff · curve_order`
    (true for every point of `E(F_p)` with `h_eff = H_EFF_G1`, whose exponent divides `(1−x)·r` — a
    point-count fact not proved here, hence a hypothesis) then `subgroup_check(multiply(T, h_eff))`. -/
theorem subgroup_check_cleared {b : F} (h2 : (2 : F) ≠ 0) {T : F × F × F} {P : (W b).Point}
    (hT : Represents T P) (heff : ℕ) (hP : (heff * blsR) • P = 0) :
    subgroupCheck (OptBls.multiply T heff) = true := by
  rw [subgroup_check_iff h2 (opt_multiply_refines h2 hT heff)]
  exact C17.clear_lands P hP

/-- G2: if the represented point is killed by `G2_COFACTOR · curve_order` (the order of `E'(F_p²)`,
    hypothesis) then the point cleared with `H_EFF_G2` passes `subgroup_check`. -/
theorem subgroup_check_cleared_G2 {b : F} (h2 : (2 : F) ≠ 0) {T : F × F × F} {P : (W b).Point}
    (hT : Represents T P) (hP : (blsconst_G2_COFACTOR * blsR) • P = 0) :
    subgroupCheck (OptBls.multiply T h2c_H_EFF_G2) = true := by
  rw [subgroup_check_iff h2 (clear_cofactor_G2_refines h2 hT)]
  exact C17.clear_G2_lands P hP

/-- Clearing does not collapse the subgroup: on triples that pass `subgroup_check`, if the cleared
    triples are equal projective points then so were the inputs (`H_EFF_G1` is coprime to `curve_order`). -/
theorem clear_cofactor_injective {b : F} (h2 : (2 : F) ≠ 0) {T₁ T₂ : F × F × F} {P Q : (W b).Point}
    (h₁ : Represents T₁ P) (h₂ : Represents T₂ Q) (c₁ : subgroupCheck T₁ = true)
    (c₂ : subgroupCheck T₂ = true)
    (he : OptBls.eq (OptBls.multiply T₁ h2c_H_EFF_G1) (OptBls.multiply T₂ h2c_H_EFF_G1) = true) :
    OptBls.eq T₁ T₂ = true := by
  rw [opt_eq_refines (clear_cofactor_refines h2 h₁) (clear_cofactor_refines h2 h₂)] at he
  rw [opt_eq_refines h₁ h₂]
  exact C17.clear_injective_on_torsion C17.coprime_H_EFF_G1_r.1 P Q
    ((subgroup_check_iff h2 h₁).mp c₁) ((subgroup_check_iff h2 h₂).mp c₂) he

/-! ### non-vacuity: `y² = x³ + 1` over `ℚ`; `(4, 6, 2)` represents the point `(2, 3)`; the point
    `(-1, 0)` has order two (so it lies in the `h`-torsion for `h = 2`, coprime to `curve_order`) and
    `G = ∞`. -/

/-- hypotheses of `subgroup_check_iff` are satisfiable with a finite point -/
example : ∃ P : (W (1 : ℚ)).Point, Represents ((4 : ℚ), (6 : ℚ), (2 : ℚ)) P ∧ P ≠ 0 := by
  obtain ⟨P, hP⟩ := (opt_on_curve_represents (b := (1 : ℚ)) (by norm_num) (by norm_num) (by norm_num)
    ((4 : ℚ), (6 : ℚ), (2 : ℚ))).mp (by simp [OptBls.is_on_curve, OptBls.is_inf]; norm_num)
  refine ⟨P, hP, fun h0 => ?_⟩
  have := (opt_is_inf_refines hP).mpr h0
  simp [OptBls.is_inf] at this

set_option maxRecDepth 100000 in
/-- all hypotheses of `subgroup_check_rejects_mixed` / `_code` hold in a concrete instance, and the
    theorem then says the order-two point `(-1, 0, 1)` fails `subgroup_check` over `ℚ` -/
example : subgroupCheck ((-1 : ℚ), (0 : ℚ), (1 : ℚ)) = false := by
  have h2 : (2 : ℚ) ≠ 0 := by norm_num
  obtain ⟨Q, hQ⟩ := (opt_on_curve_represents (b := (1 : ℚ)) h2 (by norm_num) (by norm_num)
    ((-1 : ℚ), (0 : ℚ), (1 : ℚ))).mp (by simp [OptBls.is_on_curve, OptBls.is_inf]; norm_num)
  have hc : Nat.Coprime 2 blsR := by decide +kernel
  have hQ2 : 2 • Q = 0 :=
    (opt_is_inf_refines (opt_multiply_refines h2 hQ 2)).mp
      (by simp [OptBls.multiply, OptBls.multiplyAux, OptBls.double, OptBls.is_inf])
  have hne : Q ≠ 0 := fun h0 => by
    have := (opt_is_inf_refines hQ).mpr h0
    simp [OptBls.is_inf] at this
  have hG : blsR • (0 : (W (1 : ℚ)).Point) = 0 := C17.accepts_zero blsR
  refine subgroup_check_rejects_mixed h2 hc 0 hG hQ2 hne ?_
  rw [zero_smul, zero_add]; exact hQ

end PyEcc.C17Sub
