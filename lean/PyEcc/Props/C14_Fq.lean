/-
  PyEcc.Props.C14_Fq — property C14, prime-field part.

  The reference class `field_elements.FQ` and the optimized class `optimized_field_elements.FQ` are
  line-for-line the same apart from `sgn0`, and both are modelled by the ONE type `Fq p`
  (`PyEcc/Model/Fq.lean`; the correspondence harness ties both classes to it), so
  "optimized op = reference op" holds by reflexivity for `+ - * / ** neg inv` and the int-operand
  forms.  What remains to prove is that the extra method `sgn0` of the optimized classes is the
  `sgn0` of RFC 9380 §4.1 (`PyEcc/Spec/Rfc9380Sgn0.lean`).
-/
import PyEcc.Sem.FqZMod
import PyEcc.Lemmas.Sgn0Loop
import Mathlib.Tactic.Ring

namespace PyEcc.C14Fq
open PyEcc

/-- optimized `FQ.sgn0` is RFC 9380 `sgn0` for extension degree `m = 1`, applied to the canonical
    representative `n` -/
theorem fq_sgn0_eq_spec {p : ℕ} (a : Fq p) : Fq.sgn0 a = Spec.Sgn0.sgn0 [a.n] := by
  unfold Fq.sgn0 Spec.Sgn0.sgn0
  simp only [List.foldl_cons, List.foldl_nil, Spec.Sgn0.step, Bool.false_or, Bool.true_and]
  rcases Nat.mod_two_eq_zero_or_one a.n with h | h <;> simp [h]

/-- optimized `FQ.sgn0` is RFC 9380 `sgn0_m_eq_1` -/
theorem fq_sgn0_eq_m1 {p : ℕ} (a : Fq p) : Fq.sgn0 a = Spec.Sgn0.sgn0_m_eq_1 a.n := rfl

/-- `sgn0` is `0` or `1` -/
theorem fq_sgn0_le_one {p : ℕ} (a : Fq p) : Fq.sgn0 a ≤ 1 := by
  unfold Fq.sgn0; omega

/-- `sgn0(FQ(0)) = 0` -/
theorem fq_sgn0_zero {p : ℕ} [NeZero p] : Fq.sgn0 (Fq.ofInt 0 : Fq p) = 0 := by
  have : (Fq.ofInt 0 : Fq p).n = 0 := by
    have := Fq.n_ofInt (p := p) 0
    simpa using this
  simp [Fq.sgn0, this]

/-- for an odd modulus, negation flips the sign of every non-zero element:
    `sgn0(-a) = 1 - sgn0(a)` (this is what makes `sgn0` a "sign") -/
theorem fq_sgn0_neg {p : ℕ} [NeZero p] (hp : p % 2 = 1) (a : Fq p) (ha : a ≠ Fq.ofInt 0) :
    Fq.sgn0 (Fq.neg a) = 1 - Fq.sgn0 a := by
  have hlt := a.lt
  have h0 : (Fq.ofInt 0 : Fq p).n = 0 := by
    have := Fq.n_ofInt (p := p) 0
    simpa using this
  have hne : a.n ≠ 0 := fun h => ha (Fq.ext (h.trans h0.symm))
  have hn : ((Fq.neg a).n : ℤ) = (p : ℤ) - a.n := by
    unfold Fq.neg
    rw [Fq.n_ofInt]
    have : -(a.n : ℤ) = ((p : ℤ) - a.n) + (-1) * p := by ring
    rw [this, Int.add_mul_emod_self_right]
    exact Int.emod_eq_of_lt (by omega) (by omega)
  unfold Fq.sgn0
  omega

example : Fq.sgn0 (Fq.neg (Fq.ofInt 3 : Fq 7)) = 1 - Fq.sgn0 (Fq.ofInt 3 : Fq 7) :=
  fq_sgn0_neg (by decide) _ (by decide)

/-! ### the extension-field `sgn0` (optimized `FQP.sgn0`, `FQ2.sgn0`) -/

section fqp
variable {v : Variant} {p : ℕ} {mc : List ℤ}

/-- optimized generic `FQP.sgn0` is RFC 9380 `sgn0` (generic `m`) on the coefficient list, for every
    element whose coefficients are non-negative (all elements built by the constructor are). -/
theorem fqp_sgn0_eq_spec (a : Fqp v p mc) (ha : ∀ x ∈ a.coeffs, 0 ≤ x) :
    Fqp.sgn0 a = Spec.Sgn0.sgn0 (a.coeffs.map Int.toNat) := by
  unfold Fqp.sgn0 Spec.Sgn0.sgn0
  exact FqSem.sgn0_foldl a.coeffs ha false true

/-- optimized `FQ2.sgn0` (the hand-unrolled `m = 2` variant) is RFC 9380 `sgn0_m_eq_2`, and agrees with
    the generic loop, on two-coefficient elements with non-negative coefficients. -/
theorem fq2_sgn0_eq_spec (a : Fqp v p mc) (x0 x1 : ℤ) (hc : a.coeffs = [x0, x1]) (h0 : 0 ≤ x0) (h1 : 0 ≤ x1) :
    Fqp.sgn0_fq2 a = Spec.Sgn0.sgn0_m_eq_2 x0.toNat x1.toNat ∧ Fqp.sgn0_fq2 a = Fqp.sgn0 a := by
  obtain ⟨k0, rfl⟩ := Int.eq_ofNat_of_zero_le h0
  obtain ⟨k1, rfl⟩ := Int.eq_ofNat_of_zero_le h1
  have e0 : ((k0 : ℤ) % 2).toNat = k0 % 2 := by omega
  have e1 : ((k1 : ℤ) % 2).toNat = k1 % 2 := by omega
  have hspec : Fqp.sgn0_fq2 a = Spec.Sgn0.sgn0_m_eq_2 (k0 : ℤ).toNat (k1 : ℤ).toNat := by
    unfold Fqp.sgn0_fq2 Spec.Sgn0.sgn0_m_eq_2
    simp only [hc, getI, List.getD_cons_zero, List.getD_cons_succ, Int.toNat_natCast, e0, e1]
    rcases Nat.mod_two_eq_zero_or_one k0 with h | h <;>
      rcases Nat.mod_two_eq_zero_or_one k1 with h' | h' <;> simp [h, h', beq_eq_decide, Int.natCast_eq_zero]
  refine ⟨hspec, ?_⟩
  rw [hspec, fqp_sgn0_eq_spec a (by rw [hc]; simp)]
  unfold Spec.Sgn0.sgn0_m_eq_2 Spec.Sgn0.sgn0
  simp only [hc, List.map_cons, List.map_nil, List.foldl_cons, List.foldl_nil, Spec.Sgn0.step,
    Bool.false_or, Bool.true_and]

/-- every object built by the `FQP` constructor (which all operations end in) has non-negative
    coefficients, so for those `FQP.sgn0` is RFC 9380 `sgn0` of the reduced coefficients `c mod p`. -/
theorem fqp_sgn0_ofInts (hp : 0 < p) (cs : List ℤ) :
    Fqp.sgn0 (Fqp.ofInts cs : Fqp v p mc) = Spec.Sgn0.sgn0 (cs.map (fun c => (c % (p : ℤ)).toNat)) := by
  rw [fqp_sgn0_eq_spec]
  · simp [Fqp.ofInts, List.map_map, Function.comp_def]
  · intro x hx
    simp only [Fqp.ofInts, List.mem_map] at hx
    obtain ⟨c, _, rfl⟩ := hx
    exact Int.emod_nonneg _ (by omega)

example : ∀ x ∈ (Fqp.ofInts [-3, 12] : Fqp .opt 7 [1, 0]).coeffs, 0 ≤ x := by decide

end fqp

end PyEcc.C14Fq
