/-
  PyEcc.Props.C11_G2 — property C11 for G2, the part that does not need the `FQ2` square root:
  word ranges and flags of `compress_G2`, the 96-byte helper `G2_to_signature`, rejection of an
  out-of-range second word, the error kind of `decompress_G2`, and "whatever `decompress_G2` returns is
  on the twist curve" (the decoder re-checks), plus the shape of accepted words.

  NOT proved here (stage 3 of DESIGN.md): the G2 round trip `decompress_G2(compress_G2(P)) ~ P`, full
  canonicity `compress_G2(decompress_G2(z)) = z` and the explicit accept set; they need
  `modular_squareroot_in_FQ2` to be correct (eighth-roots-of-unity argument).

  Model: `PyEcc/Model/Codec.lean` (`compressG2`, `decompressG2`, `g2ToSignature`, `signatureToG2`).
-/
import PyEcc.Props.C11
import PyEcc.Sem.CodecSemG2

set_option exponentiation.threshold 400

namespace PyEcc.C11
open PyEcc PyEcc.CodecSem PyEcc.BytesLem

/-! ### `compress_G2` -/

/-- `compress_G2(pt)` raises (a `ValueError`, nothing else) exactly when `pt` fails `is_on_curve(pt, b2)`. -/
theorem compressG2_ok_iff (P : G2Pt) :
    (∃ r, compressG2 P = .ok r) ↔ Gen.OptBls.is_on_curve P blsB2 = true := by
  unfold compressG2
  simp only [bind, Except.bind, throw, throwThe, MonadExceptOf.throw, pure, Except.pure]
  cases hon : Gen.OptBls.is_on_curve P blsB2
  · simp
  · cases hi : Gen.OptBls.is_inf P <;> simp

/-- see `compressG2_ok_iff` -/
theorem compressG2_error_kind (P : G2Pt) (e : PyErr) (h : compressG2 P = .error e) :
    e = .value ∧ Gen.OptBls.is_on_curve P blsB2 = false := by
  unfold compressG2 at h
  simp only [bind, Except.bind, throw, throwThe, MonadExceptOf.throw, pure, Except.pure] at h
  cases hon : Gen.OptBls.is_on_curve P blsB2
  · rw [hon] at h
    simp only [Bool.not_false, if_true] at h
    cases h; exact ⟨rfl, rfl⟩
  · rw [hon] at h
    cases hi : Gen.OptBls.is_inf P <;> rw [hi] at h <;> simp at h

/-- **Word ranges and flags of `compress_G2`.**  When `compress_G2(pt)` returns `(z1, z2)`:
    `z1` is a 384-bit word, `z2 < p` (so the second word never carries flag bits: `p < 2^381`),
    `c_flag(z1) = 1` and `b_flag(z1) = 1` exactly for infinity. -/
theorem compressG2_range (P : G2Pt) (z1 z2 : ℕ) (h : compressG2 P = .ok (z1, z2)) :
    z1 < 2 ^ 384 ∧ z2 < blsP ∧ z2 < 2 ^ 381 ∧
      (getFlags z1).1 = true ∧ (getFlags z1).2.1 = Gen.OptBls.is_inf P := by
  unfold compressG2 at h
  simp only [bind, Except.bind, throw, throwThe, MonadExceptOf.throw, pure, Except.pure] at h
  cases hon : Gen.OptBls.is_on_curve P blsB2
  · rw [hon] at h; simp at h
  · rw [hon] at h
    simp only [Bool.not_true, Bool.false_eq_true, if_false] at h
    have hp := blsP_lt
    have hp0 := blsP_pos
    cases hi : Gen.OptBls.is_inf P
    · rw [hi] at h
      simp only [Bool.false_eq_true, if_false, Except.ok.injEq, Prod.mk.injEq] at h
      obtain ⟨h1, h2⟩ := h
      obtain ⟨hx0, hx0'⟩ : 0 ≤ getI (Gen.OptBls.normalize P).1.coeffs 0 ∧
        getI (Gen.OptBls.normalize P).1.coeffs 0 < (blsP : Int) := getI_div_range P.1 P.2.2 0
      obtain ⟨hx1, hx1'⟩ : 0 ≤ getI (Gen.OptBls.normalize P).1.coeffs 1 ∧
        getI (Gen.OptBls.normalize P).1.coeffs 1 < (blsP : Int) := getI_div_range P.1 P.2.2 1
      obtain ⟨hy0, hy0'⟩ : 0 ≤ getI (Gen.OptBls.normalize P).2.coeffs 0 ∧
        getI (Gen.OptBls.normalize P).2.coeffs 0 < (blsP : Int) := getI_div_range P.2.1 P.2.2 0
      obtain ⟨hy1, hy1'⟩ : 0 ≤ getI (Gen.OptBls.normalize P).2.coeffs 1 ∧
        getI (Gen.OptBls.normalize P).2.coeffs 1 < (blsP : Int) := getI_div_range P.2.1 P.2.2 1
      obtain ⟨hf0, hf0'⟩ := flagInt_range hy0 hy0'
      obtain ⟨hf1, hf1'⟩ := flagInt_range hy1 hy1'
      rw [pow2_381, pow2_383] at h1
      rw [getFlags_eq]
      simp only [decide_eq_true_eq, decide_eq_false_iff_not]
      split_ifs at h1 <;> omega
    · rw [hi] at h
      simp only [if_true, Except.ok.injEq, Prod.mk.injEq, pow2_383, pow2_382] at h
      obtain ⟨h1, h2⟩ := h
      rw [getFlags_eq]
      simp only [decide_eq_true_eq]
      omega

/-- **`G2_to_signature(pt)` returns exactly 96 bytes** whenever it returns; it returns iff `pt` passes
    `is_on_curve`, and otherwise raises `ValueError` — in particular never `OverflowError`: both words always
    fit in 48 bytes. -/
theorem g2ToSignature_length (P : G2Pt) :
    (Gen.OptBls.is_on_curve P blsB2 = true → ∃ bs, g2ToSignature P = .ok bs ∧ bs.length = 96) ∧
    (Gen.OptBls.is_on_curve P blsB2 = false → g2ToSignature P = .error .value) := by
  have e : (256 : ℕ) ^ 48 = 2 ^ 384 := by decide
  constructor
  · intro hon
    obtain ⟨⟨z1, z2⟩, hr⟩ := (compressG2_ok_iff P).mpr hon
    obtain ⟨h1, _, h2, _⟩ := compressG2_range P z1 z2 hr
    have h1' : z1 < 256 ^ 48 := by omega
    have h2' : z2 < 256 ^ 48 := by omega
    refine ⟨toBytesBE 48 z1 ++ toBytesBE 48 z2, ?_, by simp⟩
    unfold g2ToSignature
    rw [hr]
    simp only [bind, Except.bind, i2osp_ok h1', i2osp_ok h2', pure, Except.pure]
  · intro hon
    unfold g2ToSignature
    cases hr : compressG2 P with
    | error e' =>
      obtain ⟨he, _⟩ := compressG2_error_kind P e' hr
      subst he; rfl
    | ok r =>
      have := (compressG2_ok_iff P).mp ⟨r, hr⟩
      rw [hon] at this; cases this

/-- the byte layer of G2 loses nothing: the two 48-byte halves of `G2_to_signature(pt)` are the two words -/
theorem signatureToG2_g2ToSignature (P : G2Pt) (z1 z2 : ℕ) (h : compressG2 P = .ok (z1, z2)) :
    ∃ bs, g2ToSignature P = .ok bs ∧ signatureToG2 bs = decompressG2 z1 z2 := by
  have e : (256 : ℕ) ^ 48 = 2 ^ 384 := by decide
  obtain ⟨h1, _, h2, _⟩ := compressG2_range P z1 z2 h
  have h1' : z1 < 256 ^ 48 := by omega
  have h2' : z2 < 256 ^ 48 := by omega
  refine ⟨toBytesBE 48 z1 ++ toBytesBE 48 z2, ?_, ?_⟩
  · unfold g2ToSignature
    rw [h]
    simp only [bind, Except.bind, i2osp_ok h1', i2osp_ok h2', pure, Except.pure]
  · unfold signatureToG2
    have hl : (toBytesBE 48 z1).length = 48 := toBytesBE_length _ _
    rw [List.take_left' hl, List.drop_left' hl, os2ip_toBytesBE _ _ h1', os2ip_toBytesBE _ _ h2']

/-! ### `decompress_G2` -/

/-- `decompress_G2` raises nothing but `ValueError`. -/
theorem decompress_G2_error_kind (z1 z2 : ℕ) (e : PyErr) (h : decompressG2 z1 z2 = .error e) : e = .value := by
  rw [decompressG2_ctl] at h
  exact ctl2_error_kind h

/-- **The second word never carries flags / must be a reduced coordinate**: `decompress_G2((z1, z2))` rejects
    every `z2 ≥ p` with `ValueError`, whatever `z1` is — in particular every `z2` with one of the three top
    bits (or any higher bit) set, since `p < 2^381`. -/
theorem decompressG2_rejects_second_word (z1 z2 : ℕ) (h : blsP ≤ z2) : decompressG2 z1 z2 = .error .value := by
  have hninf : isPointAtInfinity z1 (some z2) = false := by
    rw [isPointAtInfinity_some_false]
    have := blsP_pos
    omega
  rw [decompressG2_ctl, hninf]
  exact ctl2_bad2 h

/-- corollary of `decompressG2_rejects_second_word` in terms of bits -/
theorem decompressG2_rejects_second_word_flags (z1 z2 : ℕ) (h : 2 ^ 381 ≤ z2) :
    decompressG2 z1 z2 = .error .value :=
  decompressG2_rejects_second_word z1 z2 (le_trans (le_of_lt blsP_lt) h)

/-- **Whatever `decompress_G2` returns is on the twist curve** `y² = x³ + 4(1+i)` (the decoder re-checks
    `is_on_curve` before returning; infinity `Z2` is on the curve by definition). -/
theorem compress_decompress_G2_oncurve (z1 z2 : ℕ) (P : G2Pt) (h : decompressG2 z1 z2 = .ok P) :
    Gen.OptBls.is_on_curve P blsB2 = true := by
  rw [decompressG2_ctl] at h
  obtain ⟨_, h | h⟩ := ctl2_ok h
  · obtain ⟨_, _, _, rfl⟩ := h
    simp [Gen.OptBls.is_on_curve, Gen.OptBls.is_inf, Z2]
  · obtain ⟨_, _, _, _, y, _, rfl, hon⟩ := h
    exact hon

/-- **Shape of accepted G2 words.**  If `decompress_G2((z1, z2))` returns `P` then `c_flag(z1) = 1` and either
    * `b_flag = 1`, `a_flag = 0`, `z1 % 2^381 = 0`, `z2 = 0` and `P = Z2` (infinity), or
    * `b_flag = 0`, both coordinate words are reduced (`z1 % 2^381 < p`, `z2 < p`), not both zero,
      `modular_squareroot_in_FQ2(x**3 + b2)` returned some `y`, and `P` is the normalized triple
      `(x, ±y, FQ2.one())` with `x = FQ2([z2, z1 % 2^381])`: the decoded `x` is exactly the encoded one. -/
theorem decompressG2_ok_shape (z1 z2 : ℕ) (P : G2Pt) (h : decompressG2 z1 z2 = .ok P) :
    (getFlags z1).1 = true ∧
    (((getFlags z1).2.1 = true ∧ (getFlags z1).2.2 = false ∧ z1 % 2 ^ 381 = 0 ∧ z2 = 0 ∧ P = Z2) ∨
     ((getFlags z1).2.1 = false ∧ z1 % 2 ^ 381 < blsP ∧ z2 < blsP ∧ ¬(z1 % 2 ^ 381 = 0 ∧ z2 = 0) ∧
        ∃ y, modularSquarerootInFq2 (rhsOf2 z1 z2) = some y ∧
          P = (encodedX2 z1 z2, pickY2 (getFlags z1).2.2 y, Fqp.ofInts [1, 0]))) := by
  rw [decompressG2_ctl] at h
  obtain ⟨hc, h | h⟩ := ctl2_ok h
  · obtain ⟨hi, hb, ha, hP⟩ := h
    obtain ⟨h1, h2⟩ := (isPointAtInfinity_some z1 z2).mp hi
    exact ⟨hc, Or.inl ⟨hb, ha, h1, h2, hP⟩⟩
  · obtain ⟨hi, hb, h1, h2, y, hy, hP, _⟩ := h
    rw [pow2_381] at h1
    exact ⟨hc, Or.inr ⟨hb, by omega, by omega, (isPointAtInfinity_some_false z1 z2).mp hi, y, hy, hP⟩⟩

/-- **Infinity round trip for G2.**  Every representative of infinity (`Z = 0`; these all pass `is_on_curve`)
    is encoded as `(2^383 + 2^382, 0)`, which decodes to `Z2`. -/
theorem decompress_compress_G2_inf (P : G2Pt) (hinf : Gen.OptBls.is_inf P = true) :
    compressG2 P = .ok (2 ^ 383 + 2 ^ 382, 0) ∧ decompressG2 (2 ^ 383 + 2 ^ 382) 0 = .ok Z2 := by
  constructor
  · have hon : Gen.OptBls.is_on_curve P blsB2 = true := by simp [Gen.OptBls.is_on_curve, hinf]
    unfold compressG2
    simp only [bind, Except.bind, throw, throwThe, MonadExceptOf.throw, pure, Except.pure, hon, hinf,
      Bool.not_true, Bool.false_eq_true, if_false, if_true, pow2_383, pow2_382]
  · have h1 : (2 ^ 383 + 2 ^ 382) / 2 ^ 383 % 2 = 1 := by omega
    have h2 : (2 ^ 383 + 2 ^ 382) / 2 ^ 382 % 2 = 1 := by omega
    have h3 : (2 ^ 383 + 2 ^ 382) / 2 ^ 381 % 2 = 0 := by omega
    have h4 : (2 ^ 383 + 2 ^ 382) % 2 ^ 381 = 0 := by omega
    have hi : isPointAtInfinity (2 ^ 383 + 2 ^ 382) (some 0) = true :=
      (isPointAtInfinity_some _ _).mpr ⟨h4, rfl⟩
    rw [decompressG2_ctl, hi]
    apply ctl2_inf <;> rw [getFlags_eq] <;> simp only [h1, h2, h3] <;> rfl

/-! ### non-vacuity -/

set_option maxRecDepth 100000 in
/-- the G2 generator passes `is_on_curve`, so `compress_G2` / `G2_to_signature` succeed on it -/
example : Gen.OptBls.is_on_curve blsG2 blsB2 = true := by decide +kernel

/-- hence there are words `(z1, z2)` returned by `compress_G2` (hypothesis of `compressG2_range`) -/
example : ∃ r, compressG2 blsG2 = .ok r := (compressG2_ok_iff blsG2).mpr (by decide +kernel)

/-- and a word accepted by `decompress_G2` (hypothesis of `compress_decompress_G2_oncurve`, `decompressG2_ok_shape`) -/
example : ∃ z1 z2 P, decompressG2 z1 z2 = .ok P :=
  ⟨_, _, _, (decompress_compress_G2_inf Z2 (by decide)).2⟩

end PyEcc.C11
