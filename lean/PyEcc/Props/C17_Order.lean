/-
  PyEcc.Props.C17_Order — property C17, the group orders of BLS12-381 (the former hypothesis HB2), PROVED:

      `#E(Fp)   = h₁ · r`        (`E  : y² = x³ + 4`       over `Fq blsP`, the model's `FQ`)
      `#E'(Fp²) = h₂ · r`        (`E' : y² = x³ + 4(1+i)`  over `K2 = F_p[X]/(X²+1)`, values of the model's `FQ2`)

  with `h₁ = 0x396c8c005555e1568c00aaab0000aaab` (`Spec.BLS12381.h1`), `h₂ = G2_COFACTOR` of
  `py_ecc/bls/constants.py`, `r = curve_order`.  Mathlib has no Hasse bound and no point counting; the proof
  is elementary:

    lower bound — exhibit subgroups of pairwise coprime orders whose product is `h·r` (Lagrange):
      the generator (order `r`, C07); `(0, 2)` of order 3; for every prime `q` with `q² ∣ h` one point `T` of
      order `q` (found by tools, checked by running the GENERATED `optimized_bls12_381` code in the kernel)
      together with `φ(T)`, `φ(x, y) = (ω·x, y)`, `ω³ = 1`: since `φ³ = id`, `φ(T) = k·T` would force
      `k³ ≡ 1 (mod q)`, and the at most three such `k` are checked not to work, so `⟨T, φT⟩ ≅ (Z/q)²`;
      for the primes `2713, 11953, 262069, Q` (448 bits; Pratt certificates in `Sem/PrattCerts2.lean`)
      dividing `h₂` once, one point of that order each;
    upper bound — `#E(K) ≤ 2·#K + 1` (two `y` per `x`, plus ∞), and `2·h·r > 2·#K + 1` (the traces are negative).

  Consequences, all unconditional now: `h·r` kills every point; `E(Fp)` even has exponent `H_EFF_G1 · r`;
  `clear_cofactor_G1` / `clear_cofactor_G2` map EVERY on-curve (canonical) triple to one that passes
  `subgroup_check`; the `r`-torsion is exactly the set of cleared points; `hash_to_G2` always lands in the
  subgroup (`hash_good_proved`, the former HT6 field of `BlsProto.PairingFacts`).
-/
import PyEcc.Lemmas.Hb2G1
import PyEcc.Lemmas.Hb2G2
import PyEcc.Props.C17_Model
import PyEcc.Props.C10_Iso

set_option linter.unusedSectionVars false
set_option maxRecDepth 100000

namespace PyEcc.C17O
open PyEcc PyEcc.Gen PyEcc.Gen.Consts PyEcc.FqpSem PyEcc.Transfer PyEcc.Hb2 WeierstrassCurve

/-! ## the group orders -/

/-- **`#E(Fp) = h₁·r` (BLS12-381).**  Mathlib's group of points of `y² = x³ + 4` over the field `Fq blsP`
    (the model's `FQ` arithmetic) has exactly `h₁ · curve_order` elements, `h₁` the standard G1 cofactor. -/
theorem bls_card_E1 : Nat.card (CurvePt (blsB : F1)) = Spec.BLS12381.h1 * blsR :=
  card_eq_of_dvd_of_le h1r_dvd_card_E1 card_E1_le (by decide +kernel)

/-- **`#E'(Fp²) = h₂·r` (BLS12-381 twist).**  Mathlib's group of points of `y² = x³ + 4(1+i)` over
    `K2 = F_p[X]/(X²+1)` has exactly `G2_COFACTOR · curve_order` elements. -/
theorem bls_card_E2 : Nat.card (CurvePt (toQ blsB2 : K2)) = blsconst_G2_COFACTOR * blsR :=
  card_eq_of_dvd_of_le h2r_dvd_card_E2 card_E2_le (by decide +kernel)

/-- the same numbers in terms of the traces: `#E(Fp) = p + 1 − (x+1)` with the seed `x` of the curve family -/
theorem bls_card_E1_trace :
    (Nat.card (CurvePt (blsB : F1)) : ℤ) = (Spec.BLS12381.p : ℤ) + 1 - (Spec.BLS12381.x + 1) := by
  rw [bls_card_E1, ← C17.spec_h1_r]
  have : blsR = Spec.BLS12381.r := by decide
  rw [this]; push_cast; rfl

/-- every point of `E(Fp)` is killed by `h₁·r` -/
theorem bls_order_kills_E1 (P : CurvePt (blsB : F1)) : (Spec.BLS12381.h1 * blsR) • P = 0 := by
  rw [← bls_card_E1]; exact card_nsmul_eq_zero'

/-- every point of `E'(Fp²)` is killed by `h₂·r` — this is the statement `hord` that
    `C10Iso.hash_good_of_order` and `C17M.subgroupCheck_G2_cleared` were waiting for -/
theorem bls_order_kills_E2 (P : CurvePt (toQ blsB2 : K2)) : (blsconst_G2_COFACTOR * blsR) • P = 0 := by
  rw [← bls_card_E2]; exact card_nsmul_eq_zero'

/-- **The exponent of `E(Fp)` divides `H_EFF_G1 · r`.**  `H_EFF_G1 = 1 − x` is NOT a multiple of
    `h₁ = (1−x)²/3`, but `E(Fp) ≅ Z/((1−x)/3) × Z/((1−x)·r)`: every point is killed by `(1−x)·r`.  (From the
    order and the `(Z/q)²` subgroups: the `q`-primary part of `E(Fp)` has order `q²` and exponent `q`.) -/
theorem bls_exponent_E1 (P : CurvePt (blsB : F1)) : (h2c_H_EFF_G1 * blsR) • P = 0 := by
  have hc := bls_card_E1
  obtain ⟨H1, c1, x1⟩ := sq_E1_11
  obtain ⟨H2, c2, x2⟩ := sq_E1_10177
  obtain ⟨H3, c3, x3⟩ := sq_E1_859267
  obtain ⟨H4, c4, x4⟩ := sq_E1_52437899
  have k1 := exponent_of_sq (q := 11) (m := Spec.BLS12381.h1 * blsR / 11 ^ 2)
    (hc.trans (by decide +kernel)) (by decide +kernel) H1 c1 x1 P
  have k2 := exponent_of_sq (q := 10177) (m := Spec.BLS12381.h1 * blsR / 10177 ^ 2)
    (hc.trans (by decide +kernel)) (by decide +kernel) H2 c2 x2 P
  have k3 := exponent_of_sq (q := 859267) (m := Spec.BLS12381.h1 * blsR / 859267 ^ 2)
    (hc.trans (by decide +kernel)) (by decide +kernel) H3 c3 x3 P
  have k4 := exponent_of_sq (q := 52437899) (m := Spec.BLS12381.h1 * blsR / 52437899 ^ 2)
    (hc.trans (by decide +kernel)) (by decide +kernel) H4 c4 x4 P
  have d1 := addOrderOf_dvd_iff_nsmul_eq_zero.mpr k1
  have d2 := addOrderOf_dvd_iff_nsmul_eq_zero.mpr k2
  have d3 := addOrderOf_dvd_iff_nsmul_eq_zero.mpr k3
  have d4 := addOrderOf_dvd_iff_nsmul_eq_zero.mpr k4
  have d := Nat.dvd_gcd (Nat.dvd_gcd d1 d2) (Nat.dvd_gcd d3 d4)
  rw [show Nat.gcd (Nat.gcd (11 * (Spec.BLS12381.h1 * blsR / 11 ^ 2))
      (10177 * (Spec.BLS12381.h1 * blsR / 10177 ^ 2)))
      (Nat.gcd (859267 * (Spec.BLS12381.h1 * blsR / 859267 ^ 2))
      (52437899 * (Spec.BLS12381.h1 * blsR / 52437899 ^ 2))) = h2c_H_EFF_G1 * blsR
      from by decide +kernel] at d
  exact addOrderOf_dvd_iff_nsmul_eq_zero.mp d

/-! ## consequences for the model functions -/

/-- **G1: the group order at code level.**  For EVERY triple accepted by `is_on_curve(T, b)`,
    `multiply(T, h₁ · curve_order)` is the point at infinity. -/
theorem multiply_order_G1 (T : G1Pt) (hT : OptBls.is_on_curve T blsB = true) :
    OptBls.is_inf (OptBls.multiply T (Spec.BLS12381.h1 * blsR)) = true := by
  obtain ⟨P, r⟩ := (on_curve_iff_F1 T).mp hT
  exact (opt_is_inf_refines_F1 (opt_multiply_refines_F1 r _)).mpr (bls_order_kills_E1 P)

/-- **G2: the group order at code level.**  For EVERY canonical `FQ2` triple accepted by
    `is_on_curve(T, b2)`, `multiply(T, G2_COFACTOR · curve_order)` is the point at infinity. -/
theorem multiply_order_G2 (T : G2Pt) (c : CanonT T) (hT : OptBls.is_on_curve T blsB2 = true) :
    OptBls.is_inf (OptBls.multiply T (blsconst_G2_COFACTOR * blsR)) = true := by
  classical
  obtain ⟨P, r⟩ := (on_curve_iff_F2 c).mp hT
  exact (opt_is_inf_refines_F2 (canonT_ops c c _).2.2.2.1 (opt_multiply_refines_F2 c r _)).mpr
    (bls_order_kills_E2 P)

/-- **`clear_cofactor_G1` lands in the subgroup, for every curve point.**  For EVERY triple `T` accepted by
    `is_on_curve(T, b)`, `subgroup_check(clear_cofactor_G1(T))` is `True` (and the result is on the curve).
    No hypothesis on the group order remains. -/
theorem clearCofactorG1_lands (T : G1Pt) (hT : OptBls.is_on_curve T blsB = true) :
    OptBls.is_on_curve (clearCofactorG1 T) blsB = true ∧ subgroupCheck (clearCofactorG1 T) = true := by
  obtain ⟨P, r⟩ := (on_curve_iff_F1 T).mp hT
  exact ⟨(on_curve_iff_F1 _).mpr ⟨_, C17M.clearCofactorG1_refines r⟩,
    C17M.subgroupCheck_G1_cleared r (bls_exponent_E1 P)⟩

/-- **`clear_cofactor_G2` lands in the subgroup, for every curve point.**  For EVERY canonical `FQ2` triple
    `T` accepted by `is_on_curve(T, b2)`, `clear_cofactor_G2(T)` is canonical, on the curve, and
    `subgroup_check` of it is `True`.  No hypothesis on the group order remains. -/
theorem clearCofactorG2_lands (T : G2Pt) (c : CanonT T) (hT : OptBls.is_on_curve T blsB2 = true) :
    CanonT (clearCofactorG2 T) ∧ OptBls.is_on_curve (clearCofactorG2 T) blsB2 = true
      ∧ subgroupCheck (clearCofactorG2 T) = true := by
  classical
  obtain ⟨P, r⟩ := (on_curve_iff_F2 c).mp hT
  obtain ⟨cc, rc⟩ := C17M.clearCofactorG2_refines c r
  exact ⟨cc, (on_curve_iff_F2 cc).mpr ⟨_, rc⟩, C17M.subgroupCheck_G2_cleared c r (bls_order_kills_E2 P)⟩

/-- G1: the `r`-torsion (what `subgroup_check` accepts) is exactly the image of multiplication by the
    cofactor `h₁`. -/
theorem torsion_iff_cleared_E1 (P : CurvePt (blsB : F1)) :
    blsR • P = 0 ↔ ∃ Q : CurvePt (blsB : F1), P = Spec.BLS12381.h1 • Q :=
  C17.subgroup_iff_cleared C17.coprime_h1_r bls_order_kills_E1 P

/-- G2: the `r`-torsion is exactly the image of multiplication by `G2_COFACTOR`. -/
theorem torsion_iff_cleared_E2 (P : CurvePt (toQ blsB2 : K2)) :
    blsR • P = 0 ↔ ∃ Q : CurvePt (toQ blsB2 : K2), P = blsconst_G2_COFACTOR • Q :=
  C17.subgroup_iff_cleared C17.coprime_h2_r bls_order_kills_E2 P

/-- a point killed by `r` is a multiple `k • G`, `k < r`, of any point `G` of order `r`, in a finite
    commutative group whose order is not divisible by `r²` -/
private theorem mem_multiples_of_torsion {G : Type} [AddCommGroup G] [Finite G] {r : ℕ} (hr : r.Prime)
    (hsq : ¬ r ^ 2 ∣ Nat.card G) (g P : G) (hg : addOrderOf g = r) (hP : r • P = 0) :
    ∃ k : ℕ, k < r ∧ P = k • g := by
  classical
  have hmem : P ∈ AddSubgroup.zmultiples g := by
    by_contra hnot
    obtain ⟨H, hH, _⟩ := exists_sq_subgroup hr g P hg hP hnot
    exact hsq (sq_dvd_card H hH)
  have hfin : IsOfFinAddOrder g := by rw [← addOrderOf_pos_iff, hg]; exact hr.pos
  have := hfin.mem_zmultiples_iff_mem_range_addOrderOf.mp hmem
  obtain ⟨k, hk, rfl⟩ := Finset.mem_image.mp this
  exact ⟨k, by rw [← hg]; exact Finset.mem_range.mp hk, rfl⟩

/-- **G1 is exactly the cyclic group generated by the constant `G1`.**  Every point of `E(Fp)` killed by
    `curve_order` (i.e. represented by a triple that passes `subgroup_check`) is `k • G` with `k < r`, `G` the
    point represented by the generator constant. -/
theorem torsion_E1_cyclic (G P : CurvePt (blsB : F1)) (hG : Represents blsG1 G) (hP : blsR • P = 0) :
    ∃ k : ℕ, k < blsR ∧ P = k • G := by
  obtain ⟨_, G', r', _, _, hord⟩ := C07M.blsG1_point
  have e : G = G' := C07Opt.Bls.represents_unique hG r'
  subst e
  refine mem_multiples_of_torsion C07M.blsR_prime ?_ G P hord hP
  rw [bls_card_E1]; exact by decide +kernel

/-- **G2 is exactly the cyclic group generated by the constant `G2`.** -/
theorem torsion_E2_cyclic [DecidableEq K2] (G P : CurvePt (toQ blsB2 : K2))
    (hG : Represents (mapT toQ blsG2) G) (hP : blsR • P = 0) : ∃ k : ℕ, k < blsR ∧ P = k • G := by
  obtain ⟨_, _, G', r', _, _, hord⟩ := C07M.blsG2_point
  have e : G = G' := C07Opt.Bls.represents_unique hG r'
  subst e
  refine mem_multiples_of_torsion C07M.blsR_prime ?_ G P hord hP
  rw [bls_card_E2]; exact by decide +kernel

/-- G1, code level: a triple on the curve passes `subgroup_check` iff it is `eq` to `multiply(G1, k)` for some
    `k < curve_order`. -/
theorem subgroupCheck_G1_iff_multiple (T : G1Pt) (hT : OptBls.is_on_curve T blsB = true) :
    subgroupCheck T = true ↔ ∃ k : ℕ, k < blsR ∧ OptBls.eq T (OptBls.multiply blsG1 k) = true := by
  obtain ⟨P, r⟩ := (on_curve_iff_F1 T).mp hT
  obtain ⟨_, G, rG, _, hGr, _⟩ := C07M.blsG1_point
  constructor
  · intro h
    obtain ⟨k, hk, e⟩ := torsion_E1_cyclic G P rG ((subgroup_check_iff_F1 r).mp h)
    exact ⟨k, hk, (opt_eq_refines_F1 r (opt_multiply_refines_F1 rG k)).mpr e⟩
  · rintro ⟨k, _, e⟩
    have := (opt_eq_refines_F1 r (opt_multiply_refines_F1 rG k)).mp e
    rw [subgroup_check_iff_F1 r, this]
    exact C17.accepts_multiples G k hGr

/-- G2, code level: a canonical triple on the twist curve passes `subgroup_check` iff it is `eq` to
    `multiply(G2, k)` for some `k < curve_order`. -/
theorem subgroupCheck_G2_iff_multiple (T : G2Pt) (c : CanonT T) (hT : OptBls.is_on_curve T blsB2 = true) :
    subgroupCheck T = true ↔ ∃ k : ℕ, k < blsR ∧ OptBls.eq T (OptBls.multiply blsG2 k) = true := by
  classical
  obtain ⟨P, r⟩ := (on_curve_iff_F2 c).mp hT
  obtain ⟨cG, _, G, rG, _, hGr, _⟩ := C07M.blsG2_point
  have cm : ∀ k, CanonT (OptBls.multiply blsG2 k) := fun k => (canonT_ops cG cG k).2.2.2.1
  constructor
  · intro h
    obtain ⟨k, hk, e⟩ := torsion_E2_cyclic G P rG ((subgroup_check_iff_F2 c r).mp h)
    exact ⟨k, hk, (opt_eq_refines_F2 c (cm k) r (opt_multiply_refines_F2 cG rG k)).mpr e⟩
  · rintro ⟨k, _, e⟩
    have := (opt_eq_refines_F2 c (cm k) r (opt_multiply_refines_F2 cG rG k)).mp e
    rw [subgroup_check_iff_F2 c r, this]
    exact C17.accepts_multiples G k hGr

/-- **HT6 proved: `hash_to_G2` lands in the subgroup.**  For every hash function `H` (any function with the
    `hashlib` interface), message and DST: whatever `hash_to_G2` returns is a canonical `FQ2` triple on the
    twist curve that passes `subgroup_check`.  This is the `hash_good` field of `BlsProto.PairingFacts`,
    now without any hypothesis. -/
theorem hash_good_proved (H : HashFn) (msg dst : Bytes) (mp : G2Pt) (h : hashToG2 H msg dst = .ok mp) :
    CanonT mp ∧ OptBls.is_on_curve mp blsB2 = true ∧ subgroupCheck mp = true := by
  classical
  exact C10Iso.hash_good_of_order bls_order_kills_E2 H msg dst mp h

/-! ### non-vacuity: the theorems at the generators -/

example : subgroupCheck (clearCofactorG1 blsG1) = true :=
  (clearCofactorG1_lands blsG1 C17M.blsG1_passes.1).2

example : subgroupCheck (clearCofactorG2 blsG2) = true :=
  (clearCofactorG2_lands blsG2 C17M.blsG2_passes.1 C17M.blsG2_passes.2.1).2.2

end PyEcc.C17O
