/-
  PyEcc.Props.TieCofactor — TIE theorems ("generated = hand-written model").
  `Gen/Extra*.lean` is re-generated from the Python source on every run (tools/translate/gen_extra.py). Each theorem states that
  the function the translator produced from the CURRENT source is, for all inputs, the hand-written model function that the property
  theorems are about. A change to one of these Python functions changes the generated definition and breaks a theorem here
  statically, without needing a test input. (Split per source area so that a change in one area does not alarm unrelated properties.)
  The proofs close with `tie_close` (Props/TieRobC.lean): reflexivity first, then normalisation of both sides and a case analysis, so
  that a behaviour-preserving reshaping of the Python (renamed / inlined locals, early `return` vs conditional expression, negated
  test with swapped branches, `for _ in range(k)` vs the unrolled calls, …) keeps the theorem, while a real change fails in seconds.
-/
import PyEcc.Props.TieRobC
import PyEcc.Gen.ExtraSwu
import PyEcc.Gen.ExtraCodec

set_option linter.unusedSimpArgs false

namespace PyEcc.Tie
open PyEcc

/-- `multiply_clear_cofactor_G1(p)` as translated from the source is the model's `clearCofactorG1`. -/
theorem multiply_clear_cofactor_G1_eq (p : F1 × F1 × F1) :
    Gen.ExtraSwu.multiply_clear_cofactor_G1 p = clearCofactorG1 p := by
  unfold Gen.ExtraSwu.multiply_clear_cofactor_G1 clearCofactorG1
  tie_close [ne_eq, ite_not]

/-- `multiply_clear_cofactor_G2(p)` as translated from the source is the model's `clearCofactorG2`. -/
theorem multiply_clear_cofactor_G2_eq (p : F2 × F2 × F2) :
    Gen.ExtraSwu.multiply_clear_cofactor_G2 p = clearCofactorG2 p := by
  unfold Gen.ExtraSwu.multiply_clear_cofactor_G2 clearCofactorG2
  tie_close [ne_eq, ite_not]

/-- `clear_cofactor_G1(p)` is `multiply_clear_cofactor_G1(p)`, i.e. the model's `clearCofactorG1`. -/
theorem clear_cofactor_G1_eq (p : F1 × F1 × F1) : Gen.ExtraSwu.clear_cofactor_G1 p = clearCofactorG1 p := by
  unfold Gen.ExtraSwu.clear_cofactor_G1
  tie_close [ne_eq, ite_not]

/-- `clear_cofactor_G2(p)` is `multiply_clear_cofactor_G2(p)`, i.e. the model's `clearCofactorG2`. -/
theorem clear_cofactor_G2_eq (p : F2 × F2 × F2) : Gen.ExtraSwu.clear_cofactor_G2 p = clearCofactorG2 p := by
  unfold Gen.ExtraSwu.clear_cofactor_G2
  tie_close [ne_eq, ite_not]

/-- `subgroup_check(P)` = `is_inf(multiply(P, curve_order))` as translated from the source is the model's
    `subgroupCheck` (over any coordinate type). -/
theorem subgroup_check_eq {F : Type} [Zero F] [One F] [Add F] [Sub F] [Mul F] [Neg F] [Div F] [NatCast F] [Pow F Nat]
    [DecidableEq F] (pt : F × F × F) : Gen.ExtraCodec.subgroup_check pt = subgroupCheck pt := by
  unfold Gen.ExtraCodec.subgroup_check subgroupCheck blsR
  tie_close [ne_eq, ite_not]

end PyEcc.Tie
