/-
  PyEcc.Props.C06_Gen — property C06 restated about the GENERATED code: `privtopub`, `ecdsa_raw_sign`, `ecdsa_raw_recover`,
  `bytes_to_int`, `deterministic_generate_k` of `py_ecc/secp256k1/secp256k1.py`, as translated from the Python source on this run
  (`PyEcc.Gen.ExtraSecp.*`, `PyEcc.Gen.ExtraHashSecp.*`, over the generated Jacobian arithmetic `PyEcc.Gen.Secp.*`).
  Every theorem is the model theorem of `Props/C06.lean` / `Props/C06_Recover.lean` composed with the tie theorems of
  `Props/TieSecp.lean`, `Props/TieHashSecp.lean` (`Gen.… f = model f`).  No hypothesis is added.

  Conventions of the translation that show in the statements: in `ecdsa_raw_sign` the call `deterministic_generate_k(msghash, priv)`
  is the explicit last parameter `k`, so the Python function `ecdsa_raw_sign(msghash, priv)` is the term
  `ecdsa_raw_sign msghash priv (deterministic_generate_k msghash priv H)`; `hashlib.sha256` is the explicit parameter `H`.
  On the specification side: `Gpt`, `reprSecp`, `Verifies` (Mathlib's group `E(F_P)` of secp256k1, `PyEcc.SecpSem` / `PyEcc.EcdsaSem`),
  `Spec.rfc6979FirstCandidate` (RFC 6979 §3.2), `Spec.OS2IP`.
-/
import PyEcc.Props.C06_Recover
import PyEcc.Props.TieSecp
import PyEcc.Props.TieHashSecp

namespace PyEcc.C06.Gen
open WeierstrassCurve PyEcc PyEcc.Gen.Secp PyEcc.SecpSem PyEcc.Gen.Consts PyEcc.EcdsaSem
open PyEcc.Gen.ExtraSecp PyEcc.Gen.ExtraHashSecp

/-- **`bytes_to_int` is big-endian OS2IP.**  The function translated from `bytes_to_int(x)` returns the (non-negative) integer whose
    big-endian base-256 digits are the bytes of `x` (`OS2IP` of RFC 8017 / RFC 9380 §4), for every byte string. -/
theorem bytes_to_int_spec (x : Bytes) : bytes_to_int x = (Spec.OS2IP x : ℤ) := by
  rw [Tie.bytes_to_int_eq, C15.OS2IP_eq_os2ip]
  rfl

/-- the un-normalised `s = inv(k, N) * (z + r * d) % N` of `ecdsa_raw_sign`, `z = bytes_to_int(msghash)`,
    `d = bytes_to_int(priv)`, written with the generated `bytes_to_int` and `inv` -/
def s0 (msghash priv : Bytes) (k r : ℤ) : ℤ :=
  inv k N * (bytes_to_int msghash + r * bytes_to_int priv) % N

theorem s0_eq (h priv : Bytes) (k r : ℤ) : s0 h priv k r = signS0 h priv k r := by
  unfold s0 signS0
  rw [Tie.bytes_to_int_eq, Tie.bytes_to_int_eq]

/-- **The generated `ecdsa_raw_sign` never raises** (for any message hash, key bytes and nonce `k`, also `k ≤ 0` or `k ≥ N`). -/
theorem sign_total (h priv : Bytes) (k : ℤ) : ∃ v r s, ecdsa_raw_sign h priv k = .ok (v, r, s) := by
  simp only [Tie.ecdsa_raw_sign_eq]
  exact C06.sign_total h priv k

/-- **Shape of a signature, generated code.**  Whenever the translated `ecdsa_raw_sign` (run with nonce `k`) returns `(v, r, s)`:
`(r, y) = multiply(G, k)` for some `y`; with `s₀ = inv(k, N)·(z + r·d) % N` the un-normalised `s` (`z`, `d` the `bytes_to_int`
of the hash and the key): `v ∈ {27, 28}`; `s` is LOW: `0 ≤ s` and `2s < N`; `s = s₀` or `s = N − s₀` according to whether
`2s₀ < N`; `s ≥ 1` unless `s₀ = 0`; `s ≡ 0 (mod N)` only if `s₀ = 0`; and `v − 27` is the parity of `y` XOR "the low-`s` flip
happened": `v = 28` exactly when (`y` is odd) ≠ (`2s₀ ≥ N`). -/
theorem sign_shape (h priv : Bytes) (k v r s : ℤ) (hs : ecdsa_raw_sign h priv k = .ok (v, r, s)) :
    ∃ y : ℤ, multiply G k = .ok (r, y) ∧
      (v = 27 ∨ v = 28) ∧ 0 ≤ s ∧ s * 2 < N ∧
      s = (if s0 h priv k r * 2 < N then s0 h priv k r else N - s0 h priv k r) ∧
      (s0 h priv k r ≠ 0 → 1 ≤ s) ∧ (s0 h priv k r ≠ 0 ↔ s % N ≠ 0) ∧
      (v = 28 ↔ ¬ (y % 2 = 1 ↔ N ≤ s0 h priv k r * 2)) := by
  rw [Tie.ecdsa_raw_sign_eq] at hs
  rw [s0_eq]
  exact C06.sign_shape h priv k v r s hs

/-- non-vacuity: `sign_total` provides a signature for every input -/
example : ∃ v r s, ecdsa_raw_sign [1] [1] 1 = .ok (v, r, s) := sign_total _ _ _

/-! ### the nonce is RFC 6979's first candidate -/

/-- **The generated nonce is RFC 6979's first candidate.**  For every hash function `H` with 32-byte digests (in particular
SHA-256, which the code uses) and ALL byte strings `msghash`, `priv`: the function translated from
`deterministic_generate_k(msghash, priv)` equals the first candidate `k = bits2int(T)` of RFC 6979 §3.2 (`V = 0x01³²`, `K = 0x00³²`,
`K = HMAC_K(V‖0x00‖x‖h)`, `V = HMAC_K(V)`, `K = HMAC_K(V‖0x01‖x‖h)`, `V = HMAC_K(V)`, `T = V = HMAC_K(V)`) with HMAC as specified
in RFC 2104, where the octet strings `x = priv` and `h = msghash` are fed as given (note the order: key first). -/
theorem nonce_is_rfc6979 (H : HashFn) (hw : H.WF) (h32 : H.digestSize = 32) (h priv : Bytes) :
    deterministic_generate_k h priv H = (Spec.rfc6979FirstCandidate H priv h : ℤ) := by
  rw [Tie.deterministic_generate_k_eq]
  exact C06.nonce_is_rfc6979 H hw h32 h priv

/-- non-vacuity of the hypotheses of `nonce_is_rfc6979`: SHA-256 -/
example : sha256Fn.WF ∧ sha256Fn.digestSize = 32 := ⟨C15.sha256Fn_WF, rfl⟩

/-- **With the RFC's own input conversion, generated code.**  If the key is a 32-byte string (`int2octets(x) = priv` for `x` its
big-endian int) and the message hash is a 32-byte string whose int is `< N` (so that `bits2octets(h1) = h1`), the translated
`deterministic_generate_k` returns RFC 6979's first candidate for private key `x = OS2IP(priv)`, hash value `h1 = msghash`, group
order `q = N`.  For `bytes_to_int(msghash) ≥ N` the RFC feeds the hash REDUCED mod `N`, the code feeds it unreduced: there the
two differ. -/
theorem nonce_is_rfc6979_int (H : HashFn) (hw : H.WF) (h32 : H.digestSize = 32) (h priv : Bytes)
    (hp : priv.length = 32) (hh : h.length = 32) (hz : bytes_to_int h < N) :
    deterministic_generate_k h priv H = (Spec.rfc6979FirstCandidateInt H N.toNat (Spec.OS2IP priv) h : ℤ) := by
  rw [Tie.deterministic_generate_k_eq, C15.OS2IP_eq_os2ip]
  rw [Tie.bytes_to_int_eq] at hz
  exact C06.nonce_is_rfc6979_int H hw h32 h priv hp hh hz

example : ([0,0,0,0,0,0,0,0,0,0,0,0,0,0,0,0,0,0,0,0,0,0,0,0,0,0,0,0,0,0,0,1] : Bytes).length = 32 ∧
    bytes_to_int [0,0,0,0,0,0,0,0,0,0,0,0,0,0,0,0,0,0,0,0,0,0,0,0,0,0,0,0,0,0,0,1] < N := by decide

/-! ### sign, then recover -/

/-- **`privtopub` is `d • G`, generated code.**  The function translated from `privtopub(priv)` never raises and returns the
    representation (`(0, 0)` for the identity, else reduced affine coordinates) of the point `d • G` of Mathlib's group `E(F_P)`,
    `d = bytes_to_int(priv)` — for every byte string `priv`. -/
theorem privtopub_refines (priv : Bytes) :
    privtopub priv = .ok (reprSecp ((bytes_to_int priv) • Gpt)) := by
  rw [Tie.privtopub_eq, Tie.bytes_to_int_eq]
  exact C18.privtopub_refines priv

/-- **Sign, then recover — generated code.**  Let `(v, r, s)` be returned by the translated `ecdsa_raw_sign` for message hash `h`,
key bytes `priv` (ANY byte strings; `z`, `d` their `bytes_to_int`) and nonce `k` (ANY int), and suppose `r ≢ 0` and `s ≢ 0 (mod N)`
(the two conditions under which ECDSA asks for a new nonce; they are exactly what `ecdsa_raw_recover` tests).  Then
`k ≢ 0 (mod N)`; the translated `ecdsa_raw_recover(h, (v, r, s))` returns what the translated `privtopub(priv)` returns, the
representation of `d • G`; with the OTHER recovery id `55 − v` (28 ↔ 27) it returns something else; `r` is the `x`-coordinate of
`k • G` as an int in `[0, P)` (NOT reduced mod `N`); and `(r, s)` verifies for `z` and `d • G` by the textbook algorithm
(`Verifies`, SEC 1 §4.1.4): `x((z/s) • G + (r/s) • (d • G)) ≡ r`. -/
theorem sign_recover (h priv : Bytes) (k v r s : ℤ) (hsig : ecdsa_raw_sign h priv k = .ok (v, r, s))
    (hr : r % N ≠ 0) (hs : s % N ≠ 0) :
    k % N ≠ 0 ∧
    ecdsa_raw_recover h (v, r, s) = privtopub priv ∧
    ecdsa_raw_recover h (v, r, s) = .ok (reprSecp ((bytes_to_int priv) • Gpt)) ∧
    ecdsa_raw_recover h (55 - v, r, s) ≠ privtopub priv ∧
    (∃ y, reprSecp (k • Gpt) = (r, y)) ∧
    Verifies (bytes_to_int h) r s ((bytes_to_int priv) • Gpt) := by
  rw [Tie.ecdsa_raw_sign_eq] at hsig
  simp only [Tie.ecdsa_raw_recover_eq, Tie.privtopub_eq, Tie.bytes_to_int_eq]
  exact C06.sign_recover h priv k v r s hsig hr hs

/-- non-vacuity of the hypotheses of `sign_recover` (kernel evaluation of the generated code): a signature with
`r, s ≢ 0 (mod N)`; `multiply(G, 1) = G`, so `r = Gx`. -/
example : ∃ v s, ecdsa_raw_sign [1] [1] 1 = .ok (v, Gx, s) ∧ Gx % N ≠ 0 ∧ s % N ≠ 0 := by
  have hm : multiply G 1 = .ok (Gx, Gy) := by
    have := C18.multiply_refines Gpt 1
    rwa [one_smul, reprSecp_Gpt] at this
  have hsig := rawSignWithK_of_ok (h := [1]) (priv := [1]) hm
  rw [← Tie.ecdsa_raw_sign_eq] at hsig
  refine ⟨_, _, hsig, by decide, ?_⟩
  decide

/-- **The deterministic entry point — generated code.**  The same for the Python function `ecdsa_raw_sign(msghash, priv)` itself,
i.e. the translated `ecdsa_raw_sign` run with the nonce returned by the translated `deterministic_generate_k` (any hash function
`H` in place of SHA-256): whenever the returned `(v, r, s)` has `r, s ≢ 0 (mod N)`, the translated
`ecdsa_raw_recover(msghash, (v, r, s))` returns exactly the translated `privtopub(priv)`, the other recovery id does not, and
the signature verifies for `privtopub(priv)`. -/
theorem sign_recover_deterministic (H : HashFn) (h priv : Bytes) (v r s : ℤ)
    (hsig : ecdsa_raw_sign h priv (deterministic_generate_k h priv H) = .ok (v, r, s))
    (hr : r % N ≠ 0) (hs : s % N ≠ 0) :
    ecdsa_raw_recover h (v, r, s) = privtopub priv ∧
    ecdsa_raw_recover h (55 - v, r, s) ≠ privtopub priv ∧
    Verifies (bytes_to_int h) r s ((bytes_to_int priv) • Gpt) := by
  obtain ⟨-, h1, -, h2, -, h3⟩ := sign_recover h priv _ v r s hsig hr hs
  exact ⟨h1, h2, h3⟩

/-- **C06 in one statement — generated code.**  For every hash function `H` with 32-byte digests (SHA-256 is what the code uses)
and ALL byte strings `msghash`, `priv`: the Python function `ecdsa_raw_sign(msghash, priv)` as translated — `ecdsa_raw_sign` run with
the nonce of `deterministic_generate_k` — returns some `(v, r, s)`; the nonce is RFC 6979's first candidate; `v ∈ {27, 28}`;
`0 ≤ s` and `2s < N` (low `s`); and if `r, s ≢ 0 (mod N)` (otherwise ECDSA prescribes a new nonce, which the code does not do) then
`ecdsa_raw_recover(msghash, (v, r, s))` returns exactly `privtopub(priv)`, the other `v` does not, and `(r, s)` verifies for the
public key `d • G`. -/
theorem sign_headline (H : HashFn) (hw : H.WF) (h32 : H.digestSize = 32) (h priv : Bytes) :
    deterministic_generate_k h priv H = (Spec.rfc6979FirstCandidate H priv h : ℤ) ∧
    ∃ v r s, ecdsa_raw_sign h priv (deterministic_generate_k h priv H) = .ok (v, r, s) ∧
      (v = 27 ∨ v = 28) ∧ 0 ≤ s ∧ s * 2 < N ∧
      (r % N ≠ 0 → s % N ≠ 0 →
        ecdsa_raw_recover h (v, r, s) = privtopub priv ∧
        ecdsa_raw_recover h (55 - v, r, s) ≠ privtopub priv ∧
        privtopub priv = .ok (reprSecp ((bytes_to_int priv) • Gpt)) ∧
        Verifies (bytes_to_int h) r s ((bytes_to_int priv) • Gpt)) := by
  refine ⟨nonce_is_rfc6979 H hw h32 h priv, ?_⟩
  obtain ⟨v, r, s, hsig⟩ := sign_total h priv (deterministic_generate_k h priv H)
  obtain ⟨y, -, hv, hs0, hlow, -⟩ := sign_shape h priv _ v r s hsig
  refine ⟨v, r, s, hsig, hv, hs0, hlow, fun hr hs => ?_⟩
  obtain ⟨h1, h2, h3⟩ := sign_recover_deterministic H h priv v r s hsig hr hs
  exact ⟨h1, h2, privtopub_refines priv, h3⟩

end PyEcc.C06.Gen

section AxiomAudit
open PyEcc.C06.Gen
#print axioms bytes_to_int_spec
#print axioms sign_total
#print axioms sign_shape
#print axioms nonce_is_rfc6979
#print axioms nonce_is_rfc6979_int
#print axioms privtopub_refines
#print axioms sign_recover
#print axioms sign_recover_deterministic
#print axioms sign_headline
end AxiomAudit
