/-
  PyEcc.Props.C19 — property C19, decision part: `ecdsa_raw_recover` of `py_ecc/secp256k1/secp256k1.py`
  (modelled as `PyEcc.Ecdsa.ecdsaRawRecover` around the GENERATED Jacobian arithmetic) refuses exactly the
  malformed inputs, only ever raises `ValueError`, and lifts `r` to the point with the parity encoded in `v`.
  (Soundness of the recovered key — the group-theoretic part — is in `Props/C19_Sound.lean`.)
-/
import PyEcc.Sem.EcdsaSem

namespace PyEcc.C19
open PyEcc PyEcc.Gen.Secp PyEcc.SecpSem PyEcc.Gen.Consts PyEcc.Ecdsa PyEcc.EcdsaSem

/-- **`ecdsa_raw_recover` refuses malformed signatures.** For every message hash `h` and ints `v, r, s` the call
raises `ValueError` (i) when `v` is neither `27` nor `28`; (ii) when `r ≡ 0 (mod N)`; (iii) when `s ≡ 0 (mod N)`
(both for `v ∈ {27, 28}`; for other `v` clause (i) applies); (iv) when the code's own test
`(xcubedaxb − y·y) % P ≠ 0` fires, where `y` is `beta = pow(r³ + A·r + B, (P+1)//4, P)` or `P − beta`;
(v) when `r³ + 7` is not a square in `ZMod P` — the mathematical content of (iv), see `residue_test`. -/
theorem recover_rejects (h : Bytes) (v r s : ℤ) :
    (¬ (v = 27 ∨ v = 28) → ecdsaRawRecover h v r s = .error .value) ∧
    (r % N = 0 → ecdsaRawRecover h v r s = .error .value) ∧
    (s % N = 0 → ecdsaRawRecover h v r s = .error .value) ∧
    ((xcub r - liftY v r * liftY v r) % P ≠ 0 → ecdsaRawRecover h v r s = .error .value) ∧
    (¬ IsSquare ((r : Fp) ^ 3 + 7) → ecdsaRawRecover h v r s = .error .value) := by
  have key : ∀ (_ : ¬ (v = 27 ∨ v = 28) ∨ RecoverBad v r s), ecdsaRawRecover h v r s = .error .value := by
    intro hb
    rw [ecdsaRawRecover_eq]
    by_cases hv : ¬ (v = 27 ∨ v = 28)
    · rw [if_pos hv]
    · rw [if_neg hv, if_pos (hb.resolve_left hv)]
  refine ⟨fun hv => key (Or.inl hv), fun hr => key (Or.inr (Or.inr (Or.inl hr))),
    fun hs => key (Or.inr (Or.inr (Or.inr hs))), fun hc => key (Or.inr (Or.inl hc)), fun hsq => ?_⟩
  apply key
  refine Or.inr (Or.inl ((check_iff_not_isSquare v r).mpr ?_))
  rwa [B_cast]

example : ¬ ((26 : ℤ) = 27 ∨ (26 : ℤ) = 28) := by decide
example : (N : ℤ) % N = 0 := by decide

/-- **The residuosity test.** The code's test `(xcubedaxb − y·y) % P ≠ 0` (with `y` the `(P+1)/4`-th power of
`xcubedaxb = (r³ + A·r + B) % P`, or `P` minus it, whichever `v` selects) fires exactly when `r³ + 7` is a quadratic
NON-residue modulo `P` — for every int `r` (reduced or not) and every `v`. Equivalently, in integers: there is no
`t` with `t² ≡ r³ + 7 (mod P)`. (Euler's criterion for `P ≡ 3 (mod 4)`.) -/
theorem residue_test (v r : ℤ) :
    ((xcub r - liftY v r * liftY v r) % P ≠ 0 ↔ ¬ IsSquare ((r : Fp) ^ 3 + 7)) ∧
    ((xcub r - liftY v r * liftY v r) % P ≠ 0 ↔ ¬ ∃ t : ℤ, (t * t - (r ^ 3 + 7)) % P = 0) := by
  have h1 : (xcub r - liftY v r * liftY v r) % P ≠ 0 ↔ ¬ IsSquare ((r : Fp) ^ 3 + 7) := by
    rw [check_iff_not_isSquare, B_cast]
  refine ⟨h1, h1.trans (not_congr ?_)⟩
  constructor
  · rintro ⟨t, ht⟩
    refine ⟨(t.val : ℤ), ?_⟩
    rw [← cast_eq_zero_iff]; push_cast
    rw [ZMod.natCast_zmod_val, ← ht]; ring
  · rintro ⟨t, ht⟩
    refine ⟨(t : Fp), ?_⟩
    have := (cast_eq_zero_iff _).mpr ht
    push_cast at this
    linear_combination -this

/-- **Exact acceptance condition.** `ecdsa_raw_recover` raises `ValueError` if and only if `v ∉ {27, 28}` or
`r ≡ 0` or `s ≡ 0 (mod N)` or `r³ + 7` is a non-residue mod `P`; in every other case it returns a value. -/
theorem recover_error_iff (h : Bytes) (v r s : ℤ) :
    ecdsaRawRecover h v r s = .error .value ↔
      (¬ (v = 27 ∨ v = 28) ∨ r % N = 0 ∨ s % N = 0 ∨ ¬ IsSquare ((r : Fp) ^ 3 + 7)) := by
  constructor
  · intro he
    by_contra hcon
    push Not at hcon
    obtain ⟨hv, hr, hs, hsq⟩ := hcon
    have hgood : ¬ RecoverBad v r s := by
      rintro (hc | hr' | hs')
      · exact ((residue_test v r).1.mp hc) hsq
      · exact hr hr'
      · exact hs hs'
    rw [ecdsaRawRecover_eq, if_neg (not_not.mpr hv), if_neg hgood] at he
    obtain ⟨Q, hQ⟩ := recoverCore_ok h r (liftY v r) r s
    rw [hQ] at he
    cases he
  · have := recover_rejects h v r s
    rintro (hv | hr | hs | hsq)
    · exact this.1 hv
    · exact this.2.1 hr
    · exact this.2.2.1 hs
    · exact this.2.2.2.2 hsq

/-- **`ValueError` is the only exception.** Whatever the inputs, if `ecdsa_raw_recover` raises, it raises
`ValueError`, and it does so at one of its two explicit tests: the recursion of `jacobian_multiply` always
terminates (the fuel of the generated recursion is never exhausted) and its "unexpected case" branch is unreachable. -/
theorem recover_error_kind (h : Bytes) (v r s : ℤ) (e : PyErr) (he : ecdsaRawRecover h v r s = .error e) :
    e = .value := by
  rw [ecdsaRawRecover_eq] at he
  by_cases hv : ¬ (v = 27 ∨ v = 28)
  · rw [if_pos hv] at he; cases he; rfl
  · rw [if_neg hv] at he
    by_cases hb : RecoverBad v r s
    · rw [if_pos hb] at he; cases he; rfl
    · rw [if_neg hb] at he
      obtain ⟨Q, hQ⟩ := recoverCore_ok h r (liftY v r) r s
      rw [hQ] at he
      cases he

example : ecdsaRawRecover [] 26 1 1 = .error .value := (recover_rejects [] 26 1 1).1 (by decide)

/-- **Parity of the lifted point.** When `ecdsa_raw_recover(h, (v, r, s))` returns a value `Q`, then `v ∈ {27, 28}`,
`r, s ≢ 0 (mod N)`, and the point `(x, y) = (r, y)` the code lifted `r` to satisfies: `0 < y < P`,
`y² ≡ r³ + 7 (mod P)`, `y` is EVEN for `v = 27` and ODD for `v = 28`; `y` is the only int with these properties;
and `Q` is the result of the arithmetic tail (`recoverCore`) on that point. (The corner `beta = 0`, where the code
would take `y = P`, cannot occur: `−7` is not a cube mod `P`.) -/
theorem recover_parity (h : Bytes) (v r s : ℤ) (Q : ℤ × ℤ) (hok : ecdsaRawRecover h v r s = .ok Q) :
    (v = 27 ∨ v = 28) ∧ r % N ≠ 0 ∧ s % N ≠ 0 ∧
    ∃ y : ℤ, 0 < y ∧ y < P ∧ (y * y - (r ^ 3 + 7)) % P = 0 ∧ (v = 27 → y % 2 = 0) ∧ (v = 28 → y % 2 = 1) ∧
      (∀ y' : ℤ, 0 < y' → y' < P → (y' * y' - (r ^ 3 + 7)) % P = 0 → y' % 2 = (v - 27) % 2 → y' = y) ∧
      recoverCore h r y r s = .ok Q := by
  rw [ecdsaRawRecover_eq] at hok
  by_cases hv : ¬ (v = 27 ∨ v = 28)
  · rw [if_pos hv] at hok; cases hok
  rw [if_neg hv] at hok
  by_cases hb : RecoverBad v r s
  · rw [if_pos hb] at hok; cases hok
  rw [if_neg hb] at hok
  have hv' := not_not.mp hv
  unfold RecoverBad at hb
  push Not at hb
  obtain ⟨hc, hr, hs⟩ := hb
  have hfield : ((liftY v r : ℤ) : Fp) ^ 2 = (r : Fp) ^ 3 + ((B : ℤ) : Fp) := by
    by_contra hne
    exact (check_iff_field v r).mpr hne hc
  have hpar := liftY_parity v r hv'
  refine ⟨hv', hr, hs, liftY v r, (liftY_range v r).1, (liftY_range v r).2, ?_, ?_, ?_, ?_, hok⟩
  · rw [← cast_eq_zero_iff]; push_cast
    rw [B_cast] at hfield
    linear_combination hfield
  · rintro rfl; rw [hpar]; decide
  · rintro rfl; rw [hpar]; decide
  · intro y' h0 hP hy' hpar'
    apply liftY_unique hv' ⟨h0, hP⟩ ?_ hpar'
    have := (cast_eq_zero_iff _).mpr hy'
    push_cast at this
    rw [B_cast]
    linear_combination this

set_option maxRecDepth 100000 in
/-- non-vacuity of `recover_parity` (kernel evaluation of the model on a concrete input) -/
example : ecdsaRawRecover [1] 28 Gx 1 =
    .ok (26210488337160888672698873285651562077827126089223557910692116932897423477429,
         44582324086967690670293550797731613368225261916384873140806919652936239038985) :=
  okEq_sound (by decide +kernel)

end PyEcc.C19

section AxiomAudit
open PyEcc.C19
#print axioms recover_rejects
#print axioms residue_test
#print axioms recover_error_iff
#print axioms recover_error_kind
#print axioms recover_parity
end AxiomAudit
