/-
  PyEcc.Props.C07_Consts — property C07, constant level.

  `PyEcc/Gen/Consts.lean` is regenerated from the Python working tree on every run (every
  module-level constant of py_ecc).  This file proves that those constants are the ones of the
  standards (`PyEcc/Spec/Standards.lean`: ZCash / pairing-friendly-curves draft for BLS12-381,
  EIP-196/197 for alt_bn128, SEC 2 for secp256k1), that all reference / optimized / `fields` copies
  of a constant agree, and re-derives the parameters from the curve seeds.  A changed constant in
  the library makes a theorem here fail.

  Part A (`spec_*`) is about the specification literals only (no `Gen`): they are self-consistent
  (seed formulas, generators satisfy the curve equations), which guards against typing errors in
  `Spec/Standards.lean`.  Part B (`bls_*`, `bn_*`, `secp_*`) is `Gen.Consts.* = Spec.*`.
  Everything is closed-term evaluation (`decide +kernel`; no axioms beyond the kernel's GMP
  arithmetic).  Core Lean only.
-/
import PyEcc.Spec.Standards
import PyEcc.Model.Curve
import PyEcc.Model.Pairing

set_option maxRecDepth 100000

namespace PyEcc.C07.Consts
open PyEcc.Gen.Consts

/-- `Σ dᵢ·2ⁱ` of a little-endian signed-digit list -/
def evalDigits : List Int → Int
  | [] => 0
  | d :: ds => d + 2 * evalDigits ds

/-- embedding of a base-field constant into a 12-coefficient list -/
def const12 (c : Int) : List Int := c :: List.replicate 11 0

/-! ## Part A: the specification literals are self-consistent -/

/-- BLS12-381: the group order is `r = x⁴ − x² + 1` at the seed `x = −0xd201000000010000`. -/
theorem spec_bls_r_from_seed :
    (Spec.BLS12381.r : Int) = Spec.BLS12381.x ^ 4 - Spec.BLS12381.x ^ 2 + 1 := by decide +kernel

/-- BLS12-381: the field characteristic is `p = (x−1)²·r/3 + x` (the division is exact). -/
theorem spec_bls_p_from_seed :
    (Spec.BLS12381.p : Int) = (Spec.BLS12381.x - 1) ^ 2 * Spec.BLS12381.r / 3 + Spec.BLS12381.x ∧
    ((Spec.BLS12381.x - 1) ^ 2 * Spec.BLS12381.r) % 3 = 0 := by decide +kernel

/-- BLS12-381: `p ≡ 3 (mod 4)` (so `i² = −1` defines `Fp²`) and `p ≡ 1 (mod 6)`. -/
theorem spec_bls_p_mod : Spec.BLS12381.p % 4 = 3 ∧ Spec.BLS12381.p % 6 = 1 := by decide +kernel

/-- BLS12-381: with the trace `t = x + 1`, `p + 1 − t = h₁·r`, `h₁ = (x−1)²/3` (exact division). -/
theorem spec_bls_trace :
    (Spec.BLS12381.p : Int) + 1 - Spec.BLS12381.t = Spec.BLS12381.h1 * Spec.BLS12381.r ∧
    (Spec.BLS12381.h1 : Int) * 3 = (Spec.BLS12381.x - 1) ^ 2 := by decide +kernel

/-- BLS12-381: the Miller loop length is `|x|`. -/
theorem spec_bls_ate : (Spec.BLS12381.ateLoopCount : Int) = -Spec.BLS12381.x := by decide +kernel

/-- BLS12-381: the standard G1 generator satisfies `y² = x³ + 4 (mod p)`, coordinates canonical. -/
theorem spec_bls_g1_on_curve :
    Spec.BLS12381.g1y ^ 2 % Spec.BLS12381.p
      = (Spec.BLS12381.g1x ^ 3 + Spec.BLS12381.b) % Spec.BLS12381.p ∧
    Spec.BLS12381.g1x < Spec.BLS12381.p ∧ Spec.BLS12381.g1y < Spec.BLS12381.p := by decide +kernel

/-- BLS12-381: the standard G2 generator satisfies `y² = x³ + 4(1+i)` in `Fp[i]/(i²+1)` (real and
    imaginary parts, integer arithmetic mod `p`), coordinates canonical. -/
theorem spec_bls_g2_on_curve :
    let p : Int := Spec.BLS12381.p
    let x0 : Int := Spec.BLS12381.g2x0; let x1 : Int := Spec.BLS12381.g2x1
    let y0 : Int := Spec.BLS12381.g2y0; let y1 : Int := Spec.BLS12381.g2y1
    (y0 ^ 2 - y1 ^ 2) % p = (x0 ^ 3 - 3 * x0 * x1 ^ 2 + 4) % p ∧
    (2 * y0 * y1) % p = (3 * x0 ^ 2 * x1 - x1 ^ 3 + 4) % p ∧
    x0 < p ∧ x1 < p ∧ y0 < p ∧ y1 < p := by decide +kernel

/-- alt_bn128: `p = 36u⁴ + 36u³ + 24u² + 6u + 1`, `r = 36u⁴ + 36u³ + 18u² + 6u + 1`, and the trace is
    `t = 6u² + 1` (`#E(Fp) = p + 1 − t = r`) at `u = 4965661367192848881`. -/
theorem spec_bn_from_seed :
    let u := Spec.BN254.u
    Spec.BN254.p = 36 * u ^ 4 + 36 * u ^ 3 + 24 * u ^ 2 + 6 * u + 1 ∧
    Spec.BN254.r = 36 * u ^ 4 + 36 * u ^ 3 + 18 * u ^ 2 + 6 * u + 1 ∧
    Spec.BN254.p + 1 - (6 * u ^ 2 + 1) = Spec.BN254.r := by decide +kernel

/-- alt_bn128: `p ≡ 3 (mod 4)`. -/
theorem spec_bn_p_mod : Spec.BN254.p % 4 = 3 := by decide +kernel

/-- alt_bn128: `(1, 2)` is on `y² = x³ + 3`. -/
theorem spec_bn_g1_on_curve :
    Spec.BN254.g1y ^ 2 = Spec.BN254.g1x ^ 3 + Spec.BN254.b := by decide

/-- alt_bn128: the EIP-197 G2 generator is on the twist `y² = x³ + 3/(9+i)`, stated without
    division: `(y² − x³)·(9+i) = 3` in `Fp[i]/(i²+1)` (real and imaginary parts). -/
theorem spec_bn_g2_on_curve :
    let p : Int := Spec.BN254.p
    let x0 : Int := Spec.BN254.g2x0; let x1 : Int := Spec.BN254.g2x1
    let y0 : Int := Spec.BN254.g2y0; let y1 : Int := Spec.BN254.g2y1
    let d0 := (y0 ^ 2 - y1 ^ 2) - (x0 ^ 3 - 3 * x0 * x1 ^ 2)
    let d1 := 2 * y0 * y1 - (3 * x0 ^ 2 * x1 - x1 ^ 3)
    (9 * d0 - d1) % p = 3 ∧ (d0 + 9 * d1) % p = 0 ∧
    x0 < p ∧ x1 < p ∧ y0 < p ∧ y1 < p := by decide +kernel

/-- secp256k1: `G` is on `y² = x³ + 7 (mod P)`; `P = 2²⁵⁶ − 2³² − 977` in hexadecimal. -/
theorem spec_secp_consistent :
    Spec.SEC2.Gy ^ 2 % Spec.SEC2.P = (Spec.SEC2.Gx ^ 3 + Spec.SEC2.A * Spec.SEC2.Gx + Spec.SEC2.B) % Spec.SEC2.P ∧
    Spec.SEC2.P = 0xFFFFFFFFFFFFFFFFFFFFFFFFFFFFFFFFFFFFFFFFFFFFFFFFFFFFFFFEFFFFFC2F ∧
    Spec.SEC2.Gx < Spec.SEC2.P ∧ Spec.SEC2.Gy < Spec.SEC2.P := by decide +kernel

/-! ## Part B: the library's constants are the standard ones -/

/-! ### BLS12-381 -/

/-- Every copy of `field_modulus` for BLS12-381 in py_ecc (`bls12_381`, `optimized_bls12_381`,
    `fields`) is the standard prime `p = 0x1a0111ea…aaab`. -/
theorem bls_field_modulus :
    bls12_381_field_modulus = Spec.BLS12381.p ∧
    optimized_bls12_381_field_modulus = Spec.BLS12381.p ∧
    fields_bls12_381_field_modulus = Spec.BLS12381.p := by decide +kernel

/-- Every copy of `curve_order` for BLS12-381 (`bls12_381`, `optimized_bls12_381`, and the one the
    BLS ciphersuites import) is the standard `r = 0x73eda753…00000001`. -/
theorem bls_curve_order :
    bls12_381_curve_order = Spec.BLS12381.r ∧
    optimized_bls12_381_curve_order = Spec.BLS12381.r ∧
    suites_curve_order = Spec.BLS12381.r := by decide +kernel

/-- The model's `blsP`, `blsR` are the standard prime and order. -/
theorem bls_model_p_r : blsP = Spec.BLS12381.p ∧ blsR = Spec.BLS12381.r := by decide +kernel

/-- `b = 4`, `b2 = 4(1+i)`, `b12 = 4` in both BLS12-381 modules. -/
theorem bls_b :
    bls12_381_b = Spec.BLS12381.b ∧ optimized_bls12_381_b = Spec.BLS12381.b ∧
    bls12_381_b2 = Spec.BLS12381.b2 ∧ optimized_bls12_381_b2 = Spec.BLS12381.b2 ∧
    bls12_381_b12 = const12 Spec.BLS12381.b ∧ optimized_bls12_381_b12 = const12 Spec.BLS12381.b := by
  decide +kernel

/-- The G1 generator of both BLS12-381 modules is the standard one (the optimized module stores it
    projectively with `z = 1`). -/
theorem bls_G1 :
    bls12_381_G1 = [[(Spec.BLS12381.g1x : Int)], [(Spec.BLS12381.g1y : Int)]] ∧
    optimized_bls12_381_G1 = [[(Spec.BLS12381.g1x : Int)], [(Spec.BLS12381.g1y : Int)], [1]] := by
  decide +kernel

/-- The G2 generator of both BLS12-381 modules is the standard one (coefficient lists
    `[real, imaginary]`; the optimized module stores it projectively with `z = 1`). -/
theorem bls_G2 :
    bls12_381_G2 = [[(Spec.BLS12381.g2x0 : Int), (Spec.BLS12381.g2x1 : Int)],
                    [(Spec.BLS12381.g2y0 : Int), (Spec.BLS12381.g2y1 : Int)]] ∧
    optimized_bls12_381_G2 = [[(Spec.BLS12381.g2x0 : Int), (Spec.BLS12381.g2x1 : Int)],
                              [(Spec.BLS12381.g2y0 : Int), (Spec.BLS12381.g2y1 : Int)], [1, 0]] := by
  decide +kernel

/-- The model's typed generators `blsG1`, `blsG2` carry the standard coordinates, `z = 1`. -/
theorem bls_model_generators :
    blsG1.1.n = Spec.BLS12381.g1x ∧ blsG1.2.1.n = Spec.BLS12381.g1y ∧ blsG1.2.2.n = 1 ∧
    blsG2 = (⟨[(Spec.BLS12381.g2x0 : Int), (Spec.BLS12381.g2x1 : Int)]⟩,
             ⟨[(Spec.BLS12381.g2y0 : Int), (Spec.BLS12381.g2y1 : Int)]⟩, ⟨[1, 0]⟩) := by
  decide +kernel

/-- The extension-field moduli used for BLS12-381 are `u² + 1` and `w¹² − 2w⁶ + 2`; `w` is the
    class of the indeterminate in both modules. -/
theorem bls_moduli :
    fields_bls12_381_fq2_modulus_coeffs = Spec.BLS12381.fq2Modulus ∧
    fields_bls12_381_fq12_modulus_coeffs = Spec.BLS12381.fq12Modulus ∧
    bls12_381_w = [0, 1, 0, 0, 0, 0, 0, 0, 0, 0, 0, 0] ∧
    optimized_bls12_381_w = [0, 1, 0, 0, 0, 0, 0, 0, 0, 0, 0, 0] := by decide +kernel

/-- The points at infinity of the optimized BLS12-381 module are `(1 : 1 : 0)`. -/
theorem bls_infinity :
    optimized_bls12_381_Z1 = [[1], [1], [0]] ∧ optimized_bls12_381_Z2 = [[1, 0], [1, 0], [0, 0]] := by
  decide

/-- `ate_loop_count = |x|` in both BLS12-381 modules. -/
theorem bls_ate_loop_count :
    bls12_381_ate_loop_count = Spec.BLS12381.ateLoopCount ∧
    optimized_bls12_381_ate_loop_count = Spec.BLS12381.ateLoopCount := by decide +kernel

/-- `log_ate_loop_count` (both BLS12-381 modules) is the index of the bit just below the leading one
    of `ate_loop_count`: the Miller loops start from `R = Q` (leading bit) and scan bits
    `log_ate_loop_count, …, 0`. -/
theorem bls_log_ate_loop_count :
    2 ^ (bls12_381_log_ate_loop_count + 1) ≤ bls12_381_ate_loop_count ∧
    bls12_381_ate_loop_count < 2 ^ (bls12_381_log_ate_loop_count + 2) ∧
    optimized_bls12_381_log_ate_loop_count = bls12_381_log_ate_loop_count ∧
    bls12_381_log_ate_loop_count = 62 := by decide +kernel

/-- `pseudo_binary_encoding` of the optimized BLS12-381 module is the binary expansion of
    `ate_loop_count`: digits in `{0, 1}`, `log_ate_loop_count + 2` of them, leading digit 1,
    `Σ dᵢ 2ⁱ = ate_loop_count`. -/
theorem bls_pseudo_binary_encoding :
    evalDigits optimized_bls12_381_pseudo_binary_encoding = Spec.BLS12381.ateLoopCount ∧
    optimized_bls12_381_pseudo_binary_encoding.all (fun d => d == 0 || d == 1) = true ∧
    optimized_bls12_381_pseudo_binary_encoding.length = optimized_bls12_381_log_ate_loop_count + 2 ∧
    optimized_bls12_381_pseudo_binary_encoding.getLast? = some 1 := by decide +kernel

/-- The digit sequence the optimized BLS12-381 Miller loop actually scans
    (`pseudo_binary_encoding[62::-1]`, most significant first, starting from `R = Q`) evaluates by
    double-and-add to `ate_loop_count`. -/
theorem bls_miller_digits :
    (digitsFrom optimized_bls12_381_pseudo_binary_encoding 62).foldl (fun acc d => 2 * acc + d) 1
      = (Spec.BLS12381.ateLoopCount : Int) := by decide +kernel

/-- `G12` of the reference BLS12-381 module is `twist(G2)` as computed by the model's `twistRefBls`
    (this evaluates two FQ12 divisions by `w²`, `w³` in the kernel). -/
theorem bls_G12_ref :
    twistRefBls (p := blsP) (mc2 := blsMc2) (mc12 := blsMc12)
        (some (⟨bls12_381_G2.getD 0 []⟩, ⟨bls12_381_G2.getD 1 []⟩))
      = some (⟨bls12_381_G12.getD 0 []⟩, ⟨bls12_381_G12.getD 1 []⟩) ∧
    bls12_381_G12.length = 2 := by decide +kernel

/-- `G12` of the optimized BLS12-381 module is `twist(G2)` as computed by the model's `twistOptBls`. -/
theorem bls_G12_opt :
    twistOptBls (p := blsP) (mc2 := blsMc2) (mc12 := blsMc12) blsG2
      = (⟨optimized_bls12_381_G12.getD 0 []⟩, ⟨optimized_bls12_381_G12.getD 1 []⟩,
         ⟨optimized_bls12_381_G12.getD 2 []⟩) ∧
    optimized_bls12_381_G12.length = 3 := by decide +kernel

/-! ### alt_bn128 -/

/-- Every copy of `field_modulus` for alt_bn128 (`bn128`, `optimized_bn128`, `fields`) is the
    EIP-196 prime. -/
theorem bn_field_modulus :
    bn128_field_modulus = Spec.BN254.p ∧ optimized_bn128_field_modulus = Spec.BN254.p ∧
    fields_bn128_field_modulus = Spec.BN254.p := by decide +kernel

/-- Both copies of `curve_order` for alt_bn128 are the EIP-196 group order. -/
theorem bn_curve_order :
    bn128_curve_order = Spec.BN254.r ∧ optimized_bn128_curve_order = Spec.BN254.r := by decide +kernel

/-- `b = 3`, `b12 = 3`, `G1 = (1, 2)` in both alt_bn128 modules. -/
theorem bn_b_G1 :
    bn128_b = Spec.BN254.b ∧ optimized_bn128_b = Spec.BN254.b ∧
    bn128_b12 = const12 Spec.BN254.b ∧ optimized_bn128_b12 = const12 Spec.BN254.b ∧
    bn128_G1 = [[(Spec.BN254.g1x : Int)], [(Spec.BN254.g1y : Int)]] ∧
    optimized_bn128_G1 = [[(Spec.BN254.g1x : Int)], [(Spec.BN254.g1y : Int)], [1]] := by decide +kernel

/-- The G2 generator of both alt_bn128 modules is the EIP-197 one. -/
theorem bn_G2 :
    bn128_G2 = [[(Spec.BN254.g2x0 : Int), (Spec.BN254.g2x1 : Int)],
                [(Spec.BN254.g2y0 : Int), (Spec.BN254.g2y1 : Int)]] ∧
    optimized_bn128_G2 = [[(Spec.BN254.g2x0 : Int), (Spec.BN254.g2x1 : Int)],
                          [(Spec.BN254.g2y0 : Int), (Spec.BN254.g2y1 : Int)], [1, 0]] := by
  decide +kernel

/-- `b2` of both alt_bn128 modules is `3/(9+i)`: in the executable model of the library's `FQ2`
    (both the reference and the optimized class), `b2 · (9+i) = 3`; the stored coefficients are
    canonical residues; the two modules store the same list. -/
theorem bn_b2 :
    (⟨bn128_b2⟩ : Fqp .ref bnP bnMc2) * Fqp.ofInts Spec.BN254.xi = Fqp.ofInts [3, 0] ∧
    (⟨optimized_bn128_b2⟩ : Fqp .opt bnP bnMc2) * Fqp.ofInts Spec.BN254.xi = Fqp.ofInts [3, 0] ∧
    optimized_bn128_b2 = bn128_b2 ∧ bn128_b2.length = 2 ∧
    bn128_b2.all (fun c => decide (0 ≤ c ∧ c < (Spec.BN254.p : Int))) = true := by decide +kernel

/-- The same fact in plain integer arithmetic, independent of the field model: with
    `b2 = c₀ + c₁·i`, `9c₀ − c₁ ≡ 3` and `c₀ + 9c₁ ≡ 0 (mod p)`. -/
theorem bn_b2_int :
    let c0 := getI bn128_b2 0; let c1 := getI bn128_b2 1
    (9 * c0 - c1) % (Spec.BN254.p : Int) = 3 ∧ (c0 + 9 * c1) % (Spec.BN254.p : Int) = 0 := by
  decide +kernel

/-- The extension-field moduli used for alt_bn128 are `i² + 1` and `w¹² − 18w⁶ + 82`. -/
theorem bn_moduli :
    fields_bn128_fq2_modulus_coeffs = Spec.BN254.fq2Modulus ∧
    fields_bn128_fq12_modulus_coeffs = Spec.BN254.fq12Modulus ∧
    bn128_w = [0, 1, 0, 0, 0, 0, 0, 0, 0, 0, 0, 0] ∧
    optimized_bn128_w = [0, 1, 0, 0, 0, 0, 0, 0, 0, 0, 0, 0] := by decide +kernel

/-- The points at infinity of the optimized alt_bn128 module are `(1 : 1 : 0)`. -/
theorem bn_infinity :
    optimized_bn128_Z1 = [[1], [1], [0]] ∧ optimized_bn128_Z2 = [[1, 0], [1, 0], [0, 0]] := by decide

/-- `ate_loop_count = 6u + 2` in both alt_bn128 modules. -/
theorem bn_ate_loop_count :
    bn128_ate_loop_count = Spec.BN254.ateLoopCount ∧
    optimized_bn128_ate_loop_count = Spec.BN254.ateLoopCount := by decide +kernel

/-- `log_ate_loop_count` (both alt_bn128 modules) is the index of the bit just below the leading one
    of `ate_loop_count`. -/
theorem bn_log_ate_loop_count :
    2 ^ (bn128_log_ate_loop_count + 1) ≤ bn128_ate_loop_count ∧
    bn128_ate_loop_count < 2 ^ (bn128_log_ate_loop_count + 2) ∧
    optimized_bn128_log_ate_loop_count = bn128_log_ate_loop_count ∧
    bn128_log_ate_loop_count = 63 := by decide +kernel

/-- `pseudo_binary_encoding` of the optimized alt_bn128 module is a signed-digit expansion of
    `ate_loop_count = 6u + 2`: digits in `{−1, 0, 1}`, `log_ate_loop_count + 2` of them, leading digit
    1, `Σ dᵢ 2ⁱ = ate_loop_count`. -/
theorem bn_pseudo_binary_encoding :
    evalDigits optimized_bn128_pseudo_binary_encoding = Spec.BN254.ateLoopCount ∧
    optimized_bn128_pseudo_binary_encoding.all (fun d => d == 0 || d == 1 || d == -1) = true ∧
    optimized_bn128_pseudo_binary_encoding.length = optimized_bn128_log_ate_loop_count + 2 ∧
    optimized_bn128_pseudo_binary_encoding.getLast? = some 1 := by decide +kernel

/-- The digit sequence the optimized alt_bn128 Miller loop scans (`pseudo_binary_encoding[63::-1]`,
    most significant first, starting from `R = Q`) evaluates by double-and-add to `ate_loop_count`. -/
theorem bn_miller_digits :
    (digitsFrom optimized_bn128_pseudo_binary_encoding 63).foldl (fun acc d => 2 * acc + d) 1
      = (Spec.BN254.ateLoopCount : Int) := by decide +kernel

/-- `G12` of both alt_bn128 modules is `twist(G2)` as computed by the model's `twistRefBn` /
    `twistOptBn`. -/
theorem bn_G12 :
    twistRefBn (p := bnP) (mc2 := bnMc2) (mc12 := bnMc12)
        (some (⟨bn128_G2.getD 0 []⟩, ⟨bn128_G2.getD 1 []⟩))
      = some (⟨bn128_G12.getD 0 []⟩, ⟨bn128_G12.getD 1 []⟩) ∧
    bn128_G12.length = 2 ∧
    twistOptBn (p := bnP) (mc2 := bnMc2) (mc12 := bnMc12)
        (⟨optimized_bn128_G2.getD 0 []⟩, ⟨optimized_bn128_G2.getD 1 []⟩, ⟨optimized_bn128_G2.getD 2 []⟩)
      = (⟨optimized_bn128_G12.getD 0 []⟩, ⟨optimized_bn128_G12.getD 1 []⟩, ⟨optimized_bn128_G12.getD 2 []⟩) ∧
    optimized_bn128_G12.length = 3 := by decide +kernel

/-! ### secp256k1 -/

/-- The secp256k1 constants are the SEC 2 ones. -/
theorem secp_consts :
    secp256k1_P = Spec.SEC2.P ∧ secp256k1_N = Spec.SEC2.N ∧ secp256k1_A = Spec.SEC2.A ∧
    secp256k1_B = Spec.SEC2.B ∧ secp256k1_Gx = Spec.SEC2.Gx ∧ secp256k1_Gy = Spec.SEC2.Gy := by
  decide +kernel

end PyEcc.C07.Consts
