/-
  PyEcc.Props.C01_Gen — property C01 (honest signatures and possession proofs verify; secret-key rejection; range of
  `KeyGen`) stated DIRECTLY ABOUT THE GENERATED CODE `PyEcc.Gen.ExtraBls.*`, i.e. about `py_ecc/bls/ciphersuites.py` as the
  translator reads it from the repository on this run.

  Every theorem here is obtained by rewriting with the tie theorems of `Props/TieBls.lean`, `Props/TieBlsAgg.lean`
  (`Gen.ExtraBls.f = Model.f` for ALL inputs) and applying the model theorem of `Props/C01_Logic.lean`,
  `Props/C01_ProtoHB2.lean`, `Props/C01_ProtoModel.lean`.  No hypothesis is added or weakened:
    * the unconditional theorems stay unconditional;
    * the protocol theorems keep the ONE hypothesis `NdSem.ModelBilinearCode` (the code's `pairing` is bilinear on points
      that pass `is_on_curve` and `subgroup_check` — `Lemmas/ModelPairing.lean`); `modelBilinearCode_iff_gen` shows that this
      hypothesis is word for word a statement about the generated `pairing` and `subgroup_check`;
    * `2 ≤ H.digestSize` (hash digest of at least 2 bytes; SHA-256 has 32) is kept where the model theorem has it.
  The instance argument `[DecidableEq K2]` of the model theorems (decidable equality on Mathlib's field `F_p²`, only used on the
  specification side) does not occur in any statement here; it is discharged classically inside the proofs.

  Secret keys are the dynamically typed `PyArg` (`int z` | `other`), as in the generated code.
-/
import PyEcc.Props.TieBlsAgg
import PyEcc.Props.TieCodec
import PyEcc.Props.TieCofactor
import PyEcc.Props.TiePairing
import PyEcc.Props.TieHash
import PyEcc.Props.C01_ProtoModel

namespace PyEcc.C01.Gen
open PyEcc PyEcc.Gen.Consts PyEcc.Transfer PyEcc.BlsSem PyEcc.NdSem

/-! ## 0. The hypothesis `ModelBilinearCode`, read on the generated code -/

/-- `ModelBilinearCode` spelled with the GENERATED functions: for all `FQ2` triples `Q`, `Q'` with reduced coefficients and all
    `FQ` triples `P`, `P'` that pass the generated `is_on_curve` and the generated `subgroup_check`,
    `pairing(add(Q, Q'), P) == pairing(Q, P) * pairing(Q', P)` and `pairing(Q, add(P, P')) == pairing(Q, P) * pairing(Q, P')`
    (generated `pairing` of `py_ecc/optimized_bls12_381/optimized_pairing.py`, `final_exponentiate=True`). -/
structure GenBilinearCode : Prop where
  add_left : ∀ (Q Q' : G2Pt) (P : G1Pt), CanonT Q → CanonT Q' →
    Gen.OptBls.is_on_curve Q blsB2 = true → Gen.OptBls.is_on_curve Q' blsB2 = true →
    Gen.OptBls.is_on_curve P blsB = true →
    Gen.ExtraCodec.subgroup_check Q = true → Gen.ExtraCodec.subgroup_check Q' = true →
    Gen.ExtraCodec.subgroup_check P = true →
    ∀ v v' w : OBls12, Gen.ExtraPairing.OptBls.pairing Q P true = .ok v →
      Gen.ExtraPairing.OptBls.pairing Q' P true = .ok v' →
      Gen.ExtraPairing.OptBls.pairing (Gen.OptBls.add Q Q') P true = .ok w → w = v * v'
  add_right : ∀ (Q : G2Pt) (P P' : G1Pt), CanonT Q →
    Gen.OptBls.is_on_curve Q blsB2 = true → Gen.OptBls.is_on_curve P blsB = true →
    Gen.OptBls.is_on_curve P' blsB = true →
    Gen.ExtraCodec.subgroup_check Q = true → Gen.ExtraCodec.subgroup_check P = true →
    Gen.ExtraCodec.subgroup_check P' = true →
    ∀ v v' w : OBls12, Gen.ExtraPairing.OptBls.pairing Q P true = .ok v →
      Gen.ExtraPairing.OptBls.pairing Q P' true = .ok v' →
      Gen.ExtraPairing.OptBls.pairing Q (Gen.OptBls.add P P') true = .ok w → w = v * v'

/-- **The single hypothesis of the BLS protocol theorems is a statement about the generated code.**  `ModelBilinearCode`
    (hypothesis of every conditional theorem of C01–C03) holds iff the generated `pairing` is additive in each argument on
    inputs passing the generated `is_on_curve` / `subgroup_check` (`GenBilinearCode`); the two differ only by the tie theorems
    `Tie.pairing_optBls_eq` and `Tie.subgroup_check_eq`. -/
theorem modelBilinearCode_iff_gen : ModelBilinearCode ↔ GenBilinearCode := by
  constructor
  · intro mc
    constructor
    · intro Q Q' P cQ cQ' hQ hQ' hP sQ sQ' sP v v' w hv hv' hw
      rw [Tie.subgroup_check_eq] at sQ sQ' sP
      rw [Tie.pairing_optBls_eq] at hv hv' hw
      exact mc.add_left Q Q' P cQ cQ' hQ hQ' hP sQ sQ' sP v v' w hv hv' hw
    · intro Q P P' cQ hQ hP hP' sQ sP sP' v v' w hv hv' hw
      rw [Tie.subgroup_check_eq] at sQ sP sP'
      rw [Tie.pairing_optBls_eq] at hv hv' hw
      exact mc.add_right Q P P' cQ hQ hP hP' sQ sP sP' v v' w hv hv' hw
  · intro gc
    constructor
    · intro Q Q' P cQ cQ' hQ hQ' hP sQ sQ' sP v v' w hv hv' hw
      rw [← Tie.subgroup_check_eq] at sQ sQ' sP
      rw [← Tie.pairing_optBls_eq] at hv hv' hw
      exact gc.add_left Q Q' P cQ cQ' hQ hQ' hP sQ sQ' sP v v' w hv hv' hw
    · intro Q P P' cQ hQ hP hP' sQ sP sP' v v' w hv hv' hw
      rw [← Tie.subgroup_check_eq] at sQ sP sP'
      rw [← Tie.pairing_optBls_eq] at hv hv' hw
      exact gc.add_right Q P P' cQ hQ hP hP' sQ sP sP' v v' w hv hv' hw

/-! ## 1. Secret-key validation (no hypotheses) -/

/-- **The `curve_order` imported by `ciphersuites.py` is the BLS12-381 group order `r`** — the constant of
    `py_ecc.bls12_381`, of `py_ecc.optimized_bls12_381`, and the prime `blsR` whose primality is proved in `Sem/Primes.lean`. -/
theorem curve_order_eq :
    suites_curve_order = bls12_381_curve_order ∧ suites_curve_order = optimized_bls12_381_curve_order ∧
    suites_curve_order = blsR :=
  C01.curveOrder_eq

/-- **Exact accept set of the generated `_is_valid_privkey` on `int`s.**  `_is_valid_privkey(z)` is `True` iff
    `1 ≤ z < curve_order` (`bool` is an `int` in Python: `True` is `1`, accepted; `False` is `0`, rejected). -/
theorem is_valid_privkey_int_iff (z : Int) :
    Gen.ExtraBls._is_valid_privkey (.int z) = true ↔ 1 ≤ z ∧ z < (suites_curve_order : Int) := by
  rw [Tie.Bls.is_valid_privkey_isSome, Option.isSome_iff_exists]
  constructor
  · rintro ⟨k, hk⟩
    obtain ⟨h1, h2, _⟩ := (C01.isValidPrivkey_int_iff z k).mp hk
    exact ⟨h1, h2⟩
  · rintro ⟨h1, h2⟩
    exact ⟨z.toNat, (C01.isValidPrivkey_int_iff z z.toNat).mpr ⟨h1, h2, rfl⟩⟩

/-- **Anything that is not an `int` is rejected by the generated `_is_valid_privkey`** (`isinstance(privkey, int)` fails:
    `str`, `float`, `None`, `bytes`, …). -/
theorem is_valid_privkey_other : Gen.ExtraBls._is_valid_privkey .other = false := by
  rw [Tie.Bls.is_valid_privkey_isSome, C01.isValidPrivkey_other]; rfl

/-- **A rejected secret key makes every signing-side API raise `ValidationError`.**  If the generated
    `_is_valid_privkey(sk)` is `False` (not an `int`, or an `int` outside `[1, r-1]`: `0`, `r`, negative, …) then the generated
    `SkToPk(sk)`, `Sign(sk, m)` (all three suites, every message, every hash function) and `PopProve(sk)` raise
    `ValidationError`. -/
theorem sk_rejected (H : HashFn) (s : Suite) (sk : PyArg) (m : Bytes)
    (h : Gen.ExtraBls._is_valid_privkey sk = false) :
    Gen.ExtraBls.SkToPk sk = .error .validation ∧ Gen.ExtraBls.Sign H s sk m = .error .validation ∧
    Gen.ExtraBls.PopProve H sk = .error .validation := by
  rw [Tie.Bls.SkToPk_eq, Tie.Bls.Sign_eq, Tie.Bls.PopProve_eq]
  apply C01.sk_rejected
  rw [Tie.Bls.is_valid_privkey_eq, h]
  rfl

/-- `sk_rejected` in terms of the value: every `int` outside `[1, curve_order - 1]` and every non-`int` makes the generated
    `SkToPk`, `Sign` (all suites) and `PopProve` raise `ValidationError`. -/
theorem sk_rejected_value (H : HashFn) (s : Suite) (sk : PyArg) (m : Bytes)
    (h : sk = .other ∨ ∃ z, sk = .int z ∧ ¬ (1 ≤ z ∧ z < (suites_curve_order : Int))) :
    Gen.ExtraBls.SkToPk sk = .error .validation ∧ Gen.ExtraBls.Sign H s sk m = .error .validation ∧
    Gen.ExtraBls.PopProve H sk = .error .validation := by
  apply sk_rejected
  rcases h with rfl | ⟨z, rfl, hz⟩
  · exact is_valid_privkey_other
  · cases hv : Gen.ExtraBls._is_valid_privkey (.int z) with
    | false => rfl
    | true => exact (hz ((is_valid_privkey_int_iff z).mp hv)).elim

/-- non-vacuity: `0`, `r`, `-1` and non-ints are rejected by the generated predicate; the boundary keys `1`, `r - 1` are
    accepted -/
example : Gen.ExtraBls._is_valid_privkey (.int 0) = false ∧
    Gen.ExtraBls._is_valid_privkey (.int suites_curve_order) = false ∧
    Gen.ExtraBls._is_valid_privkey (.int (-1)) = false ∧ Gen.ExtraBls._is_valid_privkey .other = false ∧
    Gen.ExtraBls._is_valid_privkey (.int 1) = true ∧
    Gen.ExtraBls._is_valid_privkey (.int (suites_curve_order - 1 : Nat)) = true := by decide

/-! ## 2. `KeyGen` (no hypotheses)

  The translator turns the unbounded `while SK == 0` loop into a recursion on an explicit `fuel` argument; out of fuel is
  `PyErr.other`.  The theorems hold for EVERY fuel. -/

/-- **Every value the generated `KeyGen` returns is a valid secret key.**  If `KeyGen(IKM, key_info)` returns `sk` (any hash
    function, any byte strings, any bound on the number of loop iterations) then `1 ≤ sk < curve_order`, and the generated
    `_is_valid_privkey(sk)` is `True`. -/
theorem KeyGen_range (H : HashFn) (fuel : Nat) (ikm info : Bytes) (sk : Nat)
    (h : Gen.ExtraBls.KeyGen H fuel ikm info = .ok sk) :
    1 ≤ sk ∧ sk < suites_curve_order ∧ Gen.ExtraBls._is_valid_privkey (.int sk) = true := by
  rw [Tie.Bls.KeyGen_fuel_eq] at h
  obtain ⟨h1, h2⟩ := C01.keyGenLoop_range H ikm info _ _ _ h
  refine ⟨h1, h2, (is_valid_privkey_int_iff sk).mpr ⟨by omega, ?_⟩⟩
  have : sk < suites_curve_order := h2
  omega

/-- **The generated `KeyGen` returns after the first iteration unless `OKM ≡ 0 (mod r)`.**  With the generated `hkdf_extract`,
    `hkdf_expand`, `i2osp`, `os2ip`, `sha256` of `py_ecc/bls/hash.py`: if
    `OKM = hkdf_expand(hkdf_extract(sha256(b"BLS-SIG-KEYGEN-SALT-"), IKM + b"\x00"), key_info + i2osp(48, 2), 48)` returns and
    `os2ip(OKM) % curve_order ≠ 0`, then `KeyGen(IKM, key_info)` returns that value (for every positive bound on the number of
    iterations). -/
theorem KeyGen_first_iteration (H : HashFn) (fuel : Nat) (ikm info l okm : Bytes)
    (hl : Gen.ExtraHash.i2osp 48 2 = .ok l)
    (hokm : Gen.ExtraHash.hkdf_expand
      (Gen.ExtraHash.hkdf_extract
        (Gen.ExtraHash.sha256 [66, 76, 83, 45, 83, 73, 71, 45, 75, 69, 89, 71, 69, 78, 45, 83, 65, 76, 84, 45] H)
        (ikm ++ [0]) H) (info ++ l) 48 H = .ok okm)
    (hne : Gen.ExtraHash.os2ip okm % suites_curve_order ≠ 0) :
    Gen.ExtraBls.KeyGen H (fuel + 1) ikm info = .ok (Gen.ExtraHash.os2ip okm % suites_curve_order) := by
  rw [Tie.i2osp_eq] at hl
  rw [Tie.hkdf_expand_eq, Tie.hkdf_extract_eq, Tie.sha256_eq] at hokm
  rw [Tie.os2ip_eq] at hne ⊢
  unfold Gen.ExtraBls.KeyGen Gen.ExtraBls.KeyGen_loop
  simp only [↓reduceIte, hl, bind, Except.bind, hokm]
  cases fuel <;> simp only [Gen.ExtraBls.KeyGen_loop, hne, ↓reduceIte] <;> rfl

/-- **The generated `KeyGen` raises nothing.**  The only error value of the translated `KeyGen` is fuel exhaustion
    (`PyErr.other`, after `fuel` consecutive rounds with `OKM ≡ 0 (mod r)`), where the Python `while` loop would simply
    continue; `i2osp(48, 2)` and `hkdf_expand(…, 48)` cannot raise. -/
theorem KeyGen_error (H : HashFn) (fuel : Nat) (ikm info : Bytes) (e : PyErr)
    (h : Gen.ExtraBls.KeyGen H fuel ikm info = .error e) : e = .other := by
  rw [Tie.Bls.KeyGen_fuel_eq] at h
  revert h
  generalize "BLS-SIG-KEYGEN-SALT-".toUTF8.toList = salt
  induction fuel generalizing salt with
  | zero => intro h; exact (Except.error.inj h).symm
  | succ f ih =>
    intro h
    unfold keyGenLoop at h
    have hl : suites_keygen_L = 48 := rfl
    have hi : i2osp 48 2 = .ok (toBytesBE 2 48) := i2osp_ok (by decide)
    obtain ⟨okm, hokm⟩ := C01.hkdfExpand_48_ok H (hkdfExtract H (H.run salt) (ikm ++ [0]))
      (info ++ toBytesBE 2 48)
    simp only [hl, hi, bind, Except.bind, pure, Except.pure, hokm] at h
    split at h
    · exact ih _ h
    · cases h

/-- non-vacuity of `KeyGen_range` / `KeyGen_first_iteration`: with the (degenerate) hash function that maps everything to 32
    bytes `0x01`, the generated `KeyGen(b"", b"")` with fuel 64 returns a non-zero key -/
example : ∃ sk, Gen.ExtraBls.KeyGen ⟨32, 64, fun _ => List.replicate 32 1⟩ 64 [] [] = .ok sk ∧ sk ≠ 0 := by
  have h : (match C01.keyGenRound ⟨32, 64, fun _ => List.replicate 32 1⟩ [] []
      "BLS-SIG-KEYGEN-SALT-".toUTF8.toList with
      | .ok sk => decide (sk ≠ 0) | .error _ => false) = true := by decide +kernel
  split at h
  · next sk hsk =>
    refine ⟨sk, ?_, of_decide_eq_true h⟩
    rw [Tie.Bls.KeyGen_eq]
    exact C01.keyGen_first_iteration _ _ _ _ hsk (of_decide_eq_true h)
  · cases h

/-! ## 3. `SkToPk`, `Sign`, `PopProve` return on valid keys (no hypothesis about pairings) -/

/-- **The generated `SkToPk` never fails on a valid key**: for every `int` `1 ≤ sk < curve_order` it returns a 48-byte string. -/
theorem SkToPk_returns (sk : ℤ) (hsk : 1 ≤ sk ∧ sk < (suites_curve_order : ℤ)) :
    ∃ pk, Gen.ExtraBls.SkToPk (.int sk) = .ok pk ∧ pk.length = 48 := by
  classical
  rw [Tie.Bls.SkToPk_eq]
  exact C01.skToPk_returns sk hsk

/-- **The generated `Sign` is total on valid keys.**  For every hash function whose digest has at least 2 bytes, every suite,
    every `int` secret key `1 ≤ sk < curve_order` and every message, `Sign(sk, m)` returns a 96-byte string — no exception of
    any kind (in particular `hash_to_G2` never takes its "unreachable" `raise`). -/
theorem Sign_total (H : HashFn) (hd : 2 ≤ H.digestSize) (s : Suite) (sk : ℤ)
    (hsk : 1 ≤ sk ∧ sk < (suites_curve_order : ℤ)) (m : Bytes) :
    ∃ sig, Gen.ExtraBls.Sign H s (.int sk) m = .ok sig ∧ sig.length = 96 := by
  classical
  rw [Tie.Bls.Sign_eq]
  exact C17O.sign_total H hd s sk hsk m

/-- **The generated `PopProve` is total on valid keys** (as `Sign_total`). -/
theorem PopProve_total (H : HashFn) (hd : 2 ≤ H.digestSize) (sk : ℤ)
    (hsk : 1 ≤ sk ∧ sk < (suites_curve_order : ℤ)) :
    ∃ proof, Gen.ExtraBls.PopProve H (.int sk) = .ok proof ∧ proof.length = 96 := by
  classical
  rw [Tie.Bls.PopProve_eq]
  exact C17O.popProve_total H hd sk hsk

/-- non-vacuity of the key range and digest hypotheses: `sk = 1`, SHA-256 -/
example : (1 ≤ (1 : ℤ) ∧ (1 : ℤ) < (suites_curve_order : ℤ)) ∧ 2 ≤ sha256Fn.digestSize := by decide

/-! ## 4. Honest signatures and possession proofs verify (conditional on `ModelBilinearCode` only) -/

/-- **Honest signatures verify — generated code.**  Assuming only that the code's `pairing` is bilinear
    (`ModelBilinearCode`): for every suite, hash function, `int` secret key `1 ≤ sk < curve_order` and message, if the generated
    `SkToPk(sk)` returned `pk` and the generated `Sign(sk, m)` returned `sig`, then the generated `Verify(pk, m, sig)` returns
    `True`. -/
theorem sign_verify (mc : ModelBilinearCode) (H : HashFn) (s : Suite) (sk : ℤ)
    (hsk : 1 ≤ sk ∧ sk < (suites_curve_order : ℤ)) (m pk sig : Bytes)
    (hpk : Gen.ExtraBls.SkToPk (.int sk) = .ok pk) (hsig : Gen.ExtraBls.Sign H s (.int sk) m = .ok sig) :
    Gen.ExtraBls.Verify H s pk m sig = .returned true := by
  classical
  rw [Tie.Bls.SkToPk_eq] at hpk
  rw [Tie.Bls.Sign_eq] at hsig
  rw [Tie.Bls.Verify_eq]
  exact C01.sign_verify_of_modelBilinearCode mc H s sk hsk m pk sig hpk hsig

/-- **Honest possession proofs verify — generated code.**  Assuming only `ModelBilinearCode`: if the generated `SkToPk(sk)`
    returned `pk` and the generated `PopProve(sk)` returned `proof`, then the generated `PopVerify(pk, proof)` returns `True`. -/
theorem popProve_popVerify (mc : ModelBilinearCode) (H : HashFn) (sk : ℤ)
    (hsk : 1 ≤ sk ∧ sk < (suites_curve_order : ℤ)) (pk proof : Bytes)
    (hpk : Gen.ExtraBls.SkToPk (.int sk) = .ok pk) (hproof : Gen.ExtraBls.PopProve H (.int sk) = .ok proof) :
    Gen.ExtraBls.PopVerify H pk proof = .returned true := by
  classical
  rw [Tie.Bls.SkToPk_eq] at hpk
  rw [Tie.Bls.PopProve_eq] at hproof
  rw [Tie.Bls.PopVerify_eq]
  exact C01.popProve_popVerify_of_modelBilinearCode mc H sk hsk pk proof hpk hproof

/-- **Honest signatures exist and verify — generated code** (DESIGN's form of C01).  Assuming only `ModelBilinearCode`: for
    every hash function with a digest of at least 2 bytes, every suite, every `int` key `1 ≤ sk < curve_order` and every message,
    the generated `SkToPk(sk)` and `Sign(sk, m)` return, and the generated `Verify` of the results returns `True`. -/
theorem sign_verify_exists (mc : ModelBilinearCode) (H : HashFn) (hd : 2 ≤ H.digestSize) (s : Suite) (sk : ℤ)
    (hsk : 1 ≤ sk ∧ sk < (suites_curve_order : ℤ)) (m : Bytes) :
    ∃ pk sig, Gen.ExtraBls.SkToPk (.int sk) = .ok pk ∧ Gen.ExtraBls.Sign H s (.int sk) m = .ok sig ∧
      Gen.ExtraBls.Verify H s pk m sig = .returned true := by
  classical
  simp only [Tie.Bls.SkToPk_eq, Tie.Bls.Sign_eq, Tie.Bls.Verify_eq]
  exact C01.sign_verify_exists_of_modelBilinear mc.toModelBilinear H hd s sk hsk m

/-- **Honest possession proofs exist and verify — generated code**, assuming only `ModelBilinearCode`. -/
theorem popProve_popVerify_exists (mc : ModelBilinearCode) (H : HashFn) (hd : 2 ≤ H.digestSize) (sk : ℤ)
    (hsk : 1 ≤ sk ∧ sk < (suites_curve_order : ℤ)) :
    ∃ pk proof, Gen.ExtraBls.SkToPk (.int sk) = .ok pk ∧ Gen.ExtraBls.PopProve H (.int sk) = .ok proof ∧
      Gen.ExtraBls.PopVerify H pk proof = .returned true := by
  classical
  simp only [Tie.Bls.SkToPk_eq, Tie.Bls.PopProve_eq, Tie.Bls.PopVerify_eq]
  exact C01.popProve_popVerify_exists_of_modelBilinear mc.toModelBilinear H hd sk hsk

/-- **The round trip as one program — generated code.**  Assuming only `ModelBilinearCode`, for a hash function with a digest
    of at least 2 bytes, every suite, every `int` key `1 ≤ sk < curve_order` and every message, the program
    `pk = SkToPk(sk); sig = Sign(sk, m); return Verify(pk, m, sig)` built from the generated functions raises nothing and
    returns `True`. -/
theorem sign_verify_run (mc : ModelBilinearCode) (H : HashFn) (hd : 2 ≤ H.digestSize) (s : Suite) (sk : ℤ)
    (hsk : 1 ≤ sk ∧ sk < (suites_curve_order : ℤ)) (m : Bytes) :
    (do let pk ← Gen.ExtraBls.SkToPk (.int sk)
        let sig ← Gen.ExtraBls.Sign H s (.int sk) m
        pure (Gen.ExtraBls.Verify H s pk m sig)) = .ok (.returned true) := by
  obtain ⟨pk, sig, hpk, hsig, hv⟩ := sign_verify_exists mc H hd s sk hsk m
  rw [hpk, hsig]
  show Except.ok (Gen.ExtraBls.Verify H s pk m sig) = _
  rw [hv]

/-- **The possession-proof round trip as one program — generated code**:
    `pk = SkToPk(sk); proof = PopProve(sk); return PopVerify(pk, proof)` raises nothing and returns `True`. -/
theorem popProve_popVerify_run (mc : ModelBilinearCode) (H : HashFn) (hd : 2 ≤ H.digestSize) (sk : ℤ)
    (hsk : 1 ≤ sk ∧ sk < (suites_curve_order : ℤ)) :
    (do let pk ← Gen.ExtraBls.SkToPk (.int sk)
        let proof ← Gen.ExtraBls.PopProve H (.int sk)
        pure (Gen.ExtraBls.PopVerify H pk proof)) = .ok (.returned true) := by
  obtain ⟨pk, proof, hpk, hproof, hv⟩ := popProve_popVerify_exists mc H hd sk hsk
  rw [hpk, hproof]
  show Except.ok (Gen.ExtraBls.PopVerify H pk proof) = _
  rw [hv]

/-- non-vacuity of the key hypotheses: `sk = 1` is a valid key, the generated `SkToPk(1)` returns the compressed generator
    (kernel evaluation, C09), and SHA-256 has a digest of at least 2 bytes.  (`ModelBilinearCode` is a closed mathematical
    statement — its instance would be its proof; its side conditions are shown non-vacuous in `Lemmas/ModelPairing.lean`.) -/
example : (1 ≤ (1 : ℤ) ∧ (1 : ℤ) < (suites_curve_order : ℤ)) ∧
    Gen.ExtraBls.SkToPk (.int 1) = .ok C09.compressedG1 ∧ 2 ≤ sha256Fn.digestSize :=
  ⟨by decide, by rw [Tie.Bls.SkToPk_eq]; exact C09.skToPk_one, by decide⟩

end PyEcc.C01.Gen
