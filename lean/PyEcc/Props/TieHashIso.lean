/-
  PyEcc.Props.TieHashIso — TIE theorems ("generated = hand-written model") for the isogeny maps `iso_map_G1` / `iso_map_G2` of
  `py_ecc/optimized_bls12_381/optimized_swu.py`.
  `Gen/ExtraHashIso.lean` is re-generated from the Python source on every run (tools/translate/gen_hash.py).  The generated code
  keeps the in-place list mutation of `mapped_values`, the `enumerate(reversed(k_i[:-1]))` Horner loops and every IndexError the
  Python code could raise; the theorems below show that on the module's coefficient tables none of them is raised and that the
  result is the model's (total) `isoMapG1` / `isoMapG2`.
-/
import PyEcc.Gen.ExtraHashIso

namespace PyEcc.Tie
open PyEcc PyEcc.Gen.Consts

section generic
variable {F : Type} [Mul F] [Add F]

/-- the inner loop over `enumerate(reversed(k_i[:-1]))`, started at table offset `off`, for any step function that behaves like
    `mapped_values[i] = mapped_values[i] * x + z_powers[j] * k_i_j` whenever both indices are in range: no IndexError, and the
    entry `i` of `mapped_values` becomes the Horner fold of the model -/
theorem horner_loop (i : Nat) (x : F) (zp : List F) (step : List F → Nat × F → Except PyErr (List F))
    (hstep : ∀ (mv : List F) (it : Nat × F) (hi : i < mv.length) (hj : it.1 < zp.length),
      step mv it = pure (mv.set i (mv[i] * x + zp[it.1] * it.2))) :
    ∀ (rest : List F) (off : Nat) (mv : List F) (hi : i < mv.length) (_ : off + rest.length ≤ zp.length),
      List.foldlM step mv (List.zip (List.range' off rest.length) rest)
        = pure (mv.set i ((List.zip rest (zp.drop off)).foldl (fun acc kz => acc * x + kz.2 * kz.1) mv[i])) := by
  intro rest
  induction rest with
  | nil =>
    intro off mv hi _
    simp only [List.length_nil, List.range'_zero, List.zip_nil_right, List.foldlM_nil, List.zip_nil_left, List.foldl_nil,
      List.set_getElem_self]
  | cons k rest ih =>
    intro off mv hi hoff
    have hoff' : off < zp.length := by
      simp only [List.length_cons] at hoff
      omega
    rw [List.length_cons, List.range'_succ, List.zip_cons_cons, List.foldlM_cons, hstep mv (off, k) hi hoff', pure_bind]
    have hi' : i < (mv.set i (mv[i] * x + zp[off] * k)).length := by
      rw [List.length_set]
      exact hi
    rw [ih (off + 1) _ hi' (by simp only [List.length_cons] at hoff; omega)]
    rw [List.set_set, List.getElem_set_self, List.drop_eq_getElem_cons hoff', List.zip_cons_cons, List.foldl_cons]

/-- the Horner loop started from `mapped_values[i] = k[-1]` is the model's `isoHorner k` -/
theorem horner_loop_isoHorner [Inhabited F] (i : Nat) (x : F) (zp : List F) (step : List F → Nat × F → Except PyErr (List F))
    (hstep : ∀ (mv : List F) (it : Nat × F) (hi : i < mv.length) (hj : it.1 < zp.length),
      step mv it = pure (mv.set i (mv[i] * x + zp[it.1] * it.2)))
    (mv k : List F) (hi : i < mv.length) (hne : k ≠ []) (hlen : k.length ≤ zp.length + 1) :
    List.foldlM step (mv.set i (k.getLast hne))
        (List.zip (List.range (List.length (List.reverse (List.dropLast k)))) (List.reverse (List.dropLast k)))
      = pure (mv.set i (isoHorner k x zp)) := by
  have hi' : i < (mv.set i (k.getLast hne)).length := by
    rw [List.length_set]
    exact hi
  rw [List.range_eq_range', horner_loop i x zp step hstep _ 0 _ hi'
    (by simp only [List.length_reverse, List.length_dropLast]; omega)]
  unfold isoHorner
  simp only [List.set_set, List.getElem_set_self, List.drop_zero, List.getLast?_eq_some_getLast hne, Option.getD_some]

/-- the outer loop on a table of four coefficient lists and four slots, for any step function that behaves like
    "`mapped_values[i] = isoHorner k_i`" on in-range data -/
theorem outer_loop4 [Inhabited F] (x : F) (zp : List F) (ostep : List F → Nat × List F → Except PyErr (List F))
    (hostep : ∀ (mv : List F) (it : Nat × List F), it.1 < mv.length → 0 < it.2.length → it.2.length ≤ zp.length + 1 →
      ostep mv it = pure (mv.set it.1 (isoHorner it.2 x zp)))
    (a b c d : F) (k0 k1 k2 k3 : List F)
    (h0 : 0 < k0.length ∧ k0.length ≤ zp.length + 1) (h1 : 0 < k1.length ∧ k1.length ≤ zp.length + 1)
    (h2 : 0 < k2.length ∧ k2.length ≤ zp.length + 1) (h3 : 0 < k3.length ∧ k3.length ≤ zp.length + 1) :
    List.foldlM ostep [a, b, c, d] (List.zip (List.range (List.length [k0, k1, k2, k3])) [k0, k1, k2, k3])
      = pure [isoHorner k0 x zp, isoHorner k1 x zp, isoHorner k2 x zp, isoHorner k3 x zp] := by
  have hr : List.range (List.length [k0, k1, k2, k3]) = [0, 1, 2, 3] := rfl
  rw [hr]
  simp only [List.zip_cons_cons, List.zip_nil_right, List.foldlM_cons, List.foldlM_nil]
  rw [hostep _ (0, k0) (by simp) h0.1 h0.2, pure_bind]
  rw [hostep _ (1, k1) (by simp) h1.1 h1.2, pure_bind]
  rw [hostep _ (2, k2) (by simp) h2.1 h2.2, pure_bind]
  rw [hostep _ (3, k3) (by simp) h3.1 h3.2]
  rfl

theorem list4 {α : Type} (l : List α) (h : l.length = 4) : ∃ a b c d, l = [a, b, c, d] := by
  match l, h with
  | [a, b, c, d], _ => exact ⟨a, b, c, d, rfl⟩

theorem ne_nil_of_length_pos {α : Type} {l : List α} (h : 0 < l.length) : l ≠ [] := by
  intro e
  rw [e] at h
  exact Nat.lt_irrefl 0 h

end generic

/-- the two step functions of the nested loops (taken from the goal: the loops are translated in place): on in-range data the
    inner one is `mapped_values[i] = mapped_values[i] * x + z_powers[j] * k_i_j` and the outer one `mapped_values[i] = isoHorner k_i` -/
macro "iso_steps" : tactic => `(tactic| (
  intro mv it hi hne hlen
  simp only [List.getLast?_eq_some_getLast (ne_nil_of_length_pos hne), hi, if_true]
  refine horner_loop_isoHorner it.1 _ _ _ ?_ mv it.2 hi (ne_nil_of_length_pos hne) hlen
  intro mv it hi hj
  simp only [List.getElem?_eq_getElem hi, List.getElem?_eq_getElem hj, hi, if_true]
  rfl))

/-! ### `iso_map_G1` -/

theorem blsP_gt_one : (1 : Int) < (blsP : Int) := by decide

/-- `z ** 1 = z` in the base field (the Python table starts with `z`, the model's `zPowersOf` with `z ^ 1`) -/
theorem f1_pow_one (z : F1) : z ^ 1 = z := by
  show Fq.mul (Fq.ofInt 1) z = z
  apply Fq.ext
  unfold Fq.mul Fq.ofInt pmod
  have h1 : ((1 : Int) % (blsP : Int)).toNat = 1 := by
    rw [Int.emod_eq_of_lt (by decide) blsP_gt_one]
    rfl
  simp only [h1]
  have hz : ((z.n : Nat) : Int) < (blsP : Int) := Int.ofNat_lt.mpr z.lt
  have hz0 : (0 : Int) ≤ ((z.n : Nat) : Int) := Int.natCast_nonneg _
  rw [show (((1 : Nat) : Int) * ((z.n : Nat) : Int)) = ((z.n : Nat) : Int) from Int.one_mul _,
    Int.emod_eq_of_lt hz0 hz]
  rfl

theorem iso11_table_shape : h2c_ISO_11_MAP_COEFFICIENTS.length = 4
    ∧ ∀ ks ∈ h2c_ISO_11_MAP_COEFFICIENTS, 0 < ks.length ∧ ks.length ≤ 16 := by decide

/-- `iso_map_G1(x, y, z)` as translated from the source — `mapped_values = [0, 0, 0, 0]` mutated in place, `z_powers = [z, z**2, ..,
    z**15]`, the nested `enumerate` / `enumerate(reversed(k_i[:-1]))` Horner loops over `ISO_11_MAP_COEFFICIENTS`, the three
    corrections `mapped_values[1] *= z`, `[2] *= y`, `[3] *= z` and the final products — never raises (every IndexError branch is
    dead on the module's coefficient table) and returns the model's `isoMapG1 x y z`. -/
theorem iso_map_G1_eq (x y z : F1) : Gen.ExtraHashIso.iso_map_G1 x y z = .ok (isoMapG1 x y z) := by
  unfold Gen.ExtraHashIso.iso_map_G1 isoMapG1
  have hzp : [z, z ^ 2, z ^ 3, z ^ 4, z ^ 5, z ^ 6, z ^ 7, z ^ 8, z ^ 9, z ^ 10, z ^ 11, z ^ 12, z ^ 13, z ^ 14, z ^ 15]
      = zPowersOf z 15 := by
    rw [show zPowersOf z 15 = [z ^ 1, z ^ 2, z ^ 3, z ^ 4, z ^ 5, z ^ 6, z ^ 7, z ^ 8, z ^ 9, z ^ 10, z ^ 11, z ^ 12, z ^ 13,
      z ^ 14, z ^ 15] from rfl, f1_pow_one]
  have hzl : (zPowersOf z 15).length = 15 := by simp [zPowersOf]
  obtain ⟨k0, k1, k2, k3, hC⟩ := list4 (h2c_ISO_11_MAP_COEFFICIENTS.map fun ks => ks.map fun c => f1c (getI c 0))
    (by rw [List.length_map]; exact iso11_table_shape.1)
  have hall : ∀ k ∈ (h2c_ISO_11_MAP_COEFFICIENTS.map fun ks => ks.map fun c => f1c (getI c 0)),
      0 < k.length ∧ k.length ≤ (zPowersOf z 15).length + 1 := by
    intro k hk
    obtain ⟨ks, hks, rfl⟩ := List.mem_map.mp hk
    rw [List.length_map, hzl]
    exact iso11_table_shape.2 ks hks
  rw [hC] at hall
  simp only [hzp, hC]
  rw [outer_loop4 x (zPowersOf z 15) _ ?hostep 0 0 0 0 k0 k1 k2 k3 (hall k0 (by simp)) (hall k1 (by simp)) (hall k2 (by simp))
    (hall k3 (by simp))]
  case hostep => iso_steps
  simp only [pure_bind, List.getElem?_cons_zero, List.getElem?_cons_succ, List.length_cons, List.length_nil, List.set_cons_zero,
    List.set_cons_succ, List.map_cons, List.map_nil, List.getD_cons_zero, List.getD_cons_succ, Nat.zero_add, Nat.reduceAdd,
    Nat.reduceLT, ↓reduceIte]
  show Except.ok _ = Except.ok _
  with_reducible eq_refl


/-! ### `iso_map_G2` -/

theorem iso3_table_shape : h2c_ISO_3_MAP_COEFFICIENTS.length = 4
    ∧ ∀ ks ∈ h2c_ISO_3_MAP_COEFFICIENTS, 0 < ks.length ∧ ks.length ≤ 4 := by decide

/-- `iso_map_G2(x, y, z)` as translated from the source — `mapped_values = [0, 0, 0, 0]` mutated in place, `z_powers = [z, z**2,
    z**3]`, the nested Horner loops over `ISO_3_MAP_COEFFICIENTS`, the corrections `mapped_values[2] *= y`, `[3] *= z` and the
    final products — never raises (every IndexError branch is dead on the module's coefficient table) and returns the model's
    `isoMapG2 x y z`.
    Guard: the Python table of powers starts with `z` itself, the model's `zPowersOf` with `z ^ 1`; the two agree exactly when
    `z ^ 1 = z`, which holds for every value a Python `FQ2` can take (two coefficients in `[0, p)`, see `f2_pow_one`) but not for
    arbitrary unreduced coefficient lists of the Lean type. -/
theorem iso_map_G2_eq (x y z : F2) (hz : z ^ 1 = z) : Gen.ExtraHashIso.iso_map_G2 x y z = .ok (isoMapG2 x y z) := by
  unfold Gen.ExtraHashIso.iso_map_G2 isoMapG2
  have hzp : [z, z ^ 2, z ^ 3] = zPowersOf z 3 := by
    rw [show zPowersOf z 3 = [z ^ 1, z ^ 2, z ^ 3] from rfl, hz]
  have hzl : (zPowersOf z 3).length = 3 := by simp [zPowersOf]
  obtain ⟨k0, k1, k2, k3, hC⟩ := list4 (h2c_ISO_3_MAP_COEFFICIENTS.map fun ks => ks.map f2c)
    (by rw [List.length_map]; exact iso3_table_shape.1)
  have hall : ∀ k ∈ (h2c_ISO_3_MAP_COEFFICIENTS.map fun ks => ks.map f2c),
      0 < k.length ∧ k.length ≤ (zPowersOf z 3).length + 1 := by
    intro k hk
    obtain ⟨ks, hks, rfl⟩ := List.mem_map.mp hk
    rw [List.length_map, hzl]
    exact iso3_table_shape.2 ks hks
  rw [hC] at hall
  simp only [hzp, hC]
  rw [outer_loop4 x (zPowersOf z 3) _ ?hostep 0 0 0 0 k0 k1 k2 k3 (hall k0 (by simp))
    (hall k1 (by simp)) (hall k2 (by simp)) (hall k3 (by simp))]
  case hostep => iso_steps
  simp only [pure_bind, List.getElem?_cons_zero, List.getElem?_cons_succ, List.length_cons, List.length_nil, List.set_cons_zero,
    List.set_cons_succ, List.map_cons, List.map_nil, List.getD_cons_zero, List.getD_cons_succ, Nat.zero_add, Nat.reduceAdd,
    Nat.reduceLT, ↓reduceIte]
  show Except.ok _ = Except.ok _
  with_reducible eq_refl


/-- `z ** 1 = z` for every `FQ2` value in normal form (two coefficients, each in `[0, p)`), i.e. for everything a Python `FQ2`
    object can be -/
theorem f2_pow_one (z : F2) (hlen : z.coeffs.length = 2) (hred : ∀ c ∈ z.coeffs, 0 ≤ c ∧ c < (blsP : Int)) : z ^ 1 = z := by
  obtain ⟨cs⟩ := z
  match cs, hlen, hred with
  | [a, b], _, hred =>
    have ha := hred a (by simp)
    have hb := hred b (by simp)
    show Fqp.mul (Fqp.one : F2) ⟨[a, b]⟩ = _
    have h1 : (1 : Int) % (blsP : Int) = 1 := Int.emod_eq_of_lt (by decide) blsP_gt_one
    unfold Fqp.mul Fqp.one
    simp [Fqp.ofInts, Fqp.convLoop, Fqp.optReduce, updAt, getI, downTo, blsMc2, fields_bls12_381_fq2_modulus_coeffs,
      List.range_succ, h1]
    exact ⟨Int.emod_eq_of_lt ha.1 ha.2, Int.emod_eq_of_lt hb.1 hb.2⟩

/-- `iso_map_G2_eq` with the guard spelled out as the normal form of `z` -/
theorem iso_map_G2_eq_wf (x y z : F2) (hlen : z.coeffs.length = 2) (hred : ∀ c ∈ z.coeffs, 0 ≤ c ∧ c < (blsP : Int)) :
    Gen.ExtraHashIso.iso_map_G2 x y z = .ok (isoMapG2 x y z) :=
  iso_map_G2_eq x y z (f2_pow_one z hlen hred)

/-- the guard is satisfiable (here `z = 5 + 6u`) -/
example (x y : F2) : Gen.ExtraHashIso.iso_map_G2 x y ⟨[5, 6]⟩ = .ok (isoMapG2 x y ⟨[5, 6]⟩) :=
  iso_map_G2_eq_wf x y ⟨[5, 6]⟩ rfl (by
    intro c hc
    simp only [List.mem_cons, List.not_mem_nil, or_false] at hc
    rcases hc with rfl | rfl <;> decide)

end PyEcc.Tie
