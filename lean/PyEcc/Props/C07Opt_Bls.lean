-- GENERATED from C07Opt.lean.tpl by tools/harness/check.py (template instantiation). DO NOT EDIT.
-- INSTANTIATE: Bls Bn
/-
  Property C07 (stage 2, OPTIMIZED projective modules) — TEMPLATE, instantiated by `sed 's/Bls/Bls/g'`
  (and `Bn`) to `Props/C07Opt_Bls.lean`, `Props/C07Opt_Bn.lean`.

  Composition of the two proved layers
    * C13 (`Props/C13_Bls.lean`): the generated optimized projective functions
      `Gen.OptBls.{add, double, neg, multiply, eq, is_on_curve, is_inf}` equal the generated reference
      affine functions through the affine reading `toAff (x, y, z) = if z = 0 then ∞ else (x/z, y/z)`,
      for ALL triples;
    * C07 stage 1 (`Props/C07_Bls.lean`): the reference affine functions compute Mathlib's group law
      on `(W b).Point` (the curve `y² = x³ + b`) through `reprRef`.
  Result: the optimized Python functions compute Mathlib's group law through
  `Represents T P :≡ toAff T = reprRef P` ("the projective triple `T` is a representative — any
  scaling, any `z = 0` triple for ∞ — of the Mathlib point `P`"), and therefore satisfy the
  commutative-group laws up to the library's own projective equality `eq` (equivalently: up to
  equality of affine readings).  Everything is over an ARBITRARY field `F` with `2 ≠ 0` (plus
  `3 ≠ 0`, `b ≠ 0` where "every solution of the equation is a nonsingular point" is needed), so it
  covers `FQ`, `FQ2`, `FQ12` coordinates at once.
-/
import PyEcc.Props.C13_Bls
import PyEcc.Props.C07_Bls
import PyEcc.Gen.OptBls
import Mathlib.Tactic.NormNum
import Mathlib.Algebra.Field.Rat

set_option linter.unusedSectionVars false
set_option linter.unusedVariables false

namespace PyEcc.C07Opt.Bls
open PyEcc PyEcc.Gen WeierstrassCurve

variable {F : Type} [Field F] [DecidableEq F]

/-! ### `Represents` basics -/

/-- Any triple with `z = 0` (e.g. the library's `Z1 = (1, 1, 0)` but also the degenerate `(0, 0, 0)`
    that `double` can produce) represents the neutral element of the Mathlib group. -/
theorem represents_zero {b : F} {T : F × F × F} (hz : T.2.2 = 0) :
    Represents T (0 : (W b).Point) := by
  show toAff T = reprRef 0
  rw [C13.toAff_of_z_eq_zero hz, reprRef_zero]

/-- The finite triple `(x, y, z)`, `z ≠ 0`, represents the Mathlib point `(x/z, y/z)`. -/
theorem represents_some {b : F} {T : F × F × F} (hz : T.2.2 ≠ 0)
    (h : (W b).Nonsingular (T.1 / T.2.2) (T.2.1 / T.2.2)) :
    Represents T (Affine.Point.some _ _ h) := by
  show toAff T = reprRef _
  rw [C13.toAff_of_z_ne_zero hz, reprRef_some]

/-- A triple represents at most one Mathlib point. -/
theorem represents_unique {b : F} {T : F × F × F} {P Q : (W b).Point}
    (hP : Represents T P) (hQ : Represents T Q) : P = Q :=
  C07.Bls.reprRef_injective (hP.symm.trans hQ)

/-- Scaling a triple by `λ ≠ 0` does not change the point it represents. -/
theorem represents_scale {b : F} {l : F} (hl : l ≠ 0) {T : F × F × F} {P : (W b).Point}
    (hP : Represents T P) : Represents (C13.scale l T) P := by
  show toAff _ = _
  rw [C13.toAff_scale hl]; exact hP

example : (5 : ℚ) ≠ 0 := by norm_num

/-! ### refinement of Mathlib's group law by the optimized functions -/

/-- Optimized `add(p1, p2)`: if the triples `T₁`, `T₂` represent the Mathlib points `P`, `Q` (any
    representatives, ∞ included, `P = Q` and `P = −Q` included) then the returned triple represents
    `P + Q`. -/
theorem opt_add_refines {b : F} (h2 : (2 : F) ≠ 0) {T₁ T₂ : F × F × F} {P Q : (W b).Point}
    (h₁ : Represents T₁ P) (h₂ : Represents T₂ Q) : Represents (OptBls.add T₁ T₂) (P + Q) := by
  have h := C13.Bls.opt_add_toAff h2 T₁ T₂
  rw [show toAff T₁ = reprRef P from h₁, show toAff T₂ = reprRef Q from h₂,
    C07.Bls.ref_add_refines h2] at h
  exact (Except.ok.inj h).symm

/-- Optimized `double(pt)`: the result represents `P + P` (points of order two included: the result
    then has `z = 0`). -/
theorem opt_double_refines {b : F} (h2 : (2 : F) ≠ 0) {T : F × F × F} {P : (W b).Point}
    (hT : Represents T P) : Represents (OptBls.double T) (P + P) := by
  show toAff _ = _
  rw [C13.Bls.opt_double_toAff h2, show toAff T = reprRef P from hT, C07.Bls.ref_double_refines h2]

/-- Optimized `double(pt)` represents `2 • P`. -/
theorem opt_double_refines_two_smul {b : F} (h2 : (2 : F) ≠ 0) {T : F × F × F} {P : (W b).Point}
    (hT : Represents T P) : Represents (OptBls.double T) (2 • P) := by
  rw [two_smul]; exact opt_double_refines h2 hT

/-- Optimized `neg(pt)`: the result represents `−P`. -/
theorem opt_neg_refines {b : F} {T : F × F × F} {P : (W b).Point}
    (hT : Represents T P) : Represents (OptBls.neg T) (-P) := by
  show toAff _ = _
  rw [C13.Bls.opt_neg_toAff, show toAff T = reprRef P from hT, C07.Bls.ref_neg_refines]

/-- Optimized `multiply(pt, n)` (double-and-add on projective triples): the result represents the
    Mathlib scalar multiple `n • P`, for EVERY natural `n` (0, multiples of the order, … included). -/
theorem opt_multiply_refines {b : F} (h2 : (2 : F) ≠ 0) {T : F × F × F} {P : (W b).Point}
    (hT : Represents T P) (n : Nat) : Represents (OptBls.multiply T n) (n • P) := by
  have h := C13.Bls.opt_multiply_toAff h2 T n
  rw [show toAff T = reprRef P from hT, C07.Bls.ref_multiply_refines h2] at h
  exact (Except.ok.inj h).symm

/-- Optimized `eq(p1, p2)` decides equality of the represented Mathlib points (any representatives). -/
theorem opt_eq_refines {b : F} {T₁ T₂ : F × F × F} {P Q : (W b).Point}
    (h₁ : Represents T₁ P) (h₂ : Represents T₂ Q) : OptBls.eq T₁ T₂ = true ↔ P = Q := by
  rw [C13.Bls.opt_eq_iff, show toAff T₁ = reprRef P from h₁, show toAff T₂ = reprRef Q from h₂]
  exact C07.Bls.reprRef_injective.eq_iff

/-- Optimized `is_inf(pt)` (`z == 0`) holds exactly when the represented point is the neutral element. -/
theorem opt_is_inf_refines {b : F} {T : F × F × F} {P : (W b).Point}
    (hT : Represents T P) : OptBls.is_inf T = true ↔ P = 0 := by
  have h : OptBls.is_inf T = true ↔ toAff T = none := by
    simp [OptBls.is_inf, C13.toAff_eq_none_iff]
  rw [h, show toAff T = reprRef P from hT, ← reprRef_zero (b := b)]
  exact C07.Bls.reprRef_injective.eq_iff

/-- Optimized `is_on_curve(pt, b)` accepts exactly the triples that represent a Mathlib point of
    `y² = x³ + b` (for `b ≠ 0`, `2, 3 ≠ 0` every solution of the equation is a nonsingular point). -/
theorem opt_on_curve_represents {b : F} (h2 : (2 : F) ≠ 0) (h3 : (3 : F) ≠ 0) (hb : b ≠ 0)
    (T : F × F × F) :
    OptBls.is_on_curve T b = true ↔ ∃ P : (W b).Point, Represents T P := by
  rw [C13.Bls.opt_is_on_curve_iff, C07.Bls.ref_is_on_curve_iff h2 h3 hb]
  exact ⟨fun ⟨P, h⟩ => ⟨P, h.symm⟩, fun ⟨P, h⟩ => ⟨P, Eq.symm h⟩⟩

/-- The converse direction needs no hypothesis on the field: a triple representing a Mathlib point
    passes `is_on_curve`. -/
theorem opt_on_curve_of_represents {b : F} {T : F × F × F} {P : (W b).Point}
    (hT : Represents T P) : OptBls.is_on_curve T b = true := by
  rw [C13.Bls.opt_is_on_curve_iff, show toAff T = reprRef P from hT, C07.Bls.gen_is_on_curve_iff]
  exact CurveSem.sOn_reprRef P

example : (2 : ℚ) ≠ 0 ∧ (3 : ℚ) ≠ 0 ∧ (1 : ℚ) ≠ 0 := by norm_num

/-- "Reference and optimized modules agree" (headline form): for an on-curve triple the reference
    `multiply` applied to the affine reading returns normally, and returns the affine reading of the
    optimized `multiply`, which represents `n • P`. -/
theorem opt_agrees_with_ref {b : F} (h2 : (2 : F) ≠ 0) (h3 : (3 : F) ≠ 0) (hb : b ≠ 0)
    {T : F × F × F} (hT : OptBls.is_on_curve T b = true) (n : Nat) :
    RefBls.multiply (toAff T) n = .ok (toAff (OptBls.multiply T n))
      ∧ RefBls.is_on_curve (toAff (OptBls.multiply T n)) b = true
      ∧ ∃ P : (W b).Point, Represents T P ∧ Represents (OptBls.multiply T n) (n • P) := by
  obtain ⟨P, hP⟩ := (opt_on_curve_represents h2 h3 hb T).mp hT
  refine ⟨C13.Bls.opt_multiply_toAff h2 T n, ?_, P, hP, opt_multiply_refines h2 hP n⟩
  rw [← C13.Bls.opt_is_on_curve_iff]
  exact opt_on_curve_of_represents (opt_multiply_refines h2 hP n)

/-! ### the group laws, stated directly about the generated optimized code

  Laws that hold for ALL triples (no curve membership, proved from the formulas). -/

/-- Identity: adding any representative `Z` of ∞ (any triple with `z = 0`) on either side returns a
    triple with the same affine reading as `T` — for every triple `T`, on the curve or not. -/
theorem opt_add_zero (T Z : F × F × F) (hZ : Z.2.2 = 0) :
    toAff (OptBls.add T Z) = toAff T ∧ toAff (OptBls.add Z T) = toAff T := by
  constructor
  · simp [OptBls.add, hZ]
  · by_cases hT : T.2.2 = 0
    · simp [OptBls.add, hZ, hT, C13.toAff_of_z_eq_zero]
    · simp [OptBls.add, hZ, hT]

/-- `add(T, Z) = T` literally when `Z` has `z = 0`. -/
theorem opt_add_zero_right (T Z : F × F × F) (hZ : Z.2.2 = 0) : OptBls.add T Z = T := by
  simp [OptBls.add, hZ]

example : ((1 : ℚ), (1 : ℚ), (0 : ℚ)).2.2 = 0 := rfl

/-- `add(T, T)` and `double(T)` have the same affine reading, for every triple `T`. -/
theorem opt_add_self (T : F × F × F) :
    toAff (OptBls.add T T) = toAff (OptBls.double T) := by
  by_cases hT : T.2.2 = 0
  · have hd : (OptBls.double T).2.2 = 0 := by simp [OptBls.double, hT]
    rw [C13.toAff_of_z_eq_zero hd]
    simp [OptBls.add, hT, C13.toAff_of_z_eq_zero]
  · simp [OptBls.add, hT]

/-- `multiply(T, 0)` is ∞, `multiply(T, 1) = T`, `multiply(T, 2) = double(T)` (for every `T`). -/
theorem opt_multiply_small (T : F × F × F) :
    OptBls.is_inf (OptBls.multiply T 0) = true ∧ OptBls.multiply T 1 = T
      ∧ OptBls.multiply T 2 = OptBls.double T := by
  simp [OptBls.multiply, OptBls.multiplyAux, OptBls.is_inf]

/-- Inverse: `add(T, neg(T))` and `add(neg(T), T)` are ∞ (`z = 0`), for EVERY triple `T` (on the curve
    or not; for `y = 0` the doubling branch is taken and also returns `z = 0`). -/
theorem opt_add_neg (h2 : (2 : F) ≠ 0) (T : F × F × F) :
    OptBls.is_inf (OptBls.add T (OptBls.neg T)) = true
      ∧ OptBls.is_inf (OptBls.add (OptBls.neg T) T) = true := by
  have key : ∀ p : Option (F × F), CurveSem.sAdd p (CurveSem.sNeg p) = none
      ∧ CurveSem.sAdd (CurveSem.sNeg p) p = none := by
    intro p
    rcases p with _ | ⟨x, y⟩
    · exact ⟨rfl, rfl⟩
    · by_cases hy : y = 0
      · subst hy; simp [CurveSem.sAdd, CurveSem.sNeg, CurveSem.sDouble]
      · have hne : ¬ (-y = y) := by
          intro h
          have : 2 * y = 0 := by rw [two_mul]; nth_rewrite 1 [← h]; exact neg_add_cancel y
          rcases mul_eq_zero.mp this with h' | h'
          · exact h2 h'
          · exact hy h'
        have hne' : ¬ (y = -y) := fun h => hne h.symm
        simp [CurveSem.sAdd, CurveSem.sNeg, hne, hne']
  have e1 := C13.Bls.opt_add_toAff h2 T (OptBls.neg T)
  have e2 := C13.Bls.opt_add_toAff h2 (OptBls.neg T) T
  rw [C13.Bls.opt_neg_toAff, C07.Bls.gen_neg_eq, C07.Bls.gen_add_eq] at e1 e2
  rw [(key (toAff T)).1] at e1
  rw [(key (toAff T)).2] at e2
  have i1 := (Except.ok.inj e1).symm
  have i2 := (Except.ok.inj e2).symm
  rw [C13.toAff_eq_none_iff] at i1 i2
  simp [OptBls.is_inf, i1, i2]

/-! Laws for on-curve triples (transported from Mathlib's `AddCommGroup (W b).Point`). -/

section laws
variable {b : F} (h2 : (2 : F) ≠ 0) (h3 : (3 : F) ≠ 0) (hb : b ≠ 0)
include h2 h3 hb

/-- Commutativity: for on-curve triples `add(A, B)` and `add(B, A)` are equal projective points
    (same affine reading). -/
theorem opt_add_comm {A B : F × F × F} (hA : OptBls.is_on_curve A b = true)
    (hB : OptBls.is_on_curve B b = true) :
    toAff (OptBls.add A B) = toAff (OptBls.add B A) := by
  obtain ⟨P, hP⟩ := (opt_on_curve_represents h2 h3 hb A).mp hA
  obtain ⟨Q, hQ⟩ := (opt_on_curve_represents h2 h3 hb B).mp hB
  have e1 := opt_add_refines h2 hP hQ
  have e2 := opt_add_refines h2 hQ hP
  rw [add_comm] at e2
  exact Eq.trans e1 (Eq.symm e2)

/-- Associativity: `add(add(A, B), C)` and `add(A, add(B, C))` are equal projective points, for
    on-curve triples (all degenerate configurations included). -/
theorem opt_add_assoc {A B C : F × F × F} (hA : OptBls.is_on_curve A b = true)
    (hB : OptBls.is_on_curve B b = true) (hC : OptBls.is_on_curve C b = true) :
    toAff (OptBls.add (OptBls.add A B) C) = toAff (OptBls.add A (OptBls.add B C)) := by
  obtain ⟨P, hP⟩ := (opt_on_curve_represents h2 h3 hb A).mp hA
  obtain ⟨Q, hQ⟩ := (opt_on_curve_represents h2 h3 hb B).mp hB
  obtain ⟨R, hR⟩ := (opt_on_curve_represents h2 h3 hb C).mp hC
  have e1 := opt_add_refines h2 (opt_add_refines h2 hP hQ) hR
  have e2 := opt_add_refines h2 hP (opt_add_refines h2 hQ hR)
  rw [add_assoc] at e1
  exact Eq.trans e1 (Eq.symm e2)

/-- Closure: `add` of on-curve triples is on the curve. -/
theorem opt_add_closed {A B : F × F × F} (hA : OptBls.is_on_curve A b = true)
    (hB : OptBls.is_on_curve B b = true) : OptBls.is_on_curve (OptBls.add A B) b = true := by
  obtain ⟨P, hP⟩ := (opt_on_curve_represents h2 h3 hb A).mp hA
  obtain ⟨Q, hQ⟩ := (opt_on_curve_represents h2 h3 hb B).mp hB
  exact opt_on_curve_of_represents (opt_add_refines h2 hP hQ)

/-- Closure: `double` of an on-curve triple is on the curve. -/
theorem opt_double_closed {A : F × F × F} (hA : OptBls.is_on_curve A b = true) :
    OptBls.is_on_curve (OptBls.double A) b = true := by
  obtain ⟨P, hP⟩ := (opt_on_curve_represents h2 h3 hb A).mp hA
  exact opt_on_curve_of_represents (opt_double_refines h2 hP)

/-- Closure: `neg` of an on-curve triple is on the curve. -/
theorem opt_neg_closed {A : F × F × F} (hA : OptBls.is_on_curve A b = true) :
    OptBls.is_on_curve (OptBls.neg A) b = true := by
  obtain ⟨P, hP⟩ := (opt_on_curve_represents h2 h3 hb A).mp hA
  exact opt_on_curve_of_represents (opt_neg_refines hP)

/-- Closure: `multiply(A, n)` of an on-curve triple is on the curve, for every `n`. -/
theorem opt_multiply_closed {A : F × F × F} (hA : OptBls.is_on_curve A b = true) (n : Nat) :
    OptBls.is_on_curve (OptBls.multiply A n) b = true := by
  obtain ⟨P, hP⟩ := (opt_on_curve_represents h2 h3 hb A).mp hA
  exact opt_on_curve_of_represents (opt_multiply_refines h2 hP n)

/-- Additivity in the scalar: `multiply(A, m + n)` and `add(multiply(A, m), multiply(A, n))` are equal
    projective points. -/
theorem opt_multiply_add {A : F × F × F} (hA : OptBls.is_on_curve A b = true) (m n : Nat) :
    toAff (OptBls.multiply A (m + n))
      = toAff (OptBls.add (OptBls.multiply A m) (OptBls.multiply A n)) := by
  obtain ⟨P, hP⟩ := (opt_on_curve_represents h2 h3 hb A).mp hA
  have e1 := opt_multiply_refines h2 hP (m + n)
  have e2 := opt_add_refines h2 (opt_multiply_refines h2 hP m) (opt_multiply_refines h2 hP n)
  rw [add_smul] at e1
  exact Eq.trans e1 (Eq.symm e2)

/-- Multiplicativity in the scalar: `multiply(multiply(A, m), n)` and `multiply(A, m * n)` are equal
    projective points. -/
theorem opt_multiply_mul {A : F × F × F} (hA : OptBls.is_on_curve A b = true) (m n : Nat) :
    toAff (OptBls.multiply (OptBls.multiply A m) n) = toAff (OptBls.multiply A (m * n)) := by
  obtain ⟨P, hP⟩ := (opt_on_curve_represents h2 h3 hb A).mp hA
  have e1 := opt_multiply_refines h2 (opt_multiply_refines h2 hP m) n
  have e2 := opt_multiply_refines h2 hP (m * n)
  have hmn : (m * n) • P = n • m • P := by rw [mul_comm, mul_smul]
  rw [hmn] at e2
  exact Eq.trans e1 (Eq.symm e2)

/-- Scalars act modulo the order: if `multiply(A, r)` is ∞ then `multiply(A, n)` and
    `multiply(A, n % r)` are equal projective points, for every `n` (with `r = curve_order` this is
    reduction of scalars mod the group order). -/
theorem opt_multiply_mod {A : F × F × F} (hA : OptBls.is_on_curve A b = true) (r : Nat)
    (hr : OptBls.is_inf (OptBls.multiply A r) = true) (n : Nat) :
    toAff (OptBls.multiply A n) = toAff (OptBls.multiply A (n % r)) := by
  obtain ⟨P, hP⟩ := (opt_on_curve_represents h2 h3 hb A).mp hA
  have hr0 : r • P = 0 := (opt_is_inf_refines (opt_multiply_refines h2 hP r)).mp hr
  have e1 := opt_multiply_refines h2 hP n
  have e2 := opt_multiply_refines h2 hP (n % r)
  have : n • P = (n % r) • P := by
    conv_lhs => rw [← Nat.mod_add_div n r, add_smul, mul_comm, mul_smul, hr0, smul_zero, add_zero]
  rw [this] at e1
  exact Eq.trans e1 (Eq.symm e2)

/-- `multiply(neg(A), n)` and `neg(multiply(A, n))` are equal projective points. -/
theorem opt_multiply_neg {A : F × F × F} (hA : OptBls.is_on_curve A b = true) (n : Nat) :
    toAff (OptBls.multiply (OptBls.neg A) n) = toAff (OptBls.neg (OptBls.multiply A n)) := by
  obtain ⟨P, hP⟩ := (opt_on_curve_represents h2 h3 hb A).mp hA
  have e1 := opt_multiply_refines h2 (opt_neg_refines hP) n
  have e2 := opt_neg_refines (opt_multiply_refines h2 hP n)
  rw [smul_neg] at e1
  exact Eq.trans e1 (Eq.symm e2)

/-! The same laws phrased with the library's own projective equality `eq`. -/

/-- Commutativity up to `eq`. -/
theorem opt_add_comm_eq {A B : F × F × F} (hA : OptBls.is_on_curve A b = true)
    (hB : OptBls.is_on_curve B b = true) :
    OptBls.eq (OptBls.add A B) (OptBls.add B A) = true :=
  (C13.Bls.opt_eq_iff _ _).mpr (opt_add_comm h2 h3 hb hA hB)

/-- Associativity up to `eq`. -/
theorem opt_add_assoc_eq {A B C : F × F × F} (hA : OptBls.is_on_curve A b = true)
    (hB : OptBls.is_on_curve B b = true) (hC : OptBls.is_on_curve C b = true) :
    OptBls.eq (OptBls.add (OptBls.add A B) C) (OptBls.add A (OptBls.add B C)) = true :=
  (C13.Bls.opt_eq_iff _ _).mpr (opt_add_assoc h2 h3 hb hA hB hC)

/-- `multiply(A, m + n)` equals `add(multiply(A, m), multiply(A, n))` up to `eq`. -/
theorem opt_multiply_add_eq {A : F × F × F} (hA : OptBls.is_on_curve A b = true) (m n : Nat) :
    OptBls.eq (OptBls.multiply A (m + n))
      (OptBls.add (OptBls.multiply A m) (OptBls.multiply A n)) = true :=
  (C13.Bls.opt_eq_iff _ _).mpr (opt_multiply_add h2 h3 hb hA m n)

/-- `multiply(multiply(A, m), n)` equals `multiply(A, m * n)` up to `eq`. -/
theorem opt_multiply_mul_eq {A : F × F × F} (hA : OptBls.is_on_curve A b = true) (m n : Nat) :
    OptBls.eq (OptBls.multiply (OptBls.multiply A m) n) (OptBls.multiply A (m * n)) = true :=
  (C13.Bls.opt_eq_iff _ _).mpr (opt_multiply_mul h2 h3 hb hA m n)

/-- `multiply(A, n)` equals `multiply(A, n % r)` up to `eq` whenever `multiply(A, r)` is ∞. -/
theorem opt_multiply_mod_eq {A : F × F × F} (hA : OptBls.is_on_curve A b = true) (r : Nat)
    (hr : OptBls.is_inf (OptBls.multiply A r) = true) (n : Nat) :
    OptBls.eq (OptBls.multiply A n) (OptBls.multiply A (n % r)) = true :=
  (C13.Bls.opt_eq_iff _ _).mpr (opt_multiply_mod h2 h3 hb hA r hr n)

omit h2 h3 hb

/-- Identity up to `eq` (all triples). -/
theorem opt_add_zero_eq (T Z : F × F × F) (hZ : Z.2.2 = 0) :
    OptBls.eq (OptBls.add T Z) T = true ∧ OptBls.eq (OptBls.add Z T) T = true :=
  ⟨(C13.Bls.opt_eq_iff _ _).mpr (opt_add_zero T Z hZ).1,
   (C13.Bls.opt_eq_iff _ _).mpr (opt_add_zero T Z hZ).2⟩

/-- `add(T, T)` equals `double(T)` up to `eq` (all triples). -/
theorem opt_add_self_eq (T : F × F × F) :
    OptBls.eq (OptBls.add T T) (OptBls.double T) = true :=
  (C13.Bls.opt_eq_iff _ _).mpr (opt_add_self T)

/-- `add` is compatible with `eq`: if `eq(A, A') ∧ eq(B, B')` (ANY triples, on the curve or not) then
    `eq(add(A, B), add(A', B'))` — the projective operation is well defined on projective points. -/
theorem opt_add_congr (h2 : (2 : F) ≠ 0) {A A' B B' : F × F × F}
    (hAA : OptBls.eq A A' = true) (hBB : OptBls.eq B B' = true) :
    OptBls.eq (OptBls.add A B) (OptBls.add A' B') = true := by
  rw [C13.Bls.opt_eq_iff] at hAA hBB ⊢
  have e1 := C13.Bls.opt_add_toAff h2 A B
  have e2 := C13.Bls.opt_add_toAff h2 A' B'
  rw [hAA, hBB, e2] at e1
  exact (Except.ok.inj e1).symm

/-- `multiply` is compatible with `eq` in its point argument (ANY triples). -/
theorem opt_multiply_congr (h2 : (2 : F) ≠ 0) {A A' : F × F × F} (hAA : OptBls.eq A A' = true) (n : Nat) :
    OptBls.eq (OptBls.multiply A n) (OptBls.multiply A' n) = true := by
  rw [C13.Bls.opt_eq_iff] at hAA ⊢
  have e1 := C13.Bls.opt_multiply_toAff h2 A n
  have e2 := C13.Bls.opt_multiply_toAff h2 A' n
  rw [hAA, e2] at e1
  exact (Except.ok.inj e1).symm

end laws

/-! ### non-vacuity: the curve `y² = x³ + 1` over `ℚ` with the points `(0, 1)`, `(2, 3)` — given by the
    non-normalised triples `(0, 2, 2)`, `(4, 6, 2)` — and the point `(-1, 0)` of order two -/

example : OptBls.is_on_curve ((0 : ℚ), (2 : ℚ), (2 : ℚ)) 1 = true
    ∧ OptBls.is_on_curve ((4 : ℚ), (6 : ℚ), (2 : ℚ)) 1 = true
    ∧ OptBls.is_on_curve ((-1 : ℚ), (0 : ℚ), (1 : ℚ)) 1 = true := by
  simp [OptBls.is_on_curve, OptBls.is_inf]; norm_num

example : OptBls.is_inf (OptBls.multiply ((-1 : ℚ), (0 : ℚ), (1 : ℚ)) 2) = true := by
  simp [OptBls.multiply, OptBls.multiplyAux, OptBls.double, OptBls.is_inf]

/-- a finite triple really represents a Mathlib point (so `Represents` hypotheses are satisfiable) -/
example : ∃ P : (W (1 : ℚ)).Point, Represents ((4 : ℚ), (6 : ℚ), (2 : ℚ)) P ∧ P ≠ 0 := by
  obtain ⟨P, hP⟩ := (opt_on_curve_represents (b := (1 : ℚ)) (by norm_num) (by norm_num) (by norm_num)
    ((4 : ℚ), (6 : ℚ), (2 : ℚ))).mp (by simp [OptBls.is_on_curve, OptBls.is_inf]; norm_num)
  refine ⟨P, hP, fun h0 => ?_⟩
  have := (opt_is_inf_refines hP).mpr h0
  simp [OptBls.is_inf] at this

/-- the corollaries instantiated at these points (all hypotheses discharged) -/
example : OptBls.eq (OptBls.add ((0 : ℚ), (2 : ℚ), (2 : ℚ)) (4, 6, 2))
    (OptBls.add ((4 : ℚ), (6 : ℚ), (2 : ℚ)) (0, 2, 2)) = true :=
  opt_add_comm_eq (b := 1) (by norm_num) (by norm_num) (by norm_num)
    (by simp [OptBls.is_on_curve, OptBls.is_inf]; norm_num)
    (by simp [OptBls.is_on_curve, OptBls.is_inf]; norm_num)

example (n : Nat) : OptBls.eq (OptBls.multiply ((-1 : ℚ), (0 : ℚ), (1 : ℚ)) n)
    (OptBls.multiply ((-1 : ℚ), (0 : ℚ), (1 : ℚ)) (n % 2)) = true :=
  opt_multiply_mod_eq (b := 1) (by norm_num) (by norm_num) (by norm_num)
    (by simp [OptBls.is_on_curve, OptBls.is_inf]; norm_num) 2
    (by simp [OptBls.multiply, OptBls.multiplyAux, OptBls.double, OptBls.is_inf]) n

end PyEcc.C07Opt.Bls
