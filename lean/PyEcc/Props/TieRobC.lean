/-
  PyEcc.Props.TieRobC — helper lemmas and the closing tactic `tie_close` for the TIE theorems
  (`Props/Tie{Secp,Pairing,Miller,Swu,Cofactor,Codec}.lean`).

  A tie theorem states `Gen.f args = Model.f args`, where `Gen.f` is re-generated from the Python source on every run.
  The cheapest proof, `unfold …; with_reducible rfl`, only survives refactorings of the Python that leave the generated TERM
  unchanged up to renaming / inlining of locals.  `tie_close` tries that first and then falls back to proofs that normalise
  both sides, so that behaviour-preserving reshapings of the source (an early `return` instead of a conditional expression,
  a negated test with swapped branches, a helper call instead of its body, …) do not break the tie, while a real change
  still fails within seconds.
-/
import PyEcc.Model.Ecdsa
import PyEcc.Model.Codec

namespace PyEcc.Tie
open PyEcc

/-- `a ^ 0 == a` for a non-negative Python int (`pyXor` is only meaningful on non-negative ints). -/
theorem pyXor_zero_right {a : Int} (h : 0 ≤ a) : pyXor a 0 = a := by
  unfold pyXor
  simp [Int.toNat_of_nonneg h]

/-- `(y % 2) ^ 0 == y % 2`. -/
theorem pyXor_emod_two_zero (y : Int) : pyXor (y % 2) 0 = y % 2 :=
  pyXor_zero_right (Int.emod_nonneg y (by decide))

/-- a coefficient of an element built by the `FQP` constructor (`ofInts`: every coefficient reduced `% p`) is non-negative -/
theorem getI_ofInts_nonneg {v : Variant} {p : Nat} {mc : List Int} (hp : p ≠ 0) (l : List Int) (i : Nat) :
    0 ≤ getI (Fqp.ofInts (v := v) (p := p) (mc := mc) l).coeffs i := by
  have hp' : (p : Int) ≠ 0 := by exact_mod_cast hp
  unfold Fqp.ofInts getI
  simp only [List.getD_eq_getElem?_getD, List.getElem?_map]
  cases l[i]? <;> simp [Int.emod_nonneg _ hp']

/-- the BLS12-381 field modulus is not zero -/
theorem blsP_ne_zero : blsP ≠ 0 := by decide

/-- `FQ2.__truediv__` ends in the constructor (which reduces every coefficient) -/
theorem F2_div_eq_ofInts (a b : F2) : ∃ l, a / b = Fqp.ofInts l := ⟨_, rfl⟩
/-- `FQ2.__neg__` ends in the constructor -/
theorem F2_neg_eq_ofInts (a : F2) : ∃ l, -a = Fqp.ofInts l := ⟨_, rfl⟩

/-- every coefficient of the square root returned by `modular_squareroot_in_FQ2` is a reduced (non-negative) residue -/
theorem modularSquarerootInFq2_coeff_nonneg {value y : F2} (h : modularSquarerootInFq2 value = some y) (i : Nat) :
    0 ≤ getI y.coeffs i := by
  unfold modularSquarerootInFq2 at h
  simp only at h
  split at h
  · simp only [Option.some.injEq] at h
    subst h
    split
    · obtain ⟨l, hl⟩ := F2_div_eq_ofInts (value ^ ((Gen.Consts.blsconst_FQ2_ORDER + 8) / 16))
        (EIGHTH_ROOTS_OF_UNITY.getD ((EIGHTH_ROOTS_OF_UNITY.findIdx (· == (value ^ ((Gen.Consts.blsconst_FQ2_ORDER + 8) / 16)) ^ 2 / value)) / 2) default)
      rw [hl]; exact getI_ofInts_nonneg blsP_ne_zero _ _
    · obtain ⟨l, hl⟩ := F2_neg_eq_ofInts (value ^ ((Gen.Consts.blsconst_FQ2_ORDER + 8) / 16) /
        (EIGHTH_ROOTS_OF_UNITY.getD ((EIGHTH_ROOTS_OF_UNITY.findIdx (· == (value ^ ((Gen.Consts.blsconst_FQ2_ORDER + 8) / 16)) ^ 2 / value)) / 2) default))
      rw [hl]; exact getI_ofInts_nonneg blsP_ne_zero _ _
  · cases h

/-- `raise` followed by more statements: the rest is dropped.  (Used instead of unfolding `Except.bind`, which would expose
    `match <call> with …` for the real monadic calls and make the elaborator / kernel try to evaluate fuelled recursions.) -/
theorem throw_bind_except {ε α β : Type} (e : ε) (f : α → Except ε β) : (throw e : Except ε α) >>= f = throw e := rfl

/-- the `Except` operations on a value that is already known to be `ok` / `error` (stated as rewriting lemmas: unfolding
    `Except.bind` / `Except.map` themselves would also unfold them at the real monadic calls) -/
theorem ok_bind_except {ε α β : Type} (v : α) (f : α → Except ε β) : (Except.ok v : Except ε α) >>= f = f v := rfl
/-- an exception propagates through the rest of the `do` block -/
theorem error_bind_except {ε α β : Type} (e : ε) (f : α → Except ε β) :
    (Except.error e : Except ε α) >>= f = Except.error e := rfl
/-- `g <$> ok v` -/
theorem map_ok_except {ε α β : Type} (v : α) (g : α → β) : g <$> (Except.ok v : Except ε α) = Except.ok (g v) := rfl
/-- `g <$> error e` -/
theorem map_error_except {ε α β : Type} (e : ε) (g : α → β) : g <$> (Except.error e : Except ε α) = Except.error e := rfl

/-- one step of the case analysis: close by reflexivity, peel a common first monadic action (compared up to reducible
    unfolding only), or split an `if` / `match` (of either side; an `if` with the same condition on both sides is split
    simultaneously) -/
macro "tie_step" : tactic =>
  `(tactic| first
    | with_reducible rfl
    | (with_reducible apply bind_congr) <;> intro _
    | split)

/-- closes a leaf of the case analysis: reflexivity, linear integer arithmetic over the case hypotheses (`omega` treats
    a quotient by a non-literal as an atom), or `simp` with the case hypotheses and the given lemmas -/
syntax "tie_leaf" (" [" Lean.Parser.Tactic.simpLemma,* "]")? : tactic
macro_rules
  | `(tactic| tie_leaf) => `(tactic| tie_leaf [pyXor_emod_two_zero])
  | `(tactic| tie_leaf [$ls,*]) => `(tactic|
      first
      | with_reducible rfl
      | omega
      | (simp [*, $ls,*] <;> omega)
      | (simp_all [$ls,*] <;> omega))

/-- `tie_close [lemmas]` closes `lhs = rhs` for two already unfolded function bodies:
    1. `with_reducible rfl` (same term up to renaming / inlining of `let`s);
    2. `simp only [lemmas]` (unfold the helper definitions / apply the rewriting lemmas given), then `with_reducible rfl`;
    3. the same after flattening the `do` blocks (`raise` drops the rest, `pure x >>= f` is `f x`, the join points of the
       `do` notation are inlined): an early `return` and a conditional expression then have comparable shapes;
    4. case analysis: common monadic calls are peeled, the `if`s and `match`es of both sides are split, every leaf is closed
       by `tie_leaf`. -/
syntax "tie_close" (" [" Lean.Parser.Tactic.simpLemma,* "]")? : tactic
macro_rules
  | `(tactic| tie_close) => `(tactic| tie_close [pyXor_emod_two_zero])
  | `(tactic| tie_close [$ls,*]) => `(tactic|
      first
      | with_reducible rfl
      | (simp only [$ls,*] <;> with_reducible rfl)
      | (simp only [throw_bind_except, pure_bind, $ls,*] <;> with_reducible rfl)
      | ((try simp only [throw_bind_except, pure_bind, $ls,*]) <;> (repeat' tie_step) <;> tie_leaf [$ls,*]))

end PyEcc.Tie
