/-
  PyEcc.Props.C03_Gen — property C03 (**`Aggregate` is the group sum; `AggregateVerify` / `FastAggregateVerify` accept only
  it**) stated DIRECTLY ABOUT THE GENERATED CODE `PyEcc.Gen.ExtraBls.*` (`py_ecc/bls/ciphersuites.py` as translated from the
  repository on this run), with the generated `signature_to_G2` (`Gen.ExtraCodec`) and `hash_to_G2` (`Gen.ExtraSwu`) where a
  statement speaks about decoding or hashing.

  Each theorem is the model theorem of `Props/C03_Logic.lean`, `Props/C03_Proto.lean`, `Props/C01_ProtoModel.lean` rewritten
  with the tie theorems (`Props/TieBls.lean`, `TieBlsAgg.lean`, `TieCodec.lean`, `TieSwu.lean`).  Hypotheses are unchanged:
    * Part 1 (`Aggregate`) and Part 2 (outright rejections) have NO hypothesis;
    * Part 3 (`AggregateVerify`, `FastAggregateVerify`) keeps the ONE named hypothesis `NdSem.ModelBilinearCode` (the code's
      `pairing` is bilinear on subgroup points — `C01.Gen.modelBilinearCode_iff_gen` reads it on the generated `pairing`) and
      honest keys `pkᵢ = SkToPk(skᵢ)`, `1 ≤ skᵢ < curve_order`.

  Specification-side vocabulary (Mathlib objects; no py_ecc function other than the generated ones named):
    `E2`               Mathlib's group of points of the twist curve `y² = x³ + 4(1+i)` over `K2 = F_p[X]/(X²+1)` (its group law
                       needs `[DecidableEq K2]`, which therefore appears in the statements that add points);
    `RepG2 S q`        the triple `S` of `FQ2`s has reduced coefficients and is a projective representative of `q`;
    `EncG2 bs q`       (here) `bs` has 96 bytes and the GENERATED `signature_to_G2(bs)` returns a representative of `q`;
    `HashPt H dst m h` (here) the GENERATED `hash_to_G2(m, dst, H)` returns a representative of `h`;
    `C03.sigSum sks hs`  the point `Σ skᵢ • hᵢ`;  `BlsProto.g1` the point represented by the generator constant `G1`.
-/
import PyEcc.Props.TieBlsAgg
import PyEcc.Props.TieCodec
import PyEcc.Props.TieSwu
import PyEcc.Props.C03_Logic
import PyEcc.Props.C01_ProtoModel

set_option linter.unusedSectionVars false

namespace PyEcc.C03.Gen
open PyEcc PyEcc.Gen.Consts PyEcc.Transfer PyEcc.BlsSem PyEcc.BlsProto PyEcc.NdSem

/-! ## 0. Vocabulary on the generated decoders -/

section
variable [DecidableEq K2]

/-- the 96-byte string `bs` decodes — by the GENERATED `signature_to_G2` — to a canonical representative of the point `q` -/
def EncG2 (bs : Bytes) (q : E2) : Prop :=
  bs.length = 96 ∧ ∃ S, Gen.ExtraCodec.signature_to_G2 bs = .ok S ∧ RepG2 S q

/-- the GENERATED `hash_to_G2(msg, dst, H)` returned a canonical representative of the point `h` -/
def HashPt (H : HashFn) (dst : Bytes) (msg : Bytes) (h : E2) : Prop :=
  ∃ mp, Gen.ExtraSwu.hash_to_G2 msg dst H = .ok mp ∧ RepG2 mp h

/-- bridge: `EncG2` on the generated `signature_to_G2` is the predicate `BlsProto.EncG2` of the model theorems (tie
    `Tie.signature_to_G2_eq`) -/
theorem encG2_eq : EncG2 = BlsProto.EncG2 := by
  funext bs q
  unfold EncG2 BlsProto.EncG2
  rw [Tie.signature_to_G2_eq]

/-- bridge: `HashPt` on the generated `hash_to_G2` is the predicate `BlsProto.HashPt` of the model theorems (tie
    `Tie.hash_to_G2_eq`) -/
theorem hashPt_eq : HashPt = BlsProto.HashPt := by
  funext H dst msg h
  unfold HashPt BlsProto.HashPt
  rw [Tie.hash_to_G2_eq]

/-! ## Part 1: `Aggregate` (no hypotheses) -/

/-- bridge: if `sᵢ` encodes `qᵢ` for every `i`, the model's choice function `decG2` maps the list of strings to the list of
    points -/
theorem map_decG2 {sigs : List Bytes} {qs : List E2} (h : List.Forall₂ BlsProto.EncG2 sigs qs) :
    sigs.map decG2 = qs := by
  induction h with
  | nil => rfl
  | cons a _ ih => rw [List.map_cons, a.decG2_eq, ih]

/-- bridge: every entry of a position-wise encoded list is an encoding -/
theorem enc_of_mem {sigs : List Bytes} {qs : List E2} (h : List.Forall₂ BlsProto.EncG2 sigs qs) :
    ∀ sg ∈ sigs, ∃ q, BlsProto.EncG2 sg q := by
  induction h with
  | nil => intro sg hsg; cases hsg
  | cons a _ ih =>
    intro sg hsg
    rcases List.mem_cons.mp hsg with rfl | hm
    · exact ⟨_, a⟩
    · exact ih sg hm

/-- **The generated `Aggregate` is the group sum.**  For a non-empty list of 96-byte strings `sᵢ` that all decode (generated
    `signature_to_G2`) — `sᵢ` to a representative of the point `qᵢ` — the generated `Aggregate(sigs)` returns the (unique)
    encoding of `Σ qᵢ`, the sum taken in Mathlib's elliptic-curve group. -/
theorem Aggregate_eq_sum (sigs : List Bytes) (qs : List E2) (hne : sigs ≠ [])
    (hall : List.Forall₂ EncG2 sigs qs) :
    ∃ bs, Gen.ExtraBls.Aggregate sigs = .ok bs ∧ EncG2 bs qs.sum := by
  rw [encG2_eq] at hall ⊢
  rw [Tie.Bls.Aggregate_eq, ← map_decG2 hall]
  apply C03.aggregate_eq_sum sigs hne
  intro sg hsg
  obtain ⟨q, hl, S, hS, _⟩ := enc_of_mem hall sg hsg
  exact ⟨hl, S, hS⟩

/-- **Exact characterisation of the generated `Aggregate`**: it returns `bs` iff the list is non-empty, every entry is a
    96-byte string that the generated `signature_to_G2` decodes (to points `qᵢ`), and `bs` is the encoding of `Σ qᵢ`.
    (Everything else raises: `Aggregate_errors`.) -/
theorem Aggregate_ok_iff (sigs : List Bytes) (bs : Bytes) :
    Gen.ExtraBls.Aggregate sigs = .ok bs ↔
      sigs ≠ [] ∧ ∃ qs, List.Forall₂ EncG2 sigs qs ∧ EncG2 bs qs.sum := by
  constructor
  · intro h
    rw [Tie.Bls.Aggregate_eq] at h
    obtain ⟨hne, hall, henc⟩ := (C03.aggregate_ok_iff sigs bs).mp h
    refine ⟨hne, sigs.map decG2, ?_, by rw [encG2_eq]; exact henc⟩
    rw [encG2_eq, List.forall₂_map_right_iff, List.forall₂_same]
    intro sg hsg
    obtain ⟨hl, S, hS⟩ := hall sg hsg
    exact encG2_decG2 hl hS
  · rintro ⟨hne, qs, hall, henc⟩
    obtain ⟨bs', hbs', henc'⟩ := Aggregate_eq_sum sigs qs hne hall
    rw [encG2_eq] at henc henc'
    rw [hbs', henc'.bytes_unique henc]

end

/-- **Order independence of the generated `Aggregate`**, for ALL lists (also those on which it raises: same exception). -/
theorem Aggregate_perm (xs ys : List Bytes) (h : xs.Perm ys) :
    Gen.ExtraBls.Aggregate xs = Gen.ExtraBls.Aggregate ys := by
  classical
  rw [Tie.Bls.Aggregate_eq, Tie.Bls.Aggregate_eq]
  exact C03.aggregate_perm xs ys h

/-- **Grouping independence of the generated `Aggregate`**: if `Aggregate(xs) = a` and `Aggregate(ys) = b` then
    `Aggregate(xs ++ ys) = Aggregate([a, b])`. -/
theorem Aggregate_append (xs ys : List Bytes) (a b : Bytes) (ha : Gen.ExtraBls.Aggregate xs = .ok a)
    (hb : Gen.ExtraBls.Aggregate ys = .ok b) :
    Gen.ExtraBls.Aggregate (xs ++ ys) = Gen.ExtraBls.Aggregate [a, b] := by
  classical
  rw [Tie.Bls.Aggregate_eq] at ha hb ⊢
  rw [Tie.Bls.Aggregate_eq]
  exact C03.aggregate_append xs ys a b ha hb

/-- **Nested aggregation over any grouping** (generated `Aggregate`): aggregating the partial aggregates of the groups gives
    the aggregate of the concatenation. -/
theorem Aggregate_flatten (xss : List (List Bytes)) (parts : List Bytes)
    (h : List.Forall₂ (fun xs a => Gen.ExtraBls.Aggregate xs = .ok a) xss parts) (hne : xss ≠ []) :
    Gen.ExtraBls.Aggregate xss.flatten = Gen.ExtraBls.Aggregate parts := by
  classical
  simp only [Tie.Bls.Aggregate_eq] at h ⊢
  exact C03.aggregate_flatten xss parts h hne

/-- **Error behaviour of the generated `Aggregate`.**
    (1) `Aggregate([])` raises `ValidationError`;
    (2) if any entry — at any position — is not exactly 96 bytes long, `Aggregate` raises `ValidationError` (before decoding
        anything);
    (3) if the list is non-empty, all entries are 96 bytes long and some entry does not decode (the generated
        `signature_to_G2` raises), the `ValueError` of `signature_to_G2` propagates to the caller. -/
theorem Aggregate_errors :
    Gen.ExtraBls.Aggregate [] = .error .validation ∧
    (∀ sigs : List Bytes, (∃ sg ∈ sigs, sg.length ≠ 96) → Gen.ExtraBls.Aggregate sigs = .error .validation) ∧
    (∀ sigs : List Bytes, sigs ≠ [] → (∀ sg ∈ sigs, sg.length = 96) →
      (∃ sg ∈ sigs, ∃ e, Gen.ExtraCodec.signature_to_G2 sg = .error e) →
      Gen.ExtraBls.Aggregate sigs = .error .value) := by
  simp only [Tie.Bls.Aggregate_eq, Tie.signature_to_G2_eq]
  exact C03.aggregate_errors

/-- non-vacuity of (2) and (3): a 95-byte entry; a 96-byte all-zero entry (compression flag clear) -/
example : Gen.ExtraBls.Aggregate [List.replicate 95 0] = .error .validation ∧
    Gen.ExtraBls.Aggregate [List.replicate 96 0] = .error .value := by
  have hbad : ∃ e, Gen.ExtraCodec.signature_to_G2 (List.replicate 96 0) = .error e := by
    rw [Tie.signature_to_G2_eq]
    have h : (match signatureToG2 (List.replicate 96 0) with
      | .error _ => true | .ok _ => false) = true := by decide +kernel
    split at h
    · next e he => exact ⟨e, he⟩
    · cases h
  exact ⟨Aggregate_errors.2.1 _ ⟨_, List.mem_singleton.mpr rfl, by decide⟩,
    Aggregate_errors.2.2 _ (by simp) (by simp) ⟨_, List.mem_singleton.mpr rfl, hbad⟩⟩

/-- non-vacuity of `Aggregate_eq_sum`: the encoding of infinity is a decodable 96-byte string (C04), so the generated
    `Aggregate([inf, inf])` returns -/
example : ∃ bs, Gen.ExtraBls.Aggregate [C04.infSig, C04.infSig] = .ok bs := by
  classical
  obtain ⟨S, hl, hS, _⟩ := C04.infSig_canon
  have henc : BlsProto.EncG2 C04.infSig (decG2 C04.infSig) := encG2_decG2 hl hS
  obtain ⟨bs, h, _⟩ := Aggregate_eq_sum [C04.infSig, C04.infSig] [decG2 C04.infSig, decG2 C04.infSig] (by simp)
    (by rw [encG2_eq]; exact .cons henc (.cons henc .nil))
  exact ⟨bs, h⟩

/-! ## Part 2: inputs on which `AggregateVerify` / `FastAggregateVerify` return `False` outright (no hypotheses) -/

/-- **Inputs on which the generated `AggregateVerify` returns `False` outright** (all three suites, any hash function,
    unconditionally — no exception, no pairing): (1) an empty key list; (2) key and message lists of different lengths; (3) a
    signature that is not 96 bytes long; (4) a key that is not 48 bytes long anywhere in the list. -/
theorem AggregateVerify_false_early (H : HashFn) (s : Suite) (pks msgs : List Bytes) (sig : Bytes)
    (h : pks = [] ∨ pks.length ≠ msgs.length ∨ sig.length ≠ 96 ∨ ∃ pk ∈ pks, pk.length ≠ 48) :
    Gen.ExtraBls.AggregateVerify H s pks msgs sig = .returned false := by
  rw [Tie.Bls.AggregateVerify_eq]
  exact C03.aggregateVerify_false_early H s pks msgs sig h

example (H : HashFn) (s : Suite) (msgs : List Bytes) (sig : Bytes) :
    Gen.ExtraBls.AggregateVerify H s [] msgs sig = .returned false :=
  AggregateVerify_false_early H s [] msgs sig (.inl rfl)

/-- **Basic suite: repeated messages are rejected.**  If the messages are not pairwise distinct, the generated
    `G2Basic.AggregateVerify` (`len(messages) != len(set(messages))`) returns `False` without looking at keys or signature. -/
theorem AggregateVerify_basic_dup (H : HashFn) (pks msgs : List Bytes) (sig : Bytes) (h : ¬ msgs.Nodup) :
    Gen.ExtraBls.AggregateVerify H .basic pks msgs sig = .returned false := by
  rw [Tie.Bls.AggregateVerify_eq]
  exact C03.aggregateVerify_basic_dup H pks msgs sig h

example (H : HashFn) (pks : List Bytes) (m sig : Bytes) :
    Gen.ExtraBls.AggregateVerify H .basic pks [m, m] sig = .returned false :=
  AggregateVerify_basic_dup H pks [m, m] sig (by simp)

/-- **A key failing the generated `KeyValidate` anywhere in the list makes the generated `AggregateVerify` return `False`**
    (all suites), unconditionally. -/
theorem AggregateVerify_badkey_false (H : HashFn) (s : Suite) (pks msgs : List Bytes) (sig : Bytes)
    (h : ∃ pk ∈ pks, Gen.ExtraBls.KeyValidate pk = .ok false) :
    Gen.ExtraBls.AggregateVerify H s pks msgs sig = .returned false := by
  rw [Tie.Bls.AggregateVerify_eq]
  apply C04.aggregateVerify_badkey_false' H s pks msgs sig
  obtain ⟨pk, hpk, hk⟩ := h
  rw [Tie.Bls.KeyValidate_eq] at hk
  exact ⟨pk, hpk, Except.ok.inj hk⟩

/-- non-vacuity: the empty string fails the generated `KeyValidate` -/
example : ∃ pk ∈ [([] : Bytes)], Gen.ExtraBls.KeyValidate pk = .ok false :=
  ⟨[], by simp, by rw [Tie.Bls.KeyValidate_eq]; exact congrArg Except.ok (by decide : keyValidate [] = false)⟩

/-- **The generated `FastAggregateVerify([], m, sig)` is `False`** (the `n < 1` precondition, or before it the
    signature-length check, raises `ValidationError`, which the `except` turns into `False`). -/
theorem FastAggregateVerify_nil (H : HashFn) (m sig : Bytes) :
    Gen.ExtraBls.FastAggregateVerify H [] m sig = .returned false := by
  rw [Tie.Bls.FastAggregateVerify_eq]
  exact C03.fastAggregateVerify_nil H m sig

/-! ## Part 3: `AggregateVerify`, `FastAggregateVerify` (conditional on `ModelBilinearCode` only) -/

section
variable [DecidableEq K2]

/-- **The generated `_CoreAggregateVerify`, in terms of points** (`msgs'` = the messages actually hashed, `dst` any tag).
    Assuming only `ModelBilinearCode`, for honest keys: it returns `True` iff `n ≥ 1`, `|PKs| = |msgs'|`, every message hashes
    (generated `hash_to_G2`) to a point `hᵢ`, and `sig` is the encoding of `Σ skᵢ • hᵢ`. -/
theorem CoreAggregateVerify_iff (mc : ModelBilinearCode) (H : HashFn) (s : Suite) (sks : List ℤ)
    (hsks : ∀ sk ∈ sks, 1 ≤ sk ∧ sk < (suites_curve_order : ℤ)) (pks msgs' : List Bytes) (sig dst : Bytes)
    (hpks : List.Forall₂ (fun sk pk => Gen.ExtraBls.SkToPk (.int sk) = .ok pk) sks pks) :
    Gen.ExtraBls._CoreAggregateVerify H s pks msgs' sig dst = .returned true ↔
      1 ≤ pks.length ∧ pks.length = msgs'.length ∧
        ∃ hs, List.Forall₂ (HashPt H dst) msgs' hs ∧ EncG2 sig (C03.sigSum sks hs) := by
  simp only [Tie.Bls.SkToPk_eq] at hpks
  rw [Tie.Bls.CoreAggregateVerify_eq, encG2_eq, hashPt_eq]
  exact C03.coreAggregateVerify_iff mc.toModelBilinear.toPairingFacts H s sks hsks pks msgs' sig dst hpks

/-- **Two accepted aggregates are equal iff the required sums are equal** (dropping / duplicating / substituting a signer,
    reordering, regrouping …): if `sig` is accepted by the generated `_CoreAggregateVerify` for `(PKs, msgs)` and `sig'` for
    `(PKs', msgs')`, then with `hs`, `hs'` the hash points, `sig = sig' ↔ Σ skᵢ•hᵢ = Σ sk'ᵢ•h'ᵢ`.  Assuming only
    `ModelBilinearCode`. -/
theorem CoreAggregateVerify_accept_eq_iff (mc : ModelBilinearCode) (H : HashFn) (s s' : Suite)
    (sks sks' : List ℤ) (hsks : ∀ sk ∈ sks, 1 ≤ sk ∧ sk < (suites_curve_order : ℤ))
    (hsks' : ∀ sk ∈ sks', 1 ≤ sk ∧ sk < (suites_curve_order : ℤ)) (pks pks' msgs msgs' : List Bytes)
    (sig sig' dst dst' : Bytes)
    (hpks : List.Forall₂ (fun sk pk => Gen.ExtraBls.SkToPk (.int sk) = .ok pk) sks pks)
    (hpks' : List.Forall₂ (fun sk pk => Gen.ExtraBls.SkToPk (.int sk) = .ok pk) sks' pks')
    (h : Gen.ExtraBls._CoreAggregateVerify H s pks msgs sig dst = .returned true)
    (h' : Gen.ExtraBls._CoreAggregateVerify H s' pks' msgs' sig' dst' = .returned true) :
    ∃ hs hs', List.Forall₂ (HashPt H dst) msgs hs ∧ List.Forall₂ (HashPt H dst') msgs' hs' ∧
      (sig = sig' ↔ C03.sigSum sks hs = C03.sigSum sks' hs') := by
  simp only [Tie.Bls.SkToPk_eq] at hpks hpks'
  rw [Tie.Bls.CoreAggregateVerify_eq] at h h'
  rw [hashPt_eq]
  exact C03.coreAggregateVerify_accept_eq_iff mc.toModelBilinear.toPairingFacts H s s' sks sks' hsks hsks' pks pks'
    msgs msgs' sig sig' dst dst' hpks hpks' h h'

/-- **The generated `AggregateVerify`, all three suites, in terms of points.**  Assuming only `ModelBilinearCode`, for honest
    keys `pkᵢ = SkToPk(skᵢ)` (generated), `1 ≤ skᵢ < curve_order`: `AggregateVerify(PKs, msgs, sig) = True` iff `n ≥ 1`,
    `|PKs| = |msgs|`, (basic suite: the messages are pairwise distinct), every hashed message `mᵢ′` (`pkᵢ ‖ mᵢ` in the AUG
    suite, `mᵢ` otherwise) hashes — generated `hash_to_G2` with the class's generated `DST` — to a point `hᵢ`, and `sig` is the
    encoding of `Σ skᵢ • hᵢ`. -/
theorem AggregateVerify_iff (mc : ModelBilinearCode) (H : HashFn) (s : Suite) (sks : List ℤ)
    (hsks : ∀ sk ∈ sks, 1 ≤ sk ∧ sk < (suites_curve_order : ℤ)) (pks msgs : List Bytes) (sig : Bytes)
    (hpks : List.Forall₂ (fun sk pk => Gen.ExtraBls.SkToPk (.int sk) = .ok pk) sks pks) :
    Gen.ExtraBls.AggregateVerify H s pks msgs sig = .returned true ↔
      1 ≤ pks.length ∧ pks.length = msgs.length ∧ (s = .basic → msgs.Nodup) ∧
        ∃ hs, List.Forall₂ (HashPt H (Gen.ExtraBls.DST s)) (vmsgs s pks msgs) hs ∧
          EncG2 sig (C03.sigSum sks hs) := by
  simp only [Tie.Bls.SkToPk_eq] at hpks
  rw [Tie.Bls.AggregateVerify_eq, Tie.Bls.DST_eq, encG2_eq, hashPt_eq]
  exact C03.aggregateVerify_iff mc.toModelBilinear.toPairingFacts H s sks hsks pks msgs sig hpks

/-- **The generated `G2Basic.AggregateVerify`** (`AggregateVerify_iff` for the basic suite, messages as given): `True` iff `n ≥ 1`,
    `|PKs| = |msgs|`, the messages are pairwise distinct, every message hashes (`hᵢ = hash_to_G2(mᵢ)`), and `sig` is the encoding
    of `Σ skᵢ • hᵢ`.  Assuming only `ModelBilinearCode`. -/
theorem AggregateVerify_iff_basic (mc : ModelBilinearCode) (H : HashFn) (sks : List ℤ)
    (hsks : ∀ sk ∈ sks, 1 ≤ sk ∧ sk < (suites_curve_order : ℤ)) (pks msgs : List Bytes) (sig : Bytes)
    (hpks : List.Forall₂ (fun sk pk => Gen.ExtraBls.SkToPk (.int sk) = .ok pk) sks pks) :
    Gen.ExtraBls.AggregateVerify H .basic pks msgs sig = .returned true ↔
      1 ≤ pks.length ∧ pks.length = msgs.length ∧ msgs.Nodup ∧
        ∃ hs, List.Forall₂ (HashPt H (Gen.ExtraBls.DST .basic)) msgs hs ∧ EncG2 sig (C03.sigSum sks hs) := by
  simp only [Tie.Bls.SkToPk_eq] at hpks
  rw [Tie.Bls.AggregateVerify_eq, Tie.Bls.DST_eq, encG2_eq, hashPt_eq]
  exact C03.aggregateVerify_iff_basic mc.toModelBilinear.toPairingFacts H sks hsks pks msgs sig hpks

/-- **The generated `G2MessageAugmentation.AggregateVerify`**: as the basic suite without the distinctness condition, the
    hashed messages being `pkᵢ ‖ mᵢ`.  Assuming only `ModelBilinearCode`. -/
theorem AggregateVerify_iff_aug (mc : ModelBilinearCode) (H : HashFn) (sks : List ℤ)
    (hsks : ∀ sk ∈ sks, 1 ≤ sk ∧ sk < (suites_curve_order : ℤ)) (pks msgs : List Bytes) (sig : Bytes)
    (hpks : List.Forall₂ (fun sk pk => Gen.ExtraBls.SkToPk (.int sk) = .ok pk) sks pks) :
    Gen.ExtraBls.AggregateVerify H .aug pks msgs sig = .returned true ↔
      1 ≤ pks.length ∧ pks.length = msgs.length ∧
        ∃ hs, List.Forall₂ (HashPt H (Gen.ExtraBls.DST .aug)) (List.zipWith (· ++ ·) pks msgs) hs ∧
          EncG2 sig (C03.sigSum sks hs) := by
  simp only [Tie.Bls.SkToPk_eq] at hpks
  rw [Tie.Bls.AggregateVerify_eq, Tie.Bls.DST_eq, encG2_eq, hashPt_eq]
  exact C03.aggregateVerify_iff_aug mc.toModelBilinear.toPairingFacts H sks hsks pks msgs sig hpks

/-- **The generated `G2ProofOfPossession.AggregateVerify`**: no distinctness condition, bare messages.  Assuming only
    `ModelBilinearCode`. -/
theorem AggregateVerify_iff_pop (mc : ModelBilinearCode) (H : HashFn) (sks : List ℤ)
    (hsks : ∀ sk ∈ sks, 1 ≤ sk ∧ sk < (suites_curve_order : ℤ)) (pks msgs : List Bytes) (sig : Bytes)
    (hpks : List.Forall₂ (fun sk pk => Gen.ExtraBls.SkToPk (.int sk) = .ok pk) sks pks) :
    Gen.ExtraBls.AggregateVerify H .pop pks msgs sig = .returned true ↔
      1 ≤ pks.length ∧ pks.length = msgs.length ∧
        ∃ hs, List.Forall₂ (HashPt H (Gen.ExtraBls.DST .pop)) msgs hs ∧ EncG2 sig (C03.sigSum sks hs) := by
  simp only [Tie.Bls.SkToPk_eq] at hpks
  rw [Tie.Bls.AggregateVerify_eq, Tie.Bls.DST_eq, encG2_eq, hashPt_eq]
  exact C03.aggregateVerify_iff_pop mc.toModelBilinear.toPairingFacts H sks hsks pks msgs sig hpks

/-- **The generated `FastAggregateVerify`** (POP suite, one shared message), in terms of points.  Assuming only
    `ModelBilinearCode`, for honest keys: it returns `True` iff the list is non-empty, **the aggregate key `Σ pkᵢ = Σ skᵢ • g1`
    is not the identity** (so e.g. the key pair `sk`, `r − sk` is rejected although the signature equals the sum), the message
    hashes (generated `hash_to_G2`, generated `DST` of the POP class) to `h`, and `sig` is the encoding of `(Σ skᵢ) • h`. -/
theorem FastAggregateVerify_iff (mc : ModelBilinearCode) (H : HashFn) (sks : List ℤ)
    (hsks : ∀ sk ∈ sks, 1 ≤ sk ∧ sk < (suites_curve_order : ℤ)) (pks : List Bytes) (msg sig : Bytes)
    (hpks : List.Forall₂ (fun sk pk => Gen.ExtraBls.SkToPk (.int sk) = .ok pk) sks pks) :
    Gen.ExtraBls.FastAggregateVerify H pks msg sig = .returned true ↔
      1 ≤ pks.length ∧ ((sks.map Int.toNat).map fun k => k • g1).sum ≠ 0 ∧
        ∃ h, HashPt H (Gen.ExtraBls.DST .pop) msg h ∧ EncG2 sig ((sks.map Int.toNat).sum • h) := by
  simp only [Tie.Bls.SkToPk_eq] at hpks
  rw [Tie.Bls.FastAggregateVerify_eq, Tie.Bls.DST_eq, encG2_eq, hashPt_eq]
  exact C03.fastAggregateVerify_iff mc.toModelBilinear.toPairingFacts H sks hsks pks msg sig hpks

end

/-- **The generated `AggregateVerify` accepts exactly the generated `Aggregate` of the honest generated signatures** (all
    suites, entirely in terms of the library's own functions as translated).  Assuming only `ModelBilinearCode`, for secret keys
    `1 ≤ skᵢ < curve_order` with `pkᵢ = SkToPk(skᵢ)`: `AggregateVerify(PKs, msgs, sig) = True` iff `n ≥ 1`, `|PKs| = |msgs|`,
    (basic suite: messages pairwise distinct) and there are byte strings `sigᵢ = Sign(skᵢ, mᵢ)` with
    `Aggregate([sig₁, …, sigₙ]) = sig`. -/
theorem AggregateVerify_iff_aggregate_sign (mc : ModelBilinearCode) (H : HashFn) (s : Suite) (sks : List ℤ)
    (hsks : ∀ sk ∈ sks, 1 ≤ sk ∧ sk < (suites_curve_order : ℤ)) (pks msgs : List Bytes) (sig : Bytes)
    (hpks : List.Forall₂ (fun sk pk => Gen.ExtraBls.SkToPk (.int sk) = .ok pk) sks pks) :
    Gen.ExtraBls.AggregateVerify H s pks msgs sig = .returned true ↔
      1 ≤ pks.length ∧ pks.length = msgs.length ∧ (s = .basic → msgs.Nodup) ∧
        ∃ sigs, List.Forall₂ (fun (x : ℤ × Bytes) sg => Gen.ExtraBls.Sign H s (.int x.1) x.2 = .ok sg)
          (sks.zip msgs) sigs ∧ Gen.ExtraBls.Aggregate sigs = .ok sig := by
  classical
  simp only [Tie.Bls.SkToPk_eq] at hpks
  simp only [Tie.Bls.AggregateVerify_eq, Tie.Bls.Sign_eq, Tie.Bls.Aggregate_eq]
  exact C03.aggregateVerify_iff_aggregate_sign_of_modelBilinearCode mc H s sks hsks pks msgs sig hpks

/-- **The generated `FastAggregateVerify` accepts exactly the generated `Aggregate` of the honest generated signatures of the
    shared message**, provided the aggregate key is not the identity (`r ∤ Σ skᵢ`; conjunct kept visible).  Assuming only
    `ModelBilinearCode`. -/
theorem FastAggregateVerify_iff_aggregate_sign (mc : ModelBilinearCode) (H : HashFn) (sks : List ℤ)
    (hsks : ∀ sk ∈ sks, 1 ≤ sk ∧ sk < (suites_curve_order : ℤ)) (pks : List Bytes) (msg sig : Bytes)
    (hpks : List.Forall₂ (fun sk pk => Gen.ExtraBls.SkToPk (.int sk) = .ok pk) sks pks) :
    Gen.ExtraBls.FastAggregateVerify H pks msg sig = .returned true ↔
      1 ≤ pks.length ∧ ¬ (blsR ∣ (sks.map Int.toNat).sum) ∧
        ∃ sigs, List.Forall₂ (fun sk sg => Gen.ExtraBls.Sign H .pop (.int sk) msg = .ok sg) sks sigs ∧
          Gen.ExtraBls.Aggregate sigs = .ok sig := by
  classical
  simp only [Tie.Bls.SkToPk_eq] at hpks
  simp only [Tie.Bls.FastAggregateVerify_eq, Tie.Bls.Sign_eq, Tie.Bls.Aggregate_eq]
  exact C03.fastAggregateVerify_iff_aggregate_sign_of_modelBilinearCode mc H sks hsks pks msg sig hpks

/-- **Order independence of the generated `AggregateVerify`** (all suites): permuting the signers — the `(secret key, message)`
    pairs, with their public keys — does not change whether `sig` is accepted.  Assuming only `ModelBilinearCode`. -/
theorem AggregateVerify_perm (mc : ModelBilinearCode) (H : HashFn) (s : Suite) (l l' : List (ℤ × Bytes))
    (hp : l.Perm l') (hsks : ∀ x ∈ l, 1 ≤ x.1 ∧ x.1 < (suites_curve_order : ℤ)) (pks pks' : List Bytes)
    (sig : Bytes)
    (hpks : List.Forall₂ (fun (x : ℤ × Bytes) pk => Gen.ExtraBls.SkToPk (.int x.1) = .ok pk) l pks)
    (hpks' : List.Forall₂ (fun (x : ℤ × Bytes) pk => Gen.ExtraBls.SkToPk (.int x.1) = .ok pk) l' pks') :
    Gen.ExtraBls.AggregateVerify H s pks (l.map (·.2)) sig = .returned true ↔
      Gen.ExtraBls.AggregateVerify H s pks' (l'.map (·.2)) sig = .returned true := by
  classical
  simp only [Tie.Bls.SkToPk_eq] at hpks hpks'
  rw [Tie.Bls.AggregateVerify_eq, Tie.Bls.AggregateVerify_eq]
  exact C03.aggregateVerify_perm_of_modelBilinear mc.toModelBilinear H s l l' hp hsks pks pks' sig hpks hpks'

/-- non-vacuity of the key hypotheses: the one-element key list `[1]` with the generated `SkToPk(1)` = compressed generator.
    (`ModelBilinearCode` is a closed mathematical statement — its instance would be its proof.) -/
example : (∀ sk ∈ [(1 : ℤ)], 1 ≤ sk ∧ sk < (suites_curve_order : ℤ)) ∧
    List.Forall₂ (fun sk pk => Gen.ExtraBls.SkToPk (.int sk) = .ok pk) [(1 : ℤ)] [C09.compressedG1] :=
  ⟨by intro sk h; rw [List.mem_singleton] at h; subst h; decide,
   .cons (by rw [Tie.Bls.SkToPk_eq]; exact C09.skToPk_one) .nil⟩

end PyEcc.C03.Gen
