/-
  PyEcc.Props.C03_Proto — property C03, headline clauses: **`Aggregate` is the group sum, and
  `AggregateVerify` / `FastAggregateVerify` accept only it** (`py_ecc/bls/ciphersuites.py`).

  Part 1 (`Aggregate`) needs NO hypothesis: it rests on C09 / C03_Logic (control flow), C11 (codec) and the
  transfer of the curve code to Mathlib's group (associativity and commutativity come from there).
  Part 2 (`AggregateVerify`, `FastAggregateVerify`) is conditional on `PairingFacts e` only — HB1
  bilinearity, ND non-degeneracy, HB1′ "the model's Miller value after final exponentiation is that
  pairing", HT6 "`hash_to_G2` lands in the `r`-torsion" (`Lemmas/BlsProto.lean`; a hypothesis, not an
  axiom; a closed statement, hence no `example` of it).

  Vocabulary (`Lemmas/BlsProtoCodec.lean`, `Lemmas/BlsProtoAgg.lean`):
    `E2`            Mathlib's group of points of the twist curve over `K2 = F_p[X]/(X²+1)`;
    `EncG2 bs q`    the 96-byte string `bs` decodes (`signature_to_G2`) to a canonical representative of `q`;
                    every point has at most one encoding and every string encodes at most one point;
    `decG2 bs`      the point a decodable 96-byte string encodes;
    `HashPt H dst m h`  `hash_to_G2(m, dst)` returned a canonical representative of the point `h`;
    `g1`            the point represented by the generator constant `G1`;
    `vmsgs s pks msgs`  the messages actually hashed (`pkᵢ ‖ mᵢ` in the AUG suite, `mᵢ` otherwise).

  The hypothesis-free rejection cases (empty lists, length mismatch, repeated messages in the basic suite,
  bad keys) are in `Props/C03_Logic.lean`.
-/
import PyEcc.Lemmas.BlsProtoAgg
import PyEcc.Lemmas.BlsProtoMiller
import PyEcc.Props.C09

set_option linter.unusedSectionVars false

namespace PyEcc.C03
open PyEcc PyEcc.Gen PyEcc.Gen.Consts PyEcc.Transfer PyEcc.BlsSem PyEcc.BlsProto

variable [DecidableEq K2]

/-! ## Part 1: `Aggregate` (no hypotheses) -/

/-- **`Aggregate` is the group sum.**  For a non-empty list of 96-byte strings that all decode,
    `Aggregate(sigs)` returns the (unique) encoding of `Σ decode(sᵢ)`, the sum taken in Mathlib's
    elliptic-curve group. -/
theorem aggregate_eq_sum (sigs : List Bytes) (hne : sigs ≠ [])
    (hall : ∀ sg ∈ sigs, sg.length = 96 ∧ ∃ S, signatureToG2 sg = .ok S) :
    ∃ bs, aggregate sigs = .ok bs ∧ EncG2 bs (sigs.map decG2).sum :=
  aggregate_enc hne hall

/-- **Exact characterisation**: `Aggregate(sigs)` returns `bs` iff the list is non-empty, every entry is a
    decodable 96-byte string, and `bs` is the encoding of the sum of the decoded points.  (Everything else
    raises: `aggregate_errors` in `C03_Logic`.) -/
theorem aggregate_ok_iff (sigs : List Bytes) (bs : Bytes) :
    aggregate sigs = .ok bs ↔
      sigs ≠ [] ∧ (∀ sg ∈ sigs, sg.length = 96 ∧ ∃ S, signatureToG2 sg = .ok S) ∧
        EncG2 bs (sigs.map decG2).sum :=
  aggregate_ok_iff_enc sigs bs

/-- **Order independence**, for ALL lists (also those on which `Aggregate` raises: same exception). -/
theorem aggregate_perm (xs ys : List Bytes) (h : xs.Perm ys) : aggregate xs = aggregate ys :=
  aggregate_perm' h

/-- **Grouping independence**: if `Aggregate(xs) = a` and `Aggregate(ys) = b` then
    `Aggregate(xs ++ ys) = Aggregate([a, b])`. -/
theorem aggregate_append (xs ys : List Bytes) (a b : Bytes) (ha : aggregate xs = .ok a)
    (hb : aggregate ys = .ok b) : aggregate (xs ++ ys) = aggregate [a, b] := by
  have := aggregate_flatten' (xss := [xs, ys]) (parts := [a, b]) (.cons ha (.cons hb .nil)) (by simp)
  simpa using this

/-- **Nested aggregation over any grouping**: aggregating the partial aggregates of the groups gives the
    aggregate of the concatenation. -/
theorem aggregate_flatten (xss : List (List Bytes)) (parts : List Bytes)
    (h : List.Forall₂ (fun xs a => aggregate xs = .ok a) xss parts) (hne : xss ≠ []) :
    aggregate xss.flatten = aggregate parts :=
  aggregate_flatten' h hne

/-- non-vacuity: the encoding of infinity is a decodable 96-byte string (C04), so
    `Aggregate([inf, inf])` is covered by `aggregate_eq_sum` -/
example : ∃ bs, aggregate [C04.infSig, C04.infSig] = .ok bs := by
  obtain ⟨S, hl, hS, _⟩ := C04.infSig_canon
  obtain ⟨bs, h, _⟩ := aggregate_eq_sum [C04.infSig, C04.infSig] (by simp)
    (by intro sg hsg; simp only [List.mem_cons, List.not_mem_nil, or_false, or_self] at hsg
        subst hsg; exact ⟨hl, S, hS⟩)
  exact ⟨bs, h⟩

/-! ## Part 2: `AggregateVerify`, `FastAggregateVerify` (conditional on `PairingFacts`) -/

variable {GT : Type} [CommGroup GT] {e : E2 → E1 → GT}

/-- the required aggregate point `Σ skᵢ • hᵢ` -/
noncomputable def sigSum (sks : List ℤ) (hs : List E2) : E2 :=
  ((List.zip (sks.map Int.toNat) hs).map fun x => x.1 • x.2).sum

/-- **`_CoreAggregateVerify`-level statement, all suites** (`msgs'` = the messages actually hashed). -/
theorem coreAggregateVerify_iff (pf : PairingFacts e) (H : HashFn) (s : Suite) (sks : List ℤ)
    (hsks : ∀ sk ∈ sks, 1 ≤ sk ∧ sk < (curveOrder : ℤ)) (pks msgs' : List Bytes) (sig dst : Bytes)
    (hpks : List.Forall₂ (fun sk pk => skToPk (.int sk) = .ok pk) sks pks) :
    coreAggregateVerify H s pks msgs' sig dst = .returned true ↔
      1 ≤ pks.length ∧ pks.length = msgs'.length ∧
        ∃ hs, List.Forall₂ (HashPt H dst) msgs' hs ∧ EncG2 sig (sigSum sks hs) :=
  coreAggregateVerify_iff_enc pf H s (keyOf_list hsks hpks) msgs' sig dst

/-- **`AggregateVerify`, basic suite.**  For honest keys `pkᵢ = SkToPk(skᵢ)`, `1 ≤ skᵢ < r`:
    `AggregateVerify(PKs, msgs, sig) = True` iff `n ≥ 1`, `|PKs| = |msgs|`, the messages are pairwise
    distinct, every message hashes (`hᵢ = hash_to_G2(mᵢ)`), and `sig` is the encoding of `Σ skᵢ • hᵢ`. -/
theorem aggregateVerify_iff_basic (pf : PairingFacts e) (H : HashFn) (sks : List ℤ)
    (hsks : ∀ sk ∈ sks, 1 ≤ sk ∧ sk < (curveOrder : ℤ)) (pks msgs : List Bytes) (sig : Bytes)
    (hpks : List.Forall₂ (fun sk pk => skToPk (.int sk) = .ok pk) sks pks) :
    aggregateVerify H .basic pks msgs sig = .returned true ↔
      1 ≤ pks.length ∧ pks.length = msgs.length ∧ msgs.Nodup ∧
        ∃ hs, List.Forall₂ (HashPt H (Suite.dst .basic)) msgs hs ∧ EncG2 sig (sigSum sks hs) := by
  unfold aggregateVerify
  simp only
  by_cases hd : hasDup msgs = true
  · have hn : ¬ msgs.Nodup := (hasDup_iff_not_nodup msgs).mp hd
    simp only [hd, ↓reduceIte]
    constructor
    · intro h; cases h
    · rintro ⟨_, _, h, _⟩; exact (hn h).elim
  · have hn : msgs.Nodup := by
      by_contra h; exact hd ((hasDup_iff_not_nodup msgs).mpr h)
    simp only [hd, Bool.false_eq_true, ↓reduceIte]
    rw [coreAggregateVerify_iff pf H .basic sks hsks pks msgs sig _ hpks]
    exact ⟨fun ⟨a, b, c⟩ => ⟨a, b, hn, c⟩, fun ⟨a, b, _, c⟩ => ⟨a, b, c⟩⟩

/-- **`AggregateVerify`, message-augmentation suite**: as the basic suite without the distinctness
    condition, the hashed messages being `pkᵢ ‖ mᵢ`. -/
theorem aggregateVerify_iff_aug (pf : PairingFacts e) (H : HashFn) (sks : List ℤ)
    (hsks : ∀ sk ∈ sks, 1 ≤ sk ∧ sk < (curveOrder : ℤ)) (pks msgs : List Bytes) (sig : Bytes)
    (hpks : List.Forall₂ (fun sk pk => skToPk (.int sk) = .ok pk) sks pks) :
    aggregateVerify H .aug pks msgs sig = .returned true ↔
      1 ≤ pks.length ∧ pks.length = msgs.length ∧
        ∃ hs, List.Forall₂ (HashPt H (Suite.dst .aug)) (List.zipWith (· ++ ·) pks msgs) hs ∧
          EncG2 sig (sigSum sks hs) := by
  unfold aggregateVerify
  simp only
  by_cases hl : pks.length = msgs.length
  · rw [if_neg (not_not.mpr hl)]
    rw [coreAggregateVerify_iff pf H .aug sks hsks pks _ sig _ hpks]
    have : (List.zipWith (· ++ ·) pks msgs).length = msgs.length := by simp [hl]
    rw [this]
  · rw [if_pos hl]
    constructor
    · intro h; cases h
    · rintro ⟨_, h, _⟩; exact (hl h).elim

/-- **`AggregateVerify`, proof-of-possession suite**: no distinctness condition, bare messages. -/
theorem aggregateVerify_iff_pop (pf : PairingFacts e) (H : HashFn) (sks : List ℤ)
    (hsks : ∀ sk ∈ sks, 1 ≤ sk ∧ sk < (curveOrder : ℤ)) (pks msgs : List Bytes) (sig : Bytes)
    (hpks : List.Forall₂ (fun sk pk => skToPk (.int sk) = .ok pk) sks pks) :
    aggregateVerify H .pop pks msgs sig = .returned true ↔
      1 ≤ pks.length ∧ pks.length = msgs.length ∧
        ∃ hs, List.Forall₂ (HashPt H (Suite.dst .pop)) msgs hs ∧ EncG2 sig (sigSum sks hs) :=
  coreAggregateVerify_iff pf H .pop sks hsks pks msgs sig _ hpks

/-- the three suites in one statement (`vmsgs` = the hashed messages) -/
theorem aggregateVerify_iff (pf : PairingFacts e) (H : HashFn) (s : Suite) (sks : List ℤ)
    (hsks : ∀ sk ∈ sks, 1 ≤ sk ∧ sk < (curveOrder : ℤ)) (pks msgs : List Bytes) (sig : Bytes)
    (hpks : List.Forall₂ (fun sk pk => skToPk (.int sk) = .ok pk) sks pks) :
    aggregateVerify H s pks msgs sig = .returned true ↔
      1 ≤ pks.length ∧ pks.length = msgs.length ∧ (s = .basic → msgs.Nodup) ∧
        ∃ hs, List.Forall₂ (HashPt H s.dst) (vmsgs s pks msgs) hs ∧ EncG2 sig (sigSum sks hs) := by
  cases s with
  | basic =>
    rw [aggregateVerify_iff_basic pf H sks hsks pks msgs sig hpks]
    exact ⟨fun ⟨a, b, c, d⟩ => ⟨a, b, fun _ => c, d⟩, fun ⟨a, b, c, d⟩ => ⟨a, b, c rfl, d⟩⟩
  | aug =>
    rw [aggregateVerify_iff_aug pf H sks hsks pks msgs sig hpks]
    exact ⟨fun ⟨a, b, d⟩ => ⟨a, b, (by intro h; cases h), d⟩, fun ⟨a, b, _, d⟩ => ⟨a, b, d⟩⟩
  | pop =>
    rw [aggregateVerify_iff_pop pf H sks hsks pks msgs sig hpks]
    exact ⟨fun ⟨a, b, d⟩ => ⟨a, b, (by intro h; cases h), d⟩, fun ⟨a, b, _, d⟩ => ⟨a, b, d⟩⟩

/-- **`AggregateVerify` accepts exactly `Aggregate` of the honest signatures** (all suites, entirely in terms
    of the library's own functions): `AggregateVerify(PKs, msgs, sig) = True` iff `n ≥ 1`, `|PKs| = |msgs|`,
    (basic suite: messages pairwise distinct) and there are byte strings `sigᵢ = Sign(skᵢ, mᵢ)` with
    `Aggregate([sig₁, …, sigₙ]) = sig`. -/
theorem aggregateVerify_iff_aggregate_sign (pf : PairingFacts e) (H : HashFn) (s : Suite) (sks : List ℤ)
    (hsks : ∀ sk ∈ sks, 1 ≤ sk ∧ sk < (curveOrder : ℤ)) (pks msgs : List Bytes) (sig : Bytes)
    (hpks : List.Forall₂ (fun sk pk => skToPk (.int sk) = .ok pk) sks pks) :
    aggregateVerify H s pks msgs sig = .returned true ↔
      1 ≤ pks.length ∧ pks.length = msgs.length ∧ (s = .basic → msgs.Nodup) ∧
        ∃ sigs, List.Forall₂ (fun (x : ℤ × Bytes) sg => sign H s (.int x.1) x.2 = .ok sg)
          (sks.zip msgs) sigs ∧ aggregate sigs = .ok sig := by
  rw [aggregateVerify_iff pf H s sks hsks pks msgs sig hpks]
  have hlen : sks.length = pks.length := hpks.length_eq
  constructor
  · rintro ⟨a, b, c, d⟩
    refine ⟨a, b, c, ?_⟩
    have hl : (sks.map PyArg.int).length = (vmsgs s pks msgs).length := by
      rw [List.length_map, vmsgs_length s b, hlen, b]
    obtain ⟨sigs, h1, h2⟩ := (agg_sign_iff_enc pf (valid_list hsks) (vmsgs s pks msgs) hl
      (by rw [List.length_map]; omega) sig).mpr d
    exact ⟨sigs, (signs_iff_coreSigns H s hpks msgs sigs).mpr h1, h2⟩
  · rintro ⟨a, b, c, sigs, h1, h2⟩
    refine ⟨a, b, c, ?_⟩
    have hl : (sks.map PyArg.int).length = (vmsgs s pks msgs).length := by
      rw [List.length_map, vmsgs_length s b, hlen, b]
    exact (agg_sign_iff_enc pf (valid_list hsks) (vmsgs s pks msgs) hl
      (by rw [List.length_map]; omega) sig).mp
      ⟨sigs, (signs_iff_coreSigns H s hpks msgs sigs).mp h1, h2⟩

/-- **The aggregate public-key point** `Σ pkᵢ = (Σ skᵢ) • g1` is the identity iff `r ∣ Σ skᵢ` (e.g. the two
    keys `sk`, `r − sk`). -/
theorem pk_sum_eq_zero_iff (ks : List ℕ) : (ks.map fun k => k • g1).sum = 0 ↔ blsR ∣ ks.sum := by
  rw [pk_sum]
  constructor
  · intro h
    have h' : ks.sum • g1 = 0 • g1 := by rw [h, zero_smul]
    exact (Nat.modEq_zero_iff_dvd).mp
      ((BlsAbs.nsmul_eq_nsmul_iff prime_r g1_torsion g1_ne_zero _ 0).mp h')
  · rintro ⟨c, hc⟩
    rw [hc, mul_comm, mul_smul, g1_torsion, smul_zero]

/-- **`FastAggregateVerify`** (POP suite, one shared message).  For honest keys: it returns `True` iff the
    list is non-empty, **the aggregate key `Σ pkᵢ` is not the identity** (IETF: `KeyValidate` of the aggregate
    key — so e.g. the key pair `sk`, `r − sk` is rejected although the signature equals the sum), the
    message hashes to `h`, and `sig` is the encoding of `(Σ skᵢ) • h = Σ skᵢ • h`. -/
theorem fastAggregateVerify_iff (pf : PairingFacts e) (H : HashFn) (sks : List ℤ)
    (hsks : ∀ sk ∈ sks, 1 ≤ sk ∧ sk < (curveOrder : ℤ)) (pks : List Bytes) (msg sig : Bytes)
    (hpks : List.Forall₂ (fun sk pk => skToPk (.int sk) = .ok pk) sks pks) :
    fastAggregateVerify H pks msg sig = .returned true ↔
      1 ≤ pks.length ∧ ((sks.map Int.toNat).map fun k => k • g1).sum ≠ 0 ∧
        ∃ h, HashPt H (Suite.dst .pop) msg h ∧ EncG2 sig ((sks.map Int.toNat).sum • h) := by
  rw [pk_sum]
  exact fastAggregateVerify_iff_enc pf H (keyOf_list hsks hpks) msg sig

/-- **`FastAggregateVerify` accepts exactly `Aggregate` of the honest signatures of the shared message**,
    provided the aggregate key is not the identity (conjunct kept visible). -/
theorem fastAggregateVerify_iff_aggregate_sign (pf : PairingFacts e) (H : HashFn) (sks : List ℤ)
    (hsks : ∀ sk ∈ sks, 1 ≤ sk ∧ sk < (curveOrder : ℤ)) (pks : List Bytes) (msg sig : Bytes)
    (hpks : List.Forall₂ (fun sk pk => skToPk (.int sk) = .ok pk) sks pks) :
    fastAggregateVerify H pks msg sig = .returned true ↔
      1 ≤ pks.length ∧ ¬ (blsR ∣ (sks.map Int.toNat).sum) ∧
        ∃ sigs, List.Forall₂ (fun sk sg => sign H .pop (.int sk) msg = .ok sg) sks sigs ∧
          aggregate sigs = .ok sig := by
  rw [fastAggregateVerify_iff pf H sks hsks pks msg sig hpks, Ne, pk_sum_eq_zero_iff]
  have hlen : sks.length = pks.length := hpks.length_eq
  have hconv : ∀ sigs : List Bytes,
      List.Forall₂ (fun sk sg => sign H .pop (.int sk) msg = .ok sg) sks sigs ↔
      List.Forall₂ (fun sk sg => coreSign H sk msg (Suite.dst .pop) = .ok sg) (sks.map PyArg.int) sigs := by
    intro sigs
    rw [List.forall₂_map_left_iff]
    rfl
  constructor
  · rintro ⟨a, b, c⟩
    refine ⟨a, b, ?_⟩
    obtain ⟨sigs, h1, h2⟩ := (fast_sign_iff_enc pf (valid_list hsks)
      (by intro h0; rw [List.map_eq_nil_iff] at h0; subst h0; simp at hlen; omega) msg sig).mpr c
    exact ⟨sigs, (hconv sigs).mpr h1, h2⟩
  · rintro ⟨a, b, sigs, h1, h2⟩
    refine ⟨a, b, ?_⟩
    exact (fast_sign_iff_enc pf (valid_list hsks)
      (by intro h0; rw [List.map_eq_nil_iff] at h0; subst h0; simp at hlen; omega) msg sig).mp
      ⟨sigs, (hconv sigs).mp h1, h2⟩

/-! ### perturbations -/

/-- **Two accepted aggregates are equal iff the required sums are equal** (dropping / duplicating /
    substituting a signer, reordering, regrouping …): if `sig` is accepted for `(PKs, msgs)` and `sig'`
    for `(PKs', msgs')`, then with `hs`, `hs'` the hash points, `sig = sig' ↔ Σ skᵢ•hᵢ = Σ sk'ᵢ•h'ᵢ`. -/
theorem coreAggregateVerify_accept_eq_iff (pf : PairingFacts e) (H : HashFn) (s s' : Suite)
    (sks sks' : List ℤ) (hsks : ∀ sk ∈ sks, 1 ≤ sk ∧ sk < (curveOrder : ℤ))
    (hsks' : ∀ sk ∈ sks', 1 ≤ sk ∧ sk < (curveOrder : ℤ)) (pks pks' msgs msgs' : List Bytes)
    (sig sig' dst dst' : Bytes)
    (hpks : List.Forall₂ (fun sk pk => skToPk (.int sk) = .ok pk) sks pks)
    (hpks' : List.Forall₂ (fun sk pk => skToPk (.int sk) = .ok pk) sks' pks')
    (h : coreAggregateVerify H s pks msgs sig dst = .returned true)
    (h' : coreAggregateVerify H s' pks' msgs' sig' dst' = .returned true) :
    ∃ hs hs', List.Forall₂ (HashPt H dst) msgs hs ∧ List.Forall₂ (HashPt H dst') msgs' hs' ∧
      (sig = sig' ↔ sigSum sks hs = sigSum sks' hs') := by
  obtain ⟨_, _, hs, hh, enc⟩ := (coreAggregateVerify_iff pf H s sks hsks pks msgs sig dst hpks).mp h
  obtain ⟨_, _, hs', hh', enc'⟩ :=
    (coreAggregateVerify_iff pf H s' sks' hsks' pks' msgs' sig' dst' hpks').mp h'
  exact ⟨hs, hs', hh, hh', encG2_eq_iff enc enc'⟩

/-- **Order independence of `AggregateVerify`** (all suites): permuting the signers — the
    `(secret key, message)` pairs, with their public keys — does not change whether `sig` is accepted. -/
theorem aggregateVerify_perm (pf : PairingFacts e) (H : HashFn) (s : Suite) (l l' : List (ℤ × Bytes))
    (hp : l.Perm l') (hsks : ∀ x ∈ l, 1 ≤ x.1 ∧ x.1 < (curveOrder : ℤ)) (pks pks' : List Bytes)
    (sig : Bytes) (hpks : List.Forall₂ (fun (x : ℤ × Bytes) pk => skToPk (.int x.1) = .ok pk) l pks)
    (hpks' : List.Forall₂ (fun (x : ℤ × Bytes) pk => skToPk (.int x.1) = .ok pk) l' pks') :
    aggregateVerify H s pks (l.map (·.2)) sig = .returned true ↔
      aggregateVerify H s pks' (l'.map (·.2)) sig = .returned true := by
  have hsks' : ∀ x ∈ l', 1 ≤ x.1 ∧ x.1 < (curveOrder : ℤ) := fun x hx => hsks x (hp.mem_iff.mpr hx)
  have conv : ∀ (l : List (ℤ × Bytes)) (pks : List Bytes),
      (∀ x ∈ l, 1 ≤ x.1 ∧ x.1 < (curveOrder : ℤ)) →
      List.Forall₂ (fun (x : ℤ × Bytes) pk => skToPk (.int x.1) = .ok pk) l pks →
      (aggregateVerify H s pks (l.map (·.2)) sig = .returned true ↔
        1 ≤ l.length ∧ (s = .basic → (l.map (·.2)).Nodup) ∧
          ∃ sigs, List.Forall₂ (fun (x : ℤ × Bytes) sg => sign H s (.int x.1) x.2 = .ok sg) l sigs ∧
            aggregate sigs = .ok sig) := by
    intro l pks hs hk
    rw [aggregateVerify_iff_aggregate_sign pf H s (l.map (·.1))
      (by intro sk hsk; obtain ⟨x, hx, rfl⟩ := List.mem_map.mp hsk; exact hs x hx) pks (l.map (·.2)) sig
      (by rw [List.forall₂_map_left_iff]; exact hk), zip_fst_snd, ← hk.length_eq, List.length_map]
    exact ⟨fun ⟨a, _, c, d⟩ => ⟨a, c, d⟩, fun ⟨a, c, d⟩ => ⟨a, rfl, c, d⟩⟩
  rw [conv l pks hsks hpks, conv l' pks' hsks' hpks', hp.length_eq, (hp.map (·.2)).nodup_iff]
  -- the signature list is a function of the signer list
  let g : ℤ × Bytes → Bytes := fun x => match sign H s (.int x.1) x.2 with
    | .ok sg => sg
    | .error _ => []
  have hg : ∀ (l : List (ℤ × Bytes)) (sigs : List Bytes),
      List.Forall₂ (fun (x : ℤ × Bytes) sg => sign H s (.int x.1) x.2 = .ok sg) l sigs ↔
        (∀ x ∈ l, ∃ sg, sign H s (.int x.1) x.2 = .ok sg) ∧ sigs = l.map g := by
    intro l
    induction l with
    | nil =>
      intro sigs
      constructor
      · intro h; cases h; exact ⟨by simp, rfl⟩
      · rintro ⟨_, rfl⟩; exact .nil
    | cons x xs ih =>
      intro sigs
      constructor
      · intro h
        cases h with
        | @cons _ sg _ sigs' a b =>
          obtain ⟨h1, h2⟩ := (ih sigs').mp b
          refine ⟨?_, ?_⟩
          · intro y hy
            rcases List.mem_cons.mp hy with rfl | hy
            · exact ⟨sg, a⟩
            · exact h1 y hy
          · rw [List.map_cons, h2]
            congr 1
            show sg = (match sign H s (.int x.1) x.2 with | .ok sg => sg | .error _ => [])
            rw [a]
      · rintro ⟨h1, rfl⟩
        rw [List.map_cons]
        obtain ⟨sg, hsg⟩ := h1 x (List.mem_cons_self ..)
        refine .cons ?_ ((ih _).mpr ⟨fun y hy => h1 y (List.mem_cons_of_mem _ hy), rfl⟩)
        show sign H s (.int x.1) x.2 = .ok (match sign H s (.int x.1) x.2 with | .ok sg => sg | .error _ => [])
        rw [hsg]
  constructor
  · rintro ⟨a, c, sigs, h1, h2⟩
    obtain ⟨h3, rfl⟩ := (hg l sigs).mp h1
    refine ⟨a, c, l'.map g, (hg l' _).mpr ⟨fun x hx => h3 x (hp.mem_iff.mpr hx), rfl⟩, ?_⟩
    rw [← aggregate_perm _ _ (hp.map g)]; exact h2
  · rintro ⟨a, c, sigs, h1, h2⟩
    obtain ⟨h3, rfl⟩ := (hg l' sigs).mp h1
    refine ⟨a, c, l.map g, (hg l _).mpr ⟨fun x hx => h3 x (hp.mem_iff.mp hx), rfl⟩, ?_⟩
    rw [aggregate_perm _ _ (hp.map g)]; exact h2

/-! ### under the smaller hypothesis bundle `PairingValueFacts` (`Lemmas/BlsProtoMiller.lean`) -/

/-- `aggregateVerify_iff_aggregate_sign` under `PairingValueFacts` (fields: HB1, ND, HB1′ per pairing
    call, HT6); every other theorem of Part 2 transfers the same way through
    `PairingValueFacts.toPairingFacts`. -/
theorem aggregateVerify_iff_aggregate_sign' {e : E2 → E1 → K12ˣ} (pv : PairingValueFacts e) (H : HashFn)
    (s : Suite) (sks : List ℤ) (hsks : ∀ sk ∈ sks, 1 ≤ sk ∧ sk < (curveOrder : ℤ))
    (pks msgs : List Bytes) (sig : Bytes)
    (hpks : List.Forall₂ (fun sk pk => skToPk (.int sk) = .ok pk) sks pks) :
    aggregateVerify H s pks msgs sig = .returned true ↔
      1 ≤ pks.length ∧ pks.length = msgs.length ∧ (s = .basic → msgs.Nodup) ∧
        ∃ sigs, List.Forall₂ (fun (x : ℤ × Bytes) sg => sign H s (.int x.1) x.2 = .ok sg)
          (sks.zip msgs) sigs ∧ aggregate sigs = .ok sig :=
  aggregateVerify_iff_aggregate_sign pv.toPairingFacts H s sks hsks pks msgs sig hpks

/-- `fastAggregateVerify_iff_aggregate_sign` under `PairingValueFacts`. -/
theorem fastAggregateVerify_iff_aggregate_sign' {e : E2 → E1 → K12ˣ} (pv : PairingValueFacts e)
    (H : HashFn) (sks : List ℤ) (hsks : ∀ sk ∈ sks, 1 ≤ sk ∧ sk < (curveOrder : ℤ)) (pks : List Bytes)
    (msg sig : Bytes) (hpks : List.Forall₂ (fun sk pk => skToPk (.int sk) = .ok pk) sks pks) :
    fastAggregateVerify H pks msg sig = .returned true ↔
      1 ≤ pks.length ∧ ¬ (blsR ∣ (sks.map Int.toNat).sum) ∧
        ∃ sigs, List.Forall₂ (fun sk sg => sign H .pop (.int sk) msg = .ok sg) sks sigs ∧
          aggregate sigs = .ok sig :=
  fastAggregateVerify_iff_aggregate_sign pv.toPairingFacts H sks hsks pks msg sig hpks

/-! ### non-vacuity of the key hypotheses -/

/-- the one-element key list `[1]` with `SkToPk(1)` = compressed generator satisfies the hypotheses -/
example : (∀ sk ∈ [(1 : ℤ)], 1 ≤ sk ∧ sk < (curveOrder : ℤ)) ∧
    List.Forall₂ (fun sk pk => skToPk (.int sk) = .ok pk) [(1 : ℤ)] [C09.compressedG1] :=
  ⟨by intro sk h; rw [List.mem_singleton] at h; subst h; decide, .cons C09.skToPk_one .nil⟩

end PyEcc.C03
