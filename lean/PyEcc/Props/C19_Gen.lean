/-
  PyEcc.Props.C19_Gen — property C19 restated about the GENERATED code: `ecdsa_raw_recover` (and `bytes_to_int`) of
  `py_ecc/secp256k1/secp256k1.py`, as translated from the Python source on this run (`PyEcc.Gen.ExtraSecp.ecdsa_raw_recover`,
  `PyEcc.Gen.ExtraHashSecp.bytes_to_int`, over the generated Jacobian arithmetic `PyEcc.Gen.Secp.*`): it refuses exactly the
  malformed inputs, only ever raises `ValueError`, lifts `r` to the point with the parity encoded in `v`, and what it returns is
  the algebraically determined key.
  Every theorem is the model theorem of `Props/C19.lean` / `Props/C19_Sound.lean` composed with the tie theorems
  `Tie.ecdsa_raw_recover_eq` (`Props/TieSecp.lean`) and `Tie.bytes_to_int_eq` (`Props/TieHashSecp.lean`).  No hypothesis is added.
  The signature is passed as the Python tuple `(v, r, s)`.  On the specification side: `Fp = ZMod P`, the curve `E`, `Gpt`,
  `reprSecp`, `Verifies` (`PyEcc.SecpSem` / `PyEcc.EcdsaSem`, Mathlib's group `E(F_P)` of secp256k1); `xcub`, `liftY` are the
  semantic layer's names for the local variables `xcubedaxb` and `y` of the function (defined from the generated constants).
-/
import PyEcc.Props.C19_Sound
import PyEcc.Props.TieSecp
import PyEcc.Props.TieHashSecp

namespace PyEcc.C19.Gen
open WeierstrassCurve PyEcc PyEcc.Gen.Secp PyEcc.SecpSem PyEcc.Gen.Consts PyEcc.EcdsaSem
open PyEcc.Gen.ExtraSecp PyEcc.Gen.ExtraHashSecp

/-- **The generated `ecdsa_raw_recover` refuses malformed signatures.**  For every message hash `h` and ints `v, r, s` the
translated function raises `ValueError` (i) when `v` is neither `27` nor `28`; (ii) when `r ≡ 0 (mod N)`; (iii) when
`s ≡ 0 (mod N)`; (iv) when the code's own test `(xcubedaxb − y·y) % P ≠ 0` fires, where `y` is
`beta = pow(r³ + A·r + B, (P+1)//4, P)` or `P − beta`; (v) when `r³ + 7` is not a square in `ZMod P` — the mathematical content
of (iv) (`C19.residue_test`). -/
theorem recover_rejects (h : Bytes) (v r s : ℤ) :
    (¬ (v = 27 ∨ v = 28) → ecdsa_raw_recover h (v, r, s) = .error .value) ∧
    (r % N = 0 → ecdsa_raw_recover h (v, r, s) = .error .value) ∧
    (s % N = 0 → ecdsa_raw_recover h (v, r, s) = .error .value) ∧
    ((xcub r - liftY v r * liftY v r) % P ≠ 0 → ecdsa_raw_recover h (v, r, s) = .error .value) ∧
    (¬ IsSquare ((r : Fp) ^ 3 + 7) → ecdsa_raw_recover h (v, r, s) = .error .value) := by
  rw [Tie.ecdsa_raw_recover_eq]
  exact C19.recover_rejects h v r s

example : ¬ ((26 : ℤ) = 27 ∨ (26 : ℤ) = 28) := by decide
example : (N : ℤ) % N = 0 := by decide
example : ecdsa_raw_recover [] (26, 1, 1) = .error .value := (recover_rejects [] 26 1 1).1 (by decide)

/-- **Exact acceptance condition, generated code.**  The translated `ecdsa_raw_recover` raises `ValueError` if and only if
`v ∉ {27, 28}` or `r ≡ 0` or `s ≡ 0 (mod N)` or `r³ + 7` is a quadratic non-residue mod `P` (i.e. `r` is not the `x`-coordinate
of a curve point); in every other case it returns a value. -/
theorem recover_error_iff (h : Bytes) (v r s : ℤ) :
    ecdsa_raw_recover h (v, r, s) = .error .value ↔
      (¬ (v = 27 ∨ v = 28) ∨ r % N = 0 ∨ s % N = 0 ∨ ¬ IsSquare ((r : Fp) ^ 3 + 7)) := by
  rw [Tie.ecdsa_raw_recover_eq]
  exact C19.recover_error_iff h v r s

/-- **`ValueError` is the only exception, generated code.**  Whatever the inputs, if the translated `ecdsa_raw_recover` raises,
it raises `ValueError`, at one of its two explicit tests: the recursion of `jacobian_multiply` always terminates (the fuel of the
generated recursion is never exhausted) and its "unexpected case" branch is unreachable. -/
theorem recover_error_kind (h : Bytes) (v r s : ℤ) (e : PyErr) (he : ecdsa_raw_recover h (v, r, s) = .error e) :
    e = .value := by
  rw [Tie.ecdsa_raw_recover_eq] at he
  exact C19.recover_error_kind h v r s e he

/-- **Returns or refuses, generated code.**  For all inputs the translated `ecdsa_raw_recover` either raises `ValueError` or
returns a pair of ints; nothing else can happen. -/
theorem recover_ok_or_value_error (h : Bytes) (v r s : ℤ) :
    ecdsa_raw_recover h (v, r, s) = .error .value ∨ ∃ Q, ecdsa_raw_recover h (v, r, s) = .ok Q := by
  rcases hres : ecdsa_raw_recover h (v, r, s) with e | Q
  · rw [recover_error_kind h v r s e hres]; exact .inl rfl
  · exact .inr ⟨Q, rfl⟩

/-- **Parity of the lifted point, generated code.**  When the translated `ecdsa_raw_recover(h, (v, r, s))` returns a value `Q`,
then `v ∈ {27, 28}`, `r, s ≢ 0 (mod N)`, and there is an int `y` — the `y` the code lifted `x = r` to — with: `0 < y < P`,
`y² ≡ r³ + 7 (mod P)`, `y` is EVEN for `v = 27` and ODD for `v = 28` (the code never silently uses the other parity); `y` is the
only int with these properties; and `Q` is the result of the code's arithmetic tail on the point `(r, y)`, written with the
generated functions: `Q = from_jacobian(jacobian_multiply(jacobian_add(Gz, XY), inv(r, N)))` with
`Gz = jacobian_multiply((Gx, Gy, 1), (N − z) % N)`, `XY = jacobian_multiply((r, y, 1), s)`, `z = bytes_to_int(h)`. -/
theorem recover_parity (h : Bytes) (v r s : ℤ) (Q : ℤ × ℤ) (hok : ecdsa_raw_recover h (v, r, s) = .ok Q) :
    (v = 27 ∨ v = 28) ∧ r % N ≠ 0 ∧ s % N ≠ 0 ∧
    ∃ y : ℤ, 0 < y ∧ y < P ∧ (y * y - (r ^ 3 + 7)) % P = 0 ∧ (v = 27 → y % 2 = 0) ∧ (v = 28 → y % 2 = 1) ∧
      (∀ y' : ℤ, 0 < y' → y' < P → (y' * y' - (r ^ 3 + 7)) % P = 0 → y' % 2 = (v - 27) % 2 → y' = y) ∧
      ∃ Gz XY Qj : ℤ × ℤ × ℤ,
        jacobian_multiply (Gx, Gy, 1) ((N - bytes_to_int h) % N) = .ok Gz ∧
        jacobian_multiply (r, y, 1) s = .ok XY ∧
        jacobian_multiply (jacobian_add Gz XY) (inv r N) = .ok Qj ∧
        Q = from_jacobian Qj := by
  rw [Tie.ecdsa_raw_recover_eq] at hok
  obtain ⟨hv, hr, hs, y, h0, hP, hy, h27, h28, huniq, hcore⟩ := C19.recover_parity h v r s Q hok
  refine ⟨hv, hr, hs, y, h0, hP, hy, h27, h28, huniq, ?_⟩
  rw [Tie.bytes_to_int_eq]
  obtain ⟨Gz, h1⟩ := jacobian_multiply_ok (Gx, Gy, 1) ((N - Ecdsa.bytesToInt h) % N)
  obtain ⟨XY, h2⟩ := jacobian_multiply_ok (r, y, 1) s
  obtain ⟨Qj, h3⟩ := jacobian_multiply_ok (jacobian_add Gz XY) (inv r N)
  refine ⟨Gz, XY, Qj, h1, h2, h3, ?_⟩
  rw [recoverCore_of_ok h1 h2 h3] at hcore
  exact (Except.ok.inj hcore).symm

set_option maxRecDepth 100000 in
/-- non-vacuity of `recover_parity` (kernel evaluation of the generated code on a concrete input) -/
example : ecdsa_raw_recover [1] (28, Gx, 1) =
    .ok (26210488337160888672698873285651562077827126089223557910692116932897423477429,
         44582324086967690670293550797731613368225261916384873140806919652936239038985) := by
  rw [Tie.ecdsa_raw_recover_eq]
  exact okEq_sound (by decide +kernel)

/-- **Recovery is sound, generated code.**  For ALL inputs (any byte string `h`, any ints `v, r, s`): if the translated
`ecdsa_raw_recover(h, (v, r, s))` returns `Q` then there are a curve point `R = (X, Y)` of `E : y² = x³ + 7` over `ZMod P` and a
point `Qp` with: `X ≡ r (mod P)`; `Y` (as an int in `[0, P)`) is even for `v = 27` and odd for `v = 28`; `Q` is the representation
of `Qp` (`(0, 0)` for the identity, else reduced affine coordinates); `r • Qp = s • R − z • G` in the group, `z = bytes_to_int(h)`;
`Qp` is the ONLY point with this property (`N` is prime and `r ≢ 0`); and, when `0 ≤ r < P`, the signature `(r, s)` verifies for
message int `z` and public key `Qp` by the textbook algorithm (`Verifies`, SEC 1 §4.1.4).
NOTE `Qp` may be the identity (returned as `(0, 0)`): this happens exactly when `s • R = z • G`. -/
theorem recover_sound (h : Bytes) (v r s : ℤ) (Q : ℤ × ℤ) (hok : ecdsa_raw_recover h (v, r, s) = .ok Q) :
    ∃ (X Y : Fp) (hns : E.Nonsingular X Y) (Qp : E.Point),
      X = (r : Fp) ∧ (v = 27 → ((Y.val : ℕ) : ℤ) % 2 = 0) ∧ (v = 28 → ((Y.val : ℕ) : ℤ) % 2 = 1) ∧
      Q = reprSecp Qp ∧
      r • Qp = s • (Affine.Point.some X Y hns) - (bytes_to_int h) • Gpt ∧
      (∀ Q' : E.Point, r • Q' = s • (Affine.Point.some X Y hns) - (bytes_to_int h) • Gpt → Q' = Qp) ∧
      (0 ≤ r → r < P → Verifies (bytes_to_int h) r s Qp) := by
  rw [Tie.ecdsa_raw_recover_eq] at hok
  rw [Tie.bytes_to_int_eq]
  exact C19.recover_sound h v r s Q hok

/-- non-vacuity of `recover_sound`: the generated code accepts this input; and the recovered value CAN be the identity marker
`(0, 0)`: `ecdsa_raw_recover(b"\x01", (27, Gx, 1)) = (0, 0)`. -/
example : ∃ Q, ecdsa_raw_recover [1] (27, Gx, 1) = .ok Q := by
  rcases recover_ok_or_value_error [1] 27 Gx 1 with he | hq
  · exfalso
    rw [recover_error_iff] at he
    have hsq : IsSquare (((Gx : ℤ) : Fp) ^ 3 + 7) := by
      refine ⟨((Gy : ℤ) : Fp), ?_⟩
      have := SecpSem.G_on_curve
      rw [B_cast] at this
      linear_combination -this
    rcases he with he | he | he | he
    · exact he (Or.inl rfl)
    · exact absurd he (by decide)
    · exact absurd he (by decide)
    · exact he hsq
  · exact hq

/-- **C19 in one statement — generated code.**  For every hash `h` and every `(v, r, s)`, the translated `ecdsa_raw_recover` either
raises `ValueError` — which it does exactly for `v ∉ {27, 28}`, `r ≡ 0` or `s ≡ 0 (mod N)`, or `r` not the `x`-coordinate of a
curve point — or returns the representation of the UNIQUE point `Qp` with `r • Qp = s • R − z • G`, where `R` is the curve point
above `x = r` whose `y` is even for `v = 27` and odd for `v = 28`; and for `0 ≤ r < P` the signature `(r, s)` then verifies for
`Qp`. -/
theorem recover_headline (h : Bytes) (v r s : ℤ) :
    (ecdsa_raw_recover h (v, r, s) = .error .value ∧
      (¬ (v = 27 ∨ v = 28) ∨ r % N = 0 ∨ s % N = 0 ∨ ¬ IsSquare ((r : Fp) ^ 3 + 7))) ∨
    (∃ (X Y : Fp) (hns : E.Nonsingular X Y) (Qp : E.Point),
      ecdsa_raw_recover h (v, r, s) = .ok (reprSecp Qp) ∧
      (v = 27 ∨ v = 28) ∧ r % N ≠ 0 ∧ s % N ≠ 0 ∧
      X = (r : Fp) ∧ (v = 27 → ((Y.val : ℕ) : ℤ) % 2 = 0) ∧ (v = 28 → ((Y.val : ℕ) : ℤ) % 2 = 1) ∧
      r • Qp = s • (Affine.Point.some X Y hns) - (bytes_to_int h) • Gpt ∧
      (∀ Q' : E.Point, r • Q' = s • (Affine.Point.some X Y hns) - (bytes_to_int h) • Gpt → Q' = Qp) ∧
      (0 ≤ r → r < P → Verifies (bytes_to_int h) r s Qp)) := by
  rcases recover_ok_or_value_error h v r s with he | ⟨Q, hq⟩
  · exact .inl ⟨he, (recover_error_iff h v r s).mp he⟩
  · right
    obtain ⟨hv, hr, hs, -⟩ := recover_parity h v r s Q hq
    obtain ⟨X, Y, hns, Qp, hX, h27, h28, hQ, hmain, huniq, hver⟩ := recover_sound h v r s Q hq
    exact ⟨X, Y, hns, Qp, by rw [hq, hQ], hv, hr, hs, hX, h27, h28, hmain, huniq, hver⟩

end PyEcc.C19.Gen

section AxiomAudit
open PyEcc.C19.Gen
#print axioms recover_rejects
#print axioms recover_error_iff
#print axioms recover_error_kind
#print axioms recover_ok_or_value_error
#print axioms recover_parity
#print axioms recover_sound
#print axioms recover_headline
end AxiomAudit
