/-
  PyEcc.Props.C10_Consts — property C10, constant level (core Lean only; closed-term kernel
  evaluation): the hash-to-curve constants of `py_ecc/optimized_bls12_381/constants.py`
  (regenerated into `Gen.Consts.h2c_*` on every run) are the values of RFC 9380 §8.8.1 / §8.8.2, and
  the derived constants (`P_MINUS_3_DIV_4`, `P_MINUS_9_DIV_16`, `SQRT_MINUS_11_CUBED`,
  `POSITIVE_EIGHTH_ROOTS_OF_UNITY`, `ETAS`) have the algebraic properties the optimized SWU code
  (Wahby–Boneh, eprint 2019/403 §4) relies on.  Field arithmetic here is the executable model's
  (`Fq blsP`, and `Fqp .opt blsP [1, 0]` for `FQ2 = Fp[i]/(i² + 1)`).
-/
import PyEcc.Spec.Standards
import PyEcc.Model.Swu

set_option maxRecDepth 100000

namespace PyEcc.C10
open Gen.Consts

/-- RFC 9380 §8.8.1: the 11-isogenous curve `E' : y² = x³ + A'x + B'` and `Z = 11` of the G1 suite. -/
theorem iso11_literals :
    h2c_ISO_11_A = Spec.H2C.iso11A ∧ h2c_ISO_11_B = Spec.H2C.iso11B ∧ h2c_ISO_11_Z = Spec.H2C.iso11Z ∧
    h2c_ISO_11_Z = 11 := by decide +kernel

/-- RFC 9380 §8.8.2: the 3-isogenous curve `A' = 240·i`, `B' = 1012·(1 + i)` and `Z = −(2 + i)` of the
    G2 suite (coefficient lists, constant term first; `Z` as residues `[p − 2, p − 1]`). -/
theorem iso3_literals :
    h2c_ISO_3_A = Spec.H2C.iso3A ∧ h2c_ISO_3_B = Spec.H2C.iso3B ∧ h2c_ISO_3_Z = Spec.H2C.iso3Z ∧
    h2c_ISO_3_Z = [(blsP : Int) - 2, (blsP : Int) - 1] := by decide +kernel

/-- in the model's `FQ2`: `ISO_3_Z = −(2 + i)` -/
theorem ISO_3_Z_eq : ISO_3_Z = -(f2c [2, 1]) := by decide +kernel

/-- `P_MINUS_3_DIV_4 = (p − 3)/4` exactly (`p ≡ 3 mod 4`) -/
theorem P_MINUS_3_DIV_4_spec :
    blsP % 4 = 3 ∧ 4 * h2c_P_MINUS_3_DIV_4 + 3 = blsP := by decide +kernel

/-- `P_MINUS_9_DIV_16 = (p² − 9)/16` exactly (`p² ≡ 9 mod 16`) -/
theorem P_MINUS_9_DIV_16_spec :
    blsP ^ 2 % 16 = 9 ∧ 16 * h2c_P_MINUS_9_DIV_16 + 9 = blsP ^ 2 := by decide +kernel

/-- `SQRT_MINUS_11_CUBED² = (−11)³ = −Z³` in `FQ` -/
theorem SQRT_MINUS_11_CUBED_spec :
    SQRT_MINUS_11_CUBED ^ 2 = ((f1c (-11)) ^ 3 : F1) ∧ SQRT_MINUS_11_CUBED ^ 2 = -(ISO_11_Z ^ 3 : F1) := by
  decide +kernel

/-- `POSITIVE_EIGHTH_ROOTS_OF_UNITY` has four entries, each an 8th root of unity in `FQ2`, and their
    squares are exactly the four 4th roots of unity `1, −1, −i, i` (so `root²·ω = 1` is solvable by
    one of them iff `ω⁴ = 1`: this is how `sqrt_division_FQ2` detects squares). -/
theorem POSITIVE_EIGHTH_ROOTS_OF_UNITY_spec :
    POSITIVE_EIGHTH_ROOTS_OF_UNITY.length = 4 ∧
    (∀ r ∈ POSITIVE_EIGHTH_ROOTS_OF_UNITY, r ^ 8 = (1 : F2)) ∧
    POSITIVE_EIGHTH_ROOTS_OF_UNITY.map (· ^ 2) = [(1 : F2), -(1 : F2), -(f2c [0, 1]), f2c [0, 1]] := by
  decide +kernel

/-- `ETAS` has four entries; each `η` satisfies `η⁸ = −Z¹²` with `Z = ISO_3_Z`, i.e.
    `(η²)⁴ = −(Z³)⁴`: `η² = Z³·ζ` with `ζ⁴ = −1` a PRIMITIVE 8th root of unity, and the four `η²` are
    pairwise distinct (so all four primitive 8th roots occur) — the relation the second loop of
    `optimized_swu_G2` needs: `(η·γ·t³)²·v = Z³t⁶·u` when `γ²·v = ω·u` with `ω = ζ⁻¹` a primitive
    8th root.  (Relation derived from the algorithm of eprint 2019/403 §4.2, not quoted from the
    RFC.) -/
theorem ETAS_spec :
    ETAS.length = 4 ∧
    (∀ eta ∈ ETAS, eta ^ 8 = -(ISO_3_Z ^ 12 : F2) ∧ (eta ^ 2) ^ 4 = -((ISO_3_Z ^ 3) ^ 4 : F2)) ∧
    (ETAS.map (· ^ 2)).Pairwise (· ≠ ·) := by
  decide +kernel

end PyEcc.C10
