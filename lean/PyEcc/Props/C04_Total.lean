/-
  PyEcc.Props.C04_Total — the verification APIs of `py_ecc/bls/ciphersuites.py` are TOTAL,
  unconditionally.

  `Props/C04.lean` proves that `Verify`, `PopVerify`, `AggregateVerify`, `FastAggregateVerify` return
  a `bool` for every input provided `optimized_swu_G2` never takes its "unreachable"
  `raise Exception("Hash to Curve - Optimized SWU failure")` (hypothesis `SwuTotal`, DESIGN HT6).
  `Props/C10_G2.lean` proves `SwuTotal` (`C10G2.swuTotal`).  Here the two are combined: the primed
  theorems have NO hypothesis.  As everywhere in C04 they hold for ALL byte strings of ANY length, all
  three suites, and an arbitrary hash function `H` (any digest size, any output).
-/
import PyEcc.Props.C04
import PyEcc.Props.C03_Logic
import PyEcc.Props.C10_G2

namespace PyEcc.C04
open PyEcc PyEcc.BlsSem Gen.Consts

/-- **`Verify(PK, message, signature)` always returns a `bool`** — it raises no exception of any kind,
    for any byte strings, in each of the three ciphersuites (basic, AUG, POP). -/
theorem verify_total' (H : HashFn) (s : Suite) (pk msg sig : Bytes) :
    ∃ b, verify H s pk msg sig = .returned b :=
  verify_total H C10G2.swuTotal s pk msg sig

/-- **`PopVerify(PK, proof)` always returns a `bool`**, for any byte strings. -/
theorem popVerify_total' (H : HashFn) (pk proof : Bytes) :
    ∃ b, popVerify H pk proof = .returned b :=
  popVerify_total H C10G2.swuTotal pk proof

/-- **`AggregateVerify(PKs, messages, signature)` always returns a `bool`**, for key and message lists
    of any (also different) lengths with entries of any length, all three suites. -/
theorem aggregateVerify_total' (H : HashFn) (s : Suite) (pks msgs : List Bytes) (sig : Bytes) :
    ∃ b, aggregateVerify H s pks msgs sig = .returned b :=
  aggregateVerify_total H C10G2.swuTotal s pks msgs sig

/-- **`FastAggregateVerify(PKs, message, signature)` always returns a `bool`**, for any inputs. -/
theorem fastAggregateVerify_total' (H : HashFn) (pks : List Bytes) (msg sig : Bytes) :
    ∃ b, fastAggregateVerify H pks msg sig = .returned b :=
  fastAggregateVerify_total H C10G2.swuTotal pks msg sig

/-- **No verification API ever raises** (summary): none of the four outcomes is `raised e`. -/
theorem never_raises (H : HashFn) (e : PyErr) :
    (∀ s pk msg sig, verify H s pk msg sig ≠ .raised e) ∧
    (∀ pk proof, popVerify H pk proof ≠ .raised e) ∧
    (∀ s pks msgs sig, aggregateVerify H s pks msgs sig ≠ .raised e) ∧
    (∀ pks msg sig, fastAggregateVerify H pks msg sig ≠ .raised e) := by
  obtain ⟨h1, h2, h3, h4⟩ := raised_only_swu H e
  exact ⟨fun s pk msg sig h => C10G2.not_swuFails (h1 s pk msg sig h).2,
    fun pk proof h => C10G2.not_swuFails (h2 pk proof h).2,
    fun s pks msgs sig h => C10G2.not_swuFails (h3 s pks msgs sig h).2,
    fun pks msg sig h => C10G2.not_swuFails (h4 pks msg sig h).2⟩

/-- **`hash_to_G2` raises nothing but `ValueError`** (DST longer than 255 bytes, or a digest so short
    that `ell > 255`); in particular never for the suites' own DSTs with a digest of ≥ 2 bytes. -/
theorem hashToG2_error_kind' (H : HashFn) (msg dst : Bytes) (e : PyErr)
    (h : hashToG2 H msg dst = .error e) : e = .value := by
  rcases hashToG2_error h with h | ⟨_, hf⟩
  · exact h
  · exact (C10G2.not_swuFails hf).elim

/-- **A key failing `KeyValidate` anywhere in the list makes `AggregateVerify` return `False`**
    (all suites), unconditionally. -/
theorem aggregateVerify_badkey_false' (H : HashFn) (s : Suite) (pks msgs : List Bytes)
    (sig : Bytes) (h : ∃ pk ∈ pks, keyValidate pk = false) :
    aggregateVerify H s pks msgs sig = .returned false :=
  C03.aggregateVerify_badkey_false H C10G2.swuTotal s pks msgs sig h

/-- non-vacuity: the empty string fails `KeyValidate` -/
example : ∃ pk ∈ [([] : Bytes)], keyValidate pk = false := ⟨[], by simp, by decide⟩

end PyEcc.C04
