/-
  C08 / C14 (FQ12 is a field): the degree-12 moduli of py_ecc,
      BLS12-381  `FQ12_MODULUS_COEFFS = (2, 0, 0, 0, 0, 0, −2, 0, 0, 0, 0, 0)`   i.e. `X¹² − 2X⁶ + 2`,
      BN128      `FQ12_MODULUS_COEFFS = (82, 0, 0, 0, 0, 0, −18, 0, 0, 0, 0, 0)` i.e. `X¹² − 18X⁶ + 82`,
  are irreducible over their prime fields.  This discharges the former hypothesis HB3: `FQ12.inv`, `/`
  (reference and optimized classes) are the field inverse and division, without any hypothesis.

  Proof: `f = q ∘ X⁶` with `q = (X − a)² + 1` (`a = 1` resp. `9`) irreducible over `Fp` (`p ≡ 3 mod 4`);
  over `K = Fp[X]/(q) ≅ Fp²`, with `ξ` the root of `q` (`ξ = a + i`), `X⁶ − ξ` is irreducible because `ξ` is
  neither a square nor a cube in `K` (`ξ^((p²−1)/2) = −1`, `ξ^((p²−1)/3) ≠ 1`: kernel-evaluated on pairs of
  naturals, `Lemmas/Irred12Calc.lean`); `Polynomial.irreducible_comp` does the degree count.
-/
import PyEcc.Lemmas.Irred12Calc
import PyEcc.Props.C08_FqpInv
import PyEcc.Props.C14_FqpInv

namespace PyEcc.C08F12
open Polynomial PyEcc PyEcc.Fqp PyEcc.FqpSem PyEcc.Irred12

/-- **HB3, BLS12-381.** The FQ12 modulus of `py_ecc.fields` for BLS12-381, `X¹² − 2X⁶ + 2` (built from the
generated `FQ12_MODULUS_COEFFS` and `field_modulus`), is irreducible over `Fp`: `FQ12` is a field with
`p¹²` elements. -/
theorem irreducible_bls12 : Irreducible (modulus blsP blsMc12) := by
  rw [modulus_bls12]
  exact irreducible_comp_X_pow_six bls_side.1 1 800 bls_side.2.1 bls_side.2.2.1 bls_sq blsOmega bls_cu
    bls_side.2.2.2

/-- **HB3, BN128.** The FQ12 modulus of `py_ecc.fields` for BN128 (alt_bn128), `X¹² − 18X⁶ + 82`, is
irreducible over `Fp`. -/
theorem irreducible_bn12 : Irreducible (modulus bnP bnMc12) := by
  rw [modulus_bn12]
  exact irreducible_comp_X_pow_six bn_side.1 9 800 bn_side.2.1 bn_side.2.2.1 bn_sq bnOmega bn_cu
    bn_side.2.2.2

variable {v : Variant}

/-- **BLS12-381 `FQ12`, `x * inv x = 1`** (reference class `v = .ref` and optimized class `v = .opt`): for
every reduced element `a ≠ 0` (12 coefficients in `[0, p)`), `a * a.inv() = 1` and `a.inv() * a = 1`.
No hypothesis. -/
theorem bls_fq12_mul_inv_cancel {a : Fqp v blsP blsMc12} (ha : Canon a) (hne : a ≠ 0) :
    a * Fqp.inv a = 1 ∧ Fqp.inv a * a = 1 :=
  C08P.mul_inv_cancel (by decide) irreducible_bls12 sane_bls12 ha hne

/-- **BN128 `FQ12`, `x * inv x = 1`** (both classes), for every reduced `a ≠ 0`. No hypothesis. -/
theorem bn_fq12_mul_inv_cancel {a : Fqp v bnP bnMc12} (ha : Canon a) (hne : a ≠ 0) :
    a * Fqp.inv a = 1 ∧ Fqp.inv a * a = 1 :=
  C08P.mul_inv_cancel (by decide) irreducible_bn12 sane_bn12 ha hne

/-- **BLS12-381 `FQ12`, `(x / y) * y = x`** (both classes) for reduced `x`, `y ≠ 0`. -/
theorem bls_fq12_div_mul_cancel {a b : Fqp v blsP blsMc12} (ha : Canon a) (hb : Canon b) (hne : b ≠ 0) :
    a / b * b = a :=
  C08P.div_mul_cancel (by decide) irreducible_bls12 sane_bls12 ha hb hne

/-- **BN128 `FQ12`, `(x / y) * y = x`** (both classes) for reduced `x`, `y ≠ 0`. -/
theorem bn_fq12_div_mul_cancel {a b : Fqp v bnP bnMc12} (ha : Canon a) (hb : Canon b) (hne : b ≠ 0) :
    a / b * b = a :=
  C08P.div_mul_cancel (by decide) irreducible_bn12 sane_bn12 ha hb hne

instance : Fact (Irreducible (modulus blsP blsMc12)) := ⟨irreducible_bls12⟩
instance : Fact (Irreducible (modulus bnP bnMc12)) := ⟨irreducible_bn12⟩

/-- **BLS12-381 `FQ12`: `inv` and `/` are the inverse and the division of the field
`Fp[X]/(X¹² − 2X⁶ + 2)`** (both classes), the result being stored reduced. -/
theorem bls_fq12_inv_div_spec {a b : Fqp v blsP blsMc12} (ha : Canon a) (hb : Canon b) (hne : b ≠ 0) :
    Canon (Fqp.inv b) ∧ toQ (Fqp.inv b) = (toQ b)⁻¹ ∧ toQ (a / b) = toQ a / toQ b :=
  ⟨(C08P.inv_refines (by decide) irreducible_bls12 sane_bls12 hb hne).1,
   C08P.inv_div_spec (by decide) sane_bls12 ha hb hne⟩

/-- **BN128 `FQ12`: `inv` and `/` are the inverse and the division of the field
`Fp[X]/(X¹² − 18X⁶ + 82)`** (both classes). -/
theorem bn_fq12_inv_div_spec {a b : Fqp v bnP bnMc12} (ha : Canon a) (hb : Canon b) (hne : b ≠ 0) :
    Canon (Fqp.inv b) ∧ toQ (Fqp.inv b) = (toQ b)⁻¹ ∧ toQ (a / b) = toQ a / toQ b :=
  ⟨(C08P.inv_refines (by decide) irreducible_bn12 sane_bn12 hb hne).1,
   C08P.inv_div_spec (by decide) sane_bn12 ha hb hne⟩

/-- **C14 at FQ12, BLS12-381**: the optimized `FQ12.inv` / `/` return the same coefficients as the
reference ones on every reduced coefficient list (including `0`). -/
theorem bls_fq12_inv_opt_eq_ref {a b : List Int} (ha : CanonL blsP 12 a) (hb : CanonL blsP 12 b) :
    (Fqp.inv (⟨a⟩ : Fqp .opt blsP blsMc12)).coeffs = (Fqp.inv (⟨a⟩ : Fqp .ref blsP blsMc12)).coeffs ∧
    (Fqp.div (⟨a⟩ : Fqp .opt blsP blsMc12) ⟨b⟩).coeffs = (Fqp.div (⟨a⟩ : Fqp .ref blsP blsMc12) ⟨b⟩).coeffs :=
  ⟨C14P.inv_opt_eq_ref (by decide) irreducible_bls12 sane_bls12 ha,
   C14P.div_opt_eq_ref (by decide) irreducible_bls12 sane_bls12 ha hb⟩

/-- **C14 at FQ12, BN128**: optimized `FQ12.inv` / `/` = reference ones on reduced coefficient lists. -/
theorem bn_fq12_inv_opt_eq_ref {a b : List Int} (ha : CanonL bnP 12 a) (hb : CanonL bnP 12 b) :
    (Fqp.inv (⟨a⟩ : Fqp .opt bnP bnMc12)).coeffs = (Fqp.inv (⟨a⟩ : Fqp .ref bnP bnMc12)).coeffs ∧
    (Fqp.div (⟨a⟩ : Fqp .opt bnP bnMc12) ⟨b⟩).coeffs = (Fqp.div (⟨a⟩ : Fqp .ref bnP bnMc12) ⟨b⟩).coeffs :=
  ⟨C14P.inv_opt_eq_ref (by decide) irreducible_bn12 sane_bn12 ha,
   C14P.div_opt_eq_ref (by decide) irreducible_bn12 sane_bn12 ha hb⟩

/-! ### non-vacuity -/

example : Canon (⟨[3, 5, 0, 0, 0, 0, 7, 0, 0, 0, 0, 1]⟩ : Fqp .ref blsP blsMc12) ∧
    (⟨[3, 5, 0, 0, 0, 0, 7, 0, 0, 0, 0, 1]⟩ : Fqp .ref blsP blsMc12) ≠ 0 := by decide
example : Canon (⟨[3, 5, 0, 0, 0, 0, 7, 0, 0, 0, 0, 1]⟩ : Fqp .opt bnP bnMc12) ∧
    (⟨[3, 5, 0, 0, 0, 0, 7, 0, 0, 0, 0, 1]⟩ : Fqp .opt bnP bnMc12) ≠ 0 := by decide
example : CanonL blsP 12 [3, 5, 0, 0, 0, 0, 7, 0, 0, 0, 0, 1] ∧
    CanonL bnP 12 [3, 5, 0, 0, 0, 0, 7, 0, 0, 0, 0, 1] := by decide

end PyEcc.C08F12
