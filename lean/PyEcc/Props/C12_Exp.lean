/-
  PyEcc.Props.C12_Exp — property C12, exponent level: the final-exponentiation exponents.

  * `(p¹² − 1)/r` (the exponent of the plain `final_exponentiate` of bn128 and of the `**` in the
    BLS12-381 Miller loops) is an exact division, for both curves, with the library's constants and
    with the standard ones; the embedding degree is exactly 12.
  * The fast `final_exponentiate` of `optimized_bls12_381/optimized_pairing.py` computes
        p2 = exp_by_p(exp_by_p(x)) * x            -- x^(p²+1)
        p3 = exp_by_p^6(p2) / p2                  -- p2^(p⁶−1)
        return p3 ** ((p⁴ − p² + 1) // r)
    The integer identity that makes this the plain power is
        (p²+1)·(p⁶−1)·((p⁴−p²+1)/r) = (p¹²−1)/r     with   r ∣ p⁴−p²+1,
    proved here by kernel evaluation; `split_final_exp` is the algebra: in any commutative
    group-with-zero (e.g. a field), if `e y = y^p` for all `y` then the three lines above compute
    `x ^ ((p²+1)(p⁶−1)c)` — for every `x`, including `0`.  `final_exponentiate_eq_pow` combines
    the two at the BLS12-381 constants.  (That `exp_by_p y = y^p` in FQ12 is the Frobenius part of
    C12, proved elsewhere.)
-/
import Mathlib.Algebra.GroupWithZero.Units.Basic
import Mathlib.Algebra.Group.Basic
import Mathlib.Tactic.Ring
import PyEcc.Spec.Standards
import PyEcc.Model.Pairing
import PyEcc.Props.C07_Consts

set_option maxRecDepth 100000

namespace PyEcc.C12.Exp
open PyEcc.Gen.Consts

/-! ### the exponents are exact divisions -/

/-- BLS12-381: `r ∣ p¹² − 1` (standard constants), so `(p¹²−1)/r · r = p¹²−1`. -/
theorem spec_bls_r_dvd : (Spec.BLS12381.p ^ 12 - 1) % Spec.BLS12381.r = 0 := by decide +kernel

/-- alt_bn128: `r ∣ p¹² − 1` (standard constants). -/
theorem spec_bn_r_dvd : (Spec.BN254.p ^ 12 - 1) % Spec.BN254.r = 0 := by decide +kernel

/-- BLS12-381, the library's constants (each module's own `field_modulus`, `curve_order`):
    `curve_order ∣ field_modulus¹² − 1`. -/
theorem bls_r_dvd :
    (bls12_381_field_modulus ^ 12 - 1) % bls12_381_curve_order = 0 ∧
    (optimized_bls12_381_field_modulus ^ 12 - 1) % optimized_bls12_381_curve_order = 0 := by
  decide +kernel

/-- alt_bn128, the library's constants: `curve_order ∣ field_modulus¹² − 1`. -/
theorem bn_r_dvd :
    (bn128_field_modulus ^ 12 - 1) % bn128_curve_order = 0 ∧
    (optimized_bn128_field_modulus ^ 12 - 1) % optimized_bn128_curve_order = 0 := by
  decide +kernel

/-- The embedding degree of both curves is exactly 12: `r ∤ pᵏ − 1` for `1 ≤ k < 12`. -/
theorem embedding_degree_exact :
    (List.range 11).all (fun k => (Spec.BLS12381.p ^ (k + 1) - 1) % Spec.BLS12381.r != 0) = true ∧
    (List.range 11).all (fun k => (Spec.BN254.p ^ (k + 1) - 1) % Spec.BN254.r != 0) = true := by
  decide +kernel

/-- BLS12-381: `r` divides the 12th cyclotomic polynomial at `p`, `Φ₁₂(p) = p⁴ − p² + 1`
    (standard constants and the optimized module's own). -/
theorem bls_r_dvd_cyclotomic :
    (Spec.BLS12381.p ^ 4 - Spec.BLS12381.p ^ 2 + 1) % Spec.BLS12381.r = 0 ∧
    (optimized_bls12_381_field_modulus ^ 4 - optimized_bls12_381_field_modulus ^ 2 + 1)
      % optimized_bls12_381_curve_order = 0 := by decide +kernel

/-- BLS12-381: the split of the final exponent used by the fast `final_exponentiate`:
    `(p²+1)·(p⁶−1)·((p⁴−p²+1)/r) = (p¹²−1)/r`, with the optimized module's own constants. -/
theorem bls_split :
    let p := optimized_bls12_381_field_modulus; let r := optimized_bls12_381_curve_order
    (p ^ 2 + 1) * (p ^ 6 - 1) * ((p ^ 4 - p ^ 2 + 1) / r) = (p ^ 12 - 1) / r := by decide +kernel

/-- The same split with the standard constants. -/
theorem spec_bls_split :
    let p := Spec.BLS12381.p; let r := Spec.BLS12381.r
    (p ^ 2 + 1) * (p ^ 6 - 1) * ((p ^ 4 - p ^ 2 + 1) / r) = (p ^ 12 - 1) / r := by decide +kernel

/-- alt_bn128 has the analogous factorisation (not used by the library, whose bn128
    `final_exponentiate` is the plain power). -/
theorem spec_bn_split :
    let p := Spec.BN254.p; let r := Spec.BN254.r
    (p ^ 4 - p ^ 2 + 1) % r = 0 ∧
    (p ^ 2 + 1) * (p ^ 6 - 1) * ((p ^ 4 - p ^ 2 + 1) / r) = (p ^ 12 - 1) / r := by decide +kernel

/-! ### the exponents the model (hence the Python code) uses -/

/-- The exponent of the reference BLS12-381 pairing (`blsFinalExp`, Python
    `(field_modulus ** 12 - 1) // curve_order`) and the one `pairingOptBls` passes to the optimized
    Miller loop are both the standard `(p¹²−1)/r`. -/
theorem bls_final_exp_eq :
    blsFinalExp = (Spec.BLS12381.p ^ 12 - 1) / Spec.BLS12381.r ∧
    (blsP ^ 12 - 1) / optimized_bls12_381_curve_order = (Spec.BLS12381.p ^ 12 - 1) / Spec.BLS12381.r := by
  decide +kernel

/-- alt_bn128: `final_exponentiate(x) = x ** ((field_modulus ** 12 - 1) // curve_order)`; the
    exponent (`bnFinalExp` in the reference model, the literal expression in `pairingOptBn`) is the
    standard `(p¹²−1)/r`. -/
theorem bn_final_exp_eq :
    bnFinalExp = (Spec.BN254.p ^ 12 - 1) / Spec.BN254.r ∧
    (bnP ^ 12 - 1) / optimized_bn128_curve_order = (Spec.BN254.p ^ 12 - 1) / Spec.BN254.r := by
  decide +kernel

/-- The fast BLS12-381 `final_exponentiate` of the model is the split form with cofactor
    `(p⁴−p²+1)/r` at the standard constants. -/
theorem finalExponentiateOptBls_eq (x : OBls12) :
    finalExponentiateOptBls x
      = optBlsFinalExponentiate blsExptable
          ((Spec.BLS12381.p ^ 4 - Spec.BLS12381.p ^ 2 + 1) / Spec.BLS12381.r) x := by
  have h : (blsP ^ 4 - blsP ^ 2 + 1) / optimized_bls12_381_curve_order
      = (Spec.BLS12381.p ^ 4 - Spec.BLS12381.p ^ 2 + 1) / Spec.BLS12381.r := by decide +kernel
  unfold finalExponentiateOptBls
  rw [h]

/-! ### the algebra of the split -/

/-- The three lines of the fast `final_exponentiate`, over any commutative group-with-zero (any
    field): if `e` is the `p`-power map, then
    `((e⁶(e²(x)·x)) / (e²(x)·x)) ^ c = x ^ ((p²+1)·(p⁶−1)·c)` for **every** `x` (zero included: both
    sides are `0`, because `0/0 = 0` in Lean as in py_ecc's `FQ12`), for `p ≥ 2`, `c ≥ 1`. -/
theorem split_final_exp {K : Type*} [CommGroupWithZero K] (p c : ℕ) (hp : 2 ≤ p) (hc : 1 ≤ c)
    (e : K → K) (he : ∀ y, e y = y ^ p) (x : K) :
    (let p2 := e (e x) * x
     let p3 := e (e (e (e (e (e p2))))) / p2
     p3 ^ c) = x ^ ((p ^ 2 + 1) * (p ^ 6 - 1) * c) := by
  have h6 : 1 ≤ p ^ 6 := Nat.one_le_pow _ _ (by omega)
  have hp2 : ∀ y : K, e (e y) * y = y ^ (p ^ 2 + 1) := by
    intro y; rw [he, he, ← pow_mul, pow_succ, sq]
  have hp6 : ∀ y : K, e (e (e (e (e (e y))))) = y ^ (p ^ 6) := by
    intro y; simp only [he, ← pow_mul]; congr 1; ring
  show (e (e (e (e (e (e (e (e x) * x)))))) / (e (e x) * x)) ^ c = _
  rw [hp6, hp2]
  by_cases hx : x = 0
  · subst hx
    have hpos : (p ^ 2 + 1) * (p ^ 6 - 1) * c ≠ 0 := by
      have : 2 ≤ p ^ 6 := by
        exact Nat.le_trans hp (Nat.le_self_pow (by omega) p)
      have h1 : 0 < p ^ 6 - 1 := by omega
      have h2 : 0 < p ^ 2 + 1 := by omega
      exact Nat.pos_iff_ne_zero.mp (Nat.mul_pos (Nat.mul_pos h2 h1) hc)
    rw [zero_pow (by omega : p ^ 2 + 1 ≠ 0), zero_pow (by omega : p ^ 6 ≠ 0), zero_div,
      zero_pow (by omega : c ≠ 0), zero_pow hpos]
  · have hy : x ^ (p ^ 2 + 1) ≠ 0 := pow_ne_zero _ hx
    rw [div_eq_mul_inv]
    have : (x ^ (p ^ 2 + 1)) ^ p ^ 6 * (x ^ (p ^ 2 + 1))⁻¹ = (x ^ (p ^ 2 + 1)) ^ (p ^ 6 - 1) := by
      have := pow_sub₀ (x ^ (p ^ 2 + 1)) hy h6
      rw [pow_one] at this
      exact this.symm
    rw [this, ← pow_mul, ← pow_mul, mul_assoc]

/-- non-vacuity of `split_final_exp`'s hypotheses: `e := (· ^ p)` is a `p`-power map in any `K`, and
    the BLS12-381 values satisfy `2 ≤ p`, `1 ≤ c`. -/
example {K : Type*} [CommGroupWithZero K] (p : ℕ) : ∀ y : K, (fun y : K => y ^ p) y = y ^ p :=
  fun _ => rfl
example : 2 ≤ Spec.BLS12381.p ∧
    1 ≤ (Spec.BLS12381.p ^ 4 - Spec.BLS12381.p ^ 2 + 1) / Spec.BLS12381.r := by decide +kernel

/-- At the BLS12-381 constants: in any commutative group-with-zero, if `e` is the `p`-power map then
    the fast `final_exponentiate` (split form, cofactor `(p⁴−p²+1)/r`) equals the plain power
    `x ^ ((p¹²−1)/r)`, for every `x`. -/
theorem final_exponentiate_eq_pow {K : Type*} [CommGroupWithZero K]
    (e : K → K) (he : ∀ y, e y = y ^ Spec.BLS12381.p) (x : K) :
    (let p2 := e (e x) * x
     let p3 := e (e (e (e (e (e p2))))) / p2
     p3 ^ ((Spec.BLS12381.p ^ 4 - Spec.BLS12381.p ^ 2 + 1) / Spec.BLS12381.r))
      = x ^ ((Spec.BLS12381.p ^ 12 - 1) / Spec.BLS12381.r) := by
  have h := split_final_exp Spec.BLS12381.p
    ((Spec.BLS12381.p ^ 4 - Spec.BLS12381.p ^ 2 + 1) / Spec.BLS12381.r)
    (by decide +kernel) (by decide +kernel) e he x
  rw [spec_bls_split] at h
  exact h

end PyEcc.C12.Exp
