/-
  PyEcc.Props.C18 — property C18: the secp256k1 arithmetic of `py_ecc/secp256k1/secp256k1.py`
  (`add`, `multiply`, `privtopub`, as GENERATED into `PyEcc.Gen.Secp` / modelled in `PyEcc.Ecdsa`) implements the
  textbook group law of `E : y² = x³ + 7` over `ZMod P`, i.e. Mathlib's `WeierstrassCurve.Affine.Point` group,
  through `reprSecp` (`0 ↦ (0, 0)`, `(x, y) ↦ (x.val, y.val)`).

  Ingredients: the coordinate-level theorems of C13 (`Props/C13_Secp.lean`), correctness of `inv`
  (`Sem/InvLoop.lean`, by another worker, discharged in `Sem/SecpInv.lean`), "`−7` is not a cube mod `P`"
  (kernel-evaluated power), `#E(F_P) = N` by the elementary argument of `Sem/GroupOrder.lean`
  with `N·G = 0` obtained from a kernel evaluation of the generated `multiply` itself.
-/
import PyEcc.Lemmas.SecpRefine
import PyEcc.Spec.Sec2
import PyEcc.Model.Ecdsa

namespace PyEcc.C18
open WeierstrassCurve PyEcc.Gen.Consts PyEcc.SecpSem PyEcc.C13.Secp PyEcc.GroupOrder
open PyEcc.Gen.Secp (A B P N Gx Gy)

/-! ### constants -/

/-- The constants `P, A, B, Gx, Gy, N` of the Python module are the SEC 2 §2.4.1 `secp256k1` parameters
`p, a, b, G, n`, and `P = 2^256 − 2^32 − 977`. -/
theorem constants_eq_sec2 :
    Gen.Secp.P = (Spec.Sec2.p : ℤ) ∧ Gen.Secp.A = (Spec.Sec2.a : ℤ) ∧ Gen.Secp.B = (Spec.Sec2.b : ℤ) ∧
    Gen.Secp.Gx = (Spec.Sec2.Gx : ℤ) ∧ Gen.Secp.Gy = (Spec.Sec2.Gy : ℤ) ∧ Gen.Secp.N = (Spec.Sec2.n : ℤ) ∧
    Gen.Secp.G = (Gen.Secp.Gx, Gen.Secp.Gy) ∧ Gen.Secp.P = 2 ^ 256 - 2 ^ 32 - 977 := by decide

/-- The field modulus `P` and the group order `N` of the Python module are prime numbers. -/
theorem P_N_prime : Nat.Prime Gen.Secp.P.toNat ∧ Nat.Prime Gen.Secp.N.toNat := by
  have hP : Gen.Secp.P.toNat = secp256k1_P := by decide
  have hN : Gen.Secp.N.toNat = secp256k1_N := by decide
  rw [hP, hN]; exact ⟨prime_secpP, prime_secpN⟩

/-! ### the curve has no point with `y = 0`, and `(0, 0)` is not on it -/

/-- No point of `y² = x³ + 7` over `ZMod P` has `y = 0` (`−7` is not a cube mod `P`): the Jacobian identity
marker `y = 0` of the Python code is never a genuine affine point. -/
theorem no_point_with_y_zero (x : Fp) : ¬ E.Equation x 0 := by
  intro h
  have e := (equation_E x 0).mp h
  exact no_root x (by linear_combination -e)

/-- `(0, 0)`, the affine identity marker of the Python code, is not on the curve (`7 ≠ 0`). -/
theorem origin_not_on_curve : ¬ E.Equation 0 0 := no_point_with_y_zero 0

/-- The group has no element of order 2. -/
theorem no_two_torsion (Q : E.Point) (h : Q + Q = 0) : Q = 0 := by
  rcases Q with _ | ⟨x, y, hxy⟩
  · rfl
  · exfalso
    have hneg : Affine.Point.some x y hxy = -Affine.Point.some x y hxy := eq_neg_of_add_eq_zero_left h
    rw [Affine.Point.neg_some] at hneg
    have hy : y = E.negY x y := ((Affine.Point.some.injEq ..).mp hneg).2
    rw [negY_E] at hy
    have : (2 : Fp) * y = 0 := by linear_combination hy
    rcases mul_eq_zero.mp this with h' | h'
    · exact fp_two_ne_zero h'
    · exact y_ne_zero hxy h'

/-- `reprSecp` is injective: distinct curve points have distinct Python representations (in particular no
affine point is represented by the identity marker `(0, 0)`). -/
theorem reprSecp_injective : Function.Injective reprSecp := SecpSem.reprSecp_injective

/-! ### `add` -/

/-- **`add` is the group law.** For all points `Pt`, `Qt` of `E(F_P)` (identity included, `Pt = Qt`,
`Pt = −Qt` included): the Python `add` applied to their representations returns the representation of the
Mathlib sum `Pt + Qt`. -/
theorem add_refines (Pt Qt : E.Point) :
    Gen.Secp.add (reprSecp Pt) (reprSecp Qt) = reprSecp (Pt + Qt) := by
  unfold Gen.Secp.add
  exact jrep_from_jacobian (jrep_add (jrep_to_jacobian Pt) (jrep_to_jacobian Qt))

/-- Python `add` is associative and commutative on representations of curve points, and `(0,0)` is neutral
(transported from Mathlib's group structure). -/
theorem add_assoc_comm (Pt Qt Rt : E.Point) :
    Gen.Secp.add (Gen.Secp.add (reprSecp Pt) (reprSecp Qt)) (reprSecp Rt) =
      Gen.Secp.add (reprSecp Pt) (Gen.Secp.add (reprSecp Qt) (reprSecp Rt)) ∧
    Gen.Secp.add (reprSecp Pt) (reprSecp Qt) = Gen.Secp.add (reprSecp Qt) (reprSecp Pt) ∧
    Gen.Secp.add (reprSecp Pt) (0, 0) = reprSecp Pt ∧ Gen.Secp.add (0, 0) (reprSecp Pt) = reprSecp Pt := by
  refine ⟨?_, ?_, ?_, ?_⟩
  · rw [add_refines, add_refines, add_refines, add_refines, add_assoc]
  · rw [add_refines, add_refines, add_comm]
  · rw [← reprSecp_zero, add_refines, add_zero]
  · rw [← reprSecp_zero, add_refines, zero_add]

/-! ### the base point and the group order -/

/-- `G = (Gx, Gy)` is on the curve, and is represented by the Python constant `G`. -/
theorem G_on_curve : E.Equation ((Gx : ℤ) : Fp) ((Gy : ℤ) : Fp) ∧ reprSecp Gpt = Gen.Secp.G :=
  ⟨(equation_E _ _).mpr SecpSem.G_on_curve, reprSecp_Gpt⟩

/-- `G` is not the identity. -/
theorem G_ne_zero : Gpt ≠ 0 := by
  intro h; cases h

/-- **`multiply` modulo `N`, any scalar, no group-order fact needed.** For every curve point `Pt` and every
Python int `n` (negative, zero, `≥ N` included) `multiply` succeeds and returns the representation of
`(n mod N) • Pt`. -/
theorem multiply_refines_mod (Pt : E.Point) (n : ℤ) :
    Gen.Secp.multiply (reprSecp Pt) n = .ok (reprSecp ((n % N).toNat • Pt)) := by
  obtain ⟨T', hT', rT'⟩ := jrep_multiply _ Pt n (jrep_to_jacobian Pt)
  rw [multiply_of_ok hT', jrep_from_jacobian rT']

/-- `N • G = 0` in the Mathlib group; obtained from the kernel evaluation `multiply(G, N−1) = (Gx, P−Gy)` of the
generated code, read through `multiply_refines_mod`. -/
theorem N_smul_G : secp256k1_N • Gpt = 0 := by
  have h := multiply_refines_mod Gpt (N - 1)
  rw [reprSecp_Gpt, multiply_G_N_pred] at h
  have hn : ((N - 1) % N).toNat = secp256k1_N - 1 := by decide
  rw [hn] at h
  have hneg : reprSecp (-Gpt) = (Gx, P - Gy) := by
    have h1 : reprSecp (-Gpt) =
        (((((Gx : ℤ) : Fp).val : ℕ) : ℤ), (((E.negY ((Gx : ℤ) : Fp) ((Gy : ℤ) : Fp)).val : ℕ) : ℤ)) := rfl
    rw [h1, negY_E, ← Int.cast_neg, val_cast, val_cast]
    exact neg_G_reduced
  have hpt : (secp256k1_N - 1) • Gpt = -Gpt := by
    apply SecpSem.reprSecp_injective
    rw [hneg]
    exact (Except.ok.inj h).symm
  have hsplit : secp256k1_N = (secp256k1_N - 1) + 1 := by decide
  rw [hsplit, add_smul, one_smul, hpt, neg_add_cancel]

/-- **`#E(F_P) = N`.** The curve group has exactly `N` elements (elementary argument: `N` prime, `G` of order
`N`, `2P + 1 < 3N`, no 2-torsion). -/
theorem card_E : Nat.card E.Point = secp256k1_N :=
  card_point_eq ((B : ℤ) : Fp) secp256k1_N prime_secpN fp_two_ne_zero Gpt G_ne_zero N_smul_G (by decide) no_root

/-- Every point of the curve is killed by `N`. -/
theorem N_smul_eq_zero (Q : E.Point) : secp256k1_N • Q = 0 :=
  nsmul_eq_zero_of_card _ _ card_E Q

/-- The group has prime order `N`: every non-identity point has order exactly `N`. -/
theorem addOrderOf_eq_N (Q : E.Point) (hQ : Q ≠ 0) : addOrderOf Q = secp256k1_N := by
  have : Fact secp256k1_N.Prime := ⟨prime_secpN⟩
  exact addOrderOf_eq_prime (N_smul_eq_zero Q) hQ

/-! ### `multiply` -/

/-- **`multiply` is scalar multiplication in the group.** For every curve point `Pt` and EVERY Python int `n`
(negative and `≥ N` included) `multiply` succeeds and returns the representation of the `ℤ`-multiple `n • Pt`
in Mathlib's group `E(F_P)`. -/
theorem multiply_refines (Pt : E.Point) (n : ℤ) :
    Gen.Secp.multiply (reprSecp Pt) n = .ok (reprSecp (n • Pt)) := by
  rw [multiply_refines_mod]
  congr 2
  have hNpos := N_pos
  have hmod0 : 0 ≤ n % N := Int.emod_nonneg _ (by omega)
  have hN0 : (N : ℤ) • Pt = 0 := by
    rw [N_eq, natCast_zsmul]; exact N_smul_eq_zero Pt
  have hsplit : n = N * (n / N) + n % N := (Int.mul_ediv_add_emod n N).symm
  conv_rhs => rw [hsplit, add_zsmul, mul_comm, mul_zsmul, hN0, zsmul_zero, zero_add]
  rw [← natCast_zsmul, Int.toNat_of_nonneg hmod0]

/-- `multiply` only depends on the scalar modulo `N`, and `multiply(Pt, N) = multiply(Pt, 0) = (0, 0)`. -/
theorem multiply_mod_N (Pt : E.Point) (n m : ℤ) (h : n % N = m % N) :
    Gen.Secp.multiply (reprSecp Pt) n = Gen.Secp.multiply (reprSecp Pt) m := by
  rw [multiply_refines_mod, multiply_refines_mod, h]

example : (5 : ℤ) % N = (N + 5) % N := by decide

/-- `multiply` is a homomorphism in the scalar: `multiply(Pt, n + m) = add(multiply(Pt, n), multiply(Pt, m))`. -/
theorem multiply_add (Pt : E.Point) (n m : ℤ) :
    ∃ a b, Gen.Secp.multiply (reprSecp Pt) n = .ok a ∧ Gen.Secp.multiply (reprSecp Pt) m = .ok b ∧
      Gen.Secp.multiply (reprSecp Pt) (n + m) = .ok (Gen.Secp.add a b) :=
  ⟨_, _, multiply_refines Pt n, multiply_refines Pt m, by rw [multiply_refines, add_refines, add_zsmul]⟩

/-! ### `privtopub` -/

/-- **`privtopub(priv) = d • G`** with `d = bytes_to_int(priv)`, for every byte string `priv` (of any length — in
particular every valid 32-byte key): the call succeeds and returns the representation of `d • G`. -/
theorem privtopub_refines (priv : Bytes) :
    Ecdsa.privtopub priv = .ok (reprSecp ((Ecdsa.bytesToInt priv) • Gpt)) := by
  unfold Ecdsa.privtopub
  rw [← reprSecp_Gpt, multiply_refines]

/-- for a valid key `0 < d < N` the public key is a genuine affine point (never the marker `(0, 0)`) -/
theorem privtopub_ne_identity (priv : Bytes) (h0 : 0 < Ecdsa.bytesToInt priv) (hN : Ecdsa.bytesToInt priv < N) :
    Ecdsa.privtopub priv ≠ .ok (0, 0) := by
  rw [privtopub_refines, ← reprSecp_zero]
  intro h
  have h' := SecpSem.reprSecp_injective (Except.ok.inj h)
  have hd : (Ecdsa.bytesToInt priv).toNat • Gpt = 0 := by
    rw [← natCast_zsmul, Int.toNat_of_nonneg h0.le]; exact h'
  have hdvd := addOrderOf_dvd_of_nsmul_eq_zero hd
  rw [addOrderOf_eq_N Gpt G_ne_zero] at hdvd
  have hle := Nat.le_of_dvd (by omega) hdvd
  rw [N_eq] at hN
  omega

example : (0 : ℤ) < Ecdsa.bytesToInt [1] ∧ Ecdsa.bytesToInt [1] < N := by decide

end PyEcc.C18

section AxiomAudit
open PyEcc.C18
#print axioms constants_eq_sec2
#print axioms P_N_prime
#print axioms no_point_with_y_zero
#print axioms origin_not_on_curve
#print axioms no_two_torsion
#print axioms add_refines
#print axioms add_assoc_comm
#print axioms G_on_curve
#print axioms multiply_refines_mod
#print axioms N_smul_G
#print axioms card_E
#print axioms multiply_refines
#print axioms multiply_mod_N
#print axioms multiply_add
#print axioms privtopub_refines
#print axioms privtopub_ne_identity
end AxiomAudit
