/-
  PyEcc.Props.C11_G2Full — property C11 for G2, the part that needs the `FQ2` square root:
  round trip `decompress_G2(compress_G2(P)) ~ P` for EVERY on-curve point (there is no excluded point on the
  twist: `no_x0_point_G2`), canonicity `compress_G2(decompress_G2(z)) = z`, and the explicit accept set of
  `decompress_G2` (`py_ecc/bls/point_compression.py`).

  Model: `PyEcc/Model/Codec.lean` (`compressG2`, `decompressG2`, `modularSquarerootInFq2`).
  A G2 point is a projective triple `(X, Y, Z)` of `FQ2` objects, `Z = 0` meaning infinity.  The model's `FQ2`
  values are arbitrary coefficient lists; the Python class only ever holds two coefficients reduced mod `p`,
  which is the hypothesis `CanonPt` ("well-formed triple") below.
  Helper lemmas: `PyEcc/Sem/Fq2Sqrt.lean` (square root), `PyEcc/Sem/CodecSemG2Full.lean`.
-/
import PyEcc.Sem.CodecSemG2Full

set_option maxRecDepth 100000
set_option exponentiation.threshold 400

namespace PyEcc.C11
open PyEcc PyEcc.Fqp PyEcc.FqpSem PyEcc.CodecSem PyEcc.BytesLem PyEcc.Fq2Sqrt

/-! ### no excluded points on the twist -/

/-- **No point of the twist curve `y² = x³ + 4(1+i)` has `x = 0`** (`4 + 4i` is not a square in `F_{p²}`:
    `modular_squareroot_in_FQ2(b2)` evaluates to `None` and the function is correct).  So, unlike G1 (finding
    K1), no finite G2 point is encoded with an all-zero `x` field, and the G2 round trip has no exception. -/
theorem no_x0_point_G2 (P : G2Pt) (hc : CanonPt P) (hon : Gen.OptBls.is_on_curve P blsB2 = true)
    (hz : P.2.2 ≠ 0) : P.1 ≠ 0 := by
  intro hX
  obtain ⟨hcx, _, ex, _, _, hx0, _⟩ := affine_of_on_curve hc hon hz
  apply hx0
  rw [eq_zero_iff hcx, ex, (eq_zero_iff hc.1).mp hX, zero_div]

/-- **No point of the twist curve has `y = 0`** (no 2-torsion: `−4(1+i)` is not a cube in `F_{p²}`), so of
    `y`, `−y` exactly one has sign flag 1. -/
theorem no_y0_point_G2 (P : G2Pt) (hc : CanonPt P) (hon : Gen.OptBls.is_on_curve P blsB2 = true)
    (hz : P.2.2 ≠ 0) : P.2.1 ≠ 0 := by
  intro hY
  obtain ⟨_, hcy, _, ey, _, _, hy0⟩ := affine_of_on_curve hc hon hz
  apply hy0
  rw [eq_zero_iff hcy, ey, (eq_zero_iff hc.2.1).mp hY, zero_div]

/-! ### round trip -/

/-- **Round trip for G2, every on-curve point, any projective representative.**
    For every well-formed triple `P = (X, Y, Z)` of `FQ2` objects that passes `is_on_curve(P, b2)`:
    `compress_G2(P)` returns a pair `(z1, z2)`, and `decompress_G2((z1, z2))` returns `Z2 = (1, 1, 0)` for
    infinity (`Z = 0`) and otherwise the normalized representative `(X/Z, Y/Z, 1)`; in both cases
    `eq(result, P)` holds.  No point is excluded (contrast `decompress_compress_G1_partial`). -/
theorem decompress_compress_G2 (P : G2Pt) (hc : CanonPt P) (hon : Gen.OptBls.is_on_curve P blsB2 = true) :
    ∃ z1 z2, compressG2 P = .ok (z1, z2) ∧
      decompressG2 z1 z2 = .ok (if Gen.OptBls.is_inf P then Z2 else Gen.OptBls.normalize1 P) ∧
      Gen.OptBls.eq (if Gen.OptBls.is_inf P then Z2 else Gen.OptBls.normalize1 P) P = true := by
  by_cases hz : P.2.2 = 0
  · have hi : Gen.OptBls.is_inf P = true := by simp [Gen.OptBls.is_inf, hz]
    obtain ⟨h1, h2⟩ := decompress_compress_G2_inf P hi
    refine ⟨_, _, h1, ?_, ?_⟩
    · rw [hi, if_pos rfl]; exact h2
    · rw [hi, if_pos rfl]
      simp [Gen.OptBls.eq, Gen.OptBls.is_inf, hz, Z2]
  · have hi : Gen.OptBls.is_inf P = false := by simp [Gen.OptBls.is_inf, hz]
    obtain ⟨hX, hY, hZ⟩ := hc
    obtain ⟨hcx, hcy, ex, ey, hyy, hx0, hy0⟩ := affine_of_on_curve ⟨hX, hY, hZ⟩ hon hz
    rw [hi]
    simp only [Bool.false_eq_true, if_false]
    -- the affine coordinates
    obtain ⟨x, hxdef⟩ : ∃ x, x = P.1 / P.2.2 := ⟨_, rfl⟩
    obtain ⟨y, hydef⟩ : ∃ y, y = P.2.1 / P.2.2 := ⟨_, rfl⟩
    have hn1 : Gen.OptBls.normalize1 P = (x, y, 1) := by rw [hxdef, hydef]; rfl
    rw [← hxdef] at hcx ex hyy hx0
    rw [← hydef] at hcy ey hyy hy0
    obtain ⟨xr, xi, hxe, hr0, hr1, hi0, hi1⟩ := canon_cases hcx
    obtain ⟨f01, _⟩ := flag_facts hcy hy0
    have hcomp := compressG2_fin hon hz
    rw [← hxdef, ← hydef] at hcomp
    obtain ⟨w0, w1, w2, w3, w4⟩ := compress_word (xi := getI x.coeffs 1) (fl := aflag y)
      (by rw [hxe]; exact hi0) (by rw [hxe]; exact hi1) f01
    refine ⟨_, _, hcomp, ?_, ?_⟩
    · -- decoding
      obtain ⟨z1, hz1⟩ : ∃ z1, z1 = (getI x.coeffs 1 + aflag y * ((2 ^ 381 : ℕ) : Int)
        + ((2 ^ 383 : ℕ) : Int)).toNat := ⟨_, rfl⟩
      obtain ⟨z2, hz2⟩ : ∃ z2, z2 = (getI x.coeffs 0).toNat := ⟨_, rfl⟩
      rw [← hz1, ← hz2]
      rw [← hz1] at w0 w1 w2 w3 w4
      have hz2' : (z2 : Int) = getI x.coeffs 0 := by
        rw [hz2, hxe]; simp only [getI_pair0]; omega
      have hX2 : encodedX2 z1 z2 = x := encodedX2_eq hcx hz2' w4
      have hx1lt : z1 % 2 ^ 381 < blsP := by
        have : ((z1 % 2 ^ 381 : ℕ) : Int) < blsP := by rw [w4, hxe]; exact hi1
        exact_mod_cast this
      have hz2lt : z2 < blsP := by
        have : (z2 : Int) < blsP := by rw [hz2', hxe]; exact hr1
        exact_mod_cast this
      have hninf : ¬(z1 % 2 ^ 381 = 0 ∧ z2 = 0) := by
        rw [← encodedX2_eq_zero_iff hx1lt hz2lt, hX2]; exact hx0
      -- the square root
      have hv : toQ (rhsOf2 z1 z2) = toQ y ^ 2 := by rw [toQ_rhsOf2, hX2, hyy]
      have hy0K : toQ y ≠ 0 := fun h => hy0 ((eq_zero_iff hcy).mpr h)
      have hvne : rhsOf2 z1 z2 ≠ 0 := by
        intro h
        rw [(eq_zero_iff (canon_rhsOf2 z1 z2)).mp h] at hv
        exact hy0K (pow_eq_zero_iff (n := 2) (by norm_num) |>.mp hv.symm)
      obtain ⟨s, hs⟩ : ∃ s, modularSquarerootInFq2 (rhsOf2 z1 z2) = some s := by
        cases hr : modularSquarerootInFq2 (rhsOf2 z1 z2) with
        | some s => exact ⟨s, rfl⟩
        | none =>
          exfalso
          exact (sqrt_none_iff (canon_rhsOf2 z1 z2) hvne).mp hr ⟨toQ y, by rw [hv]; ring⟩
      have hsc := sqrt_canon (canon_rhsOf2 z1 z2) hs
      have hss := sqrt_spec (canon_rhsOf2 z1 z2) hs
      obtain ⟨hs0, _, _⟩ := sqrt_is_larger (canon_rhsOf2 z1 z2) hs
      have hsq : toQ s ^ 2 = toQ y ^ 2 := by
        rw [← hv, ← hss, toQ_mul2 hsc.wf hsc.wf]; ring
      -- the sign choice
      have hflag : (if (getFlags z1).2.2 = true then (1 : Int) else 0) = aflag y := by
        rw [getFlags_eq]
        simp only [decide_eq_true_eq]
        rw [← w3]
        rcases Nat.mod_two_eq_zero_or_one (z1 / 2 ^ 381) with e | e <;> rw [e] <;> simp
      obtain ⟨p1, p2, p3, p4⟩ := pickY2_spec (getFlags z1).2.2 hsc hs0
      have hpick : pickY2 (getFlags z1).2.2 s = y :=
        flag_unique2 p1 hcy hy0 (p3.trans hsq) (p4.trans hflag)
      have hdec : decodedPt2 z1 z2 s = (x, y, 1) := by
        unfold decodedPt2; rw [hX2, hpick, ofInts_one]
      have honc : Gen.OptBls.is_on_curve (decodedPt2 z1 z2 s) blsB2 = true := by
        unfold decodedPt2; rw [hpick]
        exact decodedPt2_on_curve hcy (by rw [hX2]; exact hyy)
      rw [decompressG2_eq, if_pos w1, if_neg hninf, if_neg (by omega), if_neg (by omega),
        if_neg (by omega), hs]
      rw [hdec] at honc
      simp only [hdec, honc, if_true, hn1]
    · rw [hn1]
      unfold Gen.OptBls.eq Gen.OptBls.is_inf
      have h1 : (1 : F2) ≠ 0 := by decide
      simp only [hz, h1, decide_false, Bool.false_eq_true, or_self, if_false, decide_eq_true_eq]
      have hZ0 : toQ P.2.2 ≠ 0 := fun h => hz ((eq_zero_iff hZ).mpr h)
      constructor
      · apply toQ_inj (canon_mul2 hcx.wf hZ.wf) (canon_mul2 hX.wf canon_one2.wf)
        rw [toQ_mul2 hcx.wf hZ.wf, toQ_mul2 hX.wf canon_one2.wf, ex, toQ_one2]; field_simp
      · apply toQ_inj (canon_mul2 hcy.wf hZ.wf) (canon_mul2 hY.wf canon_one2.wf)
        rw [toQ_mul2 hcy.wf hZ.wf, toQ_mul2 hY.wf canon_one2.wf, ey, toQ_one2]; field_simp

/-! ### canonicity: what decodes re-encodes to exactly the input pair -/

/-- **Canonicity for G2.**  If `decompress_G2((z1, z2))` returns `P` and `z1` is a 384-bit word, then `P` is a
    well-formed triple on the twist curve and `compress_G2(P)` is `(z1, z2)` again: no two different pairs with
    `z1 < 2^384` decode to the same point.  (`z2` needs no guard: accepted `z2` are `< p`.  The guard on `z1`
    is needed because `get_flags` and `% 2^381` ignore bits `≥ 384`.) -/
theorem compress_decompress_G2 (z1 z2 : ℕ) (hz : z1 < 2 ^ 384) (P : G2Pt)
    (h : decompressG2 z1 z2 = .ok P) :
    CanonPt P ∧ Gen.OptBls.is_on_curve P blsB2 = true ∧ compressG2 P = .ok (z1, z2) := by
  rw [decompressG2_eq] at h
  split_ifs at h with h1 h2 h3 h4 h5 h6
  · -- infinity
    cases h
    obtain ⟨hc, _⟩ := decompress_compress_G2_inf Z2 (by decide)
    refine ⟨by decide, by decide, ?_⟩
    rw [hc, word_inf z1 hz h1 h3.1 h3.2 h2.1, h2.2]
  · -- finite
    cases hr : modularSquarerootInFq2 (rhsOf2 z1 z2) with
    | none => rw [hr] at h; cases h
    | some s =>
      rw [hr] at h
      obtain ⟨p1, p2, p4, honc⟩ := decoded_ok hr
      simp only [honc, if_true, Except.ok.injEq] at h
      subst h
      have hx1 : z1 % 2 ^ 381 < blsP := by omega
      have hx2 : z2 < blsP := by omega
      have hcx := canon_encodedX2 z1 z2
      obtain ⟨g0, g1⟩ := getI_encodedX2 hx1 hx2
      have hcP : CanonPt (decodedPt2 z1 z2 s) := ⟨hcx, p1, by
        show Canon (Fqp.ofInts [1, 0] : F2); rw [ofInts_one]; exact canon_one2⟩
      refine ⟨hcP, honc, ?_⟩
      have hfin : (decodedPt2 z1 z2 s).2.2 ≠ 0 := by
        show (Fqp.ofInts [1, 0] : F2) ≠ 0; rw [ofInts_one]; exact one_ne_zero2
      rw [compressG2_fin honc hfin]
      show Except.ok ((getI (encodedX2 z1 z2 / (Fqp.ofInts [1, 0] : F2)).coeffs 1
        + aflag (pickY2 (getFlags z1).2.2 s / (Fqp.ofInts [1, 0] : F2)) * ((2 ^ 381 : ℕ) : Int)
        + ((2 ^ 383 : ℕ) : Int)).toNat,
        (getI (encodedX2 z1 z2 / (Fqp.ofInts [1, 0] : F2)).coeffs 0).toNat) = Except.ok (z1, z2)
      rw [ofInts_one, div_one2 hcx, div_one2 p1, g0, g1, p4]
      have hfl : (if (getFlags z1).2.2 = true then (1 : Int) else 0) = ((z1 / 2 ^ 381 % 2 : ℕ) : Int) := by
        rw [getFlags_eq]
        simp only [decide_eq_true_eq]
        rcases Nat.mod_two_eq_zero_or_one (z1 / 2 ^ 381) with e | e <;> rw [e] <;> simp
      rw [hfl, word_recompose2 z1 hz h1 (by omega), Int.toNat_natCast]

/-- `decompress_G2((z1, z2))` looks only at the low 384 bits of `z1`: adding any multiple of `2^384` changes
    nothing (`get_flags` masks single bits and `x1 = z1 % 2^381`).  This is why canonicity carries the guard
    `z1 < 2^384`; through `signature_to_G2` the guard is the 48-byte length of the first half. -/
theorem decompressG2_ignores_high_bits (z1 z2 k : ℕ) :
    decompressG2 (z1 + k * 2 ^ 384) z2 = decompressG2 z1 z2 := by
  have h1 : (z1 + k * 2 ^ 384) / 2 ^ 383 % 2 = z1 / 2 ^ 383 % 2 := by omega
  have h2 : (z1 + k * 2 ^ 384) / 2 ^ 382 % 2 = z1 / 2 ^ 382 % 2 := by omega
  have h3 : (z1 + k * 2 ^ 384) / 2 ^ 381 % 2 = z1 / 2 ^ 381 % 2 := by omega
  have h4 : (z1 + k * 2 ^ 384) % 2 ^ 381 = z1 % 2 ^ 381 := by omega
  have hf : getFlags (z1 + k * 2 ^ 384) = getFlags z1 := by
    rw [getFlags_eq, getFlags_eq, h1, h2, h3]
  have hx : encodedX2 (z1 + k * 2 ^ 384) z2 = encodedX2 z1 z2 := by
    unfold encodedX2; rw [pow2_381, h4]
  have hr : rhsOf2 (z1 + k * 2 ^ 384) z2 = rhsOf2 z1 z2 := by unfold rhsOf2; rw [hx]
  have hd : decodedPt2 (z1 + k * 2 ^ 384) z2 = decodedPt2 z1 z2 := by
    funext y; unfold decodedPt2; rw [hx, hf]
  rw [decompressG2_eq, decompressG2_eq, h1, h2, h3, h4, hr, hd]

/-! ### accept set -/

/-- **Accept set of `decompress_G2`.**  `decompress_G2((z1, z2))` returns a point iff either
    * flags of `z1` are `c = 1, b = 0` (any `a`), both coordinate words are reduced (`x1 = z1 % 2^381 < p`,
      `z2 < p`), and `x³ + 4(1+i)` with `x = FQ2([z2, x1])` is the square of some `FQ2` object; or
    * flags `c = 1, b = 1, a = 0` and `z1 % 2^381 = 0`, `z2 = 0` (the encoding of infinity).
    Everything else raises `ValueError` (`decompress_G2_error_kind`).  The pair `x1 = 0, z2 = 0` never satisfies
    the first clause (`4 + 4i` is not a square), matching the decoder, which treats it as "infinity expected". -/
theorem decompress_G2_accepts_iff (z1 z2 : ℕ) :
    (∃ P, decompressG2 z1 z2 = .ok P) ↔
      ((∃ a, getFlags z1 = (true, false, a)) ∧ z1 % 2 ^ 381 < blsP ∧ z2 < blsP ∧
          ∃ w : F2, Canon w ∧ w * w = rhsOf2 z1 z2)
      ∨ (getFlags z1 = (true, true, false) ∧ z1 % 2 ^ 381 = 0 ∧ z2 = 0) := by
  rw [← sqrt_rhs_isSome_iff, decompressG2_eq, getFlags_eq]
  simp only [Prod.mk.injEq, decide_eq_true_eq, decide_eq_false_iff_not, exists_and_left]
  have hb := Nat.mod_two_eq_zero_or_one (z1 / 2 ^ 382)
  have ha := Nat.mod_two_eq_zero_or_one (z1 / 2 ^ 381)
  have hx0 : (z1 % 2 ^ 381 = 0 ∧ z2 = 0) → ¬ ∃ s, modularSquarerootInFq2 (rhsOf2 z1 z2) = some s := by
    rintro ⟨e1, e2⟩ hs
    have hp := blsP_pos
    rw [sqrt_rhs_isSome_iff', (eq_zero_iff (canon_encodedX2 z1 z2)).mp
      ((encodedX2_eq_zero_iff (by omega) (by omega)).mpr ⟨e1, e2⟩)] at hs
    apply B2_not_square
    simpa using hs
  split_ifs with h1 h2 h3 h4 h5 h6
  · -- infinity accepted
    exact ⟨fun _ => Or.inr ⟨⟨h1, h3.1, by omega⟩, h2⟩, fun _ => ⟨_, rfl⟩⟩
  · -- x = 0, wrong flags
    constructor
    · rintro ⟨P, hP⟩; cases hP
    · rintro (⟨_, _, _, hs⟩ | ⟨⟨_, hb1, ha1⟩, _⟩)
      · exact absurd hs (hx0 h2)
      · exact absurd ⟨hb1, by omega⟩ h3
  · -- x ≠ 0, b = 1
    constructor
    · rintro ⟨P, hP⟩; cases hP
    · rintro (⟨⟨_, hb0, _⟩, _⟩ | ⟨_, h0⟩)
      · omega
      · exact absurd h0 h2
  · -- x1 ≥ p
    constructor
    · rintro ⟨P, hP⟩; cases hP
    · rintro (⟨_, hlt, _⟩ | ⟨_, h0⟩)
      · omega
      · exact absurd h0 h2
  · -- z2 ≥ p
    constructor
    · rintro ⟨P, hP⟩; cases hP
    · rintro (⟨_, _, hlt, _⟩ | ⟨_, h0⟩)
      · omega
      · exact absurd h0 h2
  · -- finite, reduced words: decided by the square root
    cases hr : modularSquarerootInFq2 (rhsOf2 z1 z2) with
    | none =>
      constructor
      · rintro ⟨P, hP⟩; cases hP
      · rintro (⟨_, _, _, s, hs⟩ | ⟨_, h0⟩)
        · cases hs
        · exact absurd h0 h2
    | some s =>
      obtain ⟨_, _, _, honc⟩ := decoded_ok hr
      simp only [honc, if_true]
      exact ⟨fun _ => Or.inl ⟨⟨h1, h4, ⟨_, rfl⟩⟩, by omega, by omega, s, rfl⟩, fun _ => ⟨_, rfl⟩⟩
  · -- c = 0
    constructor
    · rintro ⟨P, hP⟩; cases hP
    · rintro (⟨⟨hc, _⟩, _⟩ | ⟨⟨hc, _⟩, _⟩) <;> exact absurd hc h1

/-! ### byte level (`G2_to_signature` / `signature_to_G2`) -/

/-- **96-byte round trip**: for every well-formed on-curve triple `P`, `G2_to_signature(P)` returns 96 bytes and
    `signature_to_G2` of them returns `Z2` for infinity, else the normalized representative of `P`. -/
theorem signatureToG2_g2ToSignature_roundtrip (P : G2Pt) (hc : CanonPt P)
    (hon : Gen.OptBls.is_on_curve P blsB2 = true) :
    ∃ bs, g2ToSignature P = .ok bs ∧ bs.length = 96 ∧
      signatureToG2 bs = .ok (if Gen.OptBls.is_inf P then Z2 else Gen.OptBls.normalize1 P) := by
  obtain ⟨z1, z2, h1, h2, _⟩ := decompress_compress_G2 P hc hon
  obtain ⟨bs, hb, hs⟩ := signatureToG2_g2ToSignature P z1 z2 h1
  obtain ⟨bs', hb', hl⟩ := (g2ToSignature_length P).1 hon
  rw [hb] at hb'
  cases hb'
  exact ⟨bs, hb, hl, hs.trans h2⟩

/-- **96-byte canonicity**: a 96-byte string accepted by `signature_to_G2` is reproduced exactly by
    `G2_to_signature` of the decoded point (which is on the twist curve). -/
theorem g2ToSignature_signatureToG2 (bs : Bytes) (hlen : bs.length = 96) (P : G2Pt)
    (h : signatureToG2 bs = .ok P) :
    Gen.OptBls.is_on_curve P blsB2 = true ∧ g2ToSignature P = .ok bs := by
  unfold signatureToG2 at h
  have e : (256 : ℕ) ^ 48 = 2 ^ 384 := by decide
  have l1 : (bs.take 48).length = 48 := by rw [List.length_take]; omega
  have l2 : (bs.drop 48).length = 48 := by rw [List.length_drop]; omega
  have hlt : os2ip (bs.take 48) < 2 ^ 384 := by
    have := os2ip_lt (bs.take 48)
    rw [l1] at this; omega
  obtain ⟨_, hon, hc⟩ := compress_decompress_G2 _ _ hlt P h
  refine ⟨hon, ?_⟩
  unfold g2ToSignature
  rw [hc]
  have i1 := i2osp_os2ip (bs.take 48)
  have i2 := i2osp_os2ip (bs.drop 48)
  rw [l1] at i1
  rw [l2] at i2
  simp only [bind, Except.bind, i1, i2, pure, Except.pure, List.take_append_drop]

/-! ### non-vacuity -/

/-- the G2 generator is a well-formed on-curve triple (hypotheses of `decompress_compress_G2`,
    `no_x0_point_G2`, `no_y0_point_G2`, `signatureToG2_g2ToSignature_roundtrip`) -/
example : CanonPt blsG2 ∧ Gen.OptBls.is_on_curve blsG2 blsB2 = true ∧ blsG2.2.2 ≠ 0 := by decide +kernel

/-- so is a non-normalized representative (`Z ≠ 1`) of `2·G2`, and infinity -/
example : CanonPt (Gen.OptBls.double blsG2) ∧
    Gen.OptBls.is_on_curve (Gen.OptBls.double blsG2) blsB2 = true ∧
    (Gen.OptBls.double blsG2).2.2 ≠ 1 ∧ (Gen.OptBls.double blsG2).2.2 ≠ 0 ∧
    CanonPt Z2 ∧ Gen.OptBls.is_on_curve Z2 blsB2 = true := by decide +kernel

/-- a pair satisfying the hypotheses of the canonicity theorem and both sides of the accept-set theorem
    (the encoding of the generator) -/
example : ∃ z1 z2 P, z1 < 2 ^ 384 ∧ decompressG2 z1 z2 = .ok P := by
  obtain ⟨z1, z2, h1, h2, _⟩ := decompress_compress_G2 blsG2 (by decide +kernel) (by decide +kernel)
  exact ⟨z1, z2, _, (compressG2_range blsG2 z1 z2 h1).1, h2⟩

/-- a 96-byte string accepted by `signature_to_G2` (hypotheses of `g2ToSignature_signatureToG2`) -/
example : ∃ bs P, bs.length = 96 ∧ signatureToG2 bs = .ok P := by
  obtain ⟨bs, _, hl, hs⟩ :=
    signatureToG2_g2ToSignature_roundtrip blsG2 (by decide +kernel) (by decide +kernel)
  exact ⟨bs, _, hl, hs⟩

end PyEcc.C11
