/-
  PyEcc.Props.C05_Gen — property C05 (pairings: unit on ∞, refusal of off-curve input, values are r-th roots of unity,
  negation inverts) restated about the GENERATED code.  Every py_ecc function in a statement below is a `PyEcc.Gen.*`
  definition, i.e. Lean code the translator produced from the Python source of this run:
    `Gen.ExtraPairing.{OptBls,OptBn,RefBls,RefBn}.pairing`      the four `pairing` functions
    `Gen.ExtraMiller.{…}.miller_loop`                            the four `miller_loop` functions
    `Gen.ExtraHashCurve.{…}.twist`, `.cast_point_to_fq12`        the helpers they call
    `Gen.{OptBls,OptBn,RefBls,RefBn}.is_on_curve / neg / multiply / is_inf / normalize`   the curve modules
    `Gen.ExtraCodec.subgroup_check`                              `py_ecc.bls.g2_primitives.subgroup_check`
  (points are tuples of the model field types `Fq p`, `Fqp v p mc`, whose arithmetic is tied to the generated field
  classes in `Props/TieFields*.lean` / `C08_Gen`, `C14_Gen`).
  Proofs: the tie theorems `Props/TiePairing.lean`, `TieMiller.lean`, `TieHashCurve.lean`, `TieCofactor.lean` composed
  with the model theorems of `Props/C05.lean`, `C05_Order.lean`, `C05_Neg.lean`, `C05_NegBn.lean`.

  NOT in this file: the bilinearity clause.  In `Props/C05.lean` it is the abstract derivation from the hypothesis
  `HB1` (no py_ecc function occurs in it); its code-level form (`ModelBilinearCode`) and non-degeneracy live in
  `Lemmas/ModelPairing.lean` / `PropsHeavy/C05_Nondeg*.lean`, which are heavy to build.  The restatement of the
  bilinearity hypothesis and of the scalar form `pairing(b·Q, a·P) == pairing(Q, P) ** (a·b)` on the generated functions
  is in the separate file `Props/C05_GenBilinear.lean`.
-/
import PyEcc.Props.C05
import PyEcc.Props.C05_Order
import PyEcc.Props.C05_Neg
import PyEcc.Props.C05_NegBn
import PyEcc.Props.TiePairing
import PyEcc.Props.TieHashCurve
import PyEcc.Props.TieCofactor

set_option linter.unusedSectionVars false
set_option maxRecDepth 100000

namespace PyEcc.C05.Gen
open Polynomial PyEcc PyEcc.Gen.Consts PyEcc.Fqp PyEcc.FqpSem PyEcc.Transfer PyEcc.PairingSem PyEcc.MillerSem

/-! ## the generated `pairing` is built from the generated `miller_loop`, `twist`, `cast_point_to_fq12` -/

/-- optimized bls12_381 `pairing(Q, P, fe)`: `ValueError` when `Q` or `P` fails `is_on_curve`, `FQ12.one()` when a `z`
    coordinate is zero, otherwise the generated `miller_loop(Q, P, fe)`. -/
theorem pairing_optBls_unfold (Q : OBls2 × OBls2 × OBls2) (P : Fq blsP × Fq blsP × Fq blsP) (fe : Bool) :
    Gen.ExtraPairing.OptBls.pairing Q P fe =
      if Gen.OptBls.is_on_curve Q (⟨optimized_bls12_381_b2⟩ : OBls2) = false then .error .value
      else if Gen.OptBls.is_on_curve P (Fq.ofInt optimized_bls12_381_b : Fq blsP) = false then .error .value
      else if P.2.2 = 0 ∨ Q.2.2 = 0 then .ok 1
      else .ok (Gen.ExtraMiller.OptBls.miller_loop Q P fe) := by
  rw [Tie.pairing_optBls_eq, pairingOptBls_eq, Tie.miller_loop_optBls_eq]

/-- optimized bn128 `pairing(Q, P, fe)`: the same guards, then the generated
    `miller_loop(twist(Q), cast_point_to_fq12(P), fe)` with the generated `twist` and `cast_point_to_fq12`. -/
theorem pairing_optBn_unfold (Q : OBn2 × OBn2 × OBn2) (P : Fq bnP × Fq bnP × Fq bnP) (fe : Bool) :
    Gen.ExtraPairing.OptBn.pairing Q P fe =
      if Gen.OptBn.is_on_curve Q (⟨optimized_bn128_b2⟩ : OBn2) = false then .error .value
      else if Gen.OptBn.is_on_curve P (Fq.ofInt optimized_bn128_b : Fq bnP) = false then .error .value
      else if P.2.2 = 0 ∨ Q.2.2 = 0 then .ok 1
      else .ok (Gen.ExtraMiller.OptBn.miller_loop (Gen.ExtraHashCurve.OptBn.twist Q)
        (Gen.ExtraHashCurve.OptBn.cast_point_to_fq12 P) fe) := by
  rw [Tie.pairing_optBn_eq, pairingOptBn_eq, Tie.miller_loop_optBn_eq, Tie.twist_optbn_eq,
    Tie.cast_point_to_fq12_optbn_eq]

/-- reference bls12_381 `pairing(Q, P)`: `ValueError` when `Q` or `P` fails `is_on_curve`, otherwise the generated
    `miller_loop(twist(Q), cast_point_to_fq12(P))` (which returns `FQ12.one()` for `None`). -/
theorem pairing_refBls_unfold (Q : Option (RBls2 × RBls2)) (P : Option (Fq blsP × Fq blsP)) :
    Gen.ExtraPairing.RefBls.pairing Q P =
      if Gen.RefBls.is_on_curve Q (⟨bls12_381_b2⟩ : RBls2) = false then .error .value
      else if Gen.RefBls.is_on_curve P (Fq.ofInt bls12_381_b : Fq blsP) = false then .error .value
      else Gen.ExtraMiller.RefBls.miller_loop (Gen.ExtraHashCurve.RefBls.twist Q)
        (Gen.ExtraHashCurve.RefBls.cast_point_to_fq12 P) := by
  rw [Tie.pairing_refBls_eq, MillerSem.pairingRefBls_eq, Tie.miller_loop_refBls_eq, Tie.twist_refbls_eq,
    Tie.cast_point_to_fq12_refbls_eq]
  rfl

/-- reference bn128 `pairing(Q, P)`: the same with the bn128 functions. -/
theorem pairing_refBn_unfold (Q : Option (RBn2 × RBn2)) (P : Option (Fq bnP × Fq bnP)) :
    Gen.ExtraPairing.RefBn.pairing Q P =
      if Gen.RefBn.is_on_curve Q (⟨bn128_b2⟩ : RBn2) = false then .error .value
      else if Gen.RefBn.is_on_curve P (Fq.ofInt bn128_b : Fq bnP) = false then .error .value
      else Gen.ExtraMiller.RefBn.miller_loop (Gen.ExtraHashCurve.RefBn.twist Q)
        (Gen.ExtraHashCurve.RefBn.cast_point_to_fq12 P) := by
  rw [Tie.pairing_refBn_eq, MillerBnSem.pairingRefBn_eq, Tie.miller_loop_refBn_eq, Tie.twist_refbn_eq,
    Tie.cast_point_to_fq12_refbn_eq]
  rfl

/-! ## unit on ∞, refusal of off-curve arguments (unconditional, all four implementations) -/

/-- **Unit on ∞, left argument.**  Reference modules: the generated `pairing(None, P)` returns `FQ12.one()` for every
    `P` that passes `is_on_curve`.  Optimized modules: every triple `Q` with `z = 0` (ANY representative of infinity)
    paired with an on-curve `P` gives `FQ12.one()`, with and without final exponentiation. -/
theorem pairing_inf_left :
    (∀ P, Gen.RefBls.is_on_curve P (Fq.ofInt bls12_381_b : Fq blsP) = true →
      Gen.ExtraPairing.RefBls.pairing none P = .ok 1) ∧
    (∀ P, Gen.RefBn.is_on_curve P (Fq.ofInt bn128_b : Fq bnP) = true →
      Gen.ExtraPairing.RefBn.pairing none P = .ok 1) ∧
    (∀ Q P fe, Q.2.2 = 0 → Gen.OptBls.is_on_curve P (Fq.ofInt optimized_bls12_381_b : Fq blsP) = true →
      Gen.ExtraPairing.OptBls.pairing Q P fe = .ok 1) ∧
    (∀ Q P fe, Q.2.2 = 0 → Gen.OptBn.is_on_curve P (Fq.ofInt optimized_bn128_b : Fq bnP) = true →
      Gen.ExtraPairing.OptBn.pairing Q P fe = .ok 1) := by
  obtain ⟨h1, h2, h3, h4⟩ := C05.pairing_inf_left
  exact ⟨fun P h => by rw [Tie.pairing_refBls_eq]; exact h1 P h, fun P h => by rw [Tie.pairing_refBn_eq]; exact h2 P h,
    fun Q P fe hz h => by rw [Tie.pairing_optBls_eq]; exact h3 Q P fe hz h,
    fun Q P fe hz h => by rw [Tie.pairing_optBn_eq]; exact h4 Q P fe hz h⟩

/-- **Unit on ∞, right argument**, all four generated `pairing` functions. -/
theorem pairing_inf_right :
    (∀ Q, Gen.RefBls.is_on_curve Q (⟨bls12_381_b2⟩ : RBls2) = true →
      Gen.ExtraPairing.RefBls.pairing Q none = .ok 1) ∧
    (∀ Q, Gen.RefBn.is_on_curve Q (⟨bn128_b2⟩ : RBn2) = true →
      Gen.ExtraPairing.RefBn.pairing Q none = .ok 1) ∧
    (∀ Q P fe, P.2.2 = 0 → Gen.OptBls.is_on_curve Q (⟨optimized_bls12_381_b2⟩ : OBls2) = true →
      Gen.ExtraPairing.OptBls.pairing Q P fe = .ok 1) ∧
    (∀ Q P fe, P.2.2 = 0 → Gen.OptBn.is_on_curve Q (⟨optimized_bn128_b2⟩ : OBn2) = true →
      Gen.ExtraPairing.OptBn.pairing Q P fe = .ok 1) := by
  obtain ⟨h1, h2, h3, h4⟩ := C05.pairing_inf_right
  exact ⟨fun Q h => by rw [Tie.pairing_refBls_eq]; exact h1 Q h, fun Q h => by rw [Tie.pairing_refBn_eq]; exact h2 Q h,
    fun Q P fe hz h => by rw [Tie.pairing_optBls_eq]; exact h3 Q P fe hz h,
    fun Q P fe hz h => by rw [Tie.pairing_optBn_eq]; exact h4 Q P fe hz h⟩

/-- **Refusal of off-curve arguments**, all four generated `pairing` functions: if either argument fails the module's
    `is_on_curve`, `pairing` raises `ValueError` — the arguments are refused instead of being paired. -/
theorem pairing_offcurve :
    (∀ Q P, (Gen.RefBls.is_on_curve Q (⟨bls12_381_b2⟩ : RBls2) = false ∨
             Gen.RefBls.is_on_curve P (Fq.ofInt bls12_381_b : Fq blsP) = false) →
      Gen.ExtraPairing.RefBls.pairing Q P = .error .value) ∧
    (∀ Q P, (Gen.RefBn.is_on_curve Q (⟨bn128_b2⟩ : RBn2) = false ∨
             Gen.RefBn.is_on_curve P (Fq.ofInt bn128_b : Fq bnP) = false) →
      Gen.ExtraPairing.RefBn.pairing Q P = .error .value) ∧
    (∀ Q P fe, (Gen.OptBls.is_on_curve Q (⟨optimized_bls12_381_b2⟩ : OBls2) = false ∨
                Gen.OptBls.is_on_curve P (Fq.ofInt optimized_bls12_381_b : Fq blsP) = false) →
      Gen.ExtraPairing.OptBls.pairing Q P fe = .error .value) ∧
    (∀ Q P fe, (Gen.OptBn.is_on_curve Q (⟨optimized_bn128_b2⟩ : OBn2) = false ∨
                Gen.OptBn.is_on_curve P (Fq.ofInt optimized_bn128_b : Fq bnP) = false) →
      Gen.ExtraPairing.OptBn.pairing Q P fe = .error .value) := by
  obtain ⟨h1, h2, h3, h4⟩ := C05.pairing_offcurve
  exact ⟨fun Q P h => by rw [Tie.pairing_refBls_eq]; exact h1 Q P h,
    fun Q P h => by rw [Tie.pairing_refBn_eq]; exact h2 Q P h,
    fun Q P fe h => by rw [Tie.pairing_optBls_eq]; exact h3 Q P fe h,
    fun Q P fe h => by rw [Tie.pairing_optBn_eq]; exact h4 Q P fe h⟩

/-- **The optimized pairings raise exactly on off-curve input**: the generated optimized bls12_381 and bn128
    `pairing(Q, P, fe)` raise an exception IFF `Q` or `P` fails `is_on_curve`, and the exception is then `ValueError`
    (there is no other way for them to fail). -/
theorem pairing_opt_error_iff :
    (∀ (Q : OBls2 × OBls2 × OBls2) (P : Fq blsP × Fq blsP × Fq blsP) (fe : Bool) (e : PyErr),
      Gen.ExtraPairing.OptBls.pairing Q P fe = .error e ↔
        (Gen.OptBls.is_on_curve Q (⟨optimized_bls12_381_b2⟩ : OBls2) = false ∨
         Gen.OptBls.is_on_curve P (Fq.ofInt optimized_bls12_381_b) = false) ∧ e = .value) ∧
    (∀ (Q : OBn2 × OBn2 × OBn2) (P : Fq bnP × Fq bnP × Fq bnP) (fe : Bool) (e : PyErr),
      Gen.ExtraPairing.OptBn.pairing Q P fe = .error e ↔
        (Gen.OptBn.is_on_curve Q (⟨optimized_bn128_b2⟩ : OBn2) = false ∨
         Gen.OptBn.is_on_curve P (Fq.ofInt optimized_bn128_b) = false) ∧ e = .value) :=
  ⟨fun Q P fe e => by rw [Tie.pairing_optBls_eq]; exact C05.pairingOptBls_error_iff Q P fe e,
   fun Q P fe e => by rw [Tie.pairing_optBn_eq]; exact C05.pairingOptBn_error_iff Q P fe e⟩

/-! ## every pairing value is an `r`-th root of unity (unconditional, all four implementations) -/

/-- **`pairing(Q, P) ** curve_order == FQ12.one()`**: every value `v` returned by any of the four generated `pairing`
    functions (on ANY arguments on which it returns) satisfies `v ** curve_order == FQ12.one()` as FQ12 coefficient
    lists, or `v == FQ12.zero()` (the alternative is excluded for subgroup arguments below). -/
theorem pairing_pow_r :
    (∀ Q P v, Gen.ExtraPairing.OptBls.pairing Q P true = .ok v → v ^ optimized_bls12_381_curve_order = 1 ∨ v = 0) ∧
    (∀ Q P v, Gen.ExtraPairing.OptBn.pairing Q P true = .ok v → v ^ optimized_bn128_curve_order = 1 ∨ v = 0) ∧
    (∀ Q P v, Gen.ExtraPairing.RefBls.pairing Q P = .ok v → v ^ bls12_381_curve_order = 1 ∨ v = 0) ∧
    (∀ Q P v, Gen.ExtraPairing.RefBn.pairing Q P = .ok v → v ^ bn128_curve_order = 1 ∨ v = 0) :=
  ⟨fun Q P v h => C05N.pairingOptBls_pow_r Q P v (by rwa [Tie.pairing_optBls_eq] at h),
   fun Q P v h => C05N.pairingOptBn_pow_r Q P v (by rwa [Tie.pairing_optBn_eq] at h),
   fun Q P v h => C05N.pairingRefBls_pow_r Q P v (by rwa [Tie.pairing_refBls_eq] at h),
   fun Q P v h => C05N.pairingRefBn_pow_r Q P v (by rwa [Tie.pairing_refBn_eq] at h)⟩

/-- **Order exactly `r`**: a value `v` returned by any of the four generated `pairing` functions that is neither
    `FQ12.one()` nor `FQ12.zero()` has multiplicative order exactly `curve_order` in the field
    `FQ12 = Fp[w]/(modulus)` (`toQ v`: the element of the quotient field denoted by the coefficient list). -/
theorem pairing_orderOf :
    (∀ Q P v, Gen.ExtraPairing.OptBls.pairing Q P true = .ok v → v ≠ 1 → v ≠ 0 →
      orderOf (toQ v) = optimized_bls12_381_curve_order) ∧
    (∀ Q P v, Gen.ExtraPairing.OptBn.pairing Q P true = .ok v → v ≠ 1 → v ≠ 0 →
      orderOf (toQ v) = optimized_bn128_curve_order) ∧
    (∀ Q P v, Gen.ExtraPairing.RefBls.pairing Q P = .ok v → v ≠ 1 → v ≠ 0 →
      orderOf (toQ v) = bls12_381_curve_order) ∧
    (∀ Q P v, Gen.ExtraPairing.RefBn.pairing Q P = .ok v → v ≠ 1 → v ≠ 0 →
      orderOf (toQ v) = bn128_curve_order) :=
  ⟨fun Q P v h => C05N.pairingOptBls_orderOf Q P v (by rwa [Tie.pairing_optBls_eq] at h),
   fun Q P v h => C05N.pairingOptBn_orderOf Q P v (by rwa [Tie.pairing_optBn_eq] at h),
   fun Q P v h => C05N.pairingRefBls_orderOf Q P v (by rwa [Tie.pairing_refBls_eq] at h),
   fun Q P v h => C05N.pairingRefBn_orderOf Q P v (by rwa [Tie.pairing_refBn_eq] at h)⟩

/-! ## negating either argument inverts the value (unconditional — no bilinearity hypothesis) -/

/-- **Negation inverts the pairing, optimized bls12_381.**  For every reduced FQ2 triple `Q` (`CanonT`: coefficients in
    `[0, p)`) on the twist curve that passes the generated `subgroup_check` and every FQ triple `P` on the G1 curve (ANY
    projective representatives; `P` need not be in the subgroup; ∞ allowed): the generated `pairing(Q, P)`,
    `pairing(Q, neg(P))`, `pairing(neg(Q), P)` all return, with values `v`, `v'`, `v''` such that
    `v * v' == FQ12.one()` and `v * v'' == FQ12.one()`; `v` is never `FQ12.zero()`, so `v ** curve_order == FQ12.one()`
    with no exceptional case, and if `v ≠ 1` its order is exactly `curve_order`. -/
theorem pairing_neg_optBls (Q : OBls2 × OBls2 × OBls2) (P : Fq blsP × Fq blsP × Fq blsP) (cQ : CanonT Q)
    (honQ : Gen.OptBls.is_on_curve Q blsB2 = true)
    (honP : Gen.OptBls.is_on_curve P (Fq.ofInt optimized_bls12_381_b : Fq blsP) = true)
    (hsub : Gen.ExtraCodec.subgroup_check Q = true) :
    ∃ v v' v'' : OBls12, Gen.ExtraPairing.OptBls.pairing Q P true = .ok v ∧
      Gen.ExtraPairing.OptBls.pairing Q (Gen.OptBls.neg P) true = .ok v' ∧
      Gen.ExtraPairing.OptBls.pairing (Gen.OptBls.neg Q) P true = .ok v'' ∧
      v * v' = 1 ∧ v * v'' = 1 ∧ v ≠ 0 ∧ v ^ optimized_bls12_381_curve_order = 1 ∧
      (v ≠ 1 → orderOf (toQ v : K12) = optimized_bls12_381_curve_order) := by
  rw [Tie.subgroup_check_eq] at hsub
  simp only [Tie.pairing_optBls_eq]
  obtain ⟨v, v', e, e', h⟩ := C05Neg.pairing_neg_right Q P cQ honQ honP hsub
  obtain ⟨v1, v'', e1, e'', h'⟩ := C05Neg.pairing_neg_left Q P cQ honQ honP hsub
  obtain ⟨v2, e2, h0⟩ := C05Neg.pairing_ne_zero Q P cQ honQ honP hsub
  obtain ⟨v3, e3, hr, ho⟩ := C05Neg.pairing_pow_r Q P cQ honQ honP hsub
  rw [e] at e1 e2 e3; cases e1; cases e2; cases e3
  exact ⟨v, v', v'', e, e', e'', h, h', h0, hr, ho⟩

/-- **The Miller-loop form** (no guards), generated optimized bls12_381 `miller_loop`: for a reduced finite on-curve
    `Q` passing `subgroup_check` and a finite on-curve `P`,
    `miller_loop(Q, P) * miller_loop(Q, neg(P)) == FQ12.one()` (both with `final_exponentiate=True`). -/
theorem miller_loop_neg_optBls {Q : OBls2 × OBls2 × OBls2} {P : Fq blsP × Fq blsP × Fq blsP} (cQ : CanonT Q)
    (hQz : Q.2.2 ≠ 0) (hPz : P.2.2 ≠ 0) (honQ : Gen.OptBls.is_on_curve Q blsB2 = true)
    (hsub : Gen.ExtraCodec.subgroup_check Q = true)
    (honP : Gen.OptBls.is_on_curve P (Fq.ofInt optimized_bls12_381_b : Fq blsP) = true) :
    Gen.ExtraMiller.OptBls.miller_loop Q P true * Gen.ExtraMiller.OptBls.miller_loop Q (Gen.OptBls.neg P) true = 1 := by
  rw [Tie.subgroup_check_eq] at hsub
  rw [Tie.miller_loop_optBls_eq, Tie.miller_loop_optBls_eq]
  exact C05Neg.millerLoop_neg_right cQ hQz hPz (C12M.millerRegular_of_subgroup cQ honQ hQz hsub) honP

/-- **Negation inverts the pairing, reference bls12_381.**  Let `q : Optional[(FQ2, FQ2)]` (reduced coefficients) and
    `p : Optional[(FQ, FQ)]` be the reference-module points of which the triples `Q`, `P` are projective representatives
    (`hQ`, `hP`; e.g. `q = normalize(Q)`), `Q`, `P` on their curves and `Q` passing `subgroup_check`.  Then the generated
    reference `pairing(q, p)`, `pairing(q, neg(p))`, `pairing(neg(q), p)` all return, with values `u`, `u'`, `u''` such
    that `u * u' == FQ12.one()` and `u * u'' == FQ12.one()`. -/
theorem pairing_neg_refBls [DecidableEq K2] (Q : OBls2 × OBls2 × OBls2) (P : Fq blsP × Fq blsP × Fq blsP)
    (q : Option (RBls2 × RBls2)) (p : Option (Fq blsP × Fq blsP)) (cQ : CanonT Q) (cq : MillerSem.GoodO Canon q)
    (hQ : toAff (mapT toQ Q) = MillerSem.mapO (toQ : RBls2 → K2) q) (hP : toAff P = p)
    (honQ : Gen.OptBls.is_on_curve Q blsB2 = true)
    (honP : Gen.OptBls.is_on_curve P (Fq.ofInt optimized_bls12_381_b : Fq blsP) = true)
    (hsub : Gen.ExtraCodec.subgroup_check Q = true) :
    ∃ u u' u'' : RBls12, Gen.ExtraPairing.RefBls.pairing q p = .ok u ∧
      Gen.ExtraPairing.RefBls.pairing q (Gen.RefBls.neg p) = .ok u' ∧
      Gen.ExtraPairing.RefBls.pairing (Gen.RefBls.neg q) p = .ok u'' ∧ u * u' = 1 ∧ u * u'' = 1 := by
  rw [Tie.subgroup_check_eq] at hsub
  simp only [Tie.pairing_refBls_eq]
  obtain ⟨u, u', e, e', h⟩ := C05Neg.pairingRefBls_neg_right Q P q p cQ cq hQ hP honQ honP hsub
  obtain ⟨u1, u'', e1, e'', h'⟩ := C05Neg.pairingRefBls_neg_left Q P q p cQ cq hQ hP honQ honP hsub
  rw [e] at e1; cases e1
  exact ⟨u, u', u'', e, e', e'', h, h'⟩

/-- **Negation inverts the pairing, optimized bn128.**  For every reduced FQ2 triple `Q` on the twist curve with
    `multiply(Q, curve_order)` infinite and every FQ triple `P` on the G1 curve (any projective representatives; ∞
    allowed): the generated `pairing(Q, P)`, `pairing(Q, neg(P))`, `pairing(neg(Q), P)` all return, with values `v`,
    `v'`, `v''` such that `v * v' == FQ12.one()` and `v * v'' == FQ12.one()`, and `v` is not `FQ12.zero()` — hence
    `v ** curve_order == FQ12.one()`. -/
theorem pairing_neg_optBn (Q : OBn2 × OBn2 × OBn2) (P : Fq bnP × Fq bnP × Fq bnP) (cQ : CanonT Q)
    (honQ : Gen.OptBn.is_on_curve Q bnB2 = true)
    (honP : Gen.OptBn.is_on_curve P (Fq.ofInt optimized_bn128_b : Fq bnP) = true)
    (hsub : Gen.OptBn.is_inf (Gen.OptBn.multiply Q optimized_bn128_curve_order) = true) :
    ∃ v v' v'' : OBn12, Gen.ExtraPairing.OptBn.pairing Q P true = .ok v ∧
      Gen.ExtraPairing.OptBn.pairing Q (Gen.OptBn.neg P) true = .ok v' ∧
      Gen.ExtraPairing.OptBn.pairing (Gen.OptBn.neg Q) P true = .ok v'' ∧
      v * v' = 1 ∧ v * v'' = 1 ∧ v ≠ 0 ∧ v ^ optimized_bn128_curve_order = 1 := by
  simp only [Tie.pairing_optBn_eq]
  obtain ⟨v, v', e, e', h0, h⟩ := C05NegBn.pairingOptBn_neg_right Q P cQ honQ honP hsub
  obtain ⟨v1, v'', e1, e'', h'⟩ := C05NegBn.pairingOptBn_neg_left Q P cQ honQ honP hsub
  rw [e] at e1; cases e1
  exact ⟨v, v', v'', e, e', e'', h, h', h0, (C05N.pairingOptBn_pow_r Q P v e).resolve_right h0⟩

/-- **Negation inverts the pairing, reference bn128**: as for bls12_381, with `Q`, `P` projective representatives of the
    reference-module points `q`, `p` and `multiply(Q, curve_order)` infinite. -/
theorem pairing_neg_refBn [DecidableEq K2bn] (Q : OBn2 × OBn2 × OBn2) (P : Fq bnP × Fq bnP × Fq bnP)
    (q : Option (RBn2 × RBn2)) (p : Option (Fq bnP × Fq bnP)) (cQ : CanonT Q) (cq : Transfer.GoodO Canon q)
    (hQ : toAff (mapT toQ Q) = Transfer.mapO (toQ : RBn2 → K2bn) q) (hP : toAff P = p)
    (honQ : Gen.OptBn.is_on_curve Q bnB2 = true)
    (honP : Gen.OptBn.is_on_curve P (Fq.ofInt optimized_bn128_b : Fq bnP) = true)
    (hsub : Gen.OptBn.is_inf (Gen.OptBn.multiply Q optimized_bn128_curve_order) = true) :
    ∃ u u' u'' : RBn12, Gen.ExtraPairing.RefBn.pairing q p = .ok u ∧
      Gen.ExtraPairing.RefBn.pairing q (Gen.RefBn.neg p) = .ok u' ∧
      Gen.ExtraPairing.RefBn.pairing (Gen.RefBn.neg q) p = .ok u'' ∧ u * u' = 1 ∧ u * u'' = 1 := by
  simp only [Tie.pairing_refBn_eq]
  obtain ⟨u, u', e, e', h⟩ := C05NegBn.pairingRefBn_neg_right Q P q p cQ cq hQ hP honQ honP hsub
  obtain ⟨u1, u'', e1, e'', h'⟩ := C05NegBn.pairingRefBn_neg_left Q P q p cQ cq hQ hP honQ honP hsub
  rw [e] at e1; cases e1
  exact ⟨u, u', u'', e, e', e'', h, h'⟩

/-! ## non-vacuity: the hypotheses above are satisfied by concrete points -/

/-- the optimized generators pass the guards; `(1, 1, 0)` has `z = 0`; `(0, 0, 1)` and `(0, 0)` fail the guards -/
example : Gen.OptBls.is_on_curve blsG1 (Fq.ofInt optimized_bls12_381_b) = true ∧
    Gen.OptBls.is_on_curve blsG2 (⟨optimized_bls12_381_b2⟩ : OBls2) = true ∧
    ((1, 1, 0) : OBls2 × OBls2 × OBls2).2.2 = 0 ∧
    Gen.OptBls.is_on_curve ((0, 0, 1) : Fq blsP × Fq blsP × Fq blsP) (Fq.ofInt optimized_bls12_381_b) = false ∧
    Gen.RefBn.is_on_curve (some (0, 0) : Option (Fq bnP × Fq bnP)) (Fq.ofInt bn128_b) = false := by
  decide +kernel
/-- concrete instances on the generated code: `e(∞, G1) = 1`, `e(G2, ∞) = 1`, and `(0,0,1)` is refused -/
example : Gen.ExtraPairing.OptBls.pairing (1, 1, 0) blsG1 true = .ok 1 ∧
    Gen.ExtraPairing.OptBls.pairing blsG2 (1, 1, 0) false = .ok 1 ∧
    Gen.ExtraPairing.OptBls.pairing blsG2 (0, 0, 1) true = .error .value :=
  ⟨pairing_inf_left.2.2.1 _ _ _ rfl (by decide +kernel), pairing_inf_right.2.2.1 _ _ _ rfl (by decide +kernel),
   pairing_offcurve.2.2.1 _ _ _ (Or.inr (by decide +kernel))⟩
/-- the generators satisfy the hypotheses of `pairing_neg_optBls` / `miller_loop_neg_optBls` -/
example : CanonT blsG2 ∧ Gen.OptBls.is_on_curve blsG2 blsB2 = true
    ∧ Gen.OptBls.is_on_curve blsG1 (Fq.ofInt optimized_bls12_381_b : Fq blsP) = true
    ∧ Gen.ExtraCodec.subgroup_check blsG2 = true ∧ blsG2.2.2 ≠ 0 ∧ blsG1.2.2 ≠ 0 :=
  ⟨C17M.blsG2_passes.1, C17M.blsG2_passes.2.1, C07.Facts.bls_G1_model.1,
    by rw [Tie.subgroup_check_eq]; exact C17M.blsG2_passes.2.2, by decide, by decide⟩
/-- … and those of the reference form, with `q := refOfOptG2 G2` (`normalize(G2)`), `p := refOfOptG1 G1` -/
example [DecidableEq K2] : MillerSem.GoodO Canon (C12M.refOfOptG2 blsG2)
    ∧ toAff (mapT toQ blsG2) = MillerSem.mapO (toQ : RBls2 → K2) (C12M.refOfOptG2 blsG2)
    ∧ toAff blsG1 = C12M.refOfOptG1 blsG1 :=
  ⟨(C12M.refOfOptG2_repr C17M.blsG2_passes.1).1, (C12M.refOfOptG2_repr C17M.blsG2_passes.1).2,
    C12M.refOfOptG1_repr blsG1⟩
/-- the bn128 generators satisfy the hypotheses of `pairing_neg_optBn`, `pairing_neg_refBn` -/
example : CanonT bnG2 ∧ Gen.OptBn.is_on_curve bnG2 bnB2 = true
    ∧ Gen.OptBn.is_on_curve bnG1 (Fq.ofInt optimized_bn128_b : Fq bnP) = true
    ∧ Gen.OptBn.is_inf (Gen.OptBn.multiply bnG2 optimized_bn128_curve_order) = true
    ∧ Transfer.GoodO Canon (C12MB.refOfOptG2 bnG2)
    ∧ toAff (mapT toQ bnG2) = Transfer.mapO (toQ : RBn2 → K2bn) (C12MB.refOfOptG2 bnG2)
    ∧ toAff bnG1 = C12MB.refOfOptG1 bnG1 :=
  ⟨by decide +kernel, C07.Facts.bn_G2_opt.1, C07M.Bn.bnG1_facts.1, C07.Facts.bn_G2_opt.2.2,
    (C12MB.refOfOptG2_repr (Q := bnG2) (by decide +kernel)).1,
    (C12MB.refOfOptG2_repr (Q := bnG2) (by decide +kernel)).2,
    C12MB.refOfOptG1_repr bnG1⟩

end PyEcc.C05.Gen
