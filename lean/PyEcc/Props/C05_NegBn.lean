/-
  PyEcc.Props.C05_NegBn — property C05, clause "negating either argument inverts the value", bn128,
  UNCONDITIONALLY (no bilinearity hypothesis):

      pairing(Q, P) · pairing(Q, neg(P)) = FQ12.one(),     pairing(Q, P) · pairing(neg(Q), P) = FQ12.one()

  for the optimized `pairing` (`py_ecc/optimized_bn128/optimized_pairing.py`) and the reference `pairing`
  (`py_ecc/bn128/bn128_pairing.py`), for every reduced on-curve `Q` with `multiply(Q, curve_order) = ∞`,
  every on-curve `P` (∞ or not), any projective representatives.  The pairing value is never `FQ12.zero()`.

  Model: `pairingOptBn`, `pairingRefBn`, `optBnMillerLoop`, `refMillerLoop` (with its two Frobenius line
  steps) of `Model/Pairing.lean` around the GENERATED `linefunc` / `double` / `add` / `neg` / `is_on_curve`.

  Proof (`Lemmas/NegBn*.lean`; same argument as `Props/C05_Neg.lean` for BLS12-381, run on the REFERENCE
  loop, to which the optimized one is tied by `C12_MillerBn`).  `σ : x ↦ x^(p⁶)` on
  `FQ12 = Fp[w]/(w¹² − 18w⁶ + 82)`, `σ w = −w`; a twisted point `(ψ(x)·w², ψ(y)·w³)` and its Frobenius
  images `π(Q)`, `−π²(Q)` have `x ∈ Fp⁶`, `y ∈ w·Fp⁶`; hence `f_Q(−P) = ±σ(f_Q(P))`, `f_{−Q}(P) = σ(f_Q(P))`,
  `f·σ(f) ∈ Fp⁶ \ {0}` is killed by `(p¹² − 1)/r`.  Non-vanishing: a non-vertical line value at `P` has
  `Fp⁶`-component `−y_P ≠ 0`; a vertical chord inside the loop or in the first Frobenius step makes the
  running point ∞ and the reference code raise; the last line `ℓ_{R, −π²(Q)}`, if vertical, has the value
  `x_P − x_{π²(Q)}`, and `x_P = x_{π²(Q)}` would force `y_{π²(Q)} = ±y_P ∈ Fp⁶ ∩ w·Fp⁶ = {0}` (both points
  lie on `y² = x³ + 3`).
-/
import PyEcc.Lemmas.NegBnPairing

set_option linter.unusedSectionVars false
set_option maxRecDepth 100000

namespace PyEcc.C05NegBn
open Polynomial PyEcc PyEcc.Gen PyEcc.Gen.Consts PyEcc.Fqp PyEcc.FqpSem PyEcc.Transfer PyEcc.TwistSem
  PyEcc.PairingSem PyEcc.MillerBnSem PyEcc.NegBnSem PyEcc.C13

/-! ### the grading of `FQ12` -/

/-- **The conjugation `σ : x ↦ x^(p⁶)` of bn128 `FQ12`**: `σ ∘ σ = id`, `σ(w) = −w`; `σ` fixes the base
    field, the image of `FQ2` under the twist embedding `i ↦ w⁶ − 9`, and `w²`; it negates `w` and `w³`.
    So `FQ12 = Fp⁶ ⊕ w·Fp⁶` (`InFp6 x : σ x = x`, `InWFp6 x : σ x = −x`), the sum is direct, `x·σ(x) ∈ Fp⁶`,
    and `(x·σ(x)) ^ ((p¹² − 1)/r) = 1` for `x ≠ 0`. -/
theorem Fp6_grading_bn :
    (∀ x : K12bn, sigma (sigma x) = x) ∧ sigma wbn = -wbn
      ∧ (∀ c : ZMod bnP, NegBnSem.InFp6 (ofZbn c)) ∧ (∀ a : K2bn, NegBnSem.InFp6 (psiBn a))
      ∧ NegBnSem.InFp6 (wbn ^ 2) ∧ InWFp6 wbn ∧ InWFp6 (wbn ^ 3)
      ∧ (∀ e o : K12bn, NegBnSem.InFp6 e → InWFp6 o → e + o = 0 → e = 0 ∧ o = 0)
      ∧ (∀ x : K12bn, NegBnSem.InFp6 (x * sigma x))
      ∧ (∀ x : K12bn, x ≠ 0 → (x * sigma x) ^ bnFinalExp = 1) :=
  ⟨sigma_sigma, sigma_w, even_ofZ, even_psi, even_w2, odd_w, odd_w3,
    fun _ _ he ho h => even_add_odd_eq_zero he ho h, even_mul_sigma, fun _ h => norm_pow_finalExp h⟩

/-! ### the optimized `pairing` -/

/-- **Negating the G1 argument inverts the pairing** (optimized bn128, unconditional).
    For every reduced FQ2 triple `Q` on the twist curve with `multiply(Q, curve_order) = ∞` and every FQ
    triple `P` on the G1 curve (any projective representatives; ∞ allowed): `pairing(Q, P)` and
    `pairing(Q, neg(P))` both return, values `v`, `v'` with `v * v' == FQ12.one()` (coefficient lists of the
    executable model), and `v` is not `FQ12.zero()`. -/
theorem pairingOptBn_neg_right (Q : BnG2Pt) (P : BnG1Pt) (cQ : CanonT Q)
    (honQ : OptBn.is_on_curve Q bnB2 = true)
    (honP : OptBn.is_on_curve P (Fq.ofInt optimized_bn128_b : Fq bnP) = true)
    (hsub : OptBn.is_inf (OptBn.multiply Q optimized_bn128_curve_order) = true) :
    ∃ v v' : OBn12, pairingOptBn Q P true = .ok v ∧ pairingOptBn Q (OptBn.neg P) true = .ok v'
      ∧ v ≠ 0 ∧ v * v' = 1 := by
  classical
  obtain ⟨v, v', e, e', _, _, h0, h⟩ := pairingBn_neg_right_core Q P cQ honQ honP hsub
  exact ⟨v, v', e, e', h0, h⟩

/-- **Negating the G2 argument inverts the pairing** (optimized bn128, unconditional).  Same hypotheses:
    `pairing(Q, P)` and `pairing(neg(Q), P)` both return, values `v`, `v''` with `v * v'' == FQ12.one()`. -/
theorem pairingOptBn_neg_left (Q : BnG2Pt) (P : BnG1Pt) (cQ : CanonT Q)
    (honQ : OptBn.is_on_curve Q bnB2 = true)
    (honP : OptBn.is_on_curve P (Fq.ofInt optimized_bn128_b : Fq bnP) = true)
    (hsub : OptBn.is_inf (OptBn.multiply Q optimized_bn128_curve_order) = true) :
    ∃ v v'' : OBn12, pairingOptBn Q P true = .ok v ∧ pairingOptBn (OptBn.neg Q) P true = .ok v''
      ∧ v * v'' = 1 := by
  classical
  obtain ⟨v, v', e, e', _, _, h⟩ := pairingBn_neg_left_core Q P cQ honQ honP hsub
  exact ⟨v, v', e, e', h⟩

/-! ### the reference `pairing` -/

/-- **Negating the G1 argument inverts the pairing** (reference bn128).  Let `q : Optional[(FQ2, FQ2)]`
    (reduced coefficients) and `p : Optional[(FQ, FQ)]` be on their curves, `q` killed by `curve_order` —
    expressed through any projective representative `Q` of `q` (e.g. `q = refOfOptG2 Q`); `P` any
    representative of `p`.  Then `pairing(q, p)` and `pairing(q, neg(p))` of `py_ecc.bn128` both return,
    values `u`, `u'` with `u * u' == FQ12.one()`. -/
theorem pairingRefBn_neg_right [DecidableEq K2bn] (Q : BnG2Pt) (P : BnG1Pt) (q : Option (RBn2 × RBn2))
    (p : Option (Fq bnP × Fq bnP)) (cQ : CanonT Q) (cq : GoodO Canon q)
    (hQ : toAff (mapT toQ Q) = mapO (toQ : RBn2 → K2bn) q) (hP : toAff P = p)
    (honQ : OptBn.is_on_curve Q bnB2 = true)
    (honP : OptBn.is_on_curve P (Fq.ofInt optimized_bn128_b : Fq bnP) = true)
    (hsub : OptBn.is_inf (OptBn.multiply Q optimized_bn128_curve_order) = true) :
    ∃ u u' : RBn12, pairingRefBn q p = .ok u ∧ pairingRefBn q (RefBn.neg p) = .ok u'
      ∧ u * u' = 1 := by
  classical
  obtain ⟨v, v', e, e', c, c', _, h⟩ := pairingBn_neg_right_core Q P cQ honQ honP hsub
  have t := C12MB.pairingOptBn_eq_pairingRefBn_subgroup Q P q p cQ cq hQ hP hsub
  have hP' : toAff (OptBn.neg P) = RefBn.neg p := by rw [toAff_neg_G1bn, hP]
  have t' := C12MB.pairingOptBn_eq_pairingRefBn_subgroup Q (OptBn.neg P) q _ cQ cq hQ hP' hsub
  rw [e] at t
  rw [e'] at t'
  obtain ⟨u, eu, cu⟩ := coeffs_of_map_eq_bn t
  obtain ⟨u', eu', cu'⟩ := coeffs_of_map_eq_bn t'
  exact ⟨u, u', eu, eu', ref_mul_eq_one_bn c c' cu cu' h⟩

/-- **Negating the G2 argument inverts the pairing** (reference bn128).  Same hypotheses: `pairing(q, p)`
    and `pairing(neg(q), p)` both return, values `u`, `u''` with `u * u'' == FQ12.one()`. -/
theorem pairingRefBn_neg_left [DecidableEq K2bn] (Q : BnG2Pt) (P : BnG1Pt) (q : Option (RBn2 × RBn2))
    (p : Option (Fq bnP × Fq bnP)) (cQ : CanonT Q) (cq : GoodO Canon q)
    (hQ : toAff (mapT toQ Q) = mapO (toQ : RBn2 → K2bn) q) (hP : toAff P = p)
    (honQ : OptBn.is_on_curve Q bnB2 = true)
    (honP : OptBn.is_on_curve P (Fq.ofInt optimized_bn128_b : Fq bnP) = true)
    (hsub : OptBn.is_inf (OptBn.multiply Q optimized_bn128_curve_order) = true) :
    ∃ u u'' : RBn12, pairingRefBn q p = .ok u ∧ pairingRefBn (RefBn.neg q) p = .ok u''
      ∧ u * u'' = 1 := by
  classical
  obtain ⟨v, v', e, e', c, c', h⟩ := pairingBn_neg_left_core Q P cQ honQ honP hsub
  obtain ⟨cN, _, hsubN⟩ := neg_G2bn_facts cQ honQ hsub
  obtain ⟨cqN, hQN⟩ := toAff_neg_G2bn cQ cq hQ
  have t := C12MB.pairingOptBn_eq_pairingRefBn_subgroup Q P q p cQ cq hQ hP hsub
  have t' := C12MB.pairingOptBn_eq_pairingRefBn_subgroup (OptBn.neg Q) P _ p cN cqN hQN hP hsubN
  rw [e] at t
  rw [e'] at t'
  obtain ⟨u, eu, cu⟩ := coeffs_of_map_eq_bn t
  obtain ⟨u', eu', cu'⟩ := coeffs_of_map_eq_bn t'
  exact ⟨u, u', eu, eu', ref_mul_eq_one_bn c c' cu cu' h⟩

/-! ### non-vacuity -/

/-- the generators satisfy the hypotheses of `pairingOptBn_neg_right`, `pairingOptBn_neg_left` -/
example : CanonT bnG2 ∧ OptBn.is_on_curve bnG2 bnB2 = true
    ∧ OptBn.is_on_curve bnG1 (Fq.ofInt optimized_bn128_b : Fq bnP) = true
    ∧ OptBn.is_inf (OptBn.multiply bnG2 optimized_bn128_curve_order) = true :=
  ⟨by decide +kernel, C07.Facts.bn_G2_opt.1, C07M.Bn.bnG1_facts.1, C07.Facts.bn_G2_opt.2.2⟩

/-- … and those of the reference forms, with `q := refOfOptG2 G2`, `p := refOfOptG1 G1` -/
example [DecidableEq K2bn] : GoodO Canon (C12MB.refOfOptG2 bnG2)
    ∧ toAff (mapT toQ bnG2) = mapO (toQ : RBn2 → K2bn) (C12MB.refOfOptG2 bnG2)
    ∧ toAff bnG1 = C12MB.refOfOptG1 bnG1 :=
  ⟨(C12MB.refOfOptG2_repr (by decide +kernel)).1, (C12MB.refOfOptG2_repr (by decide +kernel)).2,
    C12MB.refOfOptG1_repr bnG1⟩

end PyEcc.C05NegBn
