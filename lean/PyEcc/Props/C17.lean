/-
  PyEcc.Props.C17 — property C17: the subgroup test is exact and cofactor clearing lands in the
  subgroup.  This file has (1) the group theory, in an arbitrary commutative group (no curve, no
  hypotheses beyond what is written), and (2) the ties between the model functions
  `subgroupCheck`, `clearCofactorG1`, `clearCofactorG2` and the standard scalars.

  How the pieces combine: by C07/C13 (other files) `Gen.OptBls.multiply T n` represents `n • P`
  when `T` represents `P`, and `is_inf` tests `P = 0`; hence `subgroup_check T` decides `r • P = 0`.
  The theorems below say what `r • P = 0` means (order divides `r`; for the prime `r` of BLS12-381:
  `P = 0` or `P` has order exactly `r`), that it accepts all multiples of a generator, that it
  rejects every `k•G + T` with `T ≠ 0` in the cofactor part (`Nat.Coprime h r` is proved for the
  real cofactors in `Props/C17_Consts.lean`), and that multiplying by the cofactor `h` — or by any
  multiple `h_eff` of it — sends every point of a group of exponent `h·r` into the `r`-torsion.
-/
import Mathlib.GroupTheory.OrderOfElement
import Mathlib.Data.Nat.GCD.Basic
import Mathlib.Data.Nat.ModEq
import PyEcc.Sem.Primes
import PyEcc.Model.Swu
import PyEcc.Model.Codec
import PyEcc.Props.C07_Consts
import PyEcc.Props.C17_Consts

namespace PyEcc.C17
open PyEcc.Gen.Consts

/-! ### group theory -/

section group
variable {G : Type*} [AddCommGroup G]

/-- The subgroup test accepts every multiple of a generator of order dividing `r`:
    if `r • g = 0` then `r • (k • g) = 0`. -/
theorem accepts_multiples {r : ℕ} (g : G) (k : ℕ) (hr : r • g = 0) : r • (k • g) = 0 := by
  rw [smul_comm, hr, smul_zero]

/-- The subgroup test accepts the identity. -/
theorem accepts_zero (r : ℕ) : r • (0 : G) = 0 := smul_zero r

/-- `r • P = 0` says exactly that the order of `P` divides `r`. -/
theorem subgroup_iff_order_dvd {r : ℕ} (P : G) : r • P = 0 ↔ addOrderOf P ∣ r :=
  addOrderOf_dvd_iff_nsmul_eq_zero.symm

/-- For prime `r`, `r • P = 0` says exactly that `P` is the identity or has order exactly `r`. -/
theorem subgroup_iff_prime {r : ℕ} (hp : r.Prime) (P : G) :
    r • P = 0 ↔ P = 0 ∨ addOrderOf P = r := by
  rw [subgroup_iff_order_dvd, Nat.dvd_prime hp, AddMonoid.addOrderOf_eq_one_iff]

/-- A point killed by two coprime scalars is the identity. -/
theorem eq_zero_of_coprime {h r : ℕ} (hc : Nat.Coprime h r) (T : G) (hT : h • T = 0)
    (hrT : r • T = 0) : T = 0 := by
  have h1 : addOrderOf T ∣ h := addOrderOf_dvd_iff_nsmul_eq_zero.mpr hT
  have h2 : addOrderOf T ∣ r := addOrderOf_dvd_iff_nsmul_eq_zero.mpr hrT
  have h3 : addOrderOf T ∣ 1 := hc ▸ Nat.dvd_gcd h1 h2
  exact AddMonoid.addOrderOf_eq_one_iff.mp (Nat.dvd_one.mp h3)

/-- The subgroup test is exact on mixed points: if the cofactor `h` is coprime to `r`, `g` is in the
    `r`-torsion and `T ≠ 0` is in the `h`-torsion, then `r • (k • g + T) ≠ 0`, for every `k`. -/
theorem reject_mixed {h r : ℕ} (hc : Nat.Coprime h r) (g T : G) (k : ℕ) (hr : r • g = 0)
    (hT : h • T = 0) (hne : T ≠ 0) : r • (k • g + T) ≠ 0 := by
  intro h0
  rw [smul_add, accepts_multiples g k hr, zero_add] at h0
  exact hne (eq_zero_of_coprime hc T hT h0)

/-- Clearing the cofactor lands in the `r`-torsion: if `(h·r) • P = 0` then `r • (h • P) = 0`. -/
theorem clear_lands {h r : ℕ} (P : G) (hP : (h * r) • P = 0) : r • (h • P) = 0 := by
  rw [smul_smul, Nat.mul_comm]; exact hP

/-- Clearing by an *effective* cofactor (any multiple of the true cofactor `h`, such as
    `H_EFF_G2 = h₂·(3x²−3)`) lands in the `r`-torsion too. -/
theorem clear_eff {h heff r : ℕ} (hd : h ∣ heff) (P : G) (hP : (h * r) • P = 0) :
    r • (heff • P) = 0 := by
  obtain ⟨c, rfl⟩ := hd
  have : r * (h * c) = c * (h * r) := by ring
  rw [smul_smul, this, ← smul_smul, hP, smul_zero]

/-- In a group of exponent dividing `h·r` with `h`, `r` coprime, the `r`-torsion is exactly the
    image of multiplication by `h`: the subgroup test accepts `P` iff `P` is a cleared point. -/
theorem subgroup_iff_cleared {h r : ℕ} (hc : Nat.Coprime h r) (hexp : ∀ Q : G, (h * r) • Q = 0)
    (P : G) : r • P = 0 ↔ ∃ Q : G, P = h • Q := by
  constructor
  · intro hP
    -- Bézout over ℤ: `h * a + r * b = 1`
    have hb : (h : ℤ) * Nat.gcdA h r + (r : ℤ) * Nat.gcdB h r = 1 := by
      have := Nat.gcd_eq_gcd_ab h r
      rw [hc] at this
      exact_mod_cast this.symm
    refine ⟨(Nat.gcdA h r) • P, ?_⟩
    have hrz : ((r : ℤ) * Nat.gcdB h r) • P = 0 := by
      rw [mul_comm, mul_smul, natCast_zsmul, hP, smul_zero]
    calc P = (1 : ℤ) • P := (one_smul ℤ P).symm
      _ = ((h : ℤ) * Nat.gcdA h r + (r : ℤ) * Nat.gcdB h r) • P := by rw [hb]
      _ = ((h : ℤ) * Nat.gcdA h r) • P := by rw [add_smul, hrz, add_zero]
      _ = h • (Nat.gcdA h r • P) := by rw [mul_smul, natCast_zsmul]
  · rintro ⟨Q, rfl⟩
    exact clear_lands Q (hexp Q)

/-- Multiplication by a scalar coprime to `r` is injective on the `r`-torsion: clearing by
    `H_EFF` (coprime to `r`, `Props/C17_Consts.lean`) does not collapse the subgroup. -/
theorem clear_injective_on_torsion {heff r : ℕ} (hc : Nat.Coprime heff r) (P Q : G)
    (hP : r • P = 0) (hQ : r • Q = 0) (hPQ : heff • P = heff • Q) : P = Q := by
  have h1 : heff • (P - Q) = 0 := by rw [smul_sub, hPQ, sub_self]
  have h2 : r • (P - Q) = 0 := by rw [smul_sub, hP, hQ, sub_self]
  exact sub_eq_zero.mp (eq_zero_of_coprime hc _ h1 h2)

end group

/-! non-vacuity of the hypotheses: `G = ZMod 6`, `r = 3`, `h = 2`, `g = 2`, `T = 3` -/
example : Nat.Coprime 2 3 ∧ (3 • (2 : ZMod 6) = 0) ∧ (2 • (3 : ZMod 6) = 0) ∧ (3 : ZMod 6) ≠ 0 ∧
    (∀ Q : ZMod 6, (2 * 3) • Q = 0) := by decide

/-! ### the BLS12-381 instance -/

/-- For the library's `curve_order` (a proved prime), the relation the subgroup check decides means:
    the point is the identity or has order exactly `curve_order`. -/
theorem subgroup_iff_blsR {G : Type*} [AddCommGroup G] (P : G) :
    blsR • P = 0 ↔ P = 0 ∨ addOrderOf P = blsR := by
  have hp : Nat.Prime blsR := by
    have : blsR = bls12_381_curve_order := by decide
    rw [this]; exact prime_blsR
  exact subgroup_iff_prime hp P

/-- `reject_mixed` at the real constants, G1: in any commutative group, a point `k•g + T` with
    `curve_order • g = 0`, `h₁ • T = 0`, `T ≠ 0` fails `curve_order • · = 0`. -/
theorem reject_mixed_G1 {G : Type*} [AddCommGroup G] (g T : G) (k : ℕ) (hr : blsR • g = 0)
    (hT : Spec.BLS12381.h1 • T = 0) (hne : T ≠ 0) : blsR • (k • g + T) ≠ 0 :=
  reject_mixed coprime_h1_r g T k hr hT hne

/-- `reject_mixed` at the real constants, G2 (`h₂ = G2_COFACTOR`). -/
theorem reject_mixed_G2 {G : Type*} [AddCommGroup G] (g T : G) (k : ℕ) (hr : blsR • g = 0)
    (hT : blsconst_G2_COFACTOR • T = 0) (hne : T ≠ 0) : blsR • (k • g + T) ≠ 0 :=
  reject_mixed coprime_h2_r g T k hr hT hne

/-- `clear_cofactor_G2` lands in the `r`-torsion of any group of exponent `h₂·r`: the library's
    `H_EFF_G2` is a multiple of `G2_COFACTOR`. -/
theorem clear_G2_lands {G : Type*} [AddCommGroup G] (P : G)
    (hP : (blsconst_G2_COFACTOR * blsR) • P = 0) : blsR • (h2c_H_EFF_G2 • P) = 0 :=
  clear_eff H_EFF_G2_eq.2.2 P hP

/-! ### the model functions use these scalars -/

section model
variable {F : Type} [Zero F] [One F] [Add F] [Sub F] [Mul F] [Neg F] [Div F] [NatCast F] [Pow F Nat]
  [DecidableEq F]

/-- `subgroup_check(P)` is `is_inf(multiply(P, curve_order))` with the *standard* group order
    `r = 0x73eda753…00000001`, for points over any coefficient type. -/
theorem subgroupCheck_eq (T : F × F × F) :
    subgroupCheck T = Gen.OptBls.is_inf (Gen.OptBls.multiply T Spec.BLS12381.r) := by
  have h : blsR = Spec.BLS12381.r := C07.Consts.bls_model_p_r.2
  unfold subgroupCheck
  rw [h]

/-- The same with the library's own constant (definitional). -/
theorem subgroupCheck_def (T : F × F × F) :
    subgroupCheck T = Gen.OptBls.is_inf (Gen.OptBls.multiply T blsR) := rfl

/-- `subgroup_check(P)` is true exactly when the `z` coordinate of `multiply(P, r)` is zero. -/
theorem subgroupCheck_iff (T : F × F × F) :
    subgroupCheck T = true ↔ (Gen.OptBls.multiply T Spec.BLS12381.r).2.2 = 0 := by
  rw [subgroupCheck_eq]; unfold Gen.OptBls.is_inf; exact decide_eq_true_iff

end model

/-- `clear_cofactor_G1(P) = multiply(P, H_EFF_G1)` with RFC 9380's `h_eff = 0xd201000000010001`. -/
theorem clearCofactorG1_eq (T : F1 × F1 × F1) :
    clearCofactorG1 T = Gen.OptBls.multiply T Spec.H2C.hEffG1 := by
  have h : h2c_H_EFF_G1 = Spec.H2C.hEffG1 := H_EFF_G1_eq.1
  unfold clearCofactorG1
  rw [h]

/-- `clear_cofactor_G2(P) = multiply(P, H_EFF_G2)` with RFC 9380's `h_eff` for G2
    (`= h₂·(3x²−3)`, `spec_hEffG2_from_seed`). -/
theorem clearCofactorG2_eq (T : F2 × F2 × F2) :
    clearCofactorG2 T = Gen.OptBls.multiply T Spec.H2C.hEffG2 := by
  have h : h2c_H_EFF_G2 = Spec.H2C.hEffG2 := H_EFF_G2_eq.1
  unfold clearCofactorG2
  rw [h]

end PyEcc.C17
