-- INSTANTIATE: Bls Bn
/-
  Property C07 (stage 1, reference affine modules) — TEMPLATE, instantiated by `sed 's/@NS@/Bls/g'`
  (and `Bn`) to `Props/C07_Bls.lean`, `Props/C07_Bn.lean`.

  The generated reference curve functions `Gen.Ref@NS@.{is_on_curve, double, add, multiply, neg}`
  (translated from the Python source on every run; generic over the coordinate field `F`) compute the
  group law of the elliptic curve `y² = x³ + b` as defined in Mathlib (`(W b).Point`, an
  `AddCommGroup`), through the representation `reprRef : (W b).Point → Option (F × F)` (`none` = ∞).
  Everything holds over an ARBITRARY field `F` with `2 ≠ 0` (and `3 ≠ 0`, `b ≠ 0` where
  nonsingularity of every solution of the equation is needed), so it covers `FQ`, `FQ2`, `FQ12`
  coordinates at once.  The commutative-group laws of the Python functions are then Mathlib's
  theorems transported along `reprRef`.
-/
import PyEcc.Gen.Ref@NS@
import PyEcc.Lemmas.CurveAux
import Mathlib.Tactic.NormNum
import Mathlib.Algebra.Field.Rat

set_option linter.unusedSectionVars false
set_option linter.unusedVariables false

namespace PyEcc.C07.@NS@
open PyEcc.CurveSem WeierstrassCurve

variable {F : Type} [Field F] [DecidableEq F]

/-! ### the generated functions are the chord–tangent formulas (no hypotheses, any field) -/

theorem gen_double_eq (pt : Option (F × F)) : Gen.Ref@NS@.double pt = sDouble pt := by
  rcases pt with _ | ⟨x, y⟩
  · simp [Gen.Ref@NS@.double, Gen.Ref@NS@.is_inf, sDouble]
  · simp [Gen.Ref@NS@.double, Gen.Ref@NS@.is_inf, sDouble]

theorem gen_neg_eq (pt : Option (F × F)) : Gen.Ref@NS@.neg pt = sNeg pt := by
  rcases pt with _ | ⟨x, y⟩
  · simp [Gen.Ref@NS@.neg, sNeg]
  · simp [Gen.Ref@NS@.neg, sNeg]

/-- `add` never raises (its `newy != …` consistency check cannot fail in a field) and computes the
    chord–tangent formula. -/
theorem gen_add_eq (p q : Option (F × F)) : Gen.Ref@NS@.add p q = .ok (sAdd p q) := by
  rcases p with _ | ⟨x1, y1⟩ <;> rcases q with _ | ⟨x2, y2⟩
  · simp [Gen.Ref@NS@.add, sAdd]
  · simp [Gen.Ref@NS@.add, sAdd]
  · simp [Gen.Ref@NS@.add, sAdd]
  · by_cases hx : x2 = x1
    · by_cases hy : y2 = y1
      · simp [Gen.Ref@NS@.add, sAdd, hx, hy, gen_double_eq]
      · simp [Gen.Ref@NS@.add, sAdd, hx, hy]
    · have hc := chord_check x1 y1 x2 y2 hx
      simp only [Gen.Ref@NS@.add, sAdd, hx, false_and, reduceCtorEq, or_self, if_false]
      rw [if_neg (not_not.mpr hc)]

theorem gen_is_on_curve_iff (pt : Option (F × F)) (b : F) :
    Gen.Ref@NS@.is_on_curve pt b = true ↔ sOn pt b := by
  rcases pt with _ | ⟨x, y⟩
  · simp [Gen.Ref@NS@.is_on_curve, Gen.Ref@NS@.is_inf, sOn]
  · simp [Gen.Ref@NS@.is_on_curve, Gen.Ref@NS@.is_inf, sOn]

/-! ### refinement of Mathlib's group law -/

/-- `add(P, Q)` of the reference module never raises on curve points and returns the representation
    of the Mathlib sum `P + Q` (all cases: ∞ operands, `P = Q`, `P = -Q`, generic chord). -/
theorem ref_add_refines {b : F} (h2 : (2 : F) ≠ 0) (P Q : (W b).Point) :
    Gen.Ref@NS@.add (reprRef P) (reprRef Q) = .ok (reprRef (P + Q)) := by
  rw [gen_add_eq, sAdd_refines h2]

/-- `double(P)` returns the representation of `P + P`; in particular for a point of order two
    (`y = 0`) it returns ∞ (repair F3) exactly as Mathlib's `P + P = 0` — no "no 2-torsion" hypothesis. -/
theorem ref_double_refines {b : F} (h2 : (2 : F) ≠ 0) (P : (W b).Point) :
    Gen.Ref@NS@.double (reprRef P) = reprRef (P + P) := by
  rw [gen_double_eq, sDouble_refines h2]

/-- `neg(P)` returns the representation of the Mathlib inverse `-P`. -/
theorem ref_neg_refines {b : F} (P : (W b).Point) :
    Gen.Ref@NS@.neg (reprRef P) = reprRef (-P) := by
  rw [gen_neg_eq, sNeg_refines]

theorem ref_multiplyAux_refines {b : F} (h2 : (2 : F) ≠ 0) : ∀ (fuel n : Nat) (P : (W b).Point),
    n < 2 ^ (fuel + 1) → Gen.Ref@NS@.multiplyAux (fuel + 1) (reprRef P) n = .ok (reprRef (n • P)) := by
  intro fuel
  induction fuel with
  | zero =>
    intro n P h
    have hn : n = 0 ∨ n = 1 := by omega
    rcases hn with rfl | rfl
    · simp [Gen.Ref@NS@.multiplyAux]
    · simp [Gen.Ref@NS@.multiplyAux]
  | succ k ih =>
    intro n P h
    unfold Gen.Ref@NS@.multiplyAux
    by_cases h0 : n = 0
    · subst h0; simp
    by_cases h1 : n = 1
    · subst h1; simp
    rw [if_neg h0, if_neg h1]
    have hlt : n / 2 < 2 ^ (k + 1) := by
      rw [Nat.div_lt_iff_lt_mul (by norm_num)]; rw [pow_succ] at h; omega
    have hsplit : n = 2 * (n / 2) + n % 2 := by omega
    rw [ref_double_refines h2, ih _ _ hlt]
    by_cases hev : n % 2 = 0
    · rw [if_pos hev]
      simp only
      congr 2
      conv_rhs => rw [hsplit, hev, add_zero, mul_comm, mul_smul, two_smul]
    · rw [if_neg hev]
      simp only
      rw [ref_add_refines h2]
      have hodd : n % 2 = 1 := by omega
      simp only
      congr 2
      conv_rhs => rw [hsplit, hodd, add_smul, one_smul, mul_comm, mul_smul, two_smul]

/-- `multiply(P, n)` (recursive double-and-add; the translator's fuel `n + 1` always suffices) never
    raises on a curve point and returns the representation of the Mathlib scalar multiple `n • P`,
    for EVERY natural `n` (including `0` and multiples of the order). -/
theorem ref_multiply_refines {b : F} (h2 : (2 : F) ≠ 0) (P : (W b).Point) (n : Nat) :
    Gen.Ref@NS@.multiply (reprRef P) n = .ok (reprRef (n • P)) := by
  unfold Gen.Ref@NS@.multiply
  exact ref_multiplyAux_refines h2 n n P (lt_trans Nat.lt_two_pow_self (Nat.pow_lt_pow_right (by norm_num) (Nat.lt_succ_self n)))

/-- `is_on_curve(pt, b)` accepts exactly ∞ and the coordinate pairs of Mathlib points of
    `y² = x³ + b` (for `b ≠ 0`, `2, 3 ≠ 0` every solution of the equation is a nonsingular point). -/
theorem ref_is_on_curve_iff {b : F} (h2 : (2 : F) ≠ 0) (h3 : (3 : F) ≠ 0) (hb : b ≠ 0)
    (pt : Option (F × F)) :
    Gen.Ref@NS@.is_on_curve pt b = true ↔ ∃ P : (W b).Point, reprRef P = pt := by
  rw [gen_is_on_curve_iff, sOn_iff_exists h2 h3 hb]

example : (2 : ℚ) ≠ 0 ∧ (3 : ℚ) ≠ 0 ∧ (1 : ℚ) ≠ 0 := by norm_num

/-- The representation of points is injective: different Mathlib points have different Python values. -/
theorem reprRef_injective {b : F} : Function.Injective (reprRef (b := b)) :=
  CurveSem.reprRef_injective

/-! ### the group laws, stated directly about the generated code on on-curve inputs -/

section laws
variable {b : F} (h2 : (2 : F) ≠ 0) (h3 : (3 : F) ≠ 0) (hb : b ≠ 0)
include h2 h3 hb

/-- Commutativity: for on-curve inputs `add(p, q)` and `add(q, p)` return the same value. -/
theorem ref_add_comm {p q : Option (F × F)} (hp : Gen.Ref@NS@.is_on_curve p b = true)
    (hq : Gen.Ref@NS@.is_on_curve q b = true) : Gen.Ref@NS@.add p q = Gen.Ref@NS@.add q p := by
  obtain ⟨P, rfl⟩ := (ref_is_on_curve_iff h2 h3 hb p).mp hp
  obtain ⟨Q, rfl⟩ := (ref_is_on_curve_iff h2 h3 hb q).mp hq
  rw [ref_add_refines h2, ref_add_refines h2, add_comm]

/-- Associativity: `add(add(p, q), r) = add(p, add(q, r))` for on-curve inputs (both sides are
    evaluated in the exception monad; neither raises). -/
theorem ref_add_assoc {p q r : Option (F × F)} (hp : Gen.Ref@NS@.is_on_curve p b = true)
    (hq : Gen.Ref@NS@.is_on_curve q b = true) (hr : Gen.Ref@NS@.is_on_curve r b = true) :
    (Gen.Ref@NS@.add p q >>= fun s => Gen.Ref@NS@.add s r)
      = (Gen.Ref@NS@.add q r >>= fun t => Gen.Ref@NS@.add p t) := by
  obtain ⟨P, rfl⟩ := (ref_is_on_curve_iff h2 h3 hb p).mp hp
  obtain ⟨Q, rfl⟩ := (ref_is_on_curve_iff h2 h3 hb q).mp hq
  obtain ⟨R, rfl⟩ := (ref_is_on_curve_iff h2 h3 hb r).mp hr
  rw [ref_add_refines h2, ref_add_refines h2]
  show Gen.Ref@NS@.add (reprRef (P + Q)) (reprRef R) = Gen.Ref@NS@.add (reprRef P) (reprRef (Q + R))
  rw [ref_add_refines h2, ref_add_refines h2, add_assoc]

/-- Inverse: `add(p, neg(p)) = ∞` and `add(neg(p), p) = ∞` for an on-curve `p`. -/
theorem ref_add_neg {p : Option (F × F)} (hp : Gen.Ref@NS@.is_on_curve p b = true) :
    Gen.Ref@NS@.add p (Gen.Ref@NS@.neg p) = .ok none ∧ Gen.Ref@NS@.add (Gen.Ref@NS@.neg p) p = .ok none := by
  obtain ⟨P, rfl⟩ := (ref_is_on_curve_iff h2 h3 hb p).mp hp
  rw [ref_neg_refines, ref_add_refines h2, ref_add_refines h2, add_neg_cancel, neg_add_cancel]
  exact ⟨rfl, rfl⟩

/-- Closure: `add` of on-curve inputs does not raise and its result is on the curve. -/
theorem ref_add_closed {p q : Option (F × F)} (hp : Gen.Ref@NS@.is_on_curve p b = true)
    (hq : Gen.Ref@NS@.is_on_curve q b = true) :
    ∃ s, Gen.Ref@NS@.add p q = .ok s ∧ Gen.Ref@NS@.is_on_curve s b = true := by
  obtain ⟨P, rfl⟩ := (ref_is_on_curve_iff h2 h3 hb p).mp hp
  obtain ⟨Q, rfl⟩ := (ref_is_on_curve_iff h2 h3 hb q).mp hq
  exact ⟨_, ref_add_refines h2 P Q, (ref_is_on_curve_iff h2 h3 hb _).mpr ⟨_, rfl⟩⟩

/-- Closure: `double` of an on-curve input is on the curve. -/
theorem ref_double_closed {p : Option (F × F)} (hp : Gen.Ref@NS@.is_on_curve p b = true) :
    Gen.Ref@NS@.is_on_curve (Gen.Ref@NS@.double p) b = true := by
  obtain ⟨P, rfl⟩ := (ref_is_on_curve_iff h2 h3 hb p).mp hp
  rw [ref_double_refines h2]
  exact (ref_is_on_curve_iff h2 h3 hb _).mpr ⟨_, rfl⟩

/-- Closure: `neg` of an on-curve input is on the curve. -/
theorem ref_neg_closed {p : Option (F × F)} (hp : Gen.Ref@NS@.is_on_curve p b = true) :
    Gen.Ref@NS@.is_on_curve (Gen.Ref@NS@.neg p) b = true := by
  obtain ⟨P, rfl⟩ := (ref_is_on_curve_iff h2 h3 hb p).mp hp
  rw [ref_neg_refines]
  exact (ref_is_on_curve_iff h2 h3 hb _).mpr ⟨_, rfl⟩

/-- Closure/totality: `multiply(p, n)` of an on-curve input does not raise, for every `n`, and its
    result is on the curve. -/
theorem ref_multiply_closed {p : Option (F × F)} (hp : Gen.Ref@NS@.is_on_curve p b = true) (n : Nat) :
    ∃ s, Gen.Ref@NS@.multiply p n = .ok s ∧ Gen.Ref@NS@.is_on_curve s b = true := by
  obtain ⟨P, rfl⟩ := (ref_is_on_curve_iff h2 h3 hb p).mp hp
  exact ⟨_, ref_multiply_refines h2 P n, (ref_is_on_curve_iff h2 h3 hb _).mpr ⟨_, rfl⟩⟩

/-- Additivity in the scalar: `multiply(p, m + n) = add(multiply(p, m), multiply(p, n))`. -/
theorem ref_multiply_add {p : Option (F × F)} (hp : Gen.Ref@NS@.is_on_curve p b = true) (m n : Nat) :
    Gen.Ref@NS@.multiply p (m + n)
      = (Gen.Ref@NS@.multiply p m >>= fun s => Gen.Ref@NS@.multiply p n >>= fun t => Gen.Ref@NS@.add s t) := by
  obtain ⟨P, rfl⟩ := (ref_is_on_curve_iff h2 h3 hb p).mp hp
  rw [ref_multiply_refines h2, ref_multiply_refines h2, ref_multiply_refines h2]
  show _ = Gen.Ref@NS@.add (reprRef (m • P)) (reprRef (n • P))
  rw [ref_add_refines h2, add_smul]

/-- Multiplicativity in the scalar: `multiply(multiply(p, m), n) = multiply(p, m * n)`. -/
theorem ref_multiply_mul {p : Option (F × F)} (hp : Gen.Ref@NS@.is_on_curve p b = true) (m n : Nat) :
    (Gen.Ref@NS@.multiply p m >>= fun s => Gen.Ref@NS@.multiply s n) = Gen.Ref@NS@.multiply p (m * n) := by
  obtain ⟨P, rfl⟩ := (ref_is_on_curve_iff h2 h3 hb p).mp hp
  rw [ref_multiply_refines h2, ref_multiply_refines h2]
  show Gen.Ref@NS@.multiply (reprRef (m • P)) n = _
  rw [ref_multiply_refines h2, mul_comm, mul_smul]

/-- Scalars act modulo the order: if `multiply(p, r) = ∞` then `multiply(p, n) = multiply(p, n % r)`
    for every `n` (with `r` the group order this is reduction of scalars mod `curve_order`). -/
theorem ref_multiply_mod {p : Option (F × F)} (hp : Gen.Ref@NS@.is_on_curve p b = true) (r : Nat)
    (hr : Gen.Ref@NS@.multiply p r = .ok none) (n : Nat) :
    Gen.Ref@NS@.multiply p n = Gen.Ref@NS@.multiply p (n % r) := by
  obtain ⟨P, rfl⟩ := (ref_is_on_curve_iff h2 h3 hb p).mp hp
  rw [ref_multiply_refines h2] at hr
  have hr0 : r • P = 0 := reprRef_injective (Except.ok.inj hr)
  rw [ref_multiply_refines h2, ref_multiply_refines h2]
  congr 2
  conv_lhs => rw [← Nat.mod_add_div n r, add_smul, mul_comm, mul_smul, hr0, smul_zero, add_zero]

/-- `multiply(neg(p), n) = neg(multiply(p, n))`. -/
theorem ref_multiply_neg {p : Option (F × F)} (hp : Gen.Ref@NS@.is_on_curve p b = true) (n : Nat) :
    Gen.Ref@NS@.multiply (Gen.Ref@NS@.neg p) n = (Gen.Ref@NS@.multiply p n).map Gen.Ref@NS@.neg := by
  obtain ⟨P, rfl⟩ := (ref_is_on_curve_iff h2 h3 hb p).mp hp
  rw [ref_neg_refines, ref_multiply_refines h2, ref_multiply_refines h2]
  show _ = Except.ok (Gen.Ref@NS@.neg (reprRef (n • P)))
  rw [ref_neg_refines, smul_neg]

omit h2 h3 hb

/-- Identity: `add(p, ∞) = p` and `add(∞, p) = p` (for every `p`, on the curve or not). -/
theorem ref_add_zero (p : Option (F × F)) :
    Gen.Ref@NS@.add p none = .ok p ∧ Gen.Ref@NS@.add none p = .ok p := by
  rcases p with _ | ⟨x, y⟩ <;> simp [Gen.Ref@NS@.add]

/-- `add(p, p) = double(p)` (for every `p`). -/
theorem ref_add_self (p : Option (F × F)) : Gen.Ref@NS@.add p p = .ok (Gen.Ref@NS@.double p) := by
  rcases p with _ | ⟨x, y⟩ <;> simp [Gen.Ref@NS@.add, Gen.Ref@NS@.double, Gen.Ref@NS@.is_inf]

/-- `multiply(p, 0) = ∞`, `multiply(p, 1) = p`, `multiply(p, 2) = double(p)` (for every `p`). -/
theorem ref_multiply_small (p : Option (F × F)) :
    Gen.Ref@NS@.multiply p 0 = .ok none ∧ Gen.Ref@NS@.multiply p 1 = .ok p
      ∧ Gen.Ref@NS@.multiply p 2 = .ok (Gen.Ref@NS@.double p) := by
  simp [Gen.Ref@NS@.multiply, Gen.Ref@NS@.multiplyAux]

end laws

/-! ### non-vacuity: the hypotheses are satisfiable (the curve `y² = x³ + 1` over `ℚ`, which has the
    points `(0, 1)`, `(2, 3)` and the point `(-1, 0)` of order two) -/

example : Gen.Ref@NS@.is_on_curve (some ((0 : ℚ), 1)) 1 = true
    ∧ Gen.Ref@NS@.is_on_curve (some ((2 : ℚ), 3)) 1 = true
    ∧ Gen.Ref@NS@.is_on_curve (some ((-1 : ℚ), 0)) 1 = true := by
  simp [Gen.Ref@NS@.is_on_curve, Gen.Ref@NS@.is_inf]; norm_num

example : Gen.Ref@NS@.multiply (some ((-1 : ℚ), 0)) 2 = .ok none := by
  simp [Gen.Ref@NS@.multiply, Gen.Ref@NS@.multiplyAux, Gen.Ref@NS@.double, Gen.Ref@NS@.is_inf]

/-- the corollaries instantiated at these points (all hypotheses discharged) -/
example : Gen.Ref@NS@.add (some ((0 : ℚ), 1)) (some (2, 3)) = Gen.Ref@NS@.add (some (2, 3)) (some (0, 1)) :=
  ref_add_comm (b := 1) (by norm_num) (by norm_num) (by norm_num)
    (by simp [Gen.Ref@NS@.is_on_curve, Gen.Ref@NS@.is_inf])
    (by simp [Gen.Ref@NS@.is_on_curve, Gen.Ref@NS@.is_inf]; norm_num)

example (n : Nat) : Gen.Ref@NS@.multiply (some ((-1 : ℚ), 0)) n = Gen.Ref@NS@.multiply (some ((-1 : ℚ), 0)) (n % 2) :=
  ref_multiply_mod (b := 1) (by norm_num) (by norm_num) (by norm_num)
    (by simp [Gen.Ref@NS@.is_on_curve, Gen.Ref@NS@.is_inf]; norm_num) 2
    (by simp [Gen.Ref@NS@.multiply, Gen.Ref@NS@.multiplyAux, Gen.Ref@NS@.double, Gen.Ref@NS@.is_inf]) n

end PyEcc.C07.@NS@
