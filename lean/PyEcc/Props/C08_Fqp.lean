/-
  C08 (extension-field part): `FQP` / `FQ2` / `FQ12` arithmetic is the arithmetic of the quotient ring
  `(ZMod p)[X] / (X^d + Σ mcᵢ Xⁱ)`, for ANY field modulus `p > 0` (primality not used), ANY modulus
  coefficients `mc` with `d = mc.length ≥ 1`, both the reference (`.ref`) and the optimized (`.opt`)
  class.  Consequences: the commutative-ring axioms, `**` is the n-fold product, int operands act as
  residues, all results are stored reduced so that coefficient-wise equality is value equality.

  `WF x`    : `x` has exactly `d` coefficients (every object of the Python classes does)
  `Canon x` : `WF x` and all coefficients are in `[0, p)` (every constructor/operation result is)
  `toQ x`   : the class of `Σ xᵢ Xⁱ` in the quotient ring
-/
import PyEcc.Sem.FqpQuot
import PyEcc.Model.Curve

namespace PyEcc.C08P
open PyEcc PyEcc.Fqp PyEcc.FqpSem

variable {v : Variant} {p : ℕ} {mc : List Int}


/-! ### Refinement: every operation is the quotient-ring operation -/

/-- **Refinement theorem.** For both Python classes (reference `FQP`: `v = .ref`, optimized `FQP`:
`v = .opt`), any `field_modulus = p`, any `modulus_coeffs = mc` of length `d ≥ 1`, and operands having
`d` coefficients, the value map `toQ : Fqp → (ZMod p)[X]/(X^d + Σ mcᵢ Xⁱ)` sends `zero/one/int scalars`
to `0/1/k`, and `+ - neg * (·*int) **` to the ring operations of the quotient.  In particular the
schoolbook double loop followed by either reduction loop computes the product modulo the modulus. -/
theorem refines_quotient (hd : 1 ≤ mc.length) :
    toQ (0 : Fqp v p mc) = 0 ∧ toQ (1 : Fqp v p mc) = 1 ∧
    (∀ k : Int, toQ (ofIntScalar k : Fqp v p mc) = (k : AdjoinRoot (modulus p mc))) ∧
    (∀ a b : Fqp v p mc, WF a → WF b → toQ (a + b) = toQ a + toQ b) ∧
    (∀ a b : Fqp v p mc, WF a → WF b → toQ (a - b) = toQ a - toQ b) ∧
    (∀ a : Fqp v p mc, toQ (-a) = -toQ a) ∧
    (∀ a b : Fqp v p mc, WF a → WF b → toQ (a * b) = toQ a * toQ b) ∧
    (∀ (a : Fqp v p mc) (k : Int), toQ (mulInt a k) = toQ a * (k : AdjoinRoot (modulus p mc))) ∧
    (∀ (a : Fqp v p mc) (n : Nat), WF a → toQ (a ^ n) = toQ a ^ n) :=
  ⟨toQ_zero, toQ_one, toQ_ofIntScalar, fun _ _ => toQ_add, fun _ _ => toQ_sub, toQ_neg,
   fun _ _ => toQ_mul, toQ_mulInt, fun _ n ha => toQ_pow hd ha n⟩

/-- **Results are stored reduced.** Every constructor and operation returns an element with exactly `d`
coefficients, each in `[0, p)`. -/
theorem results_canonical (hp : 0 < p) (hd : 1 ≤ mc.length) :
    Canon (0 : Fqp v p mc) ∧ Canon (1 : Fqp v p mc) ∧
    (∀ k : Int, Canon (ofIntScalar k : Fqp v p mc)) ∧
    (∀ cs : List Int, cs.length = mc.length → Canon (ofInts cs : Fqp v p mc)) ∧
    (∀ a b : Fqp v p mc, WF a → WF b → Canon (a + b)) ∧
    (∀ a b : Fqp v p mc, WF a → WF b → Canon (a - b)) ∧
    (∀ a : Fqp v p mc, WF a → Canon (-a)) ∧
    (∀ a b : Fqp v p mc, WF a → WF b → Canon (a * b)) ∧
    (∀ (a : Fqp v p mc) (k : Int), WF a → Canon (mulInt a k)) ∧
    (∀ (a : Fqp v p mc) (n : Nat), WF a → Canon (a ^ n)) :=
  ⟨canon_zero hp, canon_one hp hd, canon_ofIntScalar hp hd, fun _ h => canon_ofInts hp h,
   fun _ _ => canon_add hp, fun _ _ => canon_sub hp, fun _ => canon_neg hp,
   fun _ _ => canon_mul hp, fun _ k ha => canon_mulInt hp ha k, fun _ n ha => canon_pow hp hd ha n⟩

/-- **Equality is value equality.** Two reduced elements are equal (as coefficient lists, which is what
`__eq__` compares) iff they denote the same element of the quotient ring. -/
theorem eq_iff_toQ_eq {a b : Fqp v p mc} (ha : Canon a) (hb : Canon b) : a = b ↔ toQ a = toQ b :=
  ⟨fun h => h ▸ rfl, toQ_inj ha hb⟩

/-- Python `__eq__` (the `zip` comparison) on well-formed elements decides equality of the elements. -/
theorem beq_iff {a b : Fqp v p mc} (ha : WF a) (hb : WF b) : beq a b = true ↔ a = b := by
  cases a with | mk a => cases b with | mk b =>
  simp only [beq, Fqp.mk.injEq]
  have hl : a.length = b.length := ha.trans hb.symm
  clear ha hb
  induction a generalizing b with
  | nil => cases b <;> simp_all
  | cons x xs ih =>
    cases b with
    | nil => simp at hl
    | cons y ys =>
      have := ih ys (by simpa using hl)
      simp_all

/-! ### Commutative-ring axioms (operands only need `d` coefficients; neutral-element laws need a
reduced operand because the result is always reduced) -/

/-- `(a + b) + c = a + (b + c)` -/
theorem add_assoc (hp : 0 < p) {a b c : Fqp v p mc} (ha : WF a) (hb : WF b) (hc : WF c) :
    a + b + c = a + (b + c) := by
  apply toQ_inj (canon_add hp (wf_add ha hb) hc) (canon_add hp ha (wf_add hb hc))
  show toQ (add (add a b) c) = toQ (add a (add b c))
  rw [toQ_add (wf_add ha hb) hc, toQ_add ha hb, toQ_add ha (wf_add hb hc), toQ_add hb hc,
    _root_.add_assoc]

/-- `a + b = b + a` -/
theorem add_comm (hp : 0 < p) {a b : Fqp v p mc} (ha : WF a) (hb : WF b) : a + b = b + a := by
  apply toQ_inj (canon_add hp ha hb) (canon_add hp hb ha)
  show toQ (add a b) = toQ (add b a)
  rw [toQ_add ha hb, toQ_add hb ha, _root_.add_comm]

/-- `a + 0 = a` for reduced `a` -/
theorem add_zero (hp : 0 < p) {a : Fqp v p mc} (ha : Canon a) : a + 0 = a := by
  apply toQ_inj (canon_add hp ha.wf wf_zero) ha
  show toQ (add a zero) = toQ a
  rw [toQ_add ha.wf wf_zero, toQ_zero, _root_.add_zero]

/-- `0 + a = a` for reduced `a` -/
theorem zero_add (hp : 0 < p) {a : Fqp v p mc} (ha : Canon a) : 0 + a = a := by
  apply toQ_inj (canon_add hp wf_zero ha.wf) ha
  show toQ (add zero a) = toQ a
  rw [toQ_add wf_zero ha.wf, toQ_zero, _root_.zero_add]

/-- `a + (-a) = 0` -/
theorem add_neg_cancel (hp : 0 < p) {a : Fqp v p mc} (ha : WF a) : a + -a = 0 := by
  apply toQ_inj (canon_add hp ha (wf_neg ha)) (canon_zero hp)
  show toQ (add a (neg a)) = toQ zero
  rw [toQ_add ha (wf_neg ha), toQ_neg, toQ_zero, _root_.add_neg_cancel]

/-- `a - b = a + (-b)` -/
theorem sub_eq_add_neg (hp : 0 < p) {a b : Fqp v p mc} (ha : WF a) (hb : WF b) :
    a - b = a + -b := by
  apply toQ_inj (canon_sub hp ha hb) (canon_add hp ha (wf_neg hb))
  show toQ (sub a b) = toQ (add a (neg b))
  rw [toQ_sub ha hb, toQ_add ha (wf_neg hb), toQ_neg, _root_.sub_eq_add_neg]

/-- `(a * b) * c = a * (b * c)` -/
theorem mul_assoc (hp : 0 < p) {a b c : Fqp v p mc} (ha : WF a) (hb : WF b) (hc : WF c) :
    a * b * c = a * (b * c) := by
  apply toQ_inj (canon_mul hp (wf_mul ha hb) hc) (canon_mul hp ha (wf_mul hb hc))
  show toQ (mul (mul a b) c) = toQ (mul a (mul b c))
  rw [toQ_mul (wf_mul ha hb) hc, toQ_mul ha hb, toQ_mul ha (wf_mul hb hc), toQ_mul hb hc,
    _root_.mul_assoc]

/-- `a * b = b * a` -/
theorem mul_comm (hp : 0 < p) {a b : Fqp v p mc} (ha : WF a) (hb : WF b) : a * b = b * a := by
  apply toQ_inj (canon_mul hp ha hb) (canon_mul hp hb ha)
  show toQ (mul a b) = toQ (mul b a)
  rw [toQ_mul ha hb, toQ_mul hb ha, _root_.mul_comm]

/-- `a * 1 = a` for reduced `a` -/
theorem mul_one (hp : 0 < p) (hd : 1 ≤ mc.length) {a : Fqp v p mc} (ha : Canon a) : a * 1 = a := by
  apply toQ_inj (canon_mul hp ha.wf (wf_one hd)) ha
  show toQ (mul a one) = toQ a
  rw [toQ_mul ha.wf (wf_one hd), toQ_one, _root_.mul_one]

/-- `1 * a = a` for reduced `a` -/
theorem one_mul (hp : 0 < p) (hd : 1 ≤ mc.length) {a : Fqp v p mc} (ha : Canon a) : 1 * a = a := by
  apply toQ_inj (canon_mul hp (wf_one hd) ha.wf) ha
  show toQ (mul one a) = toQ a
  rw [toQ_mul (wf_one hd) ha.wf, toQ_one, _root_.one_mul]

/-- `a * 0 = 0` -/
theorem mul_zero (hp : 0 < p) {a : Fqp v p mc} (ha : WF a) : a * 0 = 0 := by
  apply toQ_inj (canon_mul hp ha wf_zero) (canon_zero hp)
  show toQ (mul a zero) = toQ zero
  rw [toQ_mul ha wf_zero, toQ_zero, MulZeroClass.mul_zero]

/-- `a * (b + c) = a * b + a * c` -/
theorem left_distrib (hp : 0 < p) {a b c : Fqp v p mc} (ha : WF a) (hb : WF b) (hc : WF c) :
    a * (b + c) = a * b + a * c := by
  apply toQ_inj (canon_mul hp ha (wf_add hb hc)) (canon_add hp (wf_mul ha hb) (wf_mul ha hc))
  show toQ (mul a (add b c)) = toQ (add (mul a b) (mul a c))
  rw [toQ_mul ha (wf_add hb hc), toQ_add hb hc, toQ_add (wf_mul ha hb) (wf_mul ha hc),
    toQ_mul ha hb, toQ_mul ha hc, _root_.mul_add]

/-- `(a + b) * c = a * c + b * c` -/
theorem right_distrib (hp : 0 < p) {a b c : Fqp v p mc} (ha : WF a) (hb : WF b) (hc : WF c) :
    (a + b) * c = a * c + b * c := by
  apply toQ_inj (canon_mul hp (wf_add ha hb) hc) (canon_add hp (wf_mul ha hc) (wf_mul hb hc))
  show toQ (mul (add a b) c) = toQ (add (mul a c) (mul b c))
  rw [toQ_mul (wf_add ha hb) hc, toQ_add ha hb, toQ_add (wf_mul ha hc) (wf_mul hb hc),
    toQ_mul ha hc, toQ_mul hb hc, _root_.add_mul]

/-! ### `**` is the n-fold product -/

/-- `a ** 0 = 1` (by computation, for every `a`) -/
theorem pow_zero (a : Fqp v p mc) : a ^ 0 = 1 := rfl

/-- `a ** (n+1) = (a ** n) * a`: the square-and-multiply loop computes the n-fold product. -/
theorem pow_succ (hp : 0 < p) (hd : 1 ≤ mc.length) {a : Fqp v p mc} (ha : WF a) (n : Nat) :
    a ^ (n + 1) = a ^ n * a := by
  apply toQ_inj (canon_pow hp hd ha (n + 1)) (canon_mul hp (wf_pow hd ha n) ha)
  show toQ (Fqp.pow a (n + 1)) = toQ (mul (Fqp.pow a n) a)
  rw [toQ_pow hd ha, toQ_mul (wf_pow hd ha n) ha, toQ_pow hd ha, _root_.pow_succ]

/-- `a ** (m+n) = (a ** m) * (a ** n)` -/
theorem pow_add (hp : 0 < p) (hd : 1 ≤ mc.length) {a : Fqp v p mc} (ha : WF a) (m n : Nat) :
    a ^ (m + n) = a ^ m * a ^ n := by
  apply toQ_inj (canon_pow hp hd ha (m + n)) (canon_mul hp (wf_pow hd ha m) (wf_pow hd ha n))
  show toQ (Fqp.pow a (m + n)) = toQ (mul (Fqp.pow a m) (Fqp.pow a n))
  rw [toQ_pow hd ha, toQ_mul (wf_pow hd ha m) (wf_pow hd ha n), toQ_pow hd ha, toQ_pow hd ha,
    _root_.pow_add]

/-! ### int operands act as residues -/

/-- `a * k` for a Python int `k` (also the reflected `k * a`) equals `a * FQP([k,0,…,0])`. -/
theorem mulInt_eq_mul_ofIntScalar (hp : 0 < p) (hd : 1 ≤ mc.length) {a : Fqp v p mc} (ha : WF a)
    (k : Int) : mulInt a k = a * ofIntScalar k := by
  apply toQ_inj (canon_mulInt hp ha k) (canon_mul hp ha (wf_ofIntScalar hd k))
  show toQ (mulInt a k) = toQ (mul a (ofIntScalar k))
  rw [toQ_mulInt, toQ_mul ha (wf_ofIntScalar hd k), toQ_ofIntScalar]

/-- an int operand only matters modulo `p` (negative and `> p` ints included) -/
theorem mulInt_mod (hp : 0 < p) {a : Fqp v p mc} (ha : WF a) (k : Int) :
    mulInt a (k % (p : Int)) = mulInt a k := by
  apply toQ_inj (canon_mulInt hp ha _) (canon_mulInt hp ha k)
  rw [toQ_mulInt, toQ_mulInt]
  congr 1
  rw [← map_intCast (AdjoinRoot.of (modulus p mc)) (k % (p : Int)),
    ← map_intCast (AdjoinRoot.of (modulus p mc)) k, ZMod.intCast_mod]

/-- the scalar embedding only depends on the residue of the int -/
theorem ofIntScalar_mod (k : Int) :
    (ofIntScalar (k % (p : Int)) : Fqp v p mc) = ofIntScalar k := by
  simp [ofIntScalar, ofInts]

/-- `a / k` for a Python int `k` is multiplication by `prime_field_inv(k, p)` (definitional in both
classes) -/
theorem divInt_eq_mulInt (a : Fqp v p mc) (k : Int) : divInt a k = mulInt a (primeFieldInv k p) := rfl

/-! ### non-vacuity: a small instance and the real BLS12-381 FQ12 parameters -/

example : (0 : ℕ) < 7 ∧ 1 ≤ ([1, 0] : List Int).length := by decide
example : Canon (⟨[3, 5]⟩ : Fqp .ref 7 [1, 0]) ∧ Canon (⟨[6, 0]⟩ : Fqp .opt 7 [1, 0]) := by decide
example : WF (⟨[-3, 12]⟩ : Fqp .opt 7 [1, 0]) := by decide
/-- (3 + 5i)(2 + 6i) = 6 - 30 + (18 + 10) i = -24 + 28 i = 4 + 0 i  (mod 7) -/
example : ((⟨[3, 5]⟩ : Fqp .ref 7 [1, 0]) * ⟨[2, 6]⟩).coeffs = [4, 0] := by decide
example : ((⟨[3, 5]⟩ : Fqp .opt 7 [1, 0]) * ⟨[2, 6]⟩).coeffs = [4, 0] := by decide
example : 0 < blsP ∧ 1 ≤ blsMc12.length ∧ blsMc12.length = 12 := by decide
example : WF (1 : Fqp .opt blsP blsMc12) ∧ WF (1 : Fqp .ref blsP blsMc12) := by decide

end PyEcc.C08P
