/-
  PyEcc.Props.C07_Model12 — property C07 for the CONCRETE executable model over the degree-12 field:
  the group laws of the curve functions as the model RUNS them on `FQ12` coordinates, i.e. on
  `E(Fp¹²) : y² = x³ + b12` (`b12 = FQ12([4,0,…])` for BLS12-381, `FQ12([3,0,…])` for bn128), where the
  pairing code does its point arithmetic after `twist` / `cast_point_to_fq12`:

    * optimized modules (`Gen.OptBls`, `Gen.OptBn`; projective triples of optimized `FQ12` objects,
      model type `Fqp .opt p mc12`), laws up to the library's projective equality `eq`;
    * reference modules (`Gen.RefBls`, `Gen.RefBn`; `None` or affine pairs of reference `FQ12` objects,
      model type `Fqp .ref p mc12`), laws as EQUALITIES of returned values, in the exception monad
      (`add`/`multiply` never raise on canonical on-curve inputs).

  Corollaries of the field-generic theorems (`Props/C07Opt_*.lean`, `Props/C07_Bls.lean`, `Props/C07_Bn.lean`:
  Mathlib's `AddCommGroup` structure on `WeierstrassCurve.Affine.Point`) through the transfer layer at
  `toQ : Fqp v p mc12 → K12 = F_p[X]/(modulus)` (`Sem/TransferFq12.lean`; `K12` is a field by
  `Props/C08_Fq12.lean`).  Statements are purely about the model functions; inputs are required to be
  canonical (`CanonT` / `CanonO`: every coordinate is a list of exactly 12 ints in `[0, p)`) — decidable,
  true of every value the library constructs, preserved by all operations.
-/
import PyEcc.Sem.TransferFq12

set_option linter.unusedSectionVars false
set_option maxRecDepth 100000

namespace PyEcc.C07T
open PyEcc PyEcc.Gen PyEcc.Gen.Consts PyEcc.FqpSem PyEcc.Transfer PyEcc.TwistSem WeierstrassCurve

/-- `optimized_bls12_381.G12` as a model triple -/
def blsG12 : F12 .opt × F12 .opt × F12 .opt :=
  (⟨optimized_bls12_381_G12.getD 0 []⟩, ⟨optimized_bls12_381_G12.getD 1 []⟩, ⟨optimized_bls12_381_G12.getD 2 []⟩)
/-- `optimized_bn128.G12` as a model triple -/
def bnG12 : F12bn .opt × F12bn .opt × F12bn .opt :=
  (⟨optimized_bn128_G12.getD 0 []⟩, ⟨optimized_bn128_G12.getD 1 []⟩, ⟨optimized_bn128_G12.getD 2 []⟩)
/-- `bls12_381.G12` as a model point -/
def blsG12ref : Option (F12 .ref × F12 .ref) := some (⟨bls12_381_G12.getD 0 []⟩, ⟨bls12_381_G12.getD 1 []⟩)
/-- `bn128.G12` as a model point -/
def bnG12ref : Option (F12bn .ref × F12bn .ref) := some (⟨bn128_G12.getD 0 []⟩, ⟨bn128_G12.getD 1 []⟩)

/-! ## optimized BLS12-381: laws for canonical on-curve `FQ12` triples -/

namespace OptBls12
section
variable {X Y Z X' Y' : F12 .opt × F12 .opt × F12 .opt}

private theorem k2 : (2 : K12) ≠ 0 := (k12_field_ok .opt).1
private theorem k3 : (3 : K12) ≠ 0 := (k12_field_ok .opt).2.1
private theorem cb : Canon (blsB12 .opt) := (k12_field_ok .opt).2.2.1
private theorem kb : (toQ (blsB12 .opt) : K12) ≠ 0 := (k12_field_ok .opt).2.2.2

/-- optimized BLS12-381, `E(Fp¹²)`, commutativity: `add(X, Y)` and `add(Y, X)` are `eq`. -/
theorem add_comm (cX : CanonT X) (cY : CanonT Y) (hX : OptBls.is_on_curve X (blsB12 .opt) = true)
    (hY : OptBls.is_on_curve Y (blsB12 .opt) = true) :
    OptBls.eq (OptBls.add X Y) (OptBls.add Y X) = true := by
  classical exact Transfer.Bls.via_add_comm_eq (K := K12) goodHom_F12 k2 k3 cb kb cX cY hX hY

/-- optimized BLS12-381, `E(Fp¹²)`, associativity: `add(add(X, Y), Z)` and `add(X, add(Y, Z))` are `eq` (every
    degenerate configuration — ∞, doubling, inverse points — included). -/
theorem add_assoc (cX : CanonT X) (cY : CanonT Y) (cZ : CanonT Z)
    (hX : OptBls.is_on_curve X (blsB12 .opt) = true) (hY : OptBls.is_on_curve Y (blsB12 .opt) = true)
    (hZ : OptBls.is_on_curve Z (blsB12 .opt) = true) :
    OptBls.eq (OptBls.add (OptBls.add X Y) Z) (OptBls.add X (OptBls.add Y Z)) = true := by
  classical exact Transfer.Bls.via_add_assoc_eq (K := K12) goodHom_F12 k2 k3 cb kb cX cY cZ hX hY hZ

/-- optimized BLS12-381, `E(Fp¹²)`, identity: any canonical `z = 0` triple (e.g. `Z = (1, 1, 0)`) is neutral on both sides,
    for all canonical triples `X` (on the curve or not). -/
theorem add_zero (cX : CanonT X) (cZ : CanonT Z) (hZ : Z.2.2 = 0) :
    OptBls.eq (OptBls.add X Z) X = true ∧ OptBls.eq (OptBls.add Z X) X = true := by
  classical exact Transfer.Bls.via_add_zero_eq (K := K12) goodHom_F12 cX cZ hZ

/-- optimized BLS12-381, `E(Fp¹²)`, inverse: `add(X, neg(X))` and `add(neg(X), X)` are ∞, for all canonical triples. -/
theorem add_neg (cX : CanonT X) :
    OptBls.is_inf (OptBls.add X (OptBls.neg X)) = true ∧ OptBls.is_inf (OptBls.add (OptBls.neg X) X) = true := by
  classical exact Transfer.Bls.via_add_neg (K := K12) goodHom_F12 k2 cX

/-- optimized BLS12-381, `E(Fp¹²)`, closure: `add`, `double`, `neg`, `multiply(·, n)` map canonical on-curve triples to
    canonical on-curve triples; `(1, 1, 0)` is canonical and on the curve. -/
theorem closed (cX : CanonT X) (cY : CanonT Y) (hX : OptBls.is_on_curve X (blsB12 .opt) = true)
    (hY : OptBls.is_on_curve Y (blsB12 .opt) = true) (n : ℕ) :
    (CanonT (OptBls.add X Y) ∧ OptBls.is_on_curve (OptBls.add X Y) (blsB12 .opt) = true)
      ∧ (CanonT (OptBls.double X) ∧ OptBls.is_on_curve (OptBls.double X) (blsB12 .opt) = true)
      ∧ (CanonT (OptBls.neg X) ∧ OptBls.is_on_curve (OptBls.neg X) (blsB12 .opt) = true)
      ∧ (CanonT (OptBls.multiply X n) ∧ OptBls.is_on_curve (OptBls.multiply X n) (blsB12 .opt) = true)
      ∧ (CanonT (((1 : F12 .opt), (1 : F12 .opt), (0 : F12 .opt)))
          ∧ OptBls.is_on_curve (((1 : F12 .opt), (1 : F12 .opt), (0 : F12 .opt))) (blsB12 .opt) = true) := by
  classical
  exact ⟨⟨(Transfer.Bls.good_add (B := K12) goodHom_F12 cX cY).1, Transfer.Bls.via_add_closed (K := K12) goodHom_F12 k2 k3 cb kb cX cY hX hY⟩,
    ⟨(Transfer.Bls.good_double (B := K12) goodHom_F12 cX).1, Transfer.Bls.via_double_closed (K := K12) goodHom_F12 k2 k3 cb kb cX hX⟩,
    ⟨(Transfer.Bls.good_neg (B := K12) goodHom_F12 cX).1, Transfer.Bls.via_neg_closed (K := K12) goodHom_F12 k2 k3 cb kb cX hX⟩,
    ⟨(Transfer.Bls.good_multiply (B := K12) goodHom_F12 cX n).1, Transfer.Bls.via_multiply_closed (K := K12) goodHom_F12 k2 k3 cb kb cX hX n⟩,
    ⟨(Transfer.Bls.good_Z (B := K12) (goodHom_F12 (v := .opt))).1, rfl⟩⟩

/-- optimized BLS12-381, `E(Fp¹²)`: `add(X, X)` is `eq` to `double(X)`, for all canonical triples. -/
theorem add_self (cX : CanonT X) : OptBls.eq (OptBls.add X X) (OptBls.double X) = true := by
  classical exact Transfer.Bls.via_add_self_eq (K := K12) goodHom_F12 cX

/-- optimized BLS12-381, `E(Fp¹²)`: `multiply` is additive in the scalar, `multiply(X, m + n)` is `eq` to
    `add(multiply(X, m), multiply(X, n))`. -/
theorem multiply_add (cX : CanonT X) (hX : OptBls.is_on_curve X (blsB12 .opt) = true) (m n : ℕ) :
    OptBls.eq (OptBls.multiply X (m + n)) (OptBls.add (OptBls.multiply X m) (OptBls.multiply X n)) = true := by
  classical exact Transfer.Bls.via_multiply_add_eq (K := K12) goodHom_F12 k2 k3 cb kb cX hX m n

/-- optimized BLS12-381, `E(Fp¹²)`: `multiply(multiply(X, m), n)` is `eq` to `multiply(X, m * n)`. -/
theorem multiply_mul (cX : CanonT X) (hX : OptBls.is_on_curve X (blsB12 .opt) = true) (m n : ℕ) :
    OptBls.eq (OptBls.multiply (OptBls.multiply X m) n) (OptBls.multiply X (m * n)) = true := by
  classical exact Transfer.Bls.via_multiply_mul_eq (K := K12) goodHom_F12 k2 k3 cb kb cX hX m n

/-- optimized BLS12-381, `E(Fp¹²)`: scalars act modulo any `r` with `multiply(X, r) = ∞`. -/
theorem multiply_mod (cX : CanonT X) (hX : OptBls.is_on_curve X (blsB12 .opt) = true) (r : ℕ)
    (hr : OptBls.is_inf (OptBls.multiply X r) = true) (n : ℕ) :
    OptBls.eq (OptBls.multiply X n) (OptBls.multiply X (n % r)) = true := by
  classical exact Transfer.Bls.via_multiply_mod_eq (K := K12) goodHom_F12 k2 k3 cb kb cX hX r hr n

/-- optimized BLS12-381, `E(Fp¹²)`: `multiply(neg(X), n)` is `eq` to `neg(multiply(X, n))`. -/
theorem multiply_neg (cX : CanonT X) (hX : OptBls.is_on_curve X (blsB12 .opt) = true) (n : ℕ) :
    OptBls.eq (OptBls.multiply (OptBls.neg X) n) (OptBls.neg (OptBls.multiply X n)) = true := by
  classical exact Transfer.Bls.via_multiply_neg_eq (K := K12) goodHom_F12 k2 k3 cb kb cX hX n

/-- optimized BLS12-381, `E(Fp¹²)`: `eq` is an equivalence relation on canonical triples, and `add`, `multiply` respect it. -/
theorem eq_congr (cX : CanonT X) (cY : CanonT Y) (cZ : CanonT Z) (cX' : CanonT X') (cY' : CanonT Y') :
    OptBls.eq X X = true ∧ (OptBls.eq X Y = true → OptBls.eq Y X = true)
      ∧ (OptBls.eq X Y = true → OptBls.eq Y Z = true → OptBls.eq X Z = true)
      ∧ (OptBls.eq X X' = true → OptBls.eq Y Y' = true → OptBls.eq (OptBls.add X Y) (OptBls.add X' Y') = true)
      ∧ (OptBls.eq X X' = true → ∀ n : ℕ, OptBls.eq (OptBls.multiply X n) (OptBls.multiply X' n) = true) := by
  classical
  obtain ⟨e1, e2, e3⟩ := Transfer.Bls.via_eq_equiv (K := K12) goodHom_F12 cX cY cZ
  exact ⟨e1, e2, e3, Transfer.Bls.via_add_congr (K := K12) goodHom_F12 k2 cX cX' cY cY',
    fun e n => Transfer.Bls.via_multiply_congr (K := K12) goodHom_F12 k2 cX cX' e n⟩

/-- non-vacuity: the module constant `G12` (= `twist(G2)`) is canonical and on `y² = x³ + b12` -/
theorem G12_ok : CanonT blsG12 ∧ OptBls.is_on_curve blsG12 (blsB12 .opt) = true := by decide +kernel

example : OptBls.eq (OptBls.add (OptBls.add blsG12 (OptBls.double blsG12)) (OptBls.neg blsG12))
    (OptBls.add blsG12 (OptBls.add (OptBls.double blsG12) (OptBls.neg blsG12))) = true :=
  have k := closed G12_ok.1 G12_ok.1 G12_ok.2 G12_ok.2 0
  add_assoc G12_ok.1 k.2.1.1 k.2.2.1.1 G12_ok.2 k.2.1.2 k.2.2.1.2

end
end OptBls12

/-! ## reference BLS12-381: laws for canonical on-curve `FQ12` points -/

namespace RefBls12
section
variable {p q r : Option (F12 .ref × F12 .ref)}

private theorem k2 : (2 : K12) ≠ 0 := (k12_field_ok .ref).1
private theorem k3 : (3 : K12) ≠ 0 := (k12_field_ok .ref).2.1
private theorem cb : Canon (blsB12 .ref) := (k12_field_ok .ref).2.2.1
private theorem kb : (toQ (blsB12 .ref) : K12) ≠ 0 := (k12_field_ok .ref).2.2.2

/-- reference BLS12-381, `E(Fp¹²)`, commutativity: `add(p, q)` and `add(q, p)` return the same value. -/
theorem add_comm (cp : CanonO p) (cq : CanonO q) (hp : RefBls.is_on_curve p (blsB12 .ref) = true)
    (hq : RefBls.is_on_curve q (blsB12 .ref) = true) : RefBls.add p q = RefBls.add q p := by
  classical exact Transfer.BlsRef.via_add_comm (K := K12) goodHom_F12 k2 k3 cb kb cp cq hp hq

/-- reference BLS12-381, `E(Fp¹²)`, associativity: `add(add(p, q), r) = add(p, add(q, r))` (both sides evaluated in the
    exception monad; by `closed` neither raises). -/
theorem add_assoc (cp : CanonO p) (cq : CanonO q) (cr : CanonO r)
    (hp : RefBls.is_on_curve p (blsB12 .ref) = true) (hq : RefBls.is_on_curve q (blsB12 .ref) = true)
    (hr : RefBls.is_on_curve r (blsB12 .ref) = true) :
    (RefBls.add p q >>= fun s => RefBls.add s r) = (RefBls.add q r >>= fun t => RefBls.add p t) := by
  classical exact Transfer.BlsRef.via_add_assoc (K := K12) goodHom_F12 k2 k3 cb kb cp cq cr hp hq hr

/-- reference BLS12-381, `E(Fp¹²)`, identity: `add(p, None) = p` and `add(None, p) = p`, for every `p`. -/
theorem add_zero (p : Option (F12 .ref × F12 .ref)) :
    RefBls.add p none = .ok p ∧ RefBls.add none p = .ok p := Transfer.BlsRef.any_add_zero p

/-- reference BLS12-381, `E(Fp¹²)`, inverse: `add(p, neg(p)) = None` and `add(neg(p), p) = None`. -/
theorem add_neg (cp : CanonO p) (hp : RefBls.is_on_curve p (blsB12 .ref) = true) :
    RefBls.add p (RefBls.neg p) = .ok none ∧ RefBls.add (RefBls.neg p) p = .ok none := by
  classical exact Transfer.BlsRef.via_add_neg (K := K12) goodHom_F12 k2 k3 cb kb cp hp

/-- reference BLS12-381, `E(Fp¹²)`, closure and totality: on canonical on-curve points `add` and `multiply(·, n)` (every
    `n`) do not raise, and the results of `add`, `double`, `neg`, `multiply` are canonical and on the curve. -/
theorem closed (cp : CanonO p) (cq : CanonO q) (hp : RefBls.is_on_curve p (blsB12 .ref) = true)
    (hq : RefBls.is_on_curve q (blsB12 .ref) = true) (n : ℕ) :
    (∃ s, RefBls.add p q = .ok s ∧ CanonO s ∧ RefBls.is_on_curve s (blsB12 .ref) = true)
      ∧ (CanonO (RefBls.double p) ∧ RefBls.is_on_curve (RefBls.double p) (blsB12 .ref) = true)
      ∧ (CanonO (RefBls.neg p) ∧ RefBls.is_on_curve (RefBls.neg p) (blsB12 .ref) = true)
      ∧ (∃ s, RefBls.multiply p n = .ok s ∧ CanonO s ∧ RefBls.is_on_curve s (blsB12 .ref) = true) := by
  classical
  exact ⟨Transfer.BlsRef.via_add_closed (K := K12) goodHom_F12 k2 k3 cb kb cp cq hp hq,
    Transfer.BlsRef.via_double_closed (K := K12) goodHom_F12 k2 k3 cb kb cp hp,
    Transfer.BlsRef.via_neg_closed (K := K12) goodHom_F12 k2 k3 cb kb cp hp,
    Transfer.BlsRef.via_multiply_closed (K := K12) goodHom_F12 k2 k3 cb kb cp hp n⟩

/-- reference BLS12-381, `E(Fp¹²)`: `add(p, p) = double(p)`, for every `p`. -/
theorem add_self (p : Option (F12 .ref × F12 .ref)) : RefBls.add p p = .ok (RefBls.double p) :=
  Transfer.BlsRef.any_add_self p

/-- reference BLS12-381, `E(Fp¹²)`: `multiply(p, m + n) = add(multiply(p, m), multiply(p, n))`. -/
theorem multiply_add (cp : CanonO p) (hp : RefBls.is_on_curve p (blsB12 .ref) = true) (m n : ℕ) :
    RefBls.multiply p (m + n)
      = (RefBls.multiply p m >>= fun s => RefBls.multiply p n >>= fun t => RefBls.add s t) := by
  classical exact Transfer.BlsRef.via_multiply_add (K := K12) goodHom_F12 k2 k3 cb kb cp hp m n

/-- reference BLS12-381, `E(Fp¹²)`: `multiply(multiply(p, m), n) = multiply(p, m * n)`. -/
theorem multiply_mul (cp : CanonO p) (hp : RefBls.is_on_curve p (blsB12 .ref) = true) (m n : ℕ) :
    (RefBls.multiply p m >>= fun s => RefBls.multiply s n) = RefBls.multiply p (m * n) := by
  classical exact Transfer.BlsRef.via_multiply_mul (K := K12) goodHom_F12 k2 k3 cb kb cp hp m n

/-- reference BLS12-381, `E(Fp¹²)`: scalars act modulo any `k` with `multiply(p, k) = None`. -/
theorem multiply_mod (cp : CanonO p) (hp : RefBls.is_on_curve p (blsB12 .ref) = true) (k : ℕ)
    (hk : RefBls.multiply p k = .ok none) (n : ℕ) : RefBls.multiply p n = RefBls.multiply p (n % k) := by
  classical exact Transfer.BlsRef.via_multiply_mod (K := K12) goodHom_F12 k2 k3 cb kb cp hp k hk n

/-- reference BLS12-381, `E(Fp¹²)`: `multiply(neg(p), n) = neg(multiply(p, n))`. -/
theorem multiply_neg (cp : CanonO p) (hp : RefBls.is_on_curve p (blsB12 .ref) = true) (n : ℕ) :
    RefBls.multiply (RefBls.neg p) n = (RefBls.multiply p n).map RefBls.neg := by
  classical exact Transfer.BlsRef.via_multiply_neg (K := K12) goodHom_F12 k2 k3 cb kb cp hp n

/-- reference BLS12-381, `E(Fp¹²)`: `multiply(p, 0) = None`, `multiply(p, 1) = p`, `multiply(p, 2) = double(p)`, every `p`. -/
theorem multiply_small (p : Option (F12 .ref × F12 .ref)) :
    RefBls.multiply p 0 = .ok none ∧ RefBls.multiply p 1 = .ok p ∧ RefBls.multiply p 2 = .ok (RefBls.double p) :=
  Transfer.BlsRef.any_multiply_small p

/-- non-vacuity: the module constant `G12` (= `twist(G2)`) is canonical and on `y² = x³ + b12` -/
theorem G12_ok : CanonO blsG12ref ∧ RefBls.is_on_curve blsG12ref (blsB12 .ref) = true := by decide +kernel

example : (RefBls.add blsG12ref (RefBls.double blsG12ref) >>= fun s => RefBls.add s (RefBls.neg blsG12ref))
    = (RefBls.add (RefBls.double blsG12ref) (RefBls.neg blsG12ref) >>= fun t => RefBls.add blsG12ref t) :=
  have k := closed G12_ok.1 G12_ok.1 G12_ok.2 G12_ok.2 0
  add_assoc G12_ok.1 k.2.1.1 k.2.2.1.1 G12_ok.2 k.2.1.2 k.2.2.1.2

end
end RefBls12

/-! ## optimized bn128: laws for canonical on-curve `FQ12` triples -/

namespace OptBn12
section
variable {X Y Z X' Y' : F12bn .opt × F12bn .opt × F12bn .opt}

private theorem k2 : (2 : K12bn) ≠ 0 := (k12bn_field_ok .opt).1
private theorem k3 : (3 : K12bn) ≠ 0 := (k12bn_field_ok .opt).2.1
private theorem cb : Canon (bnB12 .opt) := (k12bn_field_ok .opt).2.2.1
private theorem kb : (toQ (bnB12 .opt) : K12bn) ≠ 0 := (k12bn_field_ok .opt).2.2.2

/-- optimized bn128, `E(Fp¹²)`, commutativity: `add(X, Y)` and `add(Y, X)` are `eq`. -/
theorem add_comm (cX : CanonT X) (cY : CanonT Y) (hX : OptBn.is_on_curve X (bnB12 .opt) = true)
    (hY : OptBn.is_on_curve Y (bnB12 .opt) = true) :
    OptBn.eq (OptBn.add X Y) (OptBn.add Y X) = true := by
  classical exact Transfer.Bn.via_add_comm_eq (K := K12bn) goodHom_F12bn k2 k3 cb kb cX cY hX hY

/-- optimized bn128, `E(Fp¹²)`, associativity: `add(add(X, Y), Z)` and `add(X, add(Y, Z))` are `eq` (every
    degenerate configuration — ∞, doubling, inverse points — included). -/
theorem add_assoc (cX : CanonT X) (cY : CanonT Y) (cZ : CanonT Z)
    (hX : OptBn.is_on_curve X (bnB12 .opt) = true) (hY : OptBn.is_on_curve Y (bnB12 .opt) = true)
    (hZ : OptBn.is_on_curve Z (bnB12 .opt) = true) :
    OptBn.eq (OptBn.add (OptBn.add X Y) Z) (OptBn.add X (OptBn.add Y Z)) = true := by
  classical exact Transfer.Bn.via_add_assoc_eq (K := K12bn) goodHom_F12bn k2 k3 cb kb cX cY cZ hX hY hZ

/-- optimized bn128, `E(Fp¹²)`, identity: any canonical `z = 0` triple (e.g. `Z = (1, 1, 0)`) is neutral on both sides,
    for all canonical triples `X` (on the curve or not). -/
theorem add_zero (cX : CanonT X) (cZ : CanonT Z) (hZ : Z.2.2 = 0) :
    OptBn.eq (OptBn.add X Z) X = true ∧ OptBn.eq (OptBn.add Z X) X = true := by
  classical exact Transfer.Bn.via_add_zero_eq (K := K12bn) goodHom_F12bn cX cZ hZ

/-- optimized bn128, `E(Fp¹²)`, inverse: `add(X, neg(X))` and `add(neg(X), X)` are ∞, for all canonical triples. -/
theorem add_neg (cX : CanonT X) :
    OptBn.is_inf (OptBn.add X (OptBn.neg X)) = true ∧ OptBn.is_inf (OptBn.add (OptBn.neg X) X) = true := by
  classical exact Transfer.Bn.via_add_neg (K := K12bn) goodHom_F12bn k2 cX

/-- optimized bn128, `E(Fp¹²)`, closure: `add`, `double`, `neg`, `multiply(·, n)` map canonical on-curve triples to
    canonical on-curve triples; `(1, 1, 0)` is canonical and on the curve. -/
theorem closed (cX : CanonT X) (cY : CanonT Y) (hX : OptBn.is_on_curve X (bnB12 .opt) = true)
    (hY : OptBn.is_on_curve Y (bnB12 .opt) = true) (n : ℕ) :
    (CanonT (OptBn.add X Y) ∧ OptBn.is_on_curve (OptBn.add X Y) (bnB12 .opt) = true)
      ∧ (CanonT (OptBn.double X) ∧ OptBn.is_on_curve (OptBn.double X) (bnB12 .opt) = true)
      ∧ (CanonT (OptBn.neg X) ∧ OptBn.is_on_curve (OptBn.neg X) (bnB12 .opt) = true)
      ∧ (CanonT (OptBn.multiply X n) ∧ OptBn.is_on_curve (OptBn.multiply X n) (bnB12 .opt) = true)
      ∧ (CanonT (((1 : F12bn .opt), (1 : F12bn .opt), (0 : F12bn .opt)))
          ∧ OptBn.is_on_curve (((1 : F12bn .opt), (1 : F12bn .opt), (0 : F12bn .opt))) (bnB12 .opt) = true) := by
  classical
  exact ⟨⟨(Transfer.Bn.good_add (B := K12bn) goodHom_F12bn cX cY).1, Transfer.Bn.via_add_closed (K := K12bn) goodHom_F12bn k2 k3 cb kb cX cY hX hY⟩,
    ⟨(Transfer.Bn.good_double (B := K12bn) goodHom_F12bn cX).1, Transfer.Bn.via_double_closed (K := K12bn) goodHom_F12bn k2 k3 cb kb cX hX⟩,
    ⟨(Transfer.Bn.good_neg (B := K12bn) goodHom_F12bn cX).1, Transfer.Bn.via_neg_closed (K := K12bn) goodHom_F12bn k2 k3 cb kb cX hX⟩,
    ⟨(Transfer.Bn.good_multiply (B := K12bn) goodHom_F12bn cX n).1, Transfer.Bn.via_multiply_closed (K := K12bn) goodHom_F12bn k2 k3 cb kb cX hX n⟩,
    ⟨(Transfer.Bn.good_Z (B := K12bn) (goodHom_F12bn (v := .opt))).1, rfl⟩⟩

/-- optimized bn128, `E(Fp¹²)`: `add(X, X)` is `eq` to `double(X)`, for all canonical triples. -/
theorem add_self (cX : CanonT X) : OptBn.eq (OptBn.add X X) (OptBn.double X) = true := by
  classical exact Transfer.Bn.via_add_self_eq (K := K12bn) goodHom_F12bn cX

/-- optimized bn128, `E(Fp¹²)`: `multiply` is additive in the scalar, `multiply(X, m + n)` is `eq` to
    `add(multiply(X, m), multiply(X, n))`. -/
theorem multiply_add (cX : CanonT X) (hX : OptBn.is_on_curve X (bnB12 .opt) = true) (m n : ℕ) :
    OptBn.eq (OptBn.multiply X (m + n)) (OptBn.add (OptBn.multiply X m) (OptBn.multiply X n)) = true := by
  classical exact Transfer.Bn.via_multiply_add_eq (K := K12bn) goodHom_F12bn k2 k3 cb kb cX hX m n

/-- optimized bn128, `E(Fp¹²)`: `multiply(multiply(X, m), n)` is `eq` to `multiply(X, m * n)`. -/
theorem multiply_mul (cX : CanonT X) (hX : OptBn.is_on_curve X (bnB12 .opt) = true) (m n : ℕ) :
    OptBn.eq (OptBn.multiply (OptBn.multiply X m) n) (OptBn.multiply X (m * n)) = true := by
  classical exact Transfer.Bn.via_multiply_mul_eq (K := K12bn) goodHom_F12bn k2 k3 cb kb cX hX m n

/-- optimized bn128, `E(Fp¹²)`: scalars act modulo any `r` with `multiply(X, r) = ∞`. -/
theorem multiply_mod (cX : CanonT X) (hX : OptBn.is_on_curve X (bnB12 .opt) = true) (r : ℕ)
    (hr : OptBn.is_inf (OptBn.multiply X r) = true) (n : ℕ) :
    OptBn.eq (OptBn.multiply X n) (OptBn.multiply X (n % r)) = true := by
  classical exact Transfer.Bn.via_multiply_mod_eq (K := K12bn) goodHom_F12bn k2 k3 cb kb cX hX r hr n

/-- optimized bn128, `E(Fp¹²)`: `multiply(neg(X), n)` is `eq` to `neg(multiply(X, n))`. -/
theorem multiply_neg (cX : CanonT X) (hX : OptBn.is_on_curve X (bnB12 .opt) = true) (n : ℕ) :
    OptBn.eq (OptBn.multiply (OptBn.neg X) n) (OptBn.neg (OptBn.multiply X n)) = true := by
  classical exact Transfer.Bn.via_multiply_neg_eq (K := K12bn) goodHom_F12bn k2 k3 cb kb cX hX n

/-- optimized bn128, `E(Fp¹²)`: `eq` is an equivalence relation on canonical triples, and `add`, `multiply` respect it. -/
theorem eq_congr (cX : CanonT X) (cY : CanonT Y) (cZ : CanonT Z) (cX' : CanonT X') (cY' : CanonT Y') :
    OptBn.eq X X = true ∧ (OptBn.eq X Y = true → OptBn.eq Y X = true)
      ∧ (OptBn.eq X Y = true → OptBn.eq Y Z = true → OptBn.eq X Z = true)
      ∧ (OptBn.eq X X' = true → OptBn.eq Y Y' = true → OptBn.eq (OptBn.add X Y) (OptBn.add X' Y') = true)
      ∧ (OptBn.eq X X' = true → ∀ n : ℕ, OptBn.eq (OptBn.multiply X n) (OptBn.multiply X' n) = true) := by
  classical
  obtain ⟨e1, e2, e3⟩ := Transfer.Bn.via_eq_equiv (K := K12bn) goodHom_F12bn cX cY cZ
  exact ⟨e1, e2, e3, Transfer.Bn.via_add_congr (K := K12bn) goodHom_F12bn k2 cX cX' cY cY',
    fun e n => Transfer.Bn.via_multiply_congr (K := K12bn) goodHom_F12bn k2 cX cX' e n⟩

/-- non-vacuity: the module constant `G12` (= `twist(G2)`) is canonical and on `y² = x³ + b12` -/
theorem G12_ok : CanonT bnG12 ∧ OptBn.is_on_curve bnG12 (bnB12 .opt) = true := by decide +kernel

example : OptBn.eq (OptBn.add (OptBn.add bnG12 (OptBn.double bnG12)) (OptBn.neg bnG12))
    (OptBn.add bnG12 (OptBn.add (OptBn.double bnG12) (OptBn.neg bnG12))) = true :=
  have k := closed G12_ok.1 G12_ok.1 G12_ok.2 G12_ok.2 0
  add_assoc G12_ok.1 k.2.1.1 k.2.2.1.1 G12_ok.2 k.2.1.2 k.2.2.1.2

end
end OptBn12

/-! ## reference bn128: laws for canonical on-curve `FQ12` points -/

namespace RefBn12
section
variable {p q r : Option (F12bn .ref × F12bn .ref)}

private theorem k2 : (2 : K12bn) ≠ 0 := (k12bn_field_ok .ref).1
private theorem k3 : (3 : K12bn) ≠ 0 := (k12bn_field_ok .ref).2.1
private theorem cb : Canon (bnB12 .ref) := (k12bn_field_ok .ref).2.2.1
private theorem kb : (toQ (bnB12 .ref) : K12bn) ≠ 0 := (k12bn_field_ok .ref).2.2.2

/-- reference bn128, `E(Fp¹²)`, commutativity: `add(p, q)` and `add(q, p)` return the same value. -/
theorem add_comm (cp : CanonO p) (cq : CanonO q) (hp : RefBn.is_on_curve p (bnB12 .ref) = true)
    (hq : RefBn.is_on_curve q (bnB12 .ref) = true) : RefBn.add p q = RefBn.add q p := by
  classical exact Transfer.BnRef.via_add_comm (K := K12bn) goodHom_F12bn k2 k3 cb kb cp cq hp hq

/-- reference bn128, `E(Fp¹²)`, associativity: `add(add(p, q), r) = add(p, add(q, r))` (both sides evaluated in the
    exception monad; by `closed` neither raises). -/
theorem add_assoc (cp : CanonO p) (cq : CanonO q) (cr : CanonO r)
    (hp : RefBn.is_on_curve p (bnB12 .ref) = true) (hq : RefBn.is_on_curve q (bnB12 .ref) = true)
    (hr : RefBn.is_on_curve r (bnB12 .ref) = true) :
    (RefBn.add p q >>= fun s => RefBn.add s r) = (RefBn.add q r >>= fun t => RefBn.add p t) := by
  classical exact Transfer.BnRef.via_add_assoc (K := K12bn) goodHom_F12bn k2 k3 cb kb cp cq cr hp hq hr

/-- reference bn128, `E(Fp¹²)`, identity: `add(p, None) = p` and `add(None, p) = p`, for every `p`. -/
theorem add_zero (p : Option (F12bn .ref × F12bn .ref)) :
    RefBn.add p none = .ok p ∧ RefBn.add none p = .ok p := Transfer.BnRef.any_add_zero p

/-- reference bn128, `E(Fp¹²)`, inverse: `add(p, neg(p)) = None` and `add(neg(p), p) = None`. -/
theorem add_neg (cp : CanonO p) (hp : RefBn.is_on_curve p (bnB12 .ref) = true) :
    RefBn.add p (RefBn.neg p) = .ok none ∧ RefBn.add (RefBn.neg p) p = .ok none := by
  classical exact Transfer.BnRef.via_add_neg (K := K12bn) goodHom_F12bn k2 k3 cb kb cp hp

/-- reference bn128, `E(Fp¹²)`, closure and totality: on canonical on-curve points `add` and `multiply(·, n)` (every
    `n`) do not raise, and the results of `add`, `double`, `neg`, `multiply` are canonical and on the curve. -/
theorem closed (cp : CanonO p) (cq : CanonO q) (hp : RefBn.is_on_curve p (bnB12 .ref) = true)
    (hq : RefBn.is_on_curve q (bnB12 .ref) = true) (n : ℕ) :
    (∃ s, RefBn.add p q = .ok s ∧ CanonO s ∧ RefBn.is_on_curve s (bnB12 .ref) = true)
      ∧ (CanonO (RefBn.double p) ∧ RefBn.is_on_curve (RefBn.double p) (bnB12 .ref) = true)
      ∧ (CanonO (RefBn.neg p) ∧ RefBn.is_on_curve (RefBn.neg p) (bnB12 .ref) = true)
      ∧ (∃ s, RefBn.multiply p n = .ok s ∧ CanonO s ∧ RefBn.is_on_curve s (bnB12 .ref) = true) := by
  classical
  exact ⟨Transfer.BnRef.via_add_closed (K := K12bn) goodHom_F12bn k2 k3 cb kb cp cq hp hq,
    Transfer.BnRef.via_double_closed (K := K12bn) goodHom_F12bn k2 k3 cb kb cp hp,
    Transfer.BnRef.via_neg_closed (K := K12bn) goodHom_F12bn k2 k3 cb kb cp hp,
    Transfer.BnRef.via_multiply_closed (K := K12bn) goodHom_F12bn k2 k3 cb kb cp hp n⟩

/-- reference bn128, `E(Fp¹²)`: `add(p, p) = double(p)`, for every `p`. -/
theorem add_self (p : Option (F12bn .ref × F12bn .ref)) : RefBn.add p p = .ok (RefBn.double p) :=
  Transfer.BnRef.any_add_self p

/-- reference bn128, `E(Fp¹²)`: `multiply(p, m + n) = add(multiply(p, m), multiply(p, n))`. -/
theorem multiply_add (cp : CanonO p) (hp : RefBn.is_on_curve p (bnB12 .ref) = true) (m n : ℕ) :
    RefBn.multiply p (m + n)
      = (RefBn.multiply p m >>= fun s => RefBn.multiply p n >>= fun t => RefBn.add s t) := by
  classical exact Transfer.BnRef.via_multiply_add (K := K12bn) goodHom_F12bn k2 k3 cb kb cp hp m n

/-- reference bn128, `E(Fp¹²)`: `multiply(multiply(p, m), n) = multiply(p, m * n)`. -/
theorem multiply_mul (cp : CanonO p) (hp : RefBn.is_on_curve p (bnB12 .ref) = true) (m n : ℕ) :
    (RefBn.multiply p m >>= fun s => RefBn.multiply s n) = RefBn.multiply p (m * n) := by
  classical exact Transfer.BnRef.via_multiply_mul (K := K12bn) goodHom_F12bn k2 k3 cb kb cp hp m n

/-- reference bn128, `E(Fp¹²)`: scalars act modulo any `k` with `multiply(p, k) = None`. -/
theorem multiply_mod (cp : CanonO p) (hp : RefBn.is_on_curve p (bnB12 .ref) = true) (k : ℕ)
    (hk : RefBn.multiply p k = .ok none) (n : ℕ) : RefBn.multiply p n = RefBn.multiply p (n % k) := by
  classical exact Transfer.BnRef.via_multiply_mod (K := K12bn) goodHom_F12bn k2 k3 cb kb cp hp k hk n

/-- reference bn128, `E(Fp¹²)`: `multiply(neg(p), n) = neg(multiply(p, n))`. -/
theorem multiply_neg (cp : CanonO p) (hp : RefBn.is_on_curve p (bnB12 .ref) = true) (n : ℕ) :
    RefBn.multiply (RefBn.neg p) n = (RefBn.multiply p n).map RefBn.neg := by
  classical exact Transfer.BnRef.via_multiply_neg (K := K12bn) goodHom_F12bn k2 k3 cb kb cp hp n

/-- reference bn128, `E(Fp¹²)`: `multiply(p, 0) = None`, `multiply(p, 1) = p`, `multiply(p, 2) = double(p)`, every `p`. -/
theorem multiply_small (p : Option (F12bn .ref × F12bn .ref)) :
    RefBn.multiply p 0 = .ok none ∧ RefBn.multiply p 1 = .ok p ∧ RefBn.multiply p 2 = .ok (RefBn.double p) :=
  Transfer.BnRef.any_multiply_small p

/-- non-vacuity: the module constant `G12` (= `twist(G2)`) is canonical and on `y² = x³ + b12` -/
theorem G12_ok : CanonO bnG12ref ∧ RefBn.is_on_curve bnG12ref (bnB12 .ref) = true := by decide +kernel

example : (RefBn.add bnG12ref (RefBn.double bnG12ref) >>= fun s => RefBn.add s (RefBn.neg bnG12ref))
    = (RefBn.add (RefBn.double bnG12ref) (RefBn.neg bnG12ref) >>= fun t => RefBn.add bnG12ref t) :=
  have k := closed G12_ok.1 G12_ok.1 G12_ok.2 G12_ok.2 0
  add_assoc G12_ok.1 k.2.1.1 k.2.2.1.1 G12_ok.2 k.2.1.2 k.2.2.1.2

end
end RefBn12

end PyEcc.C07T
