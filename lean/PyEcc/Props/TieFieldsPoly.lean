/-
  PyEcc.Props.TieFieldsPoly — TIE theorems ("generated = hand-written model") for the FIELD layer, part 4:
  `py_ecc.utils.deg`, and of the OPTIMIZED class (`py_ecc/fields/optimized_field_elements.py`)
  `FQP.optimized_poly_rounded_div`, `FQP.inv` (extended Euclid on coefficient lists, `while deg(low)`), and the `FQP`
  branches of `__div__` / `__truediv__` (`self * other.inv()`).

  `Gen/ExtraFieldsPoly.lean` is re-generated from the Python source on every run (tools/translate/gen_fields.py).
  The generated loops carry their state in the alphabetical order of the Python variable names (`(o, temp)`,
  `(new, nm)`, `(high, hm, lm, low)`), the model in the order of the source; the proofs relate the two by relational
  induction over the loops.  List item assignment `l[k] = e` is `updAt l k (fun _ => e)` in the generated code.

  (The REFERENCE `poly_rounded_div` / `FQP.inv` operate on lists that mix ints and `FQ` objects, the kind of an entry
  changing from round to round; they have no static typing and are not translated — see the report.)
-/
import PyEcc.Gen.ExtraFieldsPoly
import PyEcc.Props.TieFieldsMul

namespace PyEcc.Tie
open PyEcc

/-! ### list lemmas -/

/-- `l[i] = l[i] + y` is `l[i] += y` -/
theorem updAt_set_add (l : List Int) (i : Nat) (y : Int) :
    updAt l i (fun _ => getI l i + y) = updAt l i (fun x => x + y) := by
  induction l generalizing i with
  | nil => rfl
  | cons x xs ih =>
    cases i with
    | zero => rfl
    | succ i => simp only [updAt]; congr 1; exact ih i

/-- `l[i] = l[i] - y` is `l[i] -= y` -/
theorem updAt_set_sub (l : List Int) (i : Nat) (y : Int) :
    updAt l i (fun _ => getI l i - y) = updAt l i (fun x => x - y) := by
  induction l generalizing i with
  | nil => rfl
  | cons x xs ih =>
    cases i with
    | zero => rfl
    | succ i => simp only [updAt]; congr 1; exact ih i

/-- an invariant of the state is an invariant of the fold -/
theorem fields_foldl_inv {α β : Type} (P : α → Prop) {g : α → β → α} {l : List β} {i : α}
    (hi : P i) (H : ∀ x y, P x → P (g x y)) : P (List.foldl g i l) := by
  induction l generalizing i with
  | nil => exact hi
  | cons a l ih => exact ih (H _ _ hi)

/-! ### py_ecc/utils.py: `deg` -/

/-- the `while p[d] == 0 and d` loop generated from `deg` is the model's `degAux` (any fuel `≥ d`) -/
theorem deg_loop_eq (p : List Int) : ∀ (f d : Nat), d ≤ f →
    Gen.ExtraFieldsPoly.Utils.deg_loop0 p f d = degAux p d := by
  intro f
  induction f with
  | zero => intro d hd; have : d = 0 := by omega
            subst this; rfl
  | succ f ih =>
    intro d hd
    unfold Gen.ExtraFieldsPoly.Utils.deg_loop0
    cases d with
    | zero => simp [degAux]
    | succ d =>
      unfold degAux
      by_cases h : getI p (d + 1) = 0
      · simp only [h, _root_.ne_eq, Nat.add_eq_zero_iff, Nat.succ_ne_self, and_false, not_false_eq_true, and_self, if_true,
          Nat.add_sub_cancel]
        exact ih d (by omega)
      · simp only [h, false_and, if_false]

/-- `deg(p)` (for a sequence of ints) as translated from the source is the model's `deg`, for every list. -/
theorem deg_eq (p : List Int) : Gen.ExtraFieldsPoly.Utils.deg p = PyEcc.deg p := by
  unfold Gen.ExtraFieldsPoly.Utils.deg PyEcc.deg
  exact deg_loop_eq p _ _ (Nat.le_refl _)

/-! ### optimized class: rounded division, inverse, division -/

namespace PolyOpt
open Gen.ExtraFieldsFq.Opt Gen.ExtraFieldsFqp.Opt Gen.ExtraFieldsMul.Opt Gen.ExtraFieldsPoly.Opt FqpOpt
variable {p : Nat} {mc : List Int}

/-- `FQP.optimized_poly_rounded_div(a, b)` is the model's `polyRoundedDiv .opt`, for all lists (and any `self`). -/
theorem optimized_poly_rounded_div_eq (self : FQP) (a b : List Int) :
    FQP.optimized_poly_rounded_div p mc self a b = Fqp.polyRoundedDiv .opt p a b := by
  unfold FQP.optimized_poly_rounded_div Fqp.polyRoundedDiv
  simp only [updAt_set_add, updAt_set_sub, List.map_const']
  have key := fields_foldl_rel
    (r := fun (g : List Int × List Int) (m : List Int × List Int) => g = m)
    (g₁ := fun (st : List Int × List Int) (i : Nat) =>
      let (temp, o) := st
      let q := getI temp (PyEcc.deg b + i) * primeFieldInv (getI b (PyEcc.deg b)) p
      let o := updAt o i (fun x => x + q)
      let temp := (List.range (PyEcc.deg b + 1)).foldl (fun t c => updAt t (c + i) (fun x => x - getI o c)) temp
      (temp, o))
    (g₂ := fun (st : List Int × List Int) (i : Nat) =>
      let (temp, o) := st
      let o := updAt o i (fun x => x + getI temp (PyEcc.deg b + i) * primeFieldInv (getI b (PyEcc.deg b)) p)
      let temp := List.foldl (fun (temp : List Int) (c : Nat) =>
          let temp := updAt temp (c + i) (fun x => x - getI o c)
          temp) temp (List.range (PyEcc.deg b + 1))
      (temp, o))
    (l := if PyEcc.deg a < PyEcc.deg b then [] else downTo (PyEcc.deg a - PyEcc.deg b))
    (i₁ := (a, List.replicate a.length 0)) (i₂ := (a, List.replicate a.length 0)) rfl
    (by rintro ⟨t2, o2⟩ ⟨t1, o1⟩ i h
        cases h
        rfl)
  have k1 : Prod.snd _ = Prod.snd _ := congrArg Prod.snd key
  exact congrArg (fun o => List.map (fun x => x % (p : Int)) (List.take (PyEcc.deg o + 1) o)) k1

/-- the `while deg(low)` loop generated from optimized `FQP.inv` computes the model's `invLoopP .opt` (the generated
    state lists the variables in the order in which the method first binds them: `(lm, hm, low, high)`; the model returns
    `(lm, low)`) -/
theorem inv_loop_eq (a : Fqp .opt p mc) : ∀ (f : Nat) (lm low hm high : List Int),
    (fun (s : List Int × List Int × List Int × List Int) => (s.1, s.2.2.1)) (FQP.inv_loop0 p mc (obj a) f (lm, hm, low, high)) =
      Fqp.invLoopP .opt p mc.length f lm low hm high := by
  intro f
  induction f with
  | zero => intro lm low hm high; rfl
  | succ f ih =>
    intro lm low hm high
    unfold FQP.inv_loop0 Fqp.invLoopP
    by_cases hdeg : PyEcc.deg low ≠ 0
    · rw [if_pos hdeg, if_pos hdeg]
      have hd : (obj a).degree = mc.length := rfl
      simp only [optimized_poly_rounded_div_eq, hd]
      -- G: the generated double loop on `(nm, new)`;  M: the model's
      have key : ∀ (G M : List Int × List Int), G = M →
          (fun (s : List Int × List Int × List Int × List Int) => (s.1, s.2.2.1))
            (FQP.inv_loop0 p mc (obj a) f (List.map (fun x => x % (p : Int)) G.1, lm,
              List.map (fun x => x % (p : Int)) G.2, low)) =
          Fqp.invLoopP .opt p mc.length f (List.map (fun x => x % (p : Int)) M.1)
            (List.map (fun x => x % (p : Int)) M.2) lm low := by
        rintro _ M rfl
        exact ih _ _ _ _
      apply key
      refine fields_foldl_rel (r := fun (g : List Int × List Int) (m : List Int × List Int) => g = m) rfl ?_
      rintro ⟨n2, m2⟩ ⟨n1, m1⟩ i h
      cases h
      refine fields_foldl_rel (r := fun (g : List Int × List Int) (m : List Int × List Int) => g = m) rfl ?_
      rintro ⟨n2, m2⟩ ⟨n1, m1⟩ j h
      cases h
      rfl
    · rw [if_neg hdeg, if_neg hdeg]

/-- lengths of the first component of the model's Euclid loop -/
theorem invLoopP_length (d : Nat) : ∀ (f : Nat) (lm low hm high : List Int),
    lm.length = d + 1 → hm.length = d + 1 → (Fqp.invLoopP .opt p d f lm low hm high).1.length = d + 1 := by
  intro f
  induction f with
  | zero => intro lm low hm high h1 _; exact h1
  | succ f ih =>
    intro lm low hm high h1 h2
    unfold Fqp.invLoopP
    by_cases hdeg : PyEcc.deg low ≠ 0
    · rw [if_pos hdeg]
      apply ih _ _ _ _ _ h1
      rw [List.length_map]
      refine fields_foldl_inv (P := fun (st : List Int × List Int) => st.1.length = d + 1) h2 ?_
      intro st i hst
      refine fields_foldl_inv (P := fun (st : List Int × List Int) => st.1.length = d + 1) hst ?_
      rintro ⟨nm, new⟩ j hst
      simp only [length_updAt]
      exact hst
    · rw [if_neg hdeg]; exact h1

/-- a model inverse has `d` coefficients -/
theorem wf_inv (a : Fqp .opt p mc) : (Fqp.inv a).coeffs.length = mc.length := by
  unfold Fqp.inv
  have := invLoopP_length (p := p) mc.length (4 * mc.length + 4) (1 :: List.replicate mc.length 0) (a.coeffs ++ [0])
    (List.replicate (mc.length + 1) 0) (mc ++ [1]) (by simp) (by simp)
  simp only [Fqp.divInt, Fqp.ofInts, List.length_map, List.length_take]
  omega

/-- optimized `FQP.inv()` (extended Euclid on the coefficient lists) is the model's `Fqp.inv`, for every element. -/
theorem inv_eq (a : Fqp .opt p mc) : FQP.inv p mc (obj a) = .ok (obj (Fqp.inv a)) := by
  have hd : (obj a).degree = mc.length := rfl
  have hl := invLoopP_length (p := p) mc.length (4 * mc.length + 4) (1 :: List.replicate mc.length 0) (a.coeffs ++ [0])
    (List.replicate (mc.length + 1) 0) (mc ++ [1]) (by simp) (by simp)
  have hloop := inv_loop_eq a (4 * mc.length + 4) (1 :: List.replicate mc.length 0) (a.coeffs ++ [0])
    (List.replicate (mc.length + 1) 0) (mc ++ [1])
  unfold FQP.inv Fqp.inv
  simp only [hd]
  generalize hs : FQP.inv_loop0 p mc (obj a) (4 * mc.length + 4)
    ([1] ++ List.replicate mc.length 0, List.replicate (mc.length + 1) 0, (obj a).coeffs ++ [0], (obj a).modulus_coeffs ++ [1]) = s
  obtain ⟨lm, hm, low, high⟩ := s
  have hloop' : (lm, low) = Fqp.invLoopP .opt p mc.length (4 * mc.length + 4) (1 :: List.replicate mc.length 0)
      (a.coeffs ++ [0]) (List.replicate (mc.length + 1) 0) (mc ++ [1]) := by
    rw [← hloop]
    exact congrArg (fun (s : List Int × List Int × List Int × List Int) => (s.1, s.2.2.1)) hs.symm
  rw [← hloop'] at hl ⊢
  simp only at hl ⊢
  rw [init_ints_eq, if_neg (by simp [hl])]
  simp only [bind, Except.bind]
  exact truediv_int_eq _ _ (by simp [Fqp.ofInts, hl])

/-- optimized `FQP.__div__` with an `FQP` operand (`self * other.inv()`) is the model's `Fqp.div` (well-formed `self`). -/
theorem div_fqp_eq (a b : Fqp .opt p mc) (ha : a.coeffs.length = mc.length) :
    FQP.div_fqp p mc (obj a) (obj b) = .ok (obj (Fqp.div a b)) := by
  unfold FQP.div_fqp Fqp.div
  rw [inv_eq]
  simp only [bind, Except.bind]
  exact MulOpt.mul_fqp_eq a (Fqp.inv b) ha (wf_inv b)

/-- optimized `FQP.__truediv__` delegates to `__div__`. -/
theorem truediv_fqp_eq (a b : Fqp .opt p mc) (ha : a.coeffs.length = mc.length) :
    FQP.truediv_fqp p mc (obj a) (obj b) = .ok (obj (Fqp.div a b)) := by
  unfold FQP.truediv_fqp; exact div_fqp_eq a b ha

/- non-vacuity of the hypothesis -/
example : FQP.div_fqp 7 [1, 0] (obj (⟨[1, 2]⟩ : Fqp .opt 7 [1, 0])) (obj (⟨[3, 6]⟩ : Fqp .opt 7 [1, 0])) =
    .ok (obj (Fqp.div (⟨[1, 2]⟩ : Fqp .opt 7 [1, 0]) ⟨[3, 6]⟩)) := div_fqp_eq _ _ rfl

end PolyOpt
end PyEcc.Tie
