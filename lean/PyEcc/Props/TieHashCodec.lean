/-
  PyEcc.Props.TieHashCodec — TIE theorem ("generated = hand-written model") for `modular_squareroot_in_FQ2` of
  `py_ecc/bls/point_compression.py`.
  `Gen/ExtraHashCodec.lean` is re-generated from the Python source on every run (tools/translate/gen_hash.py).  The generated
  code keeps the two exceptions the Python code could raise on its failing paths (`ValueError` of `list.index`, `IndexError` of the
  subscript); the theorem shows that neither is reachable — `check in L[::2]` implies `check in L` — so that the model's
  totalisation (`findIdx`, `getD`) is exact.

  The proof covers both ways of finding the divisor: `L[L.index(check) // 2]` and `L[L[::2].index(check)]` (equal because the eight
  entries of `EIGHTH_ROOTS_OF_UNITY` are pairwise different, `eighth_roots_nodup`), the test written `check in ..` / `check not in ..`
  with an early `return None`, and the final choice as a conditional expression or as `if ..: return ..` / `return ..`.
-/
import PyEcc.Gen.ExtraHashCodec

namespace PyEcc.Tie
open PyEcc PyEcc.Gen.Consts
set_option linter.unusedSimpArgs false

/-- close `pure v = Except.ok v'` when `v`, `v'` agree syntactically (fails at once otherwise: nothing is unfolded) -/
macro "tie_ok" : tactic => `(tactic| (show Except.ok _ = Except.ok _; with_reducible rfl))

/-- `x in L[::2]` implies `x in L` -/
theorem mem_everyOther {α : Type} (c : α) : ∀ (L : List α), c ∈ everyOther L → c ∈ L
  | [], h => by simp [everyOther] at h
  | [a], h => by simpa [everyOther] using h
  | a :: b :: rest, h => by
    simp only [everyOther, List.mem_cons] at h ⊢
    rcases h with h | h
    · exact Or.inl h
    · exact Or.inr (Or.inr (mem_everyOther c rest h))

/-- in a list without repetitions, an entry of `L[::2]` sits in `L` at twice its position in `L[::2]`:
    `L.index(c) // 2 == L[::2].index(c)` -/
theorem findIdx_everyOther {α : Type} [BEq α] [LawfulBEq α] (c : α) :
    ∀ (L : List α), L.Nodup → c ∈ everyOther L →
      List.findIdx (fun r => r == c) L = 2 * List.findIdx (fun r => r == c) (everyOther L)
  | [], _, h => by simp [everyOther] at h
  | [a], _, h => by
    have : a = c := by simpa [everyOther, eq_comm] using h
    subst this
    simp [everyOther, List.findIdx_cons]
  | a :: b :: rest, hnd, h => by
    simp only [everyOther, List.mem_cons] at h
    by_cases hac : a = c
    · subst hac; simp [everyOther, List.findIdx_cons]
    · have hm : c ∈ everyOther rest := by
        rcases h with h | h
        · exact absurd h.symm hac
        · exact h
      have hnd' := hnd
      simp only [List.nodup_cons, List.mem_cons, not_or] at hnd'
      have hbc : b ≠ c := fun hbc => hnd'.2.1 (hbc ▸ mem_everyOther c rest hm)
      have ih := findIdx_everyOther c rest hnd'.2.2 hm
      have h1 : (a == c) = false := by simpa using hac
      have h2 : (b == c) = false := by simpa using hbc
      simp only [everyOther, List.findIdx_cons, h1, h2, cond_false, ih]
      omega

/-- the eight entries of `EIGHTH_ROOTS_OF_UNITY` are pairwise different -/
theorem eighth_roots_nodup : EIGHTH_ROOTS_OF_UNITY.Nodup := by decide +kernel

/-- when `c in L[::2]` (for a repetition-free `L`): `L.index(c)`, `L[::2].index(c)` are found, `L[L.index(c) // 2]` and
    `L[L[::2].index(c)]` are in range, and they are the same entry — the one the model picks with its totalised `getD` -/
theorem index_ok {α : Type} [BEq α] [LawfulBEq α] [Inhabited α] (L : List α) (hnd : L.Nodup) (c : α)
    (h : (everyOther L).contains c = true) :
    List.findIdx (fun r => r == c) L < L.length
      ∧ L[List.findIdx (fun r => r == c) L / 2]? = some (L.getD (List.findIdx (fun r => r == c) L / 2) default)
      ∧ List.findIdx (fun r => r == c) (everyOther L) < (everyOther L).length
      ∧ L[List.findIdx (fun r => r == c) (everyOther L)]?
          = some (L.getD (List.findIdx (fun r => r == c) L / 2) default) := by
  have hme : c ∈ everyOther L := List.contains_iff_mem.mp h
  have hm : c ∈ L := mem_everyOther c L hme
  have hlt : List.findIdx (fun r => r == c) L < L.length :=
    List.findIdx_lt_length_of_exists ⟨c, hm, beq_self_eq_true c⟩
  have hlte : List.findIdx (fun r => r == c) (everyOther L) < (everyOther L).length :=
    List.findIdx_lt_length_of_exists ⟨c, hme, beq_self_eq_true c⟩
  have hlt2 : List.findIdx (fun r => r == c) L / 2 < L.length := Nat.lt_of_le_of_lt (Nat.div_le_self _ _) hlt
  have hhalf : List.findIdx (fun r => r == c) (everyOther L) = List.findIdx (fun r => r == c) L / 2 := by
    rw [findIdx_everyOther c L hnd hme]; omega
  refine ⟨hlt, ?_, hlte, ?_⟩
  · rw [List.getD_eq_getElem?_getD, List.getElem?_eq_getElem hlt2, Option.getD_some]
  · rw [hhalf, List.getD_eq_getElem?_getD, List.getElem?_eq_getElem hlt2, Option.getD_some]

/-- `modular_squareroot_in_FQ2(value)` as translated from the source (the candidate `value ** ((FQ2_ORDER + 8) // 16)`, the test
    `check in EIGHTH_ROOTS_OF_UNITY[::2]`, the division by the root of `check` — `EIGHTH_ROOTS_OF_UNITY[k]` where `check` is the
    entry `2 * k` —, the choice between `x1` and `-x1` by imaginary then real part, `None` otherwise) never raises and returns the
    model's `modularSquarerootInFq2 value`. -/
theorem modular_squareroot_in_FQ2_eq (value : F2) :
    Gen.ExtraHashCodec.modular_squareroot_in_FQ2 value = .ok (modularSquarerootInFq2 value) := by
  unfold Gen.ExtraHashCodec.modular_squareroot_in_FQ2 modularSquarerootInFq2
  simp only []
  by_cases h : (everyOther EIGHTH_ROOTS_OF_UNITY).contains
      ((value ^ ((blsconst_FQ2_ORDER + 8) / 16)) ^ 2 / value) = true
  · obtain ⟨h1, h2, h3, h4⟩ := index_ok EIGHTH_ROOTS_OF_UNITY eighth_roots_nodup _ h
    simp only [h, h1, h2, h3, h4, if_true, pure_bind, not_true_eq_false, if_false]
    split <;> tie_ok
  · simp only [h, not_false_eq_true, Bool.false_eq_true, if_true, if_false]
    tie_ok
end PyEcc.Tie
