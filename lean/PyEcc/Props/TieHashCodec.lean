/-
  PyEcc.Props.TieHashCodec — TIE theorem ("generated = hand-written model") for `modular_squareroot_in_FQ2` of
  `py_ecc/bls/point_compression.py`.
  `Gen/ExtraHashCodec.lean` is re-generated from the Python source on every run (tools/translate/gen_hash.py).  The generated
  code keeps the two exceptions the Python code could raise on its failing paths (`ValueError` of `list.index`, `IndexError` of the
  subscript); the theorem shows that neither is reachable — `check in L[::2]` implies `check in L` — so that the model's
  totalisation (`findIdx`, `getD`) is exact.
-/
import PyEcc.Gen.ExtraHashCodec

namespace PyEcc.Tie
open PyEcc PyEcc.Gen.Consts

/-- `x in L[::2]` implies `x in L` -/
theorem mem_everyOther {α : Type} (c : α) : ∀ (L : List α), c ∈ everyOther L → c ∈ L
  | [], h => by simp [everyOther] at h
  | [a], h => by simpa [everyOther] using h
  | a :: b :: rest, h => by
    simp only [everyOther, List.mem_cons] at h ⊢
    rcases h with h | h
    · exact Or.inl h
    · exact Or.inr (Or.inr (mem_everyOther c rest h))

/-- `L.index(c)` and `L[L.index(c) // 2]` cannot fail when `c in L[::2]` -/
theorem index_ok {α : Type} [BEq α] [LawfulBEq α] [Inhabited α] (L : List α) (c : α) (h : (everyOther L).contains c = true) :
    List.findIdx (fun r => r == c) L < L.length
      ∧ L[List.findIdx (fun r => r == c) L / 2]? = some (L.getD (List.findIdx (fun r => r == c) L / 2) default) := by
  have hm : c ∈ L := mem_everyOther c L (List.contains_iff_mem.mp h)
  have hlt : List.findIdx (fun r => r == c) L < L.length :=
    List.findIdx_lt_length_of_exists ⟨c, hm, beq_self_eq_true c⟩
  have hlt2 : List.findIdx (fun r => r == c) L / 2 < L.length := Nat.lt_of_le_of_lt (Nat.div_le_self _ _) hlt
  refine ⟨hlt, ?_⟩
  rw [List.getD_eq_getElem?_getD, List.getElem?_eq_getElem hlt2, Option.getD_some]

/-- `modular_squareroot_in_FQ2(value)` as translated from the source (the candidate `value ** ((FQ2_ORDER + 8) // 16)`, the test
    `check in EIGHTH_ROOTS_OF_UNITY[::2]`, the division by `EIGHTH_ROOTS_OF_UNITY[EIGHTH_ROOTS_OF_UNITY.index(check) // 2]`, the
    choice between `x1` and `-x1` by imaginary then real part, `None` otherwise) never raises and returns the model's
    `modularSquarerootInFq2 value`. -/
theorem modular_squareroot_in_FQ2_eq (value : F2) :
    Gen.ExtraHashCodec.modular_squareroot_in_FQ2 value = .ok (modularSquarerootInFq2 value) := by
  unfold Gen.ExtraHashCodec.modular_squareroot_in_FQ2 modularSquarerootInFq2
  simp only []
  by_cases h : (everyOther EIGHTH_ROOTS_OF_UNITY).contains
      ((value ^ ((blsconst_FQ2_ORDER + 8) / 16)) ^ 2 / value) = true
  · obtain ⟨h1, h2⟩ := index_ok EIGHTH_ROOTS_OF_UNITY _ h
    simp only [h, h1, if_true, pure_bind, h2]
    rfl
  · simp only [h]
    rfl

end PyEcc.Tie
