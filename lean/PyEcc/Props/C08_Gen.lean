/-
  PyEcc.Props.C08_Gen — property C08 (field classes satisfy the field axioms with canonical representatives) restated
  about the GENERATED code.  Every py_ecc function in a statement below is a definition of
  `PyEcc/Gen/ExtraFields{Fq,Fqp,Mul,Poly}.lean`, i.e. the Lean code the translator produced from the Python source of
  this run.  Proofs: the tie theorems `Props/TieFields*.lean` (generated method = model method, for all inputs) composed
  with the model theorems of `Props/C08.lean`, `C08_Fqp.lean`, `C08_FqpInv.lean`, `C08_Fq12.lean`.

  PART 1 — the prime-field class `FQ` of BOTH `py_ecc/fields/field_elements.py` (`Gen.ExtraFieldsFq.Ref.FQ.*`, namespace
  `FqRef` below) and `py_ecc/fields/optimized_field_elements.py` (`Gen.ExtraFieldsFq.Opt.FQ.*`, namespace `FqOpt`), and
  `py_ecc.utils.prime_field_inv` (`Gen.ExtraFieldsFq.Utils.prime_field_inv`).
  In the generated code an `FQ` object is the value of its attribute `n` (an `Int`) and the class attribute
  `field_modulus` is the explicit first argument; `Red p a` (`0 ≤ a < p`) says that `a` is the attribute of an `FQ` object
  of the field with modulus `p` (the constructor reduces, so every object satisfies it: `init_int_red`).  The ring laws
  hold for every modulus `p ≠ 0`, the laws with `/` for every prime `p`.

  PART 2 — the extension-field classes `FQP` / `FQ2` / `FQ12` of both modules (`Gen.ExtraFieldsFqp`, `Gen.ExtraFieldsMul`,
  `Gen.ExtraFieldsPoly`; namespaces `FqpRef`, `FqpOpt` below).  An `FQP` object is the structure `FQP` of its instance
  attributes; the class attributes `field_modulus = p` and `FQ2_MODULUS_COEFFS` / `FQ12_MODULUS_COEFFS = mc` are the leading
  arguments of every function; a method returns `Except PyErr FQP` because the constructor raises when the number of
  coefficients is not the degree.
    `IsObj mc x`     : `x` has the attributes every object of the class has (`modulus_coeffs = mc`, `degree = len(mc)`,
                       `len(coeffs) = degree`, and `mc_tuples` as `__init__` computes it in the optimized class)
    `IsCanon p mc x` : moreover all coefficients are in `[0, p)` — what the constructor and every method return
                       (`init_ints_canon`, `results_canonical`)
    `evQ p mc x.coeffs` : the value of `x` in the quotient ring `(ZMod p)[X] / (X^d + Σ mcᵢ Xⁱ)` (Mathlib `AdjoinRoot`)
  The ring laws hold for ANY modulus `p > 0` and ANY modulus coefficients of length `≥ 1`; the inverse laws for any prime
  `p` and irreducible modulus.  The reference `FQP.inv` / `FQP.__div__` (FQP operand) are NOT translated (lists mixing
  ints and `FQ` objects, see COVERAGE.md), so the inverse laws are restated for the optimized class only.
-/
import PyEcc.Props.C08
import PyEcc.Props.C08_Fqp
import PyEcc.Props.C08_FqpInv
import PyEcc.Props.C08_Fq12
import PyEcc.Props.TieFieldsPoly

namespace PyEcc.C08.Gen
open PyEcc PyEcc.Gen.ExtraFieldsFq

/-- `a` is the attribute `n` of an `FQ` object of the field with modulus `p`: `0 ≤ a < p` -/
def Red (p : ℕ) (a : ℤ) : Prop := 0 ≤ a ∧ a < (p : ℤ)

instance (p : ℕ) (a : ℤ) : Decidable (Red p a) := by unfold Red; infer_instance

/-- a reduced int is the attribute of a model element -/
theorem Red.lift {p : ℕ} {a : ℤ} (h : Red p a) : ∃ x : Fq p, (x.n : ℤ) = a :=
  ⟨⟨a.toNat, by have := h.1; have := h.2; omega⟩, by have := h.1; simp only []; omega⟩

/-- the attribute of a model element is reduced -/
theorem red_n {p : ℕ} (x : Fq p) : Red p (x.n : ℤ) := ⟨by omega, by have := x.lt; omega⟩

theorem cn {p : ℕ} {x y : Fq p} (h : x = y) : (x.n : ℤ) = (y.n : ℤ) := by rw [h]

theorem n_inj {p : ℕ} {x y : Fq p} (h : (x.n : ℤ) = (y.n : ℤ)) : x = y := Fq.ext (by omega)

/-! ## `py_ecc.utils.prime_field_inv` -/

/-- **`prime_field_inv(a, p)` is the inverse modulo `p`** — the generated function returns, for every prime `p` and
    EVERY Python int `a` (negative, `≥ p`, multiples of `p`), the canonical representative in `[0, p)` of the inverse
    of `a` in the field `ZMod p` (with `inv 0 = 0`). -/
theorem prime_field_inv_correct {p : ℕ} (hp : p.Prime) (a : ℤ) :
    ((Utils.prime_field_inv a p : ℤ) : ZMod p) = (a : ZMod p)⁻¹ ∧
      0 ≤ Utils.prime_field_inv a p ∧ Utils.prime_field_inv a p < p := by
  rw [Tie.prime_field_inv_eq]; exact C08.primeFieldInv_correct hp a

/-- `prime_field_inv(a, p) * a ≡ 1 (mod p)` when `p` is prime and does not divide `a`; `prime_field_inv(a, p) = 0`
    when it does. -/
theorem prime_field_inv_mul {p : ℕ} (hp : p.Prime) (a : ℤ) :
    (a % (p : ℤ) ≠ 0 → (Utils.prime_field_inv a p * a) % (p : ℤ) = 1) ∧
    (a % (p : ℤ) = 0 → Utils.prime_field_inv a p = 0) := by
  have : Fact p.Prime := ⟨hp⟩
  have hp1 : (1 : ℤ) < p := by exact_mod_cast hp.one_lt
  constructor
  · intro ha
    have h := (prime_field_inv_correct hp a).1
    have hne : (a : ZMod p) ≠ 0 := by
      intro h0
      exact ha (Int.emod_eq_zero_of_dvd ((ZMod.intCast_zmod_eq_zero_iff_dvd a p).mp h0))
    have h1 : (((Utils.prime_field_inv a p * a : ℤ)) : ZMod p) = ((1 : ℤ) : ZMod p) := by
      push_cast; rw [h, inv_mul_cancel₀ hne]
    have h2 := (ZMod.intCast_eq_intCast_iff' _ _ _).mp h1
    rw [h2]; exact Int.emod_eq_of_lt (by omega) hp1
  · intro ha
    unfold Utils.prime_field_inv
    simp [ha]

/-! ## reference class `FQ` (`py_ecc/fields/field_elements.py`) -/
namespace FqRef
open Gen.ExtraFieldsFq.Ref
variable {p : ℕ}

section ring
variable [NeZero p]

/-- **Results are stored reduced (reference `FQ`).**  The constructor applied to ANY Python int, and `+ - * / neg **`
    (FQ and int operand kinds) applied to `FQ` objects, return an attribute in `[0, p)`. -/
theorem results_reduced {a b : ℤ} (ha : Red p a) (hb : Red p b) (k : ℤ) :
    Red p (FQ.init_int p k) ∧ Red p (FQ.add_fq p a b) ∧ Red p (FQ.sub_fq p a b) ∧ Red p (FQ.mul_fq p a b) ∧
    Red p (FQ.div_fq p a b) ∧ Red p (FQ.neg p a) ∧ Red p (FQ.pow p a k) ∧
    Red p (FQ.add_int p a k) ∧ Red p (FQ.sub_int p a k) ∧ Red p (FQ.rsub_int p a k) ∧ Red p (FQ.mul_int p a k) ∧
    Red p (FQ.div_int p a k) ∧ Red p (FQ.rdiv_int p a k) ∧ Red p (FQ.one p) ∧ Red p (FQ.zero p) := by
  obtain ⟨a, rfl⟩ := ha.lift
  obtain ⟨b, rfl⟩ := hb.lift
  rw [Tie.FqRef.init_int_eq, Tie.FqRef.add_fq_eq, Tie.FqRef.sub_fq_eq, Tie.FqRef.mul_fq_eq, Tie.FqRef.div_fq_eq,
    Tie.FqRef.neg_eq, Tie.FqRef.pow_eq, Tie.FqRef.add_int_eq, Tie.FqRef.sub_int_eq, Tie.FqRef.rsub_int_eq,
    Tie.FqRef.mul_int_eq, Tie.FqRef.div_int_eq, Tie.FqRef.rdiv_int_eq, Tie.FqRef.one_eq, Tie.FqRef.zero_eq]
  exact ⟨red_n _, red_n _, red_n _, red_n _, red_n _, red_n _, red_n _, red_n _, red_n _, red_n _, red_n _, red_n _,
    red_n _, red_n _, red_n _⟩

/-- the constructor `FQ(k)` stores `k mod p` (Python's non-negative remainder), for every int `k` -/
theorem init_int_red (k : ℤ) : Red p (FQ.init_int p k) ∧ FQ.init_int p k = k % (p : ℤ) := by
  refine ⟨?_, rfl⟩
  rw [Tie.FqRef.init_int_eq]; exact red_n _

/-- **`FQ` is `ZMod p` (reference class).**  Reading the attribute of an `FQ` object as a residue class turns the
    generated `+ - * neg **` into the ring operations of `ZMod p`, and `FQ(k)` into the class of `k`. -/
theorem refines_zmod {a b : ℤ} (ha : Red p a) (hb : Red p b) (k : ℤ) (n : ℕ) :
    ((FQ.init_int p k : ℤ) : ZMod p) = (k : ZMod p) ∧
    ((FQ.add_fq p a b : ℤ) : ZMod p) = (a : ZMod p) + (b : ZMod p) ∧
    ((FQ.sub_fq p a b : ℤ) : ZMod p) = (a : ZMod p) - (b : ZMod p) ∧
    ((FQ.mul_fq p a b : ℤ) : ZMod p) = (a : ZMod p) * (b : ZMod p) ∧
    ((FQ.neg p a : ℤ) : ZMod p) = -(a : ZMod p) ∧
    ((FQ.pow p a n : ℤ) : ZMod p) = (a : ZMod p) ^ n := by
  obtain ⟨a, rfl⟩ := ha.lift
  obtain ⟨b, rfl⟩ := hb.lift
  obtain ⟨e, he, hz, hadd, hmul, hsub, hneg, hpow⟩ := C08.fq_ringEquiv_zmod (p := p)
  rw [Tie.FqRef.init_int_eq, Tie.FqRef.add_fq_eq, Tie.FqRef.sub_fq_eq, Tie.FqRef.mul_fq_eq, Tie.FqRef.neg_eq,
    Tie.FqRef.pow_eq]
  simp only [Int.cast_natCast, Int.toNat_natCast]
  rw [← he, ← he, ← he, ← he, ← he, ← he, ← he, ← he]
  exact ⟨hz k, hadd a b, hsub a b, hmul a b, hneg a, hpow a n⟩

/-- `(a + b) + c == a + (b + c)` for the generated reference `FQ.__add__` -/
theorem add_assoc {a b c : ℤ} (ha : Red p a) (hb : Red p b) (hc : Red p c) :
    FQ.add_fq p (FQ.add_fq p a b) c = FQ.add_fq p a (FQ.add_fq p b c) := by
  obtain ⟨a, rfl⟩ := ha.lift; obtain ⟨b, rfl⟩ := hb.lift; obtain ⟨c, rfl⟩ := hc.lift
  simp only [Tie.FqRef.add_fq_eq, C08.add_assoc]

/-- `a + b == b + a` -/
theorem add_comm {a b : ℤ} (ha : Red p a) (hb : Red p b) : FQ.add_fq p a b = FQ.add_fq p b a := by
  obtain ⟨a, rfl⟩ := ha.lift; obtain ⟨b, rfl⟩ := hb.lift
  rw [Tie.FqRef.add_fq_eq, Tie.FqRef.add_fq_eq, C08.add_comm]

/-- `(a * b) * c == a * (b * c)` for the generated reference `FQ.__mul__` -/
theorem mul_assoc {a b c : ℤ} (ha : Red p a) (hb : Red p b) (hc : Red p c) :
    FQ.mul_fq p (FQ.mul_fq p a b) c = FQ.mul_fq p a (FQ.mul_fq p b c) := by
  obtain ⟨a, rfl⟩ := ha.lift; obtain ⟨b, rfl⟩ := hb.lift; obtain ⟨c, rfl⟩ := hc.lift
  simp only [Tie.FqRef.mul_fq_eq, C08.mul_assoc]

/-- `a * b == b * a` -/
theorem mul_comm {a b : ℤ} (ha : Red p a) (hb : Red p b) : FQ.mul_fq p a b = FQ.mul_fq p b a := by
  obtain ⟨a, rfl⟩ := ha.lift; obtain ⟨b, rfl⟩ := hb.lift
  rw [Tie.FqRef.mul_fq_eq, Tie.FqRef.mul_fq_eq, C08.mul_comm]

/-- `a * (b + c) == a * b + a * c` and `(a + b) * c == a * c + b * c` -/
theorem distrib {a b c : ℤ} (ha : Red p a) (hb : Red p b) (hc : Red p c) :
    FQ.mul_fq p a (FQ.add_fq p b c) = FQ.add_fq p (FQ.mul_fq p a b) (FQ.mul_fq p a c) ∧
    FQ.mul_fq p (FQ.add_fq p a b) c = FQ.add_fq p (FQ.mul_fq p a c) (FQ.mul_fq p b c) := by
  obtain ⟨a, rfl⟩ := ha.lift; obtain ⟨b, rfl⟩ := hb.lift; obtain ⟨c, rfl⟩ := hc.lift
  simp only [Tie.FqRef.mul_fq_eq, Tie.FqRef.add_fq_eq, C08.left_distrib, C08.right_distrib, and_self]

/-- neutral elements: `a + FQ.zero() == a`, `a * FQ.one() == a`, `a * FQ.zero() == FQ.zero()` -/
theorem neutral {a : ℤ} (ha : Red p a) :
    FQ.add_fq p a (FQ.zero p) = a ∧ FQ.add_fq p (FQ.zero p) a = a ∧
    FQ.mul_fq p a (FQ.one p) = a ∧ FQ.mul_fq p (FQ.one p) a = a ∧ FQ.mul_fq p (FQ.zero p) a = FQ.zero p := by
  obtain ⟨a, rfl⟩ := ha.lift
  simp only [Tie.FqRef.zero_eq, Tie.FqRef.one_eq, Tie.FqRef.add_fq_eq, Tie.FqRef.mul_fq_eq]
  exact ⟨cn (C08.add_zero a), cn (C08.zero_add a), cn (C08.mul_one a),
    cn (C08.one_mul a), cn (C08.zero_mul a)⟩

/-- negation and subtraction: `(-a) + a == FQ.zero()`, `a - b == a + (-b)`, `a - a == FQ.zero()`,
    and the reflected `__rsub__` is the subtraction with swapped operands -/
theorem neg_sub {a b : ℤ} (ha : Red p a) (hb : Red p b) :
    FQ.add_fq p (FQ.neg p a) a = FQ.zero p ∧ FQ.sub_fq p a b = FQ.add_fq p a (FQ.neg p b) ∧
    FQ.sub_fq p a a = FQ.zero p ∧ FQ.rsub_fq p a b = FQ.sub_fq p b a := by
  obtain ⟨a, rfl⟩ := ha.lift; obtain ⟨b, rfl⟩ := hb.lift
  simp only [Tie.FqRef.zero_eq, Tie.FqRef.neg_eq, Tie.FqRef.add_fq_eq, Tie.FqRef.sub_fq_eq, Tie.FqRef.rsub_fq_eq]
  exact ⟨cn (C08.neg_add_cancel a), cn (C08.sub_eq_add_neg a b), cn (C08.sub_self a),
    trivial⟩

/-- **`x ** n` is the n-fold product, for every `n ≥ 0` however large**: `a ** 0 == FQ.one()`,
    `a ** (n+1) == (a ** n) * a`, `a ** (m+n) == (a ** m) * (a ** n)`, `a ** (m*n) == (a ** m) ** n`; a negative
    exponent gives `FQ.one()` (the loop `while other > 0` does not run). -/
theorem pow_laws {a : ℤ} (ha : Red p a) (m n : ℕ) :
    FQ.pow p a 0 = FQ.one p ∧ FQ.pow p a ((n : ℤ) + 1) = FQ.mul_fq p (FQ.pow p a n) a ∧
    FQ.pow p a ((m : ℤ) + n) = FQ.mul_fq p (FQ.pow p a m) (FQ.pow p a n) ∧
    FQ.pow p a ((m : ℤ) * n) = FQ.pow p (FQ.pow p a m) n ∧
    (∀ e : ℤ, e < 0 → FQ.pow p a e = FQ.one p) := by
  obtain ⟨a, rfl⟩ := ha.lift
  have e1 : ((n : ℤ) + 1).toNat = n + 1 := by omega
  have e2 : ((m : ℤ) + n).toNat = m + n := by omega
  have e3 : ((m : ℤ) * n).toNat = m * n := by rw [← Int.natCast_mul]; exact Int.toNat_natCast _
  simp only [Tie.FqRef.pow_eq, Tie.FqRef.one_eq, Tie.FqRef.mul_fq_eq, e1, e2, e3, Int.toNat_natCast, Int.toNat_zero]
  refine ⟨cn (C08.pow_zero a), cn (C08.pow_succ a n), cn (C08.pow_add a m n),
    cn (C08.pow_mul a m n), fun e he => ?_⟩
  have : e.toNat = 0 := by omega
  rw [this]; exact cn (C08.pow_zero a)

/-- **int operands act as their residues**: `a + k == a + FQ(k)`, `a * k == a * FQ(k)`, `a - k == a - FQ(k)`,
    `k - a == FQ(k) - a` for every Python int `k` (negative and `> p` included); the reflected `__radd__`, `__rmul__`
    are the same functions. -/
theorem int_operands {a : ℤ} (ha : Red p a) (k : ℤ) :
    FQ.add_int p a k = FQ.add_fq p a (FQ.init_int p k) ∧ FQ.mul_int p a k = FQ.mul_fq p a (FQ.init_int p k) ∧
    FQ.sub_int p a k = FQ.sub_fq p a (FQ.init_int p k) ∧ FQ.rsub_int p a k = FQ.sub_fq p (FQ.init_int p k) a ∧
    FQ.radd_int p a k = FQ.add_int p a k ∧ FQ.rmul_int p a k = FQ.mul_int p a k := by
  obtain ⟨a, rfl⟩ := ha.lift
  simp only [Tie.FqRef.init_int_eq, Tie.FqRef.add_int_eq, Tie.FqRef.mul_int_eq, Tie.FqRef.sub_int_eq,
    Tie.FqRef.rsub_int_eq, Tie.FqRef.add_fq_eq, Tie.FqRef.mul_fq_eq, Tie.FqRef.sub_fq_eq, Tie.FqRef.radd_int_eq,
    Tie.FqRef.rmul_int_eq]
  exact ⟨cn (C08.addInt_eq a k), cn (C08.mulInt_eq a k), cn (C08.subInt_eq a k),
    cn (C08.rsubInt_eq a k), trivial, trivial⟩

omit [NeZero p] in
/-- **equality is value equality**: `FQ.__eq__` on two `FQ` objects is `True` iff the attributes are the same int
    (representatives are unique), `__ne__` is its negation; `FQ == int` compares the stored residue with the RAW int. -/
theorem eq_iff {a b : ℤ} (k : ℤ) :
    (FQ.eq_fq p a b = true ↔ a = b) ∧ (FQ.ne_fq p a b = !FQ.eq_fq p a b) ∧ (FQ.eq_int p a k = true ↔ a = k) := by
  simp [FQ.eq_fq, FQ.ne_fq, FQ.eq_int]

end ring

section field
variable [Fact p.Prime]

/-- **Field axioms with `/` (reference `FQ`, ANY prime `p`)**: `(a / b) * b == a` and `b / b == FQ.one()` for
    `b != FQ.zero()`; `a / FQ.zero() == FQ.zero()` (division by zero does not raise, `inv0` convention);
    `a / b == a * prime_field_inv(b, p)` with the generated `prime_field_inv`; `__truediv__` is `__div__`, the
    reflected `__rdiv__` is the division with swapped operands; no zero divisors. -/
theorem div_laws {a b : ℤ} (ha : Red p a) (hb : Red p b) :
    (b ≠ 0 → FQ.mul_fq p (FQ.div_fq p a b) b = a) ∧ (b ≠ 0 → FQ.div_fq p b b = FQ.one p) ∧
    FQ.div_fq p a (FQ.zero p) = FQ.zero p ∧
    FQ.div_fq p a b = FQ.mul_int p a (Utils.prime_field_inv b p) ∧
    FQ.truediv_fq p a b = FQ.div_fq p a b ∧ FQ.rdiv_fq p a b = FQ.div_fq p b a ∧
    (FQ.mul_fq p a b = 0 ↔ a = 0 ∨ b = 0) := by
  have : NeZero p := FqSem.neZero_of_fact_prime
  have hz : FQ.zero (p : ℤ) = 0 := by simp [FQ.zero, FQ.init_int]
  obtain ⟨a, rfl⟩ := ha.lift; obtain ⟨b, rfl⟩ := hb.lift
  have h0 : ∀ x : Fq p, ((x.n : ℤ) = 0) ↔ x = Fq.ofInt 0 := by
    intro x
    have : ((Fq.ofInt 0 : Fq p).n : ℤ) = 0 := by rw [Tie.Fq.ofInt_n]; simp
    constructor
    · intro h; exact n_inj (h.trans this.symm)
    · intro h; rw [h]; exact this
  refine ⟨fun hb0 => ?_, fun hb0 => ?_, ?_, ?_, rfl, ?_, ?_⟩
  · rw [Tie.FqRef.div_fq_eq, Tie.FqRef.mul_fq_eq]
    exact cn (C08.div_mul_cancel a b (fun h => hb0 ((h0 b).mpr h)))
  · rw [Tie.FqRef.div_fq_eq, Tie.FqRef.one_eq]
    exact cn (C08.div_self b (fun h => hb0 ((h0 b).mpr h)))
  · rw [Tie.FqRef.zero_eq, Tie.FqRef.div_fq_eq]; exact cn (C08.div_zero a)
  · rw [Tie.prime_field_inv_eq]; rfl
  · rw [Tie.FqRef.rdiv_fq_eq, Tie.FqRef.div_fq_eq]
  · rw [Tie.FqRef.mul_fq_eq, h0, h0, h0]; exact C08.mul_eq_zero a b

/-- `a / k == a / FQ(k)` and `k / a == FQ(k) / a` for every Python int `k` (so `a / k == FQ.zero()` when `p ∣ k`) -/
theorem div_int_operands {a : ℤ} (ha : Red p a) (k : ℤ) :
    FQ.div_int p a k = FQ.div_fq p a (FQ.init_int p k) ∧ FQ.rdiv_int p a k = FQ.div_fq p (FQ.init_int p k) a := by
  have : NeZero p := FqSem.neZero_of_fact_prime
  obtain ⟨a, rfl⟩ := ha.lift
  simp only [Tie.FqRef.init_int_eq, Tie.FqRef.div_int_eq, Tie.FqRef.rdiv_int_eq, Tie.FqRef.div_fq_eq]
  exact ⟨cn (C08.divInt_eq a k), cn (C08.rdivInt_eq a k)⟩

/-- division is the division of the field `ZMod p` (with `x / 0 = 0` on both sides) -/
theorem div_refines_zmod {a b : ℤ} (ha : Red p a) (hb : Red p b) :
    ((FQ.div_fq p a b : ℤ) : ZMod p) = (a : ZMod p) / (b : ZMod p) := by
  have : NeZero p := FqSem.neZero_of_fact_prime
  obtain ⟨a, rfl⟩ := ha.lift; obtain ⟨b, rfl⟩ := hb.lift
  rw [Tie.FqRef.div_fq_eq]
  simp only [Int.cast_natCast]
  exact (C08.fq_div_inv_zmod a b).1

/-- Fermat: `a ** (p - 1) == FQ.one()` for `a != FQ.zero()` -/
theorem pow_card_sub_one {a : ℤ} (ha : Red p a) (h0 : a ≠ 0) : FQ.pow p a ((p : ℤ) - 1) = FQ.one p := by
  have : NeZero p := FqSem.neZero_of_fact_prime
  obtain ⟨a, rfl⟩ := ha.lift
  have e : ((p : ℤ) - 1).toNat = p - 1 := by omega
  rw [Tie.FqRef.pow_eq, Tie.FqRef.one_eq, e]
  refine cn (C08.pow_card_sub_one a (fun h => h0 ?_))
  rw [h, Tie.Fq.ofInt_n]; simp

end field
end FqRef

/-! ## optimized class `FQ` (`py_ecc/fields/optimized_field_elements.py`) -/
namespace FqOpt
open Gen.ExtraFieldsFq.Opt
variable {p : ℕ}

section ring
variable [NeZero p]

/-- **Results are stored reduced (optimized `FQ`).**  The constructor applied to ANY Python int, and `+ - * / neg **`
    (FQ and int operand kinds) applied to `FQ` objects, return an attribute in `[0, p)`. -/
theorem results_reduced {a b : ℤ} (ha : Red p a) (hb : Red p b) (k : ℤ) :
    Red p (FQ.init_int p k) ∧ Red p (FQ.add_fq p a b) ∧ Red p (FQ.sub_fq p a b) ∧ Red p (FQ.mul_fq p a b) ∧
    Red p (FQ.div_fq p a b) ∧ Red p (FQ.neg p a) ∧ Red p (FQ.pow p a k) ∧
    Red p (FQ.add_int p a k) ∧ Red p (FQ.sub_int p a k) ∧ Red p (FQ.rsub_int p a k) ∧ Red p (FQ.mul_int p a k) ∧
    Red p (FQ.div_int p a k) ∧ Red p (FQ.rdiv_int p a k) ∧ Red p (FQ.one p) ∧ Red p (FQ.zero p) := by
  obtain ⟨a, rfl⟩ := ha.lift
  obtain ⟨b, rfl⟩ := hb.lift
  rw [Tie.FqOpt.init_int_eq, Tie.FqOpt.add_fq_eq, Tie.FqOpt.sub_fq_eq, Tie.FqOpt.mul_fq_eq, Tie.FqOpt.div_fq_eq,
    Tie.FqOpt.neg_eq, Tie.FqOpt.pow_eq, Tie.FqOpt.add_int_eq, Tie.FqOpt.sub_int_eq, Tie.FqOpt.rsub_int_eq,
    Tie.FqOpt.mul_int_eq, Tie.FqOpt.div_int_eq, Tie.FqOpt.rdiv_int_eq, Tie.FqOpt.one_eq, Tie.FqOpt.zero_eq]
  exact ⟨red_n _, red_n _, red_n _, red_n _, red_n _, red_n _, red_n _, red_n _, red_n _, red_n _, red_n _, red_n _,
    red_n _, red_n _, red_n _⟩

/-- the constructor `FQ(k)` stores `k mod p` (Python's non-negative remainder), for every int `k` -/
theorem init_int_red (k : ℤ) : Red p (FQ.init_int p k) ∧ FQ.init_int p k = k % (p : ℤ) := by
  refine ⟨?_, rfl⟩
  rw [Tie.FqOpt.init_int_eq]; exact red_n _

/-- **`FQ` is `ZMod p` (optimized class).**  Reading the attribute of an `FQ` object as a residue class turns the
    generated `+ - * neg **` into the ring operations of `ZMod p`, and `FQ(k)` into the class of `k`. -/
theorem refines_zmod {a b : ℤ} (ha : Red p a) (hb : Red p b) (k : ℤ) (n : ℕ) :
    ((FQ.init_int p k : ℤ) : ZMod p) = (k : ZMod p) ∧
    ((FQ.add_fq p a b : ℤ) : ZMod p) = (a : ZMod p) + (b : ZMod p) ∧
    ((FQ.sub_fq p a b : ℤ) : ZMod p) = (a : ZMod p) - (b : ZMod p) ∧
    ((FQ.mul_fq p a b : ℤ) : ZMod p) = (a : ZMod p) * (b : ZMod p) ∧
    ((FQ.neg p a : ℤ) : ZMod p) = -(a : ZMod p) ∧
    ((FQ.pow p a n : ℤ) : ZMod p) = (a : ZMod p) ^ n := by
  obtain ⟨a, rfl⟩ := ha.lift
  obtain ⟨b, rfl⟩ := hb.lift
  obtain ⟨e, he, hz, hadd, hmul, hsub, hneg, hpow⟩ := C08.fq_ringEquiv_zmod (p := p)
  rw [Tie.FqOpt.init_int_eq, Tie.FqOpt.add_fq_eq, Tie.FqOpt.sub_fq_eq, Tie.FqOpt.mul_fq_eq, Tie.FqOpt.neg_eq,
    Tie.FqOpt.pow_eq]
  simp only [Int.cast_natCast, Int.toNat_natCast]
  rw [← he, ← he, ← he, ← he, ← he, ← he, ← he, ← he]
  exact ⟨hz k, hadd a b, hsub a b, hmul a b, hneg a, hpow a n⟩

/-- `(a + b) + c == a + (b + c)` for the generated optimized `FQ.__add__` -/
theorem add_assoc {a b c : ℤ} (ha : Red p a) (hb : Red p b) (hc : Red p c) :
    FQ.add_fq p (FQ.add_fq p a b) c = FQ.add_fq p a (FQ.add_fq p b c) := by
  obtain ⟨a, rfl⟩ := ha.lift; obtain ⟨b, rfl⟩ := hb.lift; obtain ⟨c, rfl⟩ := hc.lift
  simp only [Tie.FqOpt.add_fq_eq, C08.add_assoc]

/-- `a + b == b + a` -/
theorem add_comm {a b : ℤ} (ha : Red p a) (hb : Red p b) : FQ.add_fq p a b = FQ.add_fq p b a := by
  obtain ⟨a, rfl⟩ := ha.lift; obtain ⟨b, rfl⟩ := hb.lift
  rw [Tie.FqOpt.add_fq_eq, Tie.FqOpt.add_fq_eq, C08.add_comm]

/-- `(a * b) * c == a * (b * c)` for the generated optimized `FQ.__mul__` -/
theorem mul_assoc {a b c : ℤ} (ha : Red p a) (hb : Red p b) (hc : Red p c) :
    FQ.mul_fq p (FQ.mul_fq p a b) c = FQ.mul_fq p a (FQ.mul_fq p b c) := by
  obtain ⟨a, rfl⟩ := ha.lift; obtain ⟨b, rfl⟩ := hb.lift; obtain ⟨c, rfl⟩ := hc.lift
  simp only [Tie.FqOpt.mul_fq_eq, C08.mul_assoc]

/-- `a * b == b * a` -/
theorem mul_comm {a b : ℤ} (ha : Red p a) (hb : Red p b) : FQ.mul_fq p a b = FQ.mul_fq p b a := by
  obtain ⟨a, rfl⟩ := ha.lift; obtain ⟨b, rfl⟩ := hb.lift
  rw [Tie.FqOpt.mul_fq_eq, Tie.FqOpt.mul_fq_eq, C08.mul_comm]

/-- `a * (b + c) == a * b + a * c` and `(a + b) * c == a * c + b * c` -/
theorem distrib {a b c : ℤ} (ha : Red p a) (hb : Red p b) (hc : Red p c) :
    FQ.mul_fq p a (FQ.add_fq p b c) = FQ.add_fq p (FQ.mul_fq p a b) (FQ.mul_fq p a c) ∧
    FQ.mul_fq p (FQ.add_fq p a b) c = FQ.add_fq p (FQ.mul_fq p a c) (FQ.mul_fq p b c) := by
  obtain ⟨a, rfl⟩ := ha.lift; obtain ⟨b, rfl⟩ := hb.lift; obtain ⟨c, rfl⟩ := hc.lift
  simp only [Tie.FqOpt.mul_fq_eq, Tie.FqOpt.add_fq_eq, C08.left_distrib, C08.right_distrib, and_self]

/-- neutral elements: `a + FQ.zero() == a`, `a * FQ.one() == a`, `a * FQ.zero() == FQ.zero()` -/
theorem neutral {a : ℤ} (ha : Red p a) :
    FQ.add_fq p a (FQ.zero p) = a ∧ FQ.add_fq p (FQ.zero p) a = a ∧
    FQ.mul_fq p a (FQ.one p) = a ∧ FQ.mul_fq p (FQ.one p) a = a ∧ FQ.mul_fq p (FQ.zero p) a = FQ.zero p := by
  obtain ⟨a, rfl⟩ := ha.lift
  simp only [Tie.FqOpt.zero_eq, Tie.FqOpt.one_eq, Tie.FqOpt.add_fq_eq, Tie.FqOpt.mul_fq_eq]
  exact ⟨cn (C08.add_zero a), cn (C08.zero_add a), cn (C08.mul_one a),
    cn (C08.one_mul a), cn (C08.zero_mul a)⟩

/-- negation and subtraction: `(-a) + a == FQ.zero()`, `a - b == a + (-b)`, `a - a == FQ.zero()`,
    and the reflected `__rsub__` is the subtraction with swapped operands -/
theorem neg_sub {a b : ℤ} (ha : Red p a) (hb : Red p b) :
    FQ.add_fq p (FQ.neg p a) a = FQ.zero p ∧ FQ.sub_fq p a b = FQ.add_fq p a (FQ.neg p b) ∧
    FQ.sub_fq p a a = FQ.zero p ∧ FQ.rsub_fq p a b = FQ.sub_fq p b a := by
  obtain ⟨a, rfl⟩ := ha.lift; obtain ⟨b, rfl⟩ := hb.lift
  simp only [Tie.FqOpt.zero_eq, Tie.FqOpt.neg_eq, Tie.FqOpt.add_fq_eq, Tie.FqOpt.sub_fq_eq, Tie.FqOpt.rsub_fq_eq]
  exact ⟨cn (C08.neg_add_cancel a), cn (C08.sub_eq_add_neg a b), cn (C08.sub_self a),
    trivial⟩

/-- **`x ** n` is the n-fold product, for every `n ≥ 0` however large**: `a ** 0 == FQ.one()`,
    `a ** (n+1) == (a ** n) * a`, `a ** (m+n) == (a ** m) * (a ** n)`, `a ** (m*n) == (a ** m) ** n`; a negative
    exponent gives `FQ.one()` (the loop `while other > 0` does not run). -/
theorem pow_laws {a : ℤ} (ha : Red p a) (m n : ℕ) :
    FQ.pow p a 0 = FQ.one p ∧ FQ.pow p a ((n : ℤ) + 1) = FQ.mul_fq p (FQ.pow p a n) a ∧
    FQ.pow p a ((m : ℤ) + n) = FQ.mul_fq p (FQ.pow p a m) (FQ.pow p a n) ∧
    FQ.pow p a ((m : ℤ) * n) = FQ.pow p (FQ.pow p a m) n ∧
    (∀ e : ℤ, e < 0 → FQ.pow p a e = FQ.one p) := by
  obtain ⟨a, rfl⟩ := ha.lift
  have e1 : ((n : ℤ) + 1).toNat = n + 1 := by omega
  have e2 : ((m : ℤ) + n).toNat = m + n := by omega
  have e3 : ((m : ℤ) * n).toNat = m * n := by rw [← Int.natCast_mul]; exact Int.toNat_natCast _
  simp only [Tie.FqOpt.pow_eq, Tie.FqOpt.one_eq, Tie.FqOpt.mul_fq_eq, e1, e2, e3, Int.toNat_natCast, Int.toNat_zero]
  refine ⟨cn (C08.pow_zero a), cn (C08.pow_succ a n), cn (C08.pow_add a m n),
    cn (C08.pow_mul a m n), fun e he => ?_⟩
  have : e.toNat = 0 := by omega
  rw [this]; exact cn (C08.pow_zero a)

/-- **int operands act as their residues**: `a + k == a + FQ(k)`, `a * k == a * FQ(k)`, `a - k == a - FQ(k)`,
    `k - a == FQ(k) - a` for every Python int `k` (negative and `> p` included); the reflected `__radd__`, `__rmul__`
    are the same functions. -/
theorem int_operands {a : ℤ} (ha : Red p a) (k : ℤ) :
    FQ.add_int p a k = FQ.add_fq p a (FQ.init_int p k) ∧ FQ.mul_int p a k = FQ.mul_fq p a (FQ.init_int p k) ∧
    FQ.sub_int p a k = FQ.sub_fq p a (FQ.init_int p k) ∧ FQ.rsub_int p a k = FQ.sub_fq p (FQ.init_int p k) a ∧
    FQ.radd_int p a k = FQ.add_int p a k ∧ FQ.rmul_int p a k = FQ.mul_int p a k := by
  obtain ⟨a, rfl⟩ := ha.lift
  simp only [Tie.FqOpt.init_int_eq, Tie.FqOpt.add_int_eq, Tie.FqOpt.mul_int_eq, Tie.FqOpt.sub_int_eq,
    Tie.FqOpt.rsub_int_eq, Tie.FqOpt.add_fq_eq, Tie.FqOpt.mul_fq_eq, Tie.FqOpt.sub_fq_eq, Tie.FqOpt.radd_int_eq,
    Tie.FqOpt.rmul_int_eq]
  exact ⟨cn (C08.addInt_eq a k), cn (C08.mulInt_eq a k), cn (C08.subInt_eq a k),
    cn (C08.rsubInt_eq a k), trivial, trivial⟩

omit [NeZero p] in
/-- **equality is value equality**: `FQ.__eq__` on two `FQ` objects is `True` iff the attributes are the same int
    (representatives are unique), `__ne__` is its negation; `FQ == int` compares the stored residue with the RAW int. -/
theorem eq_iff {a b : ℤ} (k : ℤ) :
    (FQ.eq_fq p a b = true ↔ a = b) ∧ (FQ.ne_fq p a b = !FQ.eq_fq p a b) ∧ (FQ.eq_int p a k = true ↔ a = k) := by
  simp [FQ.eq_fq, FQ.ne_fq, FQ.eq_int]

end ring

section field
variable [Fact p.Prime]

/-- **Field axioms with `/` (optimized `FQ`, ANY prime `p`)**: `(a / b) * b == a` and `b / b == FQ.one()` for
    `b != FQ.zero()`; `a / FQ.zero() == FQ.zero()` (division by zero does not raise, `inv0` convention);
    `a / b == a * prime_field_inv(b, p)` with the generated `prime_field_inv`; `__truediv__` is `__div__`, the
    reflected `__rdiv__` is the division with swapped operands; no zero divisors. -/
theorem div_laws {a b : ℤ} (ha : Red p a) (hb : Red p b) :
    (b ≠ 0 → FQ.mul_fq p (FQ.div_fq p a b) b = a) ∧ (b ≠ 0 → FQ.div_fq p b b = FQ.one p) ∧
    FQ.div_fq p a (FQ.zero p) = FQ.zero p ∧
    FQ.div_fq p a b = FQ.mul_int p a (Utils.prime_field_inv b p) ∧
    FQ.truediv_fq p a b = FQ.div_fq p a b ∧ FQ.rdiv_fq p a b = FQ.div_fq p b a ∧
    (FQ.mul_fq p a b = 0 ↔ a = 0 ∨ b = 0) := by
  have : NeZero p := FqSem.neZero_of_fact_prime
  have hz : FQ.zero (p : ℤ) = 0 := by simp [FQ.zero, FQ.init_int]
  obtain ⟨a, rfl⟩ := ha.lift; obtain ⟨b, rfl⟩ := hb.lift
  have h0 : ∀ x : Fq p, ((x.n : ℤ) = 0) ↔ x = Fq.ofInt 0 := by
    intro x
    have : ((Fq.ofInt 0 : Fq p).n : ℤ) = 0 := by rw [Tie.Fq.ofInt_n]; simp
    constructor
    · intro h; exact n_inj (h.trans this.symm)
    · intro h; rw [h]; exact this
  refine ⟨fun hb0 => ?_, fun hb0 => ?_, ?_, ?_, rfl, ?_, ?_⟩
  · rw [Tie.FqOpt.div_fq_eq, Tie.FqOpt.mul_fq_eq]
    exact cn (C08.div_mul_cancel a b (fun h => hb0 ((h0 b).mpr h)))
  · rw [Tie.FqOpt.div_fq_eq, Tie.FqOpt.one_eq]
    exact cn (C08.div_self b (fun h => hb0 ((h0 b).mpr h)))
  · rw [Tie.FqOpt.zero_eq, Tie.FqOpt.div_fq_eq]; exact cn (C08.div_zero a)
  · rw [Tie.prime_field_inv_eq]; rfl
  · rw [Tie.FqOpt.rdiv_fq_eq, Tie.FqOpt.div_fq_eq]
  · rw [Tie.FqOpt.mul_fq_eq, h0, h0, h0]; exact C08.mul_eq_zero a b

/-- `a / k == a / FQ(k)` and `k / a == FQ(k) / a` for every Python int `k` (so `a / k == FQ.zero()` when `p ∣ k`) -/
theorem div_int_operands {a : ℤ} (ha : Red p a) (k : ℤ) :
    FQ.div_int p a k = FQ.div_fq p a (FQ.init_int p k) ∧ FQ.rdiv_int p a k = FQ.div_fq p (FQ.init_int p k) a := by
  have : NeZero p := FqSem.neZero_of_fact_prime
  obtain ⟨a, rfl⟩ := ha.lift
  simp only [Tie.FqOpt.init_int_eq, Tie.FqOpt.div_int_eq, Tie.FqOpt.rdiv_int_eq, Tie.FqOpt.div_fq_eq]
  exact ⟨cn (C08.divInt_eq a k), cn (C08.rdivInt_eq a k)⟩

/-- division is the division of the field `ZMod p` (with `x / 0 = 0` on both sides) -/
theorem div_refines_zmod {a b : ℤ} (ha : Red p a) (hb : Red p b) :
    ((FQ.div_fq p a b : ℤ) : ZMod p) = (a : ZMod p) / (b : ZMod p) := by
  have : NeZero p := FqSem.neZero_of_fact_prime
  obtain ⟨a, rfl⟩ := ha.lift; obtain ⟨b, rfl⟩ := hb.lift
  rw [Tie.FqOpt.div_fq_eq]
  simp only [Int.cast_natCast]
  exact (C08.fq_div_inv_zmod a b).1

/-- Fermat: `a ** (p - 1) == FQ.one()` for `a != FQ.zero()` -/
theorem pow_card_sub_one {a : ℤ} (ha : Red p a) (h0 : a ≠ 0) : FQ.pow p a ((p : ℤ) - 1) = FQ.one p := by
  have : NeZero p := FqSem.neZero_of_fact_prime
  obtain ⟨a, rfl⟩ := ha.lift
  have e : ((p : ℤ) - 1).toNat = p - 1 := by omega
  rw [Tie.FqOpt.pow_eq, Tie.FqOpt.one_eq, e]
  refine cn (C08.pow_card_sub_one a (fun h => h0 ?_))
  rw [h, Tie.Fq.ofInt_n]; simp

end field
end FqOpt

/-! ## non-vacuity: the hypotheses are satisfiable, at `p = 7` and at the real BLS12-381 modulus; the generated code computes -/
section examples
open Gen.Consts
local instance : Fact (Nat.Prime 7) := ⟨by norm_num⟩

example : Red 7 3 ∧ Red 7 0 ∧ ¬ Red 7 7 ∧ ¬ Red 7 (-1) := by decide
example : Ref.FQ.mul_fq 7 (Ref.FQ.div_fq 7 2 3) 3 = 2 := (FqRef.div_laws (p := 7) (by decide) (by decide)).1 (by decide)
example : Opt.FQ.mul_fq 7 (Opt.FQ.div_fq 7 2 3) 3 = 2 := (FqOpt.div_laws (p := 7) (by decide) (by decide)).1 (by decide)
example : Ref.FQ.div_fq 7 2 3 = 3 ∧ Opt.FQ.pow 7 3 6 = 1 ∧ Ref.FQ.add_int 7 3 (-100) = 1 ∧ Utils.prime_field_inv 3 7 = 5 := by
  decide
example : fields_bls12_381_field_modulus.Prime := prime_blsP
set_option maxRecDepth 100000 in
example : Red fields_bls12_381_field_modulus 5 ∧ (5 : ℤ) ≠ 0 := by decide +kernel
end examples


/-! # PART 2 — the extension-field classes -/
section extension
open PyEcc.Fqp PyEcc.FqpSem

theorem ok_bind {ε α β : Type} (v : α) (f : α → Except ε β) : ((Except.ok v : Except ε α) >>= f) = f v := rfl

theorem zero_coeffs {v : Variant} {p : ℕ} {mc : List ℤ} :
    (0 : Fqp v p mc).coeffs = List.replicate mc.length 0 := by
  show (Fqp.ofInts (List.replicate mc.length 0) : Fqp v p mc).coeffs = _
  simp [Fqp.ofInts]

section wf
variable {v : Variant} {p : ℕ} {mc : List ℤ}
theorem wfa {a b : Fqp v p mc} (ha : WF a) (hb : WF b) : WF (a + b) := wf_add ha hb
theorem wfm {a b : Fqp v p mc} (ha : WF a) (hb : WF b) : WF (a * b) := wf_mul ha hb
theorem wfn {a : Fqp v p mc} (ha : WF a) : WF (-a) := wf_neg ha
theorem wfp (hd : 1 ≤ mc.length) {a : Fqp v p mc} (ha : WF a) (n : ℕ) : WF (a ^ n) := wf_pow hd ha n
theorem wf0 : WF (0 : Fqp v p mc) := wf_zero
theorem wf1 (hd : 1 ≤ mc.length) : WF (1 : Fqp v p mc) := wf_one hd
end wf

/-! ## reference classes (`py_ecc/fields/field_elements.py`) -/
namespace FqpRef
open Gen.ExtraFieldsFq.Ref Gen.ExtraFieldsFqp.Ref Gen.ExtraFieldsMul.Ref
open _root_.PyEcc.Tie.FqpRef (obj)
variable {p : ℕ} {mc : List ℤ}
/-- the model variant of this class -/
abbrev V : Variant := .ref

/-- `x` has the attributes of an object of the reference class whose `modulus_coeffs` class attribute is `mc` -/
structure IsObj (mc : List ℤ) (x : FQP) : Prop where
  modulus_coeffs : x.modulus_coeffs = mc
  degree : x.degree = mc.length
  length : x.coeffs.length = mc.length

/-- an object with all coefficients in `[0, p)` -/
def IsCanon (p : ℕ) (mc : List ℤ) (x : FQP) : Prop := IsObj mc x ∧ ∀ c ∈ x.coeffs, 0 ≤ c ∧ c < (p : ℤ)

theorem IsCanon.isObj {x : FQP} (h : IsCanon p mc x) : IsObj mc x := h.1

theorem IsObj.lift {x : FQP} (h : IsObj mc x) : ∃ a : Fqp .ref p mc, WF a ∧ x = obj a := by
  obtain ⟨cs, m, d⟩ := x
  obtain ⟨h1, h2, h3⟩ := h
  simp only at h1 h2 h3
  subst h1 h2
  exact ⟨⟨cs⟩, h3, rfl⟩

theorem IsCanon.lift {x : FQP} (h : IsCanon p mc x) : ∃ a : Fqp .ref p mc, Canon a ∧ x = obj a := by
  obtain ⟨a, ha, rfl⟩ := h.1.lift (p := p)
  exact ⟨a, ⟨ha, h.2⟩, rfl⟩

theorem isObj_obj {a : Fqp .ref p mc} (h : WF a) : IsObj mc (obj a) := ⟨rfl, rfl, h⟩
theorem isCanon_obj {a : Fqp .ref p mc} (h : Canon a) : IsCanon p mc (obj a) := ⟨⟨rfl, rfl, h.1⟩, h.2⟩
theorem obj_inj {a b : Fqp .ref p mc} (h : obj a = obj b) : a = b := by
  cases a; cases b; simpa [obj] using h

/-! uniform names for the tie theorems (the optimized class needs well-formedness where the reference one does not) -/
theorem t_add {a b : Fqp .ref p mc} (ha : WF a) (hb : WF b) : FQP.add p mc (obj a) (obj b) = .ok (obj (a + b)) :=
  Tie.FqpRef.add_eq a b ha hb
theorem t_sub {a b : Fqp .ref p mc} (ha : WF a) (hb : WF b) : FQP.sub p mc (obj a) (obj b) = .ok (obj (a - b)) :=
  Tie.FqpRef.sub_eq a b ha hb
theorem t_neg {a : Fqp .ref p mc} (ha : WF a) : FQP.neg p mc (obj a) = .ok (obj (-a)) := Tie.FqpRef.neg_eq a ha
theorem t_mul {a b : Fqp .ref p mc} (_ha : WF a) (_hb : WF b) : FQP.mul_fqp p mc (obj a) (obj b) = .ok (obj (a * b)) :=
  Tie.MulRef.mul_fqp_eq a b
theorem t_mulInt {a : Fqp .ref p mc} (ha : WF a) (k : ℤ) : FQP.mul_int p mc (obj a) k = .ok (obj (mulInt a k)) :=
  Tie.FqpRef.mul_int_eq a k ha
theorem t_divInt {a : Fqp .ref p mc} (ha : WF a) (k : ℤ) : FQP.div_int p mc (obj a) k = .ok (obj (divInt a k)) :=
  Tie.FqpRef.div_int_eq a k ha
theorem t_pow (hd : 1 ≤ mc.length) {a : Fqp .ref p mc} (_ha : WF a) (e : ℤ) :
    FQP.pow p mc (obj a) e = .ok (obj (a ^ e.toNat)) := Tie.MulRef.pow_eq a e hd
theorem t_init (cs : List ℤ) (h : cs.length = mc.length) :
    FQPsub.init_ints p mc cs = .ok (obj (Fqp.ofInts cs : Fqp .ref p mc)) := by
  rw [Tie.FqpRef.init_ints_eq, if_neg (by simpa using h)]
theorem t_eq (a b : Fqp .ref p mc) : FQP.eq p mc (obj a) (obj b) = Fqp.beq a b := Tie.FqpRef.eq_eq a b

/-! (the statements from here to the end of the ring laws are word for word the same for both classes) -/
/-- the call `cls([0] * degree)`, i.e. `FQP.zero()`; `FQ2.zero()` / `FQ12.zero()` are this call (`zero_one_calls`) -/
abbrev zeroCall (p : ℕ) (mc : List ℤ) : Except PyErr FQP := FQPsub.init_ints p mc (List.replicate mc.length 0)
/-- the call `cls([1] + [0] * (degree - 1))`, i.e. `FQP.one()` -/
abbrev oneCall (p : ℕ) (mc : List ℤ) : Except PyErr FQP :=
  FQPsub.init_ints p mc ([1] ++ List.replicate (mc.length - 1) 0)

/-- `FQ2.zero() / FQ2.one() / FQ12.zero() / FQ12.one()` are the generic constructor calls when the modulus has the
    degree of the class -/
theorem zero_one_calls :
    (mc.length = 2 → FQ2.zero p mc = zeroCall p mc ∧ FQ2.one p mc = oneCall p mc) ∧
    (mc.length = 12 → FQ12.zero p mc = zeroCall p mc ∧ FQ12.one p mc = oneCall p mc) := by
  constructor <;> intro h <;> simp [FQ2.zero, FQ2.one, FQ12.zero, FQ12.one, zeroCall, oneCall, h]

theorem zeroCall_eq : zeroCall p mc = .ok (obj (0 : Fqp _ p mc)) := t_init _ (by simp)
theorem oneCall_eq (hd : 1 ≤ mc.length) : oneCall p mc = .ok (obj (1 : Fqp _ p mc)) :=
  t_init _ (by simp; omega)

/-- **The constructor reduces.**  `FQ2(cs)` / `FQ12(cs)` on a sequence of Python ints raises unless `len(cs)` is the
    degree, and otherwise returns a canonical object whose coefficients are `c mod p`. -/
theorem init_ints_canon (hp : 0 < p) (cs : List ℤ) :
    (cs.length = mc.length → ∃ x, FQPsub.init_ints p mc cs = .ok x ∧ IsCanon p mc x ∧
      x.coeffs = cs.map (fun c => c % (p : ℤ))) ∧
    (cs.length ≠ mc.length → FQPsub.init_ints p mc cs = .error PyErr.other) := by
  constructor
  · intro h
    exact ⟨_, t_init cs h, isCanon_obj (canon_ofInts hp h), rfl⟩
  · intro h
    unfold FQPsub.init_ints
    simp [h]; rfl

/-- **Results are stored reduced.**  On objects of the class, `+ - neg *` (FQP and int operand), `/ int` and `**`
    (any int exponent) return — they do not raise — and the object returned is canonical: exactly `degree` coefficients,
    each in `[0, p)`. -/
theorem results_canonical (hp : 0 < p) (hd : 1 ≤ mc.length) {x y : FQP} (hx : IsObj mc x) (hy : IsObj mc y) :
    (∃ w, FQP.add p mc x y = .ok w ∧ IsCanon p mc w) ∧ (∃ w, FQP.sub p mc x y = .ok w ∧ IsCanon p mc w) ∧
    (∃ w, FQP.neg p mc x = .ok w ∧ IsCanon p mc w) ∧ (∃ w, FQP.mul_fqp p mc x y = .ok w ∧ IsCanon p mc w) ∧
    (∀ k : ℤ, ∃ w, FQP.mul_int p mc x k = .ok w ∧ IsCanon p mc w) ∧
    (∀ k : ℤ, ∃ w, FQP.div_int p mc x k = .ok w ∧ IsCanon p mc w) ∧
    (∀ e : ℤ, ∃ w, FQP.pow p mc x e = .ok w ∧ IsCanon p mc w) := by
  obtain ⟨a, ha, rfl⟩ := hx.lift (p := p); obtain ⟨b, hb, rfl⟩ := hy.lift (p := p)
  exact ⟨⟨_, t_add ha hb, isCanon_obj (canon_add hp ha hb)⟩, ⟨_, t_sub ha hb, isCanon_obj (canon_sub hp ha hb)⟩,
    ⟨_, t_neg ha, isCanon_obj (canon_neg hp ha)⟩, ⟨_, t_mul ha hb, isCanon_obj (canon_mul hp ha hb)⟩,
    fun k => ⟨_, t_mulInt ha k, isCanon_obj (canon_mulInt hp ha k)⟩,
    fun k => ⟨_, t_divInt ha k, isCanon_obj (canon_mulInt hp ha _)⟩,
    fun e => ⟨_, t_pow hd ha e, isCanon_obj (canon_pow hp hd ha _)⟩⟩

/-- **Refinement: every operation is the quotient-ring operation.**  For any `field_modulus = p`, any
    `modulus_coeffs = mc` of length `d ≥ 1` and objects of the class, the value map `x ↦ evQ p mc x.coeffs` into
    `(ZMod p)[X]/(X^d + Σ mcᵢ Xⁱ)` sends the results of the generated `+ - neg * (·*int) **` to the ring operations;
    in particular the schoolbook double loop followed by the reduction loop computes the product modulo the modulus. -/
theorem refines_quotient (hd : 1 ≤ mc.length) {x y : FQP} (hx : IsObj mc x) (hy : IsObj mc y) :
    (∀ w, FQP.add p mc x y = .ok w → evQ p mc w.coeffs = evQ p mc x.coeffs + evQ p mc y.coeffs) ∧
    (∀ w, FQP.sub p mc x y = .ok w → evQ p mc w.coeffs = evQ p mc x.coeffs - evQ p mc y.coeffs) ∧
    (∀ w, FQP.neg p mc x = .ok w → evQ p mc w.coeffs = -evQ p mc x.coeffs) ∧
    (∀ w, FQP.mul_fqp p mc x y = .ok w → evQ p mc w.coeffs = evQ p mc x.coeffs * evQ p mc y.coeffs) ∧
    (∀ (k : ℤ) w, FQP.mul_int p mc x k = .ok w →
      evQ p mc w.coeffs = evQ p mc x.coeffs * (k : AdjoinRoot (modulus p mc))) ∧
    (∀ (n : ℕ) w, FQP.pow p mc x n = .ok w → evQ p mc w.coeffs = evQ p mc x.coeffs ^ n) ∧
    (∀ z o, zeroCall p mc = .ok z → oneCall p mc = .ok o → evQ p mc z.coeffs = 0 ∧ evQ p mc o.coeffs = 1) := by
  obtain ⟨a, ha, rfl⟩ := hx.lift (p := p); obtain ⟨b, hb, rfl⟩ := hy.lift (p := p)
  refine ⟨fun w h => ?_, fun w h => ?_, fun w h => ?_, fun w h => ?_, fun k w h => ?_, fun n w h => ?_,
    fun z o hz ho => ?_⟩
  · rw [t_add ha hb] at h; cases h; exact toQ_add ha hb
  · rw [t_sub ha hb] at h; cases h; exact toQ_sub ha hb
  · rw [t_neg ha] at h; cases h; exact toQ_neg a
  · rw [t_mul ha hb] at h; cases h; exact toQ_mul ha hb
  · rw [t_mulInt ha] at h; cases h; exact toQ_mulInt a k
  · rw [t_pow hd ha] at h; cases h; exact toQ_pow hd ha n
  · rw [zeroCall_eq] at hz; rw [oneCall_eq hd] at ho; cases hz; cases ho; exact ⟨toQ_zero (v := V), toQ_one (v := V)⟩

/-- **Equality is value equality.**  `FQP.__eq__` on two objects of the class is `True` iff the objects are equal, and
    for canonical objects iff they denote the same element of the quotient ring; `__ne__` is the negation. -/
theorem eq_iff {x y : FQP} (hx : IsObj mc x) (hy : IsObj mc y) :
    (FQP.eq p mc x y = true ↔ x = y) ∧ (FQP.ne p mc x y = !FQP.eq p mc x y) ∧
    (IsCanon p mc x → IsCanon p mc y → (FQP.eq p mc x y = true ↔ evQ p mc x.coeffs = evQ p mc y.coeffs)) := by
  have h1 : ∀ {x y : FQP}, IsObj mc x → IsObj mc y → (FQP.eq p mc x y = true ↔ x = y) := by
    intro x y hx hy
    obtain ⟨a, ha, rfl⟩ := hx.lift (p := p); obtain ⟨b, hb, rfl⟩ := hy.lift (p := p)
    rw [t_eq, C08P.beq_iff ha hb]
    exact ⟨fun h => h ▸ rfl, obj_inj⟩
  refine ⟨h1 hx hy, ?_, fun cx cy => ?_⟩
  · unfold FQP.ne; cases FQP.eq p mc x y <;> rfl
  · rw [h1 hx hy]
    obtain ⟨a, ha, rfl⟩ := cx.lift; obtain ⟨b, hb, rfl⟩ := cy.lift
    exact ⟨fun h => h ▸ rfl, fun h => congrArg obj (toQ_inj ha hb h)⟩

/-- `(x + y) + z == x + (y + z)` and `x + y == y + x` for the generated `FQP.__add__`: all calls return and the two
    sides are the same canonical object -/
theorem add_assoc_comm (hp : 0 < p) {x y z : FQP} (hx : IsObj mc x) (hy : IsObj mc y) (hz : IsObj mc z) :
    (∃ w, IsCanon p mc w ∧ (FQP.add p mc x y >>= fun xy => FQP.add p mc xy z) = .ok w ∧
      (FQP.add p mc y z >>= fun yz => FQP.add p mc x yz) = .ok w) ∧
    (∃ w, IsCanon p mc w ∧ FQP.add p mc x y = .ok w ∧ FQP.add p mc y x = .ok w) := by
  obtain ⟨a, ha, rfl⟩ := hx.lift (p := p); obtain ⟨b, hb, rfl⟩ := hy.lift (p := p)
  obtain ⟨c, hc, rfl⟩ := hz.lift (p := p)
  refine ⟨⟨obj (a + b + c), isCanon_obj (canon_add hp (wfa ha hb) hc), ?_, ?_⟩,
    ⟨obj (a + b), isCanon_obj (canon_add hp ha hb), t_add ha hb, ?_⟩⟩
  · rw [t_add ha hb, ok_bind, t_add (wfa ha hb) hc]
  · rw [t_add hb hc, ok_bind, t_add ha (wfa hb hc), C08P.add_assoc hp ha hb hc]
  · rw [t_add hb ha, C08P.add_comm hp ha hb]

/-- `(x * y) * z == x * (y * z)` and `x * y == y * x` for the generated `FQP.__mul__` (FQP operand): all calls return and
    the two sides are the same canonical object -/
theorem mul_assoc_comm (hp : 0 < p) {x y z : FQP} (hx : IsObj mc x) (hy : IsObj mc y) (hz : IsObj mc z) :
    (∃ w, IsCanon p mc w ∧ (FQP.mul_fqp p mc x y >>= fun xy => FQP.mul_fqp p mc xy z) = .ok w ∧
      (FQP.mul_fqp p mc y z >>= fun yz => FQP.mul_fqp p mc x yz) = .ok w) ∧
    (∃ w, IsCanon p mc w ∧ FQP.mul_fqp p mc x y = .ok w ∧ FQP.mul_fqp p mc y x = .ok w) := by
  obtain ⟨a, ha, rfl⟩ := hx.lift (p := p); obtain ⟨b, hb, rfl⟩ := hy.lift (p := p)
  obtain ⟨c, hc, rfl⟩ := hz.lift (p := p)
  refine ⟨⟨obj (a * b * c), isCanon_obj (canon_mul hp (wfm ha hb) hc), ?_, ?_⟩,
    ⟨obj (a * b), isCanon_obj (canon_mul hp ha hb), t_mul ha hb, ?_⟩⟩
  · rw [t_mul ha hb, ok_bind, t_mul (wfm ha hb) hc]
  · rw [t_mul hb hc, ok_bind, t_mul ha (wfm hb hc), C08P.mul_assoc hp ha hb hc]
  · rw [t_mul hb ha, C08P.mul_comm hp ha hb]

/-- distributivity: `x * (y + z) == x * y + x * z` and `(x + y) * z == x * z + y * z` -/
theorem distrib (hp : 0 < p) {x y z : FQP} (hx : IsObj mc x) (hy : IsObj mc y) (hz : IsObj mc z) :
    (∃ w, IsCanon p mc w ∧ (FQP.add p mc y z >>= fun yz => FQP.mul_fqp p mc x yz) = .ok w ∧
      (FQP.mul_fqp p mc x y >>= fun xy => FQP.mul_fqp p mc x z >>= fun xz => FQP.add p mc xy xz) = .ok w) ∧
    (∃ w, IsCanon p mc w ∧ (FQP.add p mc x y >>= fun xy => FQP.mul_fqp p mc xy z) = .ok w ∧
      (FQP.mul_fqp p mc x z >>= fun xz => FQP.mul_fqp p mc y z >>= fun yz => FQP.add p mc xz yz) = .ok w) := by
  obtain ⟨a, ha, rfl⟩ := hx.lift (p := p); obtain ⟨b, hb, rfl⟩ := hy.lift (p := p)
  obtain ⟨c, hc, rfl⟩ := hz.lift (p := p)
  refine ⟨⟨obj (a * (b + c)), isCanon_obj (canon_mul hp ha (wfa hb hc)), ?_, ?_⟩,
    ⟨obj ((a + b) * c), isCanon_obj (canon_mul hp (wfa ha hb) hc), ?_, ?_⟩⟩
  · rw [t_add hb hc, ok_bind, t_mul ha (wfa hb hc)]
  · rw [t_mul ha hb, ok_bind, t_mul ha hc, ok_bind, t_add (wfm ha hb) (wfm ha hc), C08P.left_distrib hp ha hb hc]
  · rw [t_add ha hb, ok_bind, t_mul (wfa ha hb) hc]
  · rw [t_mul ha hc, ok_bind, t_mul hb hc, ok_bind, t_add (wfm ha hc) (wfm hb hc), C08P.right_distrib hp ha hb hc]

/-- neutral elements and negation: `FQP.zero()` and `FQP.one()` return canonical objects `z`, `o` with
    `x + z == x == z + x`, `x * o == x == o * x` for canonical `x`, and `x * z == z`, `x + (-x) == z`,
    `x - y == x + (-y)` for all objects of the class -/
theorem neutral_neg (hp : 0 < p) (hd : 1 ≤ mc.length) :
    ∃ z o, zeroCall p mc = .ok z ∧ oneCall p mc = .ok o ∧ IsCanon p mc z ∧ IsCanon p mc o ∧
      (∀ x, IsCanon p mc x → FQP.add p mc x z = .ok x ∧ FQP.add p mc z x = .ok x ∧
        FQP.mul_fqp p mc x o = .ok x ∧ FQP.mul_fqp p mc o x = .ok x) ∧
      (∀ x, IsObj mc x → FQP.mul_fqp p mc x z = .ok z ∧ (FQP.neg p mc x >>= fun nx => FQP.add p mc x nx) = .ok z) ∧
      (∀ x y, IsObj mc x → IsObj mc y →
        FQP.sub p mc x y = (FQP.neg p mc y >>= fun ny => FQP.add p mc x ny)) := by
  refine ⟨_, _, zeroCall_eq, oneCall_eq hd, isCanon_obj (canon_zero hp), isCanon_obj (canon_one hp hd),
    fun x hx => ?_, fun x hx => ?_, fun x y hx hy => ?_⟩
  · obtain ⟨a, ha, rfl⟩ := hx.lift
    refine ⟨?_, ?_, ?_, ?_⟩
    · rw [t_add ha.wf wf0, C08P.add_zero hp ha]
    · rw [t_add wf0 ha.wf, C08P.zero_add hp ha]
    · rw [t_mul ha.wf (wf1 hd), C08P.mul_one hp hd ha]
    · rw [t_mul (wf1 hd) ha.wf, C08P.one_mul hp hd ha]
  · obtain ⟨a, ha, rfl⟩ := hx.lift (p := p)
    refine ⟨?_, ?_⟩
    · rw [t_mul ha wf0, C08P.mul_zero hp ha]
    · rw [t_neg ha, ok_bind, t_add ha (wfn ha), C08P.add_neg_cancel hp ha]
  · obtain ⟨a, ha, rfl⟩ := hx.lift (p := p); obtain ⟨b, hb, rfl⟩ := hy.lift (p := p)
    rw [t_sub ha hb, t_neg hb, ok_bind, t_add ha (wfn hb), C08P.sub_eq_add_neg hp ha hb]

/-- **`x ** n` is the n-fold product, for every `n ≥ 0` however large** (the iterative square-and-multiply loop):
    `x ** 0 == one()`, `x ** (n+1) == (x ** n) * x`, `x ** (m+n) == (x ** m) * (x ** n)`; a negative exponent gives
    `one()`. -/
theorem pow_laws (hp : 0 < p) (hd : 1 ≤ mc.length) {x : FQP} (hx : IsObj mc x) (m n : ℕ) :
    FQP.pow p mc x 0 = oneCall p mc ∧
    FQP.pow p mc x ((n : ℤ) + 1) = (FQP.pow p mc x n >>= fun y => FQP.mul_fqp p mc y x) ∧
    FQP.pow p mc x ((m : ℤ) + n) =
      (FQP.pow p mc x m >>= fun y => FQP.pow p mc x n >>= fun y' => FQP.mul_fqp p mc y y') ∧
    (∀ e : ℤ, e < 0 → FQP.pow p mc x e = oneCall p mc) := by
  obtain ⟨a, ha, rfl⟩ := hx.lift (p := p)
  have e1 : ((n : ℤ) + 1).toNat = n + 1 := by omega
  have e2 : ((m : ℤ) + n).toNat = m + n := by omega
  refine ⟨?_, ?_, ?_, fun e he => ?_⟩
  · rw [t_pow hd ha, oneCall_eq hd]; rfl
  · rw [t_pow hd ha, t_pow hd ha, ok_bind, t_mul (wfp hd ha _) ha, e1, Int.toNat_natCast,
      C08P.pow_succ hp hd ha]
  · rw [t_pow hd ha, t_pow hd ha, t_pow hd ha, ok_bind, ok_bind, t_mul (wfp hd ha _) (wfp hd ha _), e2,
      Int.toNat_natCast, Int.toNat_natCast, C08P.pow_add hp hd ha]
  · have : e.toNat = 0 := by omega
    rw [t_pow hd ha, oneCall_eq hd, this]; rfl

/-- **int operands act as their residues**: `x * k` for a Python int `k` (also the reflected `k * x`) equals
    `x * cls([k, 0, …, 0])`, only depends on `k mod p` (negative and `> p` ints included), and `x / k` is
    `x * prime_field_inv(k, p)` with the generated `prime_field_inv`. -/
theorem int_operands (hp : 0 < p) (hd : 1 ≤ mc.length) {x : FQP} (hx : IsObj mc x) (k : ℤ) :
    FQP.mul_int p mc x k =
      (FQPsub.init_ints p mc ([k] ++ List.replicate (mc.length - 1) 0) >>= fun s => FQP.mul_fqp p mc x s) ∧
    FQP.mul_int p mc x (k % (p : ℤ)) = FQP.mul_int p mc x k ∧
    FQP.rmul_int p mc x k = FQP.mul_int p mc x k ∧
    FQP.div_int p mc x k = FQP.mul_int p mc x (Gen.ExtraFieldsFq.Utils.prime_field_inv k p) ∧
    FQP.truediv_int p mc x k = FQP.div_int p mc x k := by
  obtain ⟨a, ha, rfl⟩ := hx.lift (p := p)
  refine ⟨?_, ?_, rfl, ?_, rfl⟩
  · rw [t_mulInt ha, t_init _ (by simp; omega), ok_bind, C08P.mulInt_eq_mul_ofIntScalar hp hd ha k]
    exact (t_mul ha (wf_ofIntScalar hd k)).symm
  · rw [t_mulInt ha, t_mulInt ha, C08P.mulInt_mod hp ha]
  · rw [t_divInt ha, t_mulInt ha, Tie.prime_field_inv_eq]; rfl


/-! ### non-vacuity -/
example : IsCanon 7 [1, 0] ⟨[3, 5], [1, 0], 2⟩ ∧ IsObj [1, 0] ⟨[-3, 12], [1, 0], 2⟩ :=
  ⟨⟨⟨rfl, rfl, rfl⟩, by decide⟩, ⟨rfl, rfl, rfl⟩⟩
/-- (3 + 5i)(2 + 6i) = 4 + 0i (mod 7), evaluated with the generated code -/
example : FQP.mul_fqp 7 [1, 0] ⟨[3, 5], [1, 0], 2⟩ ⟨[2, 6], [1, 0], 2⟩ = .ok ⟨[4, 0], [1, 0], 2⟩ := by decide
example : (0 : ℕ) < blsP ∧ 1 ≤ blsMc12.length ∧ blsMc12.length = 12 := by decide
example : ∃ o, FQ12.one blsP blsMc12 = .ok o ∧ IsCanon blsP blsMc12 o := by
  rw [(zero_one_calls.2 rfl).2]
  exact ⟨_, oneCall_eq (by decide), isCanon_obj (canon_one (by decide) (by decide))⟩

end FqpRef

/-! ## optimized classes (`py_ecc/fields/optimized_field_elements.py`) -/
namespace FqpOpt
open Gen.ExtraFieldsFq.Opt Gen.ExtraFieldsFqp.Opt Gen.ExtraFieldsMul.Opt Gen.ExtraFieldsPoly.Opt
open _root_.PyEcc.Tie.FqpOpt (obj)
variable {p : ℕ} {mc : List ℤ}
/-- the model variant of this class -/
abbrev V : Variant := .opt

/-- `x` has the attributes of an object of the optimized class whose `modulus_coeffs` class attribute is `mc`
    (`mc_tuples` is the list of the non-zero modulus coefficients with their positions, as `__init__` computes it) -/
structure IsObj (mc : List ℤ) (x : FQP) : Prop where
  mc_tuples : x.mc_tuples = (List.zip (List.range mc.length) mc).filter (fun ic => ic.2 ≠ 0)
  modulus_coeffs : x.modulus_coeffs = mc
  degree : x.degree = mc.length
  length : x.coeffs.length = mc.length

/-- an object with all coefficients in `[0, p)` -/
def IsCanon (p : ℕ) (mc : List ℤ) (x : FQP) : Prop := IsObj mc x ∧ ∀ c ∈ x.coeffs, 0 ≤ c ∧ c < (p : ℤ)

theorem IsCanon.isObj {x : FQP} (h : IsCanon p mc x) : IsObj mc x := h.1

theorem IsObj.lift {x : FQP} (h : IsObj mc x) : ∃ a : Fqp .opt p mc, WF a ∧ x = obj a := by
  obtain ⟨t, cs, m, d⟩ := x
  obtain ⟨h0, h1, h2, h3⟩ := h
  simp only at h0 h1 h2 h3
  subst h0 h1 h2
  exact ⟨⟨cs⟩, h3, rfl⟩

theorem IsCanon.lift {x : FQP} (h : IsCanon p mc x) : ∃ a : Fqp .opt p mc, Canon a ∧ x = obj a := by
  obtain ⟨a, ha, rfl⟩ := h.1.lift (p := p)
  exact ⟨a, ⟨ha, h.2⟩, rfl⟩

theorem isObj_obj {a : Fqp .opt p mc} (h : WF a) : IsObj mc (obj a) := ⟨rfl, rfl, rfl, h⟩
theorem isCanon_obj {a : Fqp .opt p mc} (h : Canon a) : IsCanon p mc (obj a) := ⟨⟨rfl, rfl, rfl, h.1⟩, h.2⟩
theorem obj_inj {a b : Fqp .opt p mc} (h : obj a = obj b) : a = b := by
  cases a; cases b; simpa [obj] using h

/-! uniform names for the tie theorems -/
theorem t_add {a b : Fqp .opt p mc} (ha : WF a) (hb : WF b) : FQP.add p mc (obj a) (obj b) = .ok (obj (a + b)) :=
  Tie.FqpOpt.add_eq a b ha hb
theorem t_sub {a b : Fqp .opt p mc} (ha : WF a) (hb : WF b) : FQP.sub p mc (obj a) (obj b) = .ok (obj (a - b)) :=
  Tie.FqpOpt.sub_eq a b ha hb
theorem t_neg {a : Fqp .opt p mc} (ha : WF a) : FQP.neg p mc (obj a) = .ok (obj (-a)) := Tie.FqpOpt.neg_eq a ha
theorem t_mul {a b : Fqp .opt p mc} (ha : WF a) (hb : WF b) : FQP.mul_fqp p mc (obj a) (obj b) = .ok (obj (a * b)) :=
  Tie.MulOpt.mul_fqp_eq a b ha hb
theorem t_mulInt {a : Fqp .opt p mc} (ha : WF a) (k : ℤ) : FQP.mul_int p mc (obj a) k = .ok (obj (mulInt a k)) :=
  Tie.FqpOpt.mul_int_eq a k ha
theorem t_divInt {a : Fqp .opt p mc} (ha : WF a) (k : ℤ) : FQP.div_int p mc (obj a) k = .ok (obj (divInt a k)) :=
  Tie.FqpOpt.div_int_eq a k ha
theorem t_pow (hd : 1 ≤ mc.length) {a : Fqp .opt p mc} (ha : WF a) (e : ℤ) :
    FQP.pow p mc (obj a) e = .ok (obj (a ^ e.toNat)) := Tie.MulOpt.pow_eq a e hd ha
theorem t_init (cs : List ℤ) (h : cs.length = mc.length) :
    FQPsub.init_ints p mc cs = .ok (obj (Fqp.ofInts cs : Fqp .opt p mc)) := by
  rw [Tie.FqpOpt.init_ints_eq, if_neg (by simpa using h)]
theorem t_eq (a b : Fqp .opt p mc) : FQP.eq p mc (obj a) (obj b) = Fqp.beq a b := Tie.FqpOpt.eq_eq a b
theorem t_inv (a : Fqp .opt p mc) : FQP.inv p mc (obj a) = .ok (obj (Fqp.inv a)) := Tie.PolyOpt.inv_eq a
theorem t_div {a b : Fqp .opt p mc} (ha : WF a) : FQP.div_fqp p mc (obj a) (obj b) = .ok (obj (a / b)) :=
  Tie.PolyOpt.div_fqp_eq a b ha

/-! (the statements from here to the end of the ring laws are word for word the same for both classes) -/
/-- the call `cls([0] * degree)`, i.e. `FQP.zero()`; `FQ2.zero()` / `FQ12.zero()` are this call (`zero_one_calls`) -/
abbrev zeroCall (p : ℕ) (mc : List ℤ) : Except PyErr FQP := FQPsub.init_ints p mc (List.replicate mc.length 0)
/-- the call `cls([1] + [0] * (degree - 1))`, i.e. `FQP.one()` -/
abbrev oneCall (p : ℕ) (mc : List ℤ) : Except PyErr FQP :=
  FQPsub.init_ints p mc ([1] ++ List.replicate (mc.length - 1) 0)

/-- `FQ2.zero() / FQ2.one() / FQ12.zero() / FQ12.one()` are the generic constructor calls when the modulus has the
    degree of the class -/
theorem zero_one_calls :
    (mc.length = 2 → FQ2.zero p mc = zeroCall p mc ∧ FQ2.one p mc = oneCall p mc) ∧
    (mc.length = 12 → FQ12.zero p mc = zeroCall p mc ∧ FQ12.one p mc = oneCall p mc) := by
  constructor <;> intro h <;> simp [FQ2.zero, FQ2.one, FQ12.zero, FQ12.one, zeroCall, oneCall, h]

theorem zeroCall_eq : zeroCall p mc = .ok (obj (0 : Fqp _ p mc)) := t_init _ (by simp)
theorem oneCall_eq (hd : 1 ≤ mc.length) : oneCall p mc = .ok (obj (1 : Fqp _ p mc)) :=
  t_init _ (by simp; omega)

/-- **The constructor reduces.**  `FQ2(cs)` / `FQ12(cs)` on a sequence of Python ints raises unless `len(cs)` is the
    degree, and otherwise returns a canonical object whose coefficients are `c mod p`. -/
theorem init_ints_canon (hp : 0 < p) (cs : List ℤ) :
    (cs.length = mc.length → ∃ x, FQPsub.init_ints p mc cs = .ok x ∧ IsCanon p mc x ∧
      x.coeffs = cs.map (fun c => c % (p : ℤ))) ∧
    (cs.length ≠ mc.length → FQPsub.init_ints p mc cs = .error PyErr.other) := by
  constructor
  · intro h
    exact ⟨_, t_init cs h, isCanon_obj (canon_ofInts hp h), rfl⟩
  · intro h
    unfold FQPsub.init_ints
    simp [h]; rfl

/-- **Results are stored reduced.**  On objects of the class, `+ - neg *` (FQP and int operand), `/ int` and `**`
    (any int exponent) return — they do not raise — and the object returned is canonical: exactly `degree` coefficients,
    each in `[0, p)`. -/
theorem results_canonical (hp : 0 < p) (hd : 1 ≤ mc.length) {x y : FQP} (hx : IsObj mc x) (hy : IsObj mc y) :
    (∃ w, FQP.add p mc x y = .ok w ∧ IsCanon p mc w) ∧ (∃ w, FQP.sub p mc x y = .ok w ∧ IsCanon p mc w) ∧
    (∃ w, FQP.neg p mc x = .ok w ∧ IsCanon p mc w) ∧ (∃ w, FQP.mul_fqp p mc x y = .ok w ∧ IsCanon p mc w) ∧
    (∀ k : ℤ, ∃ w, FQP.mul_int p mc x k = .ok w ∧ IsCanon p mc w) ∧
    (∀ k : ℤ, ∃ w, FQP.div_int p mc x k = .ok w ∧ IsCanon p mc w) ∧
    (∀ e : ℤ, ∃ w, FQP.pow p mc x e = .ok w ∧ IsCanon p mc w) := by
  obtain ⟨a, ha, rfl⟩ := hx.lift (p := p); obtain ⟨b, hb, rfl⟩ := hy.lift (p := p)
  exact ⟨⟨_, t_add ha hb, isCanon_obj (canon_add hp ha hb)⟩, ⟨_, t_sub ha hb, isCanon_obj (canon_sub hp ha hb)⟩,
    ⟨_, t_neg ha, isCanon_obj (canon_neg hp ha)⟩, ⟨_, t_mul ha hb, isCanon_obj (canon_mul hp ha hb)⟩,
    fun k => ⟨_, t_mulInt ha k, isCanon_obj (canon_mulInt hp ha k)⟩,
    fun k => ⟨_, t_divInt ha k, isCanon_obj (canon_mulInt hp ha _)⟩,
    fun e => ⟨_, t_pow hd ha e, isCanon_obj (canon_pow hp hd ha _)⟩⟩

/-- **Refinement: every operation is the quotient-ring operation.**  For any `field_modulus = p`, any
    `modulus_coeffs = mc` of length `d ≥ 1` and objects of the class, the value map `x ↦ evQ p mc x.coeffs` into
    `(ZMod p)[X]/(X^d + Σ mcᵢ Xⁱ)` sends the results of the generated `+ - neg * (·*int) **` to the ring operations;
    in particular the schoolbook double loop followed by the reduction loop computes the product modulo the modulus. -/
theorem refines_quotient (hd : 1 ≤ mc.length) {x y : FQP} (hx : IsObj mc x) (hy : IsObj mc y) :
    (∀ w, FQP.add p mc x y = .ok w → evQ p mc w.coeffs = evQ p mc x.coeffs + evQ p mc y.coeffs) ∧
    (∀ w, FQP.sub p mc x y = .ok w → evQ p mc w.coeffs = evQ p mc x.coeffs - evQ p mc y.coeffs) ∧
    (∀ w, FQP.neg p mc x = .ok w → evQ p mc w.coeffs = -evQ p mc x.coeffs) ∧
    (∀ w, FQP.mul_fqp p mc x y = .ok w → evQ p mc w.coeffs = evQ p mc x.coeffs * evQ p mc y.coeffs) ∧
    (∀ (k : ℤ) w, FQP.mul_int p mc x k = .ok w →
      evQ p mc w.coeffs = evQ p mc x.coeffs * (k : AdjoinRoot (modulus p mc))) ∧
    (∀ (n : ℕ) w, FQP.pow p mc x n = .ok w → evQ p mc w.coeffs = evQ p mc x.coeffs ^ n) ∧
    (∀ z o, zeroCall p mc = .ok z → oneCall p mc = .ok o → evQ p mc z.coeffs = 0 ∧ evQ p mc o.coeffs = 1) := by
  obtain ⟨a, ha, rfl⟩ := hx.lift (p := p); obtain ⟨b, hb, rfl⟩ := hy.lift (p := p)
  refine ⟨fun w h => ?_, fun w h => ?_, fun w h => ?_, fun w h => ?_, fun k w h => ?_, fun n w h => ?_,
    fun z o hz ho => ?_⟩
  · rw [t_add ha hb] at h; cases h; exact toQ_add ha hb
  · rw [t_sub ha hb] at h; cases h; exact toQ_sub ha hb
  · rw [t_neg ha] at h; cases h; exact toQ_neg a
  · rw [t_mul ha hb] at h; cases h; exact toQ_mul ha hb
  · rw [t_mulInt ha] at h; cases h; exact toQ_mulInt a k
  · rw [t_pow hd ha] at h; cases h; exact toQ_pow hd ha n
  · rw [zeroCall_eq] at hz; rw [oneCall_eq hd] at ho; cases hz; cases ho; exact ⟨toQ_zero (v := V), toQ_one (v := V)⟩

/-- **Equality is value equality.**  `FQP.__eq__` on two objects of the class is `True` iff the objects are equal, and
    for canonical objects iff they denote the same element of the quotient ring; `__ne__` is the negation. -/
theorem eq_iff {x y : FQP} (hx : IsObj mc x) (hy : IsObj mc y) :
    (FQP.eq p mc x y = true ↔ x = y) ∧ (FQP.ne p mc x y = !FQP.eq p mc x y) ∧
    (IsCanon p mc x → IsCanon p mc y → (FQP.eq p mc x y = true ↔ evQ p mc x.coeffs = evQ p mc y.coeffs)) := by
  have h1 : ∀ {x y : FQP}, IsObj mc x → IsObj mc y → (FQP.eq p mc x y = true ↔ x = y) := by
    intro x y hx hy
    obtain ⟨a, ha, rfl⟩ := hx.lift (p := p); obtain ⟨b, hb, rfl⟩ := hy.lift (p := p)
    rw [t_eq, C08P.beq_iff ha hb]
    exact ⟨fun h => h ▸ rfl, obj_inj⟩
  refine ⟨h1 hx hy, ?_, fun cx cy => ?_⟩
  · unfold FQP.ne; cases FQP.eq p mc x y <;> rfl
  · rw [h1 hx hy]
    obtain ⟨a, ha, rfl⟩ := cx.lift; obtain ⟨b, hb, rfl⟩ := cy.lift
    exact ⟨fun h => h ▸ rfl, fun h => congrArg obj (toQ_inj ha hb h)⟩

/-- `(x + y) + z == x + (y + z)` and `x + y == y + x` for the generated `FQP.__add__`: all calls return and the two
    sides are the same canonical object -/
theorem add_assoc_comm (hp : 0 < p) {x y z : FQP} (hx : IsObj mc x) (hy : IsObj mc y) (hz : IsObj mc z) :
    (∃ w, IsCanon p mc w ∧ (FQP.add p mc x y >>= fun xy => FQP.add p mc xy z) = .ok w ∧
      (FQP.add p mc y z >>= fun yz => FQP.add p mc x yz) = .ok w) ∧
    (∃ w, IsCanon p mc w ∧ FQP.add p mc x y = .ok w ∧ FQP.add p mc y x = .ok w) := by
  obtain ⟨a, ha, rfl⟩ := hx.lift (p := p); obtain ⟨b, hb, rfl⟩ := hy.lift (p := p)
  obtain ⟨c, hc, rfl⟩ := hz.lift (p := p)
  refine ⟨⟨obj (a + b + c), isCanon_obj (canon_add hp (wfa ha hb) hc), ?_, ?_⟩,
    ⟨obj (a + b), isCanon_obj (canon_add hp ha hb), t_add ha hb, ?_⟩⟩
  · rw [t_add ha hb, ok_bind, t_add (wfa ha hb) hc]
  · rw [t_add hb hc, ok_bind, t_add ha (wfa hb hc), C08P.add_assoc hp ha hb hc]
  · rw [t_add hb ha, C08P.add_comm hp ha hb]

/-- `(x * y) * z == x * (y * z)` and `x * y == y * x` for the generated `FQP.__mul__` (FQP operand): all calls return and
    the two sides are the same canonical object -/
theorem mul_assoc_comm (hp : 0 < p) {x y z : FQP} (hx : IsObj mc x) (hy : IsObj mc y) (hz : IsObj mc z) :
    (∃ w, IsCanon p mc w ∧ (FQP.mul_fqp p mc x y >>= fun xy => FQP.mul_fqp p mc xy z) = .ok w ∧
      (FQP.mul_fqp p mc y z >>= fun yz => FQP.mul_fqp p mc x yz) = .ok w) ∧
    (∃ w, IsCanon p mc w ∧ FQP.mul_fqp p mc x y = .ok w ∧ FQP.mul_fqp p mc y x = .ok w) := by
  obtain ⟨a, ha, rfl⟩ := hx.lift (p := p); obtain ⟨b, hb, rfl⟩ := hy.lift (p := p)
  obtain ⟨c, hc, rfl⟩ := hz.lift (p := p)
  refine ⟨⟨obj (a * b * c), isCanon_obj (canon_mul hp (wfm ha hb) hc), ?_, ?_⟩,
    ⟨obj (a * b), isCanon_obj (canon_mul hp ha hb), t_mul ha hb, ?_⟩⟩
  · rw [t_mul ha hb, ok_bind, t_mul (wfm ha hb) hc]
  · rw [t_mul hb hc, ok_bind, t_mul ha (wfm hb hc), C08P.mul_assoc hp ha hb hc]
  · rw [t_mul hb ha, C08P.mul_comm hp ha hb]

/-- distributivity: `x * (y + z) == x * y + x * z` and `(x + y) * z == x * z + y * z` -/
theorem distrib (hp : 0 < p) {x y z : FQP} (hx : IsObj mc x) (hy : IsObj mc y) (hz : IsObj mc z) :
    (∃ w, IsCanon p mc w ∧ (FQP.add p mc y z >>= fun yz => FQP.mul_fqp p mc x yz) = .ok w ∧
      (FQP.mul_fqp p mc x y >>= fun xy => FQP.mul_fqp p mc x z >>= fun xz => FQP.add p mc xy xz) = .ok w) ∧
    (∃ w, IsCanon p mc w ∧ (FQP.add p mc x y >>= fun xy => FQP.mul_fqp p mc xy z) = .ok w ∧
      (FQP.mul_fqp p mc x z >>= fun xz => FQP.mul_fqp p mc y z >>= fun yz => FQP.add p mc xz yz) = .ok w) := by
  obtain ⟨a, ha, rfl⟩ := hx.lift (p := p); obtain ⟨b, hb, rfl⟩ := hy.lift (p := p)
  obtain ⟨c, hc, rfl⟩ := hz.lift (p := p)
  refine ⟨⟨obj (a * (b + c)), isCanon_obj (canon_mul hp ha (wfa hb hc)), ?_, ?_⟩,
    ⟨obj ((a + b) * c), isCanon_obj (canon_mul hp (wfa ha hb) hc), ?_, ?_⟩⟩
  · rw [t_add hb hc, ok_bind, t_mul ha (wfa hb hc)]
  · rw [t_mul ha hb, ok_bind, t_mul ha hc, ok_bind, t_add (wfm ha hb) (wfm ha hc), C08P.left_distrib hp ha hb hc]
  · rw [t_add ha hb, ok_bind, t_mul (wfa ha hb) hc]
  · rw [t_mul ha hc, ok_bind, t_mul hb hc, ok_bind, t_add (wfm ha hc) (wfm hb hc), C08P.right_distrib hp ha hb hc]

/-- neutral elements and negation: `FQP.zero()` and `FQP.one()` return canonical objects `z`, `o` with
    `x + z == x == z + x`, `x * o == x == o * x` for canonical `x`, and `x * z == z`, `x + (-x) == z`,
    `x - y == x + (-y)` for all objects of the class -/
theorem neutral_neg (hp : 0 < p) (hd : 1 ≤ mc.length) :
    ∃ z o, zeroCall p mc = .ok z ∧ oneCall p mc = .ok o ∧ IsCanon p mc z ∧ IsCanon p mc o ∧
      (∀ x, IsCanon p mc x → FQP.add p mc x z = .ok x ∧ FQP.add p mc z x = .ok x ∧
        FQP.mul_fqp p mc x o = .ok x ∧ FQP.mul_fqp p mc o x = .ok x) ∧
      (∀ x, IsObj mc x → FQP.mul_fqp p mc x z = .ok z ∧ (FQP.neg p mc x >>= fun nx => FQP.add p mc x nx) = .ok z) ∧
      (∀ x y, IsObj mc x → IsObj mc y →
        FQP.sub p mc x y = (FQP.neg p mc y >>= fun ny => FQP.add p mc x ny)) := by
  refine ⟨_, _, zeroCall_eq, oneCall_eq hd, isCanon_obj (canon_zero hp), isCanon_obj (canon_one hp hd),
    fun x hx => ?_, fun x hx => ?_, fun x y hx hy => ?_⟩
  · obtain ⟨a, ha, rfl⟩ := hx.lift
    refine ⟨?_, ?_, ?_, ?_⟩
    · rw [t_add ha.wf wf0, C08P.add_zero hp ha]
    · rw [t_add wf0 ha.wf, C08P.zero_add hp ha]
    · rw [t_mul ha.wf (wf1 hd), C08P.mul_one hp hd ha]
    · rw [t_mul (wf1 hd) ha.wf, C08P.one_mul hp hd ha]
  · obtain ⟨a, ha, rfl⟩ := hx.lift (p := p)
    refine ⟨?_, ?_⟩
    · rw [t_mul ha wf0, C08P.mul_zero hp ha]
    · rw [t_neg ha, ok_bind, t_add ha (wfn ha), C08P.add_neg_cancel hp ha]
  · obtain ⟨a, ha, rfl⟩ := hx.lift (p := p); obtain ⟨b, hb, rfl⟩ := hy.lift (p := p)
    rw [t_sub ha hb, t_neg hb, ok_bind, t_add ha (wfn hb), C08P.sub_eq_add_neg hp ha hb]

/-- **`x ** n` is the n-fold product, for every `n ≥ 0` however large** (the iterative square-and-multiply loop):
    `x ** 0 == one()`, `x ** (n+1) == (x ** n) * x`, `x ** (m+n) == (x ** m) * (x ** n)`; a negative exponent gives
    `one()`. -/
theorem pow_laws (hp : 0 < p) (hd : 1 ≤ mc.length) {x : FQP} (hx : IsObj mc x) (m n : ℕ) :
    FQP.pow p mc x 0 = oneCall p mc ∧
    FQP.pow p mc x ((n : ℤ) + 1) = (FQP.pow p mc x n >>= fun y => FQP.mul_fqp p mc y x) ∧
    FQP.pow p mc x ((m : ℤ) + n) =
      (FQP.pow p mc x m >>= fun y => FQP.pow p mc x n >>= fun y' => FQP.mul_fqp p mc y y') ∧
    (∀ e : ℤ, e < 0 → FQP.pow p mc x e = oneCall p mc) := by
  obtain ⟨a, ha, rfl⟩ := hx.lift (p := p)
  have e1 : ((n : ℤ) + 1).toNat = n + 1 := by omega
  have e2 : ((m : ℤ) + n).toNat = m + n := by omega
  refine ⟨?_, ?_, ?_, fun e he => ?_⟩
  · rw [t_pow hd ha, oneCall_eq hd]; rfl
  · rw [t_pow hd ha, t_pow hd ha, ok_bind, t_mul (wfp hd ha _) ha, e1, Int.toNat_natCast,
      C08P.pow_succ hp hd ha]
  · rw [t_pow hd ha, t_pow hd ha, t_pow hd ha, ok_bind, ok_bind, t_mul (wfp hd ha _) (wfp hd ha _), e2,
      Int.toNat_natCast, Int.toNat_natCast, C08P.pow_add hp hd ha]
  · have : e.toNat = 0 := by omega
    rw [t_pow hd ha, oneCall_eq hd, this]; rfl

/-- **int operands act as their residues**: `x * k` for a Python int `k` (also the reflected `k * x`) equals
    `x * cls([k, 0, …, 0])`, only depends on `k mod p` (negative and `> p` ints included), and `x / k` is
    `x * prime_field_inv(k, p)` with the generated `prime_field_inv`. -/
theorem int_operands (hp : 0 < p) (hd : 1 ≤ mc.length) {x : FQP} (hx : IsObj mc x) (k : ℤ) :
    FQP.mul_int p mc x k =
      (FQPsub.init_ints p mc ([k] ++ List.replicate (mc.length - 1) 0) >>= fun s => FQP.mul_fqp p mc x s) ∧
    FQP.mul_int p mc x (k % (p : ℤ)) = FQP.mul_int p mc x k ∧
    FQP.rmul_int p mc x k = FQP.mul_int p mc x k ∧
    FQP.div_int p mc x k = FQP.mul_int p mc x (Gen.ExtraFieldsFq.Utils.prime_field_inv k p) ∧
    FQP.truediv_int p mc x k = FQP.div_int p mc x k := by
  obtain ⟨a, ha, rfl⟩ := hx.lift (p := p)
  refine ⟨?_, ?_, rfl, ?_, rfl⟩
  · rw [t_mulInt ha, t_init _ (by simp; omega), ok_bind, C08P.mulInt_eq_mul_ofIntScalar hp hd ha k]
    exact (t_mul ha (wf_ofIntScalar hd k)).symm
  · rw [t_mulInt ha, t_mulInt ha, C08P.mulInt_mod hp ha]
  · rw [t_divInt ha, t_mulInt ha, Tie.prime_field_inv_eq]; rfl

/-! ### inverse and division (optimized class; the reference `FQP.inv` is not translated) -/

theorem ne_zero_of_coeffs {a : Fqp .opt p mc} (hne : (obj a).coeffs ≠ List.replicate mc.length 0) : a ≠ 0 := by
  intro h; apply hne; rw [h]; exact zero_coeffs (v := V)

/-- **`x * x.inv() == one()`** — for ANY prime `p`, ANY irreducible modulus `X^d + Σ mcᵢ Xⁱ` (`Sane`: every supplied
    modulus coefficient is `0` or not divisible by `p`) and every canonical `x` other than zero, the generated optimized
    `FQP.inv` (extended Euclid on coefficient lists) returns a canonical object `xi` which is the inverse of `x` in the
    quotient field, and the generated product of `x` and `xi` in either order is the object `FQP.one()` returns. -/
theorem inv_laws [Fact p.Prime] (hd : 1 ≤ mc.length) (hirr : Irreducible (modulus p mc)) (hmc : Sane p mc)
    {x : FQP} (hx : IsCanon p mc x) (hne : x.coeffs ≠ List.replicate mc.length 0) :
    ∃ xi o, FQP.inv p mc x = .ok xi ∧ oneCall p mc = .ok o ∧ IsCanon p mc xi ∧
      evQ p mc xi.coeffs * evQ p mc x.coeffs = 1 ∧
      FQP.mul_fqp p mc x xi = .ok o ∧ FQP.mul_fqp p mc xi x = .ok o := by
  obtain ⟨a, ha, rfl⟩ := hx.lift
  have hne' := ne_zero_of_coeffs hne
  obtain ⟨hc, hq⟩ := C08P.inv_refines hd hirr hmc ha hne'
  obtain ⟨h1, h2⟩ := C08P.mul_inv_cancel hd hirr hmc ha hne'
  refine ⟨_, _, t_inv a, oneCall_eq hd, isCanon_obj hc, hq, ?_, ?_⟩
  · rw [t_mul ha.wf hc.wf, h1]
  · rw [t_mul hc.wf ha.wf, h2]

/-- **`(x / y) * y == x`** for canonical `x`, `y` with `y` not zero (any prime `p`, any irreducible modulus); `x / y`
    is `x * y.inv()` and `__truediv__` is `__div__`; `zero().inv() == zero()` (the `inv0` convention, any `p`, any
    modulus), hence `x / zero() == zero()`-style results do not raise. -/
theorem div_laws [Fact p.Prime] (hd : 1 ≤ mc.length) (hirr : Irreducible (modulus p mc)) (hmc : Sane p mc)
    {x y : FQP} (hx : IsCanon p mc x) (hy : IsCanon p mc y) (hne : y.coeffs ≠ List.replicate mc.length 0) :
    (FQP.div_fqp p mc x y >>= fun q => FQP.mul_fqp p mc q y) = .ok x ∧
    FQP.div_fqp p mc x y = (FQP.inv p mc y >>= fun yi => FQP.mul_fqp p mc x yi) ∧
    FQP.truediv_fqp p mc x y = FQP.div_fqp p mc x y := by
  have hp : 0 < p := (Fact.out : p.Prime).pos
  obtain ⟨a, ha, rfl⟩ := hx.lift; obtain ⟨b, hb, rfl⟩ := hy.lift
  have hne' := ne_zero_of_coeffs hne
  obtain ⟨hc, _⟩ := C08P.inv_refines hd hirr hmc hb hne'
  refine ⟨?_, rfl, rfl⟩
  have hw : WF (a / b) := wfm ha.wf hc.wf
  rw [t_div ha.wf, ok_bind, t_mul hw hb.wf, C08P.div_mul_cancel hd hirr hmc ha hb hne']

/-- `FQP.zero().inv() == FQP.zero()` for any `p` and any modulus: the inverse of zero is zero, it does not raise -/
theorem inv_zero : ∃ z, zeroCall p mc = .ok z ∧ FQP.inv p mc z = .ok z :=
  ⟨_, zeroCall_eq, by rw [t_inv, C08P.inv_zero]⟩

/-- with the field structure of the quotient (modulus irreducible): the generated `inv` and `/` are the field inverse
    and the field division -/
theorem inv_div_refine [Fact p.Prime] [Fact (Irreducible (modulus p mc))] (hd : 1 ≤ mc.length) (hmc : Sane p mc)
    {x y : FQP} (hx : IsCanon p mc x) (hy : IsCanon p mc y) (hne : y.coeffs ≠ List.replicate mc.length 0) :
    (∀ w, FQP.inv p mc y = .ok w → evQ p mc w.coeffs = (evQ p mc y.coeffs)⁻¹) ∧
    (∀ w, FQP.div_fqp p mc x y = .ok w → evQ p mc w.coeffs = evQ p mc x.coeffs / evQ p mc y.coeffs) := by
  obtain ⟨a, ha, rfl⟩ := hx.lift; obtain ⟨b, hb, rfl⟩ := hy.lift
  obtain ⟨h1, h2⟩ := C08P.inv_div_spec hd hmc ha hb (ne_zero_of_coeffs hne)
  refine ⟨fun w h => ?_, fun w h => ?_⟩
  · rw [t_inv] at h; cases h; exact h1
  · rw [t_div ha.wf] at h; cases h; exact h2

/-- **FQ2** (`modulus_coeffs = (1, 0)`, i.e. `X² + 1`) over ANY prime `p ≡ 3 (mod 4)`: inverse and division laws of the
    generated optimized `FQ2` -/
theorem fq2_inv_laws [Fact p.Prime] (h4 : p % 4 = 3) {x y : FQP} (hx : IsCanon p [1, 0] x) (hy : IsCanon p [1, 0] y)
    (hne : x.coeffs ≠ [0, 0]) :
    (∃ xi o, FQP.inv p [1, 0] x = .ok xi ∧ oneCall p [1, 0] = .ok o ∧ IsCanon p [1, 0] xi ∧
      FQP.mul_fqp p [1, 0] x xi = .ok o ∧ FQP.mul_fqp p [1, 0] xi x = .ok o) ∧
    (FQP.div_fqp p [1, 0] y x >>= fun q => FQP.mul_fqp p [1, 0] q x) = .ok y := by
  obtain ⟨xi, o, h1, h2, h3, _, h5, h6⟩ :=
    inv_laws (by decide) (irreducible_modulus_fq2 h4) sane_fq2 hx hne
  exact ⟨⟨xi, o, h1, h2, h3, h5, h6⟩, (div_laws (by decide) (irreducible_modulus_fq2 h4) sane_fq2 hy hx hne).1⟩

/-- **BLS12-381 `FQ12`** (`field_modulus` and `FQ12_MODULUS_COEFFS` of `py_ecc.fields`, `X¹² − 2X⁶ + 2`, proved
    irreducible): `x * x.inv() == FQ12.one()` and `(y / x) * x == y` for the generated optimized `FQ12`, every canonical
    `x` other than zero -/
theorem bls_fq12_inv_laws {x y : FQP} (hx : IsCanon blsP blsMc12 x) (hy : IsCanon blsP blsMc12 y)
    (hne : x.coeffs ≠ List.replicate 12 0) :
    (∃ xi o, FQP.inv blsP blsMc12 x = .ok xi ∧ FQ12.one blsP blsMc12 = .ok o ∧ IsCanon blsP blsMc12 xi ∧
      FQP.mul_fqp blsP blsMc12 x xi = .ok o ∧ FQP.mul_fqp blsP blsMc12 xi x = .ok o) ∧
    (FQP.div_fqp blsP blsMc12 y x >>= fun q => FQP.mul_fqp blsP blsMc12 q x) = .ok y := by
  have hs : Sane blsP blsMc12 := sane_of_natAbs_lt (by decide)
  obtain ⟨xi, o, h1, h2, h3, _, h5, h6⟩ := inv_laws (by decide) C08F12.irreducible_bls12 hs hx hne
  rw [← (zero_one_calls.2 rfl).2] at h2
  exact ⟨⟨xi, o, h1, h2, h3, h5, h6⟩, (div_laws (by decide) C08F12.irreducible_bls12 hs hy hx hne).1⟩

/-- **bn128 `FQ12`** (`X¹² − 18X⁶ + 82`, proved irreducible): the same for the generated optimized `FQ12` over the bn128
    field -/
theorem bn_fq12_inv_laws {x y : FQP} (hx : IsCanon bnP bnMc12 x) (hy : IsCanon bnP bnMc12 y)
    (hne : x.coeffs ≠ List.replicate 12 0) :
    (∃ xi o, FQP.inv bnP bnMc12 x = .ok xi ∧ FQ12.one bnP bnMc12 = .ok o ∧ IsCanon bnP bnMc12 xi ∧
      FQP.mul_fqp bnP bnMc12 x xi = .ok o ∧ FQP.mul_fqp bnP bnMc12 xi x = .ok o) ∧
    (FQP.div_fqp bnP bnMc12 y x >>= fun q => FQP.mul_fqp bnP bnMc12 q x) = .ok y := by
  have hs : Sane bnP bnMc12 := sane_of_natAbs_lt (by decide)
  obtain ⟨xi, o, h1, h2, h3, _, h5, h6⟩ := inv_laws (by decide) C08F12.irreducible_bn12 hs hx hne
  rw [← (zero_one_calls.2 rfl).2] at h2
  exact ⟨⟨xi, o, h1, h2, h3, h5, h6⟩, (div_laws (by decide) C08F12.irreducible_bn12 hs hy hx hne).1⟩


/-! ### non-vacuity -/
example : IsCanon 7 [1, 0] ⟨[(0, 1)], [3, 5], [1, 0], 2⟩ ∧ IsObj [1, 0] ⟨[(0, 1)], [-3, 12], [1, 0], 2⟩ :=
  ⟨⟨⟨rfl, rfl, rfl, rfl⟩, by decide⟩, ⟨rfl, rfl, rfl, rfl⟩⟩
example : Fact (Nat.Prime 7) ∧ 7 % 4 = 3 ∧ ([3, 5] : List ℤ) ≠ [0, 0] := ⟨⟨by norm_num⟩, by decide, by decide⟩
/-- (3 + 5i)⁻¹ = 4 + 5i (mod 7), evaluated with the generated code -/
example : FQP.inv 7 [1, 0] ⟨[(0, 1)], [3, 5], [1, 0], 2⟩ = .ok ⟨[(0, 1)], [4, 5], [1, 0], 2⟩ := by decide
example : (0 : ℕ) < blsP ∧ 1 ≤ blsMc12.length ∧ blsMc12.length = 12 ∧ Sane blsP blsMc12 ∧ Sane bnP bnMc12 :=
  ⟨by decide, by decide, by decide, sane_of_natAbs_lt (by decide), sane_of_natAbs_lt (by decide)⟩
example : ∃ o, FQ12.one blsP blsMc12 = .ok o ∧ IsCanon blsP blsMc12 o ∧ o.coeffs ≠ List.replicate 12 0 := by
  rw [(zero_one_calls.2 rfl).2]
  exact ⟨_, oneCall_eq (by decide), isCanon_obj (canon_one (by decide) (by decide)), by decide⟩

end FqpOpt


end extension

end PyEcc.C08.Gen
