/-
  PyEcc.Props.C12_Final — property C12: the fast `final_exponentiate` of
  `optimized_bls12_381/optimized_pairing.py` IS the plain power, with no hypothesis left.

  Combines `C12.final_exponentiate_of_inv` (Frobenius table, exponent split) with
  `C08_Fq12` (FQ12 is a field — the former hypothesis HB3 — and `FQ12.inv` is the field inverse).
-/
import PyEcc.Props.C12
import PyEcc.Props.C08_Fq12

set_option maxRecDepth 100000

namespace PyEcc.C12
open Polynomial PyEcc PyEcc.Fqp PyEcc.FqpSem PyEcc.PairingSem PyEcc.Gen.Consts

/-- `FQ12.inv` on every reduced element of the optimized BLS12-381 FQ12, zero included: 12
    coefficients, and the value is the field inverse (`0⁻¹ = 0`). -/
theorem bls_fq12_inv_total (a : OBls12) (ha : Canon a) :
    WF (Fqp.inv a) ∧ toQ (Fqp.inv a) = (toQ a)⁻¹ := by
  by_cases h0 : a = 0
  · subst h0
    rw [C08P.inv_zero]
    refine ⟨wf_zero, ?_⟩
    show toQ zero = (toQ zero)⁻¹
    rw [toQ_zero, inv_zero]
  · obtain ⟨c, q, _⟩ := C08F12.bls_fq12_inv_div_spec ha ha h0
    exact ⟨c.wf, q⟩

/-- **`final_exponentiate(x) == x ** ((field_modulus**12 − 1) // curve_order)` for every `x` in
    FQ12** (every `x` with 12 coefficients, `0` included), as an equality of coefficient lists in the
    executable model of `optimized_bls12_381/optimized_pairing.py`: the fast three-step
    exponentiation (`exp_by_p` twice, six times, a division, the cofactor power) computes exactly the
    plain power by the standard exponent `(p¹²−1)/r`.  No hypothesis. -/
theorem finalExponentiateOptBls_eq_pow (x : OBls12) (hx : WF x) :
    finalExponentiateOptBls x = x ^ ((Spec.BLS12381.p ^ 12 - 1) / Spec.BLS12381.r) :=
  final_exponentiate_of_inv bls_fq12_inv_total x hx

/-- The same with the module's own constants:
    `final_exponentiate(x) == x ** ((field_modulus**12 - 1) // curve_order)`. -/
theorem finalExponentiateOptBls_eq_pow' (x : OBls12) (hx : WF x) :
    finalExponentiateOptBls x = x ^ ((blsP ^ 12 - 1) / optimized_bls12_381_curve_order) := by
  rw [finalExponentiateOptBls_eq_pow x hx, Exp.bls_final_exp_eq.2]

/-- **Two routes to the pairing agree**: for every Miller value `f` returned by
    `pairing(Q, P, final_exponentiate=False)`, `final_exponentiate(f)` is the value returned by
    `pairing(Q, P, final_exponentiate=True)`. -/
theorem pairingOptBls_false_then_final (Q : OBls2 × OBls2 × OBls2) (P : Fq blsP × Fq blsP × Fq blsP)
    (f : OBls12) (h : pairingOptBls Q P false = .ok f) :
    pairingOptBls Q P true = .ok (finalExponentiateOptBls f) := by
  rw [finalExponentiateOptBls_eq_pow' f (pairingOptBls_wf Q P false f h), pairingOptBls_finalExp, h]
  rfl

/-- non-vacuity: `pairing(∞, ∞, False)` returns `1` -/
example : pairingOptBls (1, 1, 0) (1, 1, 0) false = .ok 1 := by
  rw [pairingOptBls_eq]; decide +kernel

end PyEcc.C12
