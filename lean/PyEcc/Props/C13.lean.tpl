-- INSTANTIATE: Bls Bn
/-
  PyEcc.Props.C13 (template; `@NS@` is replaced by `Bls` / `Bn`) — property C13:
  the optimized projective curve formulas (`py_ecc/optimized_*/optimized_curve.py`, `optimized_pairing.py`)
  equal the reference affine law (`py_ecc/*/…_curve.py`, `…_pairing.py`) on every control path, through the
  affine reading `toAff (x, y, z) = if z = 0 then ∞ else (x/z, y/z)`.

  Everything is proved about the GENERATED definitions `PyEcc.Gen.Opt@NS@.*` / `PyEcc.Gen.Ref@NS@.*`,
  over an arbitrary field `F`, for ALL triples (no curve-membership hypothesis anywhere); the only
  hypotheses are `(2 : F) ≠ 0` where a formula divides by 2, `λ ≠ 0` for scalings, `z ≠ 0` where a
  totalised division would otherwise be read, and `den ≠ 0` for `linefunc`.  `(3 : F) ≠ 0` is needed nowhere.

  This file is a TEMPLATE: the harness instantiates it by `sed 's/@NS@/Bls/g'` and `sed 's/@NS@/Bn/g'` into
  `PyEcc/Props/C13_Bls.lean` / `C13_Bn.lean`, so every theorem is checked against both curves' generated code.
-/
import Mathlib.Tactic.FieldSimp
import Mathlib.Tactic.Ring
import Mathlib.Tactic.LinearCombination
import Mathlib.Tactic.NormNum
import Mathlib.Algebra.Field.Rat
import PyEcc.Sem.Affine
import PyEcc.Lemmas.C13Aux
import PyEcc.Gen.Opt@NS@
import PyEcc.Gen.Ref@NS@

namespace PyEcc.C13.@NS@
open PyEcc PyEcc.Gen
variable {F : Type} [Field F] [DecidableEq F]

/-! ### `is_inf`, `neg`, `normalize`, `eq`, `is_on_curve` -/

/-- Optimized `is_inf` (`z == 0`) holds exactly when the affine reading is the reference ∞ (`None`). -/
theorem opt_is_inf_iff (T : F × F × F) :
    Opt@NS@.is_inf T = true ↔ Ref@NS@.is_inf (toAff T) = true := by
  simp [Opt@NS@.is_inf, Ref@NS@.is_inf, toAff_eq_none_iff]

/-- Optimized `neg` is the reference `neg` through the affine reading, for every triple (∞ ↦ ∞). -/
theorem opt_neg_toAff (T : F × F × F) :
    toAff (Opt@NS@.neg T) = Ref@NS@.neg (toAff T) := by
  obtain ⟨x, y, z⟩ := T
  by_cases hz : z = 0
  · subst hz; simp [toAff, Opt@NS@.neg, Ref@NS@.neg]
  · simp [toAff, Opt@NS@.neg, Ref@NS@.neg, hz, neg_div]

/-- For a finite triple (`z ≠ 0`), optimized `normalize` returns the affine reading.  The guard is
    necessary: for `z = 0` the affine reading is ∞ (`none`), while `normalize` still returns a pair
    (computed with the library's `inv0(0) = 0` convention, which is also Lean's `x / 0 = 0`). -/
theorem opt_normalize (T : F × F × F) (hz : T.2.2 ≠ 0) :
    toAff T = some (Opt@NS@.normalize T) := by
  simp [toAff, Opt@NS@.normalize, hz]

example : ((1 : ℚ), (2 : ℚ), (3 : ℚ)).2.2 ≠ 0 := by norm_num

/-- For a finite triple, `normalize1` (pairing module: `(x/z, y/z, 1)`) is another representative of
    the same affine point. -/
theorem opt_normalize1_toAff (T : F × F × F) (hz : T.2.2 ≠ 0) :
    toAff (Opt@NS@.normalize1 T) = toAff T := by
  simp [toAff, Opt@NS@.normalize1, Opt@NS@.normalize, hz]

/-- Optimized `eq` decides equality of the affine readings for ALL triples: any two representatives
    of ∞ (any `z = 0`, including the degenerate `(0,0,0)` the library itself produces) are equal, ∞ is
    different from every finite point, and finite points are compared by cross-multiplication.
    (This is the statement that needs repair F4 of `eq`.) -/
theorem opt_eq_iff (T₁ T₂ : F × F × F) :
    Opt@NS@.eq T₁ T₂ = true ↔ toAff T₁ = toAff T₂ := by
  by_cases h1 : T₁.2.2 = 0
  · by_cases h2 : T₂.2.2 = 0
    · simp [Opt@NS@.eq, Opt@NS@.is_inf, toAff_of_z_eq_zero, h1, h2]
    · simp [Opt@NS@.eq, Opt@NS@.is_inf, toAff_of_z_eq_zero h1, toAff_of_z_ne_zero h2, h1, h2]
  · by_cases h2 : T₂.2.2 = 0
    · simp [Opt@NS@.eq, Opt@NS@.is_inf, toAff_of_z_eq_zero h2, toAff_of_z_ne_zero h1, h1, h2]
    · rw [toAff_eq_iff_of_ne_zero h1 h2]
      simp [Opt@NS@.eq, Opt@NS@.is_inf, h1, h2]

/-- Optimized `is_on_curve` (`y²z − x³ = b z³`, ∞ accepted) holds exactly when the reference
    `is_on_curve` (`y² − x³ = b`, ∞ accepted) holds for the affine reading — for every triple and every `b`. -/
theorem opt_is_on_curve_iff (T : F × F × F) (b : F) :
    Opt@NS@.is_on_curve T b = true ↔ Ref@NS@.is_on_curve (toAff T) b = true := by
  obtain ⟨x, y, z⟩ := T
  by_cases hz : z = 0
  · subst hz; simp [toAff, Opt@NS@.is_on_curve, Opt@NS@.is_inf, Ref@NS@.is_on_curve, Ref@NS@.is_inf]
  · have key : (y / z) ^ 2 - (x / z) ^ 3 - b = (y ^ 2 * z - x ^ 3 - b * z ^ 3) / z ^ 3 := by
      field_simp
    have hz3 : z ^ 3 ≠ 0 := pow_ne_zero 3 hz
    have : (y / z) ^ 2 - (x / z) ^ 3 = b ↔ y ^ 2 * z - x ^ 3 = b * z ^ 3 := by
      rw [← sub_eq_zero, key, div_eq_zero_iff, or_iff_left hz3, sub_eq_zero]
    simp [toAff, Opt@NS@.is_on_curve, Opt@NS@.is_inf, Ref@NS@.is_on_curve, Ref@NS@.is_inf, hz, this]

/-! ### `double` -/

/-- Optimized projective `double` equals the reference affine `double` through the affine reading, for
    EVERY triple: ∞ (any `z = 0`) ↦ ∞, a point with `y = 0` (order two) ↦ ∞ (`z' = 8(yz)³ = 0`),
    otherwise the tangent formula.  Needs only `2 ≠ 0` (the reference slope divides by `2y`). -/
theorem opt_double_toAff (h2 : (2 : F) ≠ 0) (T : F × F × F) :
    toAff (Opt@NS@.double T) = Ref@NS@.double (toAff T) := by
  obtain ⟨x, y, z⟩ := T
  have h8 : (8 : F) ≠ 0 := by
    have : (8 : F) = 2 * 2 * 2 := by norm_num
    rw [this]; exact mul_ne_zero (mul_ne_zero h2 h2) h2
  by_cases hz : z = 0
  · subst hz; simp [toAff, Opt@NS@.double, Ref@NS@.double, Ref@NS@.is_inf]
  by_cases hy : y = 0
  · subst hy; simp [toAff, Opt@NS@.double, Ref@NS@.double, Ref@NS@.is_inf, hz]
  have hyz : y / z ≠ 0 := div_ne_zero hy hz
  have hyz' : y * z ≠ 0 := mul_ne_zero hy hz
  have hz' : (Opt@NS@.double (x, y, z)).2.2 ≠ 0 := by
    simp only [Opt@NS@.double, Nat.cast_ofNat]
    exact mul_ne_zero (mul_ne_zero h8 hyz') (mul_ne_zero hyz' hyz')
  rw [toAff_of_z_ne_zero hz']
  simp only [toAff, Opt@NS@.double, Ref@NS@.double, Ref@NS@.is_inf, hz, hyz, ↓reduceIte, Nat.cast_ofNat,
    reduceCtorEq, decide_false, Bool.false_eq_true, or_self]
  congr 1
  ext
  · simp only; field_simp; ring
  · simp only; field_simp; ring

example : (2 : ℚ) ≠ 0 := by norm_num

omit [DecidableEq F] in
/-- `double` is homogeneous of degree 6: `double (λ•T) = λ⁶ • double T` (no hypothesis at all). -/
theorem opt_double_scale (l : F) (T : F × F × F) :
    Opt@NS@.double (scale l T) = scale (l ^ 6) (Opt@NS@.double T) := by
  obtain ⟨x, y, z⟩ := T
  simp only [Opt@NS@.double, scale_mk, Nat.cast_ofNat]
  ext <;> simp only <;> ring

/-- Representative independence of `double`: scaling the input triple by `λ ≠ 0` does not change the
    affine reading of the result. -/
theorem opt_double_toAff_scale {l : F} (hl : l ≠ 0) (T : F × F × F) :
    toAff (Opt@NS@.double (scale l T)) = toAff (Opt@NS@.double T) := by
  rw [opt_double_scale, toAff_scale (pow_ne_zero 6 hl)]

example : (5 : ℚ) ≠ 0 := by norm_num

/-! ### `add` -/

/-- Reference `add` on two finite points with different `x`: the chord formula; the internal sanity
    check `newy == -m*newx + m*x2 - y2` is an identity and never raises. -/
theorem ref_add_chord {a1 b1 a2 b2 : F} (h : a2 ≠ a1) :
    Ref@NS@.add (some (a1, b1)) (some (a2, b2)) =
      .ok (some (((b2 - b1) / (a2 - a1)) ^ 2 - a1 - a2,
        -((b2 - b1) / (a2 - a1)) * (((b2 - b1) / (a2 - a1)) ^ 2 - a1 - a2)
          + ((b2 - b1) / (a2 - a1)) * a1 - b1)) := by
  have hd : a2 - a1 ≠ 0 := sub_ne_zero.mpr h
  simp only [Ref@NS@.add, reduceCtorEq, or_self, ↓reduceIte, h, false_and]
  rw [if_neg]
  rw [not_not]; field_simp; ring

/-- The reference `add` never raises (its `ValueError` sanity check is dead code), for all operands. -/
theorem ref_add_ok (p q : Option (F × F)) : ∃ r, Ref@NS@.add p q = .ok r := by
  rcases p with _ | ⟨a1, b1⟩
  · exact ⟨_, by simp [Ref@NS@.add]; rfl⟩
  rcases q with _ | ⟨a2, b2⟩
  · exact ⟨_, by simp [Ref@NS@.add]; rfl⟩
  by_cases h : a2 = a1
  · by_cases h' : b2 = b1
    · exact ⟨_, by simp only [Ref@NS@.add, reduceCtorEq, or_self, ↓reduceIte, h, h', and_self]; rfl⟩
    · exact ⟨_, by simp only [Ref@NS@.add, reduceCtorEq, or_self, ↓reduceIte, h, h', and_false]; rfl⟩
  · exact ⟨_, ref_add_chord h⟩

/-- Optimized projective `add` equals the reference affine `add` through the affine reading, on every
    control path and for EVERY pair of triples: either operand ∞ (any representative with `z = 0`),
    doubling reached through addition (`V1 = V2 ∧ U1 = U2`), inverse points (↦ ∞), generic chord.  In
    particular the reference `add` returns normally (its internal `ValueError` check never fires). -/
theorem opt_add_toAff (h2 : (2 : F) ≠ 0) (T₁ T₂ : F × F × F) :
    Ref@NS@.add (toAff T₁) (toAff T₂) = .ok (toAff (Opt@NS@.add T₁ T₂)) := by
  obtain ⟨x1, y1, z1⟩ := T₁
  obtain ⟨x2, y2, z2⟩ := T₂
  by_cases hz1 : z1 = 0
  · subst hz1
    by_cases hz2 : z2 = 0
    · subst hz2; simp [Opt@NS@.add, Ref@NS@.add, toAff]
    · simp [Opt@NS@.add, Ref@NS@.add, toAff, hz2]
  by_cases hz2 : z2 = 0
  · subst hz2; simp [Opt@NS@.add, Ref@NS@.add, toAff, hz1]
  -- both finite
  have hx : (x2 / z2 = x1 / z1) ↔ (x2 * z1 = x1 * z2) := by rw [div_eq_div_iff hz2 hz1]
  have hy : (y2 / z2 = y1 / z1) ↔ (y2 * z1 = y1 * z2) := by rw [div_eq_div_iff hz2 hz1]
  have hA1 : toAff (x1, y1, z1) = some (x1 / z1, y1 / z1) := toAff_of_z_ne_zero hz1
  have hA2 : toAff (x2, y2, z2) = some (x2 / z2, y2 / z2) := toAff_of_z_ne_zero hz2
  by_cases hV : x2 * z1 = x1 * z2
  · by_cases hU : y2 * z1 = y1 * z2
    · -- doubling through add
      have hopt : Opt@NS@.add (x1, y1, z1) (x2, y2, z2) = Opt@NS@.double (x1, y1, z1) := by
        simp only [Opt@NS@.add, hz1, hz2, or_self, ↓reduceIte, hV, hU, and_self]
      rw [hopt, opt_double_toAff h2, hA1, hA2]
      simp only [Ref@NS@.add, reduceCtorEq, or_self, ↓reduceIte, hx.mpr hV, hy.mpr hU, and_self]
    · -- inverse points
      have hopt : toAff (Opt@NS@.add (x1, y1, z1) (x2, y2, z2)) = none := by
        simp only [Opt@NS@.add, hz1, hz2, or_self, ↓reduceIte, hV, hU, and_false, toAff_mk_zero]
      have hyne : ¬ (y2 / z2 = y1 / z1) := fun h => hU (hy.mp h)
      rw [hopt, hA1, hA2]
      simp only [Ref@NS@.add, reduceCtorEq, or_self, ↓reduceIte, hx.mpr hV, hyne, and_false]
  · -- generic chord
    have hVne : x2 * z1 - x1 * z2 ≠ 0 := sub_ne_zero.mpr hV
    have hxne : ¬ (x2 / z2 = x1 / z1) := fun h => hV (hx.mp h)
    have hz' : (Opt@NS@.add (x1, y1, z1) (x2, y2, z2)).2.2 ≠ 0 := by
      simp only [Opt@NS@.add, hz1, hz2, or_self, ↓reduceIte, hV, false_and]
      exact mul_ne_zero (mul_ne_zero hVne (mul_ne_zero hVne hVne)) (mul_ne_zero hz1 hz2)
    rw [hA1, hA2, ref_add_chord hxne, slope_norm hz1 hz2, toAff_of_z_ne_zero hz']
    simp only [Opt@NS@.add, hz1, hz2, or_self, ↓reduceIte, hV, false_and, Nat.cast_ofNat]
    set D := x2 * z1 - x1 * z2 with hD
    congr 2
    ext
    · simp only; field_simp; ring
    · simp only; field_simp; ring

/-- Representative independence of `add` in the first argument (scaling by `λ ≠ 0`). -/
theorem opt_add_toAff_scale_left (h2 : (2 : F) ≠ 0) {l : F} (hl : l ≠ 0) (T₁ T₂ : F × F × F) :
    toAff (Opt@NS@.add (scale l T₁) T₂) = toAff (Opt@NS@.add T₁ T₂) := by
  have h := opt_add_toAff h2 (scale l T₁) T₂
  rw [toAff_scale hl, opt_add_toAff h2 T₁ T₂] at h
  exact (Except.ok.inj h).symm

/-- Representative independence of `add` in the second argument (scaling by `λ ≠ 0`). -/
theorem opt_add_toAff_scale_right (h2 : (2 : F) ≠ 0) {l : F} (hl : l ≠ 0) (T₁ T₂ : F × F × F) :
    toAff (Opt@NS@.add T₁ (scale l T₂)) = toAff (Opt@NS@.add T₁ T₂) := by
  have h := opt_add_toAff h2 T₁ (scale l T₂)
  rw [toAff_scale hl, opt_add_toAff h2 T₁ T₂] at h
  exact (Except.ok.inj h).symm

/-- Representative independence of `neg`. -/
theorem opt_neg_toAff_scale {l : F} (hl : l ≠ 0) (T : F × F × F) :
    toAff (Opt@NS@.neg (scale l T)) = toAff (Opt@NS@.neg T) := by
  rw [opt_neg_toAff, opt_neg_toAff, toAff_scale hl]

/-- `eq` is invariant under scaling either operand by non-zero factors. -/
theorem opt_eq_scale {l m : F} (hl : l ≠ 0) (hm : m ≠ 0) (T₁ T₂ : F × F × F) :
    Opt@NS@.eq (scale l T₁) (scale m T₂) = Opt@NS@.eq T₁ T₂ := by
  rw [Bool.eq_iff_iff, opt_eq_iff, opt_eq_iff, toAff_scale hl, toAff_scale hm]

/-- `is_on_curve` is invariant under scaling the triple by a non-zero factor. -/
theorem opt_is_on_curve_scale {l : F} (hl : l ≠ 0) (T : F × F × F) (b : F) :
    Opt@NS@.is_on_curve (scale l T) b = Opt@NS@.is_on_curve T b := by
  rw [Bool.eq_iff_iff, opt_is_on_curve_iff, opt_is_on_curve_iff, toAff_scale hl]

/-! ### `multiply` -/

/-- fuelled double-and-add: as long as the fuel exceeds the scalar, the reference recursion returns
    normally and agrees with the optimized recursion through the affine reading -/
theorem opt_multiplyAux_toAff (h2 : (2 : F) ≠ 0) (fuel : Nat) :
    ∀ (T : F × F × F) (n : Nat), n < fuel →
      Ref@NS@.multiplyAux fuel (toAff T) n = .ok (toAff (Opt@NS@.multiplyAux fuel T n)) := by
  induction fuel with
  | zero => intro T n h; omega
  | succ fuel ih =>
    intro T n hn
    by_cases h0 : n = 0
    · subst h0; simp [Ref@NS@.multiplyAux, Opt@NS@.multiplyAux]
    by_cases h1 : n = 1
    · subst h1; simp [Ref@NS@.multiplyAux, Opt@NS@.multiplyAux]
    have hlt : n / 2 < fuel := by omega
    have ih' := ih (Opt@NS@.double T) (n / 2) hlt
    rw [opt_double_toAff h2] at ih'
    by_cases hp : n % 2 = 0
    · simp only [Ref@NS@.multiplyAux, Opt@NS@.multiplyAux, h0, h1, hp, ↓reduceIte, ih']
    · simp only [Ref@NS@.multiplyAux, Opt@NS@.multiplyAux, h0, h1, hp, ↓reduceIte, ih',
        opt_add_toAff h2]

/-- Optimized `multiply` (double-and-add on projective triples) equals the reference affine
    `multiply` through the affine reading, for every triple and every `n : ℕ`; in particular the
    reference `multiply` returns normally (the recursion's fuel `n + 1` never runs out and the `add`
    sanity check never fires). -/
theorem opt_multiply_toAff (h2 : (2 : F) ≠ 0) (T : F × F × F) (n : Nat) :
    Ref@NS@.multiply (toAff T) n = .ok (toAff (Opt@NS@.multiply T n)) :=
  opt_multiplyAux_toAff h2 (n + 1) T n (Nat.lt_succ_self n)

/-- Representative independence of `multiply`. -/
theorem opt_multiply_toAff_scale (h2 : (2 : F) ≠ 0) {l : F} (hl : l ≠ 0) (T : F × F × F) (n : Nat) :
    toAff (Opt@NS@.multiply (scale l T) n) = toAff (Opt@NS@.multiply T n) := by
  have h := opt_multiply_toAff h2 (scale l T) n
  rw [toAff_scale hl, opt_multiply_toAff h2 T n] at h
  exact (Except.ok.inj h).symm

/-! ### `linefunc` -/

/-- The reference `linefunc` refuses ∞: if any of the three operands is `None` it raises `ValueError`. -/
theorem ref_linefunc_inf (P1 P2 T : Option (F × F)) (h : P1 = none ∨ P2 = none ∨ T = none) :
    Ref@NS@.linefunc P1 P2 T = .error PyErr.value := by
  simp only [Ref@NS@.linefunc, if_pos h]

/-- Through the affine reading: if any of the three triples has `z = 0`, the reference `linefunc`
    raises `ValueError` (so no equation between the two `linefunc`s is claimed for ∞ operands). -/
theorem ref_linefunc_toAff_inf (P1 P2 T : F × F × F) (h : P1.2.2 = 0 ∨ P2.2.2 = 0 ∨ T.2.2 = 0) :
    Ref@NS@.linefunc (toAff P1) (toAff P2) (toAff T) = .error PyErr.value := by
  apply ref_linefunc_inf
  simpa only [toAff_eq_none_iff] using h

/-- Chord branch of the optimized `linefunc` (finite operands, `x₁/z₁ ≠ x₂/z₂`): the denominator is
    non-zero and `num / den` is the affine chord value `m (x_T − x₁) − (y_T − y₁)`. -/
theorem opt_linefunc_chord {x1 y1 z1 x2 y2 z2 xt yt zt : F} (hz1 : z1 ≠ 0) (hz2 : z2 ≠ 0) (hzt : zt ≠ 0)
    (hV : x2 * z1 ≠ x1 * z2) :
    (Opt@NS@.linefunc (x1, y1, z1) (x2, y2, z2) (xt, yt, zt)).2 ≠ 0 ∧
    (Opt@NS@.linefunc (x1, y1, z1) (x2, y2, z2) (xt, yt, zt)).1 /
        (Opt@NS@.linefunc (x1, y1, z1) (x2, y2, z2) (xt, yt, zt)).2 =
      (y2 / z2 - y1 / z1) / (x2 / z2 - x1 / z1) * (xt / zt - x1 / z1) - (yt / zt - y1 / z1) := by
  have hD : x2 * z1 - x1 * z2 ≠ 0 := sub_ne_zero.mpr hV
  rw [slope_norm hz1 hz2]
  simp only [Opt@NS@.linefunc, ne_eq, hD, not_false_eq_true, ↓reduceIte]
  set D := x2 * z1 - x1 * z2 with hDdef
  refine ⟨mul_ne_zero (mul_ne_zero hD hzt) hz1, ?_⟩
  field_simp
  try ring

/-- Tangent branch (finite operands, `P1` and `P2` the same affine point): the denominator is
    `2 y₁ z₁ · z_T z₁`, non-zero iff `y₁ ≠ 0`; then `num / den` is the affine tangent value with slope
    `3x² / 2y`. -/
theorem opt_linefunc_tangent (h2 : (2 : F) ≠ 0) {x1 y1 z1 x2 y2 z2 xt yt zt : F}
    (hz1 : z1 ≠ 0) (hzt : zt ≠ 0)
    (hV : x2 * z1 = x1 * z2) (hU : y2 * z1 = y1 * z2) (hy1 : y1 ≠ 0) :
    (Opt@NS@.linefunc (x1, y1, z1) (x2, y2, z2) (xt, yt, zt)).2 ≠ 0 ∧
    (Opt@NS@.linefunc (x1, y1, z1) (x2, y2, z2) (xt, yt, zt)).1 /
        (Opt@NS@.linefunc (x1, y1, z1) (x2, y2, z2) (xt, yt, zt)).2 =
      (3 * (x1 / z1) ^ 2) / (2 * (y1 / z1)) * (xt / zt - x1 / z1) - (yt / zt - y1 / z1) := by
  have hV' : x2 * z1 - x1 * z2 = 0 := sub_eq_zero.mpr hV
  have hU' : y2 * z1 - y1 * z2 = 0 := sub_eq_zero.mpr hU
  simp only [Opt@NS@.linefunc, ne_eq, hV', hU', not_true_eq_false, ↓reduceIte, Nat.cast_ofNat]
  refine ⟨mul_ne_zero (mul_ne_zero (mul_ne_zero (mul_ne_zero h2 hy1) hz1) hzt) hz1, ?_⟩
  field_simp
  try ring

/-- Vertical branch (finite operands, same `x`, different `y`): the denominator `z₁ z_T` is non-zero
    and `num / den = x_T − x₁`. -/
theorem opt_linefunc_vertical {x1 y1 z1 x2 y2 z2 xt yt zt : F} (hz1 : z1 ≠ 0) (hzt : zt ≠ 0)
    (hV : x2 * z1 = x1 * z2) (hU : y2 * z1 ≠ y1 * z2) :
    (Opt@NS@.linefunc (x1, y1, z1) (x2, y2, z2) (xt, yt, zt)).2 ≠ 0 ∧
    (Opt@NS@.linefunc (x1, y1, z1) (x2, y2, z2) (xt, yt, zt)).1 /
        (Opt@NS@.linefunc (x1, y1, z1) (x2, y2, z2) (xt, yt, zt)).2 = xt / zt - x1 / z1 := by
  have hV' : x2 * z1 - x1 * z2 = 0 := sub_eq_zero.mpr hV
  have hU' : ¬ (y2 * z1 - y1 * z2 = 0) := fun h => hU (sub_eq_zero.mp h)
  simp only [Opt@NS@.linefunc, ne_eq, hV', hU', not_true_eq_false, ↓reduceIte]
  refine ⟨mul_ne_zero hz1 hzt, ?_⟩
  field_simp
  try ring

-- non-vacuity of the three branch hypotheses (chord / tangent with `y ≠ 0` / vertical), over ℚ
example : (3 : ℚ) * 1 ≠ 1 * 1 := by norm_num
example : (1 : ℚ) * 2 = 2 * 1 ∧ (2 : ℚ) * 2 = 4 * 1 ∧ (4 : ℚ) ≠ 0 := by norm_num
example : (1 : ℚ) * 2 = 2 * 1 ∧ (-2 : ℚ) * 2 ≠ 4 * 1 := by norm_num

/-- For finite operands (and `2 ≠ 0`) the denominator returned by the optimized `linefunc` vanishes in
    exactly one situation: the tangent branch (`P1`, `P2` the same affine point) at a point with `y = 0`. -/
theorem opt_linefunc_den_eq_zero_iff (h2 : (2 : F) ≠ 0) (P1 P2 T : F × F × F)
    (hz1 : P1.2.2 ≠ 0) (hz2 : P2.2.2 ≠ 0) (hzt : T.2.2 ≠ 0) :
    (Opt@NS@.linefunc P1 P2 T).2 = 0 ↔ toAff P1 = toAff P2 ∧ P1.2.1 = 0 := by
  rw [toAff_eq_iff_of_ne_zero hz1 hz2]
  obtain ⟨x1, y1, z1⟩ := P1
  obtain ⟨x2, y2, z2⟩ := P2
  obtain ⟨xt, yt, zt⟩ := T
  simp only at hz1 hz2 hzt ⊢
  by_cases hV : x2 * z1 = x1 * z2
  · by_cases hU : y2 * z1 = y1 * z2
    · by_cases hy1 : y1 = 0
      · have hV' : x2 * z1 - x1 * z2 = 0 := sub_eq_zero.mpr hV
        have hU' : y2 * z1 - y1 * z2 = 0 := sub_eq_zero.mpr hU
        have : (Opt@NS@.linefunc (x1, y1, z1) (x2, y2, z2) (xt, yt, zt)).2 = 0 := by
          simp only [Opt@NS@.linefunc, ne_eq, hV', hU', not_true_eq_false, ↓reduceIte]
          simp [hy1]
        simp only [this, true_iff]
        exact ⟨⟨hV.symm, hU.symm⟩, hy1⟩
      · have := (opt_linefunc_tangent h2 (xt := xt) (yt := yt) hz1 hzt hV hU hy1).1
        simp only [this, false_iff, not_and]
        exact fun _ => hy1
    · have := (opt_linefunc_vertical (xt := xt) (yt := yt) hz1 hzt hV hU).1
      simp only [this, false_iff, not_and]
      exact fun h => absurd h.2.symm hU
  · have := (opt_linefunc_chord (y1 := y1) (y2 := y2) (xt := xt) (yt := yt) hz1 hz2 hzt hV).1
    simp only [this, false_iff, not_and]
    exact fun h => absurd h.1.symm hV

/-- The optimized `linefunc` returns a pair `(num, den)`; for finite operands (all three `z ≠ 0`) and
    `den ≠ 0`, `num / den` is exactly the value the reference affine `linefunc` returns on the affine
    readings, on each of its three branches (chord, tangent, vertical).  By
    `opt_linefunc_den_eq_zero_iff`, `den ≠ 0` excludes exactly the tangent at a point with `y = 0`
    (where the reference code divides by `2y = 0`). -/
theorem opt_linefunc_toAff (P1 P2 T : F × F × F)
    (hz1 : P1.2.2 ≠ 0) (hz2 : P2.2.2 ≠ 0) (hzt : T.2.2 ≠ 0)
    (hden : (Opt@NS@.linefunc P1 P2 T).2 ≠ 0) :
    Ref@NS@.linefunc (toAff P1) (toAff P2) (toAff T) =
      .ok ((Opt@NS@.linefunc P1 P2 T).1 / (Opt@NS@.linefunc P1 P2 T).2) := by
  obtain ⟨x1, y1, z1⟩ := P1
  obtain ⟨x2, y2, z2⟩ := P2
  obtain ⟨xt, yt, zt⟩ := T
  simp only at hz1 hz2 hzt
  have hx : (x1 / z1 = x2 / z2) ↔ (x2 * z1 = x1 * z2) := by rw [div_eq_div_iff hz1 hz2, eq_comm]
  have hy : (y1 / z1 = y2 / z2) ↔ (y2 * z1 = y1 * z2) := by rw [div_eq_div_iff hz1 hz2, eq_comm]
  simp only [toAff, hz1, hz2, hzt, ↓reduceIte]
  by_cases hV : x2 * z1 = x1 * z2
  · have c1 : ¬ (x1 / z1 ≠ x2 / z2) := not_not.mpr (hx.mpr hV)
    by_cases hU : y2 * z1 = y1 * z2
    · have hV' : x2 * z1 - x1 * z2 = 0 := sub_eq_zero.mpr hV
      have hU' : y2 * z1 - y1 * z2 = 0 := sub_eq_zero.mpr hU
      simp only [Opt@NS@.linefunc, ne_eq, hV', hU', not_true_eq_false, ↓reduceIte, Nat.cast_ofNat] at hden
      have h2 : (2 : F) ≠ 0 := fun h => hden (by simp [h])
      have hy1 : y1 ≠ 0 := fun h => hden (by simp [h])
      rw [(opt_linefunc_tangent h2 hz1 hzt hV hU hy1).2]
      simp only [Ref@NS@.linefunc, reduceCtorEq, or_self, ↓reduceIte, c1, hy.mpr hU, Nat.cast_ofNat]
    · have c2 : ¬ (y1 / z1 = y2 / z2) := fun h => hU (hy.mp h)
      rw [(opt_linefunc_vertical hz1 hzt hV hU).2]
      simp only [Ref@NS@.linefunc, reduceCtorEq, or_self, ↓reduceIte, c1, c2]
  · have c1 : x1 / z1 ≠ x2 / z2 := fun h => hV (hx.mp h)
    rw [(opt_linefunc_chord hz1 hz2 hzt hV).2]
    simp only [Ref@NS@.linefunc, reduceCtorEq, or_self, ↓reduceIte, c1, ne_eq, not_false_eq_true]

example : ((1 : ℚ), (2 : ℚ), (1 : ℚ)).2.2 ≠ 0 ∧ ((3 : ℚ), (5 : ℚ), (1 : ℚ)).2.2 ≠ 0 ∧
    ((7 : ℚ), (1 : ℚ), (2 : ℚ)).2.2 ≠ 0 ∧
    (Opt@NS@.linefunc ((1 : ℚ), (2 : ℚ), (1 : ℚ)) ((3 : ℚ), (5 : ℚ), (1 : ℚ)) ((7 : ℚ), (1 : ℚ), (2 : ℚ))).2 ≠ 0 := by
  norm_num [Opt@NS@.linefunc]

/-- Representative independence of `linefunc`: scaling each of the three operands by its own non-zero
    factor multiplies `num` and `den` by the same non-zero factor and selects the same branch, so
    `num / den` is unchanged (for all triples, no finiteness hypothesis). -/
theorem opt_linefunc_scale {a b c : F} (ha : a ≠ 0) (hb : b ≠ 0) (hc : c ≠ 0) (P1 P2 T : F × F × F) :
    (Opt@NS@.linefunc (scale a P1) (scale b P2) (scale c T)).1 /
        (Opt@NS@.linefunc (scale a P1) (scale b P2) (scale c T)).2 =
      (Opt@NS@.linefunc P1 P2 T).1 / (Opt@NS@.linefunc P1 P2 T).2 := by
  obtain ⟨x1, y1, z1⟩ := P1
  obtain ⟨x2, y2, z2⟩ := P2
  obtain ⟨xt, yt, zt⟩ := T
  have key : ∀ {k n d n' d' : F}, k ≠ 0 → n' = k * n → d' = k * d → n' / d' = n / d := by
    intro k n d n' d' hk hn hd; rw [hn, hd, mul_div_mul_left _ _ hk]
  have hab : a * b ≠ 0 := mul_ne_zero ha hb
  have eV : b * x2 * (a * z1) - a * x1 * (b * z2) = 0 ↔ x2 * z1 - x1 * z2 = 0 := by
    have : b * x2 * (a * z1) - a * x1 * (b * z2) = a * b * (x2 * z1 - x1 * z2) := by ring
    rw [this, mul_eq_zero, or_iff_right hab]
  have eU : b * y2 * (a * z1) - a * y1 * (b * z2) = 0 ↔ y2 * z1 - y1 * z2 = 0 := by
    have : b * y2 * (a * z1) - a * y1 * (b * z2) = a * b * (y2 * z1 - y1 * z2) := by ring
    rw [this, mul_eq_zero, or_iff_right hab]
  by_cases hV : x2 * z1 - x1 * z2 = 0
  · by_cases hU : y2 * z1 - y1 * z2 = 0
    · simp only [Opt@NS@.linefunc, scale_mk, ne_eq, eV.mpr hV, eU.mpr hU, hV, hU, not_true_eq_false,
        ↓reduceIte, Nat.cast_ofNat]
      exact key (k := a ^ 3 * c) (mul_ne_zero (pow_ne_zero 3 ha) hc) (by ring) (by ring)
    · simp only [Opt@NS@.linefunc, scale_mk, ne_eq, eV.mpr hV, mt eU.mp hU, hV, hU, not_true_eq_false,
        ↓reduceIte]
      exact key (k := a * c) (mul_ne_zero ha hc) (by ring) (by ring)
  · simp only [Opt@NS@.linefunc, scale_mk, ne_eq, mt eV.mp hV, hV, not_false_eq_true, ↓reduceIte]
    exact key (k := a ^ 2 * b * c) (mul_ne_zero (mul_ne_zero (pow_ne_zero 2 ha) hb) hc)
      (by ring) (by ring)

end PyEcc.C13.@NS@
