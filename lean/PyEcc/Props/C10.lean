/-
  PyEcc.Props.C10 — property C10, G1 half: `optimized_swu_G1` of
  `py_ecc/optimized_bls12_381/optimized_swu.py` (model: `optimizedSwuG1`, `sqrtDivisionFq` in
  `PyEcc/Model/Swu.lean`) IS the simplified SWU map of RFC 9380 §6.6.2 for the curve
  `E' : y² = x³ + A'x + B'` 11-isogenous to BLS12-381 G1, with `Z = 11` (§8.8.1) — for EVERY input
  `t`, exceptional inputs included, no hypotheses.

  The statements read the model's `FQ` objects through `Fq.toZMod : Fq blsP → ZMod blsP` (the bridge
  of `Sem/FqZMod.lean`), and the constants are RFC 9380's literals `Spec.H2C.iso11A/B/Z`.
  With `(N, Y, D) = optimized_swu_G1(t)` the affine point is `(x, y) = (N/D, Y/D)`.

  Proofs: `Lemmas/SwuAux.lean` (generic algebra, Euler's criterion, `sqrt_division_FQ`),
  `Lemmas/SwuG1.lean` (the map), `Lemmas/SwuNoRoot.lean` (`g` has no root in `Fp`, so `y ≠ 0`).
  Not covered here: the G2 map `optimized_swu_G2` (needs `Fp²` as a field), the isogeny maps, and
  the subgroup membership of the result.
-/
import PyEcc.Lemmas.SwuNoRoot
import PyEcc.Spec.Standards

set_option maxRecDepth 100000

namespace PyEcc.C10
open PyEcc.Spec PyEcc.SwuSem Gen.Consts
open Fq (toZMod)

local notation "A'" => ((Spec.H2C.iso11A : ℕ) : ZMod blsP)
local notation "B'" => ((Spec.H2C.iso11B : ℕ) : ZMod blsP)
local notation "Z'" => ((Spec.H2C.iso11Z : ℕ) : ZMod blsP)

/-- The three constants of the G1 SSWU map in `optimized_bls12_381/constants.py` are RFC 9380
    §8.8.1's `A'`, `B'`, `Z = 11` (as residues mod `p`). -/
theorem iso11_consts :
    toZMod ISO_11_A = A' ∧ toZMod ISO_11_B = B' ∧ toZMod ISO_11_Z = Z' := by
  have hA : h2c_ISO_11_A = Spec.H2C.iso11A := by decide +kernel
  have hB : h2c_ISO_11_B = Spec.H2C.iso11B := by decide +kernel
  have hZ : h2c_ISO_11_Z = Spec.H2C.iso11Z := by decide +kernel
  refine ⟨?_, ?_, ?_⟩
  · show toZMod (Fq.ofInt ((h2c_ISO_11_A : ℕ) : ℤ)) = _
    rw [Fq.toZMod_ofInt, Int.cast_natCast, hA]
  · show toZMod (Fq.ofInt ((h2c_ISO_11_B : ℕ) : ℤ)) = _
    rw [Fq.toZMod_ofInt, Int.cast_natCast, hB]
  · show toZMod (Fq.ofInt ((h2c_ISO_11_Z : ℕ) : ℤ)) = _
    rw [Fq.toZMod_ofInt, Int.cast_natCast, hZ]

/-- **`sqrt_division_FQ(u, v)` is correct** for every `u` and every `v ≠ 0` (uses `p ≡ 3 mod 4` and
    Euler's criterion): it returns `(True, r)` exactly when `u/v` is a square in `Fp`, and then
    `r² = u/v`; otherwise it returns `(False, r)` with `r² = −u/v`. -/
theorem sqrt_division_FQ_correct (u v : F1) (hv : v ≠ 0) :
    ((sqrtDivisionFq u v).1 = true ↔ IsSquare (toZMod u / toZMod v)) ∧
    ((sqrtDivisionFq u v).1 = true → toZMod (sqrtDivisionFq u v).2 ^ 2 = toZMod u / toZMod v) ∧
    ((sqrtDivisionFq u v).1 = false → toZMod (sqrtDivisionFq u v).2 ^ 2 = -(toZMod u / toZMod v)) := by
  have hv' : toZMod v ≠ 0 := mt toZMod_eq_zero.mp hv
  refine ⟨?_, ?_, ?_⟩
  · rw [sqrtDiv_true_iff u v hv, ← Fq.toZMod_div, isSquare_toZMod]
  · intro h
    rcases sqrtDiv_spec u v hv with ⟨_, h2, _⟩ | ⟨h1, _, _⟩
    · rw [eq_div_iff hv', ← Fq.toZMod_pow, ← Fq.toZMod_mul, h2]
    · rw [h] at h1; exact absurd h1 (by decide)
  · intro h
    rcases sqrtDiv_spec u v hv with ⟨h1, _, _⟩ | ⟨_, h2, _⟩
    · rw [h] at h1; exact absurd h1 (by decide)
    · rw [← neg_div, eq_div_iff hv', ← Fq.toZMod_pow, ← Fq.toZMod_mul, h2, Fq.toZMod_neg]

example : (1 : F1) ≠ 0 := by decide +kernel

/-- **C10, summary (G1): `optimized_swu_G1` = RFC 9380 `map_to_curve_simple_swu`.**  For every field
    element `t`, with `(N, Y, D) = optimized_swu_G1(t)`: the affine point `(N/D, Y/D)` is related to
    `t` by the specification `Spec.IsSswu` of RFC 9380 §6.6.2 with the constants `A'`, `B'`, `Z = 11`
    of §8.8.1 and `sgn0` of §4.1: its `x` is the RFC's `x1` if `g(x1)` is a square and `x2 = Z t² x1`
    otherwise, `y² = g(x)`, and `y` has the sign of `t`.  (`Spec.IsSswu` determines `(x, y)` uniquely:
    `SwuSem.IsSswu.unique`.) -/
theorem swu_G1_is_sswu (t : F1) :
    Spec.IsSswu Spec.sgn0Fp A' B' Z' (toZMod t)
      (toZMod (optimizedSwuG1 t).1 / toZMod (optimizedSwuG1 t).2.2)
      (toZMod (optimizedSwuG1 t).2.1 / toZMod (optimizedSwuG1 t).2.2) := by
  have h := SwuSem.IsSswu.map_equiv Fq.ringEquiv Fq.sgn0 Spec.sgn0Fp
    (fun y => (sgn0_eq_spec y).symm) (optimizedSwuG1_isSswu t).2
  simp only [Fq.ringEquiv_apply, Fq.toZMod_div] at h
  rw [iso11_consts.1, iso11_consts.2.1, iso11_consts.2.2] at h
  exact h

/-- **C10 (G1): the returned denominator is non-zero and the point is on the isogenous curve.**
    For every `t`, `optimized_swu_G1(t) = (N, Y, D)` has `D ≠ 0`, and `(x, y) = (N/D, Y/D)` satisfies
    `y² = x³ + A'x + B'` — in the first branch because the code checks `r²·v = u` before accepting,
    in the second by Euler's criterion, `SQRT_MINUS_11_CUBED² = −Z³` and the SSWU identity. -/
theorem swu_G1_on_iso_curve (t : F1) :
    (optimizedSwuG1 t).2.2 ≠ 0 ∧ toZMod (optimizedSwuG1 t).2.2 ≠ 0 ∧
    (toZMod (optimizedSwuG1 t).2.1 / toZMod (optimizedSwuG1 t).2.2) ^ 2 =
      (toZMod (optimizedSwuG1 t).1 / toZMod (optimizedSwuG1 t).2.2) ^ 3
        + A' * (toZMod (optimizedSwuG1 t).1 / toZMod (optimizedSwuG1 t).2.2) + B' := by
  have hD := (optimizedSwuG1_isSswu t).1
  refine ⟨hD, mt toZMod_eq_zero.mp hD, ?_⟩
  rcases (swu_G1_is_sswu t).1 with ⟨_, _, h⟩ | ⟨_, _, h⟩ <;> exact h

/-- **C10 (G1): the `x`-coordinate is the RFC's, and the branch is the RFC's.**  If `g(x1)` is a
    square in `Fp` then `N/D = x1`, otherwise `N/D = x2 = Z·t²·x1`, where
    `x1 = (−B'/A')(1 + inv0(Z²t⁴ + Zt²))`, replaced by `B'/(Z·A')` when `Z²t⁴ + Zt² = 0`
    (`Spec.sswuX1`, RFC 9380 §6.6.2 steps 1–3). -/
theorem swu_G1_x_is_rfc (t : F1) :
    (IsSquare (sswuG A' B' (sswuX1 A' B' Z' (toZMod t))) →
      toZMod (optimizedSwuG1 t).1 / toZMod (optimizedSwuG1 t).2.2 = sswuX1 A' B' Z' (toZMod t)) ∧
    (¬ IsSquare (sswuG A' B' (sswuX1 A' B' Z' (toZMod t))) →
      toZMod (optimizedSwuG1 t).1 / toZMod (optimizedSwuG1 t).2.2
        = Z' * toZMod t ^ 2 * sswuX1 A' B' Z' (toZMod t)) := by
  rcases (swu_G1_is_sswu t).1 with ⟨h1, h2, _⟩ | ⟨h1, h2, _⟩
  · exact ⟨fun _ => h2, fun h => absurd h1 h⟩
  · exact ⟨fun h => absurd h h1, fun _ => h2⟩

/-- **C10 (G1): the code takes the first branch exactly when the RFC does.**  The flag `is_root`
    returned by `sqrt_division_FQ(u, v)` inside `optimized_swu_G1(t)` (`SwuSem.swuOk t`; the
    intermediate values are named in `Lemmas/SwuShape.lean`, tied to the model by
    `SwuSem.optimizedSwuG1_eq`) is `True` iff `g(x1)` is a square in `Fp` (RFC step 7). -/
theorem swu_G1_branch_iff (t : F1) :
    swuOk t = true ↔ IsSquare (sswuG A' B' (sswuX1 A' B' Z' (toZMod t))) := by
  rw [swuOk_iff, ← isSquare_toZMod, ← Fq.ringEquiv_apply, map_sswuG, map_sswuX1]
  simp only [Fq.ringEquiv_apply]
  rw [iso11_consts.1, iso11_consts.2.1, iso11_consts.2.2]

/-- **C10 (G1): exceptional inputs.**  If `Z²t⁴ + Zt² = 0` — in particular for `t = 0` — the code
    replaces its zero denominator by `Z·A'` and returns the point with `x = B'/(Z·A')`, RFC 9380's
    exceptional-case value (and `g` of it is a square, so this is the RFC's output). -/
theorem swu_G1_exceptional (t : F1) (h : Z' ^ 2 * toZMod t ^ 4 + Z' * toZMod t ^ 2 = 0) :
    toZMod (optimizedSwuG1 t).1 / toZMod (optimizedSwuG1 t).2.2 = B' / (Z' * A') ∧
    IsSquare (sswuG A' B' (B' / (Z' * A'))) := by
  have hx1 := sswuX1_of_eq A' B' Z' (toZMod t) h
  have hT : swuT t = 0 := by
    apply Fq.toZMod_injective
    rw [swuT_eq, Fq.toZMod_zero, ← h]
    simp only [Fq.toZMod_add, Fq.toZMod_mul, Fq.toZMod_pow, iso11_consts.2.2]
  have hsq := (swu_G1_branch_iff t).mp (swuOk_of_T_eq t hT)
  rw [hx1] at hsq
  exact ⟨by rw [← hx1]; exact (swu_G1_x_is_rfc t).1 (by rw [hx1]; exact hsq), hsq⟩

example : Z' ^ 2 * toZMod (0 : F1) ^ 4 + Z' * toZMod (0 : F1) ^ 2 = 0 := by
  rw [Fq.toZMod_zero]; ring

/-- **C10 (G1): `y` is never zero.**  The isogenous curve has no point with `y = 0`
    (`x³ + A'x + B'` has no root in `Fp`; kernel computation of `x^p mod g`). -/
theorem swu_G1_y_ne_zero (t : F1) :
    toZMod (optimizedSwuG1 t).2.1 / toZMod (optimizedSwuG1 t).2.2 ≠ 0 := by
  rw [← Fq.toZMod_div, optimizedSwuG1_y]
  exact mt toZMod_eq_zero.mp (swuY_ne t)

/-- **C10 (G1): sign.**  `sgn0(y) = sgn0(t)` for every `t`, both for RFC 9380's `sgn0` of the residue
    classes and for the library's own `FQ.sgn0` applied to `Y / D` computed with `FQ.__truediv__`. -/
theorem swu_G1_sgn0 (t : F1) :
    Spec.sgn0Fp (toZMod (optimizedSwuG1 t).2.1 / toZMod (optimizedSwuG1 t).2.2) = Spec.sgn0Fp (toZMod t) ∧
    ((optimizedSwuG1 t).2.1 / (optimizedSwuG1 t).2.2).sgn0 = t.sgn0 := by
  have h := swuY_sgn0_eq t
  rw [← optimizedSwuG1_y] at h
  exact ⟨by rw [← Fq.toZMod_div, ← sgn0_eq_spec, ← sgn0_eq_spec, h], h⟩

/-- **C10 (G1): equality with the straight-line RFC procedure.**  For every correct square-root
    function `sqrt` on `Fp` (one that returns *a* root of each square), the affine point computed by
    `optimized_swu_G1(t)` equals the output of RFC 9380 §6.6.2 `map_to_curve_simple_swu(t)`
    (`Spec.mapToCurveSimpleSwu`, steps 1–10 verbatim) — whichever root `sqrt` picks, step 9 fixes the
    sign. -/
theorem swu_G1_eq_rfc_function (sqrt : ZMod blsP → ZMod blsP)
    (hsqrt : ∀ a, IsSquare a → sqrt a ^ 2 = a) (t : F1) :
    (toZMod (optimizedSwuG1 t).1 / toZMod (optimizedSwuG1 t).2.2,
      toZMod (optimizedSwuG1 t).2.1 / toZMod (optimizedSwuG1 t).2.2)
      = Spec.mapToCurveSimpleSwu Spec.sgn0Fp sqrt A' B' Z' (toZMod t) := by
  have hsgn : ∀ y : ZMod blsP, y ≠ 0 → Spec.sgn0Fp (-y) ≠ Spec.sgn0Fp y := by
    intro y hy
    have h := sgn0_neg_ne (Fq.ofZMod y) (by
      intro h0; apply hy; rw [← Fq.toZMod_ofZMod y, h0, Fq.toZMod_zero])
    rwa [sgn0_eq_spec, sgn0_eq_spec, Fq.toZMod_neg, Fq.toZMod_ofZMod] at h
  have hsgn01 : ∀ y : ZMod blsP, Spec.sgn0Fp y < 2 := fun y => Nat.mod_lt _ (by decide)
  have hcode := swu_G1_is_sswu t
  have hx2 : ¬ IsSquare (sswuG A' B' (sswuX1 A' B' Z' (toZMod t))) →
      IsSquare (sswuG A' B' (sswuX2 A' B' Z' (toZMod t))) := by
    intro hns
    rcases hcode.1 with ⟨h1, _, _⟩ | ⟨_, h2, h3⟩
    · exact absurd h1 hns
    · rw [← h2, ← h3, sq]; exact IsSquare.mul_self _
  have hspec := mapToCurveSimpleSwu_isSswu Spec.sgn0Fp sqrt A' B' Z' (toZMod t) hsqrt hsgn hsgn01 hx2
  have := SwuSem.IsSswu.unique Spec.sgn0Fp A' B' Z' (toZMod t) _ _ _ _ hsgn hcode hspec
  exact Prod.ext this.1 this.2

/-- a correct square-root function on `Fp` exists (non-vacuity of the hypothesis above) -/
example : ∃ sqrt : ZMod blsP → ZMod blsP, ∀ a, IsSquare a → sqrt a ^ 2 = a := by
  classical
  refine ⟨fun a => if h : IsSquare a then h.choose else 0, fun a h => ?_⟩
  simp only [h, dif_pos]
  rw [sq]; exact h.choose_spec.symm

end PyEcc.C10
