/-
  PyEcc.Props.C10_Iso — property C10, the isogeny leg: `iso_map_G1` (11-isogeny `E1' → E1`) and
  `iso_map_G2` (3-isogeny `E2' → E2`) of `py_ecc/optimized_bls12_381/optimized_swu.py` (model:
  `isoMapG1`, `isoMapG2`, `isoHorner`, `zPowersOf` in `PyEcc/Model/Swu.lean`; coefficient tables
  `Gen.Consts.h2c_ISO_11_MAP_COEFFICIENTS`, `h2c_ISO_3_MAP_COEFFICIENTS`, regenerated from the Python
  source on every run) map EVERY point of the isogenous curve to a point of the target curve, hence
  `map_to_curve_G1` / `map_to_curve_G2` (SWU followed by the isogeny) always land on
  `E1 : y² = x³ + 4` resp. `E2 : y² = x³ + 4(1+i)`.

  The mathematical content is the polynomial identity
      `(x³ + A'x + B')·yn(x)²·xd(x)³ = (xn(x)³ + b·xd(x)³)·yd(x)²`
  between the four coefficient lists `xn, xd, yn, yd` of each table (degree 63 for G1, 15 for G2,
  381-bit coefficients).  It is proved by reflection: the two sides are multiplied out on coefficient
  lists over `ℤ` (G1) resp. `ℤ[i]` (G2) by the kernel and compared modulo `p`
  (`IsoSem.check11_true`, `IsoSem.check3_true`; `decide +kernel`, no axioms), and list arithmetic is
  proved once to evaluate to ring arithmetic (`Lemmas/PolyList.lean`).  The Horner loop of the Python
  code is shown to compute the homogenisation `z^deg·k(x/z)` (`IsoSem.isoHorner_eq`).

  Proofs: `Lemmas/PolyList.lean`, `Lemmas/IsoG1.lean`, `Lemmas/IsoG2.lean`.
  Not covered: that the maps are group homomorphisms (not needed for `hash_good`: cofactor clearing
  acts on the sum of two arbitrary curve points), and that the coefficient tables are literally
  those of RFC 9380 Appendix E (they are tied to the Python source by the translator).
-/
import PyEcc.Lemmas.IsoG2
import PyEcc.Props.C10
import PyEcc.Props.C10_G2
import PyEcc.Props.C10_Struct
import PyEcc.Lemmas.BlsProto
import PyEcc.Sem.TransferFq

set_option maxRecDepth 100000

namespace PyEcc.C10Iso
open PyEcc PyEcc.Gen PyEcc.Gen.Consts PyEcc.IsoSem

local notation "A'" => ((Spec.H2C.iso11A : ℕ) : ZMod blsP)
local notation "B'" => ((Spec.H2C.iso11B : ℕ) : ZMod blsP)

/-! ## G1: the 11-isogeny -/

/-- **C10 (G1 isogeny): `iso_map_G1` maps `E1'` into `E1`.**  For every projective input
    `(X : Y : Z)` with `Z ≠ 0` whose affine point `(X/Z, Y/Z)` lies on the 11-isogenous curve
    `y² = x³ + A'x + B'` (RFC 9380 §8.8.1 constants, residues mod `p`), the triple returned by
    `iso_map_G1(X, Y, Z)` passes the library's own `is_on_curve(·, b)` with `b = 4`: it is the point
    at infinity (`Z₃ = 0`) or satisfies `Y₃²·Z₃ − X₃³ = 4·Z₃³`. -/
theorem iso_map_G1_on_curve (X Y Z : F1) (hZ : Z ≠ 0)
    (h : (Fq.toZMod Y / Fq.toZMod Z) ^ 2 = (Fq.toZMod X / Fq.toZMod Z) ^ 3 + A' * (Fq.toZMod X / Fq.toZMod Z) + B') :
    OptBls.is_on_curve (isoMapG1 X Y Z) blsB = true := by
  have h' : (Y / Z) ^ 2 = (X / Z) ^ 3 + ISO_11_A * (X / Z) + ISO_11_B := by
    apply Fq.toZMod_injective
    simp only [Fq.toZMod_pow, Fq.toZMod_div, Fq.toZMod_add, Fq.toZMod_mul]
    rw [C10.iso11_consts.1, C10.iso11_consts.2.1]
    exact h
  unfold OptBls.is_on_curve
  split
  · rfl
  · rw [decide_eq_true_eq]
    exact isoMapG1_proj X Y Z hZ h'

/-- non-vacuity: the SWU output for `t = 0` is such an input (and, by `C10.swu_G1_on_iso_curve`,
    so is the SWU output for every `t`) -/
example : ∃ X Y Z : F1, Z ≠ 0 ∧
    (Fq.toZMod Y / Fq.toZMod Z) ^ 2 = (Fq.toZMod X / Fq.toZMod Z) ^ 3 + A' * (Fq.toZMod X / Fq.toZMod Z) + B' :=
  ⟨_, _, _, (C10.swu_G1_on_iso_curve 0).1, (C10.swu_G1_on_iso_curve 0).2.2⟩

/-- **C10 (G1 isogeny), affine reading.**  Under the same hypotheses the output `(X₃, Y₃, Z₃)` of
    `iso_map_G1` is the point at infinity (`Z₃ = 0`) or its affine point satisfies
    `(Y₃/Z₃)² = (X₃/Z₃)³ + 4` in `Fp`. -/
theorem iso_map_G1_affine (X Y Z : F1) (hZ : Z ≠ 0)
    (h : (Fq.toZMod Y / Fq.toZMod Z) ^ 2 = (Fq.toZMod X / Fq.toZMod Z) ^ 3 + A' * (Fq.toZMod X / Fq.toZMod Z) + B') :
    (isoMapG1 X Y Z).2.2 = 0 ∨
    (Fq.toZMod (isoMapG1 X Y Z).2.1 / Fq.toZMod (isoMapG1 X Y Z).2.2) ^ 2 =
      (Fq.toZMod (isoMapG1 X Y Z).1 / Fq.toZMod (isoMapG1 X Y Z).2.2) ^ 3 + 4 := by
  by_cases h0 : (isoMapG1 X Y Z).2.2 = 0
  · exact Or.inl h0
  · right
    have h' : (Y / Z) ^ 2 = (X / Z) ^ 3 + ISO_11_A * (X / Z) + ISO_11_B := by
      apply Fq.toZMod_injective
      simp only [Fq.toZMod_pow, Fq.toZMod_div, Fq.toZMod_add, Fq.toZMod_mul]
      rw [C10.iso11_consts.1, C10.iso11_consts.2.1]
      exact h
    have hp := congrArg Fq.toZMod (isoMapG1_proj X Y Z hZ h')
    simp only [Fq.toZMod_pow, Fq.toZMod_sub, Fq.toZMod_mul] at hp
    have hb : Fq.toZMod blsB = 4 := by
      show Fq.toZMod (Fq.ofInt ((4 : ℕ) : ℤ)) = 4
      rw [Fq.toZMod_ofInt]; norm_num
    rw [hb] at hp
    have hz3 : Fq.toZMod (isoMapG1 X Y Z).2.2 ≠ 0 := fun e => h0 (Fq.toZMod_injective (e.trans Fq.toZMod_zero.symm))
    field_simp
    linear_combination hp

/-- **C10 (G1 isogeny): `iso_map_G1` is the rational map given by its coefficient table.**  For
    `Z ≠ 0` and `w = X/Z`, with `xn, xd, yn, yd` the polynomials whose coefficient lists (constant
    term first) are the four entries of `ISO_11_MAP_COEFFICIENTS` (`IsoSem.ev IsoSem.fZ (IsoSem.iso11 i)`,
    degrees 11, 10, 15, 15): the output `(X₃, Y₃, Z₃)` has `Z₃ = Z²⁷·xd(w)·yd(w)` — so it is the point
    at infinity exactly on the kernel `xd(w)·yd(w) = 0` — and otherwise
    `X₃/Z₃ = xn(w)/xd(w)` and `Y₃/Z₃ = (Y/Z)·yn(w)/yd(w)` (RFC 9380 Appendix E.2's shape). -/
theorem iso_map_G1_rational (X Y Z : F1) (hZ : Z ≠ 0) :
    ((isoMapG1 X Y Z).2.2 = 0 ↔ ev fZ (iso11 1) (X / Z) * ev fZ (iso11 3) (X / Z) = 0) ∧
    ((isoMapG1 X Y Z).2.2 ≠ 0 →
      (isoMapG1 X Y Z).1 / (isoMapG1 X Y Z).2.2 = ev fZ (iso11 0) (X / Z) / ev fZ (iso11 1) (X / Z) ∧
      (isoMapG1 X Y Z).2.1 / (isoMapG1 X Y Z).2.2 =
        (Y / Z) * ev fZ (iso11 2) (X / Z) / ev fZ (iso11 3) (X / Z)) := by
  rw [isoMapG1_closed X Y Z hZ]
  have e : (Z ^ 10 * ev fZ (iso11 1) (X / Z) * Z) * (Z ^ 15 * ev fZ (iso11 3) (X / Z) * Z)
      = Z ^ 27 * (ev fZ (iso11 1) (X / Z) * ev fZ (iso11 3) (X / Z)) := by ring
  constructor
  · show _ * _ = 0 ↔ _
    rw [e, mul_eq_zero]
    exact ⟨fun h => h.resolve_left (pow_ne_zero 27 hZ), Or.inr⟩
  · intro hne
    have hne' : ev fZ (iso11 1) (X / Z) * ev fZ (iso11 3) (X / Z) ≠ 0 := by
      intro h0
      apply hne
      show _ * _ = 0
      rw [e, h0, mul_zero]
    have h1 := left_ne_zero_of_mul hne'
    have h3 := right_ne_zero_of_mul hne'
    constructor
    · show _ * _ / (_ * _) = _
      field_simp
    · show _ * _ / (_ * _) = _
      field_simp

/-- **C10 (G1): `map_to_curve_G1` lands on the curve, for every field element.**
    `map_to_curve_G1(t)` — `optimized_swu_G1` followed by `iso_map_G1`, as `hash_to_G1` calls it — returns,
    for EVERY `t ∈ Fp` (exceptional inputs included), a triple accepted by `is_on_curve(·, b)`: a point
    of BLS12-381 `E1 : y² = x³ + 4` (possibly the point at infinity). -/
theorem map_to_curve_G1_on_curve (t : F1) : OptBls.is_on_curve (mapToCurveG1 t) blsB = true := by
  have hs := C10.swu_G1_on_iso_curve t
  rw [C10.mapToCurveG1_eq]
  exact iso_map_G1_on_curve _ _ _ hs.1 hs.2.2

/-- the statement is not only about the point at infinity: e.g. `map_to_curve_G1(1)` is a finite point -/
example : OptBls.is_inf (mapToCurveG1 (f1c 1)) = false := by decide +kernel

/-- **C10 (G1): `hash_to_G1` returns a curve point.**  Whatever hash function, message and DST:
    if `hash_to_G1` returns a triple, it passes `is_on_curve(·, b)` (SWU + isogeny land on `E1`, and
    `add` / `clear_cofactor_G1 = multiply(·, H_EFF_G1)` preserve the curve). -/
theorem hash_to_G1_on_curve (H : HashFn) (msg dst : Bytes) (P : F1 × F1 × F1)
    (h : hashToG1 H msg dst = .ok P) : OptBls.is_on_curve P blsB = true := by
  unfold hashToG1 at h
  obtain ⟨us, hus, h2⟩ := BlsSem.bind_ok h
  clear hus h
  split at h2
  · next u0 u1 =>
    have e : P = clearCofactorG1 (OptBls.add (mapToCurveG1 (f1c u0)) (mapToCurveG1 (f1c u1))) :=
      (Except.ok.inj h2).symm
    obtain ⟨p0, r0⟩ := (Transfer.on_curve_iff_F1 _).mp (map_to_curve_G1_on_curve (f1c u0))
    obtain ⟨p1, r1⟩ := (Transfer.on_curve_iff_F1 _).mp (map_to_curve_G1_on_curve (f1c u1))
    rw [e]
    exact (Transfer.on_curve_iff_F1 _).mpr
      ⟨_, Transfer.opt_multiply_refines_F1 (Transfer.opt_add_refines_F1 r0 r1) h2c_H_EFF_G1⟩
  · cases h2

/-! ## G2: the 3-isogeny -/

open PyEcc.Fqp PyEcc.FqpSem PyEcc.Swu2 in
/-- **C10 (G2 isogeny): `iso_map_G2` maps `E2'` into `E2`.**  For reduced `FQ2` inputs `X, Y, Z`
    (two coefficients in `[0, p)` each, `Canon`) with `Z ≠ 0` whose affine point `(X/Z, Y/Z)` — values
    in `K2 = Fp[i]` through `q = toQ` — lies on the 3-isogenous curve `y² = x³ + 240i·x + 1012(1+i)`
    (RFC 9380 §8.8.2), the triple returned by `iso_map_G2(X, Y, Z)` consists of reduced elements and
    passes `is_on_curve(·, b2)`, `b2 = 4(1+i)`: it is the point at infinity or on `E2`. -/
theorem iso_map_G2_on_curve (X Y Z : F2) (hX : Canon X) (hY : Canon Y) (hZc : Canon Z)
    (hZ : q Z ≠ 0) (h : (q Y / q Z) ^ 2 = (q X / q Z) ^ 3 + kA * (q X / q Z) + kB) :
    Transfer.CanonT (isoMapG2 X Y Z) ∧ OptBls.is_on_curve (isoMapG2 X Y Z) blsB2 = true :=
  isoMapG2_on_curve X Y Z hX hY hZc hZ h

open PyEcc.Fqp PyEcc.FqpSem PyEcc.Swu2 in
/-- non-vacuity: the SWU output for `t = 1 + i` is such an input -/
example : ∃ X Y Z : F2, Canon X ∧ Canon Y ∧ Canon Z ∧ q Z ≠ 0 ∧
    (q Y / q Z) ^ 2 = (q X / q Z) ^ 3 + kA * (q X / q Z) + kB := by
  have ht : Canon (f2c [1, 1]) := cn_f2c (a := 1) (b := 1) (by decide) (by decide)
  have h := C10G2.swu_G2_on_iso_curve _ ht _ _ _ (C10G2.swu_G2_total _ ht)
  exact ⟨_, _, _, h.1, h.2.1, h.2.2.1, h.2.2.2.2.1, h.2.2.2.2.2⟩

open PyEcc.Fqp PyEcc.FqpSem PyEcc.Swu2 in
/-- **C10 (G2 isogeny): `iso_map_G2` is the rational map given by its coefficient table.**  For
    reduced inputs with `Z ≠ 0` and `w = X/Z` in `K2`, with `xn, xd, yn, yd` the polynomials whose
    coefficient lists are the four entries of `ISO_3_MAP_COEFFICIENTS` (`IsoSem.ev IsoSem.fG
    (IsoSem.iso3 i)`): `Z₃ = Z⁷·xd(w)·yd(w)` and, when this is non-zero,
    `X₃/Z₃ = xn(w)/xd(w)` and `Y₃/Z₃ = (Y/Z)·yn(w)/yd(w)`. -/
theorem iso_map_G2_rational (X Y Z : F2) (hX : Canon X) (hY : Canon Y) (hZc : Canon Z)
    (hZ : q Z ≠ 0) :
    q (isoMapG2 X Y Z).2.2 = q Z ^ 7 * (ev fG (iso3 1) (q X / q Z) * ev fG (iso3 3) (q X / q Z)) ∧
    (q (isoMapG2 X Y Z).2.2 ≠ 0 →
      q (isoMapG2 X Y Z).1 / q (isoMapG2 X Y Z).2.2 =
        ev fG (iso3 0) (q X / q Z) / ev fG (iso3 1) (q X / q Z) ∧
      q (isoMapG2 X Y Z).2.1 / q (isoMapG2 X Y Z).2.2 =
        (q Y / q Z) * ev fG (iso3 2) (q X / q Z) / ev fG (iso3 3) (q X / q Z)) := by
  have hw : q X = (q X / q Z) * q Z := (div_mul_cancel₀ (q X) hZ).symm
  obtain ⟨rX, rY, rZ⟩ := isoMapG2_rq X Y Z hX hY hZc _ hw
  have e : q (isoMapG2 X Y Z).2.2
      = q Z ^ 7 * (ev fG (iso3 1) (q X / q Z) * ev fG (iso3 3) (q X / q Z)) := by
    rw [rZ.2]; ring
  refine ⟨e, fun hne => ?_⟩
  have hne' : ev fG (iso3 1) (q X / q Z) * ev fG (iso3 3) (q X / q Z) ≠ 0 := by
    intro h0; apply hne; rw [e, h0, mul_zero]
  have h1 := left_ne_zero_of_mul hne'
  have h3 := right_ne_zero_of_mul hne'
  rw [rX.2, rY.2, rZ.2]
  constructor <;> field_simp

open PyEcc.Fqp PyEcc.FqpSem PyEcc.Swu2 in
/-- **C10 (G2): `map_to_curve_G2` lands on the curve, for every reduced field element.**  For every
    `t = a + b·i` with `0 ≤ a, b < p`, `map_to_curve_G2(t)` — `optimized_swu_G2` followed by
    `iso_map_G2` — returns (it never raises: `C10G2.swu_G2_total`) a triple of reduced elements accepted
    by `is_on_curve(·, b2)`: a point of `E2 : y² = x³ + 4(1+i)` (possibly the point at infinity). -/
theorem map_to_curve_G2_on_curve (t : F2) (ht : Canon t) :
    ∃ Q, mapToCurveG2 t = .ok Q ∧ Transfer.CanonT Q ∧ OptBls.is_on_curve Q blsB2 = true := by
  obtain ⟨N, Y, D, hs⟩ : ∃ N Y D, optimizedSwuG2 t = .ok (N, Y, D) :=
    ⟨_, _, _, C10G2.swu_G2_total t ht⟩
  obtain ⟨hN, hY, hD, _, hD0, hc⟩ := C10G2.swu_G2_on_iso_curve t ht N Y D hs
  refine ⟨isoMapG2 N Y D, ?_, isoMapG2_on_curve N Y D hN hY hD hD0 hc⟩
  rw [C10.mapToCurveG2_eq, hs]
  rfl

example : PyEcc.FqpSem.Canon (f2c [3, 5]) := Swu2.cn_f2c (a := 3) (b := 5) (by decide) (by decide)

/-- **HT6, first half discharged.**  Exactly the hypothesis `hmap` of
    `BlsProto.hash_good_of_map_and_order`: on every `a + b·i`, `0 ≤ a, b < p`, whatever
    `map_to_curve_G2` returns is a well-formed (reduced) triple on the twist curve. -/
theorem map_to_curve_G2_good : ∀ a b : ℕ, a < blsP → b < blsP → ∀ Q : G2Pt,
    mapToCurveG2 (f2c [(a : ℤ), (b : ℤ)]) = .ok Q →
      Transfer.CanonT Q ∧ OptBls.is_on_curve Q blsB2 = true := by
  intro a b ha hb Q hQ
  obtain ⟨Q', hQ', hc⟩ := map_to_curve_G2_on_curve _ (Swu2.cn_f2c ha hb)
  rw [hQ'] at hQ
  cases hQ
  exact hc

example : (5 : ℕ) < blsP := by decide

/-- **C10 (G2): `hash_to_G2` returns a reduced curve point**, whatever hash function, message and
    DST (no hypothesis): SWU + isogeny land on `E2`, and `add` / `clear_cofactor_G2` preserve reduced
    triples on the curve. -/
theorem hash_to_G2_on_curve (H : HashFn) (msg dst : Bytes) (Q : G2Pt)
    (h : hashToG2 H msg dst = .ok Q) :
    Transfer.CanonT Q ∧ OptBls.is_on_curve Q blsB2 = true := by
  unfold hashToG2 at h
  obtain ⟨us, hus, h2⟩ := BlsSem.bind_ok h
  have hr := BlsSem.hashToFieldFq2_ok_range hus
  split at h2
  · next u0 u1 =>
    obtain ⟨q0, hq0, h3⟩ := BlsSem.bind_ok h2
    obtain ⟨q1, hq1, h4⟩ := BlsSem.bind_ok h3
    have e : Q = clearCofactorG2 (OptBls.add q0 q1) := (Except.ok.inj h4).symm
    have r0 := hr u0 (by simp)
    have r1 := hr u1 (by simp)
    obtain ⟨c0, on0⟩ := map_to_curve_G2_good u0.1 u0.2 r0.1 r0.2 q0 hq0
    obtain ⟨c1, on1⟩ := map_to_curve_G2_good u1.1 u1.2 r1.1 r1.2 q1 hq1
    classical
    obtain ⟨p0, rp0⟩ := (Transfer.on_curve_iff_F2 c0).mp on0
    obtain ⟨p1, rp1⟩ := (Transfer.on_curve_iff_F2 c1).mp on1
    have ca := (Transfer.canonT_ops c0 c1 0).1
    have ra := Transfer.opt_add_refines_F2 c0 c1 rp0 rp1
    obtain ⟨cc, rc⟩ := Transfer.clearCofactorG2_refines ca ra
    rw [e]
    exact ⟨cc, (Transfer.on_curve_iff_F2 cc).mpr ⟨_, rc⟩⟩
  · cases h2

/-- **HT6 reduced to the group order.**  The `hash_good` field of `BlsProto.PairingFacts` — every
    result of `hash_to_G2` is a reduced triple on the twist curve that passes `subgroup_check` — now
    follows from the single hypothesis [HB2] that `h₂·r` kills every point of `E2(Fp²)` (the group
    order; needs point counting): the `map_to_curve` half is `map_to_curve_G2_good`. -/
theorem hash_good_of_order [DecidableEq Transfer.K2]
    (hord : ∀ P : BlsProto.E2, (blsconst_G2_COFACTOR * blsR) • P = 0)
    (H : HashFn) (msg dst : Bytes) (mp : G2Pt) (h : hashToG2 H msg dst = .ok mp) :
    Transfer.CanonT mp ∧ OptBls.is_on_curve mp blsB2 = true ∧ subgroupCheck mp = true :=
  BlsProto.hash_good_of_map_and_order map_to_curve_G2_good hord H msg dst mp h

end PyEcc.C10Iso
