/-
  PyEcc.Props.C07_Twist — property C07, stage 2, BLS12-381: **`twist` is an injective group homomorphism
  from the curve `E'(Fp²) : y² = x³ + 4(1+i)` into the curve `E(Fp¹²) : y² = x³ + 4`**, for the executable
  model of both modules:

    * `twistOptBls` (`py_ecc/optimized_bls12_381/optimized_pairing.py::twist`, projective:
      `(x : y : z) ↦ (ψ(x)·w : ψ(y) : ψ(z)·w³)`, coefficients placed at shifted positions), and
    * `twistRefBls` (`py_ecc/bls12_381/bls12_381_pairing.py::twist`, affine: `(x, y) ↦ (ψ(x)/w², ψ(y)/w³)`).

  (a) the "field isomorphism" lines are the ring embedding `ψ : Fp² → Fp¹²`, `a₀ + a₁·i ↦ (a₀ − a₁) + a₁·w⁶`
      (`psi_*`); (b) the image of a curve point is a curve point (`*_on_curve`); (c) `twist` commutes with
      `add`, `double`, `neg`, `multiply`, `∞` (`*_add`, …), and is the Mathlib-level homomorphism
      `blsTwist` (`*_refines`); (d) `twist` is injective, on coordinates and on points (`*_injective`,
      `*_eq_iff`).

  Inputs are canonical (`CanonT` / `CanonO`: coefficient lists of the right length with entries in `[0, p)`,
  as every value constructed by the library), on-curve where the group law is involved; optimized
  statements hold for every projective representative and are up to the library's `eq`.
  Supporting material: `Lemmas/TwistField.lean` (ψ), `Lemmas/TwistPoint.lean` (field-generic twist),
  `Lemmas/TwistBls.lean` (values of the model functions).  That `G12 = twist(G2)` for the module
  constants is `C07.Consts.bls_G12_opt / bls_G12_ref`.
-/
import PyEcc.Lemmas.TwistBls
import PyEcc.Props.C07_FactsG2

set_option linter.unusedSectionVars false
set_option maxRecDepth 100000

namespace PyEcc.C07T
open PyEcc PyEcc.Gen PyEcc.Gen.Consts PyEcc.Fqp PyEcc.FqpSem PyEcc.Transfer PyEcc.TwistSem
  PyEcc.CurveSem WeierstrassCurve

/-! ## (a) the field embedding `ψ` -/

/-- **ψ is a ring homomorphism with `ψ(a₀ + a₁·i) = (a₀ − a₁) + a₁·w⁶`, and it is injective.**  It exists
    because `(w⁶ − 1)² = −1` in `FQ12 = Fp[w]/(w¹² − 2w⁶ + 2)`. -/
theorem psi_bls :
    (wQ blsP blsMc12 ^ 6 - 1) ^ 2 = -1 ∧
    (∀ a₀ a₁ : ZMod blsP, psiBls (AdjoinRoot.of _ a₀ + AdjoinRoot.of _ a₁ * AdjoinRoot.root _)
        = AdjoinRoot.of _ (a₀ - a₁) + AdjoinRoot.of _ a₁ * wQ blsP blsMc12 ^ 6) ∧
    Function.Injective psiBls := ⟨bls_w6_sq, psiBls_apply, psiBls_injective⟩

/-- **The coefficient shuffling of `twist` implements ψ** (either class `v`): for every well-formed `FQ2`
    element `x`, `FQ12([c0 − c1, 0,0,0,0,0, c1, 0,…])` has the value `ψ(x)`, is canonical, and the shifted
    placements of the optimized `twist` (positions 1, 7 and 3, 9) have the values `ψ(x)·w` and `ψ(x)·w³`. -/
theorem embed12_bls {v : Variant} {x : Fqp v blsP blsMc2} (hx : WF x) :
    (toQ (embed12 1 0 6 x : F12 v) = psiBls (toQ x) ∧ Canon (embed12 1 0 6 x : F12 v)) ∧
    (toQ (embed12 1 1 7 x : F12 v) = psiBls (toQ x) * wQ blsP blsMc12 ∧ Canon (embed12 1 1 7 x : F12 v)) ∧
    (toQ (embed12 1 3 9 x : F12 v) = psiBls (toQ x) * wQ blsP blsMc12 ^ 3
      ∧ Canon (embed12 1 3 9 x : F12 v)) :=
  ⟨⟨toQ_embed_bls hx, canon_embed_bls _ _ _ _⟩, ⟨toQ_embed_bls_w hx, canon_embed_bls _ _ _ _⟩,
    ⟨toQ_embed_bls_w3 hx, canon_embed_bls _ _ _ _⟩⟩

example : WF (blsG2.1) := by decide

/-- **`b2` is mapped to `b12`**: `ψ(b2)·(w⁻¹)⁶ = b12` in `K12` (`4(1+i) ↦ 4w⁶`), either class. -/
theorem twist_b_bls (v : Variant) :
    psiBls (toQ (blsB2v v)) * ((wQ blsP blsMc12)⁻¹) ^ 6 = toQ (blsB12 v) := bls_b_twist v

/-! ## the Mathlib-level statement -/

section mathlib
variable [DecidableEq K2] [DecidableEq K12]

/-- **The twist of Mathlib points `(x, y) ↦ (ψ(x)/w², ψ(y)/w³)`, `0 ↦ 0`, is an injective homomorphism**
    `E'(K2) : y² = x³ + b2 → E(K12) : y² = x³ + b12` of Mathlib's point groups (`blsTwist v` is an
    `AddMonoidHom`, so `blsTwist (P + Q) = blsTwist P + blsTwist Q`, `blsTwist (-P) = -blsTwist P`,
    `blsTwist (n • P) = n • blsTwist P` are Mathlib's `map_add`, `map_neg`, `map_nsmul`). -/
theorem blsTwist_spec (v : Variant) :
    Function.Injective (blsTwist v) ∧
    (∀ P, reprRef (blsTwist v P)
      = (reprRef P).map fun q => (psiBls q.1 * ((wQ blsP blsMc12)⁻¹) ^ 2,
          psiBls q.2 * ((wQ blsP blsMc12)⁻¹) ^ 3)) :=
  ⟨blsTwist_injective v, fun P => reprRef_blsTwist v P⟩

/-- **Optimized `twist` refines the Mathlib twist**: if the value of a canonical triple `T` represents the
    point `P` of `E'(K2)` (any projective representative; `z = 0` for `P = 0`), then `twist(T)` is canonical
    and its value represents `blsTwistOpt P` on `E(K12)`. -/
theorem twist_opt_refines {T : G2Pt} {P : CurvePt (toQ blsB2 : K2)} (c : CanonT T)
    (r : Represents (mapT toQ T) P) :
    CanonT (twistOptBls (mc12 := blsMc12) T)
      ∧ Represents (mapT (toQ : F12 .opt → K12) (twistOptBls T)) (blsTwistOpt P) :=
  ⟨canonT_twistOptBls T, represents_twistOptBls c r⟩

/-- **Reference `twist` refines the Mathlib twist**: if the value of a canonical point `p` is the
    representation of `P` then `twist(p)` is canonical and its value is the representation of
    `blsTwist .ref P`. -/
theorem twist_ref_refines {p : Option (Fqp .ref blsP blsMc2 × Fqp .ref blsP blsMc2)}
    {P : CurvePt (toQ (blsB2v .ref) : K2)} (c : CanonO p) (r : reprRef P = mapO toQ p) :
    CanonO (twistRefBls (mc12 := blsMc12) p)
      ∧ reprRef (blsTwist .ref P) = mapO (toQ : F12 .ref → K12) (twistRefBls p) :=
  ⟨canonO_twistRefBls, repr_twistRefBls c r⟩

end mathlib

/-! ## optimized module: `twistOptBls` on canonical `FQ2` triples -/

section opt
variable {S T T₁ T₂ : G2Pt}

private theorem k2 : (2 : K12) ≠ 0 := (k12_field_ok .opt).1
private theorem k3 : (3 : K12) ≠ 0 := (k12_field_ok .opt).2.1
private theorem cb : Canon (blsB12 .opt) := (k12_field_ok .opt).2.2.1
private theorem kb : (toQ (blsB12 .opt) : K12) ≠ 0 := (k12_field_ok .opt).2.2.2

/-- the output of the optimized `twist` is always canonical -/
theorem twist_opt_canon (T : G2Pt) : CanonT (twistOptBls (mc12 := blsMc12) T) := canonT_twistOptBls T

/-- **(b) optimized `twist` maps curve points to curve points**: if the canonical triple `T` passes
    `is_on_curve(T, b2)` then `twist(T)` passes `is_on_curve(·, b12)`. -/
theorem twist_opt_on_curve (c : CanonT T) (h : OptBls.is_on_curve T blsB2 = true) :
    OptBls.is_on_curve (twistOptBls T) (blsB12 .opt) = true := by
  classical
  obtain ⟨P, r⟩ := (on_curve_iff_F2 c).mp h
  exact Transfer.Bls.via_on_curve_of_represents (K := K12) goodHom_F12 cb (canonT_twistOptBls T)
    (represents_twistOptBls c r)

/-- **(c) optimized `twist` commutes with `add`**: `twist(add(T₁, T₂))` and `add(twist(T₁), twist(T₂))`
    are `eq`, for canonical on-curve triples (every configuration: ∞, doubling, inverse points). -/
theorem twist_opt_add (c₁ : CanonT T₁) (c₂ : CanonT T₂) (h₁ : OptBls.is_on_curve T₁ blsB2 = true)
    (h₂ : OptBls.is_on_curve T₂ blsB2 = true) :
    OptBls.eq (twistOptBls (mc12 := blsMc12) (OptBls.add T₁ T₂))
      (OptBls.add (twistOptBls T₁) (twistOptBls T₂)) = true := by
  classical
  obtain ⟨P, r₁⟩ := (on_curve_iff_F2 c₁).mp h₁
  obtain ⟨Q, r₂⟩ := (on_curve_iff_F2 c₂).mp h₂
  have ca := (canonT_ops c₁ c₂ 0).1
  have ra := opt_add_refines_F2 c₁ c₂ r₁ r₂
  have g := goodHom_F12 (v := .opt)
  refine (Transfer.Bls.via_eq_refines (K := K12) g (canonT_twistOptBls _)
    (Transfer.Bls.good_add (B := K12) g (canonT_twistOptBls T₁) (canonT_twistOptBls T₂)).1
    (represents_twistOptBls ca ra)
    (Transfer.Bls.via_add_refines g k2 (canonT_twistOptBls T₁) (canonT_twistOptBls T₂)
      (represents_twistOptBls c₁ r₁) (represents_twistOptBls c₂ r₂))).mpr (map_add _ _ _)

/-- **(c) optimized `twist` commutes with `double`**, up to `eq`. -/
theorem twist_opt_double (c : CanonT T) (h : OptBls.is_on_curve T blsB2 = true) :
    OptBls.eq (twistOptBls (mc12 := blsMc12) (OptBls.double T)) (OptBls.double (twistOptBls T)) = true := by
  classical
  obtain ⟨P, r⟩ := (on_curve_iff_F2 c).mp h
  have g := goodHom_F12 (v := .opt)
  refine (Transfer.Bls.via_eq_refines (K := K12) g (canonT_twistOptBls _)
    (Transfer.Bls.good_double (B := K12) g (canonT_twistOptBls T)).1
    (represents_twistOptBls (canonT_ops c c 0).2.1 (opt_double_refines_F2 c r))
    (Transfer.Bls.via_double_refines g k2 (canonT_twistOptBls T)
      (represents_twistOptBls c r))).mpr (map_add _ _ _)

/-- **(c) optimized `twist` commutes with `neg`**, up to `eq`. -/
theorem twist_opt_neg (c : CanonT T) (h : OptBls.is_on_curve T blsB2 = true) :
    OptBls.eq (twistOptBls (mc12 := blsMc12) (OptBls.neg T)) (OptBls.neg (twistOptBls T)) = true := by
  classical
  obtain ⟨P, r⟩ := (on_curve_iff_F2 c).mp h
  have g := goodHom_F12 (v := .opt)
  refine (Transfer.Bls.via_eq_refines (K := K12) g (canonT_twistOptBls _)
    (Transfer.Bls.good_neg (B := K12) g (canonT_twistOptBls T)).1
    (represents_twistOptBls (canonT_ops c c 0).2.2.1 (opt_neg_refines_F2 c r))
    (Transfer.Bls.via_neg_refines g (canonT_twistOptBls T)
      (represents_twistOptBls c r))).mpr (map_neg _ _)

/-- **(c) optimized `twist` commutes with `multiply(·, n)`**, every `n`, up to `eq`. -/
theorem twist_opt_multiply (c : CanonT T) (h : OptBls.is_on_curve T blsB2 = true) (n : ℕ) :
    OptBls.eq (twistOptBls (mc12 := blsMc12) (OptBls.multiply T n))
      (OptBls.multiply (twistOptBls T) n) = true := by
  classical
  obtain ⟨P, r⟩ := (on_curve_iff_F2 c).mp h
  have g := goodHom_F12 (v := .opt)
  refine (Transfer.Bls.via_eq_refines (K := K12) g (canonT_twistOptBls _)
    (Transfer.Bls.good_multiply (B := K12) g (canonT_twistOptBls T) n).1
    (represents_twistOptBls (canonT_ops c c n).2.2.2.1 (opt_multiply_refines_F2 c r n))
    (Transfer.Bls.via_multiply_refines g k2 (canonT_twistOptBls T)
      (represents_twistOptBls c r) n)).mpr (map_nsmul _ _ _)

/-- **(c) optimized `twist` maps ∞ to ∞ and only ∞**: `is_inf(twist(T)) = is_inf(T)` for canonical `T`. -/
theorem twist_opt_is_inf (c : CanonT T) :
    OptBls.is_inf (twistOptBls (mc12 := blsMc12) T) = OptBls.is_inf T := by
  obtain ⟨x, y, z⟩ := T
  have g2 := goodHom_F2 (v := .opt)
  have g := goodHom_F12 (v := .opt)
  have e : (embed12 1 3 9 z : F12 .opt) = 0 ↔ z = 0 := by
    rw [← g.eq_zero_iff (canon_embed_bls _ _ _ _), toQ_embed_bls_w3 c.2.2.wf, mul_eq_zero,
      or_iff_left (pow_ne_zero _ wQ_bls_ne_zero), map_eq_zero, g2.eq_zero_iff c.2.2]
  simp only [OptBls.is_inf, twistOptBls, e]

/-- **(d) optimized `twist` is injective on canonical triples** (coordinate-wise). -/
theorem twist_opt_injective (cS : CanonT S) (cT : CanonT T)
    (e : twistOptBls (mc12 := blsMc12) S = twistOptBls T) : S = T := by
  obtain ⟨x, y, z⟩ := S
  obtain ⟨x', y', z'⟩ := T
  have g2 := goodHom_F2 (v := .opt)
  simp only [twistOptBls, Prod.mk.injEq] at e
  obtain ⟨e1, e2, e3⟩ := e
  have h1 := congrArg (toQ : F12 .opt → K12) e1
  have h2 := congrArg (toQ : F12 .opt → K12) e2
  have h3 := congrArg (toQ : F12 .opt → K12) e3
  rw [toQ_embed_bls_w cS.1.wf, toQ_embed_bls_w cT.1.wf] at h1
  rw [toQ_embed_bls cS.2.1.wf, toQ_embed_bls cT.2.1.wf] at h2
  rw [toQ_embed_bls_w3 cS.2.2.wf, toQ_embed_bls_w3 cT.2.2.wf] at h3
  have i1 : x = x' := g2.inj cS.1 cT.1 (psiBls_injective (mul_right_cancel₀ wQ_bls_ne_zero h1))
  have i2 : y = y' := g2.inj cS.2.1 cT.2.1 (psiBls_injective h2)
  have i3 : z = z' :=
    g2.inj cS.2.2 cT.2.2 (psiBls_injective (mul_right_cancel₀ (pow_ne_zero _ wQ_bls_ne_zero) h3))
  rw [i1, i2, i3]

/-- **(d) optimized `twist` is injective on points**: for canonical on-curve triples, `twist(S)` and
    `twist(T)` are `eq` exactly when `S` and `T` are `eq` (any projective representatives). -/
theorem twist_opt_eq_iff (cS : CanonT S) (cT : CanonT T) (hS : OptBls.is_on_curve S blsB2 = true)
    (hT : OptBls.is_on_curve T blsB2 = true) :
    OptBls.eq (twistOptBls (mc12 := blsMc12) S) (twistOptBls T) = true ↔ OptBls.eq S T = true := by
  classical
  obtain ⟨P, r₁⟩ := (on_curve_iff_F2 cS).mp hS
  obtain ⟨Q, r₂⟩ := (on_curve_iff_F2 cT).mp hT
  rw [Transfer.Bls.via_eq_refines (K := K12) goodHom_F12 (canonT_twistOptBls S) (canonT_twistOptBls T)
    (represents_twistOptBls cS r₁) (represents_twistOptBls cT r₂), opt_eq_refines_F2 cS cT r₁ r₂]
  exact blsTwistOpt_injective.eq_iff

/-- non-vacuity: the generator `G2` of the optimized module is canonical and on the curve (and
    `twist(G2) = G12`, `C07.Consts.bls_G12_opt`) -/
example : CanonT blsG2 ∧ OptBls.is_on_curve blsG2 blsB2 = true :=
  ⟨by decide +kernel, C07.Facts.bls_G2_opt.1⟩

end opt

/-! ## reference module: `twistRefBls` on canonical `FQ2` points -/

section ref
variable {p q : Option (Fqp .ref blsP blsMc2 × Fqp .ref blsP blsMc2)}

private theorem r2 : (2 : K12) ≠ 0 := (k12_field_ok .ref).1
private theorem r3 : (3 : K12) ≠ 0 := (k12_field_ok .ref).2.1
private theorem rcb : Canon (blsB12 .ref) := (k12_field_ok .ref).2.2.1
private theorem rkb : (toQ (blsB12 .ref) : K12) ≠ 0 := (k12_field_ok .ref).2.2.2
private theorem q2 : (2 : K2) ≠ 0 := k2_field_ok.1
private theorem q3 : (3 : K2) ≠ 0 := k2_field_ok.2.1

/-- the output of the reference `twist` is always canonical -/
theorem twist_ref_canon (p : Option (Fqp .ref blsP blsMc2 × Fqp .ref blsP blsMc2)) :
    CanonO (twistRefBls (mc12 := blsMc12) p) := canonO_twistRefBls

/-- **(b) reference `twist` maps curve points to curve points.** -/
theorem twist_ref_on_curve (c : CanonO p) (h : RefBls.is_on_curve p (blsB2v .ref) = true) :
    RefBls.is_on_curve (twistRefBls p) (blsB12 .ref) = true := by
  classical
  obtain ⟨P, r⟩ := (Transfer.BlsRef.via_on_curve_iff (K := K2) goodHom_F2 q2 q3 (k2_b_ok .ref).1
    (k2_b_ok .ref).2 c).mp h
  exact Transfer.BlsRef.via_on_curve_of_repr (K := K12) goodHom_F12 r2 r3 rcb rkb canonO_twistRefBls
    (repr_twistRefBls c r)

/-- **(c) reference `twist` commutes with `add`**: `add(twist(p), twist(q)) = twist(add(p, q))` (in the
    exception monad; neither side raises), for canonical on-curve points, every configuration. -/
theorem twist_ref_add (cp : CanonO p) (cq : CanonO q)
    (hp : RefBls.is_on_curve p (blsB2v .ref) = true) (hq : RefBls.is_on_curve q (blsB2v .ref) = true) :
    RefBls.add (twistRefBls (mc12 := blsMc12) p) (twistRefBls q)
      = (RefBls.add p q).map twistRefBls := by
  classical
  have g2 := goodHom_F2 (v := .ref)
  have g := goodHom_F12 (v := .ref)
  obtain ⟨P, rp⟩ := (Transfer.BlsRef.via_on_curve_iff (K := K2) g2 q2 q3 (k2_b_ok .ref).1
    (k2_b_ok .ref).2 cp).mp hp
  obtain ⟨Q, rq⟩ := (Transfer.BlsRef.via_on_curve_iff (K := K2) g2 q2 q3 (k2_b_ok .ref).1
    (k2_b_ok .ref).2 cq).mp hq
  obtain ⟨s, e1, g1, r1⟩ := Transfer.BlsRef.via_add_refines g2 q2 cp cq rp rq
  obtain ⟨t, e2, gt, rt⟩ := Transfer.BlsRef.via_add_refines g r2 canonO_twistRefBls
    canonO_twistRefBls (repr_twistRefBls cp rp) (repr_twistRefBls cq rq)
  rw [e1, e2]
  show Except.ok t = Except.ok (twistRefBls s)
  rw [Transfer.BlsRef.via_repr_inj g gt canonO_twistRefBls rt
    (by rw [← map_add]; exact repr_twistRefBls g1 r1)]

/-- **(c) reference `twist` commutes with `double`.** -/
theorem twist_ref_double (cp : CanonO p) (hp : RefBls.is_on_curve p (blsB2v .ref) = true) :
    RefBls.double (twistRefBls (mc12 := blsMc12) p) = twistRefBls (RefBls.double p) := by
  classical
  have g2 := goodHom_F2 (v := .ref)
  have g := goodHom_F12 (v := .ref)
  obtain ⟨P, rp⟩ := (Transfer.BlsRef.via_on_curve_iff (K := K2) g2 q2 q3 (k2_b_ok .ref).1
    (k2_b_ok .ref).2 cp).mp hp
  obtain ⟨g1, r1⟩ := Transfer.BlsRef.via_double_refines g2 q2 cp rp
  obtain ⟨gt, rt⟩ := Transfer.BlsRef.via_double_refines g r2 canonO_twistRefBls (repr_twistRefBls cp rp)
  exact Transfer.BlsRef.via_repr_inj g gt canonO_twistRefBls rt
    (by rw [← map_add]; exact repr_twistRefBls g1 r1)

/-- **(c) reference `twist` commutes with `neg`.** -/
theorem twist_ref_neg (cp : CanonO p) (hp : RefBls.is_on_curve p (blsB2v .ref) = true) :
    RefBls.neg (twistRefBls (mc12 := blsMc12) p) = twistRefBls (RefBls.neg p) := by
  classical
  have g2 := goodHom_F2 (v := .ref)
  have g := goodHom_F12 (v := .ref)
  obtain ⟨P, rp⟩ := (Transfer.BlsRef.via_on_curve_iff (K := K2) g2 q2 q3 (k2_b_ok .ref).1
    (k2_b_ok .ref).2 cp).mp hp
  obtain ⟨g1, r1⟩ := Transfer.BlsRef.via_neg_refines g2 cp rp
  obtain ⟨gt, rt⟩ := Transfer.BlsRef.via_neg_refines g canonO_twistRefBls (repr_twistRefBls cp rp)
  exact Transfer.BlsRef.via_repr_inj g gt canonO_twistRefBls rt
    (by rw [← map_neg]; exact repr_twistRefBls g1 r1)

/-- **(c) reference `twist` commutes with `multiply(·, n)`**, every `n` (neither side raises). -/
theorem twist_ref_multiply (cp : CanonO p) (hp : RefBls.is_on_curve p (blsB2v .ref) = true) (n : ℕ) :
    RefBls.multiply (twistRefBls (mc12 := blsMc12) p) n = (RefBls.multiply p n).map twistRefBls := by
  classical
  have g2 := goodHom_F2 (v := .ref)
  have g := goodHom_F12 (v := .ref)
  obtain ⟨P, rp⟩ := (Transfer.BlsRef.via_on_curve_iff (K := K2) g2 q2 q3 (k2_b_ok .ref).1
    (k2_b_ok .ref).2 cp).mp hp
  obtain ⟨s, e1, g1, r1⟩ := Transfer.BlsRef.via_multiply_refines g2 q2 cp rp n
  obtain ⟨t, e2, gt, rt⟩ := Transfer.BlsRef.via_multiply_refines g r2 canonO_twistRefBls
    (repr_twistRefBls cp rp) n
  rw [e1, e2]
  show Except.ok t = Except.ok (twistRefBls s)
  rw [Transfer.BlsRef.via_repr_inj g gt canonO_twistRefBls rt
    (by rw [← map_nsmul]; exact repr_twistRefBls g1 r1)]

/-- **(c) reference `twist` maps ∞ to ∞ and only ∞.** -/
theorem twist_ref_none : twistRefBls (mc12 := blsMc12) p = none ↔ p = none := by
  rcases p with _ | ⟨x, y⟩ <;> simp [twistRefBls]

/-- **(d) reference `twist` is injective on canonical points.** -/
theorem twist_ref_injective (cp : CanonO p) (cq : CanonO q)
    (e : twistRefBls (mc12 := blsMc12) p = twistRefBls q) : p = q := by
  classical
  have g2 := goodHom_F2 (v := .ref)
  have h := congrArg (mapO (toQ : F12 .ref → K12)) e
  rw [mapO_twistRefBls cp, mapO_twistRefBls cq] at h
  exact Transfer.BlsRef.good_mapO_inj g2 cp cq (twO_injective psiBls cBls_ne_zero h)

/-- non-vacuity: the generator `G2` of the reference module is canonical and on the curve (and
    `twist(G2) = G12`, `C07.Consts.bls_G12_ref`) -/
example : CanonO (some ((⟨bls12_381_G2.getD 0 []⟩ : Fqp .ref blsP blsMc2), ⟨bls12_381_G2.getD 1 []⟩)) ∧
    RefBls.is_on_curve (some ((⟨bls12_381_G2.getD 0 []⟩ : Fqp .ref blsP blsMc2), ⟨bls12_381_G2.getD 1 []⟩))
      (blsB2v .ref) = true := by decide +kernel

end ref

end PyEcc.C07T
