/-
  Property C07 — the group order of bn128: `#E(Fp) = curve_order` for `y² = x³ + 3` over
  `ZMod field_modulus`, by the elementary argument of `Sem/GroupOrder.lean` (`G1` has prime order `r`,
  `#E ≤ 2p + 1 < 3r`, and there is no point of order two, so `#E ∈ {r, 2r}` is `r`).  Consequently EVERY
  on-curve `FQ` point of bn128 (cofactor 1) is killed by `curve_order`, stated about the generated
  `multiply`.
-/
import PyEcc.Props.C07_Facts
import PyEcc.Sem.GroupOrder

set_option maxRecDepth 100000

namespace PyEcc.C07.Facts
open PyEcc.CurveSem PyEcc.Gen.Consts PyEcc.C07

/-- bn128: the curve `y² = x³ + b` over `ZMod field_modulus` has exactly `curve_order` points
    (including ∞), with `field_modulus`, `b`, `curve_order` the regenerated module constants. -/
theorem bn_card_points : Nat.card (W ((bn128_b : ℕ) : ZMod bnP)).Point = bn128_curve_order := by
  obtain ⟨G, _, hG0, hr, _⟩ := bn_G1_point
  exact GroupOrder.card_point_eq _ bn128_curve_order prime_bnR bn_field_ok.1 G hG0 hr
    (by decide +kernel) bn_no_cube_root

/-- bn128: every point of `E(Fp)` is killed by `curve_order` (Mathlib level). -/
theorem bn_nsmul_curve_order (Q : (W ((bn128_b : ℕ) : ZMod bnP)).Point) : bn128_curve_order • Q = 0 :=
  GroupOrder.nsmul_eq_zero_of_card _ _ bn_card_points Q

/-- bn128, Python level: for EVERY `pt` accepted by `is_on_curve(pt, b)` over `FQ`,
    `multiply(pt, curve_order)` returns ∞ — there is no cofactor, the whole curve is the order-`r` group. -/
theorem bn_multiply_curve_order (pt : Option (ZMod bnP × ZMod bnP))
    (h : Gen.RefBn.is_on_curve pt ((bn128_b : ℕ) : ZMod bnP) = true) :
    Gen.RefBn.multiply pt bn128_curve_order = .ok none := by
  obtain ⟨h2, h3, hb⟩ := bn_field_ok
  obtain ⟨Q, rfl⟩ := (Bn.ref_is_on_curve_iff h2 h3 hb pt).mp h
  rw [Bn.ref_multiply_refines h2, bn_nsmul_curve_order]
  rfl

example : Gen.RefBn.is_on_curve (ptRef (ZMod bnP) bn128_G1) ((bn128_b : ℕ) : ZMod bnP) = true :=
  bn_G1_on_curve_ref

/-- bn128, Python level: scalars act modulo `curve_order` on every on-curve `FQ` point. -/
theorem bn_multiply_mod (pt : Option (ZMod bnP × ZMod bnP))
    (h : Gen.RefBn.is_on_curve pt ((bn128_b : ℕ) : ZMod bnP) = true) (n : ℕ) :
    Gen.RefBn.multiply pt n = Gen.RefBn.multiply pt (n % bn128_curve_order) :=
  Bn.ref_multiply_mod bn_field_ok.1 bn_field_ok.2.1 bn_field_ok.2.2 h _ (bn_multiply_curve_order pt h) n

end PyEcc.C07.Facts
