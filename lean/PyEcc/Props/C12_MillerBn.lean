/-
  PyEcc.Props.C12_MillerBn — property C12, bn128 clause: the OPTIMIZED bn128 pairing
  (`py_ecc/optimized_bn128/optimized_pairing.py`) equals the REFERENCE bn128 pairing
  (`py_ecc/bn128/bn128_pairing.py`) as an FQ12 value (coefficient list).

  Model: `pairingOptBn`, `pairingRefBn`, `optBnMillerLoop`, `refMillerLoop` of `Model/Pairing.lean` around
  the GENERATED `linefunc` / `double` / `add` / `neg` / `is_on_curve` of both modules.

  Unlike BLS12-381, the two Miller values are NOT equal before the final exponentiation: the optimized
  loop scans the SIGNED digits `1, 0, −1` of `pseudo_binary_encoding` (adding `−Q` for `−1`), the
  reference loop the binary digits of `ate_loop_count`.  How this is bridged (`Lemmas/MillerBn*.lean`):
   (1) `Fp⁶` (`InFp6 x : x ^ p⁶ = x`) and `x ≠ 0 → InFp6 x → x ^ ((p¹² − 1)/r) = 1` (`MillerBnSub`);
   (2) Miller's algorithm is well defined up to vertical lines: in the coordinate ring of `E`, a pair
       `(N, D)` with `⟨N⟩·I(kT) = ⟨D⟩·I(T)^k` is preserved by doubling / adding `T` / subtracting `T`
       steps (`N` collects the line functions the loops multiply in, `D` only vertical lines), and two
       such pairs for the same `k` satisfy `N·D' = c·N'·D` with a constant `c`, `c⁴ = 1`
       (`MillerBnIdeal`, from Mathlib's `XYIdeal_mul_XYIdeal`; units of the coordinate ring are constants);
   (3) both loops are instances (`MillerBnLoop`, `MillerBnOpt`), both digit tables give `ate_loop_count`,
       vertical values at `P` are non-zero elements of `Fp⁶` (`MillerBnCtx`), `4 ∣ (p¹² − 1)/r`; so the two
       accumulated values agree after the power; the Frobenius line steps are the same affine computation
       in both modules (`MillerBnTail`).
  Regularity (running points finite, never 2-torsion) follows from `multiply(Q, curve_order) = ∞`; so
  does `FrobFinite Q` (`n·Q + π(Q) ≠ ∞` for the twisted point, needed for the reference code not to raise
  in the last line step): `π` is an endomorphism of `E(Fp¹²)` with `π¹² = id`, and `r ∤ n¹² − 1`
  (`MillerBnFrob`).  Hence `pairingOptBn_eq_pairingRefBn_subgroup` has no hypothesis left besides
  "same inputs, `Q` killed by `curve_order`".
-/
import PyEcc.Lemmas.MillerBnFrob
import PyEcc.Props.C12
import PyEcc.Props.C07_ModelBn

set_option linter.unusedSectionVars false
set_option maxRecDepth 100000

namespace PyEcc.C12MB
open Polynomial PyEcc PyEcc.Gen PyEcc.Gen.Consts PyEcc.Fqp PyEcc.FqpSem PyEcc.Transfer PyEcc.TwistSem
  PyEcc.PairingSem PyEcc.MillerBnSem

/-! ### stage 1: the subfield `Fp⁶` and the final exponent -/

/-- **The final exponent kills `Fp⁶ \ {0}`.**  In the bn128 field `FQ12 = Fp[w]/(w¹² − 18w⁶ + 82)`, every
    non-zero `x` of the subfield with `p⁶` elements (`x ^ p⁶ = x`) satisfies
    `x ^ ((field_modulus¹² − 1) // curve_order) = 1` — the exponent of `final_exponentiate` and of
    `miller_loop`.  (`(p⁶ − 1)` divides the exponent because `curve_order ∤ p⁶ − 1`.) -/
theorem finalExp_kills_Fp6 {x : K12bn} (h0 : x ≠ 0) (hx : InFp6 x) : x ^ bnFinalExp = 1 :=
  pow_finalExp_of_inFp6 h0 hx

/-- `Fp⁶` is a subfield containing `Fp`, the image of `FQ2` under the twist embedding `i ↦ w⁶ − 9`, and
    `w²` — hence every FQ12 element with only even powers of `w`, in particular every `x`-coordinate
    `ψ(x)·w²` of a twisted point and every `x`-coordinate of a cast G1 point. -/
theorem Fp6_subfield :
    InFp6 0 ∧ InFp6 1 ∧ (∀ x y : K12bn, InFp6 x → InFp6 y → InFp6 (x + y) ∧ InFp6 (x * y) ∧ InFp6 (x - y))
      ∧ (∀ x : K12bn, InFp6 x → InFp6 (-x) ∧ InFp6 x⁻¹)
      ∧ (∀ c : ZMod bnP, InFp6 (AdjoinRoot.of _ c)) ∧ (∀ a : K2bn, InFp6 (psiBn a))
      ∧ InFp6 (wQ bnP bnMc12 ^ 2) :=
  ⟨inFp6_zero, inFp6_one, fun _ _ hx hy => ⟨inFp6_add hx hy, inFp6_mul hx hy, inFp6_sub hx hy⟩,
    fun _ hx => ⟨inFp6_neg hx, inFp6_inv hx⟩, inFp6_of, inFp6_psi, inFp6_w2⟩

example : (2 : K12bn) ≠ 0 ∧ InFp6 (2 : K12bn) := ⟨k12bn_two, inFp6_natCast 2⟩

/-! ### stages 2–3: the two `miller_loop`s and the two `pairing`s -/

variable [DecidableEq K2bn]

/-- **`miller_loop`: optimized = reference** (bn128).  Let `Q` (reduced FQ2 triple) and `P` (FQ triple) be
    finite, on their curves, representatives of the reference points `q`, `p`, with
    `multiply(Q, curve_order) = ∞` and `n·twist(Q) + π(twist(Q)) ≠ ∞`.  Then the reference
    `miller_loop(twist(q), cast_point_to_fq12(p))` returns normally, and its value is, coefficient for
    coefficient, the value of the optimized `miller_loop(twist(Q), cast_point_to_fq12(P))`
    (both include the final exponentiation). -/
theorem millerLoop_opt_eq_ref_bn {Q : BnG2Pt} {q : Option (RBn2 × RBn2)} {P : BnG1Pt}
    {p : Option (Fq bnP × Fq bnP)} (cQ : CanonT Q) (cq : GoodO Canon q)
    (hQ : toAff (mapT toQ Q) = mapO (toQ : RBn2 → K2bn) q) (hP : toAff P = p)
    (hon : OptBn.is_on_curve Q bnB2 = true)
    (honP : OptBn.is_on_curve P (Fq.ofInt optimized_bn128_b : Fq bnP) = true)
    (hQz : Q.2.2 ≠ 0) (hPz : P.2.2 ≠ 0)
    (hsub : OptBn.is_inf (OptBn.multiply Q optimized_bn128_curve_order) = true)
    (hfin : FrobFinite Q) :
    ∃ fr, refMillerLoop refBnOps bn128_ate_loop_count bn128_log_ate_loop_count true bnFinalExp
        (twistRefBn q) (castRefBn p) = .ok fr
      ∧ (optBnMillerLoop (digitsFrom optimized_bn128_pseudo_binary_encoding 63)
          (some ((bnP ^ 12 - 1) / optimized_bn128_curve_order)) (twistOptBn Q)
          (castFq12 P.1, castFq12 P.2.1, castFq12 P.2.2) : OBn12).coeffs = fr.coeffs := by
  classical
  obtain ⟨fr, e, cfr, co, v⟩ := miller_core_bn cQ cq hQ hP hon honP hQz hPz hsub hfin
  rw [bn_final_exp_eq']
  exact ⟨fr, e, coeffs_eq_of_toQ co cfr v⟩

/-- **Guards and ∞ agree** (bn128) — for ALL inputs, no subgroup hypothesis.  Let `Q` (reduced FQ2 triple)
    and `P` (FQ triple) be any projective representatives of the reference inputs `q`, `p`.  Then
    `optimized_bn128.pairing(Q, P)` and `bn128.pairing(q, p)` have the same outcome — both raise
    `ValueError` when a point is off its curve, both return `FQ12.one()` when a point is ∞ (`z == 0` in the
    optimized module, `None` in the reference module) — PROVIDED the two `miller_loop`s agree on finite
    on-curve inputs (`hmain`; discharged for subgroup points below). -/
theorem pairing_guards_agree (Q : BnG2Pt) (P : BnG1Pt)
    (q : Option (RBn2 × RBn2)) (p : Option (Fq bnP × Fq bnP))
    (cQ : CanonT Q) (cq : GoodO Canon q)
    (hQ : toAff (mapT toQ Q) = mapO (toQ : RBn2 → K2bn) q) (hP : toAff P = p)
    (hmain : Gen.OptBn.is_on_curve Q bnB2 = true →
      Gen.OptBn.is_on_curve P (Fq.ofInt optimized_bn128_b : Fq bnP) = true → Q.2.2 ≠ 0 → P.2.2 ≠ 0 →
      ∃ fr, refMillerLoop refBnOps bn128_ate_loop_count bn128_log_ate_loop_count true bnFinalExp
          (twistRefBn q) (castRefBn p) = .ok fr
        ∧ (optBnMillerLoop (digitsFrom optimized_bn128_pseudo_binary_encoding 63)
            (some ((bnP ^ 12 - 1) / optimized_bn128_curve_order)) (twistOptBn Q)
            (castFq12 P.1, castFq12 P.2.1, castFq12 P.2.2) : OBn12).coeffs = fr.coeffs) :
    (pairingOptBn Q P true).map Fqp.coeffs = (pairingRefBn q p).map Fqp.coeffs := by
  rw [pairingOptBn_eq, pairingRefBn_eq, on_curve_Q_agree_bn cQ cq hQ, on_curve_P_agree_bn hP]
  cases hcq : Gen.RefBn.is_on_curve q (⟨bn128_b2⟩ : RBn2)
  · rfl
  cases hcp : Gen.RefBn.is_on_curve p (Fq.ofInt bn128_b : Fq bnP)
  · rfl
  simp only [Bool.true_eq_false, if_false]
  by_cases hPz : P.2.2 = 0
  · have hp : p = none := by rw [← hP]; exact C13.toAff_of_z_eq_zero hPz
    subst hp
    rw [if_pos (Or.inl hPz), castRefBn_none, refMillerLoop_none_right', map_ok', map_ok', one_coeffs_bn]
  by_cases hQz : Q.2.2 = 0
  · have hq : q = none := q_none_of_z_bn hQ hQz
    subst hq
    have ht : (twistRefBn (none : Option (RBn2 × RBn2)) : RA12) = none := rfl
    rw [if_pos (Or.inr hQz), ht, refMillerLoop_none_left', map_ok', map_ok', one_coeffs_bn]
  rw [if_neg (not_or.mpr ⟨hPz, hQz⟩), if_pos True.intro]
  have hon : Gen.OptBn.is_on_curve Q bnB2 = true := by
    have := on_curve_Q_agree_bn cQ cq hQ
    rw [hcq] at this; exact this
  have honP : Gen.OptBn.is_on_curve P (Fq.ofInt optimized_bn128_b : Fq bnP) = true := by
    have := on_curve_P_agree_bn hP
    rw [hcp] at this; exact this
  obtain ⟨fr, e, hc⟩ := hmain hon honP hQz hPz
  rw [e, map_ok', map_ok', hc]

/-- **`pairing`: optimized = reference** (bn128), with the side condition `FrobFinite` as a hypothesis
    (it is discharged below).
    Let `Q` be a reduced FQ2 triple with `multiply(Q, curve_order) = ∞` and `P` an FQ triple — ANY
    projective representatives — of the reference inputs `q : Optional[(FQ2, FQ2)]`,
    `p : Optional[(FQ, FQ)]` (`None` = ∞).  Then `optimized_bn128.pairing(Q, P)` and `bn128.pairing(q, p)`
    have the same outcome: both raise `ValueError` (a point off its curve), or both return the same
    FQ12 coefficient list — `FQ12.one()` when a point is ∞, otherwise the Miller value raised to
    `(p¹² − 1)/r`.  `hfin` is needed only for on-curve finite `Q`. -/
theorem pairingOptBn_eq_pairingRefBn_of_frobFinite (Q : BnG2Pt) (P : BnG1Pt)
    (q : Option (RBn2 × RBn2)) (p : Option (Fq bnP × Fq bnP))
    (cQ : CanonT Q) (cq : GoodO Canon q)
    (hQ : toAff (mapT toQ Q) = mapO (toQ : RBn2 → K2bn) q) (hP : toAff P = p)
    (hsub : OptBn.is_inf (OptBn.multiply Q optimized_bn128_curve_order) = true)
    (hfin : Gen.OptBn.is_on_curve Q bnB2 = true → Q.2.2 ≠ 0 → FrobFinite Q) :
    (pairingOptBn Q P true).map Fqp.coeffs = (pairingRefBn q p).map Fqp.coeffs :=
  pairing_guards_agree Q P q p cQ cq hQ hP fun hon honP hQz hPz =>
    millerLoop_opt_eq_ref_bn cQ cq hQ hP hon honP hQz hPz hsub (hfin hon hQz)

/-- **The first Frobenius step never meets ∞ on the subgroup.**  For every reduced FQ2 triple `Q` on the
    twist curve, finite, with `multiply(Q, curve_order) = ∞`: `add(multiply(twist(Q), ate_loop_count),
    (x^p, y^p, z^p))` is not ∞ — the running point `R` of both `miller_loop`s stays finite after
    `R = add(R, Q1)`.  (`π` is a group endomorphism of `E(Fp¹²)` with `π¹² = id`; `π(T) = −n·T` would give
    `r ∣ n¹² − 1`.) -/
theorem frobFinite_of_subgroup {Q : BnG2Pt} (cQ : CanonT Q)
    (hon : Gen.OptBn.is_on_curve Q bnB2 = true) (hz : Q.2.2 ≠ 0)
    (hsub : OptBn.is_inf (OptBn.multiply Q optimized_bn128_curve_order) = true) : FrobFinite Q := by
  classical
  exact MillerBnSem.frobFinite_of_subgroup cQ hon hz hsub

/-- **`pairing`: optimized = reference on G2** (bn128) — no regularity hypothesis.
    For every reduced FQ2 triple `Q` with `multiply(Q, curve_order) = ∞` and every FQ triple `P`, any
    projective representatives of the reference inputs `q`, `p`: `optimized_bn128.pairing(Q, P)` and
    `bn128.pairing(q, p)` both raise `ValueError` (off-curve input) or return the same FQ12 coefficient
    list.  (`P` is arbitrary: on the curve or not, ∞ or not.) -/
theorem pairingOptBn_eq_pairingRefBn_subgroup (Q : BnG2Pt) (P : BnG1Pt)
    (q : Option (RBn2 × RBn2)) (p : Option (Fq bnP × Fq bnP))
    (cQ : CanonT Q) (cq : GoodO Canon q)
    (hQ : toAff (mapT toQ Q) = mapO (toQ : RBn2 → K2bn) q) (hP : toAff P = p)
    (hsub : OptBn.is_inf (OptBn.multiply Q optimized_bn128_curve_order) = true) :
    (pairingOptBn Q P true).map Fqp.coeffs = (pairingRefBn q p).map Fqp.coeffs :=
  pairingOptBn_eq_pairingRefBn_of_frobFinite Q P q p cQ cq hQ hP hsub
    (fun hon hz => frobFinite_of_subgroup cQ hon hz hsub)

/-- The same for `pairing(Q, P, final_exponentiate=False)`: raised to `(p¹² − 1)/r` (in the executable
    FQ12 model) it is the reference pairing. -/
theorem pairingOptBn_false_pow_eq_pairingRefBn_subgroup (Q : BnG2Pt) (P : BnG1Pt)
    (q : Option (RBn2 × RBn2)) (p : Option (Fq bnP × Fq bnP))
    (cQ : CanonT Q) (cq : GoodO Canon q)
    (hQ : toAff (mapT toQ Q) = mapO (toQ : RBn2 → K2bn) q) (hP : toAff P = p)
    (hsub : OptBn.is_inf (OptBn.multiply Q optimized_bn128_curve_order) = true) :
    ((pairingOptBn Q P false).map
        (· ^ ((bnP ^ 12 - 1) / optimized_bn128_curve_order))).map Fqp.coeffs
      = (pairingRefBn q p).map Fqp.coeffs := by
  rw [← C12.pairingOptBn_finalExp]
  exact pairingOptBn_eq_pairingRefBn_subgroup Q P q p cQ cq hQ hP hsub

/-! ### hypothesis-free form: the reference inputs computed from the optimized ones -/

/-- the reference-module reading of an optimized G2 triple: `None` when `z = 0`, otherwise
    `normalize(Q) = (x/z, y/z)` with the two coefficient lists re-wrapped in the reference `FQ2` class -/
def refOfOptG2 (Q : BnG2Pt) : Option (RBn2 × RBn2) :=
  if Q.2.2 = 0 then none
  else some (⟨(Gen.OptBn.normalize Q).1.coeffs⟩, ⟨(Gen.OptBn.normalize Q).2.coeffs⟩)

/-- the reference-module reading of an optimized G1 triple: `None` when `z = 0`, else `normalize(P)` -/
def refOfOptG1 (P : BnG1Pt) : Option (Fq bnP × Fq bnP) :=
  if P.2.2 = 0 then none else some (Gen.OptBn.normalize P)

theorem refOfOptG1_repr (P : BnG1Pt) : toAff P = refOfOptG1 P := by
  unfold refOfOptG1
  by_cases hz : P.2.2 = 0
  · rw [if_pos hz, C13.toAff_of_z_eq_zero hz]
  · rw [if_neg hz, C13.Bn.opt_normalize P hz]

theorem refOfOptG2_repr {Q : BnG2Pt} (cQ : CanonT Q) :
    GoodO Canon (refOfOptG2 Q) ∧ toAff (mapT toQ Q) = mapO (toQ : RBn2 → K2bn) (refOfOptG2 Q) := by
  unfold refOfOptG2
  by_cases hz : Q.2.2 = 0
  · rw [if_pos hz]
    refine ⟨trivial, ?_⟩
    have : (mapT (toQ : OBn2 → K2bn) Q).2.2 = 0 := by
      rw [mapT_snd_snd, hz]; exact (goodHom_F2bn (v := .opt)).map_zero
    rw [C13.toAff_of_z_eq_zero this]; rfl
  · rw [if_neg hz]
    obtain ⟨⟨c1, c2⟩, e⟩ := Transfer.Bn.good_normalize (B := K2bn) (goodHom_F2bn (v := .opt)) cQ
    refine ⟨⟨c1, c2⟩, ?_⟩
    have hz' : (mapT (toQ : OBn2 → K2bn) Q).2.2 ≠ 0 := by
      rw [mapT_snd_snd]
      exact fun h => hz (((goodHom_F2bn (v := .opt)).eq_zero_iff cQ.2.2).mp h)
    rw [C13.Bn.opt_normalize _ hz', ← e]
    rfl

/-- **`pairing`: optimized = reference on G2, inputs converted by `normalize`** (bn128).
    For every reduced FQ2 triple `Q` with `multiply(Q, curve_order) = ∞` and EVERY FQ triple `P`:
    `optimized_bn128.pairing(Q, P)` has the same outcome as `bn128.pairing(q, p)` where `q`, `p` are
    `None` for `z = 0` and `normalize(·)` otherwise — the same `ValueError`, or the same twelve FQ12
    coefficients. -/
theorem pairingOptBn_eq_pairingRefBn_normalize (Q : BnG2Pt) (P : BnG1Pt) (cQ : CanonT Q)
    (hsub : OptBn.is_inf (OptBn.multiply Q optimized_bn128_curve_order) = true) :
    (pairingOptBn Q P true).map Fqp.coeffs
      = (pairingRefBn (refOfOptG2 Q) (refOfOptG1 P)).map Fqp.coeffs := by
  obtain ⟨g, h⟩ := refOfOptG2_repr cQ
  exact pairingOptBn_eq_pairingRefBn_subgroup Q P _ _ cQ g h (refOfOptG1_repr P) hsub

/-! ### non-vacuity -/

/-- the generator `G2` satisfies the hypotheses of `pairingOptBn_eq_pairingRefBn_normalize`,
    `frobFinite_of_subgroup` -/
example : CanonT bnG2 ∧ Gen.OptBn.is_on_curve bnG2 bnB2 = true ∧ bnG2.2.2 ≠ 0
    ∧ OptBn.is_inf (OptBn.multiply bnG2 optimized_bn128_curve_order) = true :=
  ⟨by decide +kernel, C07.Facts.bn_G2_opt.1, by decide, C07.Facts.bn_G2_opt.2.2⟩

/-- … and those of `pairingOptBn_eq_pairingRefBn_subgroup`, `millerLoop_opt_eq_ref_bn` (with
    `q := refOfOptG2 G2`, `p := refOfOptG1 G1`) -/
example : GoodO Canon (refOfOptG2 bnG2)
    ∧ toAff (mapT toQ bnG2) = mapO (toQ : RBn2 → K2bn) (refOfOptG2 bnG2)
    ∧ toAff bnG1 = refOfOptG1 bnG1
    ∧ OptBn.is_on_curve bnG1 (Fq.ofInt optimized_bn128_b : Fq bnP) = true ∧ bnG1.2.2 ≠ 0 :=
  ⟨(refOfOptG2_repr (by decide +kernel)).1, (refOfOptG2_repr (by decide +kernel)).2,
    refOfOptG1_repr bnG1, C07M.Bn.bnG1_facts.1, by decide⟩

/-- at the generators both sides of the theorems are returned values, not exceptions: the guards pass
    and no point is ∞ (the optimized side; the reference side then follows from the theorem) -/
example : ∃ f, pairingOptBn bnG2 bnG1 true = .ok f := by
  have h2 : Gen.OptBn.is_on_curve bnG2 (⟨optimized_bn128_b2⟩ : OBn2) = true := C07.Facts.bn_G2_opt.1
  have h1 : Gen.OptBn.is_on_curve bnG1 (Fq.ofInt optimized_bn128_b : Fq bnP) = true :=
    C07M.Bn.bnG1_facts.1
  have hz : ¬ (bnG1.2.2 = 0 ∨ bnG2.2.2 = 0) := by decide
  rw [pairingOptBn_eq, h2, h1, if_neg (by decide), if_neg (by decide), if_neg hz]
  exact ⟨_, rfl⟩

end PyEcc.C12MB
