/-
  PyEcc.Props.C15 — `expand_message_xmd` and `hash_to_field_{FQ,FQ2}` of py_ecc are exactly
  RFC 9380 §5.3.1 / §5.2, for every hash function, message, tag, length and count.
  (Core Lean only.)
-/
import PyEcc.Lemmas.Xmd

namespace PyEcc.C15

/-! ### expand_message_xmd -/

/-- The exception kind raised by the implementation in the cases where RFC 9380 aborts:
    `ValueError` (the two explicit `raise`s) when `len(DST) > 255` or `ell > 255`; otherwise
    (`len_in_bytes > 65535` with `ell ≤ 255`) the `OverflowError` of `i2osp(len_in_bytes, 2)`. -/
def xmdErr (H : HashFn) (dst : Bytes) (len : Nat) : PyErr :=
  if dst.length > 255 ∨ Spec.ceilDiv len H.digestSize > 255 then .value else .overflow

/-- **C15 (expand_message_xmd = RFC 9380 §5.3.1).**  For every hash function `H` with a positive
    digest size, every message, tag and requested length, `expand_message_xmd(msg, DST, len, H)`
    returns exactly the bytes the RFC prescribes, and raises exactly when the RFC aborts:
    `ValueError` if `len(DST) > 255` or `ell = ceil(len/b) > 255`, `OverflowError` (from
    `i2osp(len, 2)`) if neither holds but `len > 65535`.
    The guard `0 < H.digestSize` is needed: with `digest_size = 0` Python raises
    `ZeroDivisionError`, which the model (Lean's `x / 0 = 0`) does not reproduce. -/
theorem xmd_eq_spec (H : HashFn) (msg dst : Bytes) (len : Nat) (hd : 0 < H.digestSize) :
    expandMessageXmd H msg dst len =
      match Spec.expandMessageXmd H msg dst len with
      | some b => .ok b
      | none => .error (xmdErr H dst len) := by
  unfold expandMessageXmd Spec.expandMessageXmd xmdErr
  simp only [ceilDiv_eq_spec len hd]
  generalize hell : Spec.ceilDiv len H.digestSize = ell
  by_cases h1 : dst.length > 255
  · simp [h1, throw, throwThe, MonadExceptOf.throw, bind, Except.bind]
  by_cases h2 : ell > 255
  · simp [h1, h2, throw, throwThe, MonadExceptOf.throw, bind, Except.bind]
  have hdl : i2osp dst.length 1 = .ok (Spec.I2OSP dst.length 1) := i2osp_eq_ok (by omega)
  by_cases h3 : len > 65535
  · have hl : i2osp len 2 = .error .overflow := i2osp_eq_overflow (by omega)
    simp [h1, h2, h3, hdl, hl, bind, Except.bind]
  have hl : i2osp len 2 = .ok (Spec.I2OSP len 2) := i2osp_eq_ok (by omega)
  simp only [h1, h2, h3, hdl, hl, bind, Except.bind, pure, Except.pure, or_self, if_false]
  -- the common `b_0`
  have hb0 : H.run (List.replicate H.blockSize 0 ++ msg ++ Spec.I2OSP len 2 ++ [0] ++
      (dst ++ Spec.I2OSP dst.length 1)) = Spec.xmdB0 H msg (dst ++ Spec.I2OSP dst.length 1) len := by
    unfold Spec.xmdB0
    rw [I2OSP_zero, I2OSP_one]
    rfl
  rw [hb0]
  generalize Spec.xmdB0 H msg (dst ++ Spec.I2OSP dst.length 1) len = b0
  generalize dst ++ Spec.I2OSP dst.length 1 = dp
  have hb1 : [H.run (b0 ++ [1] ++ dp)] = specBs H b0 dp (0 + 1) := by
    simp only [specBs, List.range_succ, List.range_zero, List.nil_append, List.map_cons,
      List.map_nil, Spec.xmdB, I2OSP_one]
    rfl
  rw [hb1, xmdLoop_spec H b0 dp (ell + 1 - 2) 0 (by omega)]
  show Except.ok _ = Except.ok _
  congr 1
  unfold Spec.substr
  rw [List.drop_zero]
  by_cases hz : ell = 0
  · -- `ell = 0` happens exactly for `len = 0`: both sides are the empty string
    have : len = 0 := by
      have := (spec_ceilDiv_le_iff len 0 hd).mp (by omega)
      omega
    subst this
    simp
  · rw [show 0 + 1 + (ell + 1 - 2) = ell by omega]
    rfl

example : 0 < sha256Fn.digestSize := by decide

/-- **C15 (error characterisation).**  `expand_message_xmd` raises an exception if and only if
    `len(DST) > 255`, or `ceil(len_in_bytes / b_in_bytes) > 255`, or `len_in_bytes ≥ 65536`
    — exactly the ABORT condition of RFC 9380 §5.3.1 step 2. -/
theorem xmd_error_iff (H : HashFn) (msg dst : Bytes) (len : Nat) (hd : 0 < H.digestSize) :
    (∃ e, expandMessageXmd H msg dst len = .error e) ↔
      dst.length > 255 ∨ Spec.ceilDiv len H.digestSize > 255 ∨ len ≥ 65536 := by
  rw [xmd_eq_spec H msg dst len hd, ← spec_xmd_none_iff H msg dst len]
  cases Spec.expandMessageXmd H msg dst len with
  | none => simp
  | some b => simp

/-- **C15 (which exception).**  When it raises, the exception is `ValueError` if `len(DST) > 255` or
    `ell > 255`, and otherwise `OverflowError`. -/
theorem xmd_error_kind (H : HashFn) (msg dst : Bytes) (len : Nat) (hd : 0 < H.digestSize) (e : PyErr)
    (h : expandMessageXmd H msg dst len = .error e) : e = xmdErr H dst len := by
  rw [xmd_eq_spec H msg dst len hd] at h
  cases hs : Spec.expandMessageXmd H msg dst len with
  | none => rw [hs] at h; injection h with h; exact h.symm
  | some b => rw [hs] at h; cases h

/-- **C15 (the OverflowError branch is unreachable for real hashes).**  `OverflowError` (requested
    length ≥ 65536 although `ell ≤ 255`) requires a digest of at least 258 bytes; no hash in
    `hashlib` is that wide, so with SHA-2/SHA-3/BLAKE2 every failure is a `ValueError`. -/
theorem xmd_overflow_digest (H : HashFn) (msg dst : Bytes) (len : Nat) (hd : 0 < H.digestSize)
    (h : expandMessageXmd H msg dst len = .error .overflow) : 258 ≤ H.digestSize ∧ 65536 ≤ len := by
  have hk := xmd_error_kind H msg dst len hd _ h
  have he := (xmd_error_iff H msg dst len hd).mp ⟨_, h⟩
  unfold xmdErr at hk
  split at hk
  · cases hk
  · rename_i hn
    have hlen : 65536 ≤ len := by omega
    refine ⟨?_, hlen⟩
    have h255 : Spec.ceilDiv len H.digestSize ≤ 255 := by omega
    have := (spec_ceilDiv_le_iff len 255 hd).mp h255
    omega

/-- the overflow branch is reachable in the model for a (hypothetical) 258-byte digest -/
example : expandMessageXmd { digestSize := 258, blockSize := 1, run := fun _ => [] } [] [] 65536
    = .error .overflow := by rfl

/-- **C15 (output length).**  For a hash function whose digests all have `digest_size` bytes, a
    successful `expand_message_xmd(msg, DST, len_in_bytes, H)` returns exactly `len_in_bytes` bytes. -/
theorem xmd_length (H : HashFn) (hw : H.WF) (msg dst : Bytes) (len : Nat) (out : Bytes)
    (h : expandMessageXmd H msg dst len = .ok out) : out.length = len := by
  rw [xmd_eq_spec H msg dst len hw.digest_pos] at h
  cases hs : Spec.expandMessageXmd H msg dst len with
  | none => rw [hs] at h; cases h
  | some b =>
    rw [hs] at h
    injection h with h
    subst h
    exact spec_xmd_length H hw msg dst len b hs

example : sha256Fn.WF := sha256Fn_WF

/-! ### hash_to_field -/

/-- **C15 (hash_to_field_FQ2 = RFC 9380 §5.2 with m = 2, L = 64).**  For every hash function with
    positive digest size, modulus `p`, message, tag and `count`: `hash_to_field_FQ2(msg, count, DST, H)`
    returns the `count` elements `(e_0, e_1)` the RFC prescribes (`e_j = OS2IP(substr(uniform_bytes,
    64·(j + 2i), 64)) mod p`, big-endian), and raises exactly when `expand_message_xmd` aborts for
    `len_in_bytes = count·2·64`, with the same exception kind.  The model's pairs `(c0, c1)` are
    compared with the specification's coefficient lists `[e_0, e_1]`. -/
theorem h2f_fq2_eq_spec (H : HashFn) (p : Nat) (msg : Bytes) (count : Nat) (dst : Bytes)
    (hd : 0 < H.digestSize) :
    (hashToFieldFq2 H p msg count dst).map (fun u => u.map fun c => [c.1, c.2]) =
      match Spec.hashToField H p 2 64 msg dst count with
      | some u => .ok u
      | none => .error (xmdErr H dst (count * 2 * 64)) := by
  unfold hashToFieldFq2 Spec.hashToField
  dsimp only
  rw [xmd_eq_spec H msg dst _ hd]
  cases Spec.expandMessageXmd H msg dst (count * 2 * 64) with
  | none => rfl
  | some prb =>
    simp only [bind, Except.bind, pure, Except.pure, Except.map, Option.map, List.map_map]
    congr 1
    apply List.map_congr_left
    intro i _
    simp [List.range_succ, Spec.substr, OS2IP_eq_os2ip]

/-- **C15 (hash_to_field_FQ = RFC 9380 §5.2 with m = 1, L = 64).**  As `h2f_fq2_eq_spec`, for the
    base field: `u_i = OS2IP(substr(uniform_bytes, 64·i, 64)) mod p`, `len_in_bytes = count·1·64`.
    The model's integers `c` are compared with the specification's one-element lists `[e_0]`. -/
theorem h2f_fq_eq_spec (H : HashFn) (p : Nat) (msg : Bytes) (count : Nat) (dst : Bytes)
    (hd : 0 < H.digestSize) :
    (hashToFieldFq H p msg count dst).map (fun u => u.map fun c => [c]) =
      match Spec.hashToField H p 1 64 msg dst count with
      | some u => .ok u
      | none => .error (xmdErr H dst (count * 1 * 64)) := by
  unfold hashToFieldFq Spec.hashToField
  dsimp only
  rw [xmd_eq_spec H msg dst _ hd]
  cases Spec.expandMessageXmd H msg dst (count * 1 * 64) with
  | none => rfl
  | some prb =>
    simp only [bind, Except.bind, pure, Except.pure, Except.map, Option.map, List.map_map]
    congr 1
    apply List.map_congr_left
    intro i _
    simp [List.range_succ, Spec.substr, OS2IP_eq_os2ip]

/-- **C15 (SHA-256 instance).**  With SHA-256, `expand_message_xmd` succeeds (and then returns the
    RFC's value, by `xmd_eq_spec`) iff `len(DST) ≤ 255` and `len_in_bytes ≤ 255·32 = 8160`; for
    `hash_to_field` that is `count·m·64 ≤ 8160`. -/
theorem xmd_sha256_ok_iff (msg dst : Bytes) (len : Nat) :
    (∃ out, expandMessageXmd sha256Fn msg dst len = .ok out) ↔ dst.length ≤ 255 ∧ len ≤ 8160 := by
  have h := xmd_error_iff sha256Fn msg dst len (by decide)
  have hc := spec_ceilDiv_le_iff len 255 (b := sha256Fn.digestSize) (by decide)
  have h32 : sha256Fn.digestSize = 32 := rfl
  rw [h32] at h hc
  constructor
  · intro ⟨out, ho⟩
    have : ¬ ∃ e, expandMessageXmd sha256Fn msg dst len = .error e := by
      intro ⟨e, he⟩; rw [ho] at he; cases he
    rw [h] at this
    omega
  · intro hh
    cases ho : expandMessageXmd sha256Fn msg dst len with
    | ok out => exact ⟨out, rfl⟩
    | error e =>
      have := h.mp ⟨e, ho⟩
      omega

end PyEcc.C15
