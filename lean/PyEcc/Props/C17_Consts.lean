/-
  PyEcc.Props.C17_Consts — property C17, constant level: the cofactors and effective cofactors of
  BLS12-381 that py_ecc multiplies by (`H_EFF_G1`, `H_EFF_G2`, `G2_COFACTOR`) are the values of
  RFC 9380 §8.8 / the pairing-friendly-curves draft, they are what the polynomial formulas in the
  curve seed `x = −0xd201000000010000` give, and they are coprime to the group order `r`
  (which is what makes `subgroup_check` exact and cofactor clearing non-degenerate, see
  `Props/C17.lean` for the group theory).  Also the derived integer constants of
  `py_ecc/bls/constants.py` and `py_ecc/optimized_bls12_381/constants.py`.

  `Gen.Consts.*` are regenerated from the Python tree on every run; a changed constant makes a
  theorem here fail.  Everything is closed-term kernel evaluation.  Core Lean only.
-/
import PyEcc.Spec.Standards
import PyEcc.Model.Curve

set_option maxRecDepth 100000

namespace PyEcc.C17
open PyEcc.Gen.Consts

/-! ### Part A: the specification literals against the seed formulas (no `Gen`) -/

/-- G1 cofactor: `h₁ = (x−1)²/3`, stated without division. -/
theorem spec_h1_from_seed : (Spec.BLS12381.h1 : Int) * 3 = (Spec.BLS12381.x - 1) ^ 2 := by
  decide +kernel

/-- `#E(Fp) = p + 1 − t = h₁·r` with trace `t = x + 1`. -/
theorem spec_h1_r :
    (Spec.BLS12381.h1 : Int) * Spec.BLS12381.r
      = (Spec.BLS12381.p : Int) + 1 - (Spec.BLS12381.x + 1) := by decide +kernel

/-- G2 cofactor: `h₂ = (x⁸ − 4x⁷ + 5x⁶ − 4x⁴ + 6x³ − 4x² − 4x + 13)/9`, stated without division. -/
theorem spec_h2_from_seed :
    let x := Spec.BLS12381.x
    (Spec.BLS12381.h2 : Int) * 9
      = x ^ 8 - 4 * x ^ 7 + 5 * x ^ 6 - 4 * x ^ 4 + 6 * x ^ 3 - 4 * x ^ 2 - 4 * x + 13 := by
  decide +kernel

/-- `h₂·r` is the order of the sextic twist predicted by the CM equation: with `t = x + 1`,
    `t₂ = t² − 2p` (trace over `Fp²`), `f = (x−1)(2x²−1)/3` (so `4p − t² = 3f²`), the twist has
    `p² + 1 − (t₂ − 3tf)/2` points, and that number is `h₂·r`.  (That `E'(Fp²)` really has this many
    points is hypothesis HB2 — point counting is not available; this is the arithmetic half.) -/
theorem spec_h2_r_twist_order :
    let x := Spec.BLS12381.x; let p : Int := Spec.BLS12381.p; let t := Spec.BLS12381.t
    let f := (x - 1) * (2 * x ^ 2 - 1) / 3
    ((x - 1) * (2 * x ^ 2 - 1)) % 3 = 0 ∧ 4 * p - t ^ 2 = 3 * f ^ 2 ∧
    ((t ^ 2 - 2 * p) - 3 * t * f) % 2 = 0 ∧
    (Spec.BLS12381.h2 : Int) * Spec.BLS12381.r = p ^ 2 + 1 - ((t ^ 2 - 2 * p) - 3 * t * f) / 2 := by
  decide +kernel

/-- RFC 9380 §8.8.1: `h_eff(G1) = 1 − x`. -/
theorem spec_hEffG1_from_seed : (Spec.H2C.hEffG1 : Int) = 1 - Spec.BLS12381.x := by decide +kernel

/-- RFC 9380 §8.8.2: `h_eff(G2) = h₂ · (3x² − 3)`. -/
theorem spec_hEffG2_from_seed :
    (Spec.H2C.hEffG2 : Int) = Spec.BLS12381.h2 * (3 * Spec.BLS12381.x ^ 2 - 3) := by decide +kernel

/-! ### Part B: the library's constants -/

/-- `H_EFF_G1` (the scalar `clear_cofactor_G1` multiplies by) is RFC 9380's `0xd201000000010001`,
    i.e. `1 − x`. -/
theorem H_EFF_G1_eq :
    h2c_H_EFF_G1 = Spec.H2C.hEffG1 ∧ (h2c_H_EFF_G1 : Int) = 1 - Spec.BLS12381.x := by decide +kernel

/-- `G2_COFACTOR` of `py_ecc/bls/constants.py` is the standard `h₂`, i.e. the seed polynomial
    `(x⁸ − 4x⁷ + 5x⁶ − 4x⁴ + 6x³ − 4x² − 4x + 13)/9`. -/
theorem G2_COFACTOR_eq :
    let x := Spec.BLS12381.x
    blsconst_G2_COFACTOR = Spec.BLS12381.h2 ∧
    (blsconst_G2_COFACTOR : Int) * 9
      = x ^ 8 - 4 * x ^ 7 + 5 * x ^ 6 - 4 * x ^ 4 + 6 * x ^ 3 - 4 * x ^ 2 - 4 * x + 13 := by
  decide +kernel

/-- `H_EFF_G2` (the scalar `clear_cofactor_G2` multiplies by) is RFC 9380's value, i.e.
    `G2_COFACTOR · (3x² − 3)`; in particular the true cofactor `h₂` divides it. -/
theorem H_EFF_G2_eq :
    h2c_H_EFF_G2 = Spec.H2C.hEffG2 ∧
    (h2c_H_EFF_G2 : Int) = (blsconst_G2_COFACTOR : Int) * (3 * Spec.BLS12381.x ^ 2 - 3) ∧
    blsconst_G2_COFACTOR ∣ h2c_H_EFF_G2 := by
  refine ⟨by decide +kernel, by decide +kernel, ?_⟩
  exact Nat.dvd_of_mod_eq_zero (by decide +kernel)

/-- `#E(Fp) = h₁·r = p + 1 − (x + 1)` with the library's own `field_modulus` and `curve_order`. -/
theorem h1_r_eq :
    (Spec.BLS12381.h1 : Int) * (optimized_bls12_381_curve_order : Int)
      = (optimized_bls12_381_field_modulus : Int) + 1 - (Spec.BLS12381.x + 1) := by decide +kernel

/-- The G1 cofactor is coprime to the library's `curve_order`: a point of `E(Fp)` killed by `h₁`
    and by `r` is the identity, so `subgroup_check` rejects every `k·G + T` with `T ≠ 0` in the
    cofactor part (`reject_mixed` in `Props/C17.lean`). -/
theorem coprime_h1_r : Nat.Coprime Spec.BLS12381.h1 blsR := by decide +kernel

/-- The G2 cofactor (`G2_COFACTOR`) is coprime to the library's `curve_order`. -/
theorem coprime_h2_r : Nat.Coprime blsconst_G2_COFACTOR blsR := by decide +kernel

/-- `H_EFF_G1 = 1 − x` is coprime to `curve_order`: clearing the cofactor is a bijection on the
    `r`-torsion (it does not collapse G1), and `H_EFF_G1² = 3·h₁`. -/
theorem coprime_H_EFF_G1_r :
    Nat.Coprime h2c_H_EFF_G1 blsR ∧ h2c_H_EFF_G1 ^ 2 = 3 * Spec.BLS12381.h1 := by decide +kernel

/-- `H_EFF_G2` is coprime to `curve_order`: clearing the cofactor is a bijection on the `r`-torsion
    (it does not collapse G2). -/
theorem coprime_H_EFF_G2_r : Nat.Coprime h2c_H_EFF_G2 blsR := by decide +kernel

/-- The derived integer constants of `py_ecc/bls/constants.py`: `FQ2_ORDER = p² − 1`,
    `POW_2_381 … POW_2_384 = 2³⁸¹ … 2³⁸⁴` (the flag bits of the ZCash point encoding). -/
theorem bls_constants :
    blsconst_FQ2_ORDER = Spec.BLS12381.p ^ 2 - 1 ∧
    blsconst_POW_2_381 = 2 ^ 381 ∧ blsconst_POW_2_382 = 2 ^ 382 ∧
    blsconst_POW_2_383 = 2 ^ 383 ∧ blsconst_POW_2_384 = 2 ^ 384 := by decide +kernel

/-- `p < 2³⁸¹`: a field element fits below the three flag bits of a 48-byte encoding, and
    `2³⁸⁴ = 256⁴⁸`. -/
theorem p_lt_pow_2_381 : Spec.BLS12381.p < blsconst_POW_2_381 ∧ blsconst_POW_2_384 = 256 ^ 48 := by
  decide +kernel

/-- The square-root exponents of the optimized SWU maps: `P_MINUS_3_DIV_4 = (p − 3)/4` and
    `P_MINUS_9_DIV_16 = (p² − 9)/16`, both divisions exact. -/
theorem sqrt_exponents :
    h2c_P_MINUS_3_DIV_4 * 4 = Spec.BLS12381.p - 3 ∧ 3 ≤ Spec.BLS12381.p ∧
    h2c_P_MINUS_9_DIV_16 * 16 = Spec.BLS12381.p ^ 2 - 9 ∧ 9 ≤ Spec.BLS12381.p ^ 2 := by
  decide +kernel

/-- `SQRT_MINUS_11_CUBED² = −11³ = −Z³ (mod p)` (RFC 9380 §F.2 / the 3-mod-4 SWU shortcut for G1). -/
theorem sqrt_minus_11_cubed :
    (h2c_SQRT_MINUS_11_CUBED ^ 2 + 11 ^ 3) % Spec.BLS12381.p = 0 ∧
    h2c_SQRT_MINUS_11_CUBED < Spec.BLS12381.p := by decide +kernel

end PyEcc.C17
