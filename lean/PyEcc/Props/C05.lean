/-
  PyEcc.Props.C05 — property C05 (pairings): what is provable today.

  Part 1 (unconditional, about the model `PyEcc.Model.Pairing` of the four `pairing` functions of
  py_ecc: reference/optimized × bls12_381/bn128):
    * `pairing_inf_left`, `pairing_inf_right` : the point at infinity in either argument gives the
      unit `FQ12.one()` (with and without final exponentiation for the optimized modules);
    * `pairing_offcurve` : an argument that fails `is_on_curve` is refused with `ValueError`
      instead of being paired;
    * `pairingOptBls_error_iff`, `pairingOptBn_error_iff` : the optimized pairings raise **iff** a
      guard fails, and then the exception is `ValueError` (no other failure mode exists).

  Part 2 (**conditional on HB1**): bilinearity of the Miller-loop pairing is NOT provable with
  today's Mathlib (no theory of divisors on curves).  It is the named hypothesis `HB1` (§3.8 of
  DESIGN.md): additivity in each argument.  Everything else the property lists — the scalar form
  `e(bQ, aP) = e(Q,P)^(ab)`, unit on the neutral element, inverse on negation, `e(Q,P)^r = 1` —
  is proved here from `HB1` in the abstract (any additive commutative groups `A`, `B`, any
  commutative group `T`; and the variant for values in a field, `HB1₀`), so that additivity is
  visibly the ONLY missing ingredient.
-/
import Mathlib.Algebra.Group.Basic
import Mathlib.Algebra.Group.Units.Basic
import Mathlib.Algebra.GroupWithZero.Units.Basic
import Mathlib.Algebra.Ring.Int.Defs
import PyEcc.Model.Pairing

set_option maxRecDepth 100000

namespace PyEcc.C05
open PyEcc PyEcc.Gen.Consts

/-! ## Part 1 — unit on ∞, refusal of off-curve arguments (unconditional) -/

/-! ### the generated guards on the point at infinity -/

section guards
set_option linter.unusedSectionVars false
variable {F : Type} [Zero F] [One F] [Add F] [Sub F] [Mul F] [Neg F] [Div F] [NatCast F]
  [Pow F Nat] [DecidableEq F]

/-- reference bls12_381 `is_on_curve(None, b)` is `True` -/
theorem refBls_is_on_curve_none (b : F) : Gen.RefBls.is_on_curve (none : Option (F × F)) b = true := by
  simp [Gen.RefBls.is_on_curve]

/-- reference bn128 `is_on_curve(None, b)` is `True` -/
theorem refBn_is_on_curve_none (b : F) : Gen.RefBn.is_on_curve (none : Option (F × F)) b = true := by
  simp [Gen.RefBn.is_on_curve]

/-- optimized bls12_381: any triple with `z = 0` passes `is_on_curve` -/
theorem optBls_is_on_curve_inf (pt : F × F × F) (b : F) (hz : pt.2.2 = 0) :
    Gen.OptBls.is_on_curve pt b = true := by
  simp [Gen.OptBls.is_on_curve, Gen.OptBls.is_inf, hz]

/-- optimized bn128: any triple with `z = 0` passes `is_on_curve` -/
theorem optBn_is_on_curve_inf (pt : F × F × F) (b : F) (hz : pt.2.2 = 0) :
    Gen.OptBn.is_on_curve pt b = true := by
  simp [Gen.OptBn.is_on_curve, Gen.OptBn.is_inf, hz]

end guards

/-! ### reference bls12_381 -/

/-- Reference bls12_381 `pairing(None, P) = FQ12.one()` for every `P` that passes `is_on_curve`
    (`None` is the point at infinity of the reference modules; `miller_loop` returns `FQ12.one()`
    before the loop, no final exponentiation is applied). -/
theorem pairingRefBls_inf_left (P : Option (Fq blsP × Fq blsP))
    (hP : Gen.RefBls.is_on_curve P (Fq.ofInt bls12_381_b) = true) :
    pairingRefBls none P = .ok 1 := by
  unfold pairingRefBls
  rw [refBls_is_on_curve_none, hP]
  simp [twistRefBls, refMillerLoop]
  rfl

/-- Reference bls12_381 `pairing(Q, None) = FQ12.one()` for every `Q` that passes `is_on_curve`. -/
theorem pairingRefBls_inf_right (Q : Option (RBls2 × RBls2))
    (hQ : Gen.RefBls.is_on_curve Q ⟨bls12_381_b2⟩ = true) :
    pairingRefBls Q none = .ok 1 := by
  unfold pairingRefBls
  rw [refBls_is_on_curve_none, hQ]
  simp [refMillerLoop]
  rfl

/-- Reference bls12_381 `pairing(Q, P)` raises `ValueError` when `Q` or `P` fails `is_on_curve`;
    nothing is paired. -/
theorem pairingRefBls_offcurve (Q : Option (RBls2 × RBls2)) (P : Option (Fq blsP × Fq blsP))
    (h : Gen.RefBls.is_on_curve Q ⟨bls12_381_b2⟩ = false ∨
         Gen.RefBls.is_on_curve P (Fq.ofInt bls12_381_b) = false) :
    pairingRefBls Q P = .error .value := by
  unfold pairingRefBls
  cases hQ : Gen.RefBls.is_on_curve Q (⟨bls12_381_b2⟩ : RBls2)
  · rfl
  · rcases h with h | h
    · rw [hQ] at h; cases h
    · rw [h]; rfl

/-! ### reference bn128 -/

/-- Reference bn128 `pairing(None, P) = FQ12.one()` for every `P` that passes `is_on_curve`. -/
theorem pairingRefBn_inf_left (P : Option (Fq bnP × Fq bnP))
    (hP : Gen.RefBn.is_on_curve P (Fq.ofInt bn128_b) = true) :
    pairingRefBn none P = .ok 1 := by
  unfold pairingRefBn
  rw [refBn_is_on_curve_none, hP]
  simp [twistRefBn, refMillerLoop]
  rfl

/-- Reference bn128 `pairing(Q, None) = FQ12.one()` for every `Q` that passes `is_on_curve`. -/
theorem pairingRefBn_inf_right (Q : Option (RBn2 × RBn2))
    (hQ : Gen.RefBn.is_on_curve Q ⟨bn128_b2⟩ = true) :
    pairingRefBn Q none = .ok 1 := by
  unfold pairingRefBn
  rw [refBn_is_on_curve_none, hQ]
  simp [refMillerLoop]
  rfl

/-- Reference bn128 `pairing(Q, P)` raises `ValueError` when `Q` or `P` fails `is_on_curve`. -/
theorem pairingRefBn_offcurve (Q : Option (RBn2 × RBn2)) (P : Option (Fq bnP × Fq bnP))
    (h : Gen.RefBn.is_on_curve Q ⟨bn128_b2⟩ = false ∨
         Gen.RefBn.is_on_curve P (Fq.ofInt bn128_b) = false) :
    pairingRefBn Q P = .error .value := by
  unfold pairingRefBn
  cases hQ : Gen.RefBn.is_on_curve Q (⟨bn128_b2⟩ : RBn2)
  · rfl
  · rcases h with h | h
    · rw [hQ] at h; cases h
    · rw [h]; rfl

/-! ### optimized bls12_381 -/

/-- Optimized bls12_381 `pairing(Q, P, final_exponentiate)` raises an exception **iff** `Q` or `P`
    fails `is_on_curve`, and the exception is then `ValueError`: off-curve arguments are refused,
    and there is no other way for the function to fail. -/
theorem pairingOptBls_error_iff (Q : OBls2 × OBls2 × OBls2) (P : Fq blsP × Fq blsP × Fq blsP)
    (fe : Bool) (e : PyErr) :
    pairingOptBls Q P fe = .error e ↔
      (Gen.OptBls.is_on_curve Q (⟨optimized_bls12_381_b2⟩ : OBls2) = false ∨
       Gen.OptBls.is_on_curve P (Fq.ofInt optimized_bls12_381_b) = false) ∧ e = .value := by
  unfold pairingOptBls
  cases hQ : Gen.OptBls.is_on_curve Q (⟨optimized_bls12_381_b2⟩ : OBls2) <;>
  cases hP : Gen.OptBls.is_on_curve P (Fq.ofInt optimized_bls12_381_b : Fq blsP)
  all_goals simp [bind, Except.bind, throw, throwThe, MonadExceptOf.throw, pure, Except.pure, eq_comm]
  split <;> simp

/-- Optimized bls12_381 `pairing(Q, P, fe)` raises `ValueError` when `Q` or `P` fails
    `is_on_curve` (for both values of `final_exponentiate`). -/
theorem pairingOptBls_offcurve (Q : OBls2 × OBls2 × OBls2) (P : Fq blsP × Fq blsP × Fq blsP)
    (fe : Bool)
    (h : Gen.OptBls.is_on_curve Q (⟨optimized_bls12_381_b2⟩ : OBls2) = false ∨
         Gen.OptBls.is_on_curve P (Fq.ofInt optimized_bls12_381_b) = false) :
    pairingOptBls Q P fe = .error .value :=
  (pairingOptBls_error_iff Q P fe .value).mpr ⟨h, rfl⟩

/-- Optimized bls12_381: if `Q` is a representative of infinity (`z = 0`, any `x`, `y`) and `P`
    passes `is_on_curve`, `pairing(Q, P, fe) = FQ12.one()` for both values of `final_exponentiate`. -/
theorem pairingOptBls_inf_left (Q : OBls2 × OBls2 × OBls2) (P : Fq blsP × Fq blsP × Fq blsP)
    (fe : Bool) (hQ : Q.2.2 = 0)
    (hP : Gen.OptBls.is_on_curve P (Fq.ofInt optimized_bls12_381_b) = true) :
    pairingOptBls Q P fe = .ok 1 := by
  unfold pairingOptBls
  rw [optBls_is_on_curve_inf Q _ hQ, hP]
  simp [hQ]
  rfl

/-- Optimized bls12_381: if `P` is a representative of infinity (`z = 0`) and `Q` passes
    `is_on_curve`, `pairing(Q, P, fe) = FQ12.one()` for both values of `final_exponentiate`. -/
theorem pairingOptBls_inf_right (Q : OBls2 × OBls2 × OBls2) (P : Fq blsP × Fq blsP × Fq blsP)
    (fe : Bool) (hP : P.2.2 = 0)
    (hQ : Gen.OptBls.is_on_curve Q (⟨optimized_bls12_381_b2⟩ : OBls2) = true) :
    pairingOptBls Q P fe = .ok 1 := by
  unfold pairingOptBls
  rw [optBls_is_on_curve_inf P _ hP, hQ]
  simp [hP]
  rfl

/-! ### optimized bn128 -/

/-- Optimized bn128 `pairing(Q, P, final_exponentiate)` raises an exception **iff** `Q` or `P`
    fails `is_on_curve`, and the exception is then `ValueError`. -/
theorem pairingOptBn_error_iff (Q : OBn2 × OBn2 × OBn2) (P : Fq bnP × Fq bnP × Fq bnP)
    (fe : Bool) (e : PyErr) :
    pairingOptBn Q P fe = .error e ↔
      (Gen.OptBn.is_on_curve Q (⟨optimized_bn128_b2⟩ : OBn2) = false ∨
       Gen.OptBn.is_on_curve P (Fq.ofInt optimized_bn128_b) = false) ∧ e = .value := by
  unfold pairingOptBn
  cases hQ : Gen.OptBn.is_on_curve Q (⟨optimized_bn128_b2⟩ : OBn2) <;>
  cases hP : Gen.OptBn.is_on_curve P (Fq.ofInt optimized_bn128_b : Fq bnP)
  all_goals simp [bind, Except.bind, throw, throwThe, MonadExceptOf.throw, pure, Except.pure, eq_comm]
  split <;> simp

/-- Optimized bn128 `pairing(Q, P, fe)` raises `ValueError` when `Q` or `P` fails `is_on_curve`. -/
theorem pairingOptBn_offcurve (Q : OBn2 × OBn2 × OBn2) (P : Fq bnP × Fq bnP × Fq bnP)
    (fe : Bool)
    (h : Gen.OptBn.is_on_curve Q (⟨optimized_bn128_b2⟩ : OBn2) = false ∨
         Gen.OptBn.is_on_curve P (Fq.ofInt optimized_bn128_b) = false) :
    pairingOptBn Q P fe = .error .value :=
  (pairingOptBn_error_iff Q P fe .value).mpr ⟨h, rfl⟩

/-- Optimized bn128: `Q` a representative of infinity (`z = 0`), `P` passing `is_on_curve`:
    `pairing(Q, P, fe) = FQ12.one()` for both values of `final_exponentiate`. -/
theorem pairingOptBn_inf_left (Q : OBn2 × OBn2 × OBn2) (P : Fq bnP × Fq bnP × Fq bnP)
    (fe : Bool) (hQ : Q.2.2 = 0)
    (hP : Gen.OptBn.is_on_curve P (Fq.ofInt optimized_bn128_b) = true) :
    pairingOptBn Q P fe = .ok 1 := by
  unfold pairingOptBn
  rw [optBn_is_on_curve_inf Q _ hQ, hP]
  simp [hQ]
  rfl

/-- Optimized bn128: `P` a representative of infinity (`z = 0`), `Q` passing `is_on_curve`:
    `pairing(Q, P, fe) = FQ12.one()` for both values of `final_exponentiate`. -/
theorem pairingOptBn_inf_right (Q : OBn2 × OBn2 × OBn2) (P : Fq bnP × Fq bnP × Fq bnP)
    (fe : Bool) (hP : P.2.2 = 0)
    (hQ : Gen.OptBn.is_on_curve Q (⟨optimized_bn128_b2⟩ : OBn2) = true) :
    pairingOptBn Q P fe = .ok 1 := by
  unfold pairingOptBn
  rw [optBn_is_on_curve_inf P _ hP, hQ]
  simp [hP]
  rfl

/-! ### the four implementations together -/

/-- **C05, unit on ∞ (left argument), all four implementations.**  Reference modules: `pairing(None, P)`
    is `FQ12.one()` for every on-curve `P`.  Optimized modules: every triple `Q` with `z = 0` (any
    representative of infinity) paired with an on-curve `P` gives `FQ12.one()`, with and without
    final exponentiation. -/
theorem pairing_inf_left :
    (∀ P, Gen.RefBls.is_on_curve P (Fq.ofInt bls12_381_b : Fq blsP) = true →
      pairingRefBls none P = .ok 1) ∧
    (∀ P, Gen.RefBn.is_on_curve P (Fq.ofInt bn128_b : Fq bnP) = true →
      pairingRefBn none P = .ok 1) ∧
    (∀ Q P fe, Q.2.2 = 0 →
      Gen.OptBls.is_on_curve P (Fq.ofInt optimized_bls12_381_b : Fq blsP) = true →
      pairingOptBls Q P fe = .ok 1) ∧
    (∀ Q P fe, Q.2.2 = 0 →
      Gen.OptBn.is_on_curve P (Fq.ofInt optimized_bn128_b : Fq bnP) = true →
      pairingOptBn Q P fe = .ok 1) :=
  ⟨pairingRefBls_inf_left, pairingRefBn_inf_left,
   fun Q P fe => pairingOptBls_inf_left Q P fe, fun Q P fe => pairingOptBn_inf_left Q P fe⟩

/-- **C05, unit on ∞ (right argument), all four implementations.** -/
theorem pairing_inf_right :
    (∀ Q, Gen.RefBls.is_on_curve Q (⟨bls12_381_b2⟩ : RBls2) = true →
      pairingRefBls Q none = .ok 1) ∧
    (∀ Q, Gen.RefBn.is_on_curve Q (⟨bn128_b2⟩ : RBn2) = true →
      pairingRefBn Q none = .ok 1) ∧
    (∀ Q P fe, P.2.2 = 0 →
      Gen.OptBls.is_on_curve Q (⟨optimized_bls12_381_b2⟩ : OBls2) = true →
      pairingOptBls Q P fe = .ok 1) ∧
    (∀ Q P fe, P.2.2 = 0 →
      Gen.OptBn.is_on_curve Q (⟨optimized_bn128_b2⟩ : OBn2) = true →
      pairingOptBn Q P fe = .ok 1) :=
  ⟨pairingRefBls_inf_right, pairingRefBn_inf_right,
   fun Q P fe => pairingOptBls_inf_right Q P fe, fun Q P fe => pairingOptBn_inf_right Q P fe⟩

/-- **C05, refusal of off-curve arguments, all four implementations**: if either argument fails the
    module's `is_on_curve`, `pairing` raises `ValueError` (the model returns `.error .value`) — the
    arguments are refused with an error instead of being paired. -/
theorem pairing_offcurve :
    (∀ Q P, (Gen.RefBls.is_on_curve Q (⟨bls12_381_b2⟩ : RBls2) = false ∨
             Gen.RefBls.is_on_curve P (Fq.ofInt bls12_381_b : Fq blsP) = false) →
      pairingRefBls Q P = .error .value) ∧
    (∀ Q P, (Gen.RefBn.is_on_curve Q (⟨bn128_b2⟩ : RBn2) = false ∨
             Gen.RefBn.is_on_curve P (Fq.ofInt bn128_b : Fq bnP) = false) →
      pairingRefBn Q P = .error .value) ∧
    (∀ Q P fe, (Gen.OptBls.is_on_curve Q (⟨optimized_bls12_381_b2⟩ : OBls2) = false ∨
                Gen.OptBls.is_on_curve P (Fq.ofInt optimized_bls12_381_b : Fq blsP) = false) →
      pairingOptBls Q P fe = .error .value) ∧
    (∀ Q P fe, (Gen.OptBn.is_on_curve Q (⟨optimized_bn128_b2⟩ : OBn2) = false ∨
                Gen.OptBn.is_on_curve P (Fq.ofInt optimized_bn128_b : Fq bnP) = false) →
      pairingOptBn Q P fe = .error .value) :=
  ⟨pairingRefBls_offcurve, pairingRefBn_offcurve, pairingOptBls_offcurve, pairingOptBn_offcurve⟩

/-! ### non-vacuity: the hypotheses above are satisfied by concrete points -/

/-- the optimized generators pass the guards -/
example : Gen.OptBls.is_on_curve blsG1 (Fq.ofInt optimized_bls12_381_b) = true ∧
    Gen.OptBls.is_on_curve blsG2 (⟨optimized_bls12_381_b2⟩ : OBls2) = true := by decide +kernel
/-- `(1, 1, 0)` is a triple with `z = 0` -/
example : ((1, 1, 0) : OBls2 × OBls2 × OBls2).2.2 = 0 ∧ ((1, 1, 0) : Fq blsP × Fq blsP × Fq blsP).2.2 = 0 :=
  ⟨rfl, rfl⟩
/-- `(0, 0, 1)` fails the optimized guards, `(0, 0)` the reference guards (`0 - 0 ≠ b`) -/
example : Gen.OptBls.is_on_curve ((0, 0, 1) : Fq blsP × Fq blsP × Fq blsP)
      (Fq.ofInt optimized_bls12_381_b) = false ∧
    Gen.OptBn.is_on_curve ((0, 0, 1) : Fq bnP × Fq bnP × Fq bnP) (Fq.ofInt optimized_bn128_b) = false ∧
    Gen.OptBls.is_on_curve ((0, 0, 1) : OBls2 × OBls2 × OBls2) ⟨optimized_bls12_381_b2⟩ = false ∧
    Gen.OptBn.is_on_curve ((0, 0, 1) : OBn2 × OBn2 × OBn2) ⟨optimized_bn128_b2⟩ = false ∧
    Gen.RefBls.is_on_curve (some (0, 0) : Option (Fq blsP × Fq blsP)) (Fq.ofInt bls12_381_b) = false ∧
    Gen.RefBn.is_on_curve (some (0, 0) : Option (Fq bnP × Fq bnP)) (Fq.ofInt bn128_b) = false ∧
    Gen.RefBls.is_on_curve (some (0, 0) : Option (RBls2 × RBls2)) ⟨bls12_381_b2⟩ = false ∧
    Gen.RefBn.is_on_curve (some (0, 0) : Option (RBn2 × RBn2)) ⟨bn128_b2⟩ = false := by
  decide +kernel
/-- the reference bn128 generator `(1, 2)` and the optimized one `(1, 2, 1)` pass the guards -/
example : Gen.RefBn.is_on_curve (some (Fq.ofInt 1, Fq.ofInt 2) : Option (Fq bnP × Fq bnP))
      (Fq.ofInt bn128_b) = true ∧
    Gen.OptBn.is_on_curve ((Fq.ofInt 1, Fq.ofInt 2, Fq.ofInt 1) : Fq bnP × Fq bnP × Fq bnP)
      (Fq.ofInt optimized_bn128_b) = true := by decide +kernel
/-- concrete instances: `e(∞, G1) = 1`, `e(G2, ∞) = 1`, and `(0,0,1)` is refused -/
example : pairingOptBls (1, 1, 0) blsG1 true = .ok 1 ∧ pairingOptBls (1, 1, 0) blsG1 false = .ok 1 ∧
    pairingOptBls blsG2 (1, 1, 0) true = .ok 1 ∧
    pairingOptBls blsG2 (0, 0, 1) true = .error .value :=
  ⟨pairingOptBls_inf_left _ _ _ rfl (by decide +kernel),
   pairingOptBls_inf_left _ _ _ rfl (by decide +kernel),
   pairingOptBls_inf_right _ _ _ rfl (by decide +kernel),
   pairingOptBls_offcurve _ _ _ (Or.inr (by decide +kernel))⟩

/-! ## Part 2 — conditional on HB1 (bilinearity = additivity in each argument)

`HB1` is the only ingredient of C05's headline clause that is not proved: that the pairing is
additive in each argument.  For the Miller-loop pairings of py_ecc this needs divisors / Weil
reciprocity on elliptic curves, which Mathlib does not have; in the evidence it is sampled on the
model and on the implementation.  Everything below is derived from it in the abstract. -/

section conditional
variable {A B T : Type*} [AddCommGroup A] [AddCommGroup B]

/-- **Named hypothesis HB1 (bilinearity).**  `e : A → B → T` is additive in each argument, written
    multiplicatively in the target: `e(Q + Q', P) = e(Q,P)·e(Q',P)`, `e(Q, P + P') = e(Q,P)·e(Q,P')`.
    For py_ecc: `A` = the order-`r` subgroup G2, `B` = G1, `T` = the non-zero elements of FQ12 and
    `e Q P = pairing(Q, P)`. -/
structure HB1 [CommGroup T] (e : A → B → T) : Prop where
  add_left : ∀ q q' p, e (q + q') p = e q p * e q' p
  add_right : ∀ q p p', e q (p + p') = e q p * e q p'

namespace HB1
variable [CommGroup T] {e : A → B → T}

/-- HB1 ⇒ `e(0, P) = 1` (unit on the neutral element, left). -/
theorem zero_left (h : HB1 e) (p : B) : e 0 p = 1 := by
  have h1 : e 0 p * e 0 p = e 0 p * 1 := by rw [← h.add_left, add_zero, mul_one]
  exact mul_left_cancel h1

/-- HB1 ⇒ `e(Q, 0) = 1` (unit on the neutral element, right). -/
theorem zero_right (h : HB1 e) (q : A) : e q 0 = 1 := by
  have h1 : e q 0 * e q 0 = e q 0 * 1 := by rw [← h.add_right, add_zero, mul_one]
  exact mul_left_cancel h1

/-- HB1 ⇒ `e(n•Q, P) = e(Q,P)^n` for natural `n` (`multiply(Q, n)` is `n • Q`). -/
theorem nsmul_left (h : HB1 e) (n : ℕ) (q : A) (p : B) : e (n • q) p = e q p ^ n := by
  induction n with
  | zero => rw [zero_nsmul, pow_zero, h.zero_left]
  | succ n ih => rw [succ_nsmul, h.add_left, ih, pow_succ]

/-- HB1 ⇒ `e(Q, n•P) = e(Q,P)^n` for natural `n`. -/
theorem nsmul_right (h : HB1 e) (n : ℕ) (q : A) (p : B) : e q (n • p) = e q p ^ n := by
  induction n with
  | zero => rw [zero_nsmul, pow_zero, h.zero_right]
  | succ n ih => rw [succ_nsmul, h.add_right, ih, pow_succ]

/-- HB1 ⇒ `e(−Q, P) = e(Q,P)⁻¹`. -/
theorem neg_left (h : HB1 e) (q : A) (p : B) : e (-q) p = (e q p)⁻¹ := by
  rw [eq_inv_iff_mul_eq_one, ← h.add_left, neg_add_cancel, h.zero_left]

/-- HB1 ⇒ `e(Q, −P) = e(Q,P)⁻¹`. -/
theorem neg_right (h : HB1 e) (q : A) (p : B) : e q (-p) = (e q p)⁻¹ := by
  rw [eq_inv_iff_mul_eq_one, ← h.add_right, neg_add_cancel, h.zero_right]

/-- HB1 ⇒ `e(n•Q, P) = e(Q,P)^n` for integer `n`. -/
theorem zsmul_left (h : HB1 e) (n : ℤ) (q : A) (p : B) : e (n • q) p = e q p ^ n := by
  cases n with
  | ofNat n => rw [Int.ofNat_eq_natCast, natCast_zsmul, zpow_natCast, h.nsmul_left]
  | negSucc n => rw [negSucc_zsmul, zpow_negSucc, h.neg_left, h.nsmul_left]

/-- HB1 ⇒ `e(Q, n•P) = e(Q,P)^n` for integer `n`. -/
theorem zsmul_right (h : HB1 e) (n : ℤ) (q : A) (p : B) : e q (n • p) = e q p ^ n := by
  cases n with
  | ofNat n => rw [Int.ofNat_eq_natCast, natCast_zsmul, zpow_natCast, h.nsmul_right]
  | negSucc n => rw [negSucc_zsmul, zpow_negSucc, h.neg_right, h.nsmul_right]

end HB1

/-- **C05 headline clause, conditional on HB1**: `e(b•Q, a•P) = e(Q,P)^(a·b)` for all natural
    `a`, `b` (the scalars `multiply` accepts) — additivity lifts to the scalar form. -/
theorem bilinear_ab [CommGroup T] {e : A → B → T} (h : HB1 e) (a b : ℕ) (q : A) (p : B) :
    e (b • q) (a • p) = e q p ^ (a * b) := by
  rw [h.nsmul_left, h.nsmul_right, ← pow_mul]

/-- The same for integer scalars. -/
theorem bilinear_ab_int [CommGroup T] {e : A → B → T} (h : HB1 e) (a b : ℤ) (q : A) (p : B) :
    e (b • q) (a • p) = e q p ^ (a * b) := by
  rw [h.zsmul_left, h.zsmul_right, ← zpow_mul]

/-- **Conditional on HB1**: sums — `e(Q+Q', P) = e(Q,P)·e(Q',P)` and `e(Q, P+P') = e(Q,P)·e(Q,P')`
    (this *is* HB1), and unit on the neutral elements `e(Q, 0) = 1`, `e(0, P) = 1`. -/
theorem bilinear_unit [CommGroup T] {e : A → B → T} (h : HB1 e) (q : A) (p : B) :
    e q 0 = 1 ∧ e 0 p = 1 :=
  ⟨h.zero_right q, h.zero_left p⟩

/-- **Conditional on HB1**: negation — `e(−Q, P) = e(Q,P)⁻¹ = e(Q, −P)`, hence
    `e(Q,−P)·e(Q,P) = 1` and `e(−Q,−P) = e(Q,P)`. -/
theorem bilinear_neg [CommGroup T] {e : A → B → T} (h : HB1 e) (q : A) (p : B) :
    e (-q) p = (e q p)⁻¹ ∧ e q (-p) = (e q p)⁻¹ ∧ e q (-p) * e q p = 1 ∧ e (-q) (-p) = e q p := by
  refine ⟨h.neg_left q p, h.neg_right q p, ?_, ?_⟩
  · rw [h.neg_right, inv_mul_cancel]
  · rw [h.neg_left, h.neg_right, inv_inv]

/-- **Conditional on HB1**: order — if `r • P = 0` (or `r • Q = 0`) then `e(Q,P)^r = 1`: pairing
    values on the order-`r` subgroups are `r`-th roots of unity. -/
theorem bilinear_order [CommGroup T] {e : A → B → T} (h : HB1 e) (r : ℕ) (q : A) (p : B)
    (hr : r • p = 0 ∨ r • q = 0) : e q p ^ r = 1 := by
  rcases hr with hr | hr
  · rw [← h.nsmul_right, hr, h.zero_right]
  · rw [← h.nsmul_left, hr, h.zero_left]

/-- **Conditional on HB1**: scalars only matter modulo the order — if `r • P = 0` then
    `e(Q, (a + r)•P) = e(Q, a•P)`. -/
theorem bilinear_mod_order [CommGroup T] {e : A → B → T} (_h : HB1 e) (r a : ℕ) (q : A) (p : B)
    (hr : r • p = 0) : e q ((a + r) • p) = e q (a • p) := by
  rw [add_nsmul, hr, add_zero]

/-! ### the same with values in a field (FQ12), where the pairing value could a priori be `0` -/

/-- HB1 for a map with values in a commutative group-with-zero (a field such as FQ12): additivity
    in each argument **and** the values are non-zero. -/
structure HB1₀ [CommGroupWithZero T] (e : A → B → T) : Prop where
  ne_zero : ∀ q p, e q p ≠ 0
  add_left : ∀ q q' p, e (q + q') p = e q p * e q' p
  add_right : ∀ q p p', e q (p + p') = e q p * e q p'

/-- A non-vanishing bi-additive map into a field is a bi-additive map into its unit group. -/
theorem HB1₀.toUnits [CommGroupWithZero T] {e : A → B → T} (h : HB1₀ e) :
    HB1 (fun q p => Units.mk0 (e q p) (h.ne_zero q p)) where
  add_left q q' p := by ext; simp [h.add_left]
  add_right q p p' := by ext; simp [h.add_right]

/-- **C05 headline clause in a field, conditional on HB1₀**: `e(b•Q, a•P) = e(Q,P)^(a·b)`,
    `e(Q,0) = 1 = e(0,P)`, `e(−Q,P) = e(Q,P)⁻¹ = e(Q,−P)`, and `e(Q,P)^r = 1` when `r•P = 0`. -/
theorem bilinear_field [CommGroupWithZero T] {e : A → B → T} (h : HB1₀ e) (q : A) (p : B) :
    (∀ a b : ℕ, e (b • q) (a • p) = e q p ^ (a * b)) ∧ e q 0 = 1 ∧ e 0 p = 1 ∧
    e (-q) p = (e q p)⁻¹ ∧ e q (-p) = (e q p)⁻¹ ∧ (∀ r : ℕ, r • p = 0 → e q p ^ r = 1) := by
  have hu := h.toUnits
  refine ⟨fun a b => ?_, ?_, ?_, ?_, ?_, fun r hr => ?_⟩
  · simpa using congrArg Units.val (bilinear_ab hu a b q p)
  · simpa using congrArg Units.val (hu.zero_right q)
  · simpa using congrArg Units.val (hu.zero_left p)
  · simpa using congrArg Units.val (hu.neg_left q p)
  · simpa using congrArg Units.val (hu.neg_right q p)
  · simpa using congrArg Units.val (bilinear_order hu r q p (Or.inl hr))

/-- non-vacuity of HB1: `e q p = g^(q·p)` on `ℤ × ℤ` is bi-additive for any `g` in any
    commutative group (the shape a pairing has on cyclic groups with chosen generators). -/
example {G : Type*} [CommGroup G] (g : G) : HB1 (fun (q p : ℤ) => g ^ (q * p)) where
  add_left q q' p := by rw [add_mul, zpow_add]
  add_right q p p' := by rw [mul_add, zpow_add]

/-- non-vacuity of HB1₀ (same map, in a field, `g ≠ 0`). -/
example {K : Type*} [CommGroupWithZero K] (g : K) (hg : g ≠ 0) :
    HB1₀ (fun (q p : ℤ) => g ^ (q * p)) where
  ne_zero q p := zpow_ne_zero _ hg
  add_left q q' p := by rw [add_mul, zpow_add₀ hg]
  add_right q p p' := by rw [mul_add, zpow_add₀ hg]

end conditional

end PyEcc.C05
