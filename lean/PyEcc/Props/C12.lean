/-
  PyEcc.Props.C12 — property C12, the parts about final exponentiation that are provable today
  (the integer identities are in `PyEcc.Props.C12_Exp`).

  * `two_step_final_exp`, `two_step_final_exp_model`, `pairingOptBls_two_step`,
    `pairingOptBn_two_step` : Miller values obtained with `final_exponentiate=False`, multiplied
    together and passed ONCE through `x ↦ x ** E`, equal the product of the individually
    exponentiated pairings — in any commutative monoid, and in the executable FQ12 model.
  * `pairingOptBls_finalExp`, `pairingOptBn_finalExp` : `pairing(Q, P, True)` is
    `pairing(Q, P, False) ** ((p¹²−1)/r)`, including the guards and the early return on ∞.
  * `expByP_eq_sum`, `expByP_add`, `expByP_mulInt` : `exp_by_p` is the table sum, is additive and
    commutes with int scaling.
  * `blsExptable_eq` : the module constant `exptable` of `optimized_bls12_381.optimized_pairing` is
    `[(wⁱ) ** p for i in range(12)]`, all twelve entries.
  * `expByP_eq_pow` : **`exp_by_p(x) == x ** field_modulus` for every `x` in FQ12** (Frobenius is
    additive in characteristic `p`, `c^p = c` in `Fp`, and the table holds `(wⁱ)^p`).

  * `final_exponentiate_of_inv` : the fast `final_exponentiate` as a whole equals the plain power
    `x ** ((p¹²−1)/r)`, given that FQ12 is a field and `FQ12.inv` inverts; both are discharged in
    `PyEcc.Props.C12_Final` (which imports the irreducibility proof of `C08_Fq12`).
-/
import PyEcc.Lemmas.PairingSem
import PyEcc.Lemmas.BlsFrobW
import PyEcc.Props.C12_Exp

set_option maxRecDepth 100000

namespace PyEcc.C12
open Polynomial PyEcc PyEcc.Fqp PyEcc.FqpSem PyEcc.PairingSem PyEcc.Gen.Consts

/-! ### two-step final exponentiation -/

/-- **Two-step form, abstract.**  In any commutative monoid, `(∏ fᵢ) ^ E = ∏ (fᵢ ^ E)`: if
    `final_exponentiate` is `x ↦ x ^ E`, exponentiating the product of Miller values once equals
    multiplying the individually exponentiated pairings. -/
theorem two_step_final_exp {M : Type*} [CommMonoid M] (fs : List M) (E : ℕ) :
    fs.prod ^ E = (fs.map (· ^ E)).prod := by
  induction fs with
  | nil => simp
  | cons f fs ih => rw [List.prod_cons, mul_pow, ih, List.map_cons, List.prod_cons]

/-- **Two-step form in the executable model** (both `FQP` classes, any modulus): for FQP values
    `f₁ … fₙ` (each with `d` coefficients), `(((1·f₁)·f₂)…·fₙ) ** E` and
    `((1·f₁**E)·f₂**E)…·fₙ**E` are the same coefficient list. -/
theorem two_step_final_exp_model {v : Variant} {p : ℕ} {mc : List Int} (hp : 0 < p)
    (hd : 1 ≤ mc.length) (fs : List (Fqp v p mc)) (hfs : ∀ f ∈ fs, WF f) (E : ℕ) :
    (fs.foldl (· * ·) 1) ^ E = (fs.map (· ^ E)).foldl (· * ·) 1 := by
  obtain ⟨w1, q1⟩ := foldl_mul_spec fs hfs 1 (wf_one hd)
  have hfs' : ∀ g ∈ fs.map (· ^ E), WF g := by
    intro g hg
    obtain ⟨f, hf, rfl⟩ := List.mem_map.mp hg
    exact wf_pow hd (hfs f hf) E
  obtain ⟨_, q2⟩ := foldl_mul_spec (fs.map (· ^ E)) hfs' 1 (wf_one hd)
  have e1 : toQ ((fs.foldl (· * ·) 1) ^ E) = toQ (fs.foldl (· * ·) 1) ^ E := toQ_pow hd w1 E
  have t1 : toQ (1 : Fqp v p mc) = 1 := toQ_one
  have key : toQ ((fs.foldl (· * ·) 1) ^ E) = toQ ((fs.map (· ^ E)).foldl (· * ·) 1) := by
    rw [e1, q1, q2, t1, one_mul, one_mul, two_step_final_exp, List.map_map, List.map_map]
    apply congrArg List.prod
    apply List.map_congr_left
    intro f hf
    exact (toQ_pow hd (hfs f hf) E).symm
  exact toQ_inj (canon_pow hp hd w1 E) (canon_foldl_mul hp hd _ _ (canon_one hp hd)) key

/-- non-vacuity: a list of well-formed FQ12 elements -/
example : ∀ f ∈ [(1 : OBls12), blsT1], WF f := by
  intro f hf
  simp only [List.mem_cons, List.not_mem_nil, or_false] at hf
  rcases hf with rfl | rfl
  · exact wf_one blsMc12_len
  · exact wf_blsT1

/-! ### `pairing(Q, P, True)` versus `pairing(Q, P, False)` -/

/-- **Optimized bls12_381**: `pairing(Q, P, final_exponentiate=True)` is
    `pairing(Q, P, final_exponentiate=False) ** ((field_modulus**12 − 1) // curve_order)` — same
    refusals (`ValueError`), and on the early return for a point at infinity `1 ** e = 1` holds in
    the executable FQ12 model. -/
theorem pairingOptBls_finalExp (Q : OBls2 × OBls2 × OBls2) (P : Fq blsP × Fq blsP × Fq blsP) :
    pairingOptBls Q P true =
      (pairingOptBls Q P false).map (· ^ ((blsP ^ 12 - 1) / optimized_bls12_381_curve_order)) := by
  rw [pairingOptBls_eq, pairingOptBls_eq]
  split
  · rfl
  split
  · rfl
  split
  · show Except.ok (1 : OBls12) = Except.ok ((1 : OBls12) ^ _)
    rw [one_pow_model (p := blsP) (mc := blsMc12) (by decide) (by decide)]
  · rw [if_pos rfl, if_neg Bool.false_ne_true, optBlsMillerLoop_some]
    rfl

/-- **Optimized bn128**: `pairing(Q, P, True)` is
    `pairing(Q, P, False) ** ((field_modulus**12 − 1) // curve_order)`. -/
theorem pairingOptBn_finalExp (Q : OBn2 × OBn2 × OBn2) (P : Fq bnP × Fq bnP × Fq bnP) :
    pairingOptBn Q P true =
      (pairingOptBn Q P false).map (· ^ ((bnP ^ 12 - 1) / optimized_bn128_curve_order)) := by
  rw [pairingOptBn_eq, pairingOptBn_eq]
  split
  · rfl
  split
  · rfl
  split
  · show Except.ok (1 : OBn12) = Except.ok ((1 : OBn12) ^ _)
    rw [one_pow_model (p := bnP) (mc := bnMc12) (by decide) (by decide)]
  · rw [if_pos rfl, if_neg Bool.false_ne_true, optBnMillerLoop_some]
    rfl

/-- The same with the standard exponent `(p¹²−1)/r` of BLS12-381 (`C12_Exp.bls_final_exp_eq`). -/
theorem pairingOptBls_finalExp_spec (Q : OBls2 × OBls2 × OBls2) (P : Fq blsP × Fq blsP × Fq blsP) :
    pairingOptBls Q P true =
      (pairingOptBls Q P false).map (· ^ ((Spec.BLS12381.p ^ 12 - 1) / Spec.BLS12381.r)) := by
  rw [pairingOptBls_finalExp, Exp.bls_final_exp_eq.2]

/-- The same with the standard exponent `(p¹²−1)/r` of alt_bn128 (`C12_Exp.bn_final_exp_eq`). -/
theorem pairingOptBn_finalExp_spec (Q : OBn2 × OBn2 × OBn2) (P : Fq bnP × Fq bnP × Fq bnP) :
    pairingOptBn Q P true =
      (pairingOptBn Q P false).map (· ^ ((Spec.BN254.p ^ 12 - 1) / Spec.BN254.r)) := by
  rw [pairingOptBn_finalExp, Exp.bn_final_exp_eq.2]

/-- every value returned by the optimized bls12_381 `pairing` has 12 coefficients -/
theorem pairingOptBls_wf (Q : OBls2 × OBls2 × OBls2) (P : Fq blsP × Fq blsP × Fq blsP) (fe : Bool)
    (f : OBls12) (h : pairingOptBls Q P fe = .ok f) : WF f := by
  have hd : 1 ≤ blsMc12.length := by decide
  rw [pairingOptBls_eq] at h
  split at h
  · cases h
  split at h
  · cases h
  split at h
  · cases h; exact wf_one hd
  · cases h
    cases fe
    · rw [if_neg Bool.false_ne_true]
      exact optBlsMillerLoop_none_wf hd _ _ _
    · rw [if_pos rfl, optBlsMillerLoop_some]
      exact wf_pow' (by decide) hd _ _

/-- every value returned by the optimized bn128 `pairing` has 12 coefficients -/
theorem pairingOptBn_wf (Q : OBn2 × OBn2 × OBn2) (P : Fq bnP × Fq bnP × Fq bnP) (fe : Bool)
    (f : OBn12) (h : pairingOptBn Q P fe = .ok f) : WF f := by
  have hd : 1 ≤ bnMc12.length := by decide
  rw [pairingOptBn_eq] at h
  split at h
  · cases h
  split at h
  · cases h
  split at h
  · cases h; exact wf_one hd
  · cases h
    cases fe
    · rw [if_neg Bool.false_ne_true]
      exact optBnMillerLoop_none_wf hd _ _ _
    · rw [if_pos rfl, optBnMillerLoop_some]
      exact wf_pow' (by decide) hd _ _

/-- **Two-step form at the pairing level, optimized bls12_381.**  If every `fᵢ` is a value returned
    by `pairing(Qᵢ, Pᵢ, final_exponentiate=False)`, then multiplying them and exponentiating ONCE by
    `(p¹²−1)/r` gives the product of the `fᵢ ** ((p¹²−1)/r)` — which by `pairingOptBls_finalExp` are
    the values `pairing(Qᵢ, Pᵢ, True)`. -/
theorem pairingOptBls_two_step (fs : List OBls12)
    (h : ∀ f ∈ fs, ∃ Q P, pairingOptBls Q P false = .ok f) :
    (fs.foldl (· * ·) 1) ^ ((blsP ^ 12 - 1) / optimized_bls12_381_curve_order) =
      (fs.map (· ^ ((blsP ^ 12 - 1) / optimized_bls12_381_curve_order))).foldl (· * ·) 1 ∧
    ∀ f ∈ fs, ∃ Q P, pairingOptBls Q P true =
      .ok (f ^ ((blsP ^ 12 - 1) / optimized_bls12_381_curve_order)) := by
  refine ⟨two_step_final_exp_model (by decide) (by decide) fs (fun f hf => ?_) _, fun f hf => ?_⟩
  · obtain ⟨Q, P, hQP⟩ := h f hf
    exact pairingOptBls_wf Q P false f hQP
  · obtain ⟨Q, P, hQP⟩ := h f hf
    exact ⟨Q, P, by rw [pairingOptBls_finalExp, hQP]; rfl⟩

/-- **Two-step form at the pairing level, optimized bn128.** -/
theorem pairingOptBn_two_step (fs : List OBn12)
    (h : ∀ f ∈ fs, ∃ Q P, pairingOptBn Q P false = .ok f) :
    (fs.foldl (· * ·) 1) ^ ((bnP ^ 12 - 1) / optimized_bn128_curve_order) =
      (fs.map (· ^ ((bnP ^ 12 - 1) / optimized_bn128_curve_order))).foldl (· * ·) 1 ∧
    ∀ f ∈ fs, ∃ Q P, pairingOptBn Q P true =
      .ok (f ^ ((bnP ^ 12 - 1) / optimized_bn128_curve_order)) := by
  refine ⟨two_step_final_exp_model (by decide) (by decide) fs (fun f hf => ?_) _, fun f hf => ?_⟩
  · obtain ⟨Q, P, hQP⟩ := h f hf
    exact pairingOptBn_wf Q P false f hQP
  · obtain ⟨Q, P, hQP⟩ := h f hf
    exact ⟨Q, P, by rw [pairingOptBn_finalExp, hQP]; rfl⟩

/-- non-vacuity: `1 = pairing(∞, G1, False)` is such a value -/
example : ∀ f ∈ [(1 : OBls12)], ∃ Q P, pairingOptBls Q P false = .ok f := by
  intro f hf
  simp only [List.mem_cons, List.not_mem_nil, or_false] at hf
  subst hf
  refine ⟨(1, 1, 0), (1, 1, 0), ?_⟩
  rw [pairingOptBls_eq]
  decide +kernel

/-! ### `exp_by_p` -/

section expByP
variable {p : ℕ} {mc : List Int}

/-- **`exp_by_p(x)` is the table sum**: in the quotient ring,
    `exp_by_p(x) = Σᵢ exptable[i] · int(x.coeffs[i])` (over `zip(exptable, x.coeffs)`), for any table
    whose entries have `d` coefficients; and the result is stored reduced. -/
theorem expByP_eq_sum (hp : 0 < p) (table : List (Fqp .opt p mc)) (ht : ∀ t ∈ table, WF t)
    (x : Fqp .opt p mc) :
    toQ (expByP table x) =
      ((List.zip table x.coeffs).map fun tc =>
        toQ tc.1 * ((tc.2 : ℤ) : AdjoinRoot (modulus p mc))).sum ∧
    Canon (expByP table x) :=
  ⟨toQ_expByP table ht x, canon_expByP hp table ht x⟩

/-- **`exp_by_p` is additive**: `exp_by_p(x + y) = exp_by_p(x) + exp_by_p(y)` in the executable
    model, for `x`, `y` with `d` coefficients. -/
theorem expByP_add (hp : 0 < p) (table : List (Fqp .opt p mc)) (ht : ∀ t ∈ table, WF t)
    (x y : Fqp .opt p mc) (hx : WF x) (hy : WF y) :
    expByP table (x + y) = expByP table x + expByP table y := by
  have cx := canon_expByP hp table ht x
  have cy := canon_expByP hp table ht y
  have key : toQ (expByP table (x + y)) = toQ (expByP table x + expByP table y) := by
    have e : toQ (expByP table x + expByP table y) = toQ (expByP table x) + toQ (expByP table y) :=
      toQ_add cx.wf cy.wf
    rw [e, toQ_expByP table ht, toQ_expByP table ht, toQ_expByP table ht]
    exact tsum_add_mod table x.coeffs y.coeffs (hx.trans hy.symm)
  exact toQ_inj (canon_expByP hp table ht _) (canon_add hp cx.wf cy.wf) key

/-- **`exp_by_p` commutes with int scaling**: `exp_by_p(x * k) = exp_by_p(x) * k` for a Python int
    `k`, in the executable model. -/
theorem expByP_mulInt (hp : 0 < p) (table : List (Fqp .opt p mc)) (ht : ∀ t ∈ table, WF t)
    (x : Fqp .opt p mc) (k : Int) :
    expByP table (mulInt x k) = mulInt (expByP table x) k := by
  have cx := canon_expByP hp table ht x
  have key : toQ (expByP table (mulInt x k)) = toQ (mulInt (expByP table x) k) := by
    rw [toQ_mulInt, toQ_expByP table ht, toQ_expByP table ht]
    exact tsum_mul_mod table x.coeffs k
  exact toQ_inj (canon_expByP hp table ht _) (canon_mulInt hp cx.wf k) key

end expByP

/-- the entries of the module constant `exptable` have 12 coefficients (non-vacuity of the
    hypothesis `ht` above at the real table) -/
theorem blsExptable_wf : ∀ t ∈ blsExptable, WF t := by
  intro t ht
  rw [blsExptable_iterate, List.mem_iterate] at ht
  obtain ⟨m, _, rfl⟩ := ht
  exact (blsTab_spec m).1

example : (0 : ℕ) < blsP := by decide

/-- **The table is the Frobenius table**: the module constant `exptable` of
    `optimized_bls12_381/optimized_pairing.py` equals
    `[FQ12([0]*i + [1] + [0]*(11-i)) ** field_modulus for i in range(12)]` — all twelve entries, as
    coefficient lists of the executable model.  (Proof: `exptable[1] = w^p` by a kernel computation
    in the quadratic subfield `Fp[w⁶]`, `exptable[i+1] = exptable[i]·exptable[1]` by kernel
    evaluation of the model, and `(w^p)ⁱ = (wⁱ)^p`.) -/
theorem blsExptable_eq :
    blsExptable = (List.range 12).map (fun i => (basisElem i : OBls12) ^ blsP) := by
  have hd : 1 ≤ blsMc12.length := blsMc12_len
  rw [blsExptable_iterate, ← List.range_map_iterate]
  apply List.map_congr_left
  intro i hi
  have hi' : i < blsMc12.length := List.mem_range.mp hi
  obtain ⟨w1, q1⟩ := blsTab_spec i
  have hb : WF (basisElem i : OBls12) := wf_basisElem hi'
  have key : toQ ((· * blsT1)^[i] (1 : OBls12)) = toQ ((basisElem i : OBls12) ^ blsP) := by
    have e : toQ ((basisElem i : OBls12) ^ blsP) = toQ (basisElem i : OBls12) ^ blsP :=
      toQ_pow hd hb blsP
    rw [q1, e, toQ_basisElem, ← pow_mul, ← pow_mul, mul_comm]
  refine toQ_inj ?_ (canon_pow (by decide) hd hb blsP) key
  cases i with
  | zero => exact canon_one (by decide) hd
  | succ i =>
    rw [Function.iterate_succ_apply']
    exact canon_mul' (by decide) hd _ _

/-- entry by entry: `exptable[i] == FQ12([0]*i + [1] + [0]*(11-i)) ** field_modulus`, `i = 0 … 11` -/
theorem blsExptable_entry (i : ℕ) (hi : i < 12) :
    blsExptable.getD i 0 = (basisElem i : OBls12) ^ blsP := by
  rw [blsExptable_eq, List.getD_eq_getElem?_getD, List.getElem?_map,
    List.getElem?_range hi]
  rfl

/-- **`exp_by_p(x) == x ** field_modulus` for every `x` in FQ12** (every `x` with 12 coefficients),
    as an equality of coefficient lists in the executable model of
    `optimized_bls12_381/optimized_pairing.py`. -/
theorem expByP_eq_pow (x : OBls12) (hx : WF x) : expByP blsExptable x = x ^ blsP := by
  rw [blsExptable_iterate, ← List.range_map_iterate]
  exact expByP_eq_pow_of_table (p := blsP) (mc := blsMc12) blsMc12_len
    (fun i => (· * blsT1)^[i] (1 : OBls12)) (fun i _ => blsTab_spec i) x hx

/-- non-vacuity: `exptable[1]` itself is an FQ12 element with 12 coefficients -/
example : WF blsT1 := wf_blsT1

/-! ### the fast `final_exponentiate` as a whole, given that FQ12 is a field and `FQ12.inv` inverts -/

/-- **The fast `final_exponentiate` is the plain power, given HB3 and `FQ12.inv`.**  Take HB3
    (`w¹² − 2w⁶ + 2` is irreducible over `Fp`, so FQ12 is a field) and the correctness of `FQ12.inv` on
    reduced elements (`hinv`: the result has 12 coefficients and denotes the field inverse, `0 ↦ 0`).
    Then for **every** `x` in FQ12 (zero included)
    `final_exponentiate(x) == x ** ((p¹² − 1) // r)` as coefficient lists of the executable model.
    Both hypotheses are discharged in `PyEcc.Props.C12_Final` (`finalExponentiateOptBls_eq_pow`);
    this file stays independent of the irreducibility proof.  Everything else that is needed is
    proved here and in `C12_Exp`: `exp_by_p = (· ** p)` (`expByP_eq_pow`), the exponent identity
    (`spec_bls_split`) and the algebra of the split (`split_final_exp`). -/
theorem final_exponentiate_of_inv [Fact (Irreducible (modulus blsP blsMc12))]
    (hinv : ∀ a : OBls12, Canon a → WF (Fqp.inv a) ∧ toQ (Fqp.inv a) = (toQ a)⁻¹)
    (x : OBls12) (hx : WF x) :
    finalExponentiateOptBls x = x ^ ((Spec.BLS12381.p ^ 12 - 1) / Spec.BLS12381.r) := by
  have hd : 1 ≤ blsMc12.length := blsMc12_len
  have hp0 : 0 < blsP := by decide
  have hpe : blsP = Spec.BLS12381.p := by decide
  -- `exp_by_p` in the quotient
  have he : ∀ y : OBls12, WF y → WF (expByP blsExptable y) ∧
      toQ (expByP blsExptable y) = toQ y ^ Spec.BLS12381.p := by
    intro y hy
    refine ⟨(canon_expByP hp0 _ blsExptable_wf y).wf, ?_⟩
    rw [expByP_eq_pow y hy, ← hpe]
    exact toQ_pow hd hy blsP
  have hmul : ∀ a b : OBls12, WF a → WF b → WF (a * b) ∧ toQ (a * b) = toQ a * toQ b :=
    fun a b ha hb => ⟨wf_mul ha hb, toQ_mul ha hb⟩
  have hdiv : ∀ a b : OBls12, WF a → Canon b → WF (a / b) ∧ toQ (a / b) = toQ a / toQ b := by
    intro a b ha hb
    obtain ⟨wi, qi⟩ := hinv b hb
    refine ⟨wf_mul ha wi, ?_⟩
    show toQ (mul a (Fqp.inv b)) = _
    rw [toQ_mul ha wi, qi, div_eq_mul_inv]
  rw [Exp.finalExponentiateOptBls_eq]
  unfold optBlsFinalExponentiate
  extract_lets e p2 p3
  obtain ⟨w1, q1⟩ := he x hx
  obtain ⟨w2, q2⟩ := he _ w1
  obtain ⟨wp2, qp2⟩ := hmul _ _ w2 hx
  obtain ⟨w3, q3⟩ := he p2 wp2
  obtain ⟨w4, q4⟩ := he _ w3
  obtain ⟨w5, q5⟩ := he _ w4
  obtain ⟨w6, q6⟩ := he _ w5
  obtain ⟨w7, q7⟩ := he _ w6
  obtain ⟨w8, q8⟩ := he _ w7
  have cp2 : Canon p2 := canon_mul hp0 w2 hx
  obtain ⟨wp3, qp3⟩ := hdiv _ p2 w8 cp2
  have key : toQ (p3 ^ ((Spec.BLS12381.p ^ 4 - Spec.BLS12381.p ^ 2 + 1) / Spec.BLS12381.r)) =
      toQ (x ^ ((Spec.BLS12381.p ^ 12 - 1) / Spec.BLS12381.r)) := by
    have e1 : toQ (p3 ^ ((Spec.BLS12381.p ^ 4 - Spec.BLS12381.p ^ 2 + 1) / Spec.BLS12381.r)) =
        toQ p3 ^ ((Spec.BLS12381.p ^ 4 - Spec.BLS12381.p ^ 2 + 1) / Spec.BLS12381.r) :=
      toQ_pow hd wp3 _
    have e2 : toQ (x ^ ((Spec.BLS12381.p ^ 12 - 1) / Spec.BLS12381.r)) =
        toQ x ^ ((Spec.BLS12381.p ^ 12 - 1) / Spec.BLS12381.r) := toQ_pow hd hx _
    rw [e1, e2, qp3, q8, q7, q6, q5, q4, q3, qp2, q2, q1]
    exact Exp.final_exponentiate_eq_pow (fun y => y ^ Spec.BLS12381.p) (fun _ => rfl) (toQ x)
  exact toQ_inj (canon_pow hp0 hd wp3 _) (canon_pow hp0 hd hx _) key

end PyEcc.C12
