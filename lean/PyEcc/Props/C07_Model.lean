/-
  PyEcc.Props.C07_Model — property C07 for the CONCRETE executable model: the group laws of the
  optimized BLS12-381 curve functions (`Gen.OptBls.{add, double, neg, multiply, eq, is_on_curve}`,
  generated from `py_ecc/optimized_bls12_381/optimized_curve.py`) as the model RUNS them, on
      G1 : `G1Pt = F1 × F1 × F1`, `F1 = Fq blsP`               (Python `FQ` objects), `b = blsB`
      G2 : `G2Pt = F2 × F2 × F2`, `F2 = Fqp .opt blsP blsMc2`  (Python optimized `FQ2` objects,
                                                                lists of ints), `b2 = blsB2`.
  Corollaries of `Props/C07Opt_Bls.lean` (laws over an arbitrary field, from Mathlib's
  `AddCommGroup` structure on `WeierstrassCurve.Affine.Point`) through the transfer layer
  `Sem/TransferFq.lean` (G1, direct: `Fq blsP` is a field with the model's operations) and
  `Sem/TransferFqp.lean`, `Sem/TransferRefineBls.lean` (G2: the code commutes with
  `toQ : F2 → K2 = F_p[X]/(X²+1)` on canonical elements).

  All laws are stated purely about the model functions; "equal" is the library's own projective
  equality `eq(p1, p2)`.  G2 statements require the triples to be canonical (`CanonT`: every
  coordinate is a list of exactly two ints in `[0, p)`), which is decidable, holds for every value
  the library constructs, and is preserved by all operations (`g2_closed`).  They do not mention
  `K2` at all.

  Last section: the generators `G1`, `G2` of the model are (canonical,) on the curve and represent
  Mathlib points of exact order `curve_order`.
-/
import PyEcc.Sem.TransferFq
import PyEcc.Sem.TransferFqp
import PyEcc.Props.C07_FactsG2
import PyEcc.Props.C17

set_option linter.unusedSectionVars false
set_option maxRecDepth 100000

namespace PyEcc.C07M
open PyEcc PyEcc.Gen PyEcc.Gen.Consts PyEcc.FqpSem PyEcc.Transfer WeierstrassCurve

/-! ## G1: laws for on-curve `FQ` triples -/

section G1
variable {X Y Z X' Y' : G1Pt}

private theorem f2 : (2 : F1) ≠ 0 := f1_two_ne_zero
private theorem f3 : (3 : F1) ≠ 0 := f1_three_ne_zero
private theorem fb : (blsB : F1) ≠ 0 := f1_b_ne_zero

/-- G1 commutativity: `add(X, Y)` and `add(Y, X)` are `eq`. -/
theorem g1_add_comm (hX : OptBls.is_on_curve X blsB = true) (hY : OptBls.is_on_curve Y blsB = true) :
    OptBls.eq (OptBls.add X Y) (OptBls.add Y X) = true :=
  C07Opt.Bls.opt_add_comm_eq f2 f3 fb hX hY

/-- G1 associativity: `add(add(X, Y), Z)` and `add(X, add(Y, Z))` are `eq` (every degenerate
    configuration — ∞, doubling, inverse points — included). -/
theorem g1_add_assoc (hX : OptBls.is_on_curve X blsB = true) (hY : OptBls.is_on_curve Y blsB = true)
    (hZ : OptBls.is_on_curve Z blsB = true) :
    OptBls.eq (OptBls.add (OptBls.add X Y) Z) (OptBls.add X (OptBls.add Y Z)) = true :=
  C07Opt.Bls.opt_add_assoc_eq f2 f3 fb hX hY hZ

/-- G1 identity: `Z1 = (1, 1, 0)` (indeed any `z = 0` triple) is neutral on both sides, for ALL
    triples `X`. -/
theorem g1_add_zero (X : G1Pt) :
    OptBls.eq (OptBls.add X Z1) X = true ∧ OptBls.eq (OptBls.add Z1 X) X = true :=
  C07Opt.Bls.opt_add_zero_eq X Z1 Z1_z

/-- G1 inverse: `add(X, neg(X))` and `add(neg(X), X)` are ∞, for ALL triples `X`. -/
theorem g1_add_neg (X : G1Pt) :
    OptBls.is_inf (OptBls.add X (OptBls.neg X)) = true
      ∧ OptBls.is_inf (OptBls.add (OptBls.neg X) X) = true := C07Opt.Bls.opt_add_neg f2 X

/-- G1 closure: `add`, `double`, `neg`, `multiply(·, n)` map on-curve triples to on-curve triples;
    `Z1` is on the curve. -/
theorem g1_closed (hX : OptBls.is_on_curve X blsB = true) (hY : OptBls.is_on_curve Y blsB = true)
    (n : ℕ) :
    OptBls.is_on_curve (OptBls.add X Y) blsB = true ∧ OptBls.is_on_curve (OptBls.double X) blsB = true
      ∧ OptBls.is_on_curve (OptBls.neg X) blsB = true
      ∧ OptBls.is_on_curve (OptBls.multiply X n) blsB = true ∧ OptBls.is_on_curve Z1 blsB = true :=
  ⟨C07Opt.Bls.opt_add_closed f2 f3 fb hX hY, C07Opt.Bls.opt_double_closed f2 f3 fb hX,
   C07Opt.Bls.opt_neg_closed f2 f3 fb hX, C07Opt.Bls.opt_multiply_closed f2 f3 fb hX n, rfl⟩

/-- G1: `add(X, X)` is `eq` to `double(X)`, for ALL triples. -/
theorem g1_add_self (X : G1Pt) : OptBls.eq (OptBls.add X X) (OptBls.double X) = true :=
  C07Opt.Bls.opt_add_self_eq X

/-- G1 `multiply` is additive in the scalar: `multiply(X, m + n)` is `eq` to
    `add(multiply(X, m), multiply(X, n))`. -/
theorem g1_multiply_add (hX : OptBls.is_on_curve X blsB = true) (m n : ℕ) :
    OptBls.eq (OptBls.multiply X (m + n)) (OptBls.add (OptBls.multiply X m) (OptBls.multiply X n))
      = true := C07Opt.Bls.opt_multiply_add_eq f2 f3 fb hX m n

/-- G1: `multiply(multiply(X, m), n)` is `eq` to `multiply(X, m * n)`. -/
theorem g1_multiply_mul (hX : OptBls.is_on_curve X blsB = true) (m n : ℕ) :
    OptBls.eq (OptBls.multiply (OptBls.multiply X m) n) (OptBls.multiply X (m * n)) = true :=
  C07Opt.Bls.opt_multiply_mul_eq f2 f3 fb hX m n

/-- G1: scalars act modulo any `r` with `multiply(X, r) = ∞`. -/
theorem g1_multiply_mod (hX : OptBls.is_on_curve X blsB = true) (r : ℕ)
    (hr : OptBls.is_inf (OptBls.multiply X r) = true) (n : ℕ) :
    OptBls.eq (OptBls.multiply X n) (OptBls.multiply X (n % r)) = true :=
  C07Opt.Bls.opt_multiply_mod_eq f2 f3 fb hX r hr n

/-- G1: `multiply(neg(X), n)` is `eq` to `neg(multiply(X, n))`. -/
theorem g1_multiply_neg (hX : OptBls.is_on_curve X blsB = true) (n : ℕ) :
    OptBls.eq (OptBls.multiply (OptBls.neg X) n) (OptBls.neg (OptBls.multiply X n)) = true :=
  (C13.Bls.opt_eq_iff _ _).mpr (C07Opt.Bls.opt_multiply_neg f2 f3 fb hX n)

/-- G1: `multiply(X, 0)` is ∞, `multiply(X, 1) = X`, `multiply(X, 2) = double(X)`, for ALL triples. -/
theorem g1_multiply_small (X : G1Pt) :
    OptBls.is_inf (OptBls.multiply X 0) = true ∧ OptBls.multiply X 1 = X
      ∧ OptBls.multiply X 2 = OptBls.double X := C07Opt.Bls.opt_multiply_small X

/-- G1: `eq` is an equivalence relation on ALL triples, and `add`, `multiply` respect it. -/
theorem g1_eq_congr :
    OptBls.eq X X = true ∧ (OptBls.eq X Y = true → OptBls.eq Y X = true)
      ∧ (OptBls.eq X Y = true → OptBls.eq Y Z = true → OptBls.eq X Z = true)
      ∧ (OptBls.eq X X' = true → OptBls.eq Y Y' = true →
          OptBls.eq (OptBls.add X Y) (OptBls.add X' Y') = true)
      ∧ (OptBls.eq X X' = true → ∀ n : ℕ,
          OptBls.eq (OptBls.multiply X n) (OptBls.multiply X' n) = true) := by
  refine ⟨?_, ?_, ?_, C07Opt.Bls.opt_add_congr f2, fun e n => C07Opt.Bls.opt_multiply_congr f2 e n⟩
  · exact (C13.Bls.opt_eq_iff _ _).mpr rfl
  · intro e; exact (C13.Bls.opt_eq_iff _ _).mpr ((C13.Bls.opt_eq_iff _ _).mp e).symm
  · intro e₁ e₂
    exact (C13.Bls.opt_eq_iff _ _).mpr
      (((C13.Bls.opt_eq_iff _ _).mp e₁).trans ((C13.Bls.opt_eq_iff _ _).mp e₂))

end G1

/-! ## G2: laws for canonical on-curve `FQ2` triples -/

section G2
variable {X Y Z X' Y' : G2Pt}

private theorem k2 : (2 : K2) ≠ 0 := k2_field_ok.1
private theorem k3 : (3 : K2) ≠ 0 := k2_field_ok.2.1
private theorem cb : Canon blsB2 := k2_field_ok.2.2.1
private theorem kb : (toQ blsB2 : K2) ≠ 0 := k2_field_ok.2.2.2

/-- G2 commutativity: `add(X, Y)` and `add(Y, X)` are `eq`. -/
theorem g2_add_comm (cX : CanonT X) (cY : CanonT Y) (hX : OptBls.is_on_curve X blsB2 = true)
    (hY : OptBls.is_on_curve Y blsB2 = true) :
    OptBls.eq (OptBls.add X Y) (OptBls.add Y X) = true := by
  classical exact Bls.via_add_comm_eq (K := K2) goodHom_F2 k2 k3 cb kb cX cY hX hY

/-- G2 associativity: `add(add(X, Y), Z)` and `add(X, add(Y, Z))` are `eq` (every degenerate
    configuration included). -/
theorem g2_add_assoc (cX : CanonT X) (cY : CanonT Y) (cZ : CanonT Z)
    (hX : OptBls.is_on_curve X blsB2 = true) (hY : OptBls.is_on_curve Y blsB2 = true)
    (hZ : OptBls.is_on_curve Z blsB2 = true) :
    OptBls.eq (OptBls.add (OptBls.add X Y) Z) (OptBls.add X (OptBls.add Y Z)) = true := by
  classical exact Bls.via_add_assoc_eq (K := K2) goodHom_F2 k2 k3 cb kb cX cY cZ hX hY hZ

/-- G2 identity: `Z2 = (1, 1, 0)` is neutral on both sides, for all canonical triples `X` (on the
    curve or not). -/
theorem g2_add_zero (cX : CanonT X) :
    OptBls.eq (OptBls.add X Z2) X = true ∧ OptBls.eq (OptBls.add Z2 X) X = true := by
  classical
  exact Bls.via_add_zero_eq (K := K2) goodHom_F2 cX (canonT_ops cX cX 0).2.2.2.2 rfl

/-- G2 inverse: `add(X, neg(X))` and `add(neg(X), X)` are ∞, for all canonical triples `X`. -/
theorem g2_add_neg (cX : CanonT X) :
    OptBls.is_inf (OptBls.add X (OptBls.neg X)) = true
      ∧ OptBls.is_inf (OptBls.add (OptBls.neg X) X) = true := by
  classical exact Bls.via_add_neg (K := K2) goodHom_F2 k2 cX

/-- G2 closure: `add`, `double`, `neg`, `multiply(·, n)` map canonical on-curve triples to canonical
    on-curve triples; `Z2` is canonical and on the curve. -/
theorem g2_closed (cX : CanonT X) (cY : CanonT Y) (hX : OptBls.is_on_curve X blsB2 = true)
    (hY : OptBls.is_on_curve Y blsB2 = true) (n : ℕ) :
    (CanonT (OptBls.add X Y) ∧ OptBls.is_on_curve (OptBls.add X Y) blsB2 = true)
      ∧ (CanonT (OptBls.double X) ∧ OptBls.is_on_curve (OptBls.double X) blsB2 = true)
      ∧ (CanonT (OptBls.neg X) ∧ OptBls.is_on_curve (OptBls.neg X) blsB2 = true)
      ∧ (CanonT (OptBls.multiply X n) ∧ OptBls.is_on_curve (OptBls.multiply X n) blsB2 = true)
      ∧ (CanonT Z2 ∧ OptBls.is_on_curve Z2 blsB2 = true) := by
  classical
  obtain ⟨ca, cd, cn, cm, cz⟩ := canonT_ops cX cY n
  exact ⟨⟨ca, Bls.via_add_closed (K := K2) goodHom_F2 k2 k3 cb kb cX cY hX hY⟩,
    ⟨cd, Bls.via_double_closed (K := K2) goodHom_F2 k2 k3 cb kb cX hX⟩,
    ⟨cn, Bls.via_neg_closed (K := K2) goodHom_F2 k2 k3 cb kb cX hX⟩,
    ⟨cm, Bls.via_multiply_closed (K := K2) goodHom_F2 k2 k3 cb kb cX hX n⟩, ⟨cz, rfl⟩⟩

/-- G2: `add(X, X)` is `eq` to `double(X)`, for all canonical triples. -/
theorem g2_add_self (cX : CanonT X) : OptBls.eq (OptBls.add X X) (OptBls.double X) = true := by
  classical exact Bls.via_add_self_eq (K := K2) goodHom_F2 cX

/-- G2 `multiply` is additive in the scalar. -/
theorem g2_multiply_add (cX : CanonT X) (hX : OptBls.is_on_curve X blsB2 = true) (m n : ℕ) :
    OptBls.eq (OptBls.multiply X (m + n)) (OptBls.add (OptBls.multiply X m) (OptBls.multiply X n))
      = true := by
  classical exact Bls.via_multiply_add_eq (K := K2) goodHom_F2 k2 k3 cb kb cX hX m n

/-- G2: `multiply(multiply(X, m), n)` is `eq` to `multiply(X, m * n)`. -/
theorem g2_multiply_mul (cX : CanonT X) (hX : OptBls.is_on_curve X blsB2 = true) (m n : ℕ) :
    OptBls.eq (OptBls.multiply (OptBls.multiply X m) n) (OptBls.multiply X (m * n)) = true := by
  classical exact Bls.via_multiply_mul_eq (K := K2) goodHom_F2 k2 k3 cb kb cX hX m n

/-- G2: scalars act modulo any `r` with `multiply(X, r) = ∞`. -/
theorem g2_multiply_mod (cX : CanonT X) (hX : OptBls.is_on_curve X blsB2 = true) (r : ℕ)
    (hr : OptBls.is_inf (OptBls.multiply X r) = true) (n : ℕ) :
    OptBls.eq (OptBls.multiply X n) (OptBls.multiply X (n % r)) = true := by
  classical exact Bls.via_multiply_mod_eq (K := K2) goodHom_F2 k2 k3 cb kb cX hX r hr n

/-- G2: `multiply(neg(X), n)` is `eq` to `neg(multiply(X, n))`. -/
theorem g2_multiply_neg (cX : CanonT X) (hX : OptBls.is_on_curve X blsB2 = true) (n : ℕ) :
    OptBls.eq (OptBls.multiply (OptBls.neg X) n) (OptBls.neg (OptBls.multiply X n)) = true := by
  classical exact Bls.via_multiply_neg_eq (K := K2) goodHom_F2 k2 k3 cb kb cX hX n

/-- G2: `eq` is an equivalence relation on canonical triples, and `add`, `multiply` respect it. -/
theorem g2_eq_congr (cX : CanonT X) (cY : CanonT Y) (cZ : CanonT Z) (cX' : CanonT X')
    (cY' : CanonT Y') :
    OptBls.eq X X = true ∧ (OptBls.eq X Y = true → OptBls.eq Y X = true)
      ∧ (OptBls.eq X Y = true → OptBls.eq Y Z = true → OptBls.eq X Z = true)
      ∧ (OptBls.eq X X' = true → OptBls.eq Y Y' = true →
          OptBls.eq (OptBls.add X Y) (OptBls.add X' Y') = true)
      ∧ (OptBls.eq X X' = true → ∀ n : ℕ,
          OptBls.eq (OptBls.multiply X n) (OptBls.multiply X' n) = true) := by
  classical
  obtain ⟨e1, e2, e3⟩ := Bls.via_eq_equiv (K := K2) goodHom_F2 cX cY cZ
  exact ⟨e1, e2, e3, Bls.via_add_congr (K := K2) goodHom_F2 k2 cX cX' cY cY',
    fun e n => Bls.via_multiply_congr (K := K2) goodHom_F2 k2 cX cX' e n⟩

end G2

/-! ## the generators -/

/-- `curve_order` (the model's `blsR`) is prime -/
theorem blsR_prime : Nat.Prime blsR := by
  have : blsR = bls12_381_curve_order := by decide
  rw [this]; exact prime_blsR

/-- **G1 generator.**  The model's `blsG1` is on the curve `y² = x³ + 4` and represents a Mathlib
    point of `E(Fq blsP)` of exact order `curve_order`. -/
theorem blsG1_point :
    OptBls.is_on_curve blsG1 blsB = true ∧
    ∃ G : CurvePt (blsB : F1), Represents blsG1 G ∧ G ≠ 0 ∧ blsR • G = 0 ∧ addOrderOf G = blsR := by
  obtain ⟨hon, hinf, hr⟩ := C07.Facts.bls_G1_model
  obtain ⟨G, r⟩ := (on_curve_iff_F1 blsG1).mp hon
  have h0 : G ≠ 0 := fun e => by
    have := (opt_is_inf_refines_F1 r).mpr e
    rw [hinf] at this; exact Bool.noConfusion this
  have hrG : blsR • G = 0 := (subgroup_check_iff_F1 r).mp hr
  exact ⟨hon, G, r, h0, hrG, ((C17.subgroup_iff_blsR G).mp hrG).resolve_left h0⟩

/-- G1: scalars act on the generator modulo `curve_order` -/
theorem blsG1_multiply_mod (n : ℕ) :
    OptBls.eq (OptBls.multiply blsG1 n) (OptBls.multiply blsG1 (n % blsR)) = true :=
  g1_multiply_mod C07.Facts.bls_G1_model.1 blsR C07.Facts.bls_G1_model.2.2 n

/-- **G2 generator.**  The model's `blsG2` is canonical, on the curve `y² = x³ + 4(1+i)`, and its value
    represents a Mathlib point of `E'(K2)` of exact order `curve_order`. -/
theorem blsG2_point [DecidableEq K2] :
    CanonT blsG2 ∧ OptBls.is_on_curve blsG2 blsB2 = true ∧
    ∃ G : CurvePt (toQ blsB2 : K2),
      Represents (mapT toQ blsG2) G ∧ G ≠ 0 ∧ blsR • G = 0 ∧ addOrderOf G = blsR := by
  obtain ⟨hon, hinf, hr⟩ := C07.Facts.bls_G2_opt
  have c : CanonT blsG2 := by decide +kernel
  obtain ⟨G, r⟩ := (on_curve_iff_F2 c).mp hon
  have h0 : G ≠ 0 := fun e => by
    have := (opt_is_inf_refines_F2 c r).mpr e
    rw [show OptBls.is_inf blsG2 = false from hinf] at this; exact Bool.noConfusion this
  have hrG : blsR • G = 0 := (subgroup_check_iff_F2 c r).mp hr
  exact ⟨c, hon, G, r, h0, hrG, ((C17.subgroup_iff_blsR G).mp hrG).resolve_left h0⟩

/-- G2: scalars act on the generator modulo `curve_order` -/
theorem blsG2_multiply_mod (n : ℕ) :
    OptBls.eq (OptBls.multiply blsG2 n) (OptBls.multiply blsG2 (n % blsR)) = true :=
  g2_multiply_mod (by decide +kernel) C07.Facts.bls_G2_opt.1 blsR C07.Facts.bls_G2_opt.2.2 n

/-! ### non-vacuity: the laws instantiated at the generators (all hypotheses discharged) -/

example : OptBls.eq (OptBls.add (OptBls.add blsG1 (OptBls.double blsG1)) (OptBls.neg blsG1))
    (OptBls.add blsG1 (OptBls.add (OptBls.double blsG1) (OptBls.neg blsG1))) = true :=
  have h := C07.Facts.bls_G1_model.1
  g1_add_assoc h (g1_closed h h 0).2.1 (g1_closed h h 0).2.2.1

example : OptBls.eq (OptBls.add (OptBls.add blsG2 (OptBls.double blsG2)) (OptBls.neg blsG2))
    (OptBls.add blsG2 (OptBls.add (OptBls.double blsG2) (OptBls.neg blsG2))) = true :=
  have c : CanonT blsG2 := by decide +kernel
  have h := C07.Facts.bls_G2_opt.1
  have k := g2_closed c c h h 0
  g2_add_assoc c k.2.1.1 k.2.2.1.1 h k.2.1.2 k.2.2.1.2

end PyEcc.C07M
