/-
  PyEcc.Props.C15_Gen — property C15 restated about the GENERATED code: `expand_message_xmd` of `py_ecc/bls/hash.py` and
  `hash_to_field_FQ`, `hash_to_field_FQ2` of `py_ecc/bls/hash_to_curve.py`, as translated from the Python source on this run
  (`PyEcc.Gen.ExtraHash.*`), are exactly RFC 9380 §5.3.1 / §5.2 (`PyEcc.Spec.expandMessageXmd`, `PyEcc.Spec.hashToField`) for every
  hash function, message, tag, length and count — including the refusals.
  Every theorem is the model theorem of `Props/C15.lean` composed with the tie theorem of `Props/TieHash.lean`
  (`Gen.ExtraHash.f = model f`).  No hypothesis is added.  (Core Lean only.)
-/
import PyEcc.Props.C15
import PyEcc.Props.TieHash

namespace PyEcc.C15.Gen
open PyEcc PyEcc.Gen.Consts

/-! ### expand_message_xmd -/

/-- **C15, generated code (expand_message_xmd = RFC 9380 §5.3.1).**  For every hash function `H` with a positive digest size,
    every message, tag and requested length, the function translated from `expand_message_xmd(msg, DST, len_in_bytes, H)`
    returns exactly the bytes the RFC prescribes, and raises exactly when the RFC aborts: `ValueError` if `len(DST) > 255` or
    `ell = ceil(len/b) > 255`, `OverflowError` (from `i2osp(len, 2)`) if neither holds but `len > 65535` (`C15.xmdErr`).
    (`0 < H.digestSize`: with `digest_size = 0` Python raises `ZeroDivisionError`, which the translation does not represent.) -/
theorem xmd_eq_spec (H : HashFn) (msg dst : Bytes) (len : Nat) (hd : 0 < H.digestSize) :
    PyEcc.Gen.ExtraHash.expand_message_xmd msg dst len H =
      match Spec.expandMessageXmd H msg dst len with
      | some b => .ok b
      | none => .error (C15.xmdErr H dst len) := by
  rw [Tie.expand_message_xmd_eq]
  exact C15.xmd_eq_spec H msg dst len hd

example : 0 < sha256Fn.digestSize := by decide

/-- **C15, generated code (error characterisation).**  The translated `expand_message_xmd` raises an exception if and only if
    `len(DST) > 255`, or `ceil(len_in_bytes / b_in_bytes) > 255`, or `len_in_bytes ≥ 65536` — exactly the ABORT condition of
    RFC 9380 §5.3.1. -/
theorem xmd_error_iff (H : HashFn) (msg dst : Bytes) (len : Nat) (hd : 0 < H.digestSize) :
    (∃ e, PyEcc.Gen.ExtraHash.expand_message_xmd msg dst len H = .error e) ↔
      dst.length > 255 ∨ Spec.ceilDiv len H.digestSize > 255 ∨ len ≥ 65536 := by
  rw [Tie.expand_message_xmd_eq]
  exact C15.xmd_error_iff H msg dst len hd

/-- **C15, generated code (which exception).**  When the translated `expand_message_xmd` raises, the exception is `ValueError` if
    `len(DST) > 255` or `ell > 255`, and otherwise `OverflowError`; in particular the `IndexError` branch that the translation
    of `b[i - 2]` contains (`PyErr.other`) is never taken. -/
theorem xmd_error_kind (H : HashFn) (msg dst : Bytes) (len : Nat) (hd : 0 < H.digestSize) (e : PyErr)
    (h : PyEcc.Gen.ExtraHash.expand_message_xmd msg dst len H = .error e) : e = C15.xmdErr H dst len := by
  rw [Tie.expand_message_xmd_eq] at h
  exact C15.xmd_error_kind H msg dst len hd e h

/-- non-vacuity of `xmd_error_kind`: a 256-byte tag is refused -/
example : ∃ e, PyEcc.Gen.ExtraHash.expand_message_xmd [] (List.replicate 256 0) 0 sha256Fn = .error e :=
  (xmd_error_iff sha256Fn [] (List.replicate 256 0) 0 (by decide)).mpr (.inl (by rw [List.length_replicate]; decide))

/-- **C15, generated code (the OverflowError branch is unreachable for real hashes).**  `OverflowError` from the translated
    `expand_message_xmd` requires a digest of at least 258 bytes and a requested length ≥ 65536; no hash in `hashlib` is that
    wide, so with SHA-2/SHA-3/BLAKE2 every failure is a `ValueError`. -/
theorem xmd_overflow_digest (H : HashFn) (msg dst : Bytes) (len : Nat) (hd : 0 < H.digestSize)
    (h : PyEcc.Gen.ExtraHash.expand_message_xmd msg dst len H = .error .overflow) :
    258 ≤ H.digestSize ∧ 65536 ≤ len := by
  rw [Tie.expand_message_xmd_eq] at h
  exact C15.xmd_overflow_digest H msg dst len hd h

/-- the overflow branch is reachable in the generated code for a (hypothetical) 258-byte digest -/
example : PyEcc.Gen.ExtraHash.expand_message_xmd [] [] 65536 { digestSize := 258, blockSize := 1, run := fun _ => [] }
    = .error .overflow := by rfl

/-- **C15, generated code (output length).**  For a hash function whose digests all have `digest_size` bytes, a successful call
    of the translated `expand_message_xmd(msg, DST, len_in_bytes, H)` returns exactly `len_in_bytes` bytes. -/
theorem xmd_length (H : HashFn) (hw : H.WF) (msg dst : Bytes) (len : Nat) (out : Bytes)
    (h : PyEcc.Gen.ExtraHash.expand_message_xmd msg dst len H = .ok out) : out.length = len := by
  rw [Tie.expand_message_xmd_eq] at h
  exact C15.xmd_length H hw msg dst len out h

example : sha256Fn.WF := C15.sha256Fn_WF

/-- **C15, generated code (SHA-256 instance).**  With SHA-256, the translated `expand_message_xmd` succeeds (and then returns the
    RFC's value, by `xmd_eq_spec`) iff `len(DST) ≤ 255` and `len_in_bytes ≤ 255·32 = 8160`. -/
theorem xmd_sha256_ok_iff (msg dst : Bytes) (len : Nat) :
    (∃ out, PyEcc.Gen.ExtraHash.expand_message_xmd msg dst len sha256Fn = .ok out) ↔ dst.length ≤ 255 ∧ len ≤ 8160 := by
  rw [Tie.expand_message_xmd_eq]
  exact C15.xmd_sha256_ok_iff msg dst len

/-! ### hash_to_field -/

/-- the attribute `n` of the object `FQ(x % field_modulus)` is `x % field_modulus` -/
theorem f1c_n_mod (x : Nat) : (f1c ((x % blsP : Nat) : Int)).n = x % blsP := by
  show pmod ((x % blsP : Nat) : Int) blsP = x % blsP
  unfold pmod
  rw [← Int.natCast_emod, Int.toNat_natCast, Nat.mod_mod]

/-- **C15, generated code (hash_to_field_FQ = RFC 9380 §5.2 with m = 1, L = 64).**  For every hash function with positive digest
    size, message, tag and `count`: the function translated from `hash_to_field_FQ(msg, count, DST, H)` returns the `count` field
    elements the RFC prescribes for `p = field_modulus` of BLS12-381 (`u_i = OS2IP(substr(uniform_bytes, 64·i, 64)) mod p`,
    big-endian), and raises exactly when `expand_message_xmd` aborts for `len_in_bytes = count·1·64`, with the same exception kind.
    The returned `FQ` objects are compared through their attribute `n` with the specification's one-element lists `[e_0]`. -/
theorem h2f_fq_eq_spec (H : HashFn) (msg : Bytes) (count : Nat) (dst : Bytes) (hd : 0 < H.digestSize) :
    (PyEcc.Gen.ExtraHash.hash_to_field_FQ msg count dst H).map (fun u => u.map fun (c : F1) => [c.n]) =
      match Spec.hashToField H blsP 1 64 msg dst count with
      | some u => .ok u
      | none => .error (C15.xmdErr H dst (count * 1 * 64)) := by
  refine Eq.trans ?_ (C15.h2f_fq_eq_spec H blsP msg count dst hd)
  rw [Tie.hash_to_field_FQ_eq]
  unfold hashToFieldFq
  dsimp only
  cases expandMessageXmd H msg dst (count * 1 * 64) with
  | error e => rfl
  | ok prb =>
    show Except.ok _ = Except.ok _
    congr 1
    simp only [List.map_map]
    apply List.map_congr_left
    intro i _
    simp only [Function.comp_def, f1c_n_mod]

/-- **C15, generated code (hash_to_field_FQ2 = RFC 9380 §5.2 with m = 2, L = 64).**  For every hash function with positive
    digest size, message, tag and `count`: the function translated from `hash_to_field_FQ2(msg, count, DST, H)` returns the `count`
    elements `(e_0, e_1)` the RFC prescribes for `p = field_modulus` of BLS12-381
    (`e_j = OS2IP(substr(uniform_bytes, 64·(j + 2i), 64)) mod p`), and raises exactly when `expand_message_xmd` aborts for
    `len_in_bytes = count·2·64`, with the same exception kind (so the `FQ2(e)` length check of the translation never fires).
    The returned `FQ2` objects are compared through their coefficient lists (Python ints) with the specification's lists
    `[e_0, e_1]` of naturals. -/
theorem h2f_fq2_eq_spec (H : HashFn) (msg : Bytes) (count : Nat) (dst : Bytes) (hd : 0 < H.digestSize) :
    (PyEcc.Gen.ExtraHash.hash_to_field_FQ2 msg count dst H).map (fun u => u.map fun (c : F2) => c.coeffs) =
      match Spec.hashToField H blsP 2 64 msg dst count with
      | some u => .ok (u.map fun e => e.map fun (c : Nat) => (c : Int))
      | none => .error (C15.xmdErr H dst (count * 2 * 64)) := by
  have hm := C15.h2f_fq2_eq_spec H blsP msg count dst hd
  rw [Tie.hash_to_field_FQ2_eq]
  cases hs : Spec.hashToField H blsP 2 64 msg dst count with
  | none =>
    rw [hs] at hm
    cases hr : hashToFieldFq2 H blsP msg count dst with
    | error e => rw [hr] at hm; injection hm with hm; subst hm; rfl
    | ok r => rw [hr] at hm; cases hm
  | some u =>
    rw [hs] at hm
    cases hr : hashToFieldFq2 H blsP msg count dst with
    | error e => rw [hr] at hm; cases hm
    | ok r =>
      rw [hr] at hm
      injection hm with hm
      subst hm
      show Except.ok _ = Except.ok _
      congr 1
      simp [List.map_map, Function.comp_def, f2c]

/-- **C15, generated code (hash_to_field with SHA-256 succeeds iff the RFC's bounds hold).**  With SHA-256, the translated
    `hash_to_field_FQ2(msg, count, DST)` returns a value iff `len(DST) ≤ 255` and `count·2·64 ≤ 8160` (i.e. `count ≤ 63`), and
    the translated `hash_to_field_FQ` iff `len(DST) ≤ 255` and `count·64 ≤ 8160` (i.e. `count ≤ 127`). -/
theorem h2f_sha256_ok_iff (msg : Bytes) (count : Nat) (dst : Bytes) :
    ((∃ u, PyEcc.Gen.ExtraHash.hash_to_field_FQ2 msg count dst sha256Fn = .ok u) ↔ dst.length ≤ 255 ∧ count * 2 * 64 ≤ 8160) ∧
    ((∃ u, PyEcc.Gen.ExtraHash.hash_to_field_FQ msg count dst sha256Fn = .ok u) ↔ dst.length ≤ 255 ∧ count * 1 * 64 ≤ 8160) := by
  constructor
  · rw [← C15.xmd_sha256_ok_iff msg dst (count * 2 * 64), Tie.hash_to_field_FQ2_eq]
    unfold hashToFieldFq2
    dsimp only
    cases expandMessageXmd sha256Fn msg dst (count * 2 * 64) with
    | error e => exact ⟨fun ⟨_, h⟩ => (by cases h), fun ⟨_, h⟩ => (by cases h)⟩
    | ok prb => exact ⟨fun _ => ⟨_, rfl⟩, fun _ => ⟨_, rfl⟩⟩
  · rw [← C15.xmd_sha256_ok_iff msg dst (count * 1 * 64), Tie.hash_to_field_FQ_eq]
    unfold hashToFieldFq
    dsimp only
    cases expandMessageXmd sha256Fn msg dst (count * 1 * 64) with
    | error e => exact ⟨fun ⟨_, h⟩ => (by cases h), fun ⟨_, h⟩ => (by cases h)⟩
    | ok prb => exact ⟨fun _ => ⟨_, rfl⟩, fun _ => ⟨_, rfl⟩⟩

end PyEcc.C15.Gen

section AxiomAudit
open PyEcc.C15.Gen
#print axioms xmd_eq_spec
#print axioms xmd_error_iff
#print axioms xmd_error_kind
#print axioms xmd_overflow_digest
#print axioms xmd_length
#print axioms xmd_sha256_ok_iff
#print axioms h2f_fq_eq_spec
#print axioms h2f_fq2_eq_spec
#print axioms h2f_sha256_ok_iff
end AxiomAudit
