/-
  PyEcc.Props.C10_Gen — property C10 restated about the GENERATED code.

  `Gen/ExtraSwu.lean` (`sqrt_division_FQ/FQ2`, `optimized_swu_G1/G2`, `map_to_curve_G1/G2`, `clear_cofactor_G1/G2`,
  `hash_to_G1/G2`), `Gen/ExtraHashIso.lean` (`iso_map_G1/G2`) and `Gen/ExtraHash.lean` (`hash_to_field_FQ/FQ2`,
  `expand_message_xmd`) are re-generated from the Python source of py_ecc on every run.  Every theorem below is a
  headline theorem of `Props/C10.lean`, `C10_G2.lean`, `C10_Iso.lean`, `C10_Struct.lean`, `C17_Order.lean`
  (`hash_good_proved`) in which each py_ecc function is the GENERATED definition (`PyEcc.Gen.Extra….f`,
  `PyEcc.Gen.OptBls.*`), obtained by rewriting with the tie theorems (`Props/TieSwu.lean`, `TieCofactor.lean`,
  `TieHashIso.lean`, `TieHash.lean`) and applying the model theorem.  Hypotheses are those of the model theorems,
  unchanged; the only guard that comes from a tie is "`Z` is a reduced `FQ2` value" for `iso_map_G2`
  (`Tie.iso_map_G2_eq_wf`), which the model theorem requires anyway (`Canon Z`).

  Reading: `FQ` objects are read through `Fq.toZMod : Fq blsP → ZMod blsP`; optimized `FQ2` objects (`F2`) through
  `q = toQ : F2 → K2 = Fp[X]/(X²+1)`, on reduced elements (`Canon t`: two coefficients in `[0, p)`, what every Python
  `FQ2` holds).  The RFC 9380 side (`Spec.IsSswu`, `Spec.mapToCurveSimpleSwu`, `Spec.sswuX1`, `Spec.sgn0Fp`,
  constants `Spec.H2C.*`) is in `PyEcc/Spec/`.
-/
import PyEcc.Props.C17_Order
import PyEcc.Props.TieSwu
import PyEcc.Props.TieHashIso
import PyEcc.Props.TieHash

set_option maxRecDepth 100000

namespace PyEcc.C10.Gen
open PyEcc PyEcc.Gen.Consts PyEcc.Spec PyEcc.SwuSem

local notation "A'" => ((Spec.H2C.iso11A : ℕ) : ZMod blsP)
local notation "B'" => ((Spec.H2C.iso11B : ℕ) : ZMod blsP)
local notation "Z'" => ((Spec.H2C.iso11Z : ℕ) : ZMod blsP)

/-! ## G1: `sqrt_division_FQ`, `optimized_swu_G1` -/

/-- **Generated `sqrt_division_FQ(u, v)` is correct** for every `u` and every `v ≠ 0`: it returns `(True, r)`
    exactly when `u/v` is a square in `Fp`, and then `r² = u/v`; otherwise it returns `(False, r)` with
    `r² = −u/v`. -/
theorem sqrt_division_FQ_correct (u v : F1) (hv : v ≠ 0) :
    ((Gen.ExtraSwu.sqrt_division_FQ u v).1 = true ↔ IsSquare (Fq.toZMod u / Fq.toZMod v)) ∧
    ((Gen.ExtraSwu.sqrt_division_FQ u v).1 = true →
      Fq.toZMod (Gen.ExtraSwu.sqrt_division_FQ u v).2 ^ 2 = Fq.toZMod u / Fq.toZMod v) ∧
    ((Gen.ExtraSwu.sqrt_division_FQ u v).1 = false →
      Fq.toZMod (Gen.ExtraSwu.sqrt_division_FQ u v).2 ^ 2 = -(Fq.toZMod u / Fq.toZMod v)) := by
  rw [Tie.sqrt_division_FQ_eq]; exact C10.sqrt_division_FQ_correct u v hv

example : (1 : F1) ≠ 0 := by decide +kernel

/-- **C10, summary (G1): generated `optimized_swu_G1` = RFC 9380 `map_to_curve_simple_swu`.**  For every field
    element `t` (exceptional inputs included, no hypothesis), with `(N, Y, D) = optimized_swu_G1(t)`: the affine
    point `(N/D, Y/D)` is related to `t` by the specification `Spec.IsSswu` of RFC 9380 §6.6.2 with the constants
    `A'`, `B'`, `Z = 11` of §8.8.1 and `sgn0` of §4.1 (which determines `(x, y)` uniquely). -/
theorem swu_G1_is_sswu (t : F1) :
    Spec.IsSswu Spec.sgn0Fp A' B' Z' (Fq.toZMod t)
      (Fq.toZMod (Gen.ExtraSwu.optimized_swu_G1 t).1 / Fq.toZMod (Gen.ExtraSwu.optimized_swu_G1 t).2.2)
      (Fq.toZMod (Gen.ExtraSwu.optimized_swu_G1 t).2.1 / Fq.toZMod (Gen.ExtraSwu.optimized_swu_G1 t).2.2) := by
  rw [Tie.optimized_swu_G1_eq]; exact C10.swu_G1_is_sswu t

/-- **C10 (G1): the denominator returned by the generated `optimized_swu_G1` is non-zero and the point is on the
    isogenous curve** `y² = x³ + A'x + B'`, for every `t`. -/
theorem swu_G1_on_iso_curve (t : F1) :
    (Gen.ExtraSwu.optimized_swu_G1 t).2.2 ≠ 0 ∧ Fq.toZMod (Gen.ExtraSwu.optimized_swu_G1 t).2.2 ≠ 0 ∧
    (Fq.toZMod (Gen.ExtraSwu.optimized_swu_G1 t).2.1 / Fq.toZMod (Gen.ExtraSwu.optimized_swu_G1 t).2.2) ^ 2 =
      (Fq.toZMod (Gen.ExtraSwu.optimized_swu_G1 t).1 / Fq.toZMod (Gen.ExtraSwu.optimized_swu_G1 t).2.2) ^ 3
        + A' * (Fq.toZMod (Gen.ExtraSwu.optimized_swu_G1 t).1 / Fq.toZMod (Gen.ExtraSwu.optimized_swu_G1 t).2.2)
        + B' := by
  rw [Tie.optimized_swu_G1_eq]; exact C10.swu_G1_on_iso_curve t

/-- **C10 (G1): the `x`-coordinate and the branch are the RFC's.**  If `g(x1)` is a square in `Fp` then
    `N/D = x1`, otherwise `N/D = x2 = Z·t²·x1` (`Spec.sswuX1`, RFC 9380 §6.6.2 steps 1–3, including the
    exceptional-case replacement). -/
theorem swu_G1_x_is_rfc (t : F1) :
    (IsSquare (sswuG A' B' (sswuX1 A' B' Z' (Fq.toZMod t))) →
      Fq.toZMod (Gen.ExtraSwu.optimized_swu_G1 t).1 / Fq.toZMod (Gen.ExtraSwu.optimized_swu_G1 t).2.2
        = sswuX1 A' B' Z' (Fq.toZMod t)) ∧
    (¬ IsSquare (sswuG A' B' (sswuX1 A' B' Z' (Fq.toZMod t))) →
      Fq.toZMod (Gen.ExtraSwu.optimized_swu_G1 t).1 / Fq.toZMod (Gen.ExtraSwu.optimized_swu_G1 t).2.2
        = Z' * Fq.toZMod t ^ 2 * sswuX1 A' B' Z' (Fq.toZMod t)) := by
  rw [Tie.optimized_swu_G1_eq]; exact C10.swu_G1_x_is_rfc t

/-- **C10 (G1): exceptional inputs.**  If `Z²t⁴ + Zt² = 0` — in particular for `t = 0` — the generated
    `optimized_swu_G1` returns the point with `x = B'/(Z·A')`, RFC 9380's exceptional-case value. -/
theorem swu_G1_exceptional (t : F1) (h : Z' ^ 2 * Fq.toZMod t ^ 4 + Z' * Fq.toZMod t ^ 2 = 0) :
    Fq.toZMod (Gen.ExtraSwu.optimized_swu_G1 t).1 / Fq.toZMod (Gen.ExtraSwu.optimized_swu_G1 t).2.2 = B' / (Z' * A') ∧
    IsSquare (sswuG A' B' (B' / (Z' * A'))) := by
  rw [Tie.optimized_swu_G1_eq]; exact C10.swu_G1_exceptional t h

example : Z' ^ 2 * Fq.toZMod (0 : F1) ^ 4 + Z' * Fq.toZMod (0 : F1) ^ 2 = 0 := by
  rw [Fq.toZMod_zero]; ring

/-- **C10 (G1): sign and non-vanishing of `y`.**  For every `t`, `y = Y/D ≠ 0` and `sgn0(y) = sgn0(t)`, both for
    RFC 9380's `sgn0` of the residues and for the library's own `FQ.sgn0` applied to `Y / D`. -/
theorem swu_G1_sgn0 (t : F1) :
    Fq.toZMod (Gen.ExtraSwu.optimized_swu_G1 t).2.1 / Fq.toZMod (Gen.ExtraSwu.optimized_swu_G1 t).2.2 ≠ 0 ∧
    Spec.sgn0Fp (Fq.toZMod (Gen.ExtraSwu.optimized_swu_G1 t).2.1 / Fq.toZMod (Gen.ExtraSwu.optimized_swu_G1 t).2.2)
      = Spec.sgn0Fp (Fq.toZMod t) ∧
    ((Gen.ExtraSwu.optimized_swu_G1 t).2.1 / (Gen.ExtraSwu.optimized_swu_G1 t).2.2).sgn0 = t.sgn0 := by
  rw [Tie.optimized_swu_G1_eq]; exact ⟨C10.swu_G1_y_ne_zero t, C10.swu_G1_sgn0 t⟩

/-- **C10 (G1): equality with the straight-line RFC procedure.**  For every correct square-root function `sqrt`
    on `Fp`, the affine point computed by the generated `optimized_swu_G1(t)` equals the output of RFC 9380 §6.6.2
    `map_to_curve_simple_swu(t)` (`Spec.mapToCurveSimpleSwu`, steps 1–10 verbatim). -/
theorem swu_G1_eq_rfc_function (sqrt : ZMod blsP → ZMod blsP)
    (hsqrt : ∀ a, IsSquare a → sqrt a ^ 2 = a) (t : F1) :
    (Fq.toZMod (Gen.ExtraSwu.optimized_swu_G1 t).1 / Fq.toZMod (Gen.ExtraSwu.optimized_swu_G1 t).2.2,
      Fq.toZMod (Gen.ExtraSwu.optimized_swu_G1 t).2.1 / Fq.toZMod (Gen.ExtraSwu.optimized_swu_G1 t).2.2)
      = Spec.mapToCurveSimpleSwu Spec.sgn0Fp sqrt A' B' Z' (Fq.toZMod t) := by
  rw [Tie.optimized_swu_G1_eq]; exact C10.swu_G1_eq_rfc_function sqrt hsqrt t

/-- a correct square-root function on `Fp` exists (non-vacuity of the hypothesis above) -/
example : ∃ sqrt : ZMod blsP → ZMod blsP, ∀ a, IsSquare a → sqrt a ^ 2 = a := by
  classical
  refine ⟨fun a => if h : IsSquare a then h.choose else 0, fun a h => ?_⟩
  simp only [h, dif_pos]
  rw [sq]; exact h.choose_spec.symm

/-! ## G2: `sqrt_division_FQ2`, `optimized_swu_G2` -/

section G2swu
open PyEcc.Fqp PyEcc.FqpSem PyEcc.Swu2

/-- **The generated `optimized_swu_G2` never raises.**  For every reduced field element `t` (two coefficients in
    `[0, p)`), `optimized_swu_G2(t)` returns a triple: the branch
    `raise Exception("Hash to Curve - Optimized SWU failure")` is unreachable. -/
theorem swu_G2_total (t : F2) (ht : Canon t) : ∃ N Y D, Gen.ExtraSwu.optimized_swu_G2 t = .ok (N, Y, D) := by
  rw [Tie.optimized_swu_G2_eq]; exact ⟨_, _, _, C10G2.swu_G2_total t ht⟩

example : Canon (f2c [3, 5]) := cn_f2c (a := 3) (b := 5) (by decide) (by decide)

/-- the same on every `a + b·i`, `0 ≤ a, b < p` (the form `BlsSem.SwuTotal` used by the totality theorems of C04) -/
theorem swu_G2_total_range (a b : ℕ) (ha : a < blsP) (hb : b < blsP) :
    ∃ r, Gen.ExtraSwu.optimized_swu_G2 (f2c [(a : ℤ), (b : ℤ)]) = .ok r := by
  rw [Tie.optimized_swu_G2_eq]; exact C10G2.swuTotal a b ha hb

example : (5 : ℕ) < blsP := by decide

/-- **Generated `sqrt_division_FQ2(u, v)` is correct** for reduced `u`, `v ≠ 0`: it returns `(True, r)` exactly when
    `u/v` is a square in `Fp²`, and then `r² = u/v`. -/
theorem sqrt_division_FQ2_correct (u v : F2) (hu : Canon u) (hv : Canon v) (hv0 : v ≠ 0) :
    ((Gen.ExtraSwu.sqrt_division_FQ2 u v).1 = true ↔ IsSquare (q u / q v)) ∧
    ((Gen.ExtraSwu.sqrt_division_FQ2 u v).1 = true →
      q (Gen.ExtraSwu.sqrt_division_FQ2 u v).2 ^ 2 = q u / q v) := by
  rw [Tie.sqrt_division_FQ2_eq]; exact C10G2.sqrt_division_FQ2_correct u v hu hv hv0

example : Canon (1 : F2) ∧ (1 : F2) ≠ 0 := by decide +kernel

/-- **C10, summary (G2): generated `optimized_swu_G2` = RFC 9380 `map_to_curve_simple_swu`.**  For every reduced
    `t`, with `(N, Y, D) = optimized_swu_G2(t)`: the affine point `(N/D, Y/D)` is related to `t` by `Spec.IsSswu`
    of RFC 9380 §6.6.2 with `A' = 240i`, `B' = 1012(1+i)`, `Z = −(2+i)` of §8.8.2 and `sgn0` of §4.1 (`m = 2`). -/
theorem swu_G2_is_sswu (t : F2) (ht : Canon t) (N Y D : F2)
    (h : Gen.ExtraSwu.optimized_swu_G2 t = .ok (N, Y, D)) :
    Spec.IsSswu sgn0K2 kA kB kZ (q t) (q N / q D) (q Y / q D) := by
  rw [Tie.optimized_swu_G2_eq] at h; exact C10G2.swu_G2_is_sswu t ht N Y D h

/-- non-vacuity of the hypotheses `Canon t`, `optimized_swu_G2(t) = (N, Y, D)`: they hold e.g. for `t = 1 + i`
    (and, by `swu_G2_total`, the second one for every reduced `t`) -/
example : Canon (f2c [1, 1]) ∧ ∃ N Y D, Gen.ExtraSwu.optimized_swu_G2 (f2c [1, 1]) = .ok (N, Y, D) :=
  ⟨cn_f2c (a := 1) (b := 1) (by decide) (by decide),
    swu_G2_total _ (cn_f2c (a := 1) (b := 1) (by decide) (by decide))⟩

/-- **C10 (G2): the returned values are reduced, the denominator is non-zero and the point is on the isogenous
    curve** `y² = x³ + 240i·x + 1012(1+i)` over `Fp²`. -/
theorem swu_G2_on_iso_curve (t : F2) (ht : Canon t) (N Y D : F2)
    (h : Gen.ExtraSwu.optimized_swu_G2 t = .ok (N, Y, D)) :
    Canon N ∧ Canon Y ∧ Canon D ∧ D ≠ 0 ∧ q D ≠ 0 ∧
    (q Y / q D) ^ 2 = (q N / q D) ^ 3 + kA * (q N / q D) + kB := by
  rw [Tie.optimized_swu_G2_eq] at h; exact C10G2.swu_G2_on_iso_curve t ht N Y D h

/-- **C10 (G2): the `x`-coordinate and the branch are the RFC's.** -/
theorem swu_G2_x_is_rfc (t : F2) (ht : Canon t) (N Y D : F2)
    (h : Gen.ExtraSwu.optimized_swu_G2 t = .ok (N, Y, D)) :
    (IsSquare (sswuG kA kB (sswuX1 kA kB kZ (q t))) → q N / q D = sswuX1 kA kB kZ (q t)) ∧
    (¬ IsSquare (sswuG kA kB (sswuX1 kA kB kZ (q t))) →
      q N / q D = kZ * q t ^ 2 * sswuX1 kA kB kZ (q t)) := by
  rw [Tie.optimized_swu_G2_eq] at h; exact C10G2.swu_G2_x_is_rfc t ht N Y D h

/-- **C10 (G2): sign and non-vanishing of `y`.**  `y = Y/D ≠ 0` and `sgn0(y) = sgn0(t)` for every reduced `t`, for
    the library's own `FQ2.sgn0` on `Y / D` and for RFC 9380's `sgn0` (`m = 2`) on the values in `Fp²`. -/
theorem swu_G2_sgn0 (t : F2) (ht : Canon t) (N Y D : F2)
    (h : Gen.ExtraSwu.optimized_swu_G2 t = .ok (N, Y, D)) :
    q Y / q D ≠ 0 ∧ Fqp.sgn0_fq2 (Y / D) = Fqp.sgn0_fq2 t ∧ sgn0K2 (q Y / q D) = sgn0K2 (q t) := by
  rw [Tie.optimized_swu_G2_eq] at h
  exact ⟨C10G2.swu_G2_y_ne_zero t ht N Y D h, C10G2.swu_G2_sgn0 t ht N Y D h⟩

/-- **C10 (G2): equality with the straight-line RFC procedure**, for every correct square-root function on `Fp²`. -/
theorem swu_G2_eq_rfc_function (sqrt : K2 → K2) (hsqrt : ∀ a, IsSquare a → sqrt a ^ 2 = a)
    (t : F2) (ht : Canon t) (N Y D : F2) (h : Gen.ExtraSwu.optimized_swu_G2 t = .ok (N, Y, D)) :
    (q N / q D, q Y / q D) = Spec.mapToCurveSimpleSwu sgn0K2 sqrt kA kB kZ (q t) := by
  rw [Tie.optimized_swu_G2_eq] at h; exact C10G2.swu_G2_eq_rfc_function sqrt hsqrt t ht N Y D h

/-- a correct square-root function on `Fp²` exists (non-vacuity of the hypothesis above) -/
example : ∃ sqrt : K2 → K2, ∀ a, IsSquare a → sqrt a ^ 2 = a := by
  classical
  refine ⟨fun a => if h : IsSquare a then h.choose else 0, fun a h => ?_⟩
  simp only [h, dif_pos]
  rw [sq]; exact h.choose_spec.symm

/-- **C10 (G2): exceptional inputs.**  If `Z²t⁴ + Zt² = 0` — in particular for `t = 0` — the generated
    `optimized_swu_G2` returns the point with `x = B'/(Z·A')`, RFC 9380's exceptional-case value. -/
theorem swu_G2_exceptional (t : F2) (ht : Canon t) (N Y D : F2)
    (h : Gen.ExtraSwu.optimized_swu_G2 t = .ok (N, Y, D))
    (h0 : kZ ^ 2 * q t ^ 4 + kZ * q t ^ 2 = 0) :
    q N / q D = kB / (kZ * kA) ∧ IsSquare (sswuG kA kB (kB / (kZ * kA))) := by
  rw [Tie.optimized_swu_G2_eq] at h; exact C10G2.swu_G2_exceptional t ht N Y D h h0

example : Canon (0 : F2) ∧ kZ ^ 2 * q (0 : F2) ^ 4 + kZ * q (0 : F2) ^ 2 = 0 :=
  ⟨cn_zero, by rw [q_zero]; ring⟩

end G2swu

/-! ## the isogenies `iso_map_G1`, `iso_map_G2` and `map_to_curve` -/

/-- **The generated `iso_map_G1` never raises**: every `IndexError` branch of the translated list code
    (`mapped_values[i]`, `z_powers[…]`, `k_i[-1]`) is dead on the module's coefficient table, for all inputs. -/
theorem iso_map_G1_total (X Y Z : F1) : ∃ R, Gen.ExtraHashIso.iso_map_G1 X Y Z = .ok R :=
  ⟨_, Tie.iso_map_G1_eq X Y Z⟩

/-- **C10 (G1 isogeny): generated `iso_map_G1` maps `E1'` into `E1`.**  For every projective input `(X : Y : Z)`
    with `Z ≠ 0` whose affine point lies on the 11-isogenous curve `y² = x³ + A'x + B'` (RFC 9380 §8.8.1), the
    generated `iso_map_G1(X, Y, Z)` returns a triple that passes the generated `is_on_curve(·, b)`, `b = 4`. -/
theorem iso_map_G1_on_curve (X Y Z : F1) (hZ : Z ≠ 0)
    (h : (Fq.toZMod Y / Fq.toZMod Z) ^ 2
      = (Fq.toZMod X / Fq.toZMod Z) ^ 3 + A' * (Fq.toZMod X / Fq.toZMod Z) + B') :
    ∃ R, Gen.ExtraHashIso.iso_map_G1 X Y Z = .ok R ∧ Gen.OptBls.is_on_curve R blsB = true :=
  ⟨_, Tie.iso_map_G1_eq X Y Z, C10Iso.iso_map_G1_on_curve X Y Z hZ h⟩

/-- non-vacuity: the generated SWU output for `t = 0` is such an input (and so is the one for every `t`) -/
example : ∃ X Y Z : F1, Z ≠ 0 ∧ (Fq.toZMod Y / Fq.toZMod Z) ^ 2
    = (Fq.toZMod X / Fq.toZMod Z) ^ 3 + A' * (Fq.toZMod X / Fq.toZMod Z) + B' :=
  ⟨_, _, _, (swu_G1_on_iso_curve 0).1, (swu_G1_on_iso_curve 0).2.2⟩

/-- **C10 (G1 isogeny), affine reading.**  Under the same hypotheses the output `(X₃, Y₃, Z₃)` of the generated
    `iso_map_G1` is the point at infinity (`Z₃ = 0`) or its affine point satisfies `(Y₃/Z₃)² = (X₃/Z₃)³ + 4`. -/
theorem iso_map_G1_affine (X Y Z : F1) (hZ : Z ≠ 0)
    (h : (Fq.toZMod Y / Fq.toZMod Z) ^ 2
      = (Fq.toZMod X / Fq.toZMod Z) ^ 3 + A' * (Fq.toZMod X / Fq.toZMod Z) + B')
    (R : F1 × F1 × F1) (hR : Gen.ExtraHashIso.iso_map_G1 X Y Z = .ok R) :
    R.2.2 = 0 ∨ (Fq.toZMod R.2.1 / Fq.toZMod R.2.2) ^ 2 = (Fq.toZMod R.1 / Fq.toZMod R.2.2) ^ 3 + 4 := by
  rw [Tie.iso_map_G1_eq] at hR
  cases hR
  exact C10Iso.iso_map_G1_affine X Y Z hZ h

open PyEcc.IsoSem in
/-- **C10 (G1 isogeny): generated `iso_map_G1` is the rational map given by its coefficient table.**  For `Z ≠ 0`
    and `w = X/Z`, with `xn, xd, yn, yd` the polynomials whose coefficient lists are the four entries of
    `ISO_11_MAP_COEFFICIENTS`: the output `(X₃, Y₃, Z₃)` is the point at infinity exactly when `xd(w)·yd(w) = 0`, and
    otherwise `X₃/Z₃ = xn(w)/xd(w)` and `Y₃/Z₃ = (Y/Z)·yn(w)/yd(w)` (RFC 9380 Appendix E.2's shape). -/
theorem iso_map_G1_rational (X Y Z : F1) (hZ : Z ≠ 0)
    (R : F1 × F1 × F1) (hR : Gen.ExtraHashIso.iso_map_G1 X Y Z = .ok R) :
    (R.2.2 = 0 ↔ ev fZ (iso11 1) (X / Z) * ev fZ (iso11 3) (X / Z) = 0) ∧
    (R.2.2 ≠ 0 →
      R.1 / R.2.2 = ev fZ (iso11 0) (X / Z) / ev fZ (iso11 1) (X / Z) ∧
      R.2.1 / R.2.2 = (Y / Z) * ev fZ (iso11 2) (X / Z) / ev fZ (iso11 3) (X / Z)) := by
  rw [Tie.iso_map_G1_eq] at hR
  cases hR
  exact C10Iso.iso_map_G1_rational X Y Z hZ

/-- non-vacuity of `hR`: `iso_map_G1` returns on every input (`iso_map_G1_total`), e.g. -/
example : (1 : F1) ≠ 0 ∧ ∃ R, Gen.ExtraHashIso.iso_map_G1 (1 : F1) 1 1 = .ok R :=
  ⟨by decide +kernel, iso_map_G1_total 1 1 1⟩

/-- **Generated `map_to_curve_G1` is the generated `iso_map_G1` applied to the generated `optimized_swu_G1`**
    (`map_to_curve_G1(u) = iso_map_G1(*optimized_swu_G1(u))`), for every `u`. -/
theorem map_to_curve_G1_eq_iso_swu (u : F1) :
    Gen.ExtraHashIso.iso_map_G1 (Gen.ExtraSwu.optimized_swu_G1 u).1 (Gen.ExtraSwu.optimized_swu_G1 u).2.1
      (Gen.ExtraSwu.optimized_swu_G1 u).2.2 = .ok (Gen.ExtraSwu.map_to_curve_G1 u) := by
  rw [Tie.iso_map_G1_eq, Tie.optimized_swu_G1_eq, Tie.map_to_curve_G1_eq, C10.mapToCurveG1_eq]

/-- **C10 (G1): generated `map_to_curve_G1` lands on the curve, for every field element** `t ∈ Fp` (exceptional
    inputs included): the result passes the generated `is_on_curve(·, b)` — a point of `E1 : y² = x³ + 4`. -/
theorem map_to_curve_G1_on_curve (t : F1) :
    Gen.OptBls.is_on_curve (Gen.ExtraSwu.map_to_curve_G1 t) blsB = true := by
  rw [Tie.map_to_curve_G1_eq]; exact C10Iso.map_to_curve_G1_on_curve t

section G2iso
open PyEcc.Fqp PyEcc.FqpSem PyEcc.Swu2 PyEcc.IsoSem

/-- **The generated `iso_map_G2` never raises** on inputs whose `Z` is a reduced `FQ2` value (everything a Python
    `FQ2` object can be): every `IndexError` branch of the translated list code is dead. -/
theorem iso_map_G2_total (X Y Z : F2) (hZc : Canon Z) : ∃ R, Gen.ExtraHashIso.iso_map_G2 X Y Z = .ok R :=
  ⟨_, Tie.iso_map_G2_eq_wf X Y Z hZc.1 hZc.2⟩

/-- **C10 (G2 isogeny): generated `iso_map_G2` maps `E2'` into `E2`.**  For reduced `FQ2` inputs `X, Y, Z` with
    `Z ≠ 0` whose affine point lies on the 3-isogenous curve `y² = x³ + 240i·x + 1012(1+i)` (RFC 9380 §8.8.2), the
    generated `iso_map_G2(X, Y, Z)` returns a triple of reduced elements that passes the generated
    `is_on_curve(·, b2)`, `b2 = 4(1+i)`. -/
theorem iso_map_G2_on_curve (X Y Z : F2) (hX : Canon X) (hY : Canon Y) (hZc : Canon Z)
    (hZ : q Z ≠ 0) (h : (q Y / q Z) ^ 2 = (q X / q Z) ^ 3 + kA * (q X / q Z) + kB) :
    ∃ R, Gen.ExtraHashIso.iso_map_G2 X Y Z = .ok R ∧
      Transfer.CanonT R ∧ Gen.OptBls.is_on_curve R blsB2 = true :=
  ⟨_, Tie.iso_map_G2_eq_wf X Y Z hZc.1 hZc.2, C10Iso.iso_map_G2_on_curve X Y Z hX hY hZc hZ h⟩

/-- non-vacuity: the generated SWU output for `t = 1 + i` is such an input -/
example : ∃ X Y Z : F2, Canon X ∧ Canon Y ∧ Canon Z ∧ q Z ≠ 0 ∧
    (q Y / q Z) ^ 2 = (q X / q Z) ^ 3 + kA * (q X / q Z) + kB := by
  have ht : Canon (f2c [1, 1]) := cn_f2c (a := 1) (b := 1) (by decide) (by decide)
  obtain ⟨N, Y, D, hs⟩ := swu_G2_total _ ht
  have h := swu_G2_on_iso_curve _ ht N Y D hs
  exact ⟨_, _, _, h.1, h.2.1, h.2.2.1, h.2.2.2.2.1, h.2.2.2.2.2⟩

/-- **C10 (G2 isogeny): generated `iso_map_G2` is the rational map given by its coefficient table**
    (`ISO_3_MAP_COEFFICIENTS`): `Z₃ = Z⁷·xd(w)·yd(w)` with `w = X/Z`, and when this is non-zero
    `X₃/Z₃ = xn(w)/xd(w)` and `Y₃/Z₃ = (Y/Z)·yn(w)/yd(w)`. -/
theorem iso_map_G2_rational (X Y Z : F2) (hX : Canon X) (hY : Canon Y) (hZc : Canon Z) (hZ : q Z ≠ 0)
    (R : F2 × F2 × F2) (hR : Gen.ExtraHashIso.iso_map_G2 X Y Z = .ok R) :
    q R.2.2 = q Z ^ 7 * (ev fG (iso3 1) (q X / q Z) * ev fG (iso3 3) (q X / q Z)) ∧
    (q R.2.2 ≠ 0 →
      q R.1 / q R.2.2 = ev fG (iso3 0) (q X / q Z) / ev fG (iso3 1) (q X / q Z) ∧
      q R.2.1 / q R.2.2 = (q Y / q Z) * ev fG (iso3 2) (q X / q Z) / ev fG (iso3 3) (q X / q Z)) := by
  rw [Tie.iso_map_G2_eq_wf X Y Z hZc.1 hZc.2] at hR
  cases hR
  exact C10Iso.iso_map_G2_rational X Y Z hX hY hZc hZ

/-- **Generated `map_to_curve_G2` is the generated `iso_map_G2` applied to the generated `optimized_swu_G2`**, for
    every reduced `u`: with `(N, Y, D) = optimized_swu_G2(u)` (which never raises), `iso_map_G2(N, Y, D)` returns
    and `map_to_curve_G2(u)` returns the same triple. -/
theorem map_to_curve_G2_eq_iso_swu (u : F2) (hu : Canon u) :
    ∃ N Y D R, Gen.ExtraSwu.optimized_swu_G2 u = .ok (N, Y, D) ∧
      Gen.ExtraHashIso.iso_map_G2 N Y D = .ok R ∧ Gen.ExtraSwu.map_to_curve_G2 u = .ok R := by
  obtain ⟨N, Y, D, hs⟩ := swu_G2_total u hu
  have hD := (swu_G2_on_iso_curve u hu N Y D hs).2.2.1
  refine ⟨N, Y, D, isoMapG2 N Y D, hs, Tie.iso_map_G2_eq_wf N Y D hD.1 hD.2, ?_⟩
  rw [Tie.optimized_swu_G2_eq] at hs
  rw [Tie.map_to_curve_G2_eq, C10.mapToCurveG2_eq, hs]
  rfl

/-- **C10 (G2): generated `map_to_curve_G2` never raises and lands on the curve, for every reduced field element**
    `t = a + b·i`, `0 ≤ a, b < p`: it returns a triple of reduced elements accepted by the generated
    `is_on_curve(·, b2)` — a point of `E2 : y² = x³ + 4(1+i)`. -/
theorem map_to_curve_G2_on_curve (t : F2) (ht : Canon t) :
    ∃ Q, Gen.ExtraSwu.map_to_curve_G2 t = .ok Q ∧ Transfer.CanonT Q ∧
      Gen.OptBls.is_on_curve Q blsB2 = true := by
  rw [Tie.map_to_curve_G2_eq]; exact C10Iso.map_to_curve_G2_on_curve t ht

example : Canon (f2c [3, 5]) := cn_f2c (a := 3) (b := 5) (by decide) (by decide)

end G2iso

/-! ## `hash_to_field` with `count = 2` -/

/-- **Generated `hash_to_field_FQ(msg, 2, DST, H)`** raises what the generated `expand_message_xmd(msg, DST, 128, H)`
    raises, and otherwise returns exactly two `FQ` elements (so the tuple unpacking `u0, u1 = …` of `hash_to_G1`
    cannot fail). -/
theorem hash_to_field_FQ_two (H : HashFn) (msg dst : Bytes) :
    (∃ e, Gen.ExtraHash.expand_message_xmd msg dst 128 H = .error e ∧
      Gen.ExtraHash.hash_to_field_FQ msg 2 dst H = .error e) ∨
    (∃ prb u0 u1, Gen.ExtraHash.expand_message_xmd msg dst 128 H = .ok prb ∧
      Gen.ExtraHash.hash_to_field_FQ msg 2 dst H = .ok [u0, u1]) := by
  rw [Tie.expand_message_xmd_eq, Tie.hash_to_field_FQ_eq]
  rcases C10.h2f_fq_cases H msg dst with ⟨e, h1, h2⟩ | ⟨prb, u0, u1, h1, h2⟩
  · exact Or.inl ⟨e, h1, by rw [h2]; rfl⟩
  · exact Or.inr ⟨prb, f1c u0, f1c u1, h1, by rw [h2]; rfl⟩

/-- **Generated `hash_to_field_FQ2(msg, 2, DST, H)`** raises what the generated `expand_message_xmd(msg, DST, 256, H)`
    raises, and otherwise returns exactly two reduced `FQ2` elements. -/
theorem hash_to_field_FQ2_two (H : HashFn) (msg dst : Bytes) :
    (∃ e, Gen.ExtraHash.expand_message_xmd msg dst 256 H = .error e ∧
      Gen.ExtraHash.hash_to_field_FQ2 msg 2 dst H = .error e) ∨
    (∃ prb u0 u1, Gen.ExtraHash.expand_message_xmd msg dst 256 H = .ok prb ∧
      Gen.ExtraHash.hash_to_field_FQ2 msg 2 dst H = .ok [u0, u1] ∧
      FqpSem.Canon u0 ∧ FqpSem.Canon u1) := by
  rw [Tie.expand_message_xmd_eq, Tie.hash_to_field_FQ2_eq]
  rcases C10.h2f_fq2_cases H msg dst with ⟨e, h1, h2⟩ | ⟨prb, u0, u1, h1, h2⟩
  · exact Or.inl ⟨e, h1, by rw [h2]; rfl⟩
  · have hr := BlsSem.hashToFieldFq2_ok_range h2
    have r0 := hr u0 (by simp)
    have r1 := hr u1 (by simp)
    exact Or.inr ⟨prb, f2c [u0.1, u0.2], f2c [u1.1, u1.2], h1, by rw [h2]; rfl,
      Swu2.cn_f2c r0.1 r0.2, Swu2.cn_f2c r1.1 r1.2⟩

/-! ## `hash_to_G1` -/

/-- `(map f) <$> m = .error e` only if `m = .error e` -/
private theorem map_error' {α β : Type} {m : Except PyErr α} {f : α → β} {e : PyErr}
    (h : f <$> m = .error e) : m = .error e := by
  cases m with
  | error e' =>
    have h' : (Except.error e' : Except PyErr β) = .error e := h
    cases h'; rfl
  | ok a => cases h

/-- `(map f) <$> m = .ok b` only if `m = .ok a` with `b = f a` -/
private theorem map_ok' {α β : Type} {m : Except PyErr α} {f : α → β} {b : β}
    (h : f <$> m = .ok b) : ∃ a, m = .ok a ∧ b = f a := by
  cases m with
  | error e' => cases h
  | ok a => exact ⟨a, rfl, (Except.ok.inj h).symm⟩

/-- **C10 (structure, G1): generated `hash_to_G1` is RFC 9380 §3 `hash_to_curve` with `count = 2`**, written with
    generated functions only.  If the generated `hash_to_field_FQ(msg, 2, DST, H)` raises, `hash_to_G1` raises the
    same exception; otherwise it returned two field elements `u0, u1` and
    `hash_to_G1 = clear_cofactor_G1(add(map_to_curve_G1(u0), map_to_curve_G1(u1)))`.
    (The `ValueError` of the Python tuple-unpacking `u0, u1 = …` is unreachable.) -/
theorem hash_to_G1_skeleton (msg dst : Bytes) (H : HashFn) :
    (∀ e, Gen.ExtraHash.hash_to_field_FQ msg 2 dst H = .error e →
      Gen.ExtraSwu.hash_to_G1 msg dst H = .error e) ∧
    (∀ us, Gen.ExtraHash.hash_to_field_FQ msg 2 dst H = .ok us → ∃ u0 u1, us = [u0, u1] ∧
      Gen.ExtraSwu.hash_to_G1 msg dst H = .ok (Gen.ExtraSwu.clear_cofactor_G1
        (Gen.OptBls.add (Gen.ExtraSwu.map_to_curve_G1 u0) (Gen.ExtraSwu.map_to_curve_G1 u1)))) := by
  rw [Tie.hash_to_field_FQ_eq, Tie.hash_to_G1_eq]
  constructor
  · intro e h
    exact (C10.hashToG1_eq H msg dst).1 e (map_error' h)
  · intro us h
    obtain ⟨us', h', rfl⟩ := map_ok' h
    obtain ⟨u0, u1, rfl, hg⟩ := (C10.hashToG1_eq H msg dst).2 us' h'
    refine ⟨f1c u0, f1c u1, rfl, ?_⟩
    rw [hg, Tie.clear_cofactor_G1_eq, Tie.map_to_curve_G1_eq, Tie.map_to_curve_G1_eq]

/-- **C10 (G1): generated `hash_to_G1` returns a point of the prime-order subgroup.**  Whatever hash function,
    message and DST: if `hash_to_G1` returns a triple, it passes the generated `is_on_curve(·, b)` and the generated
    `subgroup_check` (SWU + isogeny land on `E1`; `add` preserves the curve; `clear_cofactor_G1` maps every curve
    point into the subgroup because `E(Fp)` has exponent `H_EFF_G1·r`). -/
theorem hash_to_G1_good (H : HashFn) (msg dst : Bytes) (P : F1 × F1 × F1)
    (h : Gen.ExtraSwu.hash_to_G1 msg dst H = .ok P) :
    Gen.OptBls.is_on_curve P blsB = true ∧ Gen.ExtraCodec.subgroup_check P = true := by
  rw [Tie.hash_to_G1_eq] at h
  rw [Tie.subgroup_check_eq]
  refine ⟨C10Iso.hash_to_G1_on_curve H msg dst P h, ?_⟩
  cases hf : hashToFieldFq H blsP msg 2 dst with
  | error e => rw [(C10.hashToG1_eq H msg dst).1 e hf] at h; cases h
  | ok us =>
    obtain ⟨u0, u1, _, hg⟩ := (C10.hashToG1_eq H msg dst).2 us hf
    rw [hg] at h
    have e := Except.ok.inj h
    subst e
    obtain ⟨p0, r0⟩ := (Transfer.on_curve_iff_F1 _).mp (C10Iso.map_to_curve_G1_on_curve (f1c u0))
    obtain ⟨p1, r1⟩ := (Transfer.on_curve_iff_F1 _).mp (C10Iso.map_to_curve_G1_on_curve (f1c u1))
    exact (C17O.clearCofactorG1_lands _
      ((Transfer.on_curve_iff_F1 _).mpr ⟨_, Transfer.opt_add_refines_F1 r0 r1⟩)).2

/-- **C10 (exceptions of generated `hash_to_G1`).**  For a hash with positive digest size, `hash_to_G1` raises exactly
    when `expand_message_xmd` aborts for `len_in_bytes = 128`, i.e. iff `len(DST) > 255` or
    `ceil(128 / digest_size) > 255`, and the exception is then a `ValueError`.  Nothing else can be raised. -/
theorem hash_to_G1_error_iff (H : HashFn) (msg dst : Bytes) (hd : 0 < H.digestSize) (e : PyErr) :
    Gen.ExtraSwu.hash_to_G1 msg dst H = .error e ↔
      e = .value ∧ (dst.length > 255 ∨ Spec.ceilDiv 128 H.digestSize > 255) := by
  rw [Tie.hash_to_G1_eq]; exact C10.hashToG1_error_iff H msg dst hd e

example : 0 < sha256Fn.digestSize := by decide

/-- **Generated `hash_to_G1` returns for every message under a tag of at most 255 bytes** (hash with a digest of at
    least one byte and `ceil(128/digest_size) ≤ 255`; SHA-256 has 32), and the result is in the subgroup. -/
theorem hash_to_G1_total (H : HashFn) (msg dst : Bytes) (hd : 0 < H.digestSize)
    (hdst : dst.length ≤ 255) (hell : Spec.ceilDiv 128 H.digestSize ≤ 255) :
    ∃ P, Gen.ExtraSwu.hash_to_G1 msg dst H = .ok P ∧
      Gen.OptBls.is_on_curve P blsB = true ∧ Gen.ExtraCodec.subgroup_check P = true := by
  cases h : Gen.ExtraSwu.hash_to_G1 msg dst H with
  | error e =>
    have := ((hash_to_G1_error_iff H msg dst hd e).mp h).2
    omega
  | ok P => exact ⟨P, rfl, hash_to_G1_good H msg dst P h⟩

example : 0 < sha256Fn.digestSize ∧ ([] : Bytes).length ≤ 255 ∧ Spec.ceilDiv 128 sha256Fn.digestSize ≤ 255 := by
  decide

/-! ## `hash_to_G2` -/

/-- **C10 (structure, G2): generated `hash_to_G2` is RFC 9380 §3 `hash_to_curve` with `count = 2`**, written with
    generated functions only.  If the generated `hash_to_field_FQ2(msg, 2, DST, H)` raises, `hash_to_G2` raises the
    same exception; otherwise it returned two field elements `u0, u1` and `hash_to_G2` is
    `clear_cofactor_G2(add(map_to_curve_G2(u0), map_to_curve_G2(u1)))`, raising if one of the two `map_to_curve_G2`
    calls raises (the first one first; by `map_to_curve_G2_on_curve` neither does). -/
theorem hash_to_G2_skeleton (msg dst : Bytes) (H : HashFn) :
    (∀ e, Gen.ExtraHash.hash_to_field_FQ2 msg 2 dst H = .error e →
      Gen.ExtraSwu.hash_to_G2 msg dst H = .error e) ∧
    (∀ us, Gen.ExtraHash.hash_to_field_FQ2 msg 2 dst H = .ok us → ∃ u0 u1, us = [u0, u1] ∧
      Gen.ExtraSwu.hash_to_G2 msg dst H =
        (Gen.ExtraSwu.map_to_curve_G2 u0).bind fun q0 =>
        (Gen.ExtraSwu.map_to_curve_G2 u1).bind fun q1 =>
          .ok (Gen.ExtraSwu.clear_cofactor_G2 (Gen.OptBls.add q0 q1))) := by
  rw [Tie.hash_to_field_FQ2_eq, Tie.hash_to_G2_eq]
  constructor
  · intro e h
    exact (C10.hashToG2_eq H msg dst).1 e (map_error' h)
  · intro us h
    obtain ⟨us', h', rfl⟩ := map_ok' h
    obtain ⟨u0, u1, rfl, hg⟩ := (C10.hashToG2_eq H msg dst).2 us' h'
    refine ⟨f2c [u0.1, u0.2], f2c [u1.1, u1.2], rfl, ?_⟩
    rw [hg, Tie.map_to_curve_G2_eq, Tie.map_to_curve_G2_eq]
    simp only [Tie.clear_cofactor_G2_eq]

/-- **C10 / HT6: generated `hash_to_G2` lands in the prime-order subgroup.**  For every hash function `H` (any
    function with the `hashlib` interface), message and DST: whatever the generated `hash_to_G2` returns is a
    triple of reduced `FQ2` elements on the twist curve (generated `is_on_curve(·, b2)`) that passes the generated
    `subgroup_check`.  No hypothesis. -/
theorem hash_to_G2_good (H : HashFn) (msg dst : Bytes) (Q : G2Pt)
    (h : Gen.ExtraSwu.hash_to_G2 msg dst H = .ok Q) :
    Transfer.CanonT Q ∧ Gen.OptBls.is_on_curve Q blsB2 = true ∧ Gen.ExtraCodec.subgroup_check Q = true := by
  rw [Tie.hash_to_G2_eq] at h
  rw [Tie.subgroup_check_eq]
  exact C17O.hash_good_proved H msg dst Q h

/-- **C10: the result of the generated `hash_to_G2` is in the `r`-torsion of `E'(Fp²)`.**  It represents a point
    `P` of Mathlib's group of points of `y² = x³ + 4(1+i)` over `K2 = Fp[X]/(X²+1)` with `curve_order • P = 0`. -/
theorem hash_to_G2_torsion [DecidableEq Transfer.K2] (H : HashFn) (msg dst : Bytes) (Q : G2Pt)
    (h : Gen.ExtraSwu.hash_to_G2 msg dst H = .ok Q) :
    ∃ P : CurvePt (FqpSem.toQ blsB2 : Transfer.K2),
      Represents (Transfer.mapT FqpSem.toQ Q) P ∧ blsR • P = 0 := by
  rw [Tie.hash_to_G2_eq] at h
  obtain ⟨c, hon, hs⟩ := C17O.hash_good_proved H msg dst Q h
  obtain ⟨P, r, hiff⟩ := C17M.subgroupCheck_G2_of_on_curve c hon
  exact ⟨P, r, hiff.mp hs⟩

/-- **Generated `hash_to_G2` raises nothing but `ValueError`**, for every hash function, message and DST: the bare
    `Exception("Hash to Curve - Optimized SWU failure")` of `optimized_swu_G2` is unreachable. -/
theorem hash_to_G2_error_kind (H : HashFn) (msg dst : Bytes) (e : PyErr)
    (h : Gen.ExtraSwu.hash_to_G2 msg dst H = .error e) : e = .value := by
  rw [Tie.hash_to_G2_eq] at h
  rcases BlsSem.hashToG2_error h with h | ⟨_, hf⟩
  · exact h
  · exact (C10G2.not_swuFails hf).elim

/-- **C10 (exceptions of generated `hash_to_G2`, exact).**  For a hash with positive digest size, `hash_to_G2`
    raises exactly when `expand_message_xmd` aborts for `len_in_bytes = 256`, i.e. iff `len(DST) > 255` or
    `ceil(256 / digest_size) > 255`, and the exception is then a `ValueError`.  Nothing else can be raised. -/
theorem hash_to_G2_error_iff (H : HashFn) (msg dst : Bytes) (hd : 0 < H.digestSize) (e : PyErr) :
    Gen.ExtraSwu.hash_to_G2 msg dst H = .error e ↔
      e = .value ∧ (dst.length > 255 ∨ Spec.ceilDiv 256 H.digestSize > 255) := by
  rw [Tie.hash_to_G2_eq]
  constructor
  · intro h
    rcases C10.hashToG2_error_kinds H msg dst hd e h with hv | ⟨_, u0, u1, hf, hs⟩
    · exact hv
    · exfalso
      have hr := BlsSem.hashToFieldFq2_ok_range hf
      have r0 := hr u0 (by simp)
      have r1 := hr u1 (by simp)
      rcases hs with hs | hs
      · obtain ⟨r, hr'⟩ := C10G2.swuTotal u0.1 u0.2 r0.1 r0.2
        rw [hr'] at hs; cases hs
      · obtain ⟨r, hr'⟩ := C10G2.swuTotal u1.1 u1.2 r1.1 r1.2
        rw [hr'] at hs; cases hs
  · rintro ⟨rfl, hc⟩
    obtain ⟨e, hx⟩ := (C15.xmd_error_iff H msg dst 256 hd).mpr (by omega)
    have hk := C15.xmd_error_kind H msg dst 256 hd _ hx
    unfold C15.xmdErr at hk; rw [if_pos hc] at hk
    subst hk
    rcases C10.h2f_fq2_cases H msg dst with ⟨e', hx', h2⟩ | ⟨prb, _, _, hx', _⟩
    · rw [hx] at hx'
      injection hx' with hx'
      subst hx'
      exact (C10.hashToG2_eq H msg dst).1 _ h2
    · rw [hx] at hx'; cases hx'

/-- **Generated `hash_to_G2` never errors on admissible inputs.**  For every message, every tag of at most 255
    bytes and every hash function with a digest of at least 2 bytes (so that `ell = ceil(256/digest_size) ≤ 255`;
    SHA-256 has 32), `hash_to_G2` returns a triple of reduced elements on the twist curve that passes the generated
    `subgroup_check`. -/
theorem hash_to_G2_total (H : HashFn) (msg dst : Bytes) (hd : 2 ≤ H.digestSize) (hdst : dst.length ≤ 255) :
    ∃ Q, Gen.ExtraSwu.hash_to_G2 msg dst H = .ok Q ∧ Transfer.CanonT Q ∧
      Gen.OptBls.is_on_curve Q blsB2 = true ∧ Gen.ExtraCodec.subgroup_check Q = true := by
  cases h : Gen.ExtraSwu.hash_to_G2 msg dst H with
  | error e =>
    rw [Tie.hash_to_G2_eq] at h
    exact (C10G2.not_swuFails (BlsSem.hashToG2_error_of_dst hd hdst h).2).elim
  | ok Q => exact ⟨Q, rfl, hash_to_G2_good H msg dst Q h⟩

example : 2 ≤ sha256Fn.digestSize ∧ ([] : Bytes).length ≤ 255 := by decide

/-- **The `ValueError` case is real.**  A tag longer than 255 bytes makes the generated `hash_to_G2` raise
    `ValueError` (RFC 9380 §5.3.1: DST must be at most 255 bytes). -/
theorem hash_to_G2_long_dst (H : HashFn) (msg dst : Bytes) (hd : 0 < H.digestSize)
    (hl : dst.length > 255) : Gen.ExtraSwu.hash_to_G2 msg dst H = .error .value := by
  rw [Tie.hash_to_G2_eq]; exact C10.hashToG2_long_dst H msg dst hd hl

example : Gen.ExtraSwu.hash_to_G2 [] (List.replicate 256 0) sha256Fn = .error .value :=
  hash_to_G2_long_dst sha256Fn [] _ (by decide) (by rw [List.length_replicate]; decide)

end PyEcc.C10.Gen
