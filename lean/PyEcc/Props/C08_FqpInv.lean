/-
  C08 (extension fields, inverse and division): `FQP.inv` / `FQP.__truediv__` (both the reference and the
  optimized class) compute the inverse / quotient in the field `(ZMod p)[X]/(m)` for ANY prime `p` and ANY
  irreducible modulus `m = X^d + Σ mcᵢ Xⁱ`.

  The proof does not assume that `poly_rounded_div` is polynomial division (it is not: only its leading
  coefficient is meaningful); see `PyEcc/Sem/FqpInv.lean` for the loop invariant.

  Side condition `Sane p mc` (`McSane` of DESIGN.md): every supplied modulus coefficient is `0` or not
  divisible by `p`, because `deg` tests raw Python ints with `== 0`.
  Instances: FQ2 (`mc = (1, 0)`) for every prime `p ≡ 3 (mod 4)`, in particular BLS12-381 and BN128.
-/
import PyEcc.Sem.FqpFq2
import PyEcc.Sem.Primes
import PyEcc.Model.Curve

namespace PyEcc.C08P
open PyEcc PyEcc.Fqp PyEcc.FqpSem

variable {v : Variant} {p : ℕ} {mc : List Int}

/-- a reduced element which is not the zero element is not zero in the quotient ring -/
theorem toQ_ne_zero (hp : 0 < p) {a : Fqp v p mc} (ha : Canon a) (hne : a ≠ 0) : toQ a ≠ 0 := by
  intro h0
  apply hne
  apply toQ_inj ha (canon_zero hp)
  rw [h0]; exact toQ_zero.symm

/-- **`inv` is the inverse in the quotient** (general irreducible modulus, both classes):
`toQ (inv a) · toQ a = 1`, and the result is stored reduced. -/
theorem inv_refines [Fact p.Prime] (hd : 1 ≤ mc.length) (hirr : Irreducible (modulus p mc))
    (hmc : Sane p mc) {a : Fqp v p mc} (ha : Canon a) (hne : a ≠ 0) :
    Canon (Fqp.inv a) ∧ toQ (Fqp.inv a) * toQ a = 1 :=
  toQ_inv_mul hd hirr hmc ha.wf (sane_of_canonL ha)
    (toQ_ne_zero (Fact.out : p.Prime).pos ha hne)

/-- **`x * inv x = 1`** for every reduced `x ≠ 0` of `FQP` over any prime field with any irreducible
modulus (`FQ2`, `FQ12`, user-defined extensions), reference and optimized class. -/
theorem mul_inv_cancel [Fact p.Prime] (hd : 1 ≤ mc.length) (hirr : Irreducible (modulus p mc))
    (hmc : Sane p mc) {a : Fqp v p mc} (ha : Canon a) (hne : a ≠ 0) :
    a * Fqp.inv a = 1 ∧ Fqp.inv a * a = 1 := by
  have hp : 0 < p := (Fact.out : p.Prime).pos
  obtain ⟨hc, hq⟩ := inv_refines hd hirr hmc ha hne
  constructor
  · apply toQ_inj (canon_mul hp ha.wf hc.wf) (canon_one hp hd)
    show toQ (mul a (Fqp.inv a)) = toQ one
    rw [toQ_mul ha.wf hc.wf, toQ_one, _root_.mul_comm, hq]
  · apply toQ_inj (canon_mul hp hc.wf ha.wf) (canon_one hp hd)
    show toQ (mul (Fqp.inv a) a) = toQ one
    rw [toQ_mul hc.wf ha.wf, toQ_one, hq]

/-- `inv 0 = 0` (the `prime_field_inv(0) = 0` convention propagates), any `p`, any modulus. -/
theorem inv_zero : Fqp.inv (0 : Fqp v p mc) = 0 := by
  have h := inv_zero_coeffs (v := v) (p := p) (mc := mc)
  show Fqp.inv zero = zero
  cases hx : Fqp.inv (zero : Fqp v p mc) with
  | mk c => rw [hx] at h; cases hz : (zero : Fqp v p mc) with
    | mk z => rw [hz] at h; simp only at h; rw [h]

/-- **`(x / y) * y = x`** for reduced `x`, `y ≠ 0`; `x / y` is `x * inv y` in the code. -/
theorem div_mul_cancel [Fact p.Prime] (hd : 1 ≤ mc.length) (hirr : Irreducible (modulus p mc))
    (hmc : Sane p mc) {a b : Fqp v p mc} (ha : Canon a) (hb : Canon b) (hne : b ≠ 0) :
    a / b * b = a := by
  have hp : 0 < p := (Fact.out : p.Prime).pos
  obtain ⟨hc, hq⟩ := inv_refines hd hirr hmc hb hne
  apply toQ_inj (canon_mul hp (wf_mul ha.wf hc.wf) hb.wf) ha
  show toQ (mul (mul a (Fqp.inv b)) b) = toQ a
  rw [toQ_mul (wf_mul ha.wf hc.wf) hb.wf, toQ_mul ha.wf hc.wf, _root_.mul_assoc, hq, _root_.mul_one]

/-- With the field structure of `AdjoinRoot` (modulus irreducible): `inv` and `/` are the field inverse
and division. -/
theorem inv_div_spec [Fact p.Prime] [Fact (Irreducible (modulus p mc))] (hd : 1 ≤ mc.length)
    (hmc : Sane p mc) {a b : Fqp v p mc} (ha : Canon a) (hb : Canon b) (hne : b ≠ 0) :
    toQ (Fqp.inv b) = (toQ b)⁻¹ ∧ toQ (a / b) = toQ a / toQ b := by
  obtain ⟨hc, hq⟩ := inv_refines hd Fact.out hmc hb hne
  have h1 : toQ (Fqp.inv b) = (toQ b)⁻¹ := eq_inv_of_mul_eq_one_left hq
  refine ⟨h1, ?_⟩
  show toQ (mul a (Fqp.inv b)) = _
  rw [toQ_mul ha.wf hc.wf, h1, div_eq_mul_inv]

/-! ### FQ2: `mc = (1, 0)`, any prime `p ≡ 3 (mod 4)` -/

/-- **FQ2**: for every prime `p ≡ 3 (mod 4)` and the modulus `X² + 1`, `x * inv x = 1`,
`(y / x) * x = y` for reduced `x ≠ 0`, in the reference and the optimized class. -/
theorem fq2_mul_inv_cancel [Fact p.Prime] (h4 : p % 4 = 3) {a b : Fqp v p [1, 0]} (ha : Canon a)
    (hb : Canon b) (hne : a ≠ 0) :
    a * Fqp.inv a = 1 ∧ Fqp.inv a * a = 1 ∧ b / a * a = b :=
  ⟨(mul_inv_cancel (by decide) (irreducible_modulus_fq2 h4) sane_fq2 ha hne).1,
   (mul_inv_cancel (by decide) (irreducible_modulus_fq2 h4) sane_fq2 ha hne).2,
   div_mul_cancel (by decide) (irreducible_modulus_fq2 h4) sane_fq2 hb ha hne⟩

/-- BLS12-381 `FQ2` (both classes): `x * inv x = 1` for reduced `x ≠ 0`. -/
theorem bls_fq2_mul_inv_cancel {a : Fqp v blsP blsMc2} (ha : Canon a) (hne : a ≠ 0) :
    a * Fqp.inv a = 1 ∧ Fqp.inv a * a = 1 :=
  have h4 : blsP % 4 = 3 := by decide
  ⟨(fq2_mul_inv_cancel (p := blsP) h4 ha ha hne).1, (fq2_mul_inv_cancel (p := blsP) h4 ha ha hne).2.1⟩

/-- BN128 `FQ2` (both classes): `x * inv x = 1` for reduced `x ≠ 0`. -/
theorem bn_fq2_mul_inv_cancel {a : Fqp v bnP bnMc2} (ha : Canon a) (hne : a ≠ 0) :
    a * Fqp.inv a = 1 ∧ Fqp.inv a * a = 1 :=
  have h4 : bnP % 4 = 3 := by decide
  ⟨(fq2_mul_inv_cancel (p := bnP) h4 ha ha hne).1, (fq2_mul_inv_cancel (p := bnP) h4 ha ha hne).2.1⟩

/-! ### non-vacuity -/


example : Fact (Nat.Prime 7) := ⟨by norm_num⟩
example : Irreducible (modulus 7 [1, 0]) :=
  haveI : Fact (Nat.Prime 7) := ⟨by norm_num⟩
  irreducible_modulus_fq2 (by decide)
example : Canon (⟨[3, 5]⟩ : Fqp .ref 7 [1, 0]) ∧ (⟨[3, 5]⟩ : Fqp .ref 7 [1, 0]) ≠ 0 := by decide
example : (Fqp.inv (⟨[3, 5]⟩ : Fqp .ref 7 [1, 0])).coeffs = [4, 5] ∧
    ((⟨[3, 5]⟩ : Fqp .ref 7 [1, 0]) * Fqp.inv ⟨[3, 5]⟩).coeffs = [1, 0] := by decide
example : (Fqp.inv (⟨[3, 5]⟩ : Fqp .opt 7 [1, 0])).coeffs = [4, 5] := by decide
example : blsMc2 = [1, 0] ∧ bnMc2 = [1, 0] ∧ blsP % 4 = 3 ∧ bnP % 4 = 3 := by decide
example : Canon (⟨[3, 5]⟩ : Fqp .opt blsP blsMc2) ∧ (⟨[3, 5]⟩ : Fqp .opt blsP blsMc2) ≠ 0 := by
  decide
/-- the side condition holds for the real FQ12 moduli (irreducibility of the degree-12 moduli is the
    separate hypothesis HB3) -/
example : Sane blsP blsMc12 ∧ Sane bnP bnMc12 :=
  ⟨sane_of_natAbs_lt (by decide), sane_of_natAbs_lt (by decide)⟩

end PyEcc.C08P
