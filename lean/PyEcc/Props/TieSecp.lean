/-
  PyEcc.Props.TieSecp — TIE theorems ("generated = hand-written model").
  `Gen/Extra*.lean` is re-generated from the Python source on every run (tools/translate/gen_extra.py). Each theorem states that
  the function the translator produced from the CURRENT source is, for all inputs, the hand-written model function that the property
  theorems are about. A change to one of these Python functions changes the generated definition and breaks a theorem here
  statically, without needing a test input. (Split per source area so that a change in one area does not alarm unrelated properties.)
  The proofs close with `tie_close` (Props/TieRobC.lean): reflexivity first, then normalisation of both sides and a case analysis, so
  that a behaviour-preserving reshaping of the Python (renamed / inlined locals, early `return` vs conditional expression, negated
  test with swapped branches, `for _ in range(k)` vs the unrolled calls, …) keeps the theorem, while a real change fails in seconds.
-/
import PyEcc.Gen.ExtraSecp
import PyEcc.Props.TieRobC

set_option linter.unusedSimpArgs false

namespace PyEcc.Tie
open PyEcc

/-! ### py_ecc/secp256k1/secp256k1.py -/

/-- `privtopub(privkey)` as translated from the source is the model's `Ecdsa.privtopub`. -/
theorem privtopub_eq (privkey : Bytes) :
    Gen.ExtraSecp.privtopub privkey = Ecdsa.privtopub privkey := by
  unfold Gen.ExtraSecp.privtopub Ecdsa.privtopub
  tie_close

/-- `ecdsa_raw_sign(msghash, priv)` as translated from the source, with the call
    `deterministic_generate_k(msghash, priv)` replaced by an explicit nonce `k`, is the model's
    `Ecdsa.rawSignWithK`. -/
theorem ecdsa_raw_sign_eq (msghash priv : Bytes) (k : Int) :
    Gen.ExtraSecp.ecdsa_raw_sign msghash priv k = Ecdsa.rawSignWithK msghash priv k := by
  unfold Gen.ExtraSecp.ecdsa_raw_sign Ecdsa.rawSignWithK
  -- robust against: the low-s normalisation written as an early `return` / as conditional expressions
  tie_close [pyXor_emod_two_zero]

/-- `ecdsa_raw_recover(msghash, (v, r, s))` as translated from the source is the model's
    `Ecdsa.ecdsaRawRecover`. -/
theorem ecdsa_raw_recover_eq (msghash : Bytes) (v r s : Int) :
    Gen.ExtraSecp.ecdsa_raw_recover msghash (v, r, s) = Ecdsa.ecdsaRawRecover msghash v r s := by
  unfold Gen.ExtraSecp.ecdsa_raw_recover Ecdsa.ecdsaRawRecover
  -- robust against: renamed / inlined locals, `to_jacobian(·)` instead of the literal `(·, ·, 1)`, `G` instead of `(Gx, Gy)`
  tie_close [Gen.Secp.to_jacobian, Gen.Secp.G]


end PyEcc.Tie
