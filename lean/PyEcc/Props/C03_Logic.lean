/-
  PyEcc.Props.C03_Logic — the hypothesis-free part of C03 (py_ecc/bls/ciphersuites.py):
  error behaviour of `Aggregate`, and the inputs on which `AggregateVerify` / `FastAggregateVerify`
  return `False` without looking at any pairing.
-/
import PyEcc.Props.C04

namespace PyEcc.C03
open PyEcc PyEcc.BlsSem PyEcc.C04 Gen.Consts

/-! ## `Aggregate` -/

/-- the `for signature in signatures` loop of `Aggregate` -/
def aggFold (sigs : List Bytes) (acc : G2Pt) : Except PyErr G2Pt :=
  sigs.foldlM (fun acc sg => do
    let pt ← signatureToG2 sg
    pure (Gen.OptBls.add acc pt)) acc

theorem aggFold_error_of_undecodable :
    ∀ (sigs : List Bytes) (acc : G2Pt), (∃ sg ∈ sigs, ∃ e, signatureToG2 sg = .error e) →
      aggFold sigs acc = .error .value := by
  intro sigs
  induction sigs with
  | nil => rintro acc ⟨sg, hsg, _⟩; cases hsg
  | cons s rest ih =>
    intro acc h
    unfold aggFold
    simp only [List.foldlM_cons, bind, Except.bind, pure, Except.pure]
    cases hs : signatureToG2 s with
    | error e => simp only; rw [signatureToG2_error hs]
    | ok pt =>
      simp only
      apply ih
      obtain ⟨sg, hsg, e, he⟩ := h
      rcases List.mem_cons.mp hsg with rfl | hmem
      · rw [hs] at he; cases he
      · exact ⟨sg, hmem, e, he⟩

theorem aggregate_eq (sigs : List Bytes) :
    aggregate sigs =
      (if sigs.length < 1 then .error .validation
       else if !(sigs.all (·.length = 96)) then .error .validation
       else aggFold sigs Z2 >>= g2ToSignature) := by
  unfold aggregate aggFold
  simp only [bind, Except.bind, pure, Except.pure, throw, throwThe, MonadExceptOf.throw]

/-- **Error behaviour of `Aggregate`.**
    (1) `Aggregate([])` raises `ValidationError`;
    (2) if any entry — at any position — is not exactly 96 bytes long, `Aggregate` raises `ValidationError`
        (before decoding anything);
    (3) if the list is non-empty, all entries are 96 bytes long and some entry does not decode
        (`signature_to_G2` raises), the `ValueError` of `signature_to_G2` propagates to the caller. -/
theorem aggregate_errors :
    aggregate [] = .error .validation ∧
    (∀ sigs : List Bytes, (∃ sg ∈ sigs, sg.length ≠ 96) → aggregate sigs = .error .validation) ∧
    (∀ sigs : List Bytes, sigs ≠ [] → (∀ sg ∈ sigs, sg.length = 96) →
      (∃ sg ∈ sigs, ∃ e, signatureToG2 sg = .error e) → aggregate sigs = .error .value) := by
  refine ⟨rfl, ?_, ?_⟩
  · rintro sigs ⟨sg, hsg, hlen⟩
    rw [aggregate_eq]
    split
    · rfl
    · have : sigs.all (·.length = 96) = false := by
        rw [List.all_eq_false]
        exact ⟨sg, hsg, by simpa using hlen⟩
      simp [this]
  · intro sigs hne hall hbad
    rw [aggregate_eq]
    have h1 : ¬ sigs.length < 1 := by
      cases sigs with
      | nil => exact (hne rfl).elim
      | cons _ _ => simp
    have h2 : sigs.all (·.length = 96) = true := by
      rw [List.all_eq_true]; intro sg hsg; simpa using hall sg hsg
    simp only [h1, h2, ↓reduceIte, Bool.not_true, Bool.false_eq_true]
    rw [aggFold_error_of_undecodable sigs Z2 hbad]
    rfl

/-- non-vacuity of (2) and (3): a 95-byte entry; a 96-byte all-zero entry (compression flag clear) -/
example : aggregate [List.replicate 95 0] = .error .validation ∧
    aggregate [List.replicate 96 0] = .error .value := by
  have hbad : ∃ e, signatureToG2 (List.replicate 96 0) = .error e := by
    have h : (match signatureToG2 (List.replicate 96 0) with
      | .error _ => true | .ok _ => false) = true := by decide +kernel
    split at h
    · next e he => exact ⟨e, he⟩
    · cases h
  exact ⟨aggregate_errors.2.1 _ ⟨_, List.mem_singleton.mpr rfl, by decide⟩,
    aggregate_errors.2.2 _ (by simp) (by simp) ⟨_, List.mem_singleton.mpr rfl, hbad⟩⟩

/-! ## `hasDup` is "not pairwise distinct" -/

/-- **The duplicate test of the basic suite** (`len(messages) != len(set(messages))`) is true exactly
    when the messages are not pairwise distinct. -/
theorem hasDup_iff_not_nodup (msgs : List Bytes) : hasDup msgs = true ↔ ¬ msgs.Nodup := by
  induction msgs with
  | nil => simp [hasDup]
  | cons x xs ih =>
    simp only [hasDup, Bool.or_eq_true, List.contains_iff_mem, List.nodup_cons, ih]
    constructor
    · rintro (h | h)
      · exact fun hh => hh.1 h
      · exact fun hh => h hh.2
    · intro h
      by_cases hx : x ∈ xs
      · exact .inl hx
      · exact .inr fun hn => h ⟨hx, hn⟩

/-! ## `AggregateVerify` / `FastAggregateVerify` return `False` -/

/-- the four input checks at the head of `_CoreAggregateVerify` -/
theorem coreAggregateVerify_early {H : HashFn} {s : Suite} {pks msgs : List Bytes} {sig dst : Bytes}
    (h : pks.length ≠ msgs.length ∨ sig.length ≠ 96 ∨ pks = [] ∨
      ∃ pk ∈ pks, isValidPubkey s pk = false) :
    coreAggregateVerify H s pks msgs sig dst = .returned false := by
  have hb : coreAggregateVerifyBody H s pks msgs sig dst = .error .validation := by
    unfold coreAggregateVerifyBody
    simp only [bind, Except.bind, pure, Except.pure, throw, throwThe, MonadExceptOf.throw]
    split; · rfl
    next h1 =>
    split; · rfl
    next h2 =>
    split; · rfl
    next h3 =>
    split; · rfl
    next h4 =>
    exfalso
    rcases h with h | h | h | ⟨pk, hpk, hv⟩
    · exact h2 h
    · exact h3 h
    · subst h; simp at h4
    · have h1' : pks.all (isValidPubkey s) = true := by simpa using h1
      rw [List.all_eq_true] at h1'
      rw [h1' pk hpk] at hv
      cases hv
  unfold coreAggregateVerify
  rw [hb]; rfl

/-- **Inputs on which `AggregateVerify` returns `False` outright** (all three suites, any hash function,
    unconditionally — no exception, no pairing):
    (1) an empty key list; (2) key and message lists of different lengths; (3) a signature that is not
    96 bytes long; (4) a key that is not 48 bytes long anywhere in the list. -/
theorem aggregateVerify_false_early (H : HashFn) (s : Suite) (pks msgs : List Bytes) (sig : Bytes)
    (h : pks = [] ∨ pks.length ≠ msgs.length ∨ sig.length ≠ 96 ∨ ∃ pk ∈ pks, pk.length ≠ 48) :
    aggregateVerify H s pks msgs sig = .returned false := by
  have h48 : ∀ pk, pk.length ≠ 48 → isValidPubkey s pk = false := by
    intro pk hpk; simp [isValidPubkey, hpk]
  unfold aggregateVerify
  cases s with
  | basic =>
    simp only
    split
    · rfl
    · apply coreAggregateVerify_early
      rcases h with h | h | h | ⟨pk, hpk, hl⟩
      · exact .inr (.inr (.inl h))
      · exact .inl h
      · exact .inr (.inl h)
      · exact .inr (.inr (.inr ⟨pk, hpk, h48 pk hl⟩))
  | aug =>
    simp only
    split
    · rfl
    · next hl' =>
      apply coreAggregateVerify_early
      rcases h with h | h | h | ⟨pk, hpk, hl⟩
      · exact .inr (.inr (.inl h))
      · exact (hl' h).elim
      · exact .inr (.inl h)
      · exact .inr (.inr (.inr ⟨pk, hpk, h48 pk hl⟩))
  | pop =>
    apply coreAggregateVerify_early
    rcases h with h | h | h | ⟨pk, hpk, hl⟩
    · exact .inr (.inr (.inl h))
    · exact .inl h
    · exact .inr (.inl h)
    · exact .inr (.inr (.inr ⟨pk, hpk, h48 pk hl⟩))

example (H : HashFn) (s : Suite) (msgs : List Bytes) (sig : Bytes) :
    aggregateVerify H s [] msgs sig = .returned false :=
  aggregateVerify_false_early H s [] msgs sig (.inl rfl)

/-- **Basic suite: repeated messages are rejected.**  If the messages are not pairwise distinct,
    `G2Basic.AggregateVerify` returns `False` without looking at keys or signature. -/
theorem aggregateVerify_basic_dup (H : HashFn) (pks msgs : List Bytes) (sig : Bytes)
    (h : ¬ msgs.Nodup) : aggregateVerify H .basic pks msgs sig = .returned false := by
  have : hasDup msgs = true := (hasDup_iff_not_nodup msgs).mpr h
  simp [aggregateVerify, this]

example (H : HashFn) (pks : List Bytes) (m sig : Bytes) :
    aggregateVerify H .basic pks [m, m] sig = .returned false :=
  aggregateVerify_basic_dup H pks [m, m] sig (by simp)

/-- **POP suite: a key failing `KeyValidate` anywhere in the list is rejected outright** (its
    `_is_valid_pubkey` calls `KeyValidate` during input validation, before anything is hashed). -/
theorem aggregateVerify_pop_badkey (H : HashFn) (pks msgs : List Bytes) (sig : Bytes)
    (h : ∃ pk ∈ pks, keyValidate pk = false) :
    aggregateVerify H .pop pks msgs sig = .returned false := by
  obtain ⟨pk, hpk, hk⟩ := h
  apply coreAggregateVerify_early
  refine .inr (.inr (.inr ⟨pk, hpk, ?_⟩))
  unfold isValidPubkey
  split
  · rfl
  · exact hk

/-- **A key failing `KeyValidate` anywhere in the list is never accepted** (all suites).  The outcome is
    not `True`; it is `False` — or, in the basic and AUG suites where `KeyValidate` runs inside the loop
    AFTER `hash_to_G2` of the earlier messages, the un-caught SWU `Exception` from one of those (impossible
    under `SwuTotal`). -/
theorem aggregateVerify_badkey (H : HashFn) (s : Suite) (pks msgs : List Bytes) (sig : Bytes)
    (h : ∃ pk ∈ pks, keyValidate pk = false) :
    aggregateVerify H s pks msgs sig = .returned false ∨
    (aggregateVerify H s pks msgs sig = .raised .other ∧ SwuFails) := by
  rcases aggregateVerify_total_or_swu H s pks msgs sig with ⟨b, hb⟩ | hr
  · cases b with
    | false => exact .inl hb
    | true =>
      exfalso
      obtain ⟨pk, hpk, hk⟩ := h
      obtain ⟨_, _, _, hall, _⟩ := aggregateVerify_rejects_noncanonical H s pks msgs sig hb
      obtain ⟨hl, P, hP⟩ := hall pk hpk
      rw [(keyValidate_true_iff pk).mpr ⟨hl, P, hP⟩] at hk
      cases hk
  · exact .inr hr

/-- `aggregateVerify_badkey` under `SwuTotal`: the result is `False`. -/
theorem aggregateVerify_badkey_false (H : HashFn) (hswu : SwuTotal) (s : Suite) (pks msgs : List Bytes)
    (sig : Bytes) (h : ∃ pk ∈ pks, keyValidate pk = false) :
    aggregateVerify H s pks msgs sig = .returned false := by
  rcases aggregateVerify_badkey H s pks msgs sig h with h | ⟨_, hf⟩
  · exact h
  · exact (not_swuFails_iff.mpr hswu hf).elim

/-- non-vacuity: the empty string fails `KeyValidate` -/
example : keyValidate [] = false := by decide

/-- **`FastAggregateVerify([], m, sig)` is `False`** (the `n < 1` precondition, or before it the
    signature-length check, raises `ValidationError`, which the `except` turns into `False`). -/
theorem fastAggregateVerify_nil (H : HashFn) (m sig : Bytes) :
    fastAggregateVerify H [] m sig = .returned false :=
  fastAggregateVerify_malformed_returns_false H [] m sig (by simp)

end PyEcc.C03
