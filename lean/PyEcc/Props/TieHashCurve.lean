/-
  PyEcc.Props.TieHashCurve — TIE theorems ("generated = hand-written model") for the list-building helpers of the four curve
  packages: `twist` (x4), `cast_point_to_fq12` (x4) and the optimized bls12_381 `exp_by_p`.
  `Gen/ExtraHashCurve.lean` is re-generated from the Python source on every run (tools/translate/gen_hash.py).
-/
import PyEcc.Gen.ExtraHashCurve

namespace PyEcc.Tie
open PyEcc PyEcc.Gen.Consts

section embed
variable {v : Variant} {p : Nat} {mc2 mc12 : List Int}

/-- the model's `embed12 k pos0 pos1` as the explicit 12-entry list the Python code writes -/
theorem embed12_0_6 (k : Int) (x : Fqp v p mc2) :
    (embed12 k 0 6 x : Fqp v p mc12)
      = Fqp.ofInts ((([getI x.coeffs 0 - getI x.coeffs 1 * k] ++ List.replicate 5 (0 : Int)) ++ [getI x.coeffs 1])
          ++ List.replicate 5 (0 : Int)) := by
  unfold embed12
  rfl

theorem embed12_1_7 (k : Int) (x : Fqp v p mc2) :
    (embed12 k 1 7 x : Fqp v p mc12)
      = Fqp.ofInts (((([(0 : Int)] ++ [getI x.coeffs 0 - getI x.coeffs 1 * k]) ++ List.replicate 5 (0 : Int)) ++ [getI x.coeffs 1])
          ++ List.replicate 4 (0 : Int)) := by
  unfold embed12
  rfl

theorem embed12_3_9 (k : Int) (x : Fqp v p mc2) :
    (embed12 k 3 9 x : Fqp v p mc12)
      = Fqp.ofInts ((((List.replicate 3 (0 : Int) ++ [getI x.coeffs 0 - getI x.coeffs 1 * k]) ++ List.replicate 5 (0 : Int))
          ++ [getI x.coeffs 1]) ++ List.replicate 2 (0 : Int)) := by
  unfold embed12
  rfl

end embed

/-- optimized bls12_381 `twist(pt)` as translated from the source (the three coefficient pairs `[c0 - c1, c1]` placed at
    positions (1, 7), (0, 6), (3, 9) of twelve-entry lists) is the model's `twistOptBls`. -/
theorem twist_optbls_eq (pt : OBls2 × OBls2 × OBls2) :
    Gen.ExtraHashCurve.OptBls.twist pt = (twistOptBls pt : OBls12 × OBls12 × OBls12) := by
  obtain ⟨x, y, z⟩ := pt
  unfold Gen.ExtraHashCurve.OptBls.twist twistOptBls
  simp only [embed12_0_6, embed12_1_7, embed12_3_9, Int.mul_one]

/-- optimized bn128 `twist(pt)` as translated from the source (coefficient pairs `[c0 - c1 * 9, c1]` at positions (0, 6),
    then `nx * w**2`, `ny * w**3`, `nz`) is the model's `twistOptBn`. -/
theorem twist_optbn_eq (pt : OBn2 × OBn2 × OBn2) :
    Gen.ExtraHashCurve.OptBn.twist pt = (twistOptBn pt : OBn12 × OBn12 × OBn12) := by
  obtain ⟨x, y, z⟩ := pt
  unfold Gen.ExtraHashCurve.OptBn.twist twistOptBn
  simp only [embed12_0_6]

/-- optimized bls12_381 `cast_point_to_fq12(pt)` (`FQ12([c.n] + [0] * 11)` per coordinate) is the model's `castFq12` on each
    coordinate. -/
theorem cast_point_to_fq12_optbls_eq (pt : Fq blsP × Fq blsP × Fq blsP) :
    Gen.ExtraHashCurve.OptBls.cast_point_to_fq12 pt
      = ((castFq12 pt.1, castFq12 pt.2.1, castFq12 pt.2.2) : OBls12 × OBls12 × OBls12) := by
  unfold Gen.ExtraHashCurve.OptBls.cast_point_to_fq12 castFq12
  simp only [List.cons_append, List.nil_append]

/-- optimized bn128 `cast_point_to_fq12(pt)` is the model's `castFq12` on each coordinate. -/
theorem cast_point_to_fq12_optbn_eq (pt : Fq bnP × Fq bnP × Fq bnP) :
    Gen.ExtraHashCurve.OptBn.cast_point_to_fq12 pt
      = ((castFq12 pt.1, castFq12 pt.2.1, castFq12 pt.2.2) : OBn12 × OBn12 × OBn12) := by
  unfold Gen.ExtraHashCurve.OptBn.cast_point_to_fq12 castFq12
  simp only [List.cons_append, List.nil_append]

/-- optimized bls12_381 `exp_by_p(x)` = `sum((table_entry * int(coeff) for table_entry, coeff in zip(exptable, x.coeffs)),
    FQ12.zero())` as translated from the source is the model's `expByP` on the module's `exptable`. -/
theorem exp_by_p_eq (x : OBls12) : Gen.ExtraHashCurve.OptBls.exp_by_p x = expByP blsExptable x := by
  unfold Gen.ExtraHashCurve.OptBls.exp_by_p expByP
  with_reducible rfl

/-! ### the reference packages: coefficients are `FQ` objects, arithmetic on them reduces mod p at every step -/

section ref
variable {p : Nat} [NeZero p]

theorem ofInt_n_cast (z : Int) : (((Fq.ofInt z : Fq p).n : Nat) : Int) = z % (p : Int) := by
  unfold Fq.ofInt pmod
  have hp : (p : Int) ≠ 0 := by
    have := NeZero.ne p
    omega
  exact Int.toNat_of_nonneg (Int.emod_nonneg _ hp)

theorem sub_n_cast (a b : Fq p) : (((a - b : Fq p).n : Nat) : Int) = ((a.n : Int) - b.n) % (p : Int) :=
  ofInt_n_cast _

theorem mulInt_n_cast (a : Fq p) (k : Int) : (((Fq.mulInt a k : Fq p).n : Nat) : Int) = ((a.n : Int) * k) % (p : Int) :=
  ofInt_n_cast _

omit [NeZero p] in
theorem mul_emod_left' (a k m : Int) : ((a % m) * k) % m = (a * k) % m := by
  rw [Int.mul_emod, Int.emod_emod, ← Int.mul_emod]

omit [NeZero p] in
theorem ofInts_embed_congr {v : Variant} {mc : List Int} (a b a' b' : Int)
    (h1 : a % (p : Int) = a' % (p : Int)) (h2 : b % (p : Int) = b' % (p : Int)) :
    (Fqp.ofInts ((([a] ++ List.replicate 5 (0 : Int)) ++ [b]) ++ List.replicate 5 (0 : Int)) : Fqp v p mc)
      = Fqp.ofInts ((([a'] ++ List.replicate 5 (0 : Int)) ++ [b']) ++ List.replicate 5 (0 : Int)) := by
  unfold Fqp.ofInts
  simp only [List.map_append, List.map_cons, List.map_nil, h1, h2]

/-- reference `[c0 - c1 * k, c1]` on `FQ` coefficients, embedded at positions (0, 6), is the model's `embed12 k 0 6`
    (which subtracts in the integers and reduces once) -/
theorem embed_ref_sub {mc2 mc12 : List Int} (x : Fqp .ref p mc2) :
    (Fqp.ofInts ((([((((Fq.ofInt (getI x.coeffs 0) : Fq p) - (Fq.ofInt (getI x.coeffs 1) : Fq p)).n : Nat) : Int)]
        ++ List.replicate 5 (0 : Int)) ++ [(((Fq.ofInt (getI x.coeffs 1) : Fq p).n : Nat) : Int)]) ++ List.replicate 5 (0 : Int))
        : Fqp .ref p mc12) = embed12 1 0 6 x := by
  rw [embed12_0_6]
  apply ofInts_embed_congr
  · rw [sub_n_cast, ofInt_n_cast, ofInt_n_cast, Int.emod_emod, ← Int.sub_emod, Int.mul_one]
  · rw [ofInt_n_cast, Int.emod_emod]

theorem embed_ref_sub9 {mc2 mc12 : List Int} (x : Fqp .ref p mc2) :
    (Fqp.ofInts ((([((((Fq.ofInt (getI x.coeffs 0) : Fq p) - Fq.mulInt (Fq.ofInt (getI x.coeffs 1) : Fq p) (9 : Int)).n : Nat) : Int)]
        ++ List.replicate 5 (0 : Int)) ++ [(((Fq.ofInt (getI x.coeffs 1) : Fq p).n : Nat) : Int)]) ++ List.replicate 5 (0 : Int))
        : Fqp .ref p mc12) = embed12 9 0 6 x := by
  rw [embed12_0_6]
  apply ofInts_embed_congr
  · rw [sub_n_cast, mulInt_n_cast, ofInt_n_cast, ofInt_n_cast, Int.emod_emod, mul_emod_left', ← Int.sub_emod]
  · rw [ofInt_n_cast, Int.emod_emod]

end ref

/-- reference bls12_381 `twist(pt)` as translated from the source (`None` for `None`; otherwise `[c0 - c1, c1]` on the `FQ`
    coefficients, embedded at positions (0, 6), then `nx / w**2`, `ny / w**3`) is the model's `twistRefBls`. -/
theorem twist_refbls_eq (pt : Option (RBls2 × RBls2)) :
    Gen.ExtraHashCurve.RefBls.twist pt = (twistRefBls pt : Option (RBls12 × RBls12)) := by
  rcases pt with _ | ⟨x, y⟩
  · rfl
  · unfold Gen.ExtraHashCurve.RefBls.twist twistRefBls
    simp only [embed_ref_sub]

/-- reference bn128 `twist(pt)` as translated from the source (`None` for `None`; otherwise `[c0 - c1 * 9, c1]` on the `FQ`
    coefficients, embedded at positions (0, 6), then `nx * w**2`, `ny * w**3`) is the model's `twistRefBn`. -/
theorem twist_refbn_eq (pt : Option (RBn2 × RBn2)) :
    Gen.ExtraHashCurve.RefBn.twist pt = (twistRefBn pt : Option (RBn12 × RBn12)) := by
  rcases pt with _ | ⟨x, y⟩
  · rfl
  · unfold Gen.ExtraHashCurve.RefBn.twist twistRefBn
    simp only [embed_ref_sub9]

/-- reference bls12_381 `cast_point_to_fq12(pt)` (`None` for `None`, else `FQ12([c.n] + [0] * 11)` per coordinate) is the model's
    `castFq12` mapped over the optional point. -/
theorem cast_point_to_fq12_refbls_eq (pt : Option (Fq blsP × Fq blsP)) :
    Gen.ExtraHashCurve.RefBls.cast_point_to_fq12 pt
      = (Option.map (fun (x, y) => (castFq12 x, castFq12 y)) pt : Option (RBls12 × RBls12)) := by
  rcases pt with _ | ⟨x, y⟩
  · rfl
  · unfold Gen.ExtraHashCurve.RefBls.cast_point_to_fq12 castFq12
    simp only [List.cons_append, List.nil_append, Option.map_some]

/-- reference bn128 `cast_point_to_fq12(pt)` is the model's `castFq12` mapped over the optional point. -/
theorem cast_point_to_fq12_refbn_eq (pt : Option (Fq bnP × Fq bnP)) :
    Gen.ExtraHashCurve.RefBn.cast_point_to_fq12 pt
      = (Option.map (fun (x, y) => (castFq12 x, castFq12 y)) pt : Option (RBn12 × RBn12)) := by
  rcases pt with _ | ⟨x, y⟩
  · rfl
  · unfold Gen.ExtraHashCurve.RefBn.cast_point_to_fq12 castFq12
    simp only [List.cons_append, List.nil_append, Option.map_some]

end PyEcc.Tie
