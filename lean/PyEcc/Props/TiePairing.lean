/-
  PyEcc.Props.TiePairing — TIE theorems ("generated = hand-written model").
  `Gen/Extra*.lean` is re-generated from the Python source on every run (tools/translate/gen_extra.py). Each theorem states that
  the function the translator produced from the CURRENT source is, for all inputs, the hand-written model function that the property
  theorems are about. A change to one of these Python functions changes the generated definition and breaks a theorem here
  statically, without needing a test input. (Split per source area so that a change in one area does not alarm unrelated properties.)
  The proofs close with `tie_close` (Props/TieRobC.lean): reflexivity first, then normalisation of both sides and a case analysis, so
  that a behaviour-preserving reshaping of the Python (renamed / inlined locals, early `return` vs conditional expression, negated
  test with swapped branches, `for _ in range(k)` vs the unrolled calls, …) keeps the theorem, while a real change fails in seconds.
-/
import PyEcc.Props.TieRobC
import PyEcc.Gen.ExtraPairing
import PyEcc.Props.TieMiller

set_option linter.unusedSimpArgs false

namespace PyEcc.Tie
open PyEcc

/-! ### the four `pairing` entry points and `final_exponentiate` -/

/-- optimized bls12_381 `pairing(Q, P, final_exponentiate)` as translated from the source (guards, early
    return, call of the hand-modelled `miller_loop`) is the model's `pairingOptBls`. -/
theorem pairing_optBls_eq (Q : OBls2 × OBls2 × OBls2) (P : Fq blsP × Fq blsP × Fq blsP) (fe : Bool) :
    Gen.ExtraPairing.OptBls.pairing Q P fe = pairingOptBls Q P fe := by
  unfold Gen.ExtraPairing.OptBls.pairing pairingOptBls
  tie_close [ne_eq, ite_not, List.range_succ, List.range_zero, List.foldl_append, List.foldl_cons, List.foldl_nil]

/-- optimized bls12_381 `final_exponentiate(p)` (the split form through `exp_by_p`) as translated from the
    source is the model's `finalExponentiateOptBls`. -/
theorem final_exponentiate_optBls_eq (p : OBls12) :
    Gen.ExtraPairing.OptBls.final_exponentiate p = finalExponentiateOptBls p := by
  unfold Gen.ExtraPairing.OptBls.final_exponentiate finalExponentiateOptBls optBlsFinalExponentiate
  -- robust against: the six Frobenius applications written as a `for _ in range(6)` loop (unrolled here), renamed locals
  tie_close [List.range_succ, List.range_zero, List.foldl_append, List.foldl_cons, List.foldl_nil]

/-- optimized bn128 `pairing(Q, P, final_exponentiate)` as translated from the source is the model's
    `pairingOptBn`. -/
theorem pairing_optBn_eq (Q : OBn2 × OBn2 × OBn2) (P : Fq bnP × Fq bnP × Fq bnP) (fe : Bool) :
    Gen.ExtraPairing.OptBn.pairing Q P fe = pairingOptBn Q P fe := by
  unfold Gen.ExtraPairing.OptBn.pairing pairingOptBn
  tie_close [ne_eq, ite_not, List.range_succ, List.range_zero, List.foldl_append, List.foldl_cons, List.foldl_nil]

/-- reference bls12_381 `pairing(Q, P)` as translated from the source is the model's `pairingRefBls`. -/
theorem pairing_refBls_eq (Q : Option (RBls2 × RBls2)) (P : Option (Fq blsP × Fq blsP)) :
    Gen.ExtraPairing.RefBls.pairing Q P = pairingRefBls Q P := by
  unfold Gen.ExtraPairing.RefBls.pairing pairingRefBls
  tie_close [ne_eq, ite_not, List.range_succ, List.range_zero, List.foldl_append, List.foldl_cons, List.foldl_nil]

/-- reference bn128 `pairing(Q, P)` as translated from the source is the model's `pairingRefBn`. -/
theorem pairing_refBn_eq (Q : Option (RBn2 × RBn2)) (P : Option (Fq bnP × Fq bnP)) :
    Gen.ExtraPairing.RefBn.pairing Q P = pairingRefBn Q P := by
  unfold Gen.ExtraPairing.RefBn.pairing pairingRefBn
  tie_close [ne_eq, ite_not, List.range_succ, List.range_zero, List.foldl_append, List.foldl_cons, List.foldl_nil]

/-- optimized bn128 `final_exponentiate(p)` is `p ** ((field_modulus**12 - 1) // curve_order)`, the exponent
    the model passes to its Miller loop. -/
theorem final_exponentiate_optBn_eq (p : OBn12) :
    Gen.ExtraPairing.OptBn.final_exponentiate p = p ^ ((bnP ^ 12 - 1) / Gen.Consts.optimized_bn128_curve_order) := by
  unfold Gen.ExtraPairing.OptBn.final_exponentiate
  tie_close [ne_eq, ite_not, List.range_succ, List.range_zero, List.foldl_append, List.foldl_cons, List.foldl_nil]

/-- reference bls12_381 `final_exponentiate(p)` is `p ** blsFinalExp`. -/
theorem final_exponentiate_refBls_eq (p : RBls12) :
    Gen.ExtraPairing.RefBls.final_exponentiate p = p ^ blsFinalExp := by
  unfold Gen.ExtraPairing.RefBls.final_exponentiate blsFinalExp
  tie_close [ne_eq, ite_not, List.range_succ, List.range_zero, List.foldl_append, List.foldl_cons, List.foldl_nil]

/-- reference bn128 `final_exponentiate(p)` is `p ** bnFinalExp`. -/
theorem final_exponentiate_refBn_eq (p : RBn12) :
    Gen.ExtraPairing.RefBn.final_exponentiate p = p ^ bnFinalExp := by
  unfold Gen.ExtraPairing.RefBn.final_exponentiate bnFinalExp
  tie_close [ne_eq, ite_not, List.range_succ, List.range_zero, List.foldl_append, List.foldl_cons, List.foldl_nil]


end PyEcc.Tie
