/-
  Property C07 — concrete facts about the real curves (G2 part), by kernel evaluation of the GENERATED
  curve code at the executable model type of `FQ2` (`Fqp v p [1, 0]`, the modelled Python arithmetic).
-/
import PyEcc.Lemmas.CurveFactsAux
import PyEcc.Gen.OptBls
import PyEcc.Gen.OptBn
import PyEcc.Gen.RefBls
import PyEcc.Gen.RefBn
import PyEcc.Model.Curve

set_option maxRecDepth 100000

namespace PyEcc.C07.Facts
open PyEcc.CurveSem PyEcc.Gen.Consts

/-! ### bn128 — G2 over the modelled `FQ2` -/

/-- the module constant `G2` of `optimized_bn128` passes `is_on_curve(G2, b2)`, is not ∞, and
    `multiply(G2, curve_order)` is ∞ (`z = 0`) — evaluated with the modelled `FQ2` arithmetic -/
theorem bn_G2_opt :
    Gen.OptBn.is_on_curve (ptOpt2 .opt bnP bnMc2 optimized_bn128_G2) ⟨optimized_bn128_b2⟩ = true
      ∧ Gen.OptBn.is_inf (ptOpt2 .opt bnP bnMc2 optimized_bn128_G2) = false
      ∧ Gen.OptBn.is_inf (Gen.OptBn.multiply (ptOpt2 .opt bnP bnMc2 optimized_bn128_G2)
          optimized_bn128_curve_order) = true := by
  decide +kernel

/-- the module constant `G2` of the reference module `bn128` passes `is_on_curve(G2, b2)`, and is
    the same affine point as the optimized module's `G2` -/
theorem bn_G2_ref :
    Gen.RefBn.is_on_curve (ptRef2 .ref bnP bnMc2 bn128_G2) ⟨bn128_b2⟩ = true
      ∧ bn128_b2 = optimized_bn128_b2
      ∧ optimized_bn128_G2 = bn128_G2 ++ [1 :: List.replicate 1 0] := by
  decide +kernel

/-! ### BLS12-381 — G2 over the modelled `FQ2` -/

/-- the module constant `G2` of `optimized_bls12_381` passes `is_on_curve(G2, b2)`, is not ∞, and
    `multiply(G2, curve_order)` is ∞ (`z = 0`) — evaluated with the modelled `FQ2` arithmetic -/
theorem bls_G2_opt :
    Gen.OptBls.is_on_curve (ptOpt2 .opt blsP blsMc2 optimized_bls12_381_G2) ⟨optimized_bls12_381_b2⟩ = true
      ∧ Gen.OptBls.is_inf (ptOpt2 .opt blsP blsMc2 optimized_bls12_381_G2) = false
      ∧ Gen.OptBls.is_inf (Gen.OptBls.multiply (ptOpt2 .opt blsP blsMc2 optimized_bls12_381_G2)
          optimized_bls12_381_curve_order) = true := by
  decide +kernel

/-- the module constant `G2` of the reference module `bls12_381` passes `is_on_curve(G2, b2)`, and is
    the same affine point as the optimized module's `G2` -/
theorem bls_G2_ref :
    Gen.RefBls.is_on_curve (ptRef2 .ref blsP blsMc2 bls12_381_G2) ⟨bls12_381_b2⟩ = true
      ∧ bls12_381_b2 = optimized_bls12_381_b2
      ∧ optimized_bls12_381_G2 = bls12_381_G2 ++ [1 :: List.replicate 1 0] := by
  decide +kernel

/-- the executable model's typed constants are these points -/
theorem bls_G2_model : blsG2 = ptOpt2 .opt blsP blsMc2 optimized_bls12_381_G2 ∧ blsB2 = ⟨optimized_bls12_381_b2⟩
    ∧ blsR = optimized_bls12_381_curve_order := ⟨rfl, rfl, rfl⟩

end PyEcc.C07.Facts
