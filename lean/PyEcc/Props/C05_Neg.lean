/-
  PyEcc.Props.C05_Neg — property C05, clause "negating either argument inverts the value", BLS12-381,
  UNCONDITIONALLY (no bilinearity hypothesis):

      pairing(Q, P) · pairing(Q, neg(P)) = FQ12.one(),     pairing(Q, P) · pairing(neg(Q), P) = FQ12.one()

  for the optimized `pairing` (`py_ecc/optimized_bls12_381/optimized_pairing.py`) and for the reference
  `pairing` (`py_ecc/bls12_381/bls12_381_pairing.py`), for every reduced on-curve `Q` passing
  `subgroup_check`, every on-curve `P` (in the subgroup or not, ∞ or not), any projective representatives.
  As a by-product the pairing value is never `FQ12.zero()`, so it is an r-th root of unity.

  Model: `pairingOptBls`, `pairingRefBls`, `optBlsMillerLoop`, `refMillerLoop` of `Model/Pairing.lean` around
  the GENERATED `linefunc` / `double` / `add` / `neg` / `is_on_curve`.

  Proof (helper lemmas in `Lemmas/Neg*.lean`).  `σ : x ↦ x^(p⁶)` is the conjugation of
  `FQ12 = Fp[w]/(w¹² − 2w⁶ + 2)` over `Fp⁶`; `σ w = −w`, so `FQ12 = Fp⁶ ⊕ w·Fp⁶` ("even" / "odd").
  A twisted point `(ψ(x)/w², ψ(y)/w³)` has an even `x` and an odd `y`, and this is preserved by the
  reference `double` / `add`; the cast of a G1 point has even coordinates.  Hence
   (1) a line `ℓ_{A,B}` through twisted points satisfies `ℓ(x_P, −y_P) = ∓σ(ℓ(x_P, y_P))`, so the Miller
       values satisfy `f_Q(−P) = ±σ(f_Q(P))`;
   (2) `twist(−Q) = σ(twist(Q))` coordinate-wise, and the loop commutes with `σ`: `f_{−Q}(P) = σ(f_Q(P))`;
   (3) `f·σ(f) ∈ Fp⁶`, every non-zero element of `Fp⁶` is killed by `(p¹² − 1)/r` (as `(p⁶ − 1)` divides
       it), and so is the sign;
   (4) `f_Q(P) ≠ 0`: the even part of a non-vertical line value at `P` is `−y_P ≠ 0` (the G1 curve has no
       point with `y = 0`), and a vertical chord would make the running point ∞, after which the
       reference loop cannot return normally;
   (5) the optimized Miller value is the reference one (`C12_Miller`), both loops read in `K12`.
-/
import PyEcc.Lemmas.NegPairing
import PyEcc.Props.C05_Order

set_option linter.unusedSectionVars false
set_option maxRecDepth 100000

namespace PyEcc.C05Neg
open Polynomial PyEcc PyEcc.Gen PyEcc.Gen.Consts PyEcc.Fqp PyEcc.FqpSem PyEcc.Transfer PyEcc.PairingSem
  PyEcc.MillerSem PyEcc.NegSem PyEcc.C13

/-! ### (1) the grading of `FQ12` and the final exponent -/

/-- **The conjugation `σ : x ↦ x^(p⁶)` of BLS12-381 `FQ12`** is a ring automorphism with `σ ∘ σ = id` and
    `σ(w) = −w`; it fixes the base field, the image of `FQ2` under the twist embedding `i ↦ w⁶ − 1`,
    and `w²`; it negates `w` and `w³`.  So `FQ12 = Fp⁶ ⊕ w·Fp⁶` (`InFp6 x`: `σ x = x`, the subfield with
    `p⁶` elements; `InWFp6 x`: `σ x = −x`), the sum is direct, and `x·σ(x) ∈ Fp⁶` for every `x`. -/
theorem Fp6_grading_bls :
    (∀ x : K12, sigma (sigma x) = x) ∧ sigma w12 = -w12
      ∧ (∀ c : ZMod blsP, InFp6 (ofZ c)) ∧ (∀ a : K2, InFp6 (iota a)) ∧ InFp6 (w12 ^ 2)
      ∧ InWFp6 w12 ∧ InWFp6 (w12 ^ 3)
      ∧ (∀ e o : K12, InFp6 e → InWFp6 o → e + o = 0 → e = 0 ∧ o = 0)
      ∧ (∀ x : K12, InFp6 (x * sigma x)) :=
  ⟨sigma_sigma, sigma_w, even_ofZ, even_iota, even_w2, odd_w, odd_w3,
    fun _ _ he ho h => even_add_odd_eq_zero he ho h, even_mul_sigma⟩

/-- **The final exponent kills `Fp⁶ \ {0}`** (BLS12-381).  Every non-zero `x` of `FQ12` with
    `x^(p⁶) = x` satisfies `x ^ ((field_modulus¹² − 1) // curve_order) = 1` — the exponent used by
    `final_exponentiate` / `miller_loop`.  (`(p⁶ − 1)` divides it because `curve_order ∤ p⁶ − 1`.)  The
    exponent is even, so `−1` is killed too. -/
theorem finalExp_kills_Fp6_bls {x : K12} (h0 : x ≠ 0) (hx : InFp6 x) :
    x ^ blsFinalExp = 1 ∧ (-x) ^ blsFinalExp = 1 := by
  refine ⟨pow_finalExp_of_even h0 hx, ?_⟩
  rw [neg_pow, neg_one_pow_finalExp, one_mul]
  exact pow_finalExp_of_even h0 hx

example : (2 : K12) ≠ 0 ∧ InFp6 (2 : K12) := ⟨k12_two_ne_zero, even_natCast 2⟩

/-! ### (2) the line function -/

/-- **Line product.**  Let `A`, `B` be points of twisted type (`x ∈ Fp⁶`, `y ∈ w·Fp⁶`, e.g. multiples of
    `twist(Q)`) and `x_P, y_P ∈ Fp⁶` (e.g. a cast G1 point).  If the reference `linefunc(A, B, (x_P, y_P))`
    returns `l`, then `linefunc(A, B, (x_P, −y_P))` returns a value `l'` with `l' = ±σ(l)`; in particular
    `l · l' ∈ Fp⁶` (`= (λ(x_P − x_A) + y_A)² − y_P²` up to sign for a non-vertical line). -/
theorem line_product_in_Fp6 [DecidableEq K12] {A B : Option (K12 × K12)} {xP yP l : K12}
    (hA : TwT A) (hB : TwT B) (hx : InFp6 xP) (hy : InFp6 yP)
    (h : RefBls.linefunc A B (some (xP, yP)) = .ok l) :
    ∃ l', RefBls.linefunc A B (some (xP, -yP)) = .ok l' ∧ (l' = sigma l ∨ l' = -sigma l)
      ∧ InFp6 (l * l') := by
  obtain ⟨l', e, s⟩ := line_negT hA hB hx hy h
  refine ⟨l', e, s, ?_⟩
  rcases s with s | s
  · rw [s]; exact even_mul_sigma l
  · rw [s, mul_neg]; exact (even_mul_sigma l).neg

/-- **A non-vertical line through twisted points does not vanish at a G1 point**: for `A`, `B` of twisted
    type, not (`x_A = x_B` and `y_A ≠ y_B`), and `x_P, y_P ∈ Fp⁶` with `y_P ≠ 0`, the value of the reference
    `linefunc(A, B, (x_P, y_P))` is non-zero (its component in `Fp⁶` is `−y_P`). -/
theorem line_ne_zero_at_G1 [DecidableEq K12] {xA yA xB yB xP yP l : K12} (hxA : InFp6 xA) (hyA : InWFp6 yA)
    (hxB : InFp6 xB) (hyB : InWFp6 yB) (hx : InFp6 xP) (hy : InFp6 yP) (hy0 : yP ≠ 0)
    (h : RefBls.linefunc (some (xA, yA)) (some (xB, yB)) (some (xP, yP)) = .ok l)
    (hnv : xA ≠ xB ∨ yA = yB) : l ≠ 0 :=
  line_ne_zero hxA hyA hxB hyB hx hy hy0 h hnv

/-- the twist of any point is of twisted type, `double`/`add` preserve the type, and for such a point
    `σ` is the negation — hypotheses of `line_product_in_Fp6` are met along the Miller loop -/
example [DecidableEq K12] (q : Option (K2 × K2)) :
    TwT (twA q) ∧ TwT (RefBls.double (twA q)) ∧ mapO sigma (twA q) = RefBls.neg (twA q) :=
  ⟨twT_twA q, twT_double (twT_twA q), mapO_sigma_of_twT (twT_twA q)⟩

/-! ### (3)–(4) the optimized `pairing` -/

/-- **Negating the G1 argument inverts the pairing** (optimized bls12_381, unconditional).
    For every reduced FQ2 triple `Q` on the twist curve that passes `subgroup_check` and every FQ triple `P`
    on the G1 curve (any projective representatives; `P` need not be in the subgroup; ∞ allowed):
    `pairing(Q, P)` and `pairing(Q, neg(P))` both return, values `v`, `v'` with `v * v' == FQ12.one()`
    (equality of coefficient lists in the executable model). -/
theorem pairing_neg_right (Q : T2) (P : T1) (cQ : CanonT Q)
    (honQ : OptBls.is_on_curve Q blsB2 = true)
    (honP : OptBls.is_on_curve P (Fq.ofInt optimized_bls12_381_b : Fq blsP) = true)
    (hsub : subgroupCheck Q = true) :
    ∃ v v' : OBls12, pairingOptBls Q P true = .ok v ∧ pairingOptBls Q (OptBls.neg P) true = .ok v'
      ∧ v * v' = 1 := by
  classical
  obtain ⟨v, v', e, e', _, _, _, h⟩ := pairing_neg_right_core Q P cQ honQ honP hsub
  exact ⟨v, v', e, e', h⟩

/-- **Negating the G2 argument inverts the pairing** (optimized bls12_381, unconditional).
    Same hypotheses: `pairing(Q, P)` and `pairing(neg(Q), P)` both return, values `v`, `v''` with
    `v * v'' == FQ12.one()`. -/
theorem pairing_neg_left (Q : T2) (P : T1) (cQ : CanonT Q)
    (honQ : OptBls.is_on_curve Q blsB2 = true)
    (honP : OptBls.is_on_curve P (Fq.ofInt optimized_bls12_381_b : Fq blsP) = true)
    (hsub : subgroupCheck Q = true) :
    ∃ v v'' : OBls12, pairingOptBls Q P true = .ok v ∧ pairingOptBls (OptBls.neg Q) P true = .ok v''
      ∧ v * v'' = 1 := by
  classical
  obtain ⟨v, v', e, e', _, _, h⟩ := pairing_neg_left_core Q P cQ honQ honP hsub
  exact ⟨v, v', e, e', h⟩

/-- **The pairing value is never `FQ12.zero()`** (optimized bls12_381): under the same hypotheses the value
    `v` returned by `pairing(Q, P)` is not zero — the Miller value `f_num / f_den` does not vanish.  Hence
    (`C05_Order.pairingOptBls_pow_r`) `v ** curve_order == FQ12.one()` with no exceptional case. -/
theorem pairing_ne_zero (Q : T2) (P : T1) (cQ : CanonT Q)
    (honQ : OptBls.is_on_curve Q blsB2 = true)
    (honP : OptBls.is_on_curve P (Fq.ofInt optimized_bls12_381_b : Fq blsP) = true)
    (hsub : subgroupCheck Q = true) :
    ∃ v : OBls12, pairingOptBls Q P true = .ok v ∧ v ≠ 0 := by
  classical
  obtain ⟨v, _, e, _, _, _, h0, _⟩ := pairing_neg_right_core Q P cQ honQ honP hsub
  exact ⟨v, e, h0⟩

/-- **`pairing(Q, P) ** curve_order == FQ12.one()`, no exceptional case** (optimized bls12_381): under the
    same hypotheses the value `v` of `pairing(Q, P)` is an `r`-th root of unity (`C05_Order.pairingOptBls_pow_r`
    leaves the alternative `v == 0`, excluded here), and if `v ≠ 1` its multiplicative order is exactly
    `curve_order`. -/
theorem pairing_pow_r (Q : T2) (P : T1) (cQ : CanonT Q)
    (honQ : OptBls.is_on_curve Q blsB2 = true)
    (honP : OptBls.is_on_curve P (Fq.ofInt optimized_bls12_381_b : Fq blsP) = true)
    (hsub : subgroupCheck Q = true) :
    ∃ v : OBls12, pairingOptBls Q P true = .ok v ∧ v ^ optimized_bls12_381_curve_order = 1
      ∧ (v ≠ 1 → orderOf (toQ v : K12) = optimized_bls12_381_curve_order) := by
  obtain ⟨v, e, h0⟩ := pairing_ne_zero Q P cQ honQ honP hsub
  refine ⟨v, e, (C05N.pairingOptBls_pow_r Q P v e).resolve_right h0, fun h1 => ?_⟩
  exact C05N.pairingOptBls_orderOf Q P v e h1 h0

/-- **The Miller-loop form** (no guards): for reduced finite regular `Q` (in particular every finite
    on-curve `Q` passing `subgroup_check`, `C12_Miller.millerRegular_of_subgroup`) and finite on-curve `P`:
    `miller_loop(Q, P) * miller_loop(Q, neg(P)) == FQ12.one()` (both with `final_exponentiate=True`). -/
theorem millerLoop_neg_right {Q : T2} {P : T1} (cQ : CanonT Q) (hQz : Q.2.2 ≠ 0) (hPz : P.2.2 ≠ 0)
    (hreg : MillerRegular Q)
    (honP : OptBls.is_on_curve P (Fq.ofInt optimized_bls12_381_b : Fq blsP) = true) :
    (optBlsMillerLoop (digitsFrom optimized_bls12_381_pseudo_binary_encoding 62)
        (some ((blsP ^ 12 - 1) / optimized_bls12_381_curve_order)) Q P : OBls12)
      * optBlsMillerLoop (digitsFrom optimized_bls12_381_pseudo_binary_encoding 62)
        (some ((blsP ^ 12 - 1) / optimized_bls12_381_curve_order)) Q (OptBls.neg P) = 1 := by
  classical
  exact miller_neg_right cQ hQz hPz hreg honP

/-! ### (5) the reference `pairing` -/

/-- **Negating the G1 argument inverts the pairing** (reference bls12_381).  Let `q : Optional[(FQ2, FQ2)]`
    (reduced coefficients) and `p : Optional[(FQ, FQ)]` be on their curves, `q` in the order-`r` subgroup —
    expressed through any projective representative `Q` of `q` passing `subgroup_check` (e.g.
    `q = refOfOptG2 Q`); `P` any representative of `p`.  Then `pairing(q, p)` and `pairing(q, neg(p))` of
    `py_ecc.bls12_381` both return, values `u`, `u'` with `u * u' == FQ12.one()`. -/
theorem pairingRefBls_neg_right [DecidableEq K2] (Q : T2) (P : T1) (q : Option (RBls2 × RBls2))
    (p : Option (Fq blsP × Fq blsP)) (cQ : CanonT Q) (cq : GoodO Canon q)
    (hQ : toAff (mapT toQ Q) = mapO (toQ : RBls2 → K2) q) (hP : toAff P = p)
    (honQ : OptBls.is_on_curve Q blsB2 = true)
    (honP : OptBls.is_on_curve P (Fq.ofInt optimized_bls12_381_b : Fq blsP) = true)
    (hsub : subgroupCheck Q = true) :
    ∃ u u' : RBls12, pairingRefBls q p = .ok u ∧ pairingRefBls q (RefBls.neg p) = .ok u'
      ∧ u * u' = 1 := by
  classical
  obtain ⟨v, v', e, e', c, c', _, h⟩ := pairing_neg_right_core Q P cQ honQ honP hsub
  have t := C12M.pairingOptBls_eq_pairingRefBls_subgroup Q P q p cQ cq hQ hP hsub
  have hP' : toAff (OptBls.neg P) = RefBls.neg p := by rw [toAff_neg_G1, hP]
  have t' := C12M.pairingOptBls_eq_pairingRefBls_subgroup Q (OptBls.neg P) q _ cQ cq hQ hP' hsub
  rw [e] at t
  rw [e'] at t'
  obtain ⟨u, eu, cu⟩ := coeffs_of_map_eq t
  obtain ⟨u', eu', cu'⟩ := coeffs_of_map_eq t'
  exact ⟨u, u', eu, eu', ref_mul_eq_one c c' cu cu' h⟩

/-- **Negating the G2 argument inverts the pairing** (reference bls12_381).  Same hypotheses:
    `pairing(q, p)` and `pairing(neg(q), p)` both return, values `u`, `u''` with `u * u'' == FQ12.one()`. -/
theorem pairingRefBls_neg_left [DecidableEq K2] (Q : T2) (P : T1) (q : Option (RBls2 × RBls2))
    (p : Option (Fq blsP × Fq blsP)) (cQ : CanonT Q) (cq : GoodO Canon q)
    (hQ : toAff (mapT toQ Q) = mapO (toQ : RBls2 → K2) q) (hP : toAff P = p)
    (honQ : OptBls.is_on_curve Q blsB2 = true)
    (honP : OptBls.is_on_curve P (Fq.ofInt optimized_bls12_381_b : Fq blsP) = true)
    (hsub : subgroupCheck Q = true) :
    ∃ u u'' : RBls12, pairingRefBls q p = .ok u ∧ pairingRefBls (RefBls.neg q) p = .ok u''
      ∧ u * u'' = 1 := by
  classical
  obtain ⟨v, v', e, e', c, c', h⟩ := pairing_neg_left_core Q P cQ honQ honP hsub
  obtain ⟨cN, _, hsubN⟩ := neg_G2_facts cQ honQ hsub
  obtain ⟨cqN, hQN⟩ := toAff_neg_G2 cQ cq hQ
  have t := C12M.pairingOptBls_eq_pairingRefBls_subgroup Q P q p cQ cq hQ hP hsub
  have t' := C12M.pairingOptBls_eq_pairingRefBls_subgroup (OptBls.neg Q) P _ p cN cqN
    hQN hP hsubN
  rw [e] at t
  rw [e'] at t'
  obtain ⟨u, eu, cu⟩ := coeffs_of_map_eq t
  obtain ⟨u', eu', cu'⟩ := coeffs_of_map_eq t'
  exact ⟨u, u', eu, eu', ref_mul_eq_one c c' cu cu' h⟩

/-! ### non-vacuity -/

/-- the generators satisfy the hypotheses of `pairing_neg_right`, `pairing_neg_left`, `pairing_ne_zero` -/
example : CanonT blsG2 ∧ OptBls.is_on_curve blsG2 blsB2 = true
    ∧ OptBls.is_on_curve blsG1 (Fq.ofInt optimized_bls12_381_b : Fq blsP) = true
    ∧ subgroupCheck blsG2 = true :=
  ⟨C17M.blsG2_passes.1, C17M.blsG2_passes.2.1, C07.Facts.bls_G1_model.1, C17M.blsG2_passes.2.2⟩

/-- … and those of the reference forms, with `q := refOfOptG2 G2`, `p := refOfOptG1 G1` -/
example [DecidableEq K2] : GoodO Canon (C12M.refOfOptG2 blsG2)
    ∧ toAff (mapT toQ blsG2) = mapO (toQ : RBls2 → K2) (C12M.refOfOptG2 blsG2)
    ∧ toAff blsG1 = C12M.refOfOptG1 blsG1 :=
  ⟨(C12M.refOfOptG2_repr C17M.blsG2_passes.1).1, (C12M.refOfOptG2_repr C17M.blsG2_passes.1).2,
    C12M.refOfOptG1_repr blsG1⟩

/-- … and those of `millerLoop_neg_right` -/
example : CanonT blsG2 ∧ blsG2.2.2 ≠ 0 ∧ blsG1.2.2 ≠ 0 ∧ MillerRegular blsG2 :=
  ⟨C17M.blsG2_passes.1, by decide, by decide, by decide +kernel⟩

end PyEcc.C05Neg
