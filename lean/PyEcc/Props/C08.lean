/-
  PyEcc.Props.C08 — property C08 (prime-field part): py_ecc's `FQ` class satisfies the field axioms and
  keeps canonical representatives.

  Every theorem is about the executable model `Fq p` of `PyEcc/Model/Fq.lean`, stated with the model's
  own named functions (`Fq.add`, `Fq.mul`, `Fq.sub`, `Fq.neg`, `Fq.div`, `Fq.inv`, `Fq.pow`, `Fq.ofInt`,
  `Fq.addInt`, …) so that no instance resolution is involved in reading the statements.  The ring laws
  hold for every modulus `p ≠ 0` (`[NeZero p]`, which `[Fact p.Prime]` implies through
  `FqSem.neZero_of_fact_prime`); the laws involving `/` and `inv` need `p` prime, ANY prime.
  Proofs: transport along `Fq.toZMod : Fq p → ZMod p` (`PyEcc/Sem/FqZMod.lean`), the extended-Euclid
  loop being handled in `PyEcc/Sem/InvLoop.lean`.
-/
import PyEcc.Sem.FqZMod
import PyEcc.Sem.Primes
import Mathlib.FieldTheory.Finite.Basic

namespace PyEcc.C08
open PyEcc PyEcc.Fq PyEcc.FqSem

/-! ## the model is `ZMod p` -/

/-- `FQ` is `ZMod p`: reading an `FQ` object as the residue class of its attribute `n` is a ring
    isomorphism from the model (with the model's `+` and `*`) onto `ZMod p`, and it sends `FQ(z)` to
    the class of `z` for every Python int `z`. -/
theorem fq_ringEquiv_zmod {p : ℕ} [NeZero p] :
    ∃ e : Fq p ≃+* ZMod p, (∀ a : Fq p, e a = (a.n : ZMod p)) ∧ (∀ z : ℤ, e (ofInt z) = (z : ZMod p)) ∧
      (∀ a b : Fq p, e (add a b) = e a + e b) ∧ (∀ a b : Fq p, e (mul a b) = e a * e b) ∧
      (∀ a b : Fq p, e (sub a b) = e a - e b) ∧ (∀ a : Fq p, e (neg a) = -e a) ∧
      (∀ (a : Fq p) (n : ℕ), e (pow a n) = e a ^ n) :=
  ⟨ringEquiv, fun _ => rfl, toZMod_ofInt, toZMod_add', toZMod_mul', toZMod_sub', toZMod_neg', toZMod_pow'⟩

/-- for prime `p` the same reading also turns `FQ.__truediv__` and `FQ.inv` into division and inversion of
    the field `ZMod p` (with the convention `x / 0 = 0`, `inv 0 = 0` on both sides). -/
theorem fq_div_inv_zmod {p : ℕ} [Fact p.Prime] (a b : Fq p) :
    toZMod (div a b) = toZMod a / toZMod b ∧ toZMod (inv a) = (toZMod a)⁻¹ :=
  ⟨toZMod_div' a b, toZMod_inv' a⟩

/-- `prime_field_inv(a, p)` returns the canonical representative of `a⁻¹` in `ZMod p`, for every prime `p`
    and every Python int `a` (negative, `≥ p`; multiples of `p` give `0`). -/
theorem primeFieldInv_correct {p : ℕ} (hp : p.Prime) (a : ℤ) :
    ((primeFieldInv a p : ℤ) : ZMod p) = (a : ZMod p)⁻¹ ∧ 0 ≤ primeFieldInv a p ∧ primeFieldInv a p < p :=
  ⟨primeFieldInv_spec hp a, primeFieldInv_range hp.pos a⟩

/-! ## commutative-ring axioms (any modulus `p ≠ 0`) -/
section ring
variable {p : ℕ} [NeZero p]

/-- `(a + b) + c == a + (b + c)` for `FQ` objects -/
theorem add_assoc (a b c : Fq p) : add (add a b) c = add a (add b c) := _root_.add_assoc a b c
/-- `a + b == b + a` -/
theorem add_comm (a b : Fq p) : add a b = add b a := _root_.add_comm a b
/-- `(a * b) * c == a * (b * c)` -/
theorem mul_assoc (a b c : Fq p) : mul (mul a b) c = mul a (mul b c) := _root_.mul_assoc a b c
/-- `a * b == b * a` -/
theorem mul_comm (a b : Fq p) : mul a b = mul b a := _root_.mul_comm a b
/-- `a * (b + c) == a*b + a*c` -/
theorem left_distrib (a b c : Fq p) : mul a (add b c) = add (mul a b) (mul a c) := _root_.mul_add a b c
/-- `(a + b) * c == a*c + b*c` -/
theorem right_distrib (a b c : Fq p) : mul (add a b) c = add (mul a c) (mul b c) := _root_.add_mul a b c
/-- `FQ(0) + a == a` (`FQ.zero()` is `FQ(0)`) -/
theorem zero_add (a : Fq p) : add (ofInt 0) a = a := _root_.zero_add a
/-- `a + FQ(0) == a` -/
theorem add_zero (a : Fq p) : add a (ofInt 0) = a := _root_.add_zero a
/-- `FQ(1) * a == a` (`FQ.one()` is `FQ(1)`) -/
theorem one_mul (a : Fq p) : mul (ofInt 1) a = a := _root_.one_mul a
/-- `a * FQ(1) == a` -/
theorem mul_one (a : Fq p) : mul a (ofInt 1) = a := _root_.mul_one a
/-- `FQ(0) * a == FQ(0)` -/
theorem zero_mul (a : Fq p) : mul (ofInt 0) a = ofInt 0 := MulZeroClass.zero_mul a
/-- `-a + a == FQ(0)` -/
theorem neg_add_cancel (a : Fq p) : add (neg a) a = ofInt 0 := _root_.neg_add_cancel a
/-- `a - b == a + (-b)` -/
theorem sub_eq_add_neg (a b : Fq p) : sub a b = add a (neg b) := _root_.sub_eq_add_neg a b
/-- `a - a == FQ(0)` -/
theorem sub_self (a : Fq p) : sub a a = ofInt 0 := _root_.sub_self a

/-- the literals `0`, `1` and the operators `+ * - /` on `Fq p` are the model's functions
    (so the algebraic instances of `Sem/FqZMod.lean` talk about the model, by definition) -/
theorem notation_is_model (a b : Fq p) :
    (0 : Fq p) = ofInt 0 ∧ (1 : Fq p) = ofInt 1 ∧ a + b = add a b ∧ a * b = mul a b ∧ a - b = sub a b ∧
      -a = neg a ∧ a / b = div a b ∧ (∀ n : ℕ, a ^ n = pow a n) :=
  ⟨rfl, rfl, rfl, rfl, rfl, rfl, rfl, fun _ => rfl⟩

/-! ## `**` is the n-fold product -/

/-- `a ** 0 == FQ(1)` -/
theorem pow_zero (a : Fq p) : pow a 0 = ofInt 1 := _root_.pow_zero a
/-- `a ** (n+1) == (a ** n) * a` -/
theorem pow_succ (a : Fq p) (n : ℕ) : pow a (n + 1) = mul (pow a n) a := _root_.pow_succ a n

/-- `a ** n` (square-and-multiply, after repair F1) equals the product `1 * a * a * … * a` with `n`
    factors, for EVERY natural `n`, however large. -/
theorem pow_eq_prod (a : Fq p) (n : ℕ) : pow a n = (List.replicate n a).foldl mul (ofInt 1) := by
  rw [foldl_replicate, one_mul]

/-- `a ** (m + n) == a**m * a**n` -/
theorem pow_add (a : Fq p) (m n : ℕ) : pow a (m + n) = mul (pow a m) (pow a n) := _root_.pow_add a m n
/-- `a ** (m * n) == (a ** m) ** n` -/
theorem pow_mul (a : Fq p) (m n : ℕ) : pow a (m * n) = pow (pow a m) n := _root_.pow_mul a m n

/-! ## int operands act as residues -/

/-- `FQ(j) == FQ(k)` iff `j ≡ k (mod p)`; in particular `FQ(k + p) == FQ(k)`, `FQ(-1) == FQ(p-1)` -/
theorem ofInt_eq_iff (j k : ℤ) : (ofInt j : Fq p) = ofInt k ↔ j % (p : ℤ) = k % (p : ℤ) := by
  rw [← toZMod_inj, toZMod_ofInt, toZMod_ofInt, ZMod.intCast_eq_intCast_iff']

/-- the attribute `n` of `FQ(z)` is `z % p` (Python's non-negative remainder) -/
theorem ofInt_n (z : ℤ) : ((ofInt z : Fq p).n : ℤ) = z % (p : ℤ) := n_ofInt z

/-- `FQ(a.n) == a` -/
theorem ofInt_self_n (a : Fq p) : ofInt (a.n : ℤ) = a := by
  apply toZMod_injective; rw [toZMod_ofInt, Int.cast_natCast]; rfl

/-- `a + k == a + FQ(k)` for every Python int `k` (negative or `> p` included); same for `k + a` -/
theorem addInt_eq (a : Fq p) (k : ℤ) : addInt a k = add a (ofInt k) := by
  apply toZMod_injective; simp [toZMod_add']
/-- `a * k == a * FQ(k)`; same for `k * a` -/
theorem mulInt_eq (a : Fq p) (k : ℤ) : mulInt a k = mul a (ofInt k) := by
  apply toZMod_injective; simp [toZMod_mul']
/-- `a - k == a - FQ(k)` -/
theorem subInt_eq (a : Fq p) (k : ℤ) : subInt a k = sub a (ofInt k) := by
  apply toZMod_injective; simp [toZMod_sub']
/-- `k - a == FQ(k) - a` (reflected operator) -/
theorem rsubInt_eq (a : Fq p) (k : ℤ) : rsubInt a k = sub (ofInt k) a := by
  apply toZMod_injective; simp [toZMod_sub']

/-- int operands only matter modulo `p` -/
theorem addInt_congr (a : Fq p) {j k : ℤ} (h : j % (p : ℤ) = k % (p : ℤ)) : addInt a j = addInt a k := by
  rw [addInt_eq, addInt_eq, (ofInt_eq_iff j k).mpr h]
theorem mulInt_congr (a : Fq p) {j k : ℤ} (h : j % (p : ℤ) = k % (p : ℤ)) : mulInt a j = mulInt a k := by
  rw [mulInt_eq, mulInt_eq, (ofInt_eq_iff j k).mpr h]

/-! ## canonical representatives -/

omit [NeZero p] in
/-- every `FQ` value produced by the model has `0 ≤ n < p`: this is a field of the structure `Fq p`
    (the constructor `ofInt` reduces, and every operation ends in `ofInt`), so it holds trivially. -/
theorem canonical (a : Fq p) : a.n < p := a.lt

omit [NeZero p] in
/-- two `FQ` objects are equal iff their attributes `n` are equal -/
theorem eq_iff_n (a b : Fq p) : a = b ↔ a.n = b.n := ⟨fun h => h ▸ rfl, Fq.ext⟩

omit [NeZero p] in
/-- equality of residue classes is equality of objects: representatives are unique -/
theorem toZMod_eq_iff (a b : Fq p) : toZMod a = toZMod b ↔ a = b := toZMod_inj

omit [NeZero p] in
/-- `FQ == int` compares the stored canonical residue with the RAW int: `FQ(5) == 5 + p` is `False`.
    (Documented behaviour of `FQ.__eq__`; stated as is.) -/
theorem eqInt_iff (a : Fq p) (k : ℤ) : eqInt a k = true ↔ (a.n : ℤ) = k := by
  unfold eqInt; exact beq_iff_eq

omit [NeZero p] in
/-- consequence: an int outside `[0, p)` never compares equal to an `FQ` object -/
theorem eqInt_false_of_not_canonical (a : Fq p) (k : ℤ) (h : k < 0 ∨ (p : ℤ) ≤ k) : eqInt a k = false := by
  rw [Bool.eq_false_iff, Ne, eqInt_iff]
  have := a.lt
  omega

/-- `FQ(k) == k` holds exactly for canonical `k` -/
theorem eqInt_ofInt_iff (k : ℤ) : eqInt (ofInt k : Fq p) k = true ↔ 0 ≤ k ∧ k < (p : ℤ) := by
  rw [eqInt_iff, ofInt_n]
  have hp : (0 : ℤ) < p := by exact_mod_cast Nat.pos_of_ne_zero (NeZero.ne p)
  constructor
  · intro h; rw [← h]; exact ⟨Int.emod_nonneg _ (by omega), Int.emod_lt_of_pos _ hp⟩
  · rintro ⟨h0, h1⟩; exact Int.emod_eq_of_lt h0 h1

end ring

/-! ## field axioms (any prime `p`) -/
section field
variable {p : ℕ} [Fact p.Prime]

/-- `a * a.inv() == FQ(1)` for `a != FQ(0)` (the extended-Euclid loop is correct for every prime) -/
theorem mul_inv_cancel (a : Fq p) (ha : a ≠ ofInt 0) : mul a (inv a) = ofInt 1 :=
  _root_.mul_inv_cancel₀ ha

/-- `FQ(0).inv() == FQ(0)` (`inv0` convention) -/
theorem inv_zero : inv (ofInt 0 : Fq p) = ofInt 0 := _root_.inv_zero

/-- `a / b == a * b.inv()` -/
theorem div_eq_mul_inv (a b : Fq p) : div a b = mul a (inv b) := _root_.div_eq_mul_inv a b

/-- `(a / b) * b == a` for `b != FQ(0)` -/
theorem div_mul_cancel (a b : Fq p) (hb : b ≠ ofInt 0) : mul (div a b) b = a :=
  _root_.div_mul_cancel₀ a hb

/-- `a / FQ(0) == FQ(0)`: division by zero does not raise, it returns zero -/
theorem div_zero (a : Fq p) : div a (ofInt 0) = ofInt 0 := _root_.div_zero a

/-- `a / a == FQ(1)` for `a != FQ(0)` -/
theorem div_self (a : Fq p) (ha : a ≠ ofInt 0) : div a a = ofInt 1 := _root_.div_self ha

/-- no zero divisors: `a * b == FQ(0)` only if `a == FQ(0)` or `b == FQ(0)` -/
theorem mul_eq_zero (a b : Fq p) : mul a b = ofInt 0 ↔ a = ofInt 0 ∨ b = ofInt 0 := _root_.mul_eq_zero

/-- `a / k == a / FQ(k)` for every Python int `k` (so `a / k == FQ(0)` when `p ∣ k`) -/
theorem divInt_eq (a : Fq p) (k : ℤ) : divInt a k = div a (ofInt k) := by
  apply toZMod_injective; rw [toZMod_divInt, toZMod_div', toZMod_ofInt]
/-- `k / a == FQ(k) / a` (reflected operator) -/
theorem rdivInt_eq (a : Fq p) (k : ℤ) : rdivInt a k = div (ofInt k) a := by
  apply toZMod_injective; rw [toZMod_rdivInt, toZMod_div', toZMod_ofInt]

/-- Fermat: `a ** (p - 1) == FQ(1)` for `a != FQ(0)` (the inverse could equally be computed by `**`) -/
theorem pow_card_sub_one (a : Fq p) (ha : a ≠ ofInt 0) : pow a (p - 1) = ofInt 1 := by
  apply toZMod_injective
  rw [toZMod_pow', toZMod_ofInt, Int.cast_one]
  exact ZMod.pow_card_sub_one_eq_one (fun h => ha (toZMod_injective (h.trans toZMod_zero.symm)))

end field

/-! ## non-vacuity: the hypotheses are satisfiable, at `p = 7` and at the real BLS12-381 modulus -/
section examples
open Gen.Consts

local instance : Fact (Nat.Prime 7) := ⟨by norm_num⟩

example : (ofInt 3 : Fq 7) ≠ ofInt 0 := by decide
example : mul (ofInt 3 : Fq 7) (inv (ofInt 3)) = ofInt 1 := mul_inv_cancel _ (by decide)
example : inv (ofInt 3 : Fq 7) = ofInt 5 := by decide
example : mul (div (ofInt 2 : Fq 7) (ofInt 3)) (ofInt 3) = ofInt 2 := div_mul_cancel _ _ (by decide)
example : pow (ofInt 3 : Fq 7) 6 = ofInt 1 := pow_card_sub_one _ (by decide)
example : addInt (ofInt 3 : Fq 7) (-100) = ofInt 1 := by decide
example : eqInt (ofInt 5 : Fq 7) 5 = true ∧ eqInt (ofInt 5 : Fq 7) 12 = false := by decide
example : divInt (ofInt 3 : Fq 7) 14 = ofInt 0 := by decide

set_option maxRecDepth 100000 in
example : (ofInt 2 : Fq fields_bls12_381_field_modulus) ≠ ofInt 0 := by decide +kernel
set_option maxRecDepth 100000 in
example : mul (ofInt 2 : Fq fields_bls12_381_field_modulus) (inv (ofInt 2)) = ofInt 1 :=
  mul_inv_cancel _ (by decide +kernel)
set_option maxRecDepth 100000 in
example : mul (div (ofInt 5 : Fq fields_bls12_381_field_modulus) (ofInt (-3))) (ofInt (-3)) = ofInt 5 :=
  div_mul_cancel _ _ (by decide +kernel)
set_option maxRecDepth 100000 in
/-- the model really computes: `2⁻¹ = (p+1)/2` at the BLS12-381 modulus, evaluated by the kernel -/
example : (inv (ofInt 2 : Fq fields_bls12_381_field_modulus)).n = (fields_bls12_381_field_modulus + 1) / 2 := by
  decide +kernel
example : fields_bls12_381_field_modulus.Prime := prime_blsP
example : ∃ e : Fq fields_bls12_381_field_modulus ≃+* ZMod fields_bls12_381_field_modulus,
    ∀ a, e a = (a.n : ZMod _) := ⟨ringEquiv, fun _ => rfl⟩

end examples

end PyEcc.C08
