/-
  PyEcc.Props.C01_ProtoHB2 — the BLS protocol theorems (C01, C02, C03) with the hypothesis HT6 REMOVED.

  `Props/C0{1,2,3}_Proto.lean` are conditional on `BlsProto.PairingFacts e`, whose last field `hash_good` (HT6:
  "`hash_to_G2` returns a canonical point of the twist curve that passes `subgroup_check`") depended on the
  group order `#E'(Fp²) = h₂·r` (HB2).  That order is now proved (`Props/C17_Order.lean`), hence so is
  `hash_good` (`C17O.hash_good_proved`).  This file

    * defines `PairingFacts' e`   = `PairingFacts e`      minus `hash_good`   (fields: HB1, ND, HB1′ product form),
              `PairingValueFacts' e` = `PairingValueFacts e` minus `hash_good` (fields: HB1, ND, HB1′ per call);
    * shows `PairingFacts' e ↔ PairingFacts e`, `PairingValueFacts' e ↔ PairingValueFacts e`;
    * restates the headline theorems of C01 (honest signatures / possession proofs verify, and exist),
      C02 (`Verify` / `PopVerify` accept exactly the canonical signature) and C03 (`AggregateVerify`,
      `FastAggregateVerify` accept exactly `Aggregate` of the honest signatures) under the primed bundles;
    * proves, with NO pairing hypothesis at all, that `Sign` / `PopProve` on a valid key always return
      (`sign_total`, `popProve_total`): what remains assumed (bilinearity, non-degeneracy, "the Miller loop
      computes the pairing") is only needed for `Verify`.

  What is still assumed after this file: HB1 (bilinearity), ND (non-degeneracy), HB1′ (the model's Miller
  loop + final exponentiation computes that pairing).  Not assumed any more: HB2, HT6.
-/
import PyEcc.Props.C17_Order
import PyEcc.Props.C01_Proto
import PyEcc.Props.C02_Proto
import PyEcc.Props.C03_Proto

set_option linter.unusedSectionVars false

namespace PyEcc.C17O
open PyEcc PyEcc.Gen PyEcc.Gen.Consts PyEcc.Fqp PyEcc.FqpSem PyEcc.Transfer PyEcc.BlsSem PyEcc.BlsProto

/-! ## the reduced hypothesis bundles -/

/-- **`PairingFacts' e`: what is STILL assumed about the pairing** — `BlsProto.PairingFacts e` without its
    field `hash_good` (HT6), which is now a theorem.  `e : E2 → E1 → GT` is "the reduced pairing" on Mathlib's
    point groups:
    * `add_left`, `add_right` — HB1, bilinearity on `r`-torsion points;
    * `nondeg` — ND, non-degeneracy against the generator `G1`;
    * `miller` — HB1′, the final exponentiation of the product of the model's Miller values is `1` exactly
      when the product of the `e`-values of the represented points is `1`. -/
structure PairingFacts' [DecidableEq K2] {GT : Type} [CommGroup GT] (e : E2 → E1 → GT) : Prop where
  add_left : ∀ {q q' : E2} {p : E1}, blsR • q = 0 → blsR • q' = 0 → blsR • p = 0 →
    e (q + q') p = e q p * e q' p
  add_right : ∀ {q : E2} {p p' : E1}, blsR • q = 0 → blsR • p = 0 → blsR • p' = 0 →
    e q (p + p') = e q p * e q p'
  nondeg : ∀ {g : E1}, Represents blsG1 g → ∀ {q : E2}, blsR • q = 0 → e q g = 1 → q = 0
  miller : ∀ l : List Arg, l ≠ [] → (∀ a ∈ l, a.Good) →
    (finalExponentiateOptBls (mprod (l.map Arg.m)) = (1 : OBls12) ↔
      (l.map fun a => e a.q a.p).prod = 1)

/-- **`PairingValueFacts' e`** — `BlsProto.PairingValueFacts e` without `hash_good`: HB1, ND and, per pairing
    call on canonical on-curve `r`-torsion arguments, "the value of `final_exponentiate(miller value)` in
    `F_{p¹²}` is `e q p`". -/
structure PairingValueFacts' [DecidableEq K2] (e : E2 → E1 → K12ˣ) : Prop where
  add_left : ∀ {q q' : E2} {p : E1}, blsR • q = 0 → blsR • q' = 0 → blsR • p = 0 →
    e (q + q') p = e q p * e q' p
  add_right : ∀ {q : E2} {p p' : E1}, blsR • q = 0 → blsR • p = 0 → blsR • p' = 0 →
    e q (p + p') = e q p * e q p'
  nondeg : ∀ {g : E1}, Represents blsG1 g → ∀ {q : E2}, blsR • q = 0 → e q g = 1 → q = 0
  value : ∀ a : Arg, a.Good → (toQ (finalExponentiateOptBls a.m) : K12) = ((e a.q a.p : K12ˣ) : K12)

section
variable [DecidableEq K2] {GT : Type} [CommGroup GT] {e : E2 → E1 → GT}

/-- **The reduced bundle implies the full one**: the missing field is `hash_good_proved`. -/
theorem PairingFacts'.toPairingFacts (pf : PairingFacts' e) : PairingFacts e where
  add_left := pf.add_left
  add_right := pf.add_right
  nondeg := pf.nondeg
  miller := pf.miller
  hash_good := hash_good_proved

/-- the two bundles are equivalent -/
theorem pairingFacts'_iff : PairingFacts' e ↔ PairingFacts e :=
  ⟨PairingFacts'.toPairingFacts, fun pf => ⟨pf.add_left, pf.add_right, pf.nondeg, pf.miller⟩⟩

/-- the per-call bundle, reduced, implies the full per-call bundle -/
theorem PairingValueFacts'.toPairingValueFacts {e : E2 → E1 → K12ˣ} (pv : PairingValueFacts' e) :
    PairingValueFacts e where
  add_left := pv.add_left
  add_right := pv.add_right
  nondeg := pv.nondeg
  value := pv.value
  hash_good := hash_good_proved

theorem pairingValueFacts'_iff {e : E2 → E1 → K12ˣ} : PairingValueFacts' e ↔ PairingValueFacts e :=
  ⟨PairingValueFacts'.toPairingValueFacts, fun pv => ⟨pv.add_left, pv.add_right, pv.nondeg, pv.value⟩⟩

/-- the smallest bundle (HB1, ND, HB1′ per call) implies the one used by the headline theorems -/
theorem PairingValueFacts'.toPairingFacts {e : E2 → E1 → K12ˣ} (pv : PairingValueFacts' e) :
    PairingFacts e := pv.toPairingValueFacts.toPairingFacts

/-! ## unconditional: signing never fails -/

/-- HT6 read semantically, unconditional: the hash point represents an `r`-torsion point of the twist -/
theorem hash_rep {H : HashFn} {msg dst : Bytes} {mp : G2Pt} (h : hashToG2 H msg dst = .ok mp) :
    ∃ hq : E2, RepG2 mp hq ∧ blsR • hq = 0 := by
  obtain ⟨c, hon, hs⟩ := hash_good_proved H msg dst mp h
  obtain ⟨hq, r⟩ := repG2_of_on_curve c hon
  exact ⟨hq, r, (C17M.subgroupCheck_G2_iff r.1 r.2).mp hs⟩

/-- **`Sign` is total on valid keys — no hypothesis about pairings.**  For every hash function whose digest
    has at least 2 bytes, every suite, every `int` secret key `1 ≤ sk < r` and every message, `Sign(sk, m)`
    returns a 96-byte string. -/
theorem sign_total (H : HashFn) (hd : 2 ≤ H.digestSize) (s : Suite) (sk : ℤ)
    (hsk : 1 ≤ sk ∧ sk < (curveOrder : ℤ)) (m : Bytes) :
    ∃ sig, sign H s (.int sk) m = .ok sig ∧ sig.length = 96 := by
  have hv := validPrivkey_int hsk
  obtain ⟨pk, hpk, _⟩ := skToPk_ok hv
  cases hmp : hashToG2 H (vmsg s pk m) s.dst with
  | error err =>
    exact (C10G2.not_swuFails
      (hashToG2_error_of_dst hd (by rw [suite_dst_length]; decide) hmp).2).elim
  | ok mp =>
    obtain ⟨hq, rh, _⟩ := hash_rep hmp
    obtain ⟨bs, _, enc⟩ := encG2_of_rep
      (show RepG2 (Gen.OptBls.multiply mp sk.toNat) (sk.toNat • hq) from
        ⟨(canonT_ops rh.1 rh.1 _).2.2.2.1, opt_multiply_refines_F2 rh.1 rh.2 _⟩)
    refine ⟨bs, ?_, enc.1⟩
    rw [sign_eq_coreSign H s hpk]
    exact (coreSign_enc hv hmp rh bs).mpr enc

/-- **`PopProve` is total on valid keys — no hypothesis about pairings.** -/
theorem popProve_total (H : HashFn) (hd : 2 ≤ H.digestSize) (sk : ℤ)
    (hsk : 1 ≤ sk ∧ sk < (curveOrder : ℤ)) :
    ∃ proof, popProve H (.int sk) = .ok proof ∧ proof.length = 96 := by
  have hv := validPrivkey_int hsk
  obtain ⟨pk, hpk, _⟩ := skToPk_ok hv
  cases hmp : hashToG2 H pk popTag with
  | error err =>
    exact (C10G2.not_swuFails
      (hashToG2_error_of_dst hd (by rw [popTag_length]; decide) hmp).2).elim
  | ok mp =>
    obtain ⟨hq, rh, _⟩ := hash_rep hmp
    obtain ⟨bs, _, enc⟩ := encG2_of_rep
      (show RepG2 (Gen.OptBls.multiply mp sk.toNat) (sk.toNat • hq) from
        ⟨(canonT_ops rh.1 rh.1 _).2.2.2.1, opt_multiply_refines_F2 rh.1 rh.2 _⟩)
    refine ⟨bs, ?_, enc.1⟩
    rw [popProve_eq_coreSign H hpk]
    exact (coreSign_enc hv hmp rh bs).mpr enc

example : 2 ≤ sha256Fn.digestSize := by decide

/-! ## C01 without HT6 -/

/-- **Honest signatures verify** (C01), assuming only HB1, ND, HB1′: if `SkToPk(sk)` returned `pk` and
    `Sign(sk, m)` returned `sig`, then `Verify(pk, m, sig)` returns `True`. -/
theorem sign_verify (pf : PairingFacts' e) (H : HashFn) (s : Suite) (sk : ℤ)
    (hsk : 1 ≤ sk ∧ sk < (curveOrder : ℤ)) (m pk sig : Bytes) (hpk : skToPk (.int sk) = .ok pk)
    (hsig : sign H s (.int sk) m = .ok sig) : verify H s pk m sig = .returned true :=
  C01.sign_verify pf.toPairingFacts H s sk hsk m pk sig hpk hsig

/-- **Honest possession proofs verify** (C01), assuming only HB1, ND, HB1′. -/
theorem popProve_popVerify (pf : PairingFacts' e) (H : HashFn) (sk : ℤ)
    (hsk : 1 ≤ sk ∧ sk < (curveOrder : ℤ)) (pk proof : Bytes) (hpk : skToPk (.int sk) = .ok pk)
    (hproof : popProve H (.int sk) = .ok proof) : popVerify H pk proof = .returned true :=
  C01.popProve_popVerify pf.toPairingFacts H sk hsk pk proof hpk hproof

/-- **Honest signatures exist and verify** (DESIGN's form of C01), assuming only HB1, ND, HB1′. -/
theorem sign_verify_exists (pf : PairingFacts' e) (H : HashFn) (hd : 2 ≤ H.digestSize) (s : Suite)
    (sk : ℤ) (hsk : 1 ≤ sk ∧ sk < (curveOrder : ℤ)) (m : Bytes) :
    ∃ pk sig, skToPk (.int sk) = .ok pk ∧ sign H s (.int sk) m = .ok sig ∧
      verify H s pk m sig = .returned true :=
  C01.sign_verify_exists pf.toPairingFacts H hd s sk hsk m

/-- **Honest possession proofs exist and verify**, assuming only HB1, ND, HB1′. -/
theorem popProve_popVerify_exists (pf : PairingFacts' e) (H : HashFn) (hd : 2 ≤ H.digestSize)
    (sk : ℤ) (hsk : 1 ≤ sk ∧ sk < (curveOrder : ℤ)) :
    ∃ pk proof, skToPk (.int sk) = .ok pk ∧ popProve H (.int sk) = .ok proof ∧
      popVerify H pk proof = .returned true :=
  C01.popProve_popVerify_exists pf.toPairingFacts H hd sk hsk

/-! ## C02 without HT6 -/

/-- **`Verify` accepts exactly the canonical signature** (C02), assuming only HB1, ND, HB1′:
    `Verify(pk, m, cand) = True ↔ Sign(sk, m) = cand`. -/
theorem verify_iff (pf : PairingFacts' e) (H : HashFn) (s : Suite) (sk : ℤ)
    (hsk : 1 ≤ sk ∧ sk < (curveOrder : ℤ)) (m pk cand : Bytes) (hpk : skToPk (.int sk) = .ok pk) :
    verify H s pk m cand = .returned true ↔ sign H s (.int sk) m = .ok cand :=
  C02.verify_iff pf.toPairingFacts H s sk hsk m pk cand hpk

/-- **`PopVerify` accepts exactly the canonical proof** (C02), assuming only HB1, ND, HB1′. -/
theorem popVerify_iff (pf : PairingFacts' e) (H : HashFn) (sk : ℤ)
    (hsk : 1 ≤ sk ∧ sk < (curveOrder : ℤ)) (pk cand : Bytes) (hpk : skToPk (.int sk) = .ok pk) :
    popVerify H pk cand = .returned true ↔ popProve H (.int sk) = .ok cand :=
  C02.popVerify_iff pf.toPairingFacts H sk hsk pk cand hpk

/-! ## C03 without HT6 -/

/-- **`AggregateVerify` accepts exactly `Aggregate` of the honest signatures** (C03, all suites), assuming
    only HB1, ND, HB1′. -/
theorem aggregateVerify_iff_aggregate_sign (pf : PairingFacts' e) (H : HashFn) (s : Suite) (sks : List ℤ)
    (hsks : ∀ sk ∈ sks, 1 ≤ sk ∧ sk < (curveOrder : ℤ)) (pks msgs : List Bytes) (sig : Bytes)
    (hpks : List.Forall₂ (fun sk pk => skToPk (.int sk) = .ok pk) sks pks) :
    aggregateVerify H s pks msgs sig = .returned true ↔
      1 ≤ pks.length ∧ pks.length = msgs.length ∧ (s = .basic → msgs.Nodup) ∧
        ∃ sigs, List.Forall₂ (fun (x : ℤ × Bytes) sg => sign H s (.int x.1) x.2 = .ok sg)
          (sks.zip msgs) sigs ∧ aggregate sigs = .ok sig :=
  C03.aggregateVerify_iff_aggregate_sign pf.toPairingFacts H s sks hsks pks msgs sig hpks

/-- **`FastAggregateVerify` accepts exactly `Aggregate` of the honest signatures of the shared message**
    (C03), provided the aggregate key is not the identity; assuming only HB1, ND, HB1′. -/
theorem fastAggregateVerify_iff_aggregate_sign (pf : PairingFacts' e) (H : HashFn) (sks : List ℤ)
    (hsks : ∀ sk ∈ sks, 1 ≤ sk ∧ sk < (curveOrder : ℤ)) (pks : List Bytes) (msg sig : Bytes)
    (hpks : List.Forall₂ (fun sk pk => skToPk (.int sk) = .ok pk) sks pks) :
    fastAggregateVerify H pks msg sig = .returned true ↔
      1 ≤ pks.length ∧ ¬ (blsR ∣ (sks.map Int.toNat).sum) ∧
        ∃ sigs, List.Forall₂ (fun sk sg => sign H .pop (.int sk) msg = .ok sg) sks sigs ∧
          aggregate sigs = .ok sig :=
  C03.fastAggregateVerify_iff_aggregate_sign pf.toPairingFacts H sks hsks pks msg sig hpks

end

/-! ## under the smallest bundle `PairingValueFacts'` (HB1, ND, HB1′ per pairing call) -/

section
variable [DecidableEq K2] {e : E2 → E1 → K12ˣ}

/-- `sign_verify` assuming only HB1, ND and the per-call value identification. -/
theorem sign_verify' (pv : PairingValueFacts' e) (H : HashFn) (s : Suite) (sk : ℤ)
    (hsk : 1 ≤ sk ∧ sk < (curveOrder : ℤ)) (m pk sig : Bytes) (hpk : skToPk (.int sk) = .ok pk)
    (hsig : sign H s (.int sk) m = .ok sig) : verify H s pk m sig = .returned true :=
  C01.sign_verify pv.toPairingFacts H s sk hsk m pk sig hpk hsig

/-- `verify_iff` assuming only HB1, ND and the per-call value identification. -/
theorem verify_iff' (pv : PairingValueFacts' e) (H : HashFn) (s : Suite) (sk : ℤ)
    (hsk : 1 ≤ sk ∧ sk < (curveOrder : ℤ)) (m pk cand : Bytes) (hpk : skToPk (.int sk) = .ok pk) :
    verify H s pk m cand = .returned true ↔ sign H s (.int sk) m = .ok cand :=
  C02.verify_iff pv.toPairingFacts H s sk hsk m pk cand hpk

/-- `aggregateVerify_iff_aggregate_sign` assuming only HB1, ND and the per-call value identification. -/
theorem aggregateVerify_iff_aggregate_sign' (pv : PairingValueFacts' e) (H : HashFn) (s : Suite)
    (sks : List ℤ) (hsks : ∀ sk ∈ sks, 1 ≤ sk ∧ sk < (curveOrder : ℤ)) (pks msgs : List Bytes)
    (sig : Bytes) (hpks : List.Forall₂ (fun sk pk => skToPk (.int sk) = .ok pk) sks pks) :
    aggregateVerify H s pks msgs sig = .returned true ↔
      1 ≤ pks.length ∧ pks.length = msgs.length ∧ (s = .basic → msgs.Nodup) ∧
        ∃ sigs, List.Forall₂ (fun (x : ℤ × Bytes) sg => sign H s (.int x.1) x.2 = .ok sg)
          (sks.zip msgs) sigs ∧ aggregate sigs = .ok sig :=
  C03.aggregateVerify_iff_aggregate_sign pv.toPairingFacts H s sks hsks pks msgs sig hpks

/-- `fastAggregateVerify_iff_aggregate_sign` assuming only HB1, ND and the per-call value identification. -/
theorem fastAggregateVerify_iff_aggregate_sign' (pv : PairingValueFacts' e) (H : HashFn) (sks : List ℤ)
    (hsks : ∀ sk ∈ sks, 1 ≤ sk ∧ sk < (curveOrder : ℤ)) (pks : List Bytes) (msg sig : Bytes)
    (hpks : List.Forall₂ (fun sk pk => skToPk (.int sk) = .ok pk) sks pks) :
    fastAggregateVerify H pks msg sig = .returned true ↔
      1 ≤ pks.length ∧ ¬ (blsR ∣ (sks.map Int.toNat).sum) ∧
        ∃ sigs, List.Forall₂ (fun sk sg => sign H .pop (.int sk) msg = .ok sg) sks sigs ∧
          aggregate sigs = .ok sig :=
  C03.fastAggregateVerify_iff_aggregate_sign pv.toPairingFacts H sks hsks pks msg sig hpks

end

/-! ### non-vacuity of the key hypotheses -/

/-- `sk = 1` is a valid key, and `SkToPk(1)` returns the compressed generator (kernel evaluation, C09) -/
example : (1 ≤ (1 : ℤ) ∧ (1 : ℤ) < (curveOrder : ℤ)) ∧ skToPk (.int 1) = .ok C09.compressedG1 :=
  ⟨by decide, C09.skToPk_one⟩

end PyEcc.C17O
