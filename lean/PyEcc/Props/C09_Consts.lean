/-
  PyEcc.Props.C09_Consts — property C09, constant level: the domain-separation tags of the three
  BLS ciphersuites and the proof-of-possession tag are the strings of
  draft-irtf-cfrg-bls-signature-04 §4.2; the length parameters (`KeyGen` `L = 48`,
  `hash_to_field` `L = 64`) and the SSWU / isogeny curve parameters are those of RFC 9380 §8.8.

  `Gen.Consts.suites_DST_*` / `suites_POP_TAG` are the library's byte strings, dumped hex-encoded
  from the working tree on every run; `Suite.dst` / `popTag` (Model/Bls.lean) decode them and are
  what the model of `Sign`/`Verify`/`PopProve` passes to `hash_to_G2`.  A changed tag makes a
  theorem here fail.  Closed-term kernel evaluation; core Lean only.
-/
import PyEcc.Spec.Standards
import PyEcc.Model.Bls
import PyEcc.Model.Swu

set_option maxRecDepth 100000

namespace PyEcc.C09.Consts
open PyEcc.Gen.Consts

/-- the bytes of an ASCII string, one byte per character (independent of `String.toUTF8`) -/
def asciiBytes (s : String) : Bytes := s.toList.map (fun c => UInt8.ofNat c.toNat)

/-! ### specification side -/

/-- The four tags are 43 ASCII characters each, so their UTF-8 encoding is one byte per character
    and both readings of "the bytes of the string" agree. -/
theorem spec_tags_ascii :
    [Spec.BlsSig.dstBasic, Spec.BlsSig.dstAug, Spec.BlsSig.dstPop, Spec.BlsSig.popTag].all
      (fun s => s.toList.all (fun c => c.toNat < 128) && s.length == 43
        && s.toUTF8.toList == asciiBytes s) = true := by decide +kernel

/-- `KeyGen`'s `L = ceil(3·ceil(log₂ r)/16) = 48` (`r` has 255 bits), and `hash_to_field`'s
    `L = ceil((ceil(log₂ p) + 128)/8) = 64` (`p` has 381 bits). -/
theorem spec_lengths :
    2 ^ 254 < Spec.BLS12381.r ∧ Spec.BLS12381.r < 2 ^ 255 ∧
    Spec.BlsSig.keygenL = (3 * 255 + 15) / 16 ∧
    2 ^ 380 < Spec.BLS12381.p ∧ Spec.BLS12381.p < 2 ^ 381 ∧
    Spec.H2C.hashToFieldL = (381 + 128 + 7) / 8 := by decide +kernel

/-- RFC 9380 §8.8.1 sanity: `Z = 11` is a non-square mod `p` (Euler's criterion, evaluated), as the
    simplified SWU map requires. -/
theorem spec_iso11Z_nonsquare :
    powMod Spec.H2C.iso11Z ((Spec.BLS12381.p - 1) / 2) Spec.BLS12381.p = Spec.BLS12381.p - 1 := by
  decide +kernel

/-! ### the ciphersuite tags -/

/-- `G2Basic.DST` is `BLS_SIG_BLS12381G2_XMD:SHA-256_SSWU_RO_NUL_`: the stored hex string decodes
    (successfully) to exactly the bytes of the draft's string. -/
theorem dst_basic :
    Suite.dst .basic = "BLS_SIG_BLS12381G2_XMD:SHA-256_SSWU_RO_NUL_".toUTF8.toList ∧
    Bytes.ofHex suites_DST_basic = some (asciiBytes Spec.BlsSig.dstBasic) := by decide +kernel

/-- `G2MessageAugmentation.DST` is `BLS_SIG_BLS12381G2_XMD:SHA-256_SSWU_RO_AUG_`. -/
theorem dst_aug :
    Suite.dst .aug = "BLS_SIG_BLS12381G2_XMD:SHA-256_SSWU_RO_AUG_".toUTF8.toList ∧
    Bytes.ofHex suites_DST_aug = some (asciiBytes Spec.BlsSig.dstAug) := by decide +kernel

/-- `G2ProofOfPossession.DST` is `BLS_SIG_BLS12381G2_XMD:SHA-256_SSWU_RO_POP_`. -/
theorem dst_pop :
    Suite.dst .pop = "BLS_SIG_BLS12381G2_XMD:SHA-256_SSWU_RO_POP_".toUTF8.toList ∧
    Bytes.ofHex suites_DST_pop = some (asciiBytes Spec.BlsSig.dstPop) := by decide +kernel

/-- `G2ProofOfPossession.POP_TAG` is `BLS_POP_BLS12381G2_XMD:SHA-256_SSWU_RO_POP_`. -/
theorem pop_tag :
    popTag = "BLS_POP_BLS12381G2_XMD:SHA-256_SSWU_RO_POP_".toUTF8.toList ∧
    Bytes.ofHex suites_POP_TAG = some (asciiBytes Spec.BlsSig.popTag) := by decide +kernel

/-- All four at once against `Spec.BlsSig`, and the abstract base class has the empty `DST`. -/
theorem tags_eq_spec :
    Suite.dst .basic = Spec.BlsSig.dstBasic.toUTF8.toList ∧
    Suite.dst .aug = Spec.BlsSig.dstAug.toUTF8.toList ∧
    Suite.dst .pop = Spec.BlsSig.dstPop.toUTF8.toList ∧
    popTag = Spec.BlsSig.popTag.toUTF8.toList ∧
    suites_DST_base = "" := by decide +kernel

/-- The four tags are pairwise distinct (domain separation between the schemes, and between
    signatures and proofs of possession). -/
theorem tags_distinct :
    Suite.dst .basic ≠ Suite.dst .aug ∧ Suite.dst .basic ≠ Suite.dst .pop ∧
    Suite.dst .aug ≠ Suite.dst .pop ∧ popTag ≠ Suite.dst .basic ∧ popTag ≠ Suite.dst .aug ∧
    popTag ≠ Suite.dst .pop := by decide +kernel

/-! ### length parameters -/

/-- `KeyGen` uses `L = 48`, `hash_to_field` uses `L = 64`, and the suites' `curve_order` is the
    standard `r`. -/
theorem lengths :
    suites_keygen_L = Spec.BlsSig.keygenL ∧ blsconst_HASH_TO_FIELD_L = Spec.H2C.hashToFieldL ∧
    curveOrder = Spec.BLS12381.r := by decide +kernel

/-! ### RFC 9380 §8.8 curve parameters of the SSWU maps -/

/-- G1 suite (§8.8.1): `Z = 11`, and `A'`, `B'` of the 11-isogenous curve. -/
theorem iso11_params :
    h2c_ISO_11_Z = Spec.H2C.iso11Z ∧ h2c_ISO_11_A = Spec.H2C.iso11A ∧ h2c_ISO_11_B = Spec.H2C.iso11B ∧
    h2c_ISO_11_A < Spec.BLS12381.p ∧ h2c_ISO_11_B < Spec.BLS12381.p := by decide +kernel

/-- G2 suite (§8.8.2): `A' = 240·i`, `B' = 1012·(1+i)`, `Z = −(2+i)` (stored as the canonical
    residues `[p−2, p−1]`). -/
theorem iso3_params :
    h2c_ISO_3_A = Spec.H2C.iso3A ∧ h2c_ISO_3_B = Spec.H2C.iso3B ∧ h2c_ISO_3_Z = Spec.H2C.iso3Z := by
  decide +kernel

/-- The model's typed `ISO_3_Z` is `−(2 + i)` computed in the model of the library's `FQ2`, and the
    typed `ISO_11_*` carry the standard residues. -/
theorem iso_params_typed :
    ISO_3_Z = -(Fqp.ofInts [2, 1] : F2) ∧
    ISO_3_A = (Fqp.ofInts [0, 240] : F2) ∧ ISO_3_B = (Fqp.ofInts [1012, 1012] : F2) ∧
    ISO_11_Z.n = 11 ∧ ISO_11_A.n = Spec.H2C.iso11A ∧ ISO_11_B.n = Spec.H2C.iso11B := by
  decide +kernel

end PyEcc.C09.Consts
