/-
  PyEcc.Props.TieFieldsMul — TIE theorems ("generated = hand-written model") for the FIELD layer, part 3: the polynomial
  product `FQP.__mul__` (FQP operand), `__rmul__` and `__pow__` of BOTH field modules.

  `Gen/ExtraFieldsMul.lean` is re-generated from the Python source on every run (tools/translate/gen_fields.py).
    * reference `FQP.__mul__`: the double loop `b[i + j] += self.coeffs[i] * other.coeffs[j]` on `FQ` objects and the
      `while len(b) > self.degree` reduction with `b.pop()`  ↔  `convLoop (· % p)` + `refReduce`   (`MulRef.mul_fqp_eq`);
    * optimized `FQP.__mul__`: the `enumerate` double loop on ints and `for exp in range(self.degree - 2, -1, -1)` with
      `mc_tuples`  ↔  `convLoop id` + `optReduce`   (`MulOpt.mul_fqp_eq`);
    * `__pow__` (both): the square-and-multiply `while other > 0` loop  ↔  `Fqp.powAux` on the same fuel (`pow_eq`).
  In-place list updates `b[k] op= v` are `updAt` in the generated code as in the model; the arithmetic on the entries is the
  generated `FQ` method in the reference class (so the `% p` of the model comes from the TYPE of the entries) and plain
  integer arithmetic in the optimized class.  Objects are related to model elements by `FqpRef.obj` / `FqpOpt.obj`
  (see TieFieldsFqp.lean); `.ok` says that the constructor's length check passes.
-/
import PyEcc.Gen.ExtraFieldsMul
import PyEcc.Props.TieFieldsFqp

namespace PyEcc.Tie
open PyEcc

/-! ### list lemmas -/

/-- a fold whose step keeps the length keeps the length -/
theorem fields_foldl_length {α : Type} (g : List Int → α → List Int)
    (hg : ∀ acc x, (g acc x).length = acc.length) (l : List α) (acc : List Int) :
    (l.foldl g acc).length = acc.length := by
  induction l generalizing acc with
  | nil => rfl
  | cons x xs ih => rw [List.foldl_cons, ih, hg]

/-- the convolution buffer has `2d - 1` entries -/
theorem fields_length_convLoop (red : Int → Int) (a b : List Int) (d : Nat) :
    (Fqp.convLoop red a b d).length = d * 2 - 1 := by
  unfold Fqp.convLoop
  rw [fields_foldl_length, List.length_replicate]
  intro acc i
  exact fields_foldl_length _ (fun acc j => length_updAt _ _ _) _ _

/-- the reference reduction loop stops at `d` entries -/
theorem fields_length_refReduce (p : Nat) (mc : List Int) (d : Nat) : ∀ (f : Nat) (b : List Int),
    d ≤ b.length → b.length ≤ d + f → (Fqp.refReduce p mc d f b).length = d := by
  intro f
  induction f with
  | zero => intro b h1 h2; unfold Fqp.refReduce; omega
  | succ f ih =>
    intro b h1 h2
    unfold Fqp.refReduce
    by_cases hgt : b.length > d
    · simp only [hgt, if_true]
      apply ih
      · rw [fields_foldl_length _ (fun acc j => length_updAt _ _ _), List.length_dropLast]; omega
      · rw [fields_foldl_length _ (fun acc j => length_updAt _ _ _), List.length_dropLast]; omega
    · simp only [hgt, if_false]; omega

/-- every entry is reduced modulo `p` -/
def AllRed (p : Nat) (l : List Int) : Prop := ∀ x ∈ l, x % (p : Int) = x

theorem AllRed.updAt {p : Nat} {l : List Int} (h : AllRed p l) (i : Nat) (f : Int → Int)
    (hf : ∀ x, f x % (p : Int) = f x) : AllRed p (updAt l i f) := by
  induction l generalizing i with
  | nil => exact h
  | cons x xs ih =>
    cases i with
    | zero =>
      intro y hy
      simp only [PyEcc.updAt, List.mem_cons] at hy
      rcases hy with rfl | hy
      · exact hf x
      · exact h y (List.mem_cons_of_mem _ hy)
    | succ i =>
      intro y hy
      simp only [PyEcc.updAt, List.mem_cons] at hy
      rcases hy with rfl | hy
      · exact h y (List.mem_cons_self)
      · exact ih (fun z hz => h z (List.mem_cons_of_mem _ hz)) i y hy

theorem AllRed.foldl {p : Nat} {α : Type} (g : List Int → α → List Int)
    (hg : ∀ acc x, AllRed p acc → AllRed p (g acc x)) (l : List α) (acc : List Int) (h : AllRed p acc) :
    AllRed p (l.foldl g acc) := by
  induction l generalizing acc with
  | nil => exact h
  | cons x xs ih => exact ih _ (hg _ _ h)

theorem AllRed.dropLast {p : Nat} {l : List Int} (h : AllRed p l) : AllRed p l.dropLast :=
  fun x hx => h x (List.dropLast_subset l hx)

theorem AllRed.map_id {p : Nat} {l : List Int} (h : AllRed p l) : l.map (fun c => c % (p : Int)) = l := by
  induction l with
  | nil => rfl
  | cons x xs ih =>
    simp only [List.map_cons]
    rw [h x List.mem_cons_self, ih (fun z hz => h z (List.mem_cons_of_mem _ hz))]

/-- with `red = (· % p)` every entry of the convolution buffer is reduced -/
theorem allRed_convLoop (p : Nat) (a b : List Int) (d : Nat) :
    AllRed p (Fqp.convLoop (fun x => x % (p : Int)) a b d) := by
  unfold Fqp.convLoop
  apply AllRed.foldl
  · intro acc i hacc
    apply AllRed.foldl
    · intro acc j hacc
      exact hacc.updAt _ _ (fun x => Int.emod_emod _ _)
    · exact hacc
  · intro x hx
    rw [List.eq_of_mem_replicate hx]; rfl

/-- the reference reduction keeps every entry reduced -/
theorem allRed_refReduce (p : Nat) (mc : List Int) (d : Nat) : ∀ (f : Nat) (b : List Int),
    AllRed p b → AllRed p (Fqp.refReduce p mc d f b) := by
  intro f
  induction f with
  | zero => intro b h; exact h
  | succ f ih =>
    intro b h
    unfold Fqp.refReduce
    by_cases hgt : b.length > d
    · simp only [hgt, if_true]
      apply ih
      apply AllRed.foldl
      · intro acc i hacc
        exact hacc.updAt _ _ (fun x => Int.emod_emod _ _)
      · exact h.dropLast
    · simp only [hgt, if_false]; exact h

/-- `enumerate(l)` is `[(i, l[i]) for i in range(len(l))]` -/
theorem zip_range_eq_map (l : List Int) :
    List.zip (List.range l.length) l = (List.range l.length).map (fun i => (i, getI l i)) := by
  apply List.ext_getElem
  · simp
  · intro i h1 h2
    simp at h1
    simp [getI, h1]

/-- the optimized reduction leaves `d` entries -/
theorem fields_length_optReduce (mc : List Int) (d : Nat) (b : List Int) (hb : b.length = d * 2 - 1) :
    (Fqp.optReduce mc d b).length = d := by
  unfold Fqp.optReduce
  have step : ∀ (l : List Nat) (b : List Int), l.length ≤ b.length →
      (l.foldl (fun b exp =>
        let top := b.getLast?.getD 0
        let b := b.dropLast
        ((List.zip (List.range mc.length) mc).filter (fun ic => ic.2 ≠ 0)).foldl
          (fun acc ic => updAt acc (exp + ic.1) (fun x => x - top * ic.2)) b) b).length = b.length - l.length := by
    intro l
    induction l with
    | nil => intro b _; rfl
    | cons x xs ih =>
      intro b hlen
      simp only [List.foldl_cons, List.length_cons] at hlen ⊢
      rw [ih]
      · rw [fields_foldl_length _ (fun acc j => length_updAt _ _ _), List.length_dropLast]; omega
      · rw [fields_foldl_length _ (fun acc j => length_updAt _ _ _), List.length_dropLast]; omega
  by_cases hd : d < 2
  · simp only [hd, if_true, List.foldl_nil]; omega
  · simp only [hd, if_false]
    rw [step]
    · simp [downTo]; omega
    · simp [downTo]; omega

/-- `do let v ← X; k v` when `k v = return (g v)` and `g <$> X` is known -/
theorem bind_of_map {ε σ α : Type} (X : Except ε σ) (g : σ → α) (k : σ → Except ε α) (w : α)
    (hk : ∀ v, k v = .ok (g v)) (h : Except.map g X = .ok w) : (X >>= k) = .ok w := by
  cases X with
  | error e => simp [Except.map] at h
  | ok v =>
    simp only [Except.map, Except.ok.injEq] at h
    show k v = _
    rw [hk, h]

namespace MulRef
open Gen.ExtraFieldsFq.Ref Gen.ExtraFieldsFqp.Ref Gen.ExtraFieldsMul.Ref FqpRef
variable {p : Nat} {mc : List Int}

set_option linter.unusedSimpArgs false in
/-- the `while len(b) > self.degree` loop generated from reference `FQP.__mul__` is the model's `refReduce` -/
theorem mul_loop_eq (a : Fqp .ref p mc) : ∀ (f : Nat) (b : List Int),
    FQP.mul_fqp_loop0 p mc (obj a) f b = Fqp.refReduce p mc mc.length f b := by
  intro f
  induction f with
  | zero => intro b; rfl
  | succ f ih =>
    intro b
    unfold FQP.mul_fqp_loop0 Fqp.refReduce
    simp only [obj, FQ.sub_fq, FQ.mul_fq, FQ.init_int, Int.emod_emod]
    by_cases hgt : b.length > mc.length
    · -- `exp` may be computed before the `b.pop()` (`len(b) - degree - 1`) or after it (`len(b) - degree`)
      have hlen : b.dropLast.length - mc.length = b.length - mc.length - 1 := by
        rw [List.length_dropLast]; omega
      simp only [hgt, if_true, hlen]
      exact ih _
    · simp only [hgt, if_false]

/-- reference `FQP.__mul__` with an `FQP` operand (double loop on `FQ` entries + `while`/`pop` reduction) is the model's
    `Fqp.mul` (`convLoop (· % p)` + `refReduce`), for ALL operands (no well-formedness needed: the loops run over
    `range(self.degree)`). -/
theorem mul_fqp_eq (a b : Fqp .ref p mc) :
    FQP.mul_fqp p mc (obj a) (obj b) = .ok (obj (Fqp.mul a b)) := by
  have hdeg : (obj a).degree = mc.length := rfl
  unfold FQP.mul_fqp
  simp only [mul_loop_eq, hdeg]
  simp only [obj, FQ.add_fq, FQ.mul_fq, FQ.init_int, Int.emod_emod, Int.zero_emod, List.map_const', List.length_range]
  show FQPsub.init_fqs p mc (Fqp.refReduce p mc mc.length mc.length
    (Fqp.convLoop (fun x => x % (p : Int)) a.coeffs b.coeffs mc.length)) = _
  rw [init_fqs_eq, if_neg]
  · have hred := allRed_refReduce p mc mc.length mc.length _ (allRed_convLoop p a.coeffs b.coeffs mc.length)
    simp only [obj, Fqp.mul, Fqp.ofInts, hred.map_id]
  · rw [fields_length_refReduce]
    · simp
    · rw [fields_length_convLoop]; omega
    · rw [fields_length_convLoop]; omega

/-- a model product has `d` coefficients -/
theorem wf_mul (a b : Fqp .ref p mc) : (Fqp.mul a b).coeffs.length = mc.length := by
  simp only [Fqp.mul, Fqp.ofInts, List.length_map]
  apply fields_length_refReduce <;> rw [fields_length_convLoop] <;> omega

/-- the `while other > 0` loop generated from reference `FQP.__pow__` computes the model's `Fqp.powAux` (same fuel); the
    loop state lists the variables in the order in which the method first binds them (`other`, `o`, `t`) -/
theorem pow_loop_eq : ∀ (f : Nat) (o t : Fqp .ref p mc) (e : Nat),
    Except.map (fun s => s.2.1) (FQP.pow_loop0 p mc f ((e : Int), obj o, obj t)) = .ok (obj (Fqp.powAux f o t e)) := by
  intro f
  induction f with
  | zero => intro o t e; rfl
  | succ f ih =>
    intro o t e
    unfold FQP.pow_loop0 Fqp.powAux
    by_cases h0 : e = 0
    · subst h0; simp [Except.map, pure, Except.pure]
    · have hpos : ((e : Int) > 0) := by omega
      have hdiv : ((e : Int) / 2) = ((e / 2 : Nat) : Int) := by omega
      rw [mul_fqp_eq o t, mul_fqp_eq t t]
      simp only [hpos, h0, if_true, if_false, hdiv]
      by_cases hodd : e % 2 = 1
      · have h1 : ((e : Int) % 2 ≠ 0) := by omega
        rw [if_pos hodd, if_pos h1]
        simp only [bind, Except.bind]
        exact ih _ _ _
      · have h1 : ¬ ((e : Int) % 2 ≠ 0) := by omega
        rw [if_neg hodd, if_neg h1]
        simp only [bind, Except.bind]
        exact ih _ _ _

/-- reference `FQP.__pow__(other)` is the model's `Fqp.pow` for every int exponent (negative: `1`), for a modulus of degree
    at least 1 (otherwise the constructor of the initial `1` raises); the base may be ANY element. -/
theorem pow_eq (a : Fqp .ref p mc) (e : Int) (hd : 1 ≤ mc.length) :
    FQP.pow p mc (obj a) e = .ok (obj (Fqp.pow a e.toNat)) := by
  have hdeg : (obj a).degree = mc.length := rfl
  unfold FQP.pow Fqp.pow
  rw [init_ints_eq, if_neg (by simp [hdeg]; omega)]
  have hone : (Fqp.ofInts ([(1 : Int)] ++ List.replicate ((obj a).degree - 1) 0) : Fqp .ref p mc) = Fqp.one := rfl
  rw [hone]
  by_cases h : 0 ≤ e
  · obtain ⟨k, rfl⟩ := Int.eq_ofNat_of_zero_le h
    have := pow_loop_eq k (Fqp.one : Fqp .ref p mc) a k
    simp only [Int.toNat_natCast]
    exact bind_of_map _ (fun (s : Int × FQP × FQP) => s.2.1) _ _ (fun ⟨_, _, _⟩ => rfl) this
  · have : e.toNat = 0 := by omega
    rw [this]; rfl

/-- reference `FQP.__rmul__` delegates to `self * other`: `int` operand. -/
theorem rmul_int_eq (a : Fqp .ref p mc) (k : Int) (ha : a.coeffs.length = mc.length) :
    FQP.rmul_int p mc (obj a) k = .ok (obj (Fqp.mulInt a k)) := by
  unfold FQP.rmul_int; exact mul_int_eq a k ha

/-- reference `FQP.__rmul__` delegates to `self * other`: `FQP` operand. -/
theorem rmul_fqp_eq (a b : Fqp .ref p mc) : FQP.rmul_fqp p mc (obj a) (obj b) = .ok (obj (Fqp.mul a b)) := by
  unfold FQP.rmul_fqp; exact mul_fqp_eq a b
/- non-vacuity of the hypotheses of `pow_eq` -/
example : FQP.pow 7 [1, 0] (obj (⟨[1, 2]⟩ : Fqp .ref 7 [1, 0])) 5 = .ok (obj (Fqp.pow (⟨[1, 2]⟩ : Fqp .ref 7 [1, 0]) 5)) :=
  pow_eq _ 5 (by decide)
end MulRef

namespace MulOpt
open Gen.ExtraFieldsFq.Opt Gen.ExtraFieldsFqp.Opt Gen.ExtraFieldsMul.Opt FqpOpt
variable {p : Nat} {mc : List Int}

/-- optimized `FQP.__mul__` with an `FQP` operand (`enumerate` double loop on ints + `mc_tuples` reduction) is the model's
    `Fqp.mul` (`convLoop id` + `optReduce`), on well-formed operands (`enumerate(self.coeffs)` runs over the actual
    coefficients, the model over `range(degree)`). -/
theorem mul_fqp_eq (a b : Fqp .opt p mc) (ha : a.coeffs.length = mc.length) (hb : b.coeffs.length = mc.length) :
    FQP.mul_fqp p mc (obj a) (obj b) = .ok (obj (Fqp.mul a b)) := by
  unfold FQP.mul_fqp
  simp only [obj, zip_range_eq_map, List.foldl_map]
  simp only [ha, hb]
  rw [init_ints_eq, if_neg]
  · simp only [obj, Fqp.mul, Fqp.ofInts, List.map_map, Function.comp_def, Int.emod_emod]
    rfl
  · rw [List.length_map]
    exact fun h => h (fields_length_optReduce mc mc.length (Fqp.convLoop id a.coeffs b.coeffs mc.length)
      (fields_length_convLoop _ _ _ _))

/-- a model product has `d` coefficients -/
theorem wf_mul (a b : Fqp .opt p mc) : (Fqp.mul a b).coeffs.length = mc.length := by
  simp only [Fqp.mul, Fqp.ofInts, List.length_map]
  exact fields_length_optReduce mc mc.length _ (fields_length_convLoop _ _ _ _)

/-- the `while other > 0` loop generated from optimized `FQP.__pow__` computes the model's `Fqp.powAux` (same fuel); the
    loop state lists the variables in the order in which the method first binds them (`other`, `o`, `t`) -/
theorem pow_loop_eq : ∀ (f : Nat) (o t : Fqp .opt p mc) (e : Nat),
    o.coeffs.length = mc.length → t.coeffs.length = mc.length →
    Except.map (fun s => s.2.1) (FQP.pow_loop0 p mc f ((e : Int), obj o, obj t)) = .ok (obj (Fqp.powAux f o t e)) := by
  intro f
  induction f with
  | zero => intro o t e _ _; rfl
  | succ f ih =>
    intro o t e ho ht
    unfold FQP.pow_loop0 Fqp.powAux
    by_cases h0 : e = 0
    · subst h0; simp [Except.map, pure, Except.pure]
    · have hpos : ((e : Int) > 0) := by omega
      have hdiv : ((e : Int) / 2) = ((e / 2 : Nat) : Int) := by omega
      rw [mul_fqp_eq o t ho ht, mul_fqp_eq t t ht ht]
      simp only [hpos, h0, if_true, if_false, hdiv]
      by_cases hodd : e % 2 = 1
      · have h1 : ((e : Int) % 2 ≠ 0) := by omega
        rw [if_pos hodd, if_pos h1]
        simp only [bind, Except.bind]
        exact ih _ _ _ (wf_mul _ _) (wf_mul _ _)
      · have h1 : ¬ ((e : Int) % 2 ≠ 0) := by omega
        rw [if_neg hodd, if_neg h1]
        simp only [bind, Except.bind]
        exact ih _ _ _ ho (wf_mul _ _)

/-- optimized `FQP.__pow__(other)` is the model's `Fqp.pow` for every int exponent (negative: `1`), for a modulus of degree
    at least 1 (otherwise the constructor of the initial `1` raises) and a well-formed base. -/
theorem pow_eq (a : Fqp .opt p mc) (e : Int) (hd : 1 ≤ mc.length) (ha : a.coeffs.length = mc.length) :
    FQP.pow p mc (obj a) e = .ok (obj (Fqp.pow a e.toNat)) := by
  have hdeg : (obj a).degree = mc.length := rfl
  unfold FQP.pow Fqp.pow
  rw [init_ints_eq, if_neg (by simp [hdeg]; omega)]
  have hone : (Fqp.ofInts ([(1 : Int)] ++ List.replicate ((obj a).degree - 1) 0) : Fqp .opt p mc) = Fqp.one := rfl
  have wf1 : (Fqp.one : Fqp .opt p mc).coeffs.length = mc.length := by
    simp [Fqp.one, Fqp.ofInts]; omega
  rw [hone]
  by_cases h : 0 ≤ e
  · obtain ⟨k, rfl⟩ := Int.eq_ofNat_of_zero_le h
    have := pow_loop_eq k (Fqp.one : Fqp .opt p mc) a k wf1 ha
    simp only [Int.toNat_natCast]
    exact bind_of_map _ (fun (s : Int × FQP × FQP) => s.2.1) _ _ (fun ⟨_, _, _⟩ => rfl) this
  · have : e.toNat = 0 := by omega
    rw [this]; rfl

/-- optimized `FQP.__rmul__` delegates to `self * other`: `int` operand. -/
theorem rmul_int_eq (a : Fqp .opt p mc) (k : Int) (ha : a.coeffs.length = mc.length) :
    FQP.rmul_int p mc (obj a) k = .ok (obj (Fqp.mulInt a k)) := by
  unfold FQP.rmul_int; exact mul_int_eq a k ha

/-- optimized `FQP.__rmul__` delegates to `self * other`: `FQP` operand. -/
theorem rmul_fqp_eq (a b : Fqp .opt p mc) (ha : a.coeffs.length = mc.length) (hb : b.coeffs.length = mc.length) :
    FQP.rmul_fqp p mc (obj a) (obj b) = .ok (obj (Fqp.mul a b)) := by
  unfold FQP.rmul_fqp; exact mul_fqp_eq a b ha hb
/- non-vacuity of the hypotheses -/
example : FQP.mul_fqp 7 [1, 0] (obj (⟨[1, 2]⟩ : Fqp .opt 7 [1, 0])) (obj (⟨[3, 6]⟩ : Fqp .opt 7 [1, 0])) =
    .ok (obj (Fqp.mul (⟨[1, 2]⟩ : Fqp .opt 7 [1, 0]) ⟨[3, 6]⟩)) := mul_fqp_eq _ _ rfl rfl
example : FQP.pow 7 [1, 0] (obj (⟨[1, 2]⟩ : Fqp .opt 7 [1, 0])) 5 = .ok (obj (Fqp.pow (⟨[1, 2]⟩ : Fqp .opt 7 [1, 0]) 5)) :=
  pow_eq _ 5 (by decide) rfl
end MulOpt
end PyEcc.Tie
