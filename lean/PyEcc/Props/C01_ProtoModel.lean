/-
  PyEcc.Props.C01_ProtoModel — the BLS protocol theorems (C01, C02, C03) conditional on ONE hypothesis:
  **the pairing function of the code is bilinear** (`NdSem.ModelBilinear`, `Lemmas/ModelPairing.lean`).

  History of the hypothesis bundle:
      `BlsProto.PairingFacts e`       HB1, ND, HB1′, HT6        (`Props/C0{1,2,3}_Proto.lean`)
      `C17O.PairingFacts' e`          HB1, ND, HB1′             (`Props/C01_ProtoHB2.lean`: group orders proved)
      `NdSem.PairingFacts'' e`        HB1,     HB1′             (`Props/C01_ProtoND.lean`: ND proved)
      `NdSem.ModelBilinear`           HB1 for the model's own pairing function      (this file)

  HB1′ said "there is an abstract pairing `e` and the model computes it, whatever the projective
  representatives".  The representative independence is now PROVED (`NdSem.pairing_value_rep_indep`, from C12:
  optimized pairing = reference pairing of the normalized points), so the function
      `valM q p` = value in `F_{p¹²}` of `final_exponentiate(pairing(Q, P, False))`, `Q`, `P` ANY canonical on-curve
                   representatives of the `r`-torsion points `q`, `p`
  is well defined, and `e := valM` satisfies HB1′ by definition (`NdSem.valM_spec`).

  **The entire remaining trusted mathematics of C01–C03 is therefore:**
      `ModelBilinear`:  `valM (q + q') p = valM q p * valM q' p`  and  `valM q (p + p') = valM q p * valM q p'`
                        for points killed by `r = curve_order`.
  Equivalently (`NdSem.modelBilinear_iff`): there EXISTS a bilinear map that the model computes.  It is implied by
  the statement on the Python functions alone (`NdSem.ModelBilinearCode`, `…_of_modelBilinearCode` below):
      `pairing(add(Q, Q'), P) == pairing(Q, P) * pairing(Q', P)`, `pairing(Q, add(P, P')) == pairing(Q, P) * pairing(Q, P')`
      for all triples passing `is_on_curve` and `subgroup_check`.
  This is bilinearity of the optimal ate pairing as implemented (divisors / Weil reciprocity: not in Mathlib).
  It is a closed mathematical statement — a hypothesis of the theorems, never an axiom; its "instance" would be its
  proof, so no `example` of it is given (the side conditions of `ModelBilinearCode` are shown non-vacuous in
  `Lemmas/ModelPairing.lean`).

  HEAVY: imports `PropsHeavy/C05_Nondeg.lean` (≈ 1 min of kernel evaluation, once).
-/
import PyEcc.Lemmas.ModelPairing
import PyEcc.Props.C01_ProtoND

set_option linter.unusedSectionVars false

namespace PyEcc.C01
open PyEcc PyEcc.Gen PyEcc.Gen.Consts PyEcc.Transfer PyEcc.BlsSem PyEcc.BlsProto PyEcc.NdSem

section
variable [DecidableEq K2]

/-- **Honest signatures verify** (C01), assuming ONLY that the code's pairing function is bilinear: for every
    suite, hash function, `int` secret key `1 ≤ sk < r` and message, if `SkToPk(sk)` returned `pk` and
    `Sign(sk, m)` returned `sig`, then `Verify(pk, m, sig)` returns `True`. -/
theorem sign_verify_of_modelBilinear (mb : ModelBilinear) (H : HashFn) (s : Suite) (sk : ℤ)
    (hsk : 1 ≤ sk ∧ sk < (curveOrder : ℤ)) (m pk sig : Bytes) (hpk : skToPk (.int sk) = .ok pk)
    (hsig : sign H s (.int sk) m = .ok sig) : verify H s pk m sig = .returned true :=
  sign_verify mb.toPairingFacts H s sk hsk m pk sig hpk hsig

/-- **Honest possession proofs verify** (C01), assuming only `ModelBilinear`. -/
theorem popProve_popVerify_of_modelBilinear (mb : ModelBilinear) (H : HashFn) (sk : ℤ)
    (hsk : 1 ≤ sk ∧ sk < (curveOrder : ℤ)) (pk proof : Bytes) (hpk : skToPk (.int sk) = .ok pk)
    (hproof : popProve H (.int sk) = .ok proof) : popVerify H pk proof = .returned true :=
  popProve_popVerify mb.toPairingFacts H sk hsk pk proof hpk hproof

/-- **Honest signatures exist and verify** (DESIGN's form of C01), assuming only `ModelBilinear`: for every
    hash function with a digest of at least 2 bytes, `SkToPk(sk)` and `Sign(sk, m)` return, and `Verify` of
    the results returns `True`. -/
theorem sign_verify_exists_of_modelBilinear (mb : ModelBilinear) (H : HashFn) (hd : 2 ≤ H.digestSize)
    (s : Suite) (sk : ℤ) (hsk : 1 ≤ sk ∧ sk < (curveOrder : ℤ)) (m : Bytes) :
    ∃ pk sig, skToPk (.int sk) = .ok pk ∧ sign H s (.int sk) m = .ok sig ∧
      verify H s pk m sig = .returned true :=
  sign_verify_exists mb.toPairingFacts H hd s sk hsk m

/-- **Honest possession proofs exist and verify**, assuming only `ModelBilinear`. -/
theorem popProve_popVerify_exists_of_modelBilinear (mb : ModelBilinear) (H : HashFn)
    (hd : 2 ≤ H.digestSize) (sk : ℤ) (hsk : 1 ≤ sk ∧ sk < (curveOrder : ℤ)) :
    ∃ pk proof, skToPk (.int sk) = .ok pk ∧ popProve H (.int sk) = .ok proof ∧
      popVerify H pk proof = .returned true :=
  popProve_popVerify_exists mb.toPairingFacts H hd sk hsk

/-- `sign_verify` assuming only the code-level bilinearity statement `ModelBilinearCode`
    (`pairing(add(Q,Q'),P) == pairing(Q,P)*pairing(Q',P)`, `pairing(Q,add(P,P')) == pairing(Q,P)*pairing(Q,P')`
    on subgroup points). -/
theorem sign_verify_of_modelBilinearCode (mc : ModelBilinearCode) (H : HashFn) (s : Suite) (sk : ℤ)
    (hsk : 1 ≤ sk ∧ sk < (curveOrder : ℤ)) (m pk sig : Bytes) (hpk : skToPk (.int sk) = .ok pk)
    (hsig : sign H s (.int sk) m = .ok sig) : verify H s pk m sig = .returned true :=
  sign_verify_of_modelBilinear mc.toModelBilinear H s sk hsk m pk sig hpk hsig

/-- `popProve_popVerify` assuming only `ModelBilinearCode`. -/
theorem popProve_popVerify_of_modelBilinearCode (mc : ModelBilinearCode) (H : HashFn) (sk : ℤ)
    (hsk : 1 ≤ sk ∧ sk < (curveOrder : ℤ)) (pk proof : Bytes) (hpk : skToPk (.int sk) = .ok pk)
    (hproof : popProve H (.int sk) = .ok proof) : popVerify H pk proof = .returned true :=
  popProve_popVerify_of_modelBilinear mc.toModelBilinear H sk hsk pk proof hpk hproof

end

/-- non-vacuity of the key hypotheses: `sk = 1` is a valid key, `SkToPk(1)` returns the compressed generator
    (kernel evaluation, C09), and SHA-256 has a digest of at least 2 bytes -/
example : (1 ≤ (1 : ℤ) ∧ (1 : ℤ) < (curveOrder : ℤ)) ∧ skToPk (.int 1) = .ok C09.compressedG1 ∧
    2 ≤ sha256Fn.digestSize :=
  ⟨by decide, C09.skToPk_one, by decide⟩

end PyEcc.C01

namespace PyEcc.C02
open PyEcc PyEcc.Gen PyEcc.Gen.Consts PyEcc.Transfer PyEcc.BlsSem PyEcc.BlsProto PyEcc.NdSem

section
variable [DecidableEq K2]

/-- **`Verify` accepts exactly the canonical signature** (C02), assuming ONLY `ModelBilinear`: for every suite,
    hash function, `int` secret key `1 ≤ sk < r` with `pk = SkToPk(sk)`, message `m` and candidate byte string
    `cand` of any length: `Verify(pk, m, cand) = True ↔ Sign(sk, m) = cand`. -/
theorem verify_iff_of_modelBilinear (mb : ModelBilinear) (H : HashFn) (s : Suite) (sk : ℤ)
    (hsk : 1 ≤ sk ∧ sk < (curveOrder : ℤ)) (m pk cand : Bytes) (hpk : skToPk (.int sk) = .ok pk) :
    verify H s pk m cand = .returned true ↔ sign H s (.int sk) m = .ok cand :=
  verify_iff mb.toPairingFacts H s sk hsk m pk cand hpk

/-- **`PopVerify` accepts exactly the canonical proof** (C02), assuming only `ModelBilinear`. -/
theorem popVerify_iff_of_modelBilinear (mb : ModelBilinear) (H : HashFn) (sk : ℤ)
    (hsk : 1 ≤ sk ∧ sk < (curveOrder : ℤ)) (pk cand : Bytes) (hpk : skToPk (.int sk) = .ok pk) :
    popVerify H pk cand = .returned true ↔ popProve H (.int sk) = .ok cand :=
  popVerify_iff mb.toPairingFacts H sk hsk pk cand hpk

/-- **Any string other than the canonical signature is rejected** (`Verify` returns `False`, it does not
    raise), assuming only `ModelBilinear`. -/
theorem verify_rejects_ne_of_modelBilinear (mb : ModelBilinear) (H : HashFn) (s : Suite) (sk : ℤ)
    (hsk : 1 ≤ sk ∧ sk < (curveOrder : ℤ)) (m pk sig cand : Bytes) (hpk : skToPk (.int sk) = .ok pk)
    (hsig : sign H s (.int sk) m = .ok sig) (hne : cand ≠ sig) :
    verify H s pk m cand = .returned false :=
  verify_rejects_ne mb.toPairingFacts H s sk hsk m pk sig cand hpk hsig hne

/-- every string other than `PopProve(sk)` makes `PopVerify` return `False`, assuming only `ModelBilinear` -/
theorem popVerify_rejects_ne_of_modelBilinear (mb : ModelBilinear) (H : HashFn) (sk : ℤ)
    (hsk : 1 ≤ sk ∧ sk < (curveOrder : ℤ)) (pk proof cand : Bytes) (hpk : skToPk (.int sk) = .ok pk)
    (hproof : popProve H (.int sk) = .ok proof) (hne : cand ≠ proof) :
    popVerify H pk cand = .returned false :=
  popVerify_rejects_ne mb.toPairingFacts H sk hsk pk proof cand hpk hproof hne

/-- **`−S` is rejected** (hash point not the identity), assuming only `ModelBilinear`. -/
theorem verify_rejects_neg_of_modelBilinear (mb : ModelBilinear) (H : HashFn) (s : Suite) (sk : ℤ)
    (hsk : 1 ≤ sk ∧ sk < (curveOrder : ℤ)) (m pk cand : Bytes) (hpk : skToPk (.int sk) = .ok pk)
    (mp : G2Pt) (hmp : hashToG2 H (vmsg s pk m) s.dst = .ok mp) (hinf : OptBls.is_inf mp = false)
    (hc : g2ToSignature (OptBls.neg (OptBls.multiply mp sk.toNat)) = .ok cand) :
    verify H s pk m cand = .returned false :=
  verify_rejects_neg mb.toPairingFacts H s sk hsk m pk cand hpk mp hmp hinf hc

/-- **`2S` is rejected** (hash point not the identity), assuming only `ModelBilinear`. -/
theorem verify_rejects_double_of_modelBilinear (mb : ModelBilinear) (H : HashFn) (s : Suite) (sk : ℤ)
    (hsk : 1 ≤ sk ∧ sk < (curveOrder : ℤ)) (m pk cand : Bytes) (hpk : skToPk (.int sk) = .ok pk)
    (mp : G2Pt) (hmp : hashToG2 H (vmsg s pk m) s.dst = .ok mp) (hinf : OptBls.is_inf mp = false)
    (hc : g2ToSignature (OptBls.double (OptBls.multiply mp sk.toNat)) = .ok cand) :
    verify H s pk m cand = .returned false :=
  verify_rejects_double mb.toPairingFacts H s sk hsk m pk cand hpk mp hmp hinf hc

/-- **`S + T` is rejected for every point `T ≠ ∞` of the twist curve**, assuming only `ModelBilinear`. -/
theorem verify_rejects_add_of_modelBilinear (mb : ModelBilinear) (H : HashFn) (s : Suite) (sk : ℤ)
    (hsk : 1 ≤ sk ∧ sk < (curveOrder : ℤ)) (m pk cand : Bytes) (hpk : skToPk (.int sk) = .ok pk)
    (mp : G2Pt) (hmp : hashToG2 H (vmsg s pk m) s.dst = .ok mp) (T : G2Pt) (cT : CanonT T)
    (honT : OptBls.is_on_curve T blsB2 = true) (hT : OptBls.is_inf T = false)
    (hc : g2ToSignature (OptBls.add (OptBls.multiply mp sk.toNat) T) = .ok cand) :
    verify H s pk m cand = .returned false :=
  verify_rejects_add mb.toPairingFacts H s sk hsk m pk cand hpk mp hmp T cT honT hT hc

/-- **The identity encoding** is accepted iff the hash point is the identity, assuming only `ModelBilinear`. -/
theorem verify_identity_iff_of_modelBilinear (mb : ModelBilinear) (H : HashFn) (s : Suite) (sk : ℤ)
    (hsk : 1 ≤ sk ∧ sk < (curveOrder : ℤ)) (m pk cand : Bytes) (hpk : skToPk (.int sk) = .ok pk)
    (mp : G2Pt) (hmp : hashToG2 H (vmsg s pk m) s.dst = .ok mp) (hc : g2ToSignature Z2 = .ok cand) :
    verify H s pk m cand = .returned true ↔ OptBls.is_inf mp = true :=
  verify_identity_iff mb.toPairingFacts H s sk hsk m pk cand hpk mp hmp hc

/-- **Other key** (basic and POP suites): accepted iff `sk = sk'` (hash point not the identity), assuming only
    `ModelBilinear`. -/
theorem verify_other_key_iff_of_modelBilinear (mb : ModelBilinear) (H : HashFn) (s : Suite)
    (hs : s ≠ .aug) (sk sk' : ℤ) (hsk : 1 ≤ sk ∧ sk < (curveOrder : ℤ))
    (hsk' : 1 ≤ sk' ∧ sk' < (curveOrder : ℤ)) (m pk pk' sig : Bytes)
    (hpk : skToPk (.int sk) = .ok pk) (hpk' : skToPk (.int sk') = .ok pk')
    (mp : G2Pt) (hmp : hashToG2 H m s.dst = .ok mp) (hinf : OptBls.is_inf mp = false)
    (hsig : sign H s (.int sk) m = .ok sig) :
    verify H s pk' m sig = .returned true ↔ sk = sk' :=
  verify_other_key_iff mb.toPairingFacts H s hs sk sk' hsk hsk' m pk pk' sig hpk hpk' mp hmp hinf hsig

/-- `verify_iff` assuming only the code-level bilinearity statement `ModelBilinearCode`. -/
theorem verify_iff_of_modelBilinearCode (mc : ModelBilinearCode) (H : HashFn) (s : Suite) (sk : ℤ)
    (hsk : 1 ≤ sk ∧ sk < (curveOrder : ℤ)) (m pk cand : Bytes) (hpk : skToPk (.int sk) = .ok pk) :
    verify H s pk m cand = .returned true ↔ sign H s (.int sk) m = .ok cand :=
  verify_iff_of_modelBilinear mc.toModelBilinear H s sk hsk m pk cand hpk

/-- `popVerify_iff` assuming only `ModelBilinearCode`. -/
theorem popVerify_iff_of_modelBilinearCode (mc : ModelBilinearCode) (H : HashFn) (sk : ℤ)
    (hsk : 1 ≤ sk ∧ sk < (curveOrder : ℤ)) (pk cand : Bytes) (hpk : skToPk (.int sk) = .ok pk) :
    popVerify H pk cand = .returned true ↔ popProve H (.int sk) = .ok cand :=
  popVerify_iff_of_modelBilinear mc.toModelBilinear H sk hsk pk cand hpk

end

/-- non-vacuity of the key hypotheses and of the identity candidate of `verify_identity_iff_of_modelBilinear` -/
example : (1 ≤ (1 : ℤ) ∧ (1 : ℤ) < (curveOrder : ℤ)) ∧ skToPk (.int 1) = .ok C09.compressedG1 ∧
    ∃ cand, g2ToSignature Z2 = .ok cand :=
  ⟨by decide, C09.skToPk_one, by
    obtain ⟨bs, h, _⟩ := C11.signatureToG2_g2ToSignature_roundtrip Z2 (by decide) (by decide)
    exact ⟨bs, h⟩⟩

end PyEcc.C02

namespace PyEcc.C03
open PyEcc PyEcc.Gen PyEcc.Gen.Consts PyEcc.Transfer PyEcc.BlsSem PyEcc.BlsProto PyEcc.NdSem

section
variable [DecidableEq K2]

/-- **`AggregateVerify` accepts exactly `Aggregate` of the honest signatures** (C03, all suites), assuming ONLY
    `ModelBilinear`: for secret keys `1 ≤ skᵢ < r` with `pkᵢ = SkToPk(skᵢ)`,
    `AggregateVerify(pks, msgs, sig) = True` iff there is at least one key, as many messages as keys, the
    messages are distinct (basic suite), and `sig = Aggregate([Sign(skᵢ, msgᵢ)])`. -/
theorem aggregateVerify_iff_aggregate_sign_of_modelBilinear (mb : ModelBilinear) (H : HashFn) (s : Suite)
    (sks : List ℤ) (hsks : ∀ sk ∈ sks, 1 ≤ sk ∧ sk < (curveOrder : ℤ)) (pks msgs : List Bytes)
    (sig : Bytes) (hpks : List.Forall₂ (fun sk pk => skToPk (.int sk) = .ok pk) sks pks) :
    aggregateVerify H s pks msgs sig = .returned true ↔
      1 ≤ pks.length ∧ pks.length = msgs.length ∧ (s = .basic → msgs.Nodup) ∧
        ∃ sigs, List.Forall₂ (fun (x : ℤ × Bytes) sg => sign H s (.int x.1) x.2 = .ok sg)
          (sks.zip msgs) sigs ∧ aggregate sigs = .ok sig :=
  aggregateVerify_iff_aggregate_sign mb.toPairingFacts H s sks hsks pks msgs sig hpks

/-- **`FastAggregateVerify` accepts exactly `Aggregate` of the honest signatures of the shared message**
    (C03), provided the aggregate key is not the identity (`r ∤ Σ skᵢ`); assuming only `ModelBilinear`. -/
theorem fastAggregateVerify_iff_aggregate_sign_of_modelBilinear (mb : ModelBilinear) (H : HashFn)
    (sks : List ℤ) (hsks : ∀ sk ∈ sks, 1 ≤ sk ∧ sk < (curveOrder : ℤ)) (pks : List Bytes)
    (msg sig : Bytes) (hpks : List.Forall₂ (fun sk pk => skToPk (.int sk) = .ok pk) sks pks) :
    fastAggregateVerify H pks msg sig = .returned true ↔
      1 ≤ pks.length ∧ ¬ (blsR ∣ (sks.map Int.toNat).sum) ∧
        ∃ sigs, List.Forall₂ (fun sk sg => sign H .pop (.int sk) msg = .ok sg) sks sigs ∧
          aggregate sigs = .ok sig :=
  fastAggregateVerify_iff_aggregate_sign mb.toPairingFacts H sks hsks pks msg sig hpks

/-- **Order independence of `AggregateVerify`** (all suites), assuming only `ModelBilinear`. -/
theorem aggregateVerify_perm_of_modelBilinear (mb : ModelBilinear) (H : HashFn) (s : Suite)
    (l l' : List (ℤ × Bytes)) (hp : l.Perm l') (hsks : ∀ x ∈ l, 1 ≤ x.1 ∧ x.1 < (curveOrder : ℤ))
    (pks pks' : List Bytes) (sig : Bytes)
    (hpks : List.Forall₂ (fun (x : ℤ × Bytes) pk => skToPk (.int x.1) = .ok pk) l pks)
    (hpks' : List.Forall₂ (fun (x : ℤ × Bytes) pk => skToPk (.int x.1) = .ok pk) l' pks') :
    aggregateVerify H s pks (l.map (·.2)) sig = .returned true ↔
      aggregateVerify H s pks' (l'.map (·.2)) sig = .returned true :=
  aggregateVerify_perm mb.toPairingFacts H s l l' hp hsks pks pks' sig hpks hpks'

/-- `aggregateVerify_iff_aggregate_sign` assuming only the code-level statement `ModelBilinearCode`. -/
theorem aggregateVerify_iff_aggregate_sign_of_modelBilinearCode (mc : ModelBilinearCode) (H : HashFn)
    (s : Suite) (sks : List ℤ) (hsks : ∀ sk ∈ sks, 1 ≤ sk ∧ sk < (curveOrder : ℤ))
    (pks msgs : List Bytes) (sig : Bytes)
    (hpks : List.Forall₂ (fun sk pk => skToPk (.int sk) = .ok pk) sks pks) :
    aggregateVerify H s pks msgs sig = .returned true ↔
      1 ≤ pks.length ∧ pks.length = msgs.length ∧ (s = .basic → msgs.Nodup) ∧
        ∃ sigs, List.Forall₂ (fun (x : ℤ × Bytes) sg => sign H s (.int x.1) x.2 = .ok sg)
          (sks.zip msgs) sigs ∧ aggregate sigs = .ok sig :=
  aggregateVerify_iff_aggregate_sign_of_modelBilinear mc.toModelBilinear H s sks hsks pks msgs sig hpks

/-- `fastAggregateVerify_iff_aggregate_sign` assuming only `ModelBilinearCode`. -/
theorem fastAggregateVerify_iff_aggregate_sign_of_modelBilinearCode (mc : ModelBilinearCode) (H : HashFn)
    (sks : List ℤ) (hsks : ∀ sk ∈ sks, 1 ≤ sk ∧ sk < (curveOrder : ℤ)) (pks : List Bytes)
    (msg sig : Bytes) (hpks : List.Forall₂ (fun sk pk => skToPk (.int sk) = .ok pk) sks pks) :
    fastAggregateVerify H pks msg sig = .returned true ↔
      1 ≤ pks.length ∧ ¬ (blsR ∣ (sks.map Int.toNat).sum) ∧
        ∃ sigs, List.Forall₂ (fun sk sg => sign H .pop (.int sk) msg = .ok sg) sks sigs ∧
          aggregate sigs = .ok sig :=
  fastAggregateVerify_iff_aggregate_sign_of_modelBilinear mc.toModelBilinear H sks hsks pks msg sig hpks

end

/-- non-vacuity of the key hypotheses: the one-element key list `[1]` with `SkToPk(1)` = compressed generator -/
example : (∀ sk ∈ [(1 : ℤ)], 1 ≤ sk ∧ sk < (curveOrder : ℤ)) ∧
    List.Forall₂ (fun sk pk => skToPk (.int sk) = .ok pk) [(1 : ℤ)] [C09.compressedG1] :=
  ⟨by intro sk h; rw [List.mem_singleton] at h; subst h; decide, .cons C09.skToPk_one .nil⟩

end PyEcc.C03
