/-
  PyEcc.Props.C16 — `hkdf_extract`, `hkdf_expand` of py_ecc are RFC 5869 (over RFC 2104 HMAC), and
  `KeyGen` is the KeyGen of draft-irtf-cfrg-bls-signature-04 §2.3.  (Core Lean only.)

  Determinism needs no theorem: every modelled function is a pure Lean function of its arguments
  (and of the hash function `H`), so equal inputs give equal outputs by `congrArg`.
-/
import PyEcc.Lemmas.Hkdf

namespace PyEcc.C16
open PyEcc.C15

/-! ### HMAC, HKDF-Extract -/

/-- **C16 (HMAC = RFC 2104).**  `hmac.new(key, msg, H).digest()` as modelled is
    `H((K ⊕ opad) ‖ H((K ⊕ ipad) ‖ msg))` with `K` the key hashed if longer than a block and then
    zero-padded to the block size `B`, `ipad = 0x36^B`, `opad = 0x5c^B` — for every hash function and
    every key for which the RFC's `K` has exactly `B` bytes (`HmacKeyOk`: the key, or else its digest,
    is at most one block long; automatic when `digest_size ≤ block_size`).  Without that hypothesis
    the RFC's "B byte string" does not exist; CPython (and the model) then XOR the whole, longer, key. -/
theorem hmac_eq_spec (H : HashFn) (key msg : Bytes) (h : HmacKeyOk H key) :
    hmac H key msg = Spec.hmac H key msg :=
  hmac_eq_spec_aux H key msg h

/-- the hypothesis holds for every key when the hash function is well-formed, e.g. for SHA-256 -/
example (key : Bytes) : HmacKeyOk sha256Fn key := hmacKeyOk_of_WF sha256Fn_WF key

/-- **C16 (HKDF-Extract = RFC 5869 §2.2).**  `hkdf_extract(salt, ikm) = HMAC-Hash(salt, IKM)`
    (salt is the key). -/
theorem hkdfExtract_eq_spec (H : HashFn) (salt ikm : Bytes) (h : HmacKeyOk H salt) :
    hkdfExtract H salt ikm = Spec.hkdfExtract H salt ikm :=
  hmac_eq_spec_aux H salt ikm h

/-- **C16 (empty salt ≡ zero salt).**  Under HMAC key padding the empty key and a key of `k ≤ B`
    zero bytes are the same key: `hmac.new(b"", m, H) = hmac.new(b"\x00"*k, m, H)`. -/
theorem hmac_empty_key (H : HashFn) (k : Nat) (hk : k ≤ H.blockSize) (m : Bytes) :
    hmac H [] m = hmac H (List.replicate k 0) m := by
  have h0 : ¬ 0 > H.blockSize := Nat.not_lt_zero _
  have h2 : ¬ k > H.blockSize := Nat.not_lt.mpr hk
  simp only [hmac, List.length_nil, List.length_replicate, if_neg h0, if_neg h2, List.nil_append,
    Nat.sub_zero, List.replicate_append_replicate, Nat.add_sub_of_le hk]

/-- **C16 (RFC 5869 §2.2 default salt).**  "salt: if not provided, it is set to a string of HashLen
    zeros": `hkdf_extract(b"", ikm) = hkdf_extract(b"\x00" * HashLen, ikm)`. -/
theorem hkdfExtract_empty_salt (H : HashFn) (hle : H.digestSize ≤ H.blockSize) (ikm : Bytes) :
    hkdfExtract H [] ikm = hkdfExtract H (List.replicate H.digestSize 0) ikm :=
  hmac_empty_key H H.digestSize hle ikm

example : sha256Fn.digestSize ≤ sha256Fn.blockSize := by decide

/-! ### HKDF-Expand -/

/-- **C16 (HKDF-Expand = RFC 5869 §2.3, for HashLen = 32).**  The implementation hard-codes
    `n = ceil(length / 32)`, so the statement is for hash functions with `digest_size = 32`
    (SHA-256 is what the implementation uses): for every `prk` (with RFC-2104-representable key),
    `info` and `length`, `hkdf_expand(prk, info, length)` returns the first `length` bytes of
    `T(1) ‖ … ‖ T(N)` if `length ≤ 255·32 = 8160`, and raises `ValueError` (`bytes([256])`)
    otherwise — exactly the RFC's domain `L ≤ 255·HashLen`. -/
theorem hkdfExpand_eq_spec (H : HashFn) (h32 : H.digestSize = 32) (prk info : Bytes)
    (hk : HmacKeyOk H prk) (L : Nat) :
    hkdfExpand H prk info L =
      match Spec.hkdfExpand H prk info L with
      | some okm => .ok okm
      | none => .error .value := by
  rw [hkdfExpand_eq_aux H prk info hk h32]
  unfold Spec.hkdfExpand
  rw [h32]
  split <;> rfl

/-- **C16 (HKDF-Expand, explicit form).**  Same statement with the domain condition spelled out. -/
theorem hkdfExpand_eq (H : HashFn) (h32 : H.digestSize = 32) (prk info : Bytes)
    (hk : HmacKeyOk H prk) (L : Nat) :
    hkdfExpand H prk info L =
      if L ≤ 255 * 32 then .ok (Spec.hkdfOkm H prk info L) else .error .value :=
  hkdfExpand_eq_aux H prk info hk h32 L

example : sha256Fn.digestSize = 32 := rfl

/-- **C16 (HKDF-Expand raises iff `length > 8160`)** — for *any* hash function and key, no
    hypotheses: the only failure is `bytes([256])` in the 256th iteration, a `ValueError`. -/
theorem hkdfExpand_error_iff (H : HashFn) (prk info : Bytes) (L : Nat) :
    (∃ e, hkdfExpand H prk info L = .error e) ↔ L > 255 * 32 := by
  have hc := spec_ceilDiv_le_iff L 255 (b := 32) (by decide)
  unfold hkdfExpand
  rw [ceilDiv_eq_spec L (by decide : 0 < 32)]
  dsimp only
  constructor
  · rintro ⟨e, he⟩
    apply Classical.byContradiction
    intro hn
    -- no iteration reaches 256: the loop cannot fail
    have : ∀ k i prev okm, i + k ≤ 255 → ∃ r, hkdfExpandLoop H prk info k i prev okm = .ok r := by
      intro k
      induction k with
      | zero => intro i prev okm _; exact ⟨okm, rfl⟩
      | succ k ih =>
        intro i prev okm hi
        unfold hkdfExpandLoop
        rw [if_neg (by omega)]
        exact ih (i + 1) _ _ (by omega)
    obtain ⟨r, hr⟩ := this (Spec.ceilDiv L 32) 0 [] [] (by omega)
    rw [hr] at he
    cases he
  · intro h
    refine ⟨.value, ?_⟩
    rw [hkdfExpandLoop_error H prk info (Spec.ceilDiv L 32) 0 (by omega) (by omega)]
    rfl

/-- **C16 (output length).**  For a well-formed hash function with 32-byte digests, a successful
    `hkdf_expand(prk, info, length)` returns exactly `length` bytes. -/
theorem hkdfExpand_length (H : HashFn) (hw : H.WF) (h32 : H.digestSize = 32) (prk info : Bytes)
    (L : Nat) (okm : Bytes) (h : hkdfExpand H prk info L = .ok okm) : okm.length = L := by
  rw [hkdfExpand_eq_aux H prk info (hmacKeyOk_of_WF hw prk) h32] at h
  split at h
  · injection h with h
    subst h
    exact hkdfOkm_length H hw prk info L
  · cases h

example : sha256Fn.WF ∧ sha256Fn.digestSize = 32 := ⟨sha256Fn_WF, rfl⟩

/-! ### KeyGen -/

/-- **C16 (generated constant).**  The `l` computed by `ceil((1.5 * ceil(log2(curve_order))) / 8)`
    is 48, which is the draft's `L = ceil((3 * ceil(log2(r))) / 16)` for `ceil(log2 r) = 255`. -/
theorem keygen_L : Gen.Consts.suites_keygen_L = 48 ∧ Spec.keyGenL = 48 ∧
    2 ^ 254 < curveOrder ∧ curveOrder < 2 ^ 255 := by
  decide

/-- The fuel-limited specification finds `sk` iff `sk` is the first non-zero candidate and it occurs
    within the first `fuel` passes (links `Spec.keyGen` to the relation `Spec.IsKeyGen`). -/
theorem spec_keyGen_some_iff (H : HashFn) (r : Nat) (ikm info : Bytes) (fuel sk : Nat) :
    Spec.keyGen H r ikm info fuel = some sk ↔
      ∃ n, n < fuel ∧ Spec.keyGenCandidate H r ikm info n = sk ∧ sk ≠ 0 ∧
        ∀ m, m < n → Spec.keyGenCandidate H r ikm info m = 0 := by
  unfold Spec.keyGen
  rw [spec_keyGenFrom_some_iff]
  simp only [Nat.zero_add]

/-- **C16 (KeyGen loop = draft v4 KeyGen, fuel explicit).**  For every amount of fuel, the model's
    unrolled `while SK == 0` loop started from the salt `"BLS-SIG-KEYGEN-SALT-"` computes the
    specification's KeyGen limited to the same number of passes (salt re-hashed before each attempt,
    `PRK = HKDF-Extract(salt, IKM ‖ 0x00)`, `OKM = HKDF-Expand(PRK, key_info ‖ I2OSP(48, 2), 48)`,
    `SK = OS2IP(OKM) mod r`); running out of fuel is the model's `.error .other` (the Python loop
    would simply continue). -/
theorem keyGenLoop_eq_spec (H : HashFn) (hw : H.WF) (h32 : H.digestSize = 32) (ikm info : Bytes)
    (fuel : Nat) :
    keyGenLoop H ikm info fuel Spec.keyGenSalt =
      match Spec.keyGen H curveOrder ikm info fuel with
      | some sk => .ok sk
      | none => .error .other :=
  keyGenLoop_eq_spec_aux H hw h32 ikm info fuel 0

/-- **C16 (KeyGen = draft v4 KeyGen).**  The model's `KeyGen(IKM, key_info)` (fuel 64) is the
    specification limited to 64 passes. -/
theorem keyGen_eq_spec (H : HashFn) (hw : H.WF) (h32 : H.digestSize = 32) (ikm info : Bytes) :
    keyGen H ikm info =
      match Spec.keyGen H curveOrder ikm info 64 with
      | some sk => .ok sk
      | none => .error .other := by
  unfold keyGen
  rw [keyGenSalt_eq]
  exact keyGenLoop_eq_spec H hw h32 ikm info 64

/-- **C16 (KeyGen soundness, every fuel).**  For every amount of fuel: if the model's unrolled loop
    returns `sk`, then `sk` is the result of the draft's KeyGen — the first non-zero candidate
    `OS2IP(OKM) mod r` in the sequence of attempts (found at an attempt `n < fuel`). -/
theorem keyGenLoop_sound (H : HashFn) (hw : H.WF) (h32 : H.digestSize = 32) (ikm info : Bytes)
    (fuel sk : Nat) (h : keyGenLoop H ikm info fuel Spec.keyGenSalt = .ok sk) :
    Spec.IsKeyGen H curveOrder ikm info sk := by
  rw [keyGenLoop_eq_spec H hw h32] at h
  cases hs : Spec.keyGen H curveOrder ikm info fuel with
  | none => rw [hs] at h; cases h
  | some sk' =>
    rw [hs] at h
    injection h with h
    subst h
    obtain ⟨n, _, hc, hne, hz⟩ := (spec_keyGen_some_iff H curveOrder ikm info fuel sk').mp hs
    exact ⟨n, hc, hne, hz⟩

/-- **C16 (KeyGen soundness).**  If the model's `KeyGen(IKM, key_info)` returns `sk`, then `sk` is
    the result of the draft's KeyGen. -/
theorem keyGen_sound (H : HashFn) (hw : H.WF) (h32 : H.digestSize = 32) (ikm info : Bytes) (sk : Nat)
    (h : keyGen H ikm info = .ok sk) : Spec.IsKeyGen H curveOrder ikm info sk := by
  unfold keyGen at h
  rw [keyGenSalt_eq] at h
  exact keyGenLoop_sound H hw h32 ikm info 64 sk h

/- non-vacuity: a (toy) well-formed 32-byte hash function for which `KeyGen` returns a key; for
    SHA-256 the hypotheses `sha256Fn.WF`, `digestSize = 32` are shown above (evaluating SHA-256 in
    the kernel is avoided on purpose) -/
set_option maxRecDepth 100000 in
example : ∃ H : HashFn, H.WF ∧ H.digestSize = 32 ∧ ∃ sk, keyGen H [] [] = .ok sk :=
  ⟨{ digestSize := 32, blockSize := 64, run := fun _ => List.replicate 32 1 },
   ⟨fun _ => rfl, by decide, by decide⟩, rfl, _, rfl⟩

/-- **C16 (KeyGen completeness up to the fuel).**  If the draft's KeyGen terminates within 64
    attempts with result `sk`, the model returns `sk`; the model's artificial failure
    (`.error .other`) occurs only when the first 64 candidates are all zero — for SHA-256 an event
    of probability about `2^(-255·64)`, in which the Python code would keep looping. -/
theorem keyGen_complete (H : HashFn) (hw : H.WF) (h32 : H.digestSize = 32) (ikm info : Bytes) :
    (∀ sk n, n < 64 → Spec.keyGenCandidate H curveOrder ikm info n = sk → sk ≠ 0 →
        (∀ m, m < n → Spec.keyGenCandidate H curveOrder ikm info m = 0) →
        keyGen H ikm info = .ok sk) ∧
    (∀ e, keyGen H ikm info = .error e →
        e = .other ∧ ∀ n, n < 64 → Spec.keyGenCandidate H curveOrder ikm info n = 0) := by
  rw [keyGen_eq_spec H hw h32]
  constructor
  · intro sk n hn hc hne hz
    rw [(spec_keyGen_some_iff H curveOrder ikm info 64 sk).mpr ⟨n, hn, hc, hne, hz⟩]
  · intro e he
    cases hs : Spec.keyGen H curveOrder ikm info 64 with
    | some sk => rw [hs] at he; cases he
    | none =>
      rw [hs] at he
      injection he with he
      refine ⟨he.symm, ?_⟩
      -- strong induction: if some candidate below 64 were non-zero, the first such would be found
      intro n
      induction n using Nat.strongRecOn with
      | _ n ih =>
        intro hn
        apply Classical.byContradiction
        intro hne
        have := (spec_keyGen_some_iff H curveOrder ikm info 64 _).mpr
          ⟨n, hn, rfl, hne, fun m hm => ih m hm (by omega)⟩
        rw [hs] at this
        cases this

/-- **C16 (range).**  Whatever the hash function, a secret key returned by `KeyGen` satisfies
    `1 ≤ SK < r` (it is a valid private key). -/
theorem keyGen_range (H : HashFn) (ikm info : Bytes) (sk : Nat) (h : keyGen H ikm info = .ok sk) :
    1 ≤ sk ∧ sk < curveOrder :=
  keyGenLoop_range H ikm info sk 64 _ h

end PyEcc.C16
