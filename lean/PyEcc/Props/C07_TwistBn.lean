/-
  PyEcc.Props.C07_TwistBn — property C07, stage 2, bn128 (alt_bn128): **`twist` is an injective group
  homomorphism from the curve `E'(Fp²) : y² = x³ + 3/(9+i)` into the curve `E(Fp¹²) : y² = x³ + 3`**, for the
  executable model of both modules:

    * `twistOptBn` (`py_ecc/optimized_bn128/optimized_pairing.py::twist`, projective:
      `(x : y : z) ↦ (ψ(x)·w² : ψ(y)·w³ : ψ(z))`), and
    * `twistRefBn` (`py_ecc/bn128/bn128_pairing.py::twist`, affine: `(x, y) ↦ (ψ(x)·w², ψ(y)·w³)`).

  Same structure as `Props/C07_Twist.lean` (BLS12-381): (a) the ring embedding `ψ : Fp² → Fp¹²`,
  `a₀ + a₁·i ↦ (a₀ − 9a₁) + a₁·w⁶`; (b) images of curve points are curve points; (c) `twist` commutes with
  `add`, `double`, `neg`, `multiply`, `∞`, and is the Mathlib-level homomorphism `bnTwist`; (d) injectivity.
  Inputs are canonical, on-curve where the group law is involved; optimized statements hold for every
  projective representative and are up to the library's `eq`.  Supporting material:
  `Lemmas/TwistField.lean`, `Lemmas/TwistPoint.lean`, `Lemmas/TwistBn.lean`.  That `G12 = twist(G2)` for the
  module constants is `C07.Consts.bn_G12`.
-/
import PyEcc.Lemmas.TwistBn
import PyEcc.Props.C07_FactsG2

set_option linter.unusedSectionVars false
set_option maxRecDepth 100000

namespace PyEcc.C07T.Bn
open PyEcc PyEcc.Gen PyEcc.Gen.Consts PyEcc.Fqp PyEcc.FqpSem PyEcc.Transfer PyEcc.TwistSem
  PyEcc.CurveSem WeierstrassCurve

/-! ## (a) the field embedding `ψ` -/

/-- **ψ is a ring homomorphism with `ψ(a₀ + a₁·i) = (a₀ − 9a₁) + a₁·w⁶`, and it is injective.**  It exists
    because `(w⁶ − 9)² = −1` in `FQ12 = Fp[w]/(w¹² − 18w⁶ + 82)`. -/
theorem psi_bn :
    (wQ bnP bnMc12 ^ 6 - 9) ^ 2 = -1 ∧
    (∀ a₀ a₁ : ZMod bnP, psiBn (AdjoinRoot.of _ a₀ + AdjoinRoot.of _ a₁ * AdjoinRoot.root _)
        = AdjoinRoot.of _ (a₀ - 9 * a₁) + AdjoinRoot.of _ a₁ * wQ bnP bnMc12 ^ 6) ∧
    Function.Injective psiBn := ⟨bn_w6_sq, psiBn_apply, psiBn_injective⟩

/-- **The coefficient shuffling of `twist` implements ψ** (either class `v`): for every well-formed `FQ2`
    element `x`, `FQ12([c0 − 9·c1, 0,0,0,0,0, c1, 0,…])` has the value `ψ(x)` and is canonical. -/
theorem embed12_bn {v : Variant} {x : Fqp v bnP bnMc2} (hx : WF x) :
    toQ (embed12 9 0 6 x : F12bn v) = psiBn (toQ x) ∧ Canon (embed12 9 0 6 x : F12bn v) :=
  ⟨toQ_embed_bn hx, canon_embed_bn _ _ _ _⟩

example : WF (bnG2.1) := by decide

/-- **`b2` is mapped to `b12`**: `ψ(b2)·w⁶ = b12` in `K12bn` (`b2 = 3/(9+i)`, `ψ(9+i) = w⁶`), either class. -/
theorem twist_b_bn (v : Variant) : psiBn (toQ (bnB2v v)) * wQ bnP bnMc12 ^ 6 = toQ (bnB12 v) :=
  bn_b_twist v

/-! ## the Mathlib-level statement -/

section mathlib
variable [DecidableEq K2bn] [DecidableEq K12bn]

/-- **The twist of Mathlib points `(x, y) ↦ (ψ(x)·w², ψ(y)·w³)`, `0 ↦ 0`, is an injective homomorphism**
    `E'(K2bn) : y² = x³ + b2 → E(K12bn) : y² = x³ + b12` of Mathlib's point groups (`bnTwist v` is an
    `AddMonoidHom`, so `bnTwist (P + Q) = bnTwist P + bnTwist Q`, `bnTwist (-P) = -bnTwist P`,
    `bnTwist (n • P) = n • bnTwist P` are Mathlib's `map_add`, `map_neg`, `map_nsmul`). -/
theorem bnTwist_spec (v : Variant) :
    Function.Injective (bnTwist v) ∧
    (∀ P, reprRef (bnTwist v P)
      = (reprRef P).map fun q => (psiBn q.1 * (wQ bnP bnMc12) ^ 2,
          psiBn q.2 * (wQ bnP bnMc12) ^ 3)) :=
  ⟨bnTwist_injective v, fun P => reprRef_bnTwist v P⟩

/-- **Optimized `twist` refines the Mathlib twist**: if the value of a canonical triple `T` represents the
    point `P` of `E'(K2bn)` (any projective representative; `z = 0` for `P = 0`), then `twist(T)` is canonical
    and its value represents `bnTwistOpt P` on `E(K12bn)`. -/
theorem twist_opt_refines {T : BnG2Pt} {P : CurvePt (toQ bnB2 : K2bn)} (c : CanonT T)
    (r : Represents (mapT toQ T) P) :
    CanonT (twistOptBn (mc12 := bnMc12) T)
      ∧ Represents (mapT (toQ : F12bn .opt → K12bn) (twistOptBn T)) (bnTwistOpt P) :=
  ⟨canonT_twistOptBn T, represents_twistOptBn c r⟩

/-- **Reference `twist` refines the Mathlib twist**: if the value of a canonical point `p` is the
    representation of `P` then `twist(p)` is canonical and its value is the representation of
    `bnTwist .ref P`. -/
theorem twist_ref_refines {p : Option (Fqp .ref bnP bnMc2 × Fqp .ref bnP bnMc2)}
    {P : CurvePt (toQ (bnB2v .ref) : K2bn)} (c : CanonO p) (r : reprRef P = mapO toQ p) :
    CanonO (twistRefBn (mc12 := bnMc12) p)
      ∧ reprRef (bnTwist .ref P) = mapO (toQ : F12bn .ref → K12bn) (twistRefBn p) :=
  ⟨canonO_twistRefBn, repr_twistRefBn c r⟩

end mathlib

/-! ## optimized module: `twistOptBn` on canonical `FQ2` triples -/

section opt
variable {S T T₁ T₂ : BnG2Pt}

private theorem k2 : (2 : K12bn) ≠ 0 := (k12bn_field_ok .opt).1
private theorem k3 : (3 : K12bn) ≠ 0 := (k12bn_field_ok .opt).2.1
private theorem cb : Canon (bnB12 .opt) := (k12bn_field_ok .opt).2.2.1
private theorem kb : (toQ (bnB12 .opt) : K12bn) ≠ 0 := (k12bn_field_ok .opt).2.2.2

/-- the output of the optimized `twist` is always canonical -/
theorem twist_opt_canon (T : BnG2Pt) : CanonT (twistOptBn (mc12 := bnMc12) T) := canonT_twistOptBn T

/-- **(b) optimized `twist` maps curve points to curve points**: if the canonical triple `T` passes
    `is_on_curve(T, b2)` then `twist(T)` passes `is_on_curve(·, b12)`. -/
theorem twist_opt_on_curve (c : CanonT T) (h : OptBn.is_on_curve T bnB2 = true) :
    OptBn.is_on_curve (twistOptBn T) (bnB12 .opt) = true := by
  classical
  obtain ⟨P, r⟩ := (on_curve_iff_F2bn c).mp h
  exact Transfer.Bn.via_on_curve_of_represents (K := K12bn) goodHom_F12bn cb (canonT_twistOptBn T)
    (represents_twistOptBn c r)

/-- **(c) optimized `twist` commutes with `add`**: `twist(add(T₁, T₂))` and `add(twist(T₁), twist(T₂))`
    are `eq`, for canonical on-curve triples (every configuration: ∞, doubling, inverse points). -/
theorem twist_opt_add (c₁ : CanonT T₁) (c₂ : CanonT T₂) (h₁ : OptBn.is_on_curve T₁ bnB2 = true)
    (h₂ : OptBn.is_on_curve T₂ bnB2 = true) :
    OptBn.eq (twistOptBn (mc12 := bnMc12) (OptBn.add T₁ T₂))
      (OptBn.add (twistOptBn T₁) (twistOptBn T₂)) = true := by
  classical
  obtain ⟨P, r₁⟩ := (on_curve_iff_F2bn c₁).mp h₁
  obtain ⟨Q, r₂⟩ := (on_curve_iff_F2bn c₂).mp h₂
  have ca := (canonT_ops_bn c₁ c₂ 0).1
  have ra := opt_add_refines_F2bn c₁ c₂ r₁ r₂
  have g := goodHom_F12bn (v := .opt)
  refine (Transfer.Bn.via_eq_refines (K := K12bn) g (canonT_twistOptBn _)
    (Transfer.Bn.good_add (B := K12bn) g (canonT_twistOptBn T₁) (canonT_twistOptBn T₂)).1
    (represents_twistOptBn ca ra)
    (Transfer.Bn.via_add_refines g k2 (canonT_twistOptBn T₁) (canonT_twistOptBn T₂)
      (represents_twistOptBn c₁ r₁) (represents_twistOptBn c₂ r₂))).mpr (map_add _ _ _)

/-- **(c) optimized `twist` commutes with `double`**, up to `eq`. -/
theorem twist_opt_double (c : CanonT T) (h : OptBn.is_on_curve T bnB2 = true) :
    OptBn.eq (twistOptBn (mc12 := bnMc12) (OptBn.double T)) (OptBn.double (twistOptBn T)) = true := by
  classical
  obtain ⟨P, r⟩ := (on_curve_iff_F2bn c).mp h
  have g := goodHom_F12bn (v := .opt)
  refine (Transfer.Bn.via_eq_refines (K := K12bn) g (canonT_twistOptBn _)
    (Transfer.Bn.good_double (B := K12bn) g (canonT_twistOptBn T)).1
    (represents_twistOptBn (canonT_ops_bn c c 0).2.1 (opt_double_refines_F2bn c r))
    (Transfer.Bn.via_double_refines g k2 (canonT_twistOptBn T)
      (represents_twistOptBn c r))).mpr (map_add _ _ _)

/-- **(c) optimized `twist` commutes with `neg`**, up to `eq`. -/
theorem twist_opt_neg (c : CanonT T) (h : OptBn.is_on_curve T bnB2 = true) :
    OptBn.eq (twistOptBn (mc12 := bnMc12) (OptBn.neg T)) (OptBn.neg (twistOptBn T)) = true := by
  classical
  obtain ⟨P, r⟩ := (on_curve_iff_F2bn c).mp h
  have g := goodHom_F12bn (v := .opt)
  refine (Transfer.Bn.via_eq_refines (K := K12bn) g (canonT_twistOptBn _)
    (Transfer.Bn.good_neg (B := K12bn) g (canonT_twistOptBn T)).1
    (represents_twistOptBn (canonT_ops_bn c c 0).2.2.1 (opt_neg_refines_F2bn c r))
    (Transfer.Bn.via_neg_refines g (canonT_twistOptBn T)
      (represents_twistOptBn c r))).mpr (map_neg _ _)

/-- **(c) optimized `twist` commutes with `multiply(·, n)`**, every `n`, up to `eq`. -/
theorem twist_opt_multiply (c : CanonT T) (h : OptBn.is_on_curve T bnB2 = true) (n : ℕ) :
    OptBn.eq (twistOptBn (mc12 := bnMc12) (OptBn.multiply T n))
      (OptBn.multiply (twistOptBn T) n) = true := by
  classical
  obtain ⟨P, r⟩ := (on_curve_iff_F2bn c).mp h
  have g := goodHom_F12bn (v := .opt)
  refine (Transfer.Bn.via_eq_refines (K := K12bn) g (canonT_twistOptBn _)
    (Transfer.Bn.good_multiply (B := K12bn) g (canonT_twistOptBn T) n).1
    (represents_twistOptBn (canonT_ops_bn c c n).2.2.2.1 (opt_multiply_refines_F2bn c r n))
    (Transfer.Bn.via_multiply_refines g k2 (canonT_twistOptBn T)
      (represents_twistOptBn c r) n)).mpr (map_nsmul _ _ _)

/-- **(c) optimized `twist` maps ∞ to ∞ and only ∞**: `is_inf(twist(T)) = is_inf(T)` for canonical `T`. -/
theorem twist_opt_is_inf (c : CanonT T) :
    OptBn.is_inf (twistOptBn (mc12 := bnMc12) T) = OptBn.is_inf T := by
  obtain ⟨x, y, z⟩ := T
  have g2 := goodHom_F2bn (v := .opt)
  have g := goodHom_F12bn (v := .opt)
  have e : (embed12 9 0 6 z : F12bn .opt) = 0 ↔ z = 0 := by
    rw [← g.eq_zero_iff (canon_embed_bn _ _ _ _), toQ_embed_bn c.2.2.wf, map_eq_zero,
      g2.eq_zero_iff c.2.2]
  simp only [OptBn.is_inf, twistOptBn, e]

/-- **(d) optimized `twist` is injective on canonical triples** (coordinate-wise). -/
theorem twist_opt_injective (cS : CanonT S) (cT : CanonT T)
    (e : twistOptBn (mc12 := bnMc12) S = twistOptBn T) : S = T := by
  have g2 := goodHom_F2bn (v := .opt)
  have h := congrArg (mapT (toQ : F12bn .opt → K12bn)) e
  rw [mapT_twistOptBn cS, mapT_twistOptBn cT] at h
  obtain ⟨x, y, z⟩ := S
  obtain ⟨x', y', z'⟩ := T
  simp only [Prod.mk.injEq] at h
  obtain ⟨h1, h2, h3⟩ := h
  have i1 : x = x' :=
    g2.inj cS.1 cT.1 (psiBn_injective (mul_right_cancel₀ (pow_ne_zero _ wQ_bn_ne_zero) h1))
  have i2 : y = y' :=
    g2.inj cS.2.1 cT.2.1 (psiBn_injective (mul_right_cancel₀ (pow_ne_zero _ wQ_bn_ne_zero) h2))
  have i3 : z = z' := g2.inj cS.2.2 cT.2.2 (psiBn_injective h3)
  rw [i1, i2, i3]

/-- **(d) optimized `twist` is injective on points**: for canonical on-curve triples, `twist(S)` and
    `twist(T)` are `eq` exactly when `S` and `T` are `eq` (any projective representatives). -/
theorem twist_opt_eq_iff (cS : CanonT S) (cT : CanonT T) (hS : OptBn.is_on_curve S bnB2 = true)
    (hT : OptBn.is_on_curve T bnB2 = true) :
    OptBn.eq (twistOptBn (mc12 := bnMc12) S) (twistOptBn T) = true ↔ OptBn.eq S T = true := by
  classical
  obtain ⟨P, r₁⟩ := (on_curve_iff_F2bn cS).mp hS
  obtain ⟨Q, r₂⟩ := (on_curve_iff_F2bn cT).mp hT
  rw [Transfer.Bn.via_eq_refines (K := K12bn) goodHom_F12bn (canonT_twistOptBn S) (canonT_twistOptBn T)
    (represents_twistOptBn cS r₁) (represents_twistOptBn cT r₂), opt_eq_refines_F2bn cS cT r₁ r₂]
  exact bnTwistOpt_injective.eq_iff

/-- non-vacuity: the generator `G2` of the optimized module is canonical and on the curve (and
    `twist(G2) = G12`, `C07.Consts.bn_G12`) -/
example : CanonT bnG2 ∧ OptBn.is_on_curve bnG2 bnB2 = true :=
  ⟨by decide +kernel, C07.Facts.bn_G2_opt.1⟩

end opt

/-! ## reference module: `twistRefBn` on canonical `FQ2` points -/

section ref
variable {p q : Option (Fqp .ref bnP bnMc2 × Fqp .ref bnP bnMc2)}

private theorem r2 : (2 : K12bn) ≠ 0 := (k12bn_field_ok .ref).1
private theorem r3 : (3 : K12bn) ≠ 0 := (k12bn_field_ok .ref).2.1
private theorem rcb : Canon (bnB12 .ref) := (k12bn_field_ok .ref).2.2.1
private theorem rkb : (toQ (bnB12 .ref) : K12bn) ≠ 0 := (k12bn_field_ok .ref).2.2.2
private theorem q2 : (2 : K2bn) ≠ 0 := k2bn_field_ok.1
private theorem q3 : (3 : K2bn) ≠ 0 := k2bn_field_ok.2.1

/-- the output of the reference `twist` is always canonical -/
theorem twist_ref_canon (p : Option (Fqp .ref bnP bnMc2 × Fqp .ref bnP bnMc2)) :
    CanonO (twistRefBn (mc12 := bnMc12) p) := canonO_twistRefBn

/-- **(b) reference `twist` maps curve points to curve points.** -/
theorem twist_ref_on_curve (c : CanonO p) (h : RefBn.is_on_curve p (bnB2v .ref) = true) :
    RefBn.is_on_curve (twistRefBn p) (bnB12 .ref) = true := by
  classical
  obtain ⟨P, r⟩ := (Transfer.BnRef.via_on_curve_iff (K := K2bn) goodHom_F2bn q2 q3 (k2bn_b_ok .ref).1
    (k2bn_b_ok .ref).2 c).mp h
  exact Transfer.BnRef.via_on_curve_of_repr (K := K12bn) goodHom_F12bn r2 r3 rcb rkb canonO_twistRefBn
    (repr_twistRefBn c r)

/-- **(c) reference `twist` commutes with `add`**: `add(twist(p), twist(q)) = twist(add(p, q))` (in the
    exception monad; neither side raises), for canonical on-curve points, every configuration. -/
theorem twist_ref_add (cp : CanonO p) (cq : CanonO q)
    (hp : RefBn.is_on_curve p (bnB2v .ref) = true) (hq : RefBn.is_on_curve q (bnB2v .ref) = true) :
    RefBn.add (twistRefBn (mc12 := bnMc12) p) (twistRefBn q)
      = (RefBn.add p q).map twistRefBn := by
  classical
  have g2 := goodHom_F2bn (v := .ref)
  have g := goodHom_F12bn (v := .ref)
  obtain ⟨P, rp⟩ := (Transfer.BnRef.via_on_curve_iff (K := K2bn) g2 q2 q3 (k2bn_b_ok .ref).1
    (k2bn_b_ok .ref).2 cp).mp hp
  obtain ⟨Q, rq⟩ := (Transfer.BnRef.via_on_curve_iff (K := K2bn) g2 q2 q3 (k2bn_b_ok .ref).1
    (k2bn_b_ok .ref).2 cq).mp hq
  obtain ⟨s, e1, g1, r1⟩ := Transfer.BnRef.via_add_refines g2 q2 cp cq rp rq
  obtain ⟨t, e2, gt, rt⟩ := Transfer.BnRef.via_add_refines g r2 canonO_twistRefBn
    canonO_twistRefBn (repr_twistRefBn cp rp) (repr_twistRefBn cq rq)
  rw [e1, e2]
  show Except.ok t = Except.ok (twistRefBn s)
  rw [Transfer.BnRef.via_repr_inj g gt canonO_twistRefBn rt
    (by rw [← map_add]; exact repr_twistRefBn g1 r1)]

/-- **(c) reference `twist` commutes with `double`.** -/
theorem twist_ref_double (cp : CanonO p) (hp : RefBn.is_on_curve p (bnB2v .ref) = true) :
    RefBn.double (twistRefBn (mc12 := bnMc12) p) = twistRefBn (RefBn.double p) := by
  classical
  have g2 := goodHom_F2bn (v := .ref)
  have g := goodHom_F12bn (v := .ref)
  obtain ⟨P, rp⟩ := (Transfer.BnRef.via_on_curve_iff (K := K2bn) g2 q2 q3 (k2bn_b_ok .ref).1
    (k2bn_b_ok .ref).2 cp).mp hp
  obtain ⟨g1, r1⟩ := Transfer.BnRef.via_double_refines g2 q2 cp rp
  obtain ⟨gt, rt⟩ := Transfer.BnRef.via_double_refines g r2 canonO_twistRefBn (repr_twistRefBn cp rp)
  exact Transfer.BnRef.via_repr_inj g gt canonO_twistRefBn rt
    (by rw [← map_add]; exact repr_twistRefBn g1 r1)

/-- **(c) reference `twist` commutes with `neg`.** -/
theorem twist_ref_neg (cp : CanonO p) (hp : RefBn.is_on_curve p (bnB2v .ref) = true) :
    RefBn.neg (twistRefBn (mc12 := bnMc12) p) = twistRefBn (RefBn.neg p) := by
  classical
  have g2 := goodHom_F2bn (v := .ref)
  have g := goodHom_F12bn (v := .ref)
  obtain ⟨P, rp⟩ := (Transfer.BnRef.via_on_curve_iff (K := K2bn) g2 q2 q3 (k2bn_b_ok .ref).1
    (k2bn_b_ok .ref).2 cp).mp hp
  obtain ⟨g1, r1⟩ := Transfer.BnRef.via_neg_refines g2 cp rp
  obtain ⟨gt, rt⟩ := Transfer.BnRef.via_neg_refines g canonO_twistRefBn (repr_twistRefBn cp rp)
  exact Transfer.BnRef.via_repr_inj g gt canonO_twistRefBn rt
    (by rw [← map_neg]; exact repr_twistRefBn g1 r1)

/-- **(c) reference `twist` commutes with `multiply(·, n)`**, every `n` (neither side raises). -/
theorem twist_ref_multiply (cp : CanonO p) (hp : RefBn.is_on_curve p (bnB2v .ref) = true) (n : ℕ) :
    RefBn.multiply (twistRefBn (mc12 := bnMc12) p) n = (RefBn.multiply p n).map twistRefBn := by
  classical
  have g2 := goodHom_F2bn (v := .ref)
  have g := goodHom_F12bn (v := .ref)
  obtain ⟨P, rp⟩ := (Transfer.BnRef.via_on_curve_iff (K := K2bn) g2 q2 q3 (k2bn_b_ok .ref).1
    (k2bn_b_ok .ref).2 cp).mp hp
  obtain ⟨s, e1, g1, r1⟩ := Transfer.BnRef.via_multiply_refines g2 q2 cp rp n
  obtain ⟨t, e2, gt, rt⟩ := Transfer.BnRef.via_multiply_refines g r2 canonO_twistRefBn
    (repr_twistRefBn cp rp) n
  rw [e1, e2]
  show Except.ok t = Except.ok (twistRefBn s)
  rw [Transfer.BnRef.via_repr_inj g gt canonO_twistRefBn rt
    (by rw [← map_nsmul]; exact repr_twistRefBn g1 r1)]

/-- **(c) reference `twist` maps ∞ to ∞ and only ∞.** -/
theorem twist_ref_none : twistRefBn (mc12 := bnMc12) p = none ↔ p = none := by
  rcases p with _ | ⟨x, y⟩ <;> simp [twistRefBn]

/-- **(d) reference `twist` is injective on canonical points.** -/
theorem twist_ref_injective (cp : CanonO p) (cq : CanonO q)
    (e : twistRefBn (mc12 := bnMc12) p = twistRefBn q) : p = q := by
  classical
  have g2 := goodHom_F2bn (v := .ref)
  have h := congrArg (mapO (toQ : F12bn .ref → K12bn)) e
  rw [mapO_twistRefBn cp, mapO_twistRefBn cq] at h
  exact Transfer.BnRef.good_mapO_inj g2 cp cq (twO_injective psiBn cBn_ne_zero h)

/-- non-vacuity: the generator `G2` of the reference module is canonical and on the curve (and
    `twist(G2) = G12`, `C07.Consts.bn_G12`) -/
example : CanonO (some ((⟨bn128_G2.getD 0 []⟩ : Fqp .ref bnP bnMc2), ⟨bn128_G2.getD 1 []⟩)) ∧
    RefBn.is_on_curve (some ((⟨bn128_G2.getD 0 []⟩ : Fqp .ref bnP bnMc2), ⟨bn128_G2.getD 1 []⟩))
      (bnB2v .ref) = true := by decide +kernel

end ref

end PyEcc.C07T.Bn
