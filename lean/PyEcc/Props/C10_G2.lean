/-
  PyEcc.Props.C10_G2 — property C10, G2 half: `optimized_swu_G2` / `sqrt_division_FQ2` of
  `py_ecc/optimized_bls12_381/optimized_swu.py` (model: `optimizedSwuG2`, `sqrtDivisionFq2` in
  `PyEcc/Model/Swu.lean`)
    * NEVER takes the "unreachable" `raise Exception("Hash to Curve - Optimized SWU failure")`
      (`swuTotal`, which discharges the hypothesis `SwuTotal` of `Props/C04.lean`), and
    * computes the simplified SWU map of RFC 9380 §6.6.2 for the curve
      `E2' : y² = x³ + 240i·x + 1012(1+i)` 3-isogenous to BLS12-381 G2, with `Z = −(2+i)` (§8.8.2),
  for EVERY reduced input `t = a + b·i`, `0 ≤ a, b < p` (`Canon t`), exceptional inputs included.

  The model's optimized `FQ2` objects (`F2`, coefficient lists) are read in the field
  `K2 = Fp[X]/(X²+1)` through the value map `q = toQ` of `Sem/FqpQuot.lean` (a ring homomorphism on
  reduced elements, injective on them).  With `(N, Y, D) = optimized_swu_G2(t)` the affine point is
  `(x, y) = (N/D, Y/D)`.

  Proofs: `Lemmas/Swu2Shape.lean` (shape of the result, loops as "first match"),
  `Lemmas/Swu2Field.lean` (`K2` has `p²` elements; table facts by kernel evaluation),
  `Lemmas/Swu2.lean` (the argument), `Lemmas/SwuAux.lean` (generic SSWU algebra),
  `Lemmas/Swu2Sgn.lean` (`sgn0` on `Fp²`), `Lemmas/Swu2NoRoot.lean` (`g` has no root in `Fp²`, so `y ≠ 0`).
-/
import PyEcc.Lemmas.Swu2NoRoot
import PyEcc.Lemmas.BlsSem
import PyEcc.Spec.Standards

set_option maxRecDepth 100000

namespace PyEcc.C10G2
open PyEcc PyEcc.Fqp PyEcc.FqpSem PyEcc.Spec PyEcc.SwuSem PyEcc.Swu2 Gen.Consts

/-- The three constants of the G2 SSWU map in `optimized_bls12_381/constants.py` are RFC 9380
    §8.8.2's `A' = 240·I`, `B' = 1012·(1+I)`, `Z = −(2+I)`: as coefficient lists
    (`Spec.H2C.iso3A/B/Z`) and as elements of `K2`. -/
theorem iso3_consts :
    (h2c_ISO_3_A = Spec.H2C.iso3A ∧ h2c_ISO_3_B = Spec.H2C.iso3B ∧ h2c_ISO_3_Z = Spec.H2C.iso3Z) ∧
    q ISO_3_A = kA ∧ q ISO_3_B = kB ∧ q ISO_3_Z = kZ :=
  ⟨by decide +kernel, q_consts⟩

/-! ## 1. Totality -/

/-- **`optimized_swu_G2` never raises.**  For every reduced field element `t` (two coefficients in
    `[0, p)`), `optimized_swu_G2(t)` returns a triple: the branch
    `raise Exception("Hash to Curve - Optimized SWU failure")` is unreachable.  Reason: `u/v` is either
    a square — then one of the four `POSITIVE_EIGHTH_ROOTS_OF_UNITY` turns `γ` into a square root
    (`success`) — or it is not, and then one of the four `ETAS` turns `γ·t³` into a square root of
    `Z³t⁶·u/v` (`success_2`). -/
theorem swu_G2_total (t : F2) (ht : Canon t) :
    optimizedSwuG2 t = .ok (sN' t, sY t * sD t, sD t) := by
  rw [optimizedSwuG2_eq, if_neg]
  rintro ⟨h1, h2⟩
  rcases ok_or_ok2 ht with h | h
  · rw [h] at h1; cases h1
  · rw [h] at h2; cases h2

example : Canon (f2c [3, 5]) := cn_f2c (a := 3) (b := 5) (by decide) (by decide)

/-- **HT6 discharged: `SwuTotal`.**  `optimized_swu_G2` returns on every `a + b·i`, `0 ≤ a, b < p` —
    exactly the hypothesis under which `Props/C04.lean` proves that `Verify`, `PopVerify`,
    `AggregateVerify` and `FastAggregateVerify` are total. -/
theorem swuTotal : BlsSem.SwuTotal := fun _ _ ha hb => ⟨_, swu_G2_total _ (cn_f2c ha hb)⟩

/-- the other form: no input makes `optimized_swu_G2` fail -/
theorem not_swuFails : ¬ BlsSem.SwuFails := BlsSem.not_swuFails_iff.mpr swuTotal

/-! ## 2. `sqrt_division_FQ2` -/

/-- **`sqrt_division_FQ2(u, v)` is correct** for reduced `u`, `v ≠ 0`: it returns `(True, r)` exactly
    when `u/v` is a square in `Fp²`, and then `r² = u/v`. -/
theorem sqrt_division_FQ2_correct (u v : F2) (hu : Canon u) (hv : Canon v) (hv0 : v ≠ 0) :
    ((sqrtDivisionFq2 u v).1 = true ↔ IsSquare (q u / q v)) ∧
    ((sqrtDivisionFq2 u v).1 = true → q (sqrtDivisionFq2 u v).2 ^ 2 = q u / q v) := by
  have hV : q v ≠ 0 := mt (q_eq_zero hv).mp hv0
  have hs := (sqrt_spec hu hv hV).2
  have h2 : (sqrtDivisionFq2 u v).1 = true → q (sqrtDivisionFq2 u v).2 ^ 2 = q u / q v := by
    intro h
    rcases hs with ⟨_, h2⟩ | ⟨h1, _⟩
    · rw [eq_div_iff hV, h2]
    · rw [h] at h1; cases h1
  refine ⟨⟨fun h => ⟨q (sqrtDivisionFq2 u v).2, by rw [← h2 h]; ring⟩, ?_⟩, h2⟩
  rintro ⟨s, hs'⟩
  rcases hs with ⟨h1, _⟩ | ⟨_, _, hu0, h4⟩
  · exact h1
  · exfalso
    have hU : q u = s * s * q v := by rw [← hs']; field_simp
    have hs0 : s * q v ^ 8 ≠ 0 := by
      refine mul_ne_zero ?_ (pow_ne_zero 8 hV)
      rintro rfl
      apply hu0; rw [hU]; ring
    have h1 : chi u v ^ 4 = 1 := by
      unfold chi
      have : q u * q v ^ 7 * q v ^ 8 = (s * q v ^ 8) ^ 2 := by rw [hU]; ring
      rw [this, ← pow_mul, ← pow_mul,
        show 2 * ((2 * h2c_P_MINUS_9_DIV_16 + 1) * 4) = (2 * h2c_P_MINUS_9_DIV_16 + 1) * 8 by ring,
        ← exp_eq]
      exact fermat_K2 _ hs0
    rw [h1] at h4
    exact neg_one_ne_one_K2 h4.symm

example : Canon (1 : F2) ∧ (1 : F2) ≠ 0 := by decide +kernel

/-! ## 3. The result is RFC 9380's point -/

/-- **C10 (G2): the returned denominator is non-zero and the point is on the isogenous curve.**
    For every reduced `t`, `optimized_swu_G2(t) = (N, Y, D)` has `D ≠ 0`, and `(x, y) = (N/D, Y/D)`
    satisfies `y² = x³ + 240i·x + 1012(1+i)` in `Fp²`. -/
theorem swu_G2_on_iso_curve (t : F2) (ht : Canon t) (N Y D : F2)
    (h : optimizedSwuG2 t = .ok (N, Y, D)) :
    Canon N ∧ Canon Y ∧ Canon D ∧ D ≠ 0 ∧ q D ≠ 0 ∧
    (q Y / q D) ^ 2 = (q N / q D) ^ 3 + kA * (q N / q D) + kB := by
  rw [swu_G2_total t ht] at h
  obtain ⟨rfl, rfl, rfl⟩ : sN' t = N ∧ sY t * sD t = Y ∧ sD t = D := by
    have := Except.ok.inj h
    simp only [Prod.mk.injEq] at this
    exact this
  have hD := q_D_ne ht
  refine ⟨cn_N' ht, cn_mul (cn_Y ht) (cn_D ht), cn_D ht, sD_ne, hD, ?_⟩
  rw [q_mul (cn_Y ht) (cn_D ht), mul_div_assoc, div_self hD, mul_one, q_Y_sq, q_Y0_sq' ht,
    N'_div_D ht, ← iso3_consts.2.1, ← iso3_consts.2.2.1]
  rfl

/-- non-vacuity of the hypotheses `Canon t`, `optimized_swu_G2(t) = (N, Y, D)` used below: they hold
    e.g. for `t = 1 + i` (and, by `swu_G2_total`, the second one for every reduced `t`) -/
example : Canon (f2c [1, 1]) ∧ ∃ N Y D, optimizedSwuG2 (f2c [1, 1]) = .ok (N, Y, D) :=
  ⟨cn_f2c (a := 1) (b := 1) (by decide) (by decide), _, _, _,
    swu_G2_total _ (cn_f2c (a := 1) (b := 1) (by decide) (by decide))⟩

/-- **C10 (G2): the `x`-coordinate is the RFC's, and the branch is the RFC's.**  If `g(x1)` is a
    square in `Fp²` then `N/D = x1`, otherwise `N/D = x2 = Z·t²·x1`, where
    `x1 = (−B'/A')(1 + inv0(Z²t⁴ + Zt²))`, replaced by `B'/(Z·A')` when `Z²t⁴ + Zt² = 0`
    (`Spec.sswuX1`, RFC 9380 §6.6.2 steps 1–3), `g(x) = x³ + A'x + B'`. -/
theorem swu_G2_x_is_rfc (t : F2) (ht : Canon t) (N Y D : F2) (h : optimizedSwuG2 t = .ok (N, Y, D)) :
    (IsSquare (sswuG kA kB (sswuX1 kA kB kZ (q t))) → q N / q D = sswuX1 kA kB kZ (q t)) ∧
    (¬ IsSquare (sswuG kA kB (sswuX1 kA kB kZ (q t))) →
      q N / q D = kZ * q t ^ 2 * sswuX1 kA kB kZ (q t)) := by
  rw [swu_G2_total t ht] at h
  obtain ⟨rfl, rfl, rfl⟩ : sN' t = N ∧ sY t * sD t = Y ∧ sD t = D := by
    have := Except.ok.inj h
    simp only [Prod.mk.injEq] at this
    exact this
  have hx := N'_div_D ht
  have hiff := sOk_iff ht
  rw [iso3_consts.2.1, iso3_consts.2.2.1, iso3_consts.2.2.2] at hx hiff
  constructor
  · intro hs
    rw [hx, hiff.mpr hs]; rfl
  · intro hs
    have : sOk t = false := by
      cases h : sOk t
      · rfl
      · exact absurd (hiff.mp h) hs
    rw [hx, this]; rfl

/-- **C10 (G2): the code takes the first branch exactly when the RFC does.**  The flag `success`
    returned by `sqrt_division_FQ2(u, v)` inside `optimized_swu_G2(t)` (`Swu2.sOk t`; the intermediate
    values are named in `Lemmas/Swu2Shape.lean`, tied to the model by `Swu2.optimizedSwuG2_eq`) is
    `True` iff `g(x1)` is a square in `Fp²` (RFC step 7). -/
theorem swu_G2_branch_iff (t : F2) (ht : Canon t) :
    sOk t = true ↔ IsSquare (sswuG kA kB (sswuX1 kA kB kZ (q t))) := by
  have hiff := sOk_iff ht
  rwa [iso3_consts.2.1, iso3_consts.2.2.1, iso3_consts.2.2.2] at hiff

/-- **C10 (G2): `y` is never zero.**  The isogenous curve has no point with `y = 0`
    (`x³ + A'x + B'` has no root in `Fp²`; kernel computation of `x^(p²) mod g`). -/
theorem swu_G2_y_ne_zero (t : F2) (ht : Canon t) (N Y D : F2) (h : optimizedSwuG2 t = .ok (N, Y, D)) :
    q Y / q D ≠ 0 := by
  rw [swu_G2_total t ht] at h
  obtain ⟨rfl, rfl, rfl⟩ : sN' t = N ∧ sY t * sD t = Y ∧ sD t = D := by
    have := Except.ok.inj h
    simp only [Prod.mk.injEq] at this
    exact this
  rw [q_mul (cn_Y ht) (cn_D ht), mul_div_assoc, div_self (q_D_ne ht), mul_one]
  exact mt (q_eq_zero (cn_Y ht)).mp (sY_ne ht)

/-- **C10 (G2): sign.**  `sgn0(y) = sgn0(t)` for every reduced `t`, both for the library's own
    `FQ2.sgn0` applied to `Y / D` computed with `FQ2.__truediv__`, and for RFC 9380's `sgn0` (`m = 2`,
    `Swu2.sgn0K2`) of the elements `y = Y/D` and `t` of `Fp²`. -/
theorem swu_G2_sgn0 (t : F2) (ht : Canon t) (N Y D : F2) (h : optimizedSwuG2 t = .ok (N, Y, D)) :
    Fqp.sgn0_fq2 (Y / D) = Fqp.sgn0_fq2 t ∧ sgn0K2 (q Y / q D) = sgn0K2 (q t) := by
  rw [swu_G2_total t ht] at h
  obtain ⟨rfl, rfl, rfl⟩ : sN' t = N ∧ sY t * sD t = Y ∧ sD t = D := by
    have := Except.ok.inj h
    simp only [Prod.mk.injEq] at this
    exact this
  refine ⟨by rw [sY_mul_div ht]; exact sY_sgn0 ht, ?_⟩
  rw [q_mul (cn_Y ht) (cn_D ht), mul_div_assoc, div_self (q_D_ne ht), mul_one,
    ← sgn0_eq_spec (cn_Y ht), ← sgn0_eq_spec ht]
  exact sY_sgn0 ht

/-- **C10, summary (G2): `optimized_swu_G2` = RFC 9380 `map_to_curve_simple_swu`.**  For every reduced
    field element `t`, with `(N, Y, D) = optimized_swu_G2(t)`: the affine point `(N/D, Y/D)` is related
    to `t` by the specification `Spec.IsSswu` of RFC 9380 §6.6.2 with the constants `A' = 240i`,
    `B' = 1012(1+i)`, `Z = −(2+i)` of §8.8.2 and `sgn0` of §4.1 (`m = 2`): its `x` is the RFC's `x1` if
    `g(x1)` is a square in `Fp²` and `x2 = Z t² x1` otherwise, `y² = g(x)`, and `y` has the sign of `t`.
    (`Spec.IsSswu` determines `(x, y)` uniquely: `SwuSem.IsSswu.unique`.) -/
theorem swu_G2_is_sswu (t : F2) (ht : Canon t) (N Y D : F2) (h : optimizedSwuG2 t = .ok (N, Y, D)) :
    Spec.IsSswu sgn0K2 kA kB kZ (q t) (q N / q D) (q Y / q D) := by
  have hx := swu_G2_x_is_rfc t ht N Y D h
  have hc := (swu_G2_on_iso_curve t ht N Y D h).2.2.2.2.2
  refine ⟨?_, Or.inr (swu_G2_sgn0 t ht N Y D h).2⟩
  by_cases hs : IsSquare (sswuG kA kB (sswuX1 kA kB kZ (q t)))
  · exact Or.inl ⟨hs, hx.1 hs, hc⟩
  · exact Or.inr ⟨hs, hx.2 hs, hc⟩

/-- **C10 (G2): equality with the straight-line RFC procedure.**  For every correct square-root
    function `sqrt` on `Fp²` (one that returns *a* root of each square), the affine point computed by
    `optimized_swu_G2(t)` equals the output of RFC 9380 §6.6.2 `map_to_curve_simple_swu(t)`
    (`Spec.mapToCurveSimpleSwu`, steps 1–10 verbatim) — whichever root `sqrt` picks, step 9 fixes the
    sign. -/
theorem swu_G2_eq_rfc_function (sqrt : K2 → K2) (hsqrt : ∀ a, IsSquare a → sqrt a ^ 2 = a)
    (t : F2) (ht : Canon t) (N Y D : F2) (h : optimizedSwuG2 t = .ok (N, Y, D)) :
    (q N / q D, q Y / q D) = Spec.mapToCurveSimpleSwu sgn0K2 sqrt kA kB kZ (q t) := by
  have hcode := swu_G2_is_sswu t ht N Y D h
  have hx2 : ¬ IsSquare (sswuG kA kB (sswuX1 kA kB kZ (q t))) →
      IsSquare (sswuG kA kB (sswuX2 kA kB kZ (q t))) := by
    intro hns
    rcases hcode.1 with ⟨h1, _, _⟩ | ⟨_, h2, h3⟩
    · exact absurd h1 hns
    · rw [← h2, ← h3, sq]; exact IsSquare.mul_self _
  have hspec := mapToCurveSimpleSwu_isSswu sgn0K2 sqrt kA kB kZ (q t) hsqrt sgn0K2_neg_ne
    sgn0K2_lt_two hx2
  have := SwuSem.IsSswu.unique sgn0K2 kA kB kZ (q t) _ _ _ _ sgn0K2_neg_ne hcode hspec
  exact Prod.ext this.1 this.2

/-- a correct square-root function on `Fp²` exists (non-vacuity of the hypothesis above) -/
example : ∃ sqrt : K2 → K2, ∀ a, IsSquare a → sqrt a ^ 2 = a := by
  classical
  refine ⟨fun a => if h : IsSquare a then h.choose else 0, fun a h => ?_⟩
  simp only [h, dif_pos]
  rw [sq]; exact h.choose_spec.symm

/-- **C10 (G2): exceptional inputs.**  If `Z²t⁴ + Zt² = 0` — in particular for `t = 0` — the code
    replaces its zero denominator by `Z·A'` and returns the point with `x = B'/(Z·A')`, RFC 9380's
    exceptional-case value (and `g` of it is a square, so this is the RFC's output). -/
theorem swu_G2_exceptional (t : F2) (ht : Canon t) (N Y D : F2) (h : optimizedSwuG2 t = .ok (N, Y, D))
    (h0 : kZ ^ 2 * q t ^ 4 + kZ * q t ^ 2 = 0) :
    q N / q D = kB / (kZ * kA) ∧ IsSquare (sswuG kA kB (kB / (kZ * kA))) := by
  have hx1 := sswuX1_of_eq kA kB kZ (q t) h0
  have hT : q (sT t) = 0 := by
    rw [q_T ht, iso3_consts.2.2.2, ← h0]; ring
  have hsq := (swu_G2_branch_iff t ht).mp (sOk_of_T_eq ht hT)
  rw [hx1] at hsq
  exact ⟨by rw [← hx1]; exact (swu_G2_x_is_rfc t ht N Y D h).1 (by rw [hx1]; exact hsq), hsq⟩

example : Canon (0 : F2) ∧ kZ ^ 2 * q (0 : F2) ^ 4 + kZ * q (0 : F2) ^ 2 = 0 :=
  ⟨cn_zero, by rw [q_zero]; ring⟩

end PyEcc.C10G2
