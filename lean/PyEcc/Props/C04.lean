/-
  PyEcc.Props.C04 — verification is total and rejects malformed / unsafe input
  (py_ecc/bls/ciphersuites.py: KeyValidate, Verify, AggregateVerify, FastAggregateVerify, PopVerify).

  Every theorem is about the model functions of `PyEcc/Model/Bls.lean` exactly as defined, for ALL
  byte strings of ANY length, all three suites, and an arbitrary hash function `H`.

  The one exception kind that the `try/except (ValidationError, ValueError, AssertionError)` blocks do
  NOT catch and that the code underneath can syntactically raise is the bare
  `Exception("Hash to Curve - Optimized SWU failure")` of `optimized_swu_G2`.  Excluding it is a
  number-theoretic fact about `optimized_swu_G2` (DESIGN: HT6 / C10 stage 3), here the explicit
  hypothesis `SwuTotal` (`optimized_swu_G2` returns on every `a + b·i`, `0 ≤ a, b < p`).  The `…_total_or_swu` theorems are hypothesis-free and say precisely that this
  is the only thing that can escape.
-/
import PyEcc.Lemmas.BlsSem

namespace PyEcc.C04
open PyEcc PyEcc.BlsSem Gen.Consts

/-! ## 1. Exception kinds of the primitives -/

/-- **Exception kinds of every primitive under the verification APIs.**
    `decompress_G1`/`pubkey_to_G1`, `decompress_G2`/`signature_to_G2` and `pairing` raise nothing but
    `ValueError`; `hash_to_G2` raises nothing but `ValueError` or (only if `optimized_swu_G2` fails on some
    field element) the bare `Exception`; `G1_to_pubkey` never raises (`compress_G1(pt) < 2^384`, so
    `to_bytes(48)` cannot overflow) and yields 48 bytes. -/
theorem primitive_error_kinds (H : HashFn) :
    (∀ z e, decompressG1 z = .error e → e = .value) ∧
    (∀ pk e, pubkeyToG1 pk = .error e → e = .value) ∧
    (∀ z1 z2 e, decompressG2 z1 z2 = .error e → e = .value) ∧
    (∀ sig e, signatureToG2 sig = .error e → e = .value) ∧
    (∀ Q P fe e, pairingOptBls Q P fe = .error e → e = .value) ∧
    (∀ msg dst e, hashToG2 H msg dst = .error e → e = .value ∨ (e = .other ∧ SwuFails)) ∧
    (∀ pt, ∃ b, g1ToPubkey pt = .ok b ∧ b.length = 48) :=
  ⟨fun _ _ h => decompressG1_error h, fun _ _ h => pubkeyToG1_error h,
   fun _ _ _ h => decompressG2_error h, fun _ _ h => signatureToG2_error h,
   fun _ _ _ _ h => pairingOptBls_error h, fun _ _ _ h => hashToG2_error h,
   fun pt => ⟨_, g1ToPubkey_ok pt, toBytesBE_length _ _⟩⟩

/-- **`hash_to_G2` at the suites' own tags.**  All four domain-separation tags (`DST` of the three suites
    and `POP_TAG`) are 43 bytes long, so the `len(DST) > 255` `ValueError` is impossible; if the hash
    function's digest has at least 2 bytes (so that `ell = ceil(256/digest_size) ≤ 255`; SHA-256 has 32) the
    only exception `hash_to_G2` can raise is the SWU bare `Exception`.
    (For `digest_size = 1` the code raises `ValueError`, which the callers catch; for `digest_size = 0`
    Python raises `ZeroDivisionError` where the model's totalised `ceilDiv` gives 0 — hashlib digests are
    never empty.) -/
theorem hashToG2_suite_error_kinds (H : HashFn) (hd : 2 ≤ H.digestSize) (msg : Bytes) (e : PyErr) :
    (∀ s : Suite, hashToG2 H msg s.dst = .error e → e = .other ∧ SwuFails) ∧
    (hashToG2 H msg popTag = .error e → e = .other ∧ SwuFails) :=
  ⟨fun s h => hashToG2_error_of_dst hd (by rw [suite_dst_length]; decide) h,
   fun h => hashToG2_error_of_dst hd (by rw [popTag_length]; decide) h⟩

example : 2 ≤ sha256Fn.digestSize := by decide

/-- **The signature-side `pairing` calls cannot raise.**  For every byte string that `signature_to_G2`
    decodes to `S`, `pairing(S, G1)` (in `_CoreVerify`) and `pairing(S, −G1)` (in `_CoreAggregateVerify`)
    return: `decompress_G2` only returns points it has checked with `is_on_curve` (or `Z2`), and `±G1` are on
    the curve.  (The key-side calls `pairing(hash_to_G2(m), ∓P)` additionally need "`hash_to_G2` lands on the
    twist" — DESIGN HT6/C10 — and C11's "decoded keys are on the curve"; here their only possible
    exception, `ValueError`, is shown to be caught.) -/
theorem pairing_sig_cannot_raise (sig : Bytes) (S : G2Pt) (h : signatureToG2 sig = .ok S) :
    (∃ e, pairingOptBls S blsG1 false = .ok e) ∧
    (∃ e, pairingOptBls S (Gen.OptBls.neg blsG1) false = .ok e) :=
  pairing_sig_ok h

/-! ## 2. Totality -/

/-- `KeyValidate` is a `Bool`-valued function in the model: its only callee that can raise,
    `pubkey_to_G1`, raises nothing but `ValueError` (`primitive_error_kinds`), which the
    `except (ValidationError, ValueError, AssertionError)` turns into `False`.  Totality is therefore
    immediate; the content is the exact accept set: `KeyValidate(pk)` is `True` iff `pk` has exactly 48
    bytes, decodes, is not the identity and passes the subgroup check. -/
theorem keyValidate_total (pk : Bytes) :
    (∃ b, keyValidate pk = b) ∧
    (keyValidate pk = true ↔ pk.length = 48 ∧ ∃ P, pubkeyToG1 pk = .ok P ∧
      Gen.OptBls.is_inf P = false ∧ subgroupCheck P = true) :=
  ⟨⟨_, rfl⟩, keyValidate_true_iff pk⟩

/-- the shape of every totality statement: a bool is returned, or the un-caught SWU `Exception` escapes -/
def ReturnsOrSwu (o : Outcome) : Prop := (∃ b, o = .returned b) ∨ (o = .raised .other ∧ SwuFails)

theorem ReturnsOrSwu.total {o : Outcome} (h : ReturnsOrSwu o) (hs : SwuTotal) : ∃ b, o = .returned b := by
  rcases h with h | ⟨_, hf⟩
  · exact h
  · exact (not_swuFails_iff.mpr hs hf).elim

theorem ReturnsOrSwu.raised {o : Outcome} {e : PyErr} (h : ReturnsOrSwu o) (he : o = .raised e) :
    e = .other ∧ SwuFails := by
  rcases h with ⟨b, hb⟩ | ⟨ho, hf⟩
  · rw [hb] at he; cases he
  · rw [ho] at he; cases he; exact ⟨rfl, hf⟩

theorem coreVerify_returnsOrSwu (H : HashFn) (s : Suite) (pk msg sig dst : Bytes) :
    ReturnsOrSwu (coreVerify H s pk msg sig dst) := by
  rcases coreVerify_cases H s pk msg sig dst with ⟨b, _, _, hr⟩ | ⟨_, _, _, hr⟩ | ⟨_, hf, hr⟩
  · exact .inl ⟨b, hr⟩
  · exact .inl ⟨false, hr⟩
  · exact .inr ⟨hr, hf⟩

theorem coreAggregateVerify_returnsOrSwu (H : HashFn) (s : Suite) (pks msgs : List Bytes)
    (sig dst : Bytes) : ReturnsOrSwu (coreAggregateVerify H s pks msgs sig dst) := by
  rcases coreAggregateVerify_cases H s pks msgs sig dst with
    ⟨b, _, _, hr⟩ | ⟨_, _, _, hr⟩ | ⟨_, hf, hr⟩
  · exact .inl ⟨b, hr⟩
  · exact .inl ⟨false, hr⟩
  · exact .inr ⟨hr, hf⟩

/-- **`Verify` is total up to SWU (hypothesis-free).**  For every suite, hash function and byte strings
    `pk`, `msg`, `sig` of any length, `Verify(pk, msg, sig)` returns a bool — or the bare
    `Exception("… SWU failure")` escapes, which requires `optimized_swu_G2` to fail on some field element.
    No `ValueError`, `ValidationError`, `OverflowError`, `TypeError` or `AssertionError` can escape. -/
theorem verify_total_or_swu (H : HashFn) (s : Suite) (pk msg sig : Bytes) :
    ReturnsOrSwu (verify H s pk msg sig) := by
  rw [verify_eq]; exact coreVerify_returnsOrSwu ..

/-- **`Verify` is total**, given that `optimized_swu_G2` never takes its "unreachable" raise.
    (`SwuTotal` is a closed statement about `optimized_swu_G2` — DESIGN hypothesis HT6, planned theorem of
    C10 — so "an instance" would be its proof; `swu_samples` below evaluates it at sample points.) -/
theorem verify_total (H : HashFn) (hswu : SwuTotal) (s : Suite) (pk msg sig : Bytes) :
    ∃ b, verify H s pk msg sig = .returned b :=
  (verify_total_or_swu H s pk msg sig).total hswu

set_option maxRecDepth 100000 in
/-- evidence (not a proof) for `SwuTotal`: `optimized_swu_G2` returns at `0` (the exceptional branch
    `denominator = 0`) and at `1 + i` -/
theorem swu_samples :
    (optimizedSwuG2 (f2c [0, 0])).isOk = true ∧ (optimizedSwuG2 (f2c [1, 1])).isOk = true := by
  decide +kernel

/-- **`PopVerify` is total up to SWU (hypothesis-free).** -/
theorem popVerify_total_or_swu (H : HashFn) (pk proof : Bytes) :
    ReturnsOrSwu (popVerify H pk proof) :=
  coreVerify_returnsOrSwu ..

/-- **`PopVerify` is total**, given `SwuTotal`. -/
theorem popVerify_total (H : HashFn) (hswu : SwuTotal) (pk proof : Bytes) :
    ∃ b, popVerify H pk proof = .returned b :=
  (popVerify_total_or_swu H pk proof).total hswu

/-- **`AggregateVerify` is total up to SWU (hypothesis-free)**, for all three suites, key and message
    lists of any (also different) lengths with entries of any length. -/
theorem aggregateVerify_total_or_swu (H : HashFn) (s : Suite) (pks msgs : List Bytes) (sig : Bytes) :
    ReturnsOrSwu (aggregateVerify H s pks msgs sig) := by
  unfold aggregateVerify
  cases s with
  | basic =>
    simp only
    split
    · exact .inl ⟨false, rfl⟩
    · exact coreAggregateVerify_returnsOrSwu ..
  | aug =>
    simp only
    split
    · exact .inl ⟨false, rfl⟩
    · exact coreAggregateVerify_returnsOrSwu ..
  | pop => exact coreAggregateVerify_returnsOrSwu ..

/-- **`AggregateVerify` is total**, given `SwuTotal`. -/
theorem aggregateVerify_total (H : HashFn) (hswu : SwuTotal) (s : Suite) (pks msgs : List Bytes)
    (sig : Bytes) : ∃ b, aggregateVerify H s pks msgs sig = .returned b :=
  (aggregateVerify_total_or_swu H s pks msgs sig).total hswu

/-- the `try` block of `FastAggregateVerify` (input validation, precondition, `_AggregatePKs`) -/
def fastPre (pks : List Bytes) (sig : Bytes) : Except PyErr Bytes := do
  if !(pks.all (isValidPubkey .pop)) then throw .validation
  if sig.length ≠ 96 then throw .validation
  if pks.length < 1 then throw .validation
  aggregatePKs pks

theorem fastAggregateVerify_eq (H : HashFn) (pks : List Bytes) (msg sig : Bytes) :
    fastAggregateVerify H pks msg sig =
      match fastPre pks sig with
      | .error e => if caught2 e then .returned false else .raised e
      | .ok apk => verify H .pop apk msg sig := rfl

/-- **The `try` block of `FastAggregateVerify` cannot leak an exception.**  Its `except` lists only
    `(ValidationError, AssertionError)`, while `_AggregatePKs` calls `pubkey_to_G1` (can raise `ValueError`)
    and `G1_to_pubkey` (`int.to_bytes`, can raise `OverflowError`).  Neither can happen: the block either
    raises `ValidationError` — exactly when some key fails the POP suite's `_is_valid_pubkey` (48 bytes and
    `KeyValidate`), the signature is not 96 bytes, or the list is empty — or returns a 48-byte aggregate key,
    because every key has already passed `KeyValidate` (so it decodes) and `compress_G1 < 2^384`. -/
theorem fastPre_cases (pks : List Bytes) (sig : Bytes) :
    (¬ ((∀ pk ∈ pks, pk.length = 48 ∧ keyValidate pk = true) ∧ sig.length = 96 ∧ 1 ≤ pks.length) ∧
        fastPre pks sig = .error .validation) ∨
    ((∀ pk ∈ pks, pk.length = 48 ∧ keyValidate pk = true) ∧ sig.length = 96 ∧ 1 ≤ pks.length ∧
        ∃ apk, fastPre pks sig = .ok apk ∧ aggregatePKs pks = .ok apk ∧ apk.length = 48) := by
  unfold fastPre
  simp only [bind, Except.bind, throw, throwThe, MonadExceptOf.throw]
  split
  · next h1 =>
    left
    refine ⟨?_, rfl⟩
    rintro ⟨hall, -, -⟩
    have : pks.all (isValidPubkey .pop) = true := by
      rw [List.all_eq_true]
      intro pk hpk
      obtain ⟨hl, hk⟩ := hall pk hpk
      simp [isValidPubkey, hl, hk]
    simp [this] at h1
  next h1 =>
  have hall : ∀ pk ∈ pks, pk.length = 48 ∧ keyValidate pk = true := by
    have h1' : pks.all (isValidPubkey .pop) = true := by simpa using h1
    rw [List.all_eq_true] at h1'
    exact fun pk hpk => ⟨isValidPubkey_length (h1' pk hpk), isValidPubkey_pop (h1' pk hpk)⟩
  split
  · next h2 => left; exact ⟨fun h => h2 h.2.1, rfl⟩
  next h2 =>
  split
  · next h3 => left; exact ⟨fun h => by omega, rfl⟩
  next h3 =>
  right
  have h2' : sig.length = 96 := by simpa using h2
  obtain ⟨apk, hapk, hlen⟩ := aggregatePKs_ok pks (by omega) (fun pk hpk => (hall pk hpk).2)
  exact ⟨hall, h2', by omega, apk, hapk, hapk, hlen⟩

/-- **`FastAggregateVerify` is total up to SWU (hypothesis-free).**  In particular the narrower
    `except (ValidationError, AssertionError)` of its first block lets nothing through. -/
theorem fastAggregateVerify_total_or_swu (H : HashFn) (pks : List Bytes) (msg sig : Bytes) :
    ReturnsOrSwu (fastAggregateVerify H pks msg sig) := by
  rw [fastAggregateVerify_eq]
  rcases fastPre_cases pks sig with ⟨_, hp⟩ | ⟨_, _, _, apk, hp, _, _⟩
  · rw [hp]; exact .inl ⟨false, rfl⟩
  · rw [hp]; exact verify_total_or_swu ..

/-- **`FastAggregateVerify` is total**, given `SwuTotal`. -/
theorem fastAggregateVerify_total (H : HashFn) (hswu : SwuTotal) (pks : List Bytes) (msg sig : Bytes) :
    ∃ b, fastAggregateVerify H pks msg sig = .returned b :=
  (fastAggregateVerify_total_or_swu H pks msg sig).total hswu

/-- **Only the SWU `Exception` can escape any verification API** (hypothesis-free summary): if any of the
    four APIs raises `e`, then `e` is the bare `Exception` and `optimized_swu_G2` fails on some input. -/
theorem raised_only_swu (H : HashFn) (e : PyErr) :
    (∀ s pk msg sig, verify H s pk msg sig = .raised e → e = .other ∧ SwuFails) ∧
    (∀ pk proof, popVerify H pk proof = .raised e → e = .other ∧ SwuFails) ∧
    (∀ s pks msgs sig, aggregateVerify H s pks msgs sig = .raised e → e = .other ∧ SwuFails) ∧
    (∀ pks msg sig, fastAggregateVerify H pks msg sig = .raised e → e = .other ∧ SwuFails) :=
  ⟨fun s pk msg sig h => (verify_total_or_swu H s pk msg sig).raised h,
   fun pk proof h => (popVerify_total_or_swu H pk proof).raised h,
   fun s pks msgs sig h => (aggregateVerify_total_or_swu H s pks msgs sig).raised h,
   fun pks msg sig h => (fastAggregateVerify_total_or_swu H pks msg sig).raised h⟩

/-! ## 3. Non-canonical input is rejected

  Non-vacuity.  The hypotheses `… = .returned true` below are satisfiable (C01 proves that honest
  signatures verify; the correspondence harness runs such cases), but a kernel-checked instance here would
  mean evaluating `hash_to_G2`, two Miller loops and a final exponentiation inside the kernel (minutes), so
  none is included.  Instead: (i) each theorem is paired with its hypothesis-free contrapositive
  `…_malformed_returns_false`, with concrete instances; (ii) `genPk_canon` / `infSig_canon` exhibit a
  canonical key and a canonical signature, so the conclusions are satisfiable. -/

/-- **`Verify` returns `True` only on canonical key and signature.**  If `Verify(pk, msg, sig)` is `True`
    then `pk` has exactly 48 bytes and decodes to a point `P` that is not the identity and passes the
    subgroup check, and `sig` has exactly 96 bytes and decodes to a point `S` that passes the subgroup
    check.  (All suites, any hash function, byte strings of any length.) -/
theorem verify_rejects_noncanonical (H : HashFn) (s : Suite) (pk msg sig : Bytes)
    (h : verify H s pk msg sig = .returned true) :
    pk.length = 48 ∧ sig.length = 96 ∧ ∃ P S, pubkeyToG1 pk = .ok P ∧ Gen.OptBls.is_inf P = false ∧
      subgroupCheck P = true ∧ signatureToG2 sig = .ok S ∧ subgroupCheck S = true := by
  rw [verify_eq] at h
  obtain ⟨P, S, _, _, _, hP, hS, _⟩ := coreVerify_true_iff.mp h
  exact ⟨hP.1, hS.1, P, S, hP.2.1, hP.2.2.1, hP.2.2.2, hS.2.1, hS.2.2⟩

/-- the compressed generator of G1 (the public key of secret key 1) -/
def genPk : Bytes :=
  hexBytes "97f1d3a73197d7942695638c4fa9ac0fc3688c4f9774b905a14e3a3f171bac586c55e83ff97a1aeffb3af00adb22c6bb"

/-- the 96-byte encoding of the point at infinity of G2 -/
def infSig : Bytes := 0xc0 :: List.replicate 95 0

set_option maxRecDepth 100000 in
/-- non-vacuity of `CanonPk`: the generator's encoding is a canonical key (kernel evaluation) -/
theorem genPk_canon : ∃ P, CanonPk genPk P :=
  (keyValidate_iff_canon genPk).mp (by decide +kernel)

set_option maxRecDepth 100000 in
/-- non-vacuity of `CanonSig`: the encoding of infinity is a canonical signature (kernel evaluation) -/
theorem infSig_canon : ∃ S, CanonSig infSig S := by
  have h : (match signatureToG2 infSig with
      | .ok S => decide (S = Z2) | .error _ => false) = true := by decide +kernel
  have hz : subgroupCheck Z2 = true := by decide +kernel
  split at h
  · next S hS => exact ⟨Z2, by decide, by rw [hS, of_decide_eq_true h], hz⟩
  · cases h

/-- **Malformed input makes `Verify` return `False` — unconditionally.**  Unless `pk` is a canonical key
    and `sig` a canonical signature (as in `verify_rejects_noncanonical`), `Verify` returns `False` (it does
    not raise, and it does so before any hashing or pairing; no hypothesis on SWU is needed). -/
theorem verify_malformed_returns_false (H : HashFn) (s : Suite) (pk msg sig : Bytes)
    (h : ¬ ∃ P S, CanonPk pk P ∧ CanonSig sig S) : verify H s pk msg sig = .returned false := by
  rw [verify_eq]; exact coreVerify_malformed h

/-- non-vacuity: the empty key is malformed -/
example (H : HashFn) (s : Suite) (msg sig : Bytes) : verify H s [] msg sig = .returned false :=
  verify_malformed_returns_false H s [] msg sig (by rintro ⟨P, S, ⟨hl, _⟩, _⟩; cases hl)

/-- **Exact accept set of `Verify`.**  `Verify(pk, msg, sig)` is `True` iff key and signature are canonical,
    `hash_to_G2` of the (suite-augmented) message returns, both `pairing` calls return, and the final
    exponentiation of the product is one. -/
theorem verify_true_iff (H : HashFn) (s : Suite) (pk msg sig : Bytes) :
    verify H s pk msg sig = .returned true ↔
      ∃ P S mp e1 e2, CanonPk pk P ∧ CanonSig sig S ∧ hashToG2 H (vmsg s pk msg) s.dst = .ok mp ∧
        pairingOptBls S blsG1 false = .ok e1 ∧
        pairingOptBls mp (Gen.OptBls.neg P) false = .ok e2 ∧
        finalExponentiateOptBls (e1 * e2) = (1 : OBls12) := by
  rw [verify_eq]; exact coreVerify_true_iff

/-- **`PopVerify` returns `True` only on canonical key and proof** (as `verify_rejects_noncanonical`). -/
theorem popVerify_rejects_noncanonical (H : HashFn) (pk proof : Bytes)
    (h : popVerify H pk proof = .returned true) :
    pk.length = 48 ∧ proof.length = 96 ∧ ∃ P S, pubkeyToG1 pk = .ok P ∧
      Gen.OptBls.is_inf P = false ∧ subgroupCheck P = true ∧ signatureToG2 proof = .ok S ∧
      subgroupCheck S = true := by
  obtain ⟨P, S, _, _, _, hP, hS, _⟩ := coreVerify_true_iff.mp h
  exact ⟨hP.1, hS.1, P, S, hP.2.1, hP.2.2.1, hP.2.2.2, hS.2.1, hS.2.2⟩

/-- **Malformed input makes `PopVerify` return `False` — unconditionally.** -/
theorem popVerify_malformed_returns_false (H : HashFn) (pk proof : Bytes)
    (h : ¬ ∃ P S, CanonPk pk P ∧ CanonSig proof S) : popVerify H pk proof = .returned false :=
  coreVerify_malformed h

/-- what `_CoreAggregateVerify` returning `True` implies -/
theorem coreAggregateVerify_rejects_noncanonical {H : HashFn} {s : Suite} {pks msgs : List Bytes}
    {sig dst : Bytes} (h : coreAggregateVerify H s pks msgs sig dst = .returned true) :
    1 ≤ pks.length ∧ pks.length = msgs.length ∧
    (∀ pk ∈ pks, ∃ P, CanonPk pk P) ∧ ∃ S, CanonSig sig S := by
  obtain ⟨tr, hb⟩ := coreAggregateVerify_true h
  obtain ⟨_, hlen, hsl, hne, S, hS, hcase⟩ := coreAggregateVerifyBody_ok hb
  rcases hcase with ⟨_, hf, _⟩ | ⟨hsub, ext, _, _, _, hall, _⟩
  · cases hf
  · refine ⟨hne, hlen, ?_, S, hsl, hS, hsub⟩
    intro pk hpk
    obtain ⟨m, hm⟩ := mem_zip_left pks msgs hlen pk hpk
    obtain ⟨_, _, hkv, _, _⟩ := hall.mem_left _ hm
    exact (keyValidate_iff_canon pk).mp hkv

/-- **`AggregateVerify` returns `True` only on canonical keys and signature.**  If
    `AggregateVerify(PKs, messages, sig)` is `True` then there is at least one key, as many messages as
    keys, EVERY key in the list is canonical (48 bytes, decodes, not the identity, in the subgroup), the
    signature is canonical (96 bytes, decodes, in the subgroup), and in the basic suite the messages are
    pairwise distinct (`hasDup messages = false`). -/
theorem aggregateVerify_rejects_noncanonical (H : HashFn) (s : Suite) (pks msgs : List Bytes)
    (sig : Bytes) (h : aggregateVerify H s pks msgs sig = .returned true) :
    1 ≤ pks.length ∧ pks.length = msgs.length ∧ sig.length = 96 ∧
    (∀ pk ∈ pks, pk.length = 48 ∧ ∃ P, pubkeyToG1 pk = .ok P ∧ Gen.OptBls.is_inf P = false ∧
      subgroupCheck P = true) ∧
    (∃ S, signatureToG2 sig = .ok S ∧ subgroupCheck S = true) ∧
    (s = .basic → hasDup msgs = false) := by
  have key : ∀ msgs', (s = .aug → pks.length = msgs.length) → (s ≠ .aug → msgs' = msgs) →
      coreAggregateVerify H s pks msgs' sig s.dst = .returned true →
      pks.length = msgs'.length → 1 ≤ pks.length ∧ pks.length = msgs.length ∧ sig.length = 96 ∧
      (∀ pk ∈ pks, pk.length = 48 ∧ ∃ P, pubkeyToG1 pk = .ok P ∧ Gen.OptBls.is_inf P = false ∧
        subgroupCheck P = true) ∧ (∃ S, signatureToG2 sig = .ok S ∧ subgroupCheck S = true) := by
    intro msgs' haug hna hc hl
    obtain ⟨hne, _, hpk, S, hS⟩ := coreAggregateVerify_rejects_noncanonical hc
    refine ⟨hne, ?_, hS.1, ?_, S, hS.2.1, hS.2.2⟩
    · by_cases hs : s = .aug
      · exact haug hs
      · rw [← hna hs]; exact hl
    · intro pk hp
      obtain ⟨P, hP⟩ := hpk pk hp
      exact ⟨hP.1, P, hP.2⟩
  unfold aggregateVerify at h
  cases s with
  | basic =>
    simp only at h
    split at h
    · cases h
    · next hd =>
      obtain ⟨a, b, c, d, e⟩ := key msgs (by simp) (by simp) h
        (coreAggregateVerify_rejects_noncanonical h).2.1
      exact ⟨a, b, c, d, e, fun _ => by simpa using hd⟩
  | aug =>
    simp only at h
    split at h
    · cases h
    · next hl =>
      obtain ⟨a, b, c, d, e⟩ := key _ (fun _ => by simpa using hl) (by simp) h
        (coreAggregateVerify_rejects_noncanonical h).2.1
      exact ⟨a, b, c, d, e, by simp⟩
  | pop =>
    obtain ⟨a, b, c, d, e⟩ := key msgs (by simp) (by simp) h
      (coreAggregateVerify_rejects_noncanonical h).2.1
    exact ⟨a, b, c, d, e, by simp⟩

/-- **`FastAggregateVerify` returns `True` only on canonical keys and signature.**  If
    `FastAggregateVerify(PKs, msg, sig)` is `True` then the list is non-empty, EVERY key in it is canonical,
    `_AggregatePKs` returned a key `apk` and `Verify(apk, msg, sig)` (POP suite) is `True` — so the aggregate
    key itself is canonical too, in particular it is NOT the identity — and the signature is canonical. -/
theorem fastAggregateVerify_rejects_noncanonical (H : HashFn) (pks : List Bytes) (msg sig : Bytes)
    (h : fastAggregateVerify H pks msg sig = .returned true) :
    1 ≤ pks.length ∧ sig.length = 96 ∧
    (∀ pk ∈ pks, pk.length = 48 ∧ ∃ P, pubkeyToG1 pk = .ok P ∧ Gen.OptBls.is_inf P = false ∧
      subgroupCheck P = true) ∧
    ∃ apk, aggregatePKs pks = .ok apk ∧ verify H .pop apk msg sig = .returned true ∧
      ∃ A S, pubkeyToG1 apk = .ok A ∧ Gen.OptBls.is_inf A = false ∧ subgroupCheck A = true ∧
        signatureToG2 sig = .ok S ∧ subgroupCheck S = true := by
  rw [fastAggregateVerify_eq] at h
  rcases fastPre_cases pks sig with ⟨_, hp⟩ | ⟨hall, hsl, hne, apk, hp, hagg, _⟩
  · rw [hp] at h; cases h
  · rw [hp] at h
    simp only at h
    obtain ⟨_, _, A, S, hA⟩ := verify_rejects_noncanonical H .pop apk msg sig h
    refine ⟨hne, hsl, ?_, apk, hagg, h, A, S, hA⟩
    intro pk hpk
    obtain ⟨hl, hk⟩ := hall pk hpk
    obtain ⟨_, P, hP⟩ := (keyValidate_true_iff pk).mp hk
    exact ⟨hl, P, hP⟩

/-- **Malformed input makes `FastAggregateVerify` return `False` — unconditionally**: an empty list, a key
    that is not canonical anywhere in the list, or a signature that is not 96 bytes long. -/
theorem fastAggregateVerify_malformed_returns_false (H : HashFn) (pks : List Bytes) (msg sig : Bytes)
    (h : ¬ ((∀ pk ∈ pks, pk.length = 48 ∧ keyValidate pk = true) ∧ sig.length = 96 ∧ 1 ≤ pks.length)) :
    fastAggregateVerify H pks msg sig = .returned false := by
  rw [fastAggregateVerify_eq]
  rcases fastPre_cases pks sig with ⟨_, hp⟩ | ⟨hall, hsl, hne, _⟩
  · rw [hp]; rfl
  · exact (h ⟨hall, hsl, hne⟩).elim

example (H : HashFn) (msg sig : Bytes) : fastAggregateVerify H [] msg sig = .returned false :=
  fastAggregateVerify_malformed_returns_false H [] msg sig (by simp)

/-! ## 4. Arguments that reach `pairing` -/

/-- a G1 point that may safely be handed to `pairing`: the generator or its negation, or the decoding of a
    `KeyValidate`d key (on the curve by decoding, not the identity, in the subgroup) or its negation -/
def SafeG1 (P : G1Pt) : Prop :=
  P = blsG1 ∨ P = Gen.OptBls.neg blsG1 ∨
  ∃ pk P0, keyValidate pk = true ∧ CanonPk pk P0 ∧ (P = P0 ∨ P = Gen.OptBls.neg P0)

/-- a G2 point that may safely be handed to `pairing`: the decoded signature, having passed the subgroup
    check, or an output of `hash_to_G2` -/
def SafeG2 (H : HashFn) (sig : Bytes) (Q : G2Pt) : Prop :=
  CanonSig sig Q ∨ ∃ msg dst, hashToG2 H msg dst = .ok Q

/-- **Every argument `_CoreVerify` passes to `pairing` is validated.**  Whenever the `try` body of
    `_CoreVerify` returns, the recorded list of `(Q, P)` pairing arguments is either empty (the signature
    failed the subgroup check: no pairing was computed) or exactly
    `[(S, G1), (hash_to_G2(msg, DST), −P)]` where `S` is the decoded signature with `subgroup_check(S)`, and
    `P` is the decoding of the key, which passed `KeyValidate` (48 bytes, not the identity, in the subgroup). -/
theorem pairing_args_safe_core (H : HashFn) (s : Suite) (pk msg sig dst : Bytes) (b : Bool)
    (tr : List (G2Pt × G1Pt)) (h : coreVerifyBody H s pk msg sig dst = .ok (b, tr)) :
    (tr = [] ∧ b = false) ∨
    ∃ S P mp, tr = [(S, blsG1), (mp, Gen.OptBls.neg P)] ∧ CanonSig sig S ∧ CanonPk pk P ∧
      keyValidate pk = true ∧ hashToG2 H msg dst = .ok mp := by
  obtain ⟨_, hsl, hkv, S, hS, hcase⟩ := coreVerifyBody_ok h
  rcases hcase with ⟨_, hf, ht⟩ | ⟨hsub, P, mp, _, _, hP, hmp, _, _, _, ht⟩
  · exact .inl ⟨ht, hf⟩
  · right
    obtain ⟨P', hl, hP', hi, hs⟩ := (keyValidate_iff_canon pk).mp hkv
    have : P' = P := by rw [hP] at hP'; exact (Except.ok.inj hP').symm
    subst this
    exact ⟨S, P', mp, ht, ⟨hsl, hS, hsub⟩, ⟨hl, hP, hi, hs⟩, hkv, hmp⟩

/-- `pairing_args_safe_core` in membership form: every recorded pair is `(SafeG2, SafeG1)`. -/
theorem pairing_args_safe_core_mem (H : HashFn) (s : Suite) (pk msg sig dst : Bytes) (b : Bool)
    (tr : List (G2Pt × G1Pt)) (h : coreVerifyBody H s pk msg sig dst = .ok (b, tr)) :
    ∀ qp ∈ tr, SafeG2 H sig qp.1 ∧ SafeG1 qp.2 := by
  rcases pairing_args_safe_core H s pk msg sig dst b tr h with ⟨ht, _⟩ | ⟨S, P, mp, ht, hS, hP, hkv, hmp⟩
  · subst ht; intro qp hqp; cases hqp
  · subst ht
    intro qp hqp
    simp only [List.mem_cons, List.not_mem_nil, or_false] at hqp
    rcases hqp with rfl | rfl
    · exact ⟨.inl hS, .inl rfl⟩
    · exact ⟨.inr ⟨_, _, hmp⟩, .inr (.inr ⟨pk, P, hkv, hP, .inr rfl⟩)⟩

/-- **Every argument `_CoreAggregateVerify` passes to `pairing` is validated** (invariant over its
    `for pk, message in zip(PKs, messages)` loop).  Whenever the `try` body returns, the recorded list of
    `(Q, P)` pairing arguments is either empty (signature failed the subgroup check) or consists of one pair
    per `(pk, message)` entry, in order, with `pk` having passed `KeyValidate`, `P = pubkey_to_G1(pk)` and
    `Q = hash_to_G2(message, DST)`, followed by the single pair `(S, −G1)` with `S` the decoded signature
    that passed `subgroup_check`. -/
theorem pairing_args_safe_agg (H : HashFn) (s : Suite) (pks msgs : List Bytes) (sig dst : Bytes)
    (b : Bool) (tr : List (G2Pt × G1Pt))
    (h : coreAggregateVerifyBody H s pks msgs sig dst = .ok (b, tr)) :
    (tr = [] ∧ b = false) ∨
    ∃ S ext, tr = ext ++ [(S, Gen.OptBls.neg blsG1)] ∧ CanonSig sig S ∧
      ext.length = (List.zip pks msgs).length ∧
      AllArgs H dst (List.zip pks msgs) ext := by
  obtain ⟨_, _, hsl, _, S, hS, hcase⟩ := coreAggregateVerifyBody_ok h
  rcases hcase with ⟨_, hf, ht⟩ | ⟨hsub, ext, _, _, _, hall, _, _, ht⟩
  · exact .inl ⟨ht, hf⟩
  · exact .inr ⟨S, ext, ht, ⟨hsl, hS, hsub⟩, hall.length_eq, hall⟩

/-- `pairing_args_safe_agg` in membership form: every recorded pair is `(SafeG2, SafeG1)`. -/
theorem pairing_args_safe_agg_mem (H : HashFn) (s : Suite) (pks msgs : List Bytes) (sig dst : Bytes)
    (b : Bool) (tr : List (G2Pt × G1Pt))
    (h : coreAggregateVerifyBody H s pks msgs sig dst = .ok (b, tr)) :
    ∀ qp ∈ tr, SafeG2 H sig qp.1 ∧ SafeG1 qp.2 := by
  rcases pairing_args_safe_agg H s pks msgs sig dst b tr h with ⟨ht, _⟩ | ⟨S, ext, ht, hS, _, hall⟩
  · subst ht; intro qp hqp; cases hqp
  · subst ht
    intro qp hqp
    rcases List.mem_append.mp hqp with hq | hq
    · obtain ⟨pm, _, hkv, hP, hmp⟩ := hall.mem qp hq
      obtain ⟨P0, hP0⟩ := (keyValidate_iff_canon pm.1).mp hkv
      have : P0 = qp.2 := by
        have := hP0.2.1; rw [hP] at this; exact (Except.ok.inj this).symm
      subst this
      exact ⟨.inr ⟨_, _, hmp⟩, .inr (.inr ⟨pm.1, _, hkv, hP0, .inl rfl⟩)⟩
    · simp only [List.mem_cons, List.not_mem_nil, or_false] at hq
      subst hq
      exact ⟨.inl hS, .inr (.inl rfl)⟩

set_option maxRecDepth 100000 in
/-- **The fixed G1 arguments are sound too**: the generator `G1` and `−G1` are on the curve
    `y² = x³ + 4`, are not the identity, and pass `subgroup_check` (kernel evaluation of the generated code). -/
theorem generator_args_safe :
    Gen.OptBls.is_on_curve blsG1 (Fq.ofInt optimized_bls12_381_b : Fq blsP) = true ∧
    Gen.OptBls.is_inf blsG1 = false ∧ subgroupCheck blsG1 = true ∧
    Gen.OptBls.is_on_curve (Gen.OptBls.neg blsG1) (Fq.ofInt optimized_bls12_381_b : Fq blsP) = true ∧
    Gen.OptBls.is_inf (Gen.OptBls.neg blsG1) = false ∧ subgroupCheck (Gen.OptBls.neg blsG1) = true := by
  decide +kernel

end PyEcc.C04
