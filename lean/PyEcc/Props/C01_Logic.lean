/-
  PyEcc.Props.C01_Logic — the hypothesis-free part of C01 (py_ecc/bls/ciphersuites.py):
  secret-key validation (`_is_valid_privkey`) and the range of `KeyGen`.
-/
import PyEcc.Lemmas.BlsSem

namespace PyEcc.C01
open PyEcc PyEcc.BlsSem Gen.Consts

/-- **The suites' `curve_order` is the BLS12-381 group order `r`** (the constant imported by
    `ciphersuites.py` is the one of `py_ecc.bls12_381`, and of `py_ecc.optimized_bls12_381`). -/
theorem curveOrder_eq :
    curveOrder = bls12_381_curve_order ∧ curveOrder = optimized_bls12_381_curve_order ∧
    curveOrder = blsR := by
  decide

/-- **Exact accept set of `_is_valid_privkey`.**  An `int` argument `z` is accepted iff `1 ≤ z < r`
    (`bool` is an `int` in Python: `True` is `1`, accepted; `False` is `0`, rejected), and the key used
    afterwards is `z` itself. -/
theorem isValidPrivkey_int_iff (z : Int) (k : Nat) :
    isValidPrivkey (.int z) = some k ↔ 1 ≤ z ∧ z < (curveOrder : Int) ∧ k = z.toNat := by
  simp only [isValidPrivkey]
  constructor
  · intro h
    split at h
    · next hz => cases h; exact ⟨by omega, hz.2, rfl⟩
    · cases h
  · rintro ⟨h1, h2, rfl⟩
    have : z > 0 ∧ z < (curveOrder : Int) := ⟨by omega, h2⟩
    simp [this]

/-- **Anything that is not an `int` is rejected** (`isinstance(privkey, int)` fails: `str`, `float`,
    `None`, `bytes`, …). -/
theorem isValidPrivkey_other : isValidPrivkey .other = none := rfl

/-- rejection in terms of the value: an `int` is rejected iff it is outside `[1, r-1]` -/
theorem isValidPrivkey_none_iff (sk : PyArg) :
    isValidPrivkey sk = none ↔
      sk = .other ∨ ∃ z, sk = .int z ∧ ¬ (1 ≤ z ∧ z < (curveOrder : Int)) := by
  cases sk with
  | other => simp [isValidPrivkey]
  | int z =>
    simp only [isValidPrivkey]
    constructor
    · intro h
      split at h
      · cases h
      · next hz => exact .inr ⟨z, rfl, fun hh => hz ⟨by omega, hh.2⟩⟩
    · rintro (h | ⟨z', hz', hn⟩)
      · cases h
      · cases hz'
        have : ¬ (z > 0 ∧ z < (curveOrder : Int)) := fun hh => hn ⟨by omega, hh.2⟩
        simp [this]

/-- **A rejected secret key makes every signing-side API raise `ValidationError`.**  If
    `_is_valid_privkey(sk)` is false (not an `int`, or an `int` outside `[1, r-1]`: `0`, `r`, negative, …)
    then `SkToPk(sk)`, `Sign(sk, m)` (all three suites, every message, every hash function) and
    `PopProve(sk)` raise `ValidationError` — before any hashing or curve arithmetic. -/
theorem sk_rejected (H : HashFn) (s : Suite) (sk : PyArg) (m : Bytes) (h : isValidPrivkey sk = none) :
    skToPk sk = .error .validation ∧ sign H s sk m = .error .validation ∧
    popProve H sk = .error .validation := by
  have h1 : skToPk sk = .error .validation := by unfold skToPk; rw [h]
  have h2 : ∀ msg dst, coreSign H sk msg dst = .error .validation := by
    intro msg dst; unfold coreSign; rw [h]
  refine ⟨h1, ?_, ?_⟩
  · cases s
    · exact h2 _ _
    · show (skToPk sk >>= fun pk => coreSign H sk (pk ++ m) Suite.aug.dst) = _
      rw [h1]; rfl
    · exact h2 _ _
  · show (skToPk sk >>= fun pk => coreSign H sk pk popTag) = _
    rw [h1]; rfl

/-- non-vacuity: `0`, `r`, `-1` and non-ints are rejected -/
example : isValidPrivkey (.int 0) = none ∧ isValidPrivkey (.int curveOrder) = none ∧
    isValidPrivkey (.int (-1)) = none ∧ isValidPrivkey .other = none := by decide

/-- the boundary keys `1` and `r - 1` are accepted -/
example : isValidPrivkey (.int 1) = some 1 ∧
    isValidPrivkey (.int (curveOrder - 1 : Nat)) = some (curveOrder - 1) := by decide

theorem keyGenLoop_range (H : HashFn) (ikm info : Bytes) :
    ∀ (fuel : Nat) (salt : Bytes) (sk : Nat), keyGenLoop H ikm info fuel salt = .ok sk →
      1 ≤ sk ∧ sk < curveOrder := by
  intro fuel
  induction fuel with
  | zero => intro salt sk h; cases h
  | succ f ih =>
    intro salt sk h
    unfold keyGenLoop at h
    simp only [bind, Except.bind, pure, Except.pure] at h
    split at h; · cases h
    split at h; · cases h
    next okm _ =>
    split at h
    · exact ih _ _ h
    · next hne =>
      have := Except.ok.inj h
      subst this
      exact ⟨by omega, Nat.mod_lt _ (by decide)⟩

/-- **Every value `KeyGen` returns is a valid secret key.**  If `KeyGen(IKM, key_info)` returns `sk`
    (any hash function, any byte strings) then `1 ≤ sk < r`, hence `_is_valid_privkey(sk)` accepts it. -/
theorem keyGen_range (H : HashFn) (ikm info : Bytes) (sk : Nat) (h : keyGen H ikm info = .ok sk) :
    1 ≤ sk ∧ sk < curveOrder ∧ isValidPrivkey (.int sk) = some sk := by
  obtain ⟨h1, h2⟩ := keyGenLoop_range H ikm info _ _ _ h
  refine ⟨h1, h2, ?_⟩
  rw [isValidPrivkey_int_iff]
  exact ⟨by omega, by omega, by simp⟩

/-- `hkdf_expand(prk, info, 48)` never raises: two HMAC blocks, counter bytes 1 and 2 -/
theorem hkdfExpand_48_ok (H : HashFn) (prk info : Bytes) : ∃ okm, hkdfExpand H prk info 48 = .ok okm := by
  simp [hkdfExpand, ceilDiv, hkdfExpandLoop, bind, Except.bind, pure, Except.pure]

/-- one round of the `while SK == 0` loop of `KeyGen`, from the current salt -/
def keyGenRound (H : HashFn) (ikm info salt : Bytes) : Except PyErr Nat := do
  let okm ← hkdfExpand H (hkdfExtract H (H.run salt) (ikm ++ [0])) (info ++ toBytesBE 2 48) 48
  pure (os2ip okm % curveOrder)

/-- **`KeyGen` returns after the first iteration unless `OKM ≡ 0 (mod r)`.**  If the first round's
    `os2ip(okm) % r` is non-zero, that value is the result. -/
theorem keyGen_first_iteration (H : HashFn) (ikm info : Bytes) (sk : Nat)
    (h : keyGenRound H ikm info "BLS-SIG-KEYGEN-SALT-".toUTF8.toList = .ok sk) (hne : sk ≠ 0) :
    keyGen H ikm info = .ok sk := by
  unfold keyGenRound at h
  obtain ⟨okm, hokm, hsk⟩ := bind_ok h
  have hsk' := Except.ok.inj hsk
  unfold keyGen keyGenLoop
  have hl : suites_keygen_L = 48 := rfl
  have hi : i2osp 48 2 = .ok (toBytesBE 2 48) := i2osp_ok (by decide)
  simp only [hl, hi, bind, Except.bind, pure, Except.pure, hokm]
  rw [hsk']
  simp [hne]

/-- **`KeyGen` raises nothing.**  The only `error` of the model's `keyGen` is fuel exhaustion
    (`PyErr.other` after 64 consecutive rounds with `OKM ≡ 0 (mod r)`), where the Python `while` loop would
    simply continue; `i2osp(48, 2)` and `hkdf_expand(…, 48)` cannot raise. -/
theorem keyGen_error (H : HashFn) (ikm info : Bytes) (e : PyErr) (h : keyGen H ikm info = .error e) :
    e = .other := by
  have key : ∀ (fuel : Nat) (salt : Bytes), keyGenLoop H ikm info fuel salt = .error e → e = .other := by
    intro fuel
    induction fuel with
    | zero => intro salt h; exact (Except.error.inj h).symm
    | succ f ih =>
      intro salt h
      unfold keyGenLoop at h
      have hl : suites_keygen_L = 48 := rfl
      have hi : i2osp 48 2 = .ok (toBytesBE 2 48) := i2osp_ok (by decide)
      obtain ⟨okm, hokm⟩ := hkdfExpand_48_ok H (hkdfExtract H (H.run salt) (ikm ++ [0]))
        (info ++ toBytesBE 2 48)
      simp only [hl, hi, bind, Except.bind, pure, Except.pure, hokm] at h
      split at h
      · exact ih _ h
      · cases h
  exact key _ _ h

/-- non-vacuity of `keyGen_range` / `keyGen_first_iteration`: with the (degenerate) hash function that
    maps everything to 32 bytes `0x01`, `KeyGen(b"", b"")` returns in the first round -/
example : ∃ sk, keyGen ⟨32, 64, fun _ => List.replicate 32 1⟩ [] [] = .ok sk ∧ sk ≠ 0 := by
  have h : (match keyGenRound ⟨32, 64, fun _ => List.replicate 32 1⟩ [] []
      "BLS-SIG-KEYGEN-SALT-".toUTF8.toList with
      | .ok sk => decide (sk ≠ 0) | .error _ => false) = true := by decide +kernel
  split at h
  · next sk hsk =>
    exact ⟨sk, keyGen_first_iteration _ _ _ _ hsk (of_decide_eq_true h), of_decide_eq_true h⟩
  · cases h

end PyEcc.C01
