/-
  PyEcc.Props.C12_Gen — property C12 (optimized pairings equal reference pairings; the split final exponentiation and
  the Frobenius shortcut are exact; the two-step form used by verifiers) restated about the GENERATED code.  Every py_ecc
  function in a statement below is a `PyEcc.Gen.*` definition, i.e. Lean code the translator produced from the Python
  source of this run:
    `Gen.ExtraPairing.{OptBls,OptBn,RefBls,RefBn}.pairing`, `.final_exponentiate`
    `Gen.ExtraMiller.{…}.miller_loop`, `.miller_loop_core`
    `Gen.ExtraHashCurve.{…}.twist`, `.cast_point_to_fq12`, `Gen.ExtraHashCurve.OptBls.exp_by_p`
    `Gen.{OptBls,OptBn,RefBls,RefBn}.*` (curve modules), `Gen.ExtraCodec.subgroup_check`
  Proofs: the tie theorems `Props/TiePairing.lean`, `TieMiller.lean`, `TieHashCurve.lean`, `TieCofactor.lean` composed
  with the model theorems of `Props/C12.lean`, `C12_Exp.lean`, `C12_Final.lean`, `C12_Miller.lean`, `C12_MillerBn.lean`.
  `WF x` says that the FQ12 element `x` has 12 coefficients (every `FQ12` object has); `CanonT Q` that the coefficients
  of the three coordinates of `Q` are reduced; `toAff` is the affine point a projective triple represents.
-/
import PyEcc.Props.C12
import PyEcc.Props.C12_Final
import PyEcc.Props.C12_Miller
import PyEcc.Props.C12_MillerBn
import PyEcc.Props.TiePairing
import PyEcc.Props.TieHashCurve
import PyEcc.Props.TieCofactor

set_option linter.unusedSectionVars false
set_option maxRecDepth 100000

namespace PyEcc.C12.Gen
open Polynomial PyEcc PyEcc.Gen.Consts PyEcc.Fqp PyEcc.FqpSem PyEcc.Transfer PyEcc.PairingSem

/-! ## the generated functions call each other: `miller_loop` uses the generated `twist` / `cast_point_to_fq12`,
    `final_exponentiate` the generated `exp_by_p` -/

/-- the generated optimized bls12_381 `miller_loop` is its loop core instantiated with the generated `linefunc`,
    `double`, `add` of `optimized_curve.py` and the generated `twist`, `cast_point_to_fq12` -/
theorem miller_loop_optBls_calls (Q : OBls2 × OBls2 × OBls2) (P : Fq blsP × Fq blsP × Fq blsP) (fe : Bool) :
    Gen.ExtraMiller.OptBls.miller_loop Q P fe =
      Gen.ExtraMiller.OptBls.miller_loop_core Q P fe Gen.OptBls.linefunc Gen.OptBls.double Gen.OptBls.add
        Gen.ExtraHashCurve.OptBls.twist Gen.ExtraHashCurve.OptBls.cast_point_to_fq12
        ((List.take (62 + 1) optimized_bls12_381_pseudo_binary_encoding).reverse)
        ((blsP ^ 12 - 1) / optimized_bls12_381_curve_order) := by
  have h1 : (Gen.ExtraHashCurve.OptBls.twist : _ → OBls12 × OBls12 × OBls12) = fun pt => twistOptBls pt :=
    funext Tie.twist_optbls_eq
  have h2 : (Gen.ExtraHashCurve.OptBls.cast_point_to_fq12 : _ → OBls12 × OBls12 × OBls12) =
      fun pt => (castFq12 pt.1, castFq12 pt.2.1, castFq12 pt.2.2) := funext Tie.cast_point_to_fq12_optbls_eq
  rw [h1, h2]; rfl

/-- the generated optimized bls12_381 `final_exponentiate` is the three lines of the source with the generated
    `exp_by_p`: `p2 = exp_by_p(exp_by_p(p)) * p`, `p3 = exp_by_p⁶(p2) / p2`, `return p3 ** cofactor` -/
theorem final_exponentiate_optBls_calls (x : OBls12) :
    Gen.ExtraPairing.OptBls.final_exponentiate x =
      (let e := Gen.ExtraHashCurve.OptBls.exp_by_p
       let p2 := e (e x) * x
       let p3 := e (e (e (e (e (e p2))))) / p2
       p3 ^ ((blsP ^ 4 - blsP ^ 2 + 1) / optimized_bls12_381_curve_order)) := by
  have h : Gen.ExtraHashCurve.OptBls.exp_by_p = expByP blsExptable := funext Tie.exp_by_p_eq
  -- through the tie (not by unfolding the generated definition): stays valid when the source is reshaped
  rw [h, Tie.final_exponentiate_optBls_eq]; rfl

/-! ## the Frobenius shortcut and the fast final exponentiation are exact -/

section generic
variable {F : Type} [Zero F] [One F] [Add F] [Sub F] [Mul F] [Neg F] [Div F] [NatCast F] [Pow F Nat] [DecidableEq F]
/-- the generated reference `final_exponentiate` functions are written for any FQ12 class: plain powers -/
theorem refBls_final_exponentiate_eq (x : F) : Gen.ExtraPairing.RefBls.final_exponentiate x = x ^ blsFinalExp := by
  unfold Gen.ExtraPairing.RefBls.final_exponentiate blsFinalExp
  with_reducible rfl
theorem refBn_final_exponentiate_eq (x : F) : Gen.ExtraPairing.RefBn.final_exponentiate x = x ^ bnFinalExp := by
  unfold Gen.ExtraPairing.RefBn.final_exponentiate bnFinalExp
  with_reducible rfl
end generic

/-- **`exp_by_p(x) == x ** field_modulus` for every `x` in FQ12** (every `x` with 12 coefficients: `0`, `1`, sparse,
    random), as an equality of coefficient lists — the generated Frobenius shortcut of
    `optimized_bls12_381/optimized_pairing.py` is the plain `p`-th power. -/
theorem exp_by_p_eq_pow (x : OBls12) (hx : WF x) : Gen.ExtraHashCurve.OptBls.exp_by_p x = x ^ blsP := by
  rw [Tie.exp_by_p_eq]; exact C12.expByP_eq_pow x hx

/-- **The fast `final_exponentiate` is exact**: for every `x` in FQ12 (12 coefficients, `0` included) the generated
    optimized bls12_381 `final_exponentiate(x)` (`exp_by_p` twice, six times, a division, the cofactor power) equals the
    plain power `x ** ((field_modulus**12 − 1) // curve_order)` — with the module's constants, with the standard
    constants `(p¹² − 1)/r` of BLS12-381, and hence it equals the generated REFERENCE `final_exponentiate(x)`. -/
theorem final_exponentiate_optBls_eq_pow (x : OBls12) (hx : WF x) :
    Gen.ExtraPairing.OptBls.final_exponentiate x = x ^ ((blsP ^ 12 - 1) / optimized_bls12_381_curve_order) ∧
    Gen.ExtraPairing.OptBls.final_exponentiate x = x ^ ((Spec.BLS12381.p ^ 12 - 1) / Spec.BLS12381.r) ∧
    Gen.ExtraPairing.OptBls.final_exponentiate x = Gen.ExtraPairing.RefBls.final_exponentiate x := by
  rw [Tie.final_exponentiate_optBls_eq]
  refine ⟨C12.finalExponentiateOptBls_eq_pow' x hx, C12.finalExponentiateOptBls_eq_pow x hx, ?_⟩
  rw [refBls_final_exponentiate_eq, C12.finalExponentiateOptBls_eq_pow x hx, C12.Exp.bls_final_exp_eq.1]

/-- the generated bn128 `final_exponentiate` functions (optimized and reference: the same plain power) use the standard
    exponent `(p¹² − 1)/r` of alt_bn128, and so does the generated reference bls12_381 one -/
theorem final_exponentiate_plain (x : OBn12) (y : RBn12) (z : RBls12) :
    Gen.ExtraPairing.OptBn.final_exponentiate x = x ^ ((Spec.BN254.p ^ 12 - 1) / Spec.BN254.r) ∧
    Gen.ExtraPairing.RefBn.final_exponentiate y = y ^ ((Spec.BN254.p ^ 12 - 1) / Spec.BN254.r) ∧
    Gen.ExtraPairing.RefBls.final_exponentiate z = z ^ ((Spec.BLS12381.p ^ 12 - 1) / Spec.BLS12381.r) ∧
    Gen.ExtraPairing.OptBn.final_exponentiate x = Gen.ExtraPairing.RefBn.final_exponentiate x := by
  rw [Tie.final_exponentiate_optBn_eq, refBn_final_exponentiate_eq, refBls_final_exponentiate_eq,
    refBn_final_exponentiate_eq, C12.Exp.bn_final_exp_eq.1, C12.Exp.bn_final_exp_eq.2, C12.Exp.bls_final_exp_eq.1]
  exact ⟨rfl, rfl, rfl, rfl⟩

/-! ## the two-step form used by verifiers -/

/-- **`pairing(Q, P, True)` is `final_exponentiate(pairing(Q, P, False))`** for the generated optimized bls12_381 and
    bn128 functions: the same refusals (`ValueError`), and on every Miller value `f` returned with
    `final_exponentiate=False`, the call with `final_exponentiate=True` returns the generated `final_exponentiate(f)`. -/
theorem pairing_false_then_final :
    (∀ (Q : OBls2 × OBls2 × OBls2) (P : Fq blsP × Fq blsP × Fq blsP),
      (∀ e, Gen.ExtraPairing.OptBls.pairing Q P false = .error e → Gen.ExtraPairing.OptBls.pairing Q P true = .error e) ∧
      (∀ f, Gen.ExtraPairing.OptBls.pairing Q P false = .ok f →
        Gen.ExtraPairing.OptBls.pairing Q P true = .ok (Gen.ExtraPairing.OptBls.final_exponentiate f))) ∧
    (∀ (Q : OBn2 × OBn2 × OBn2) (P : Fq bnP × Fq bnP × Fq bnP),
      (∀ e, Gen.ExtraPairing.OptBn.pairing Q P false = .error e → Gen.ExtraPairing.OptBn.pairing Q P true = .error e) ∧
      (∀ f, Gen.ExtraPairing.OptBn.pairing Q P false = .ok f →
        Gen.ExtraPairing.OptBn.pairing Q P true = .ok (Gen.ExtraPairing.OptBn.final_exponentiate f))) := by
  refine ⟨fun Q P => ⟨fun e h => ?_, fun f h => ?_⟩, fun Q P => ⟨fun e h => ?_, fun f h => ?_⟩⟩
  · rw [Tie.pairing_optBls_eq] at h ⊢
    rw [C12.pairingOptBls_finalExp, h]; rfl
  · rw [Tie.pairing_optBls_eq] at h ⊢
    rw [Tie.final_exponentiate_optBls_eq]; exact C12.pairingOptBls_false_then_final Q P f h
  · rw [Tie.pairing_optBn_eq] at h ⊢
    rw [C12.pairingOptBn_finalExp, h]; rfl
  · rw [Tie.pairing_optBn_eq] at h ⊢
    rw [Tie.final_exponentiate_optBn_eq, C12.pairingOptBn_finalExp, h]; rfl

/-- **Two-step form, optimized bls12_381.**  If every `fᵢ` is a value returned by the generated
    `pairing(Qᵢ, Pᵢ, final_exponentiate=False)`, then multiplying them (`FQ12.one() * f₁ * … * fₙ`) and passing the
    product ONCE through the generated `final_exponentiate` gives exactly the product of the individually exponentiated
    values `final_exponentiate(fᵢ)` — which are the values `pairing(Qᵢ, Pᵢ, True)` returns. -/
theorem two_step_optBls (fs : List OBls12)
    (h : ∀ f ∈ fs, ∃ Q P, Gen.ExtraPairing.OptBls.pairing Q P false = .ok f) :
    Gen.ExtraPairing.OptBls.final_exponentiate (fs.foldl (· * ·) 1) =
      (fs.map Gen.ExtraPairing.OptBls.final_exponentiate).foldl (· * ·) 1 ∧
    ∀ f ∈ fs, ∃ Q P, Gen.ExtraPairing.OptBls.pairing Q P true = .ok (Gen.ExtraPairing.OptBls.final_exponentiate f) := by
  have h' : ∀ f ∈ fs, ∃ Q P, pairingOptBls Q P false = .ok f := by
    intro f hf; obtain ⟨Q, P, e⟩ := h f hf; exact ⟨Q, P, by rwa [Tie.pairing_optBls_eq] at e⟩
  have hwf : ∀ f ∈ fs, WF f := by
    intro f hf; obtain ⟨Q, P, e⟩ := h' f hf; exact C12.pairingOptBls_wf Q P false f e
  obtain ⟨t1, _⟩ := C12.pairingOptBls_two_step fs h'
  have hprod : WF (fs.foldl (· * ·) (1 : OBls12)) := (foldl_mul_spec fs hwf 1 (wf_one (by decide))).1
  constructor
  · have hmap : fs.map Gen.ExtraPairing.OptBls.final_exponentiate =
        fs.map (· ^ ((blsP ^ 12 - 1) / optimized_bls12_381_curve_order)) :=
      List.map_congr_left (fun f hf => (final_exponentiate_optBls_eq_pow f (hwf f hf)).1)
    rw [(final_exponentiate_optBls_eq_pow _ hprod).1, hmap]
    exact t1
  · intro f hf
    obtain ⟨Q, P, e⟩ := h f hf
    exact ⟨Q, P, (pairing_false_then_final.1 Q P).2 f e⟩

/-- **Two-step form, optimized bn128**: the same with the generated bn128 `pairing` and `final_exponentiate`. -/
theorem two_step_optBn (fs : List OBn12)
    (h : ∀ f ∈ fs, ∃ Q P, Gen.ExtraPairing.OptBn.pairing Q P false = .ok f) :
    Gen.ExtraPairing.OptBn.final_exponentiate (fs.foldl (· * ·) 1) =
      (fs.map Gen.ExtraPairing.OptBn.final_exponentiate).foldl (· * ·) 1 ∧
    ∀ f ∈ fs, ∃ Q P, Gen.ExtraPairing.OptBn.pairing Q P true = .ok (Gen.ExtraPairing.OptBn.final_exponentiate f) := by
  have h' : ∀ f ∈ fs, ∃ Q P, pairingOptBn Q P false = .ok f := by
    intro f hf; obtain ⟨Q, P, e⟩ := h f hf; exact ⟨Q, P, by rwa [Tie.pairing_optBn_eq] at e⟩
  obtain ⟨t1, _⟩ := C12.pairingOptBn_two_step fs h'
  constructor
  · have hmap : fs.map Gen.ExtraPairing.OptBn.final_exponentiate =
        fs.map (· ^ ((bnP ^ 12 - 1) / optimized_bn128_curve_order)) :=
      List.map_congr_left (fun f _ => Tie.final_exponentiate_optBn_eq f)
    rw [Tie.final_exponentiate_optBn_eq, hmap]
    exact t1
  · intro f hf
    obtain ⟨Q, P, e⟩ := h f hf
    exact ⟨Q, P, (pairing_false_then_final.2 Q P).2 f e⟩

/-! ## optimized pairing = reference pairing -/

/-- **Optimized = reference `pairing`, bls12_381, on G2.**  Let `Q` be a reduced FQ2 triple that passes the generated
    `subgroup_check` and `P` ANY FQ triple (on the curve or not, in the subgroup or not, ∞ or not) — ANY projective
    representatives of the reference-module inputs `q : Optional[(FQ2, FQ2)]`, `p : Optional[(FQ, FQ)]` (`hQ`, `hP`).
    Then the generated `optimized_bls12_381.pairing(Q, P)` and the generated `bls12_381.pairing(q, p)` have the same
    outcome: both raise `ValueError`, or both return the same twelve FQ12 coefficients.  The same holds for
    `pairing(Q, P, False)` raised to `(p¹² − 1)/r`. -/
theorem pairing_optBls_eq_refBls (Q : OBls2 × OBls2 × OBls2) (P : Fq blsP × Fq blsP × Fq blsP)
    (q : Option (RBls2 × RBls2)) (p : Option (Fq blsP × Fq blsP))
    (cQ : CanonT Q) (cq : MillerSem.GoodO Canon q)
    (hQ : toAff (mapT toQ Q) = MillerSem.mapO toQ q) (hP : toAff P = p)
    (hsub : Gen.ExtraCodec.subgroup_check Q = true) :
    (Gen.ExtraPairing.OptBls.pairing Q P true).map Fqp.coeffs = (Gen.ExtraPairing.RefBls.pairing q p).map Fqp.coeffs ∧
    ((Gen.ExtraPairing.OptBls.pairing Q P false).map
        (· ^ ((blsP ^ 12 - 1) / optimized_bls12_381_curve_order))).map Fqp.coeffs
      = (Gen.ExtraPairing.RefBls.pairing q p).map Fqp.coeffs := by
  rw [Tie.subgroup_check_eq] at hsub
  rw [Tie.pairing_optBls_eq, Tie.pairing_optBls_eq, Tie.pairing_refBls_eq]
  exact ⟨C12M.pairingOptBls_eq_pairingRefBls_subgroup Q P q p cQ cq hQ hP hsub,
    C12M.pairingOptBls_false_pow_eq_pairingRefBls_subgroup Q P q p cQ cq hQ hP hsub⟩

/-- **Optimized = reference `pairing`, bls12_381, inputs converted by the generated `normalize`** — no representation
    hypotheses: for every reduced FQ2 triple `Q` passing `subgroup_check` and EVERY FQ triple `P`, the generated
    `optimized_bls12_381.pairing(Q, P)` has the same outcome as the generated `bls12_381.pairing(q, p)` where `q`, `p`
    are `None` when `z == 0` and `normalize(·)` otherwise (`C12M.refOfOptG2`, `C12M.refOfOptG1`). -/
theorem pairing_optBls_eq_refBls_normalize (Q : OBls2 × OBls2 × OBls2) (P : Fq blsP × Fq blsP × Fq blsP)
    (cQ : CanonT Q) (hsub : Gen.ExtraCodec.subgroup_check Q = true) :
    (Gen.ExtraPairing.OptBls.pairing Q P true).map Fqp.coeffs =
      (Gen.ExtraPairing.RefBls.pairing
        (if Q.2.2 = 0 then none
          else some (⟨(Gen.OptBls.normalize Q).1.coeffs⟩, ⟨(Gen.OptBls.normalize Q).2.coeffs⟩))
        (if P.2.2 = 0 then none else some (Gen.OptBls.normalize P))).map Fqp.coeffs := by
  rw [Tie.subgroup_check_eq] at hsub
  rw [Tie.pairing_optBls_eq, Tie.pairing_refBls_eq]
  exact C12M.pairingOptBls_eq_pairingRefBls_normalize Q P cQ hsub

/-- **Optimized = reference `pairing`, bn128, on G2.**  Let `Q` be a reduced FQ2 triple with
    `multiply(Q, curve_order)` infinite and `P` ANY FQ triple — any projective representatives of the reference-module
    inputs `q`, `p`.  Then the generated `optimized_bn128.pairing(Q, P)` and the generated `bn128.pairing(q, p)` both
    raise `ValueError` or return the same twelve FQ12 coefficients; the same for `pairing(Q, P, False)` raised to
    `(p¹² − 1)/r`. -/
theorem pairing_optBn_eq_refBn (Q : OBn2 × OBn2 × OBn2) (P : Fq bnP × Fq bnP × Fq bnP)
    (q : Option (RBn2 × RBn2)) (p : Option (Fq bnP × Fq bnP))
    (cQ : CanonT Q) (cq : Transfer.GoodO Canon q)
    (hQ : toAff (mapT toQ Q) = Transfer.mapO (toQ : RBn2 → K2bn) q) (hP : toAff P = p)
    (hsub : Gen.OptBn.is_inf (Gen.OptBn.multiply Q optimized_bn128_curve_order) = true) :
    (Gen.ExtraPairing.OptBn.pairing Q P true).map Fqp.coeffs = (Gen.ExtraPairing.RefBn.pairing q p).map Fqp.coeffs ∧
    ((Gen.ExtraPairing.OptBn.pairing Q P false).map
        (· ^ ((bnP ^ 12 - 1) / optimized_bn128_curve_order))).map Fqp.coeffs
      = (Gen.ExtraPairing.RefBn.pairing q p).map Fqp.coeffs := by
  classical
  rw [Tie.pairing_optBn_eq, Tie.pairing_optBn_eq, Tie.pairing_refBn_eq]
  exact ⟨C12MB.pairingOptBn_eq_pairingRefBn_subgroup Q P q p cQ cq hQ hP hsub,
    C12MB.pairingOptBn_false_pow_eq_pairingRefBn_subgroup Q P q p cQ cq hQ hP hsub⟩

/-- **Optimized = reference `pairing`, bn128, inputs converted by the generated `normalize`**: for every reduced FQ2
    triple `Q` with `multiply(Q, curve_order)` infinite and EVERY FQ triple `P`. -/
theorem pairing_optBn_eq_refBn_normalize (Q : OBn2 × OBn2 × OBn2) (P : Fq bnP × Fq bnP × Fq bnP) (cQ : CanonT Q)
    (hsub : Gen.OptBn.is_inf (Gen.OptBn.multiply Q optimized_bn128_curve_order) = true) :
    (Gen.ExtraPairing.OptBn.pairing Q P true).map Fqp.coeffs =
      (Gen.ExtraPairing.RefBn.pairing
        (if Q.2.2 = 0 then none
          else some (⟨(Gen.OptBn.normalize Q).1.coeffs⟩, ⟨(Gen.OptBn.normalize Q).2.coeffs⟩))
        (if P.2.2 = 0 then none else some (Gen.OptBn.normalize P))).map Fqp.coeffs := by
  rw [Tie.pairing_optBn_eq, Tie.pairing_refBn_eq]
  exact C12MB.pairingOptBn_eq_pairingRefBn_normalize Q P cQ hsub

/-- **Optimized = reference `miller_loop`, bn128.**  For finite on-curve representatives `Q`, `P` of the reference
    points `q`, `p` with `multiply(Q, curve_order)` infinite: the generated reference
    `miller_loop(twist(q), cast_point_to_fq12(p))` returns normally, and its value is, coefficient for coefficient, the
    value of the generated optimized `miller_loop(twist(Q), cast_point_to_fq12(P))` (signed-digit loop, numerator /
    denominator accumulation, both with the final exponentiation) — with the generated `twist` and `cast_point_to_fq12`
    of the two packages. -/
theorem miller_loop_optBn_eq_refBn {Q : OBn2 × OBn2 × OBn2} {q : Option (RBn2 × RBn2)} {P : Fq bnP × Fq bnP × Fq bnP}
    {p : Option (Fq bnP × Fq bnP)} (cQ : CanonT Q) (cq : Transfer.GoodO Canon q)
    (hQ : toAff (mapT toQ Q) = Transfer.mapO (toQ : RBn2 → K2bn) q) (hP : toAff P = p)
    (hon : Gen.OptBn.is_on_curve Q bnB2 = true)
    (honP : Gen.OptBn.is_on_curve P (Fq.ofInt optimized_bn128_b : Fq bnP) = true)
    (hQz : Q.2.2 ≠ 0) (hPz : P.2.2 ≠ 0)
    (hsub : Gen.OptBn.is_inf (Gen.OptBn.multiply Q optimized_bn128_curve_order) = true) :
    ∃ fr, Gen.ExtraMiller.RefBn.miller_loop (Gen.ExtraHashCurve.RefBn.twist q)
        (Gen.ExtraHashCurve.RefBn.cast_point_to_fq12 p) = .ok fr ∧
      (Gen.ExtraMiller.OptBn.miller_loop (Gen.ExtraHashCurve.OptBn.twist Q)
        (Gen.ExtraHashCurve.OptBn.cast_point_to_fq12 P) true).coeffs = fr.coeffs := by
  classical
  rw [Tie.miller_loop_refBn_eq, Tie.miller_loop_optBn_eq, Tie.twist_refbn_eq, Tie.twist_optbn_eq,
    Tie.cast_point_to_fq12_refbn_eq, Tie.cast_point_to_fq12_optbn_eq]
  exact C12MB.millerLoop_opt_eq_ref_bn cQ cq hQ hP hon honP hQz hPz hsub
    (C12MB.frobFinite_of_subgroup cQ hon hQz hsub)

/-! ## non-vacuity -/

/-- `FQ12.one()` and `exptable[1]` have 12 coefficients -/
example : WF (1 : OBls12) ∧ WF blsT1 := ⟨wf_one (by decide), wf_blsT1⟩
/-- `1 = pairing(∞, ∞, False)` is a value of the generated `pairing(·, ·, False)` (hypothesis of `two_step_optBls`) -/
example : ∀ f ∈ [(1 : OBls12)], ∃ Q P, Gen.ExtraPairing.OptBls.pairing Q P false = .ok f := by
  intro f hf
  simp only [List.mem_cons, List.not_mem_nil, or_false] at hf
  subst hf
  refine ⟨(1, 1, 0), (1, 1, 0), ?_⟩
  rw [Tie.pairing_optBls_eq, pairingOptBls_eq]
  decide +kernel
/-- the generator `G2` satisfies the hypotheses of `pairing_optBls_eq_refBls(_normalize)` with `q := normalize(G2)`,
    `p := normalize(G1)` -/
example [DecidableEq K2] : CanonT blsG2 ∧ Gen.ExtraCodec.subgroup_check blsG2 = true
    ∧ MillerSem.GoodO Canon (C12M.refOfOptG2 blsG2)
    ∧ toAff (mapT toQ blsG2) = MillerSem.mapO toQ (C12M.refOfOptG2 blsG2) ∧ toAff blsG1 = C12M.refOfOptG1 blsG1 :=
  ⟨C17M.blsG2_passes.1, by rw [Tie.subgroup_check_eq]; exact C17M.blsG2_passes.2.2,
    (C12M.refOfOptG2_repr C17M.blsG2_passes.1).1, (C12M.refOfOptG2_repr C17M.blsG2_passes.1).2,
    C12M.refOfOptG1_repr blsG1⟩
/-- the bn128 generators satisfy the hypotheses of `pairing_optBn_eq_refBn`, `miller_loop_optBn_eq_refBn` -/
example : CanonT bnG2 ∧ Gen.OptBn.is_on_curve bnG2 bnB2 = true ∧ bnG2.2.2 ≠ 0
    ∧ Gen.OptBn.is_inf (Gen.OptBn.multiply bnG2 optimized_bn128_curve_order) = true
    ∧ Transfer.GoodO Canon (C12MB.refOfOptG2 bnG2)
    ∧ toAff (mapT toQ bnG2) = Transfer.mapO (toQ : RBn2 → K2bn) (C12MB.refOfOptG2 bnG2)
    ∧ toAff bnG1 = C12MB.refOfOptG1 bnG1
    ∧ Gen.OptBn.is_on_curve bnG1 (Fq.ofInt optimized_bn128_b : Fq bnP) = true ∧ bnG1.2.2 ≠ 0 :=
  ⟨by decide +kernel, C07.Facts.bn_G2_opt.1, by decide, C07.Facts.bn_G2_opt.2.2,
    (C12MB.refOfOptG2_repr (Q := bnG2) (by decide +kernel)).1,
    (C12MB.refOfOptG2_repr (Q := bnG2) (by decide +kernel)).2,
    C12MB.refOfOptG1_repr bnG1, C07M.Bn.bnG1_facts.1, by decide⟩

end PyEcc.C12.Gen
