/-
  PyEcc.Props.C11_Gen — property C11 restated about the GENERATED code.

  `Gen/ExtraCodec.lean` (`get_flags`, `is_point_at_infinity`, `compress_G1`, `decompress_G1`, `compress_G2`,
  `decompress_G2` of `py_ecc/bls/point_compression.py`; `G1_to_pubkey`, `pubkey_to_G1`, `G2_to_signature`,
  `signature_to_G2` of `py_ecc/bls/g2_primitives.py`) and `Gen/ExtraHashCodec.lean` (`modular_squareroot_in_FQ2`) are
  re-generated from the Python source on every run.  Every theorem below is a headline theorem of `Props/C11.lean`,
  `C11_G2.lean`, `C11_G2Full.lean` in which each py_ecc function is the GENERATED definition (`PyEcc.Gen.ExtraCodec.*`,
  `PyEcc.Gen.ExtraHashCodec.*`, `PyEcc.Gen.ExtraHash.os2ip`, `PyEcc.Gen.OptBls.*`), obtained by rewriting with the tie
  theorems (`Props/TieCodec.lean`, `TieHashCodec.lean`, `TieHash.lean`) and applying the model theorem.  Hypotheses are
  those of the model theorems, unchanged.

  A G1 point is a projective triple `(X, Y, Z)` of `FQ` objects, a G2 point a triple of optimized `FQ2` objects
  (`Z = 0` meaning infinity); `CanonPt P` says the three `FQ2` coordinates are reduced (two coefficients in `[0, p)`, what
  every Python `FQ2` holds).  `Z1`, `Z2` are the library's constants for infinity.  On the specification side,
  `CodecSem.rhsOf2 z1 z2` is `x³ + 4(1+i)` for `x = FQ2([z2, z1 % 2^381])`, `CodecSem.encodedX2` that `x`, and
  `CodecSem.pickY2 a y` the root with sign flag `a` among `±y`.
-/
import PyEcc.Props.C11_G2Full
import PyEcc.Props.TieCodec
import PyEcc.Props.TieHashCodec
import PyEcc.Props.TieHash

set_option maxRecDepth 100000
set_option exponentiation.threshold 400

namespace PyEcc.C11.Gen
open PyEcc PyEcc.Fqp PyEcc.FqpSem PyEcc.CodecSem PyEcc.BytesLem PyEcc.Fq2Sqrt

/-! ## flags -/

/-- **Generated `get_flags(z)` reads bits 383, 382, 381 of `z`** (and nothing else: bits ≥ 384 are ignored). -/
theorem get_flags_eq (z : ℕ) : Gen.ExtraCodec.get_flags z =
    (decide (z / 2 ^ 383 % 2 = 1), decide (z / 2 ^ 382 % 2 = 1), decide (z / 2 ^ 381 % 2 = 1)) := by
  rw [Tie.get_flags_eq]; exact C11.getFlags_eq z

/-- **Generated `is_point_at_infinity(z1, z2)`** is true iff the low 381 bits of `z1` are zero and `z2` is `None` or `0`. -/
theorem is_point_at_infinity_iff (z1 : ℕ) (z2 : Option ℕ) :
    Gen.ExtraCodec.is_point_at_infinity z1 z2 = true ↔ z1 % 2 ^ 381 = 0 ∧ (z2 = none ∨ z2 = some 0) := by
  unfold Gen.ExtraCodec.is_point_at_infinity
  rw [pow2_381]
  cases z2 <;> simp

/-! ## G1 -/

/-- Generated `compress_G1(pt)` is always a 384-bit word, for every triple `pt` (on the curve or not). -/
theorem compress_G1_lt (P : G1Pt) : Gen.ExtraCodec.compress_G1 P < 2 ^ 384 := by
  rw [Tie.compress_G1_eq]; exact C11.compress_lt P

/-- **ZCash layout (G1).**  The flags of the generated `compress_G1(pt)`: `c_flag` is always set; `b_flag` is set
    exactly for infinity (`Z = 0`); `a_flag` is clear for infinity and otherwise says whether the affine `y = Y/Z`
    satisfies `2y ≥ p`, i.e. is the lexicographically larger root. -/
theorem get_flags_compress_G1 (P : G1Pt) :
    Gen.ExtraCodec.get_flags (Gen.ExtraCodec.compress_G1 P) =
      (true, Gen.OptBls.is_inf P,
        !Gen.OptBls.is_inf P && decide (blsP ≤ (Gen.OptBls.normalize P).2.n * 2)) := by
  rw [Tie.get_flags_eq, Tie.compress_G1_eq]; exact C11.getFlags_compress P

/-- **Generated `G1_to_pubkey(pt)` never raises and returns exactly 48 bytes**, whose big-endian value (generated
    `os2ip`) is the generated `compress_G1(pt)`. -/
theorem G1_to_pubkey_length (P : G1Pt) :
    ∃ bs, Gen.ExtraCodec.G1_to_pubkey P = .ok bs ∧ bs.length = 48 ∧
      Gen.ExtraHash.os2ip bs = Gen.ExtraCodec.compress_G1 P := by
  simp only [Tie.G1_to_pubkey_eq, Tie.compress_G1_eq, Tie.os2ip_eq]
  exact C11.g1ToPubkey_length P

/-- Generated `pubkey_to_G1(G1_to_pubkey(pt))` is `decompress_G1(compress_G1(pt))`: the byte layer loses nothing. -/
theorem pubkey_to_G1_G1_to_pubkey (P : G1Pt) {bs : Bytes} (h : Gen.ExtraCodec.G1_to_pubkey P = .ok bs) :
    Gen.ExtraCodec.pubkey_to_G1 bs = Gen.ExtraCodec.decompress_G1 (Gen.ExtraCodec.compress_G1 P) := by
  rw [Tie.G1_to_pubkey_eq] at h
  rw [Tie.pubkey_to_G1_eq, Tie.decompress_G1_eq, Tie.compress_G1_eq]
  exact C11.pubkeyToG1_g1ToPubkey P h

/-- Generated `decompress_G1(z)` looks only at the low 384 bits of `z`. -/
theorem decompress_G1_ignores_high_bits (z k : ℕ) :
    Gen.ExtraCodec.decompress_G1 (z + k * 2 ^ 384) = Gen.ExtraCodec.decompress_G1 z := by
  rw [Tie.decompress_G1_eq, Tie.decompress_G1_eq]; exact C11.decompressG1_ignores_high_bits z k

/-- Generated `decompress_G1` raises nothing but `ValueError`. -/
theorem decompress_G1_error_kind (z : ℕ) (e : PyErr) (h : Gen.ExtraCodec.decompress_G1 z = .error e) :
    e = .value := by
  rw [Tie.decompress_G1_eq] at h; exact C11.decompress_G1_error_kind z e h

/-- **Accept set of the generated `decompress_G1`.**  `decompress_G1(z)` returns a point iff either
    * flags `c = 1, b = 0` (any `a`), `x = z % 2^381` satisfies `0 < x < p`, and `x³ + 4` is a square mod `p`; or
    * flags `c = 1, b = 1, a = 0` and `z % 2^381 = 0` (the encoding of infinity).
    Everything else (wrong flag bits, coordinate `≥ p`, `x` with no `y` on the curve) raises `ValueError`. -/
theorem decompress_G1_accepts_iff (z : ℕ) :
    (∃ P, Gen.ExtraCodec.decompress_G1 z = .ok P) ↔
      ((∃ a, Gen.ExtraCodec.get_flags z = (true, false, a)) ∧ 0 < z % 2 ^ 381 ∧ z % 2 ^ 381 < blsP ∧
          ∃ y : ℕ, y * y % blsP = ((z % 2 ^ 381) ^ 3 + 4) % blsP)
      ∨ (Gen.ExtraCodec.get_flags z = (true, true, false) ∧ z % 2 ^ 381 = 0) := by
  rw [Tie.decompress_G1_eq, Tie.get_flags_eq]; exact C11.decompress_G1_accepts_iff z

/-- **Canonicity (G1).**  If a 384-bit word `z` is accepted by the generated `decompress_G1`, the decoded point is on
    the curve `y² = x³ + 4` and the generated `compress_G1` of it is `z` again: no two different 384-bit words decode
    to the same point, and nothing off the curve is ever returned. -/
theorem compress_decompress_G1 (z : ℕ) (hz : z < 2 ^ 384) (P : G1Pt)
    (h : Gen.ExtraCodec.decompress_G1 z = .ok P) :
    Gen.OptBls.is_on_curve P blsB = true ∧ Gen.ExtraCodec.compress_G1 P = z := by
  rw [Tie.decompress_G1_eq] at h
  rw [Tie.compress_G1_eq]; exact C11.compress_decompress_G1 z hz P h

/-- **Byte-level canonicity (G1).**  A 48-byte string accepted by the generated `pubkey_to_G1` is reproduced exactly by
    the generated `G1_to_pubkey` of the decoded point (and that point is on the curve). -/
theorem G1_to_pubkey_pubkey_to_G1 (bs : Bytes) (hlen : bs.length = 48) (P : G1Pt)
    (h : Gen.ExtraCodec.pubkey_to_G1 bs = .ok P) :
    Gen.OptBls.is_on_curve P blsB = true ∧ Gen.ExtraCodec.G1_to_pubkey P = .ok bs := by
  rw [Tie.pubkey_to_G1_eq] at h
  rw [Tie.G1_to_pubkey_eq]; exact C11.g1ToPubkey_pubkeyToG1 bs hlen P h

/-- **Round trip (G1), all on-curve points except the two with affine `x = 0`** (finding K1).  For every projective
    representative `P = (X, Y, Z)` of a point of `y² = x³ + 4` that is infinity (`Z = 0`) or has `X ≠ 0`: the generated
    `decompress_G1(compress_G1(P))` returns `Z1` for infinity, otherwise the normalized representative `(X/Z, Y/Z, 1)`;
    in both cases `eq(result, P)` holds.
    Partial, exactly as the model theorem `C11.decompress_compress_G1_partial`: the hypothesis `hx` excludes exactly
    the points `(0, ±2)`, on which the round trip raises `ValueError` (`x0_roundtrip_fails`); nothing else is missing. -/
theorem decompress_compress_G1_partial (P : G1Pt) (hon : Gen.OptBls.is_on_curve P blsB = true)
    (hx : P.2.2 ≠ 0 → P.1 ≠ 0) :
    Gen.ExtraCodec.decompress_G1 (Gen.ExtraCodec.compress_G1 P)
      = .ok (if Gen.OptBls.is_inf P then Z1 else Gen.OptBls.normalize1 P) ∧
    Gen.OptBls.eq (if Gen.OptBls.is_inf P then Z1 else Gen.OptBls.normalize1 P) P = true := by
  rw [Tie.decompress_G1_eq, Tie.compress_G1_eq]; exact C11.decompress_compress_G1_partial P hon hx

/-- the generator satisfies the hypotheses of the round-trip theorem -/
example : Gen.OptBls.is_on_curve blsG1 blsB = true ∧ (blsG1.2.2 ≠ 0 → blsG1.1 ≠ 0) := by decide +kernel

/-- **K1: the round trip fails on the two curve points with `x = 0`.**  For every finite triple with `X = 0` — in
    particular every representative of `(0, 2)`, `(0, p−2)` (`C11.x0_points_iff`) — the generated `compress_G1` emits a
    word that the generated `decompress_G1` rejects with `ValueError`. -/
theorem x0_roundtrip_fails (P : G1Pt) (hz : P.2.2 ≠ 0) (hX : P.1 = 0) :
    Gen.ExtraCodec.decompress_G1 (Gen.ExtraCodec.compress_G1 P) = .error .value := by
  rw [Tie.decompress_G1_eq, Tie.compress_G1_eq]; exact C11.x0_roundtrip_fails P hz hX

example : ((0 : F1), (Fq.ofInt 2 : F1), (1 : F1)).2.2 ≠ 0 ∧ ((0 : F1), (Fq.ofInt 2 : F1), (1 : F1)).1 = 0 := by
  decide +kernel

/-- a word satisfying the hypotheses of the canonicity theorem (the encoding of the generator) -/
example : Gen.ExtraCodec.compress_G1 blsG1 < 2 ^ 384 ∧
    ∃ P, Gen.ExtraCodec.decompress_G1 (Gen.ExtraCodec.compress_G1 blsG1) = .ok P :=
  ⟨compress_G1_lt _, _,
    (decompress_compress_G1_partial blsG1 (by decide +kernel) (by decide +kernel)).1⟩

/-! ## the `FQ2` square root -/

/-- **Generated `modular_squareroot_in_FQ2(value)` is correct** on every reduced `FQ2` value: it never raises (the
    `ValueError` of `.index` and the `IndexError` of the table lookup are dead); if it returns `y` then `y` is reduced,
    `y * y == value`, `y ≠ 0` and `y` is the root with sign flag 1 (the larger of `±y`, imaginary part first); and it
    returns `None` exactly when `value` is `0` or not a square in `Fp²`. -/
theorem modular_squareroot_in_FQ2_correct (v : F2) (hv : Canon v) :
    ∃ r, Gen.ExtraHashCodec.modular_squareroot_in_FQ2 v = .ok r ∧
      (∀ y, r = some y → Canon y ∧ y * y = v ∧ y ≠ 0 ∧ aflag y = 1) ∧
      (r = none ↔ (v = 0 ∨ ¬ IsSquare (toQ v))) := by
  refine ⟨_, Tie.modular_squareroot_in_FQ2_eq v, ?_, sqrt_none_iff' hv⟩
  intro y hy
  obtain ⟨h0, _, hfl⟩ := sqrt_is_larger hv hy
  exact ⟨sqrt_canon hv hy, sqrt_spec hv hy, h0, hfl⟩

example : Canon (blsB2 : F2) := canon_b2

/-! ## G2 -/

/-- Generated `compress_G2(pt)` raises (a `ValueError`, nothing else) exactly when `pt` fails the generated
    `is_on_curve(pt, b2)`. -/
theorem compress_G2_ok_iff (P : G2Pt) :
    ((∃ r, Gen.ExtraCodec.compress_G2 P = .ok r) ↔ Gen.OptBls.is_on_curve P blsB2 = true) ∧
    (∀ e, Gen.ExtraCodec.compress_G2 P = .error e → e = .value ∧ Gen.OptBls.is_on_curve P blsB2 = false) := by
  rw [Tie.compress_G2_eq]
  exact ⟨C11.compressG2_ok_iff P, fun e h => C11.compressG2_error_kind P e h⟩

/-- **ZCash layout (G2): word ranges and flags of the generated `compress_G2`.**  When it returns `(z1, z2)`: `z1` is a
    384-bit word, `z2 < p` (so the second word never carries flag bits), `c_flag(z1) = 1` and `b_flag(z1) = 1` exactly
    for infinity. -/
theorem compress_G2_range (P : G2Pt) (z1 z2 : ℕ) (h : Gen.ExtraCodec.compress_G2 P = .ok (z1, z2)) :
    z1 < 2 ^ 384 ∧ z2 < blsP ∧ z2 < 2 ^ 381 ∧
      (Gen.ExtraCodec.get_flags z1).1 = true ∧ (Gen.ExtraCodec.get_flags z1).2.1 = Gen.OptBls.is_inf P := by
  rw [Tie.compress_G2_eq] at h
  rw [Tie.get_flags_eq]; exact C11.compressG2_range P z1 z2 h

/-- **Generated `G2_to_signature(pt)` returns exactly 96 bytes** whenever it returns; it returns iff `pt` passes the
    generated `is_on_curve`, and otherwise raises `ValueError` (never `OverflowError`). -/
theorem G2_to_signature_length (P : G2Pt) :
    (Gen.OptBls.is_on_curve P blsB2 = true →
      ∃ bs, Gen.ExtraCodec.G2_to_signature P = .ok bs ∧ bs.length = 96) ∧
    (Gen.OptBls.is_on_curve P blsB2 = false → Gen.ExtraCodec.G2_to_signature P = .error .value) := by
  rw [Tie.G2_to_signature_eq]; exact C11.g2ToSignature_length P

/-- Generated `decompress_G2` raises nothing but `ValueError`. -/
theorem decompress_G2_error_kind (z1 z2 : ℕ) (e : PyErr)
    (h : Gen.ExtraCodec.decompress_G2 (z1, z2) = .error e) : e = .value := by
  rw [Tie.decompress_G2_eq] at h; exact C11.decompress_G2_error_kind z1 z2 e h

/-- **Any flag bit in the second word is refused.**  The generated `decompress_G2((z1, z2))` rejects every `z2 ≥ p`
    with `ValueError`, whatever `z1` is — in particular every `z2 ≥ 2^381`, i.e. with one of the three top bits (or
    any higher bit) set. -/
theorem decompress_G2_rejects_second_word (z1 z2 : ℕ) (h : blsP ≤ z2 ∨ 2 ^ 381 ≤ z2) :
    Gen.ExtraCodec.decompress_G2 (z1, z2) = .error .value := by
  rw [Tie.decompress_G2_eq]
  rcases h with h | h
  · exact C11.decompressG2_rejects_second_word z1 z2 h
  · exact C11.decompressG2_rejects_second_word_flags z1 z2 h

example : blsP ≤ blsP ∨ 2 ^ 381 ≤ blsP := Or.inl (Nat.le_refl _)

/-- Generated `decompress_G2((z1, z2))` looks only at the low 384 bits of `z1`. -/
theorem decompress_G2_ignores_high_bits (z1 z2 k : ℕ) :
    Gen.ExtraCodec.decompress_G2 (z1 + k * 2 ^ 384, z2) = Gen.ExtraCodec.decompress_G2 (z1, z2) := by
  rw [Tie.decompress_G2_eq, Tie.decompress_G2_eq]; exact C11.decompressG2_ignores_high_bits z1 z2 k

/-- **Shape of accepted G2 words.**  If the generated `decompress_G2((z1, z2))` returns `P` then `c_flag(z1) = 1` and
    either `b_flag = 1`, `a_flag = 0`, `z1 % 2^381 = 0`, `z2 = 0` and `P = Z2` (infinity), or `b_flag = 0`, both
    coordinate words are reduced, not both zero, the generated `modular_squareroot_in_FQ2(x**3 + b2)` returned some `y`,
    and `P = (x, ±y, FQ2.one())` with `x = FQ2([z2, z1 % 2^381])`: the decoded `x` is exactly the encoded one. -/
theorem decompress_G2_ok_shape (z1 z2 : ℕ) (P : G2Pt) (h : Gen.ExtraCodec.decompress_G2 (z1, z2) = .ok P) :
    (Gen.ExtraCodec.get_flags z1).1 = true ∧
    (((Gen.ExtraCodec.get_flags z1).2.1 = true ∧ (Gen.ExtraCodec.get_flags z1).2.2 = false ∧
        z1 % 2 ^ 381 = 0 ∧ z2 = 0 ∧ P = Z2) ∨
     ((Gen.ExtraCodec.get_flags z1).2.1 = false ∧ z1 % 2 ^ 381 < blsP ∧ z2 < blsP ∧
        ¬(z1 % 2 ^ 381 = 0 ∧ z2 = 0) ∧
        ∃ y, Gen.ExtraHashCodec.modular_squareroot_in_FQ2 (rhsOf2 z1 z2) = .ok (some y) ∧
          P = (encodedX2 z1 z2, pickY2 (Gen.ExtraCodec.get_flags z1).2.2 y, Fqp.ofInts [1, 0]))) := by
  rw [Tie.decompress_G2_eq] at h
  simp only [Tie.get_flags_eq, Tie.modular_squareroot_in_FQ2_eq, Except.ok.injEq]
  exact C11.decompressG2_ok_shape z1 z2 P h

/-- **Round trip for G2, every on-curve point, any projective representative.**  For every well-formed triple
    `P = (X, Y, Z)` of `FQ2` objects that passes the generated `is_on_curve(P, b2)`: the generated `compress_G2(P)`
    returns a pair `(z1, z2)`, and the generated `decompress_G2((z1, z2))` returns `Z2` for infinity and otherwise the
    normalized representative `(X/Z, Y/Z, 1)`; in both cases `eq(result, P)` holds.  No point is excluded. -/
theorem decompress_compress_G2 (P : G2Pt) (hc : CanonPt P) (hon : Gen.OptBls.is_on_curve P blsB2 = true) :
    ∃ z1 z2, Gen.ExtraCodec.compress_G2 P = .ok (z1, z2) ∧
      Gen.ExtraCodec.decompress_G2 (z1, z2)
        = .ok (if Gen.OptBls.is_inf P then Z2 else Gen.OptBls.normalize1 P) ∧
      Gen.OptBls.eq (if Gen.OptBls.is_inf P then Z2 else Gen.OptBls.normalize1 P) P = true := by
  obtain ⟨z1, z2, h1, h2, h3⟩ := C11.decompress_compress_G2 P hc hon
  exact ⟨z1, z2, by rw [Tie.compress_G2_eq]; exact h1, by rw [Tie.decompress_G2_eq]; exact h2, h3⟩

/-- the G2 generator, a non-normalized representative of `2·G2`, and infinity are well-formed on-curve triples -/
example : CanonPt blsG2 ∧ Gen.OptBls.is_on_curve blsG2 blsB2 = true ∧
    CanonPt (Gen.OptBls.double blsG2) ∧ Gen.OptBls.is_on_curve (Gen.OptBls.double blsG2) blsB2 = true ∧
    (Gen.OptBls.double blsG2).2.2 ≠ 1 ∧ CanonPt Z2 ∧ Gen.OptBls.is_on_curve Z2 blsB2 = true := by
  decide +kernel

/-- **Canonicity for G2.**  If the generated `decompress_G2((z1, z2))` returns `P` and `z1` is a 384-bit word, then `P`
    is a well-formed triple on the twist curve and the generated `compress_G2(P)` is `(z1, z2)` again: no two different
    pairs with `z1 < 2^384` decode to the same point. -/
theorem compress_decompress_G2 (z1 z2 : ℕ) (hz : z1 < 2 ^ 384) (P : G2Pt)
    (h : Gen.ExtraCodec.decompress_G2 (z1, z2) = .ok P) :
    CanonPt P ∧ Gen.OptBls.is_on_curve P blsB2 = true ∧ Gen.ExtraCodec.compress_G2 P = .ok (z1, z2) := by
  rw [Tie.decompress_G2_eq] at h
  rw [Tie.compress_G2_eq]; exact C11.compress_decompress_G2 z1 z2 hz P h

/-- **Accept set of the generated `decompress_G2`: exactly the canonical encodings.**  `decompress_G2((z1, z2))` returns
    a point iff either
    * flags of `z1` are `c = 1, b = 0` (any `a`), both coordinate words are reduced (`z1 % 2^381 < p`, `z2 < p`), and
      `x³ + 4(1+i)` with `x = FQ2([z2, z1 % 2^381])` is the square of some `FQ2` object; or
    * flags `c = 1, b = 1, a = 0` and `z1 % 2^381 = 0`, `z2 = 0` (the encoding of infinity).
    Everything else raises `ValueError`. -/
theorem decompress_G2_accepts_iff (z1 z2 : ℕ) :
    (∃ P, Gen.ExtraCodec.decompress_G2 (z1, z2) = .ok P) ↔
      ((∃ a, Gen.ExtraCodec.get_flags z1 = (true, false, a)) ∧ z1 % 2 ^ 381 < blsP ∧ z2 < blsP ∧
          ∃ w : F2, Canon w ∧ w * w = rhsOf2 z1 z2)
      ∨ (Gen.ExtraCodec.get_flags z1 = (true, true, false) ∧ z1 % 2 ^ 381 = 0 ∧ z2 = 0) := by
  rw [Tie.decompress_G2_eq, Tie.get_flags_eq]; exact C11.decompress_G2_accepts_iff z1 z2

/-- **96-byte round trip.**  For every well-formed on-curve triple `P`, the generated `G2_to_signature(P)` returns 96
    bytes and the generated `signature_to_G2` of them returns `Z2` for infinity, else the normalized representative. -/
theorem signature_to_G2_G2_to_signature_roundtrip (P : G2Pt) (hc : CanonPt P)
    (hon : Gen.OptBls.is_on_curve P blsB2 = true) :
    ∃ bs, Gen.ExtraCodec.G2_to_signature P = .ok bs ∧ bs.length = 96 ∧
      Gen.ExtraCodec.signature_to_G2 bs
        = .ok (if Gen.OptBls.is_inf P then Z2 else Gen.OptBls.normalize1 P) := by
  obtain ⟨bs, h1, h2, h3⟩ := C11.signatureToG2_g2ToSignature_roundtrip P hc hon
  exact ⟨bs, by rw [Tie.G2_to_signature_eq]; exact h1, h2, by rw [Tie.signature_to_G2_eq]; exact h3⟩

/-- **96-byte canonicity.**  A 96-byte string accepted by the generated `signature_to_G2` is reproduced exactly by the
    generated `G2_to_signature` of the decoded point (which is on the twist curve). -/
theorem G2_to_signature_signature_to_G2 (bs : Bytes) (hlen : bs.length = 96) (P : G2Pt)
    (h : Gen.ExtraCodec.signature_to_G2 bs = .ok P) :
    Gen.OptBls.is_on_curve P blsB2 = true ∧ Gen.ExtraCodec.G2_to_signature P = .ok bs := by
  rw [Tie.signature_to_G2_eq] at h
  rw [Tie.G2_to_signature_eq]; exact C11.g2ToSignature_signatureToG2 bs hlen P h

/-- a pair satisfying the hypotheses of the canonicity theorem and a 96-byte string accepted by `signature_to_G2`
    (the encodings of the generator) -/
example : (∃ z1 z2 P, z1 < 2 ^ 384 ∧ Gen.ExtraCodec.decompress_G2 (z1, z2) = .ok P) ∧
    (∃ bs P, bs.length = 96 ∧ Gen.ExtraCodec.signature_to_G2 bs = .ok P) := by
  constructor
  · obtain ⟨z1, z2, h1, h2, _⟩ := decompress_compress_G2 blsG2 (by decide +kernel) (by decide +kernel)
    exact ⟨z1, z2, _, (compress_G2_range blsG2 z1 z2 h1).1, h2⟩
  · obtain ⟨bs, _, hl, hs⟩ :=
      signature_to_G2_G2_to_signature_roundtrip blsG2 (by decide +kernel) (by decide +kernel)
    exact ⟨bs, _, hl, hs⟩

end PyEcc.C11.Gen
